(* C17 — the structural invariant and its preservation by the building blocks
   (removal, fresh ids, add_core, the pixel / world loops, update_world) *)
From Coq Require Import ZArith List Bool Lia Permutation.
Import ListNotations.
From GV Require Import Common.Wire C17.Model C17.Lemmas1 C17.Lemmas2 C17.Lemmas3.
Open Scope Z_scope.

(* the part that survives while the world ids are being rebuilt *)
Record pinv (s : st) : Prop := {
  p_nodup : NoDup (keys (comps s));
  p_pixel : forall i c, nth_error (pixel s) i = Some c -> assoc c (comps s) = Some (KCoord false (Z.of_nat i));
  p_coord : forall c w a, In (c, KCoord w a) (comps s) -> In c (if w then world s else pixel s);
  p_fresh : forall c, In c (keys (comps s)) -> c < next s;
  p_stuck : stuck s = false
}.
Definition world_ok (s : st) : Prop :=
  forall i c, nth_error (world s) i = Some c -> assoc c (comps s) = Some (KCoord true (Z.of_nat i)).
Definition winv (s : st) : Prop := pinv s /\ world_ok s.

(* the invariant of the property *)
Record data_inv (s : st) : Prop := {
  inv_w : winv s;
  inv_shape : forall c sh, In (c, KMain sh) (comps s) -> sh = shape s;
  inv_pixel_len : length (pixel s) = length (shape s);
  inv_world_len : length (world s) = match crd s with Some _ => length (shape s) | None => O end;
  inv_queue : queue s = None
}.

Definition mains_sub (s' s : st) : Prop := forall c sh, In (c, KMain sh) (comps s') -> In (c, KMain sh) (comps s).

Lemma pinv_core : forall a b, core a = core b -> pinv a -> pinv b.
Proof.
  intros a b H [n p c f k]. core_inj H. constructor; rewrite <- ?Hcomps, <- ?Hpixel, <- ?Hworld, <- ?Hnext, <- ?Hstuck; assumption.
Qed.

Lemma world_ok_core : forall a b, core a = core b -> world_ok a -> world_ok b.
Proof. intros a b H W. core_inj H. unfold world_ok in *. rewrite <- Hcomps, <- Hworld. exact W. Qed.

Lemma winv_core : forall a b, core a = core b -> winv a -> winv b.
Proof. intros a b H [P W]. split; [eapply pinv_core | eapply world_ok_core]; eassumption. Qed.

Lemma nth_error_In' : forall (l : list Z) i c, nth_error l i = Some c -> In c l.
Proof. intros. eapply nth_error_In. exact H. Qed.

Lemma all_nth_none : forall (l : list Z), (forall i c, nth_error l i = Some c -> False) -> l = [].
Proof. intros [|x l] H; [reflexivity|]. exfalso. apply (H O x). reflexivity. Qed.

(* ---------- removal ---------- *)
Lemma rm_entry : forall P s s' out x k, NoDup (keys (comps s)) -> rm_spec P s s' out ->
  In (x, k) (comps s) -> ~ P x -> is_derived k = false -> In (x, k) (comps s').
Proof.
  intros P s s' out x k ND S Hin HP Hk.
  destruct (rm_sub _ _ _ _ S) as [f Hf].
  destruct (in_dec Z.eq_dec x (keys (comps s'))) as [H|H].
  - rewrite Hf in *. apply sub_entry; assumption.
  - destruct (rm_only _ _ _ _ S x k Hin H) as [H1|H1]; [contradiction | congruence].
Qed.

Lemma rm_sub_In : forall P s s' out x k, rm_spec P s s' out -> In (x, k) (comps s') -> In (x, k) (comps s).
Proof. intros P s s' out x k S H. destruct (rm_sub _ _ _ _ S) as [f Hf]. rewrite Hf in H. apply filter_In in H. tauto. Qed.

Lemma rm_nodup' : forall P s s' out, NoDup (keys (comps s)) -> rm_spec P s s' out -> NoDup (keys (comps s')).
Proof. intros P s s' out ND S. destruct (rm_sub _ _ _ _ S) as [f Hf]. rewrite Hf. apply NoDup_keys_filter. exact ND. Qed.

Ltac rest_inj S :=
  let R := fresh "R" in
  pose proof (rm_rest _ _ _ _ S) as R; unfold rest in R;
  let H1 := fresh "Rshape" in let H2 := fresh "Rpixel" in let H3 := fresh "Rworld" in let H4 := fresh "Rcrd" in
  let H5 := fresh "Rclinks" in let H6 := fresh "Rlabels" in let H7 := fresh "Rparents" in let H8 := fresh "Rdlabel" in let H9 := fresh "Rnext" in
  injection R as H1 H2 H3 H4 H5 H6 H7 H8 H9.

Lemma rm_pinv : forall P s s' out, pinv s -> rm_spec P s s' out -> (forall x, P x -> ~ In x (pixel s)) -> pinv s'.
Proof.
  intros P s s' out [n p c f k] S HP. rest_inj S.
  pose proof (rm_nodup' _ _ _ _ n S) as ND'.
  constructor.
  - exact ND'.
  - rewrite Rpixel. intros i x Hx. apply In_assoc; [exact ND'|].
    eapply rm_entry; [exact n | exact S | apply assoc_Some_In; apply p; exact Hx | | reflexivity].
    intros HPx. apply (HP x HPx). eapply nth_error_In'. exact Hx.
  - rewrite Rpixel, Rworld. intros x w a Hin. apply (c x w a). eapply rm_sub_In; eassumption.
  - rewrite Rnext. intros x Hx. apply f. destruct (rm_sub _ _ _ _ S) as [g Hg]. rewrite Hg in Hx. eapply sub_keys. exact Hx.
  - rewrite (rm_stuck _ _ _ _ S). exact k.
Qed.

Lemma rm_world_ok : forall P s s' out, NoDup (keys (comps s)) -> world_ok s -> rm_spec P s s' out ->
  (forall x, P x -> ~ In x (world s)) -> world_ok s'.
Proof.
  intros P s s' out ND W S HP. rest_inj S. unfold world_ok. rewrite Rworld. intros i x Hx.
  apply In_assoc; [eapply rm_nodup'; eassumption|].
  eapply rm_entry; [exact ND | exact S | apply assoc_Some_In; apply W; exact Hx | | reflexivity].
  intros HPx. apply (HP x HPx). eapply nth_error_In'. exact Hx.
Qed.

Lemma rm_mains : forall P s s' out, rm_spec P s s' out -> mains_sub s' s.
Proof. intros P s s' out S c sh H. eapply rm_sub_In; eassumption. Qed.

Lemma remove_component_spec : forall c s, NoDup (keys (comps s)) -> exists out, rm_spec (eq c) s (remove_component c s) out.
Proof. intros c s ND. unfold remove_component. apply remove_fuel_spec; [lia | exact ND]. Qed.

(* ---------- fresh ids, add_core ---------- *)
Lemma fresh_fields : forall l s, fst (fresh l s) = next s /\
  let s' := snd (fresh l s) in
  shape s' = shape s /\ comps s' = comps s /\ pixel s' = pixel s /\ world s' = world s /\ crd s' = crd s /\
  clinks s' = clinks s /\ dlabel s' = dlabel s /\ hub s' = hub s /\ ext s' = ext s /\ next s' = next s + 1 /\
  log s' = log s /\ queue s' = queue s /\ stuck s' = stuck s.
Proof. intros. unfold fresh. simpl. repeat split. Qed.

(* what storing a component under an id does to the table *)
Record put_spec (c : cid) (k : kind) (s s' : st) : Prop := {
  ps_comps : comps s' = put c k (comps s);
  ps_shape : shape s' = shape s; ps_pixel : pixel s' = pixel s; ps_world : world s' = world s; ps_crd : crd s' = crd s;
  ps_next : next s' = next s; ps_stuck : stuck s' = stuck s; ps_hub : hub s' = hub s; ps_dlabel : dlabel s' = dlabel s;
  ps_labels : labels s' = labels s; ps_parents : parents s' = parents s; ps_clinks : clinks s' = clinks s
}.

Lemma add_core_spec : forall c k s, put_spec c k s (add_core c k s) /\
  effect s (add_core c k s) (if has_key c (comps s) then [] else [MAdd c; MChanged]).
Proof.
  intros c k s. unfold add_core.
  set (s1 := set_comps s (put c k (comps s))).
  assert (E0 : effect s s1 []) by (apply effect_same_hub; reflexivity).
  destruct (has_key c (comps s)).
  - split; [constructor; reflexivity | exact E0].
  - pose proof (core_emit MChanged (emit (MAdd c) s1)) as C1. pose proof (core_emit (MAdd c) s1) as C2.
    core_inj C1. core_inj C2. split.
    + constructor; simpl; congruence.
    + replace [MAdd c; MChanged] with ([] ++ [MAdd c] ++ [MChanged]) by reflexivity.
      eapply effect_trans; [exact E0|]. eapply effect_trans; apply effect_emit; reflexivity.
Qed.

Lemma put_pinv : forall c k s s', pinv s -> put_spec c k s s' -> ~ In c (pixel s) -> is_coord k = false -> c < next s -> pinv s'.
Proof.
  intros c k s s' [n p co f st] [Hc Hsh Hp Hw Hcr Hn Hst _ _ _ _ _] Hnp Hk Hlt.
  constructor.
  - rewrite Hc. apply NoDup_keys_put. exact n.
  - rewrite Hp, Hc. intros i x Hx. rewrite assoc_put_other; [apply p; exact Hx|].
    intros ->. apply Hnp. eapply nth_error_In'. exact Hx.
  - rewrite Hp, Hw, Hc. intros x w a Hin. apply In_put_iff in Hin; [|exact n].
    destruct Hin as [[-> <-]|[_ Hin]]; [simpl in Hk; discriminate | apply (co x w a Hin)].
  - rewrite Hn, Hc. intros x Hx. rewrite keys_put in Hx. destruct (has_key c (comps s)); [apply f; exact Hx|].
    apply in_app_iff in Hx. destruct Hx as [Hx|[<-|[]]]; [apply f; exact Hx | exact Hlt].
  - rewrite Hst. exact st.
Qed.

Lemma put_world_ok : forall c k s s', world_ok s -> put_spec c k s s' -> ~ In c (world s) -> world_ok s'.
Proof.
  intros c k s s' W [Hc _ _ Hw _ _ _ _ _ _ _ _] Hnw. unfold world_ok. rewrite Hw, Hc. intros i x Hx.
  rewrite assoc_put_other; [apply W; exact Hx|]. intros ->. apply Hnw. eapply nth_error_In'. exact Hx.
Qed.

Lemma put_mains : forall c k s s' sh0, NoDup (keys (comps s)) -> put_spec c k s s' ->
  (forall x sh, In (x, KMain sh) (comps s) -> sh = sh0) -> (forall sh, k = KMain sh -> sh = sh0) ->
  forall x sh, In (x, KMain sh) (comps s') -> sh = sh0.
Proof.
  intros c k s s' sh0 ND [Hc _ _ _ _ _ _ _ _ _ _ _] Hold Hk x sh Hin. rewrite Hc in Hin.
  apply In_put_iff in Hin; [|exact ND]. destruct Hin as [[-> <-]|[_ Hin]]; [apply Hk; reflexivity | eapply Hold; exact Hin].
Qed.

(* ---------- one coordinate component ---------- *)
Definition clist (w : bool) (s : st) : list cid := if w then world s else pixel s.

Record coord_step (w : bool) (i : Z) (s s' : st) : Prop := {
  cs_comps : comps s' = put (next s) (KCoord w i) (comps s);
  cs_list : clist w s' = clist w s ++ [next s];
  cs_other : clist (negb w) s' = clist (negb w) s;
  cs_next : next s' = next s + 1;
  cs_shape : shape s' = shape s; cs_crd : crd s' = crd s; cs_stuck : stuck s' = stuck s; cs_hub : hub s' = hub s;
  cs_dlabel : dlabel s' = dlabel s;
  cs_eff : effect s s' [MAdd (next s); MChanged]
}.

Lemma add_coord_step : forall w lbl s i, ~ In (next s) (keys (comps s)) -> coord_step w i s (add_coord w lbl s i).
Proof.
  intros w lbl s i Hfr. unfold add_coord.
  destruct (fresh_fields (lbl i) s) as [F1 F2]. destruct (fresh (lbl i) s) as [c a1] eqn:EF. simpl in F1, F2. subst c.
  destruct F2 as (Fsh & Fco & Fpx & Fwo & Fcr & Fcl & Fdl & Fhu & Fex & Fnx & Flo & Fqu & Fst).
  destruct (add_core_spec (next s) (KCoord w i) a1) as [PS EF2].
  set (a2 := add_core (next s) (KCoord w i) a1) in *.
  destruct PS as [Hc Hsh Hp Hw Hcr Hn Hst Hh Hdl _ _ _].
  assert (Hk : has_key (next s) (comps a1) = false) by (rewrite Fco; apply has_key_false; exact Hfr).
  rewrite Hk in EF2.
  assert (E1 : effect s a1 []) by (apply effect_same_hub; assumption).
  assert (E2 : effect s a2 [MAdd (next s); MChanged]).
  { replace [MAdd (next s); MChanged] with ([] ++ [MAdd (next s); MChanged]) by reflexivity. eapply effect_trans; eassumption. }
  destruct w; simpl.
  - constructor; simpl.
    + rewrite Hc, Fco. reflexivity.
    + rewrite Hw, Fwo. reflexivity.
    + rewrite Hp, Fpx. reflexivity.
    + rewrite Hn, Fnx. reflexivity.
    + rewrite Hsh, Fsh. reflexivity.
    + rewrite Hcr, Fcr. reflexivity.
    + rewrite Hst, Fst. reflexivity.
    + rewrite Hh, Fhu. reflexivity.
    + rewrite Hdl, Fdl. reflexivity.
    + replace [MAdd (next s); MChanged] with ([MAdd (next s); MChanged] ++ []) by reflexivity.
      eapply effect_trans; [exact E2 | apply effect_same_hub; reflexivity].
  - constructor; simpl.
    + rewrite Hc, Fco. reflexivity.
    + rewrite Hp, Fpx. reflexivity.
    + rewrite Hw, Fwo. reflexivity.
    + rewrite Hn, Fnx. reflexivity.
    + rewrite Hsh, Fsh. reflexivity.
    + rewrite Hcr, Fcr. reflexivity.
    + rewrite Hst, Fst. reflexivity.
    + rewrite Hh, Fhu. reflexivity.
    + rewrite Hdl, Fdl. reflexivity.
    + replace [MAdd (next s); MChanged] with ([MAdd (next s); MChanged] ++ []) by reflexivity.
      eapply effect_trans; [exact E2 | apply effect_same_hub; reflexivity].
Qed.

Lemma nth_error_snoc : forall (l : list Z) x i c, nth_error (l ++ [x]) i = Some c ->
  (nth_error l i = Some c) \/ (i = length l /\ c = x).
Proof.
  intros l x i c H. destruct (lt_dec i (length l)) as [Hl|Hl].
  - left. rewrite nth_error_app1 in H by exact Hl. exact H.
  - right. rewrite nth_error_app2 in H by lia. destruct (i - length l)%nat eqn:E; simpl in H.
    + inversion H. split; [lia | reflexivity].
    + destruct n; discriminate.
Qed.

Lemma coord_step_winv : forall w i s s', winv s -> coord_step w i s s' -> i = Z.of_nat (length (clist w s)) -> winv s'.
Proof.
  intros w i s s' [[n p co f st] W] CS Hi.
  destruct CS as [Hc Hl Ho Hn Hsh Hcr Hst _ _ _].
  assert (Hfr : ~ In (next s) (keys (comps s))) by (intros H; apply f in H; lia).
  assert (Hnp : ~ In (next s) (pixel s)).
  { intros H. apply In_nth_error in H. destruct H as [j H]. apply p in H. apply assoc_In_keys in H. contradiction. }
  assert (Hnw : ~ In (next s) (world s)).
  { intros H. apply In_nth_error in H. destruct H as [j H]. apply W in H. apply assoc_In_keys in H. contradiction. }
  assert (ND' : NoDup (keys (comps s'))) by (rewrite Hc; apply NoDup_keys_put; exact n).
  split; [constructor|].
  - exact ND'.
  - intros j x Hx. rewrite Hc. destruct w; simpl in *.
    + rewrite Ho in Hx. rewrite assoc_put_other; [apply p; exact Hx|]. intros ->. apply Hnp. eapply nth_error_In'. exact Hx.
    + rewrite Hl in Hx. apply nth_error_snoc in Hx. destruct Hx as [Hx|[-> ->]].
      * rewrite assoc_put_other; [apply p; exact Hx|]. intros ->. apply Hnp. eapply nth_error_In'. exact Hx.
      * rewrite assoc_put_same. subst i. reflexivity.
  - intros x w' a Hin. rewrite Hc in Hin. apply In_put_iff in Hin; [|exact n].
    destruct Hin as [[-> E]|[_ Hin]].
    + inversion E; subst w' a. fold (clist w s'). rewrite Hl. apply in_app_iff. right. left. reflexivity.
    + apply co in Hin. fold (clist w' s) in Hin. fold (clist w' s').
      destruct (Bool.bool_dec w' w) as [->|Hne].
      * rewrite Hl. apply in_app_iff. left. exact Hin.
      * assert (E : w' = negb w) by (destruct w, w'; simpl; congruence). subst w'. rewrite Ho. exact Hin.
  - rewrite Hn, Hc. intros x Hx. rewrite keys_put in Hx. destruct (has_key (next s) (comps s)).
    + apply f in Hx. lia.
    + apply in_app_iff in Hx. destruct Hx as [Hx|[<-|[]]]; [apply f in Hx; lia | lia].
  - rewrite Hst. exact st.
  - unfold world_ok. intros j x Hx. rewrite Hc. destruct w; simpl in *.
    + rewrite Hl in Hx. apply nth_error_snoc in Hx. destruct Hx as [Hx|[-> ->]].
      * rewrite assoc_put_other; [apply W; exact Hx|]. intros ->. apply Hnw. eapply nth_error_In'. exact Hx.
      * rewrite assoc_put_same. subst i. reflexivity.
    + rewrite Ho in Hx. rewrite assoc_put_other; [apply W; exact Hx|]. intros ->. apply Hnw. eapply nth_error_In'. exact Hx.
Qed.

Lemma upto_seq : forall n, upto n = map Z.of_nat (seq 0 n).
Proof.
  induction n as [|n IH]; [reflexivity|]. simpl upto. rewrite seq_S, map_app, <- IH. reflexivity.
Qed.

(* the loop that creates the pixel (w = false) or world (w = true) components for axes k, k+1, ... *)
Record coord_loop (w : bool) (m : nat) (s s' : st) : Prop := {
  cl_winv : winv s';
  cl_len : length (clist w s') = (length (clist w s) + m)%nat;
  cl_other : clist (negb w) s' = clist (negb w) s;
  cl_mains : mains_sub s' s;
  cl_shape : shape s' = shape s; cl_crd : crd s' = crd s; cl_hub : hub s' = hub s; cl_dlabel : dlabel s' = dlabel s;
  cl_queue : queue s = None -> queue s' = None;
  cl_next : next s <= next s';
  cl_keys : forall x, In x (keys (comps s')) -> In x (keys (comps s)) \/ next s <= x
}.

Lemma coord_loop_spec : forall w lbl m k s, winv s -> length (clist w s) = k ->
  coord_loop w m s (fold_left (add_coord w lbl) (map Z.of_nat (seq k m)) s).
Proof.
  induction m as [|m IH]; intros k s WI Hk; simpl.
  - constructor; auto; try lia. intros c sh H. exact H.
  - assert (Hfr : ~ In (next s) (keys (comps s))).
    { intros H. destruct WI as [[_ _ _ f _] _]. apply f in H. lia. }
    pose proof (add_coord_step w lbl s (Z.of_nat k) Hfr) as CS.
    set (s1 := add_coord w lbl s (Z.of_nat k)) in *.
    assert (WI1 : winv s1) by (eapply coord_step_winv; [exact WI | exact CS | rewrite Hk; reflexivity]).
    assert (Hk1 : length (clist w s1) = S k) by (rewrite (cs_list _ _ _ _ CS), app_length, Hk; simpl; lia).
    destruct (IH (S k) s1 WI1 Hk1) as [a b c d e f g h q nx ky].
    constructor.
    + exact a.
    + rewrite b, Hk1, Hk. lia.
    + rewrite c. apply (cs_other _ _ _ _ CS).
    + intros x sh Hin. apply d in Hin. rewrite (cs_comps _ _ _ _ CS) in Hin.
      destruct WI as [[n _ _ _ _] _]. apply In_put_iff in Hin; [|exact n].
      destruct Hin as [[_ E]|[_ Hin]]; [discriminate | exact Hin].
    + rewrite e. apply (cs_shape _ _ _ _ CS).
    + rewrite f. apply (cs_crd _ _ _ _ CS).
    + rewrite g. apply (cs_hub _ _ _ _ CS).
    + rewrite h. apply (cs_dlabel _ _ _ _ CS).
    + intros Q. apply q. apply (ef_queue _ _ _ (cs_eff _ _ _ _ CS)). exact Q.
    + rewrite (cs_next _ _ _ _ CS) in nx. lia.
    + intros x Hx. apply ky in Hx. rewrite (cs_next _ _ _ _ CS) in Hx. destruct Hx as [Hx|Hx]; [|right; lia].
      rewrite (cs_comps _ _ _ _ CS), keys_put in Hx. destruct (has_key (next s) (comps s)); [left; exact Hx|].
      apply in_app_iff in Hx. destruct Hx as [Hx|[<-|[]]]; [left; exact Hx | right; lia].
Qed.

(* ---------- Data._update_world_components ---------- *)
Record world_loop (l : list cid) (s s' : st) : Prop := {
  wl_pinv : pinv s';
  wl_world : world s' = filter (fun x => negb (memz x l)) (world s);
  wl_pixel : pixel s' = pixel s;
  wl_mains : mains_sub s' s;
  wl_shape : shape s' = shape s; wl_crd : crd s' = crd s; wl_hub : hub s' = hub s; wl_dlabel : dlabel s' = dlabel s;
  wl_next : next s' = next s;
  wl_keys : forall x, In x (keys (comps s')) -> In x (keys (comps s))
}.

Lemma filter_true : forall A (l : list A), filter (fun _ => true) l = l.
Proof. induction l; simpl; [reflexivity | f_equal; assumption]. Qed.

Lemma world_loop_spec : forall l s, pinv s -> (forall c, In c l -> ~ In c (pixel s)) ->
  world_loop l s (fold_left drop_world l s).
Proof.
  induction l as [|c l IH]; intros s PI Hd; simpl.
  - constructor; auto. + simpl. symmetry. apply filter_true. + intros x sh H. exact H.
  - unfold drop_world at 2.
    destruct (remove_component_spec c s (p_nodup _ PI)) as [out S].
    set (a := remove_component c s) in *.
    assert (PA : pinv a).
    { eapply rm_pinv; [exact PI | exact S |]. intros x <-. apply Hd. left. reflexivity. }
    rest_inj S.
    set (s1 := set_world a (removez c (world a))).
    assert (P1 : pinv s1).
    { destruct PA as [n p co f st]. constructor; simpl; try assumption.
      intros x w k Hin. pose proof (co x w k Hin) as H. destruct w; [|exact H].
      apply removez_In. split; [exact H|]. intros ->.
      apply (rm_target _ _ _ _ S c eq_refl). eapply In_keys. exact Hin. }
    assert (Hd1 : forall x, In x l -> ~ In x (pixel s1)).
    { intros x Hx. simpl. rewrite Rpixel. apply Hd. right. exact Hx. }
    destruct (IH s1 P1 Hd1) as [a1 b1 c1 d1 e1 f1 g1 h1 n1 k1].
    constructor.
    + exact a1.
    + rewrite b1. simpl. rewrite Rworld. unfold removez. rewrite filter_filter. apply filter_ext.
      intros x. simpl. rewrite negb_orb. reflexivity.
    + rewrite c1. simpl. exact Rpixel.
    + intros x sh H. apply d1 in H. simpl in H. eapply rm_mains; eassumption.
    + rewrite e1. simpl. exact Rshape.
    + rewrite f1. simpl. exact Rcrd.
    + rewrite g1. simpl. apply (ef_hub _ _ _ (rm_eff _ _ _ _ S)).
    + rewrite h1. simpl. exact Rdlabel.
    + rewrite n1. simpl. exact Rnext.
    + intros x Hx. apply k1 in Hx. simpl in Hx. destruct (rm_sub _ _ _ _ S) as [g Hg]. rewrite Hg in Hx. eapply sub_keys. exact Hx.
Qed.

Lemma filter_self_out : forall (l : list Z), filter (fun x => negb (memz x l)) l = [].
Proof.
  intros l. assert (H : forall l', (forall x, In x l' -> In x l) -> filter (fun x => negb (memz x l)) l' = []).
  { induction l' as [|y l' IH]; intros Hs; simpl; [reflexivity|].
    assert (E : memz y l = true) by (apply memz_In; apply Hs; left; reflexivity). rewrite E. simpl.
    apply IH. intros x Hx. apply Hs. right. exact Hx. }
  apply H. auto.
Qed.

Record uw_spec (nd : nat) (s s' : st) : Prop := {
  uw_winv : winv s';
  uw_len : length (world s') = match crd s with Some _ => nd | None => O end;
  uw_pixel : pixel s' = pixel s;
  uw_mains : mains_sub s' s;
  uw_shape : shape s' = shape s; uw_crd : crd s' = crd s; uw_hub : hub s' = hub s; uw_dlabel : dlabel s' = dlabel s;
  uw_queue : queue s' = None;
  uw_next : next s <= next s';
  uw_keys : forall x, In x (keys (comps s')) -> In x (keys (comps s)) \/ next s <= x
}.

Lemma update_world_spec : forall nd s, winv s -> uw_spec nd s (update_world nd s).
Proof.
  intros nd s [PI W]. unfold update_world.
  set (s0 := pause s).
  assert (C0 : core s0 = core s) by apply core_pause.
  assert (P0 : pinv s0) by (eapply pinv_core; [symmetry; exact C0 | exact PI]).
  pose proof C0 as C0'. core_inj C0'.
  assert (Hd : forall c, In c (world s0) -> ~ In c (pixel s0)).
  { rewrite Hworld, Hpixel. intros c Hw Hp. apply In_nth_error in Hw. destruct Hw as [i Hw]. apply In_nth_error in Hp. destruct Hp as [j Hp].
    apply W in Hw. apply (p_pixel _ PI) in Hp. congruence. }
  destruct (world_loop_spec (world s0) s0 P0 Hd) as [a1 b1 c1 d1 e1 f1 g1 h1 n1 k1].
  set (s1 := fold_left drop_world (world s0) s0) in *.
  rewrite filter_self_out in b1.
  set (s2 := set_clinks s1 []).
  assert (WI2 : winv s2).
  { split; [destruct a1; constructor; simpl; assumption|]. unfold world_ok. simpl. rewrite b1. intros i c H. destruct i; discriminate. }
  assert (Mains2 : mains_sub s2 s).
  { intros x sh H. simpl in H. apply d1 in H. rewrite Hcomps in H. exact H. }
  destruct (crd s2) as [co|] eqn:Ecrd.
  - pose proof (coord_loop_spec true (fun i => world_label (co_kind co) i (Z.of_nat nd)) nd O s2 WI2) as CL.
    simpl in CL. rewrite b1 in CL. specialize (CL eq_refl). rewrite <- upto_seq in CL.
    set (a := fold_left (add_coord true (fun i => world_label (co_kind co) i (Z.of_nat nd))) (upto nd) s2) in *.
    destruct CL as [cw cl co' cm csh ccr ch cdl cq cn ck].
    set (s3 := set_clinks a (setup_clinks nd a)).
    assert (C3 : core (flush s3) = core s3) by apply core_flush.
    assert (crd s = Some co) as Ecrd0 by (simpl in Ecrd; congruence).
    core_inj C3. simpl in *. constructor.
    + eapply winv_core; [symmetry; apply core_flush|]. destruct cw as [[n p cc f st] ww]. split; [constructor|]; simpl; assumption.
    + rewrite Hworld0. simpl. rewrite Ecrd0. rewrite cl, b1. reflexivity.
    + rewrite Hpixel0. simpl. rewrite co'. congruence.
    + intros x sh H. rewrite Hcomps0 in H. simpl in H. apply cm in H. apply Mains2. exact H.
    + rewrite Hshape0. simpl. congruence.
    + rewrite Hcrd0. simpl. congruence.
    + rewrite Hhub0. simpl. congruence.
    + rewrite Hdlabel0. simpl. congruence.
    + apply queue_flush.
    + rewrite Hnext0. simpl. lia.
    + rewrite Hcomps0. simpl. intros x Hx. apply ck in Hx. simpl in Hx. destruct Hx as [Hx|Hx]; [left | right; lia].
      apply k1 in Hx. rewrite Hcomps in Hx. exact Hx.
  - assert (C3 : core (flush s2) = core s2) by apply core_flush.
    assert (crd s = None) as Ecrd0 by (simpl in Ecrd; congruence).
    core_inj C3. simpl in *. constructor.
    + eapply winv_core; [symmetry; apply core_flush | exact WI2].
    + rewrite Hworld0. simpl. rewrite Ecrd0, b1. reflexivity.
    + rewrite Hpixel0. simpl. congruence.
    + intros x sh H. rewrite Hcomps0 in H. apply Mains2. exact H.
    + rewrite Hshape0. simpl. congruence.
    + rewrite Hcrd0. simpl. congruence.
    + rewrite Hhub0. simpl. congruence.
    + rewrite Hdlabel0. simpl. congruence.
    + apply queue_flush.
    + rewrite Hnext0. simpl. lia.
    + rewrite Hcomps0. simpl. intros x Hx. left. apply k1 in Hx. rewrite Hcomps in Hx. exact Hx.
Qed.
