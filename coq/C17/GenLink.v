(* C17 — the model's lookup by name / by id is Data.find_component_id as REGENERATED from glue/core/data.py
   on every run (coq/gen/Gen_findcid.v), and the classes are searched in the order main > derived > coordinate > linked. *)
From Coq Require Import ZArith List Bool Lia ZifyBool.
Import ListNotations.
From GV Require Import Common.PyInt gen.Gen_findcid C17.Model.
Open Scope Z_scope.

Lemma find_in_is_generated (cls : list (list Z)) (p : Z -> bool) :
  find_component_id cls p = find_in cls p.
Proof.
  induction cls as [|c r IH]; [reflexivity|].
  cbn [find_component_id find_in]. cbv zeta. rewrite IH.
  change (@filter cid p c) with (@filter Z p c).
  generalize (@filter Z p c) as f. intros f.
  destruct f as [|x rest]; [reflexivity|].
  destruct rest as [|y rest']; [reflexivity|].
  unfold zlen. cbn [length].
  destruct (Z.of_nat (S (S (length rest'))) =? 1) eqn:E1; [lia|].
  destruct (Z.of_nat (S (S (length rest'))) >? 1) eqn:E2; [reflexivity | lia].
Qed.

Lemma find_order_is_precedence : find_order = [0; 1; 2; 3].
Proof. reflexivity. Qed.

Lemma find_label_is_generated (s : st) (l : label) :
  find_label s l = find_component_id (classes s) (fun c => lab s c =? l).
Proof. unfold find_label. symmetry. apply find_in_is_generated. Qed.

Lemma find_cid_is_generated (s : st) (c0 : cid) :
  find_cid s c0 = find_component_id (classes s) (fun c => c =? c0).
Proof. unfold find_cid. symmetry. apply find_in_is_generated. Qed.
