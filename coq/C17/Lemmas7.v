(* C17 — announcements of Data._update_world_components, of the first component, and of every call *)
From Coq Require Import ZArith List Bool Lia Permutation.
Import ListNotations.
From GV Require Import Common.Wire C17.Model C17.Lemmas1 C17.Lemmas2 C17.Lemmas3 C17.Lemmas4 C17.Lemmas5 C17.Lemmas6.
Open Scope Z_scope.

(* a delayed block: pause, a piece with the announcements out, flush *)
Lemma ann_wrap : forall s s3 out, queue s = None -> ann_spec (pause s) s3 out -> ann_spec s (flush s3) out.
Proof.
  intros s s3 out Q [e na nr a r c].
  pose proof (core_pause s) as C0. pose proof (core_flush s3) as C3. core_inj C0. core_inj C3.
  constructor; try assumption.
  - constructor.
    + rewrite Hhub0, (ef_hub _ _ _ e). exact Hhub.
    + intros Hh. rewrite emitted_flush.
      * rewrite (ef_trace _ _ _ e) by (rewrite Hhub; exact Hh). rewrite emitted_pause by exact Q. reflexivity.
      * apply (ef_clean _ _ _ e). apply queue_clean_pause. apply queue_clean_none. exact Q.
    + intros Hh. rewrite (pause_nohub s Hh) in e. destruct (ef_nohub _ _ _ e Hh) as (L & Qs & X).
      rewrite flush_nohub by (rewrite Qs; exact Q). auto.
    + intros _. apply queue_flush.
    + intros _. apply queue_clean_none. apply queue_flush.
    + apply (ef_out _ _ _ e).
  - intros x. unfold K in *. rewrite Hcomps0. rewrite <- Hcomps. apply a.
  - intros x. unfold K in *. rewrite Hcomps0. rewrite <- Hcomps. apply r.
Qed.

Record uw_ann (s s' : st) (out : list msg) : Prop := {
  ua_ann : ann_spec s s' out;
  ua_others : others out = [];
  ua_rems_kind : forall x, In x (removes out) -> In x (world s) \/ exists k, In (x, k) (comps s) /\ is_derived k = true;
  ua_adds_fresh : forall x, In x (adds out) -> next s <= x
}.

Lemma ann_update_world : forall nd s, winv s -> queue s = None -> exists out, uw_ann s (update_world nd s) out.
Proof.
  intros nd s [PI W] Q. unfold update_world.
  set (s0 := pause s).
  assert (C0 : core s0 = core s) by apply core_pause.
  assert (P0 : pinv s0) by (eapply pinv_core; [symmetry; exact C0 | exact PI]).
  pose proof C0 as C0'. core_inj C0'.
  assert (Hd : forall c, In c (world s0) -> ~ In c (pixel s0)).
  { rewrite Hworld, Hpixel. intros c Hw Hp. apply In_nth_error in Hw. destruct Hw as [i Hw]. apply In_nth_error in Hp. destruct Hp as [j Hp].
    apply W in Hw. apply (p_pixel _ PI) in Hp. congruence. }
  destruct (world_loop_spec (world s0) s0 P0 Hd) as [a1 b1 c1 d1 e1 f1 g1 h1 n1 k1].
  destruct (ann_world_loop (world s0) s0 (p_nodup _ P0)) as [o1 [[A1 Ad1 O1] [ND1 Kd1]]].
  set (s1 := fold_left drop_world (world s0) s0) in *.
  rewrite filter_self_out in b1.
  set (s2 := set_clinks s1 []).
  assert (WI2 : winv s2).
  { split; [destruct a1; constructor; simpl; assumption|]. unfold world_ok. simpl. rewrite b1. intros i c H. destruct i; discriminate. }
  assert (A12 : ann_spec s0 s2 o1).
  { replace o1 with (o1 ++ []) by apply app_nil_r. eapply ann_trans; [exact A1 | apply ann_silent; reflexivity | intros x _ [] | intros x _ []]. }
  assert (Hrk : forall x, In x (removes o1) -> In x (world s) \/ exists k, In (x, k) (comps s) /\ is_derived k = true).
  { intros x Hx. apply Kd1 in Hx. rewrite Hworld, Hcomps in Hx. exact Hx. }
  destruct (crd s2) as [co|] eqn:Ecrd.
  - destruct (ann_coord_loop true (fun i => world_label (co_kind co) i (Z.of_nat nd)) nd O s2 WI2) as [o2 [A2 R2 O2 F2 K2]].
    { simpl. rewrite b1. reflexivity. }
    rewrite <- upto_seq in *.
    set (a := fold_left (add_coord true (fun i => world_label (co_kind co) i (Z.of_nat nd))) (upto nd) s2) in *.
    set (s3 := set_clinks a (setup_clinks nd a)).
    assert (A03 : ann_spec s0 s3 (o1 ++ o2)).
    { replace (o1 ++ o2) with (o1 ++ o2 ++ []) by (rewrite app_nil_r; reflexivity).
      eapply ann_trans; [exact A12 | eapply ann_trans; [exact A2 | apply ann_silent; reflexivity | intros x _ [] | intros x _ []] | |].
      - intros x Hx. rewrite Ad1 in Hx. destruct Hx.
      - intros x Hx Hx2. rewrite app_nil_r in Hx2. apply F2 in Hx2. simpl in Hx2. rewrite n1 in Hx2.
        apply (an_rems _ _ _ A1) in Hx. destruct Hx as [Hx _]. apply (p_fresh _ P0) in Hx. lia. }
    exists (o1 ++ o2). constructor.
    + apply ann_wrap; [exact Q | exact A03].
    + rewrite others_app, O1, O2. reflexivity.
    + intros x Hx. rewrite removes_app, R2, app_nil_r in Hx. apply Hrk. exact Hx.
    + intros x Hx. rewrite adds_app, Ad1 in Hx. simpl in Hx. apply F2 in Hx. simpl in Hx. rewrite n1, Hnext in Hx. exact Hx.
  - exists o1. constructor.
    + apply ann_wrap; [exact Q | exact A12].
    + exact O1.
    + exact Hrk.
    + intros x Hx. rewrite Ad1 in Hx. destruct Hx.
Qed.

(* ---------- the first component ---------- *)
Lemma ann_first_component : forall sh s, data_inv s -> comps s = [] ->
  exists out, ann_spec s (first_component sh s) out /\ others out = [] /\ removes out = [].
Proof.
  intros sh s I E. unfold first_component. rewrite E.
  destruct (inv_empty s I E) as (Ep & Ew & Es).
  pose proof I as [WI _ _ _ q].
  pose proof (coord_loop_spec false (fun i => pixel_label i (Z.of_nat (length sh))) (length sh) O s WI) as CL.
  simpl in CL. rewrite Ep in CL. specialize (CL eq_refl). rewrite <- upto_seq in CL.
  destruct (ann_coord_loop false (fun i => pixel_label i (Z.of_nat (length sh))) (length sh) O s WI) as [o1 [A1 R1 O1 F1 K1]].
  { simpl. rewrite Ep. reflexivity. }
  rewrite <- upto_seq in *. fold (create_pixels (length sh) s) in *. set (sp := create_pixels (length sh) s) in *.
  destruct CL as [cw cl co cm csh ccr ch cdl cq cn ck]. simpl in co.
  destruct (ann_update_world (length sh) sp cw (cq q)) as [o2 [A2 O2 Rk2 F2]].
  set (s1 := update_world (length sh) sp) in *.
  assert (Hr2 : removes o2 = []).
  { destruct (removes o2) as [|x t] eqn:Er; [reflexivity|]. exfalso.
    destruct (Rk2 x (or_introl eq_refl)) as [Hx|[k [Hk Hd]]].
    - rewrite co, Ew in Hx. destruct Hx.
    - apply K1 in Hk. destruct Hk as [Hk|Hk]; [rewrite E in Hk; destruct Hk | destruct k; simpl in *; discriminate]. }
  exists (o1 ++ o2 ++ []). split; [|split].
  - eapply ann_trans; [exact A1 | eapply ann_trans; [exact A2 | apply ann_silent; reflexivity | intros x _ [] | intros x _ []] | |].
    + intros x _. rewrite app_nil_r, Hr2. intros [].
    + intros x Hx. rewrite R1 in Hx. destruct Hx.
  - rewrite !others_app, O1, O2. reflexivity.
  - rewrite !removes_app, R1, Hr2. reflexivity.
Qed.

(* ---------- whole calls ---------- *)
(* what is known of the messages of a call, relative to the state it started from *)
Record call_ann (s s' : st) (out oth : list msg) : Prop := {
  ca_ann : ann_spec s s' out;
  ca_others : others out = oth
}.

Lemma others_single_other : forall m, is_other m = true -> others [m] = [m].
Proof. intros m H. unfold others. simpl. rewrite H. reflexivity. Qed.

Lemma call_emit_other : forall m s s1 out oth, call_ann s s1 out oth -> nonext m = true -> is_other m = true ->
  call_ann s (emit m s1) (out ++ [m]) (oth ++ [m]).
Proof.
  intros m s s1 out oth [A O] Hn Ho. constructor.
  - eapply ann_trans; [exact A | apply ann_emit_other; assumption | |].
    + intros x _. destruct m; simpl in *; try discriminate; intros [].
    + intros x _. destruct m; simpl in *; try discriminate; intros [].
  - rewrite others_app, O, (others_single_other m Ho). reflexivity.
Qed.

Lemma call_silent : forall s s1 s2 out oth, call_ann s s1 out oth ->
  K s2 = K s1 -> hub s2 = hub s1 -> log s2 = log s1 -> queue s2 = queue s1 -> ext s2 = ext s1 -> call_ann s s2 out oth.
Proof.
  intros s s1 s2 out oth [A O] H1 H2 H3 H4 H5. constructor; [|exact O].
  replace out with (out ++ []) by apply app_nil_r. eapply ann_trans; [exact A | apply ann_silent; assumption | intros x _ [] | intros x _ []].
Qed.

Lemma call_refl : forall s, call_ann s s [] [].
Proof. intros. constructor; [apply ann_refl | reflexivity]. Qed.

(* storing under a fresh id *)
Lemma call_fresh_put : forall l k s s1 out oth, call_ann s s1 out oth -> pinv s1 ->
  (forall x, In x (removes out) -> x < next s1) ->
  call_ann s (add_core (next s1) k (snd (fresh l s1))) (out ++ [MAdd (next s1); MChanged]) oth.
Proof.
  intros l k s s1 out oth C P Hr.
  destruct (fresh_fields l s1) as [_ F]. set (s2 := snd (fresh l s1)) in *. cbv zeta in F.
  destruct F as (Fsh & Fco & Fpx & Fwo & Fcr & Fcl & Fdl & Fhu & Fex & Fnx & Flo & Fqu & Fst).
  assert (C2 : call_ann s s2 out oth) by (eapply call_silent; [exact C | unfold K; rewrite Fco; reflexivity | assumption ..]).
  assert (Hn : ~ In (next s1) (K s2)).
  { unfold K. rewrite Fco. intros H. apply (p_fresh _ P) in H. lia. }
  destruct C2 as [A O]. constructor.
  - eapply ann_trans; [exact A | apply ann_add_new; exact Hn | |].
    + intros x _ [].
    + intros x Hx [<-|[]]. apply Hr in Hx. lia.
  - rewrite others_app, O. simpl. apply app_nil_r.
Qed.

Lemma rems_lt : forall s s' out, ann_spec s s' out -> pinv s -> forall x, In x (removes out) -> x < next s.
Proof. intros s s' out A P x Hx. apply (an_rems _ _ _ A) in Hx. destruct Hx as [Hx _]. apply (p_fresh _ P). exact Hx. Qed.
