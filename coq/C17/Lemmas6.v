(* C17 — announcements: the messages handed to the hub during a call are exactly the documented ones for the change
   that happened (building blocks) *)
From Coq Require Import ZArith List Bool Lia Permutation.
Import ListNotations.
From GV Require Import Common.Wire C17.Model C17.Lemmas1 C17.Lemmas2 C17.Lemmas3 C17.Lemmas4 C17.Lemmas5.
Open Scope Z_scope.

Definition K (s : st) : list cid := keys (comps s).

(* Add / Remove / ComponentsChanged messages of a piece of a call match the change of the component table *)
Record ann_spec (s s' : st) (out : list msg) : Prop := {
  an_eff : effect s s' out;
  an_nd_add : NoDup (adds out);
  an_nd_rem : NoDup (removes out);
  an_adds : forall x, In x (adds out) <-> In x (K s') /\ ~ In x (K s);
  an_rems : forall x, In x (removes out) <-> In x (K s) /\ ~ In x (K s');
  an_changed : nchanged out = (length (adds out) + length (removes out))%nat
}.

Lemma ann_trans : forall s s1 s2 o1 o2, ann_spec s s1 o1 -> ann_spec s1 s2 o2 ->
  (forall x, In x (adds o1) -> ~ In x (removes o2)) -> (forall x, In x (removes o1) -> ~ In x (adds o2)) ->
  ann_spec s s2 (o1 ++ o2).
Proof.
  intros s s1 s2 o1 o2 [e1 na1 nr1 a1 r1 c1] [e2 na2 nr2 a2 r2 c2] H12 H21. constructor.
  - eapply effect_trans; eassumption.
  - rewrite adds_app. apply NoDup_app_intro; [exact na1 | exact na2|]. intros x Hx1 Hx2. apply a1 in Hx1. apply a2 in Hx2. tauto.
  - rewrite removes_app. apply NoDup_app_intro; [exact nr1 | exact nr2|]. intros x Hx1 Hx2. apply r1 in Hx1. apply r2 in Hx2. tauto.
  - intros x. rewrite adds_app, in_app_iff. split.
    + intros [Hx|Hx].
      * pose proof Hx as Hx'. apply a1 in Hx'. destruct Hx' as [H1 H2]. split; [|exact H2].
        destruct (in_dec Z.eq_dec x (K s2)) as [H|H]; [exact H|]. exfalso. apply (H12 x Hx). apply r2. split; assumption.
      * pose proof Hx as Hx'. apply a2 in Hx'. destruct Hx' as [H1 H2]. split; [exact H1|].
        intros H. apply (H21 x); [apply r1; split; assumption | exact Hx].
    + intros [H1 H2]. destruct (in_dec Z.eq_dec x (K s1)) as [H|H]; [left; apply a1 | right; apply a2]; split; assumption.
  - intros x. rewrite removes_app, in_app_iff. split.
    + intros [Hx|Hx].
      * pose proof Hx as Hx'. apply r1 in Hx'. destruct Hx' as [H1 H2]. split; [exact H1|].
        intros H. apply (H21 x Hx). apply a2. split; assumption.
      * pose proof Hx as Hx'. apply r2 in Hx'. destruct Hx' as [H1 H2]. split; [|exact H2].
        destruct (in_dec Z.eq_dec x (K s)) as [H|H]; [exact H|]. exfalso. apply (H12 x); [apply a1; split; assumption | exact Hx].
    + intros [H1 H2]. destruct (in_dec Z.eq_dec x (K s1)) as [H|H]; [right; apply r2 | left; apply r1]; split; assumption.
  - rewrite nchanged_app, adds_app, removes_app, !app_length, c1, c2. lia.
Qed.

Lemma ann_quiet : forall s s' out, effect s s' out -> K s' = K s -> adds out = [] -> removes out = [] -> nchanged out = O ->
  ann_spec s s' out.
Proof.
  intros s s' out E HK Ha Hr Hc. constructor.
  - exact E.
  - rewrite Ha. constructor.
  - rewrite Hr. constructor.
  - intros x. rewrite Ha, HK. simpl. tauto.
  - intros x. rewrite Hr, HK. simpl. tauto.
  - rewrite Hc, Ha, Hr. reflexivity.
Qed.

Lemma ann_refl : forall s, ann_spec s s [].
Proof. intros. apply ann_quiet; try reflexivity. apply effect_refl. Qed.

Lemma ann_emit_other : forall m s, nonext m = true -> is_other m = true -> ann_spec s (emit m s) [m].
Proof.
  intros m s Hn Ho. apply ann_quiet.
  - apply effect_emit. exact Hn.
  - unfold K. rewrite comps_emit. reflexivity.
  - destruct m; simpl in *; try discriminate; reflexivity.
  - destruct m; simpl in *; try discriminate; reflexivity.
  - destruct m; simpl in *; try discriminate; reflexivity.
Qed.

Lemma ann_remove : forall P s s' out, rm_spec P s s' out -> ann_spec s s' out.
Proof.
  intros P s s' out S. constructor.
  - apply (rm_eff _ _ _ _ S).
  - rewrite (rm_adds _ _ _ _ S). constructor.
  - apply (rm_nodup _ _ _ _ S).
  - intros x. rewrite (rm_adds _ _ _ _ S). simpl. split; [tauto|]. intros [H1 H2]. apply H2.
    destruct (rm_sub _ _ _ _ S) as [f Hf]. unfold K in *. rewrite Hf in H1. eapply sub_keys. exact H1.
  - apply (rm_removes _ _ _ _ S).
  - rewrite (rm_changed _ _ _ _ S), (rm_adds _ _ _ _ S). reflexivity.
Qed.

Lemma ann_add_new : forall c k s, ~ In c (K s) -> ann_spec s (add_core c k s) [MAdd c; MChanged].
Proof.
  intros c k s Hn. destruct (add_core_spec c k s) as [PS EF].
  assert (Hk : has_key c (comps s) = false) by (apply has_key_false; exact Hn). rewrite Hk in EF.
  assert (HK : K (add_core c k s) = K s ++ [c]).
  { unfold K. rewrite (ps_comps _ _ _ _ PS), keys_put, Hk. reflexivity. }
  constructor; simpl.
  - exact EF.
  - constructor; [intros [] | constructor].
  - constructor.
  - intros x. rewrite HK, in_app_iff. simpl. split.
    + intros [<-|[]]. split; [right; left; reflexivity | exact Hn].
    + intros [[H|[H|[]]] H2]; [contradiction | left; exact H].
  - intros x. rewrite HK, in_app_iff. simpl. split; [tauto|]. intros [H1 H2]. apply H2. left. exact H1.
  - reflexivity.
Qed.

Lemma ann_add_present : forall c k s, In c (K s) -> ann_spec s (add_core c k s) [].
Proof.
  intros c k s Hi. destruct (add_core_spec c k s) as [PS EF].
  assert (Hk : has_key c (comps s) = true) by (apply has_key_In; exact Hi). rewrite Hk in EF.
  apply ann_quiet; try reflexivity; [exact EF|]. unfold K. rewrite (ps_comps _ _ _ _ PS), keys_put, Hk. reflexivity.
Qed.

(* a piece that changes neither the table nor talks to the hub *)
Lemma ann_silent : forall s s', K s' = K s -> hub s' = hub s -> log s' = log s -> queue s' = queue s -> ext s' = ext s -> ann_spec s s' [].
Proof. intros. apply ann_quiet; try reflexivity; [apply effect_same_hub; assumption | assumption]. Qed.

(* ---------- facts about [others] ---------- *)
Lemma others_rm : forall P s s' out, rm_spec P s s' out -> others out = [].
Proof. intros. eapply rm_others. eassumption. Qed.

(* ---------- the coordinate loops ---------- *)
Lemma ann_coord_step : forall w i s s', coord_step w i s s' -> ~ In (next s) (K s) -> ann_spec s s' [MAdd (next s); MChanged].
Proof.
  intros w i s s' CS Hn.
  assert (Hk : has_key (next s) (comps s) = false) by (apply has_key_false; exact Hn).
  assert (HK : K s' = K s ++ [next s]) by (unfold K; rewrite (cs_comps _ _ _ _ CS), keys_put, Hk; reflexivity).
  constructor; simpl.
  - apply (cs_eff _ _ _ _ CS).
  - constructor; [intros [] | constructor].
  - constructor.
  - intros x. rewrite HK, in_app_iff. simpl. split.
    + intros [<-|[]]. split; [right; left; reflexivity | exact Hn].
    + intros [[H|[H|[]]] H2]; [contradiction | left; exact H].
  - intros x. rewrite HK, in_app_iff. simpl. split; [tauto|]. intros [H1 H2]. apply H2. left. exact H1.
  - reflexivity.
Qed.

(* pure additions of fresh ids *)
Record adds_only (s s' : st) (out : list msg) : Prop := {
  ao_ann : ann_spec s s' out;
  ao_rems : removes out = [];
  ao_others : others out = [];
  ao_fresh : forall x, In x (adds out) -> next s <= x;
  ao_kinds : forall x k, In (x, k) (comps s') -> In (x, k) (comps s) \/ is_coord k = true
}.

Lemma ann_coord_loop : forall w lbl m k s, winv s -> length (clist w s) = k ->
  exists out, adds_only s (fold_left (add_coord w lbl) (map Z.of_nat (seq k m)) s) out.
Proof.
  induction m as [|m IH]; intros k s WI Hk; simpl.
  - exists []. constructor; try reflexivity; [apply ann_refl | intros x [] | intros x kd H; left; exact H].
  - assert (Hfr : ~ In (next s) (keys (comps s))).
    { intros H. destruct WI as [[_ _ _ f _] _]. apply f in H. lia. }
    pose proof (add_coord_step w lbl s (Z.of_nat k) Hfr) as CS.
    set (s1 := add_coord w lbl s (Z.of_nat k)) in *.
    assert (WI1 : winv s1) by (eapply coord_step_winv; [exact WI | exact CS | rewrite Hk; reflexivity]).
    assert (Hk1 : length (clist w s1) = S k) by (rewrite (cs_list _ _ _ _ CS), app_length, Hk; simpl; lia).
    destruct (IH (S k) s1 WI1 Hk1) as [o2 [A2 R2 O2 F2 K2]].
    exists ([MAdd (next s); MChanged] ++ o2). constructor.
    + eapply ann_trans; [eapply ann_coord_step; eassumption | exact A2 | |].
      * intros x _. rewrite R2. intros [].
      * intros x [].
    + rewrite removes_app, R2. reflexivity.
    + rewrite others_app, O2. reflexivity.
    + intros x Hx. rewrite adds_app in Hx. apply in_app_iff in Hx. destruct Hx as [[<-|[]]|Hx]; [lia|].
      apply F2 in Hx. rewrite (cs_next _ _ _ _ CS) in Hx. lia.
    + intros x kd Hin. apply K2 in Hin. destruct Hin as [Hin|Hin]; [|right; exact Hin].
      rewrite (cs_comps _ _ _ _ CS) in Hin. destruct WI as [[nd _ _ _ _] _]. apply In_put_iff in Hin; [|exact nd].
      destruct Hin as [[_ ->]|[_ Hin]]; [right; reflexivity | left; exact Hin].
Qed.

(* pure removals *)
Record rems_only (s s' : st) (out : list msg) : Prop := {
  ro_ann : ann_spec s s' out;
  ro_adds : adds out = [];
  ro_others : others out = []
}.

Lemma ann_world_loop : forall l s, NoDup (K s) ->
  exists out, rems_only s (fold_left drop_world l s) out /\ NoDup (K (fold_left drop_world l s)) /\
              (forall x, In x (removes out) -> In x l \/ exists k, In (x, k) (comps s) /\ is_derived k = true).
Proof.
  induction l as [|c l IH]; intros s ND; simpl.
  - exists []. split; [constructor; try reflexivity; apply ann_refl | split; [exact ND | intros x []]].
  - unfold drop_world at 2.
    destruct (remove_component_spec c s ND) as [o1 S].
    set (a := remove_component c s) in *.
    set (s1 := set_world a (removez c (world a))).
    assert (ND1 : NoDup (K s1)) by (unfold K; simpl; eapply rm_nodup'; eassumption).
    destruct (IH s1 ND1) as [o2 [[A2 Ad2 O2] [ND2 Kd2]]].
    exists (o1 ++ o2). split; [|split; [exact ND2|]].
    2:{ intros x Hx. rewrite removes_app in Hx. apply in_app_iff in Hx. destruct Hx as [Hx|Hx].
        - apply (rm_removes _ _ _ _ S) in Hx. destruct Hx as [H1 H2]. apply In_keys_ex in H1. destruct H1 as [k Hk].
          destruct (rm_only _ _ _ _ S x k Hk H2) as [<-|Hd]; [left; left; reflexivity | right; exists k; split; assumption].
        - apply Kd2 in Hx. destruct Hx as [Hx|[k [Hk Hd]]]; [left; right; exact Hx|].
          right. exists k. split; [|exact Hd]. simpl in Hk. eapply rm_sub_In; eassumption. }
    constructor.
    + eapply ann_trans; [|exact A2| |].
      * replace o1 with (o1 ++ []) by apply app_nil_r. eapply ann_trans; [eapply ann_remove; exact S | apply ann_silent; reflexivity | intros x _ [] | intros x _ []].
      * intros x Hx. rewrite (rm_adds _ _ _ _ S) in Hx. destruct Hx.
      * intros x _. rewrite Ad2. intros [].
    + rewrite adds_app, (rm_adds _ _ _ _ S), Ad2. reflexivity.
    + rewrite others_app, (rm_others _ _ _ _ S), O2. reflexivity.
Qed.
