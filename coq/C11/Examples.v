(* C11 — sanity runs of the model and non-vacuity of the theorems' hypotheses *)
From Coq Require Import ZArith List Bool Arith Lia.
Import ListNotations.
From GV Require Import Common.Wire C11.Model C11.Lemmas gen.Gen_joins C11.GenLink.
Open Scope Z_scope.

Definition ustr (w : nat) (cps : list Z) : cell := Cell KStr (4 * w) (bytes_of_cps (pad0 w cps)).
Definition f64 (bits : Z) : cell := Cell KFlt 8 (le_bytes 8 bits).
Definition ch_a := 97. Definition ch_b := 98.

(* d0: (int32, <U2)   d1: (int64, <U4, int64)   d2: (int64)  *)
Definition t0 : table := [[i32 1; ustr 2 [ch_a; ch_b]]; [i32 2; ustr 2 [ch_a]]; [i32 1; ustr 2 [ch_b]]].
Definition t1 : table := [[i64 1; ustr 4 [ch_a; ch_b]; i64 7]; [i64 2; ustr 4 [ch_a; ch_b]; i64 8]; [i64 1; ustr 4 [ch_b]; i64 9]].
Definition t2 : table := [[i64 9]; [i64 7]; [i64 5]].

Example tables_in_domain : forallb wf_tableb [t0; t1; t2] = true.
Proof. vm_compute. reflexivity. Qed.

(* value equality sees through the storage *)
Eval vm_compute in (veq (i32 (-5)) (i64 (-5)), veq (ustr 2 [ch_a]) (ustr 5 [ch_a]), veq (i32 3) (f64 4613937818241073152),
                    veq (f64 0) (f64 (2 ^ 63)), veq (i32 1) (i64 2)).
Example veq_examples :
  (veq (i32 (-5)) (i64 (-5)), veq (ustr 2 [ch_a]) (ustr 5 [ch_a]), veq (i32 3) (f64 4613937818241073152),
   veq (f64 0) (f64 (2 ^ 63)), veq (i32 1) (i64 2)) = (true, true, true, true, false).
Proof. vm_compute. reflexivity. Qed.

(* int against float is compared exactly; numpy compares after the conversion to float64, which rounds:
   2^53 + 1 becomes 2^53.  [conv_ok] is false exactly on such pairs (the float-representability limit) *)
Definition two53_bits : Z := 4845873199050653696.
Example int_float_exact :
  (veq (i64 (2 ^ 53)) (f64 two53_bits), veq (i64 (2 ^ 53 + 1)) (f64 two53_bits), f64_of_int (2 ^ 53 + 1) =? two53_bits,
   f64_of_int (2 ^ 53 + 3) =? two53_bits + 2, f64_of_int (- (2 ^ 53 + 1)) =? two53_bits + 2 ^ 63, f64_of_int (2 ^ 63 - 1) =? 4890909195324358656,
   conv_ok (i64 (2 ^ 53 + 1)) (f64 two53_bits), conv_ok (i64 (2 ^ 53)) (f64 two53_bits), conv_ok (i64 (2 ^ 60 + 1)) (f64 4617315517961601024),
   veq (i64 (2 ^ 60 + 1)) (i64 (2 ^ 60 + 2)))
  = (true, false, true, true, true, true, false, true, true, false).
Proof. vm_compute. reflexivity. Qed.

(* the n-n law is not vacuous: int32/<U2 against int64/<U4 is inside its domain, and the join matches by value *)
Example nn_domain_inhabited : nn_domain t0 t1 [0%nat; 1%nat] [0%nat; 1%nat].
Proof.
  intros r r' x y Hr Hr' Hxy.
  simpl in Hr, Hr', Hxy.
  destruct Hxy as [E|[E|[]]]; injection E as Ex Ey; subst x y;
  destruct Hr as [Hr|[Hr|[Hr|[]]]]; subst r; destruct Hr' as [Hr'|[Hr'|[Hr'|[]]]]; subst r';
  vm_compute; auto.
Qed.
Example nn_example : join_mask t0 (select [true; false; true] t1) [0%nat; 1%nat] [0%nat; 1%nat] = Some [true; false; true].
Proof. vm_compute. reflexivity. Qed.
(* ... while the unrepaired byte comparison finds nothing on the same tables *)
Example nn_raw_example : mask_nn_raw t0 (select [true; false; true] t1) [0%nat; 1%nat] [0%nat; 1%nat] = [false; false; false].
Proof. vm_compute. reflexivity. Qed.

Example shapes_examples :
  (join_mask t0 (select [false; true; false] t1) [0%nat] [0%nat],
   join_mask t2 (select [true; false; false] t1) [0%nat] [0%nat; 2%nat],
   join_mask t1 (select [false; true; false] t2) [0%nat; 2%nat] [0%nat],
   join_mask t0 t1 [0%nat; 1%nat] [0%nat; 1%nat; 2%nat])
  = (Some [false; true; false], Some [false; true; false], Some [true; false; false], None).
Proof. vm_compute. reflexivity. Qed.

Example same_widths_inhabited : same_widths [i32 1; ustr 2 [ch_a]] [i32 1; ustr 2 [ch_b]].
Proof. repeat constructor. Qed.

(* a chain d0 - d1 - d2 built with join_on_key; only d2 can evaluate *)
Definition ops_chain : list op := [OJoin 0 1 [0%nat; 1%nat] [0%nat; 1%nat]; OJoin 2 1 [0%nat] [2%nat]].
Definition js_chain : list (list join) := fst (apply_ops [[]; []; []] ops_chain).
Definition S_chain (sel : list bool) : sys := Sys [t0; t1; t2] js_chain [None; None; Some sel].

Example chain_joins : js_chain = [[(1%nat, ([0%nat; 1%nat], [0%nat; 1%nat]))];
                                  [(0%nat, ([0%nat; 1%nat], [0%nat; 1%nat])); (2%nat, ([2%nat], [0%nat]))];
                                  [(1%nat, ([0%nat], [2%nat]))]].
Proof. vm_compute. reflexivity. Qed.

Example chain_run : get_mask_top (S_chain [true; true; false]) 0 None = Mask [true; false; true].
Proof. vm_compute. reflexivity. Qed.
Example chain_run_view : get_mask_top (S_chain [true; true; false]) 0 (Some [2%nat; 2%nat; 1%nat]) = Mask [true; true; false].
Proof. vm_compute. reflexivity. Qed.

Definition path_chain : list hop :=
  [(0%nat, ([0%nat; 1%nat], [0%nat; 1%nat])); (1%nat, ([2%nat], [0%nat])); (2%nat, ([], []))].
Example chain_ok_inhabited : chain_ok (S_chain [true; true; false]) None path_chain.
Proof.
  simpl. split; [reflexivity|]. split.
  - exists [], []. split; [reflexivity|]. intros j [].
  - split; [reflexivity|]. split.
    + exists [(0%nat, ([0%nat; 1%nat], [0%nat; 1%nat]))], []. split; [reflexivity|].
      intros j [Hj|[]]. subst. reflexivity.
    + exists [true; true; false]. reflexivity.
Qed.
Example chain_theorem_applies :
  get_mask 3 (S_chain [true; true; false]) [] 0 None = chain_out (S_chain [true; true; false]) path_chain.
Proof.
  apply (join_chain (S_chain [true; true; false]) path_chain None [] 3 chain_ok_inhabited).
  - simpl. repeat constructor; simpl; intuition discriminate.
  - intros p Hp. discriminate.
  - intros x _. reflexivity.
  - simpl. lia.
Qed.
Example chain_out_value : chain_out (S_chain [true; true; false]) path_chain = Mask [true; false; true].
Proof. vm_compute. reflexivity. Qed.

(* a 3-cycle (plus a dataset joined with itself) on which nobody can evaluate: Incompatible, no fuel problem *)
Definition ops_cycle : list op :=
  [OJoin 0 1 [0%nat] [0%nat]; OJoin 1 2 [2%nat] [0%nat]; OJoin 2 0 [0%nat] [0%nat]; OJoin 1 1 [0%nat] [2%nat]].
Definition S_cycle : sys := Sys [t0; t1; t2] (fst (apply_ops [[]; []; []] ops_cycle)) [None; None; None].
Example cycle_run : map (fun d => get_mask_top S_cycle d None) [0%nat; 1%nat; 2%nat] = [Incompatible; Incompatible; Incompatible].
Proof. vm_compute. reflexivity. Qed.
Example cycle_hypothesis : (length (joins S_cycle) <= length (tables S_cycle))%nat /\
                           forall e, reach S_cycle 1 e -> own_of S_cycle e = None.
Proof.
  split; [vm_compute; lia|]. intros e _. unfold own_of, S_cycle. simpl own.
  destruct e as [|[|[|[|e]]]]; reflexivity.
Qed.
(* the exploration from d1 passes through d1 again (self-join), d0 and d2: four frames *)
Example cycle_depth : get_mask 3 S_cycle [] 1 None = OutOfFuel /\ get_mask 4 S_cycle [] 1 None = Incompatible.
Proof. vm_compute. split; reflexivity. Qed.

(* both directions on two datasets *)
Example both_directions_hypothesis :
  join_on_key (map (fun _ => []) [t2; t1]) 0 1 [0%nat] [0%nat; 2%nat]
  = ([[(1%nat, ([0%nat], [0%nat; 2%nat]))]; [(0%nat, ([0%nat; 2%nat], [0%nat]))]], 0).
Proof. vm_compute. reflexivity. Qed.
Example rejected_shape : snd (join_on_key [[]; []] 0 1 [0%nat; 1%nat] [0%nat; 1%nat; 2%nat]) = E_SHAPE.
Proof. reflexivity. Qed.

(* the wire entry point on a tiny case: d0 = [[int32 1]], d1 = [[int64 1]], join, selection on d1 *)
Example wire_run :
  run_case (T 1 [T 0 [T 0 [T 0 [T 0 [leaf 4; leaf 1; leaf 0; leaf 0; leaf 0]]];
                      T 0 [T 0 [T 0 [leaf 8; leaf 1; leaf 0; leaf 0; leaf 0; leaf 0; leaf 0; leaf 0; leaf 0]]]];
                 T 0 [T 1 [leaf 0; leaf 1; T 0 [leaf 0]; T 0 [leaf 0]]];
                 T 0 [T 0 [leaf 0; T 0 []; T 0 [T 0 []; T 1 [leaf 1]]]]])
  = T 0 [zs [0]; enc_joins [[(1%nat, ([0%nat], [0%nat]))]; [(0%nat, ([0%nat], [0%nat]))]]; T 0 [T 1 [leaf 1]]].
Proof. vm_compute. reflexivity. Qed.

(* ------------------------------------------------------------------ round 4: JoinLink on shared ComponentIDs, translated code *)
(* a catalogue, a table extracted from it (its key column is stored under the catalogue's id, uid 0, parent 0), observations *)
Definition ts_cat : list table :=
  [ [[i64 10]; [i64 11]; [i64 12]]; [[i64 11]; [i64 12]]; [[i64 12]; [i64 12]; [i64 10]; [i64 11]] ].
Definition L_cat : layout := [ [0%nat]; [0%nat]; [1%nat] ].
Definition l_cat : jlink := JLink 2 1 [Cid 1 2] [Cid 0 0].
(* the hypotheses of link_both_directions / unlink_restores are met *)
Example link_accepted : snd (add_link L_cat (map (fun _ => []) ts_cat) l_cat) = 0 /\ data1 l_cat <> data2 l_cat /\
  link_okb ts_cat L_cat l_cat = true /\ layout_okb ts_cat L_cat = true.
Proof. repeat split; try (vm_compute; reflexivity). vm_compute. discriminate. Qed.
Example link_then_unlink :
  remove_link L_cat (fst (add_link L_cat (map (fun _ => []) ts_cat) l_cat)) l_cat = ([[]; []; []], 0).
Proof. vm_compute. reflexivity. Qed.
(* the translated add_link on the same input, and the translated recursion on the 3-cycle with a self-join *)
Example gen_link_run : gen_add_link L_cat (map (fun _ => []) ts_cat) l_cat = add_link L_cat (map (fun _ => []) ts_cat) l_cat.
Proof. vm_compute. reflexivity. Qed.
Example gen_cycle_run : gen_get_mask_top S_cycle 0 None = (Incompatible, []).
Proof. vm_compute. reflexivity. Qed.
Example gen_chain_run :
  fst (gen_get_mask_top (Sys [t0; t1; t2] js_chain [None; None; Some [true; false]]) 0 None) =
  get_mask_top (Sys [t0; t1; t2] js_chain [None; None; Some [true; false]]) 0 None.
Proof. vm_compute. reflexivity. Qed.
