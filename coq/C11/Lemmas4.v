(* C11 — lemmas, part 4: join_on_key registers both directions; chains; the refutation of the
   n-n law for the unrepaired byte comparison *)
From Coq Require Import ZArith List Bool Arith Lia.
Import ListNotations.
From GV Require Import Common.Wire C11.Model C11.Lemmas1 C11.Lemmas2 C11.Lemmas3.
Open Scope Z_scope.

(* ------------------------------------------------------------------ list update *)
Lemma upd_length : forall (A : Type) i (v : A) l, length (upd i v l) = length l.
Proof. intros A i v l. revert i. induction l as [|h t IH]; intros [|i]; simpl; try reflexivity. rewrite IH. reflexivity. Qed.

Lemma nth_upd_same : forall (A : Type) i (v d : A) l, (i < length l)%nat -> nth i (upd i v l) d = v.
Proof.
  intros A i v d l. revert i. induction l as [|h t IH]; intros [|i] H; simpl in *; try lia; [reflexivity|].
  apply IH. lia.
Qed.

Lemma nth_upd_other : forall (A : Type) i j (v d : A) l, i <> j -> nth j (upd i v l) d = nth j l d.
Proof.
  intros A i j v d l. revert i j. induction l as [|h t IH]; intros [|i] [|j] H; simpl; try reflexivity; try lia.
  apply IH. lia.
Qed.

Lemma nth_no_joins : forall (ts : list table) i, nth i (map (fun _ : table => @nil join) ts) (@nil join) = @nil join.
Proof. intros ts i. exact (map_nth (fun _ : table => @nil join) ts [] i). Qed.

(* Data.join_on_key on two fresh datasets: both dicts get the entry, with the cids swapped *)
Lemma join_on_key_both : forall (ts : list table) a b ca cb js,
  a <> b -> (a < length ts)%nat -> (b < length ts)%nat ->
  join_on_key (map (fun _ => []) ts) a b ca cb = (js, 0) ->
  nth a js [] = [(b, (ca, cb))] /\ nth b js [] = [(a, (cb, ca))] /\ length js = length ts.
Proof.
  intros ts a b ca cb js Hab Ha Hb H. unfold join_on_key in H.
  destruct (_ && negb _); [unfold E_SHAPE in H; inversion H|].
  injection H as H. subst js. rewrite (nth_no_joins ts a).
  rewrite (nth_upd_other _ a b) by assumption.
  rewrite (nth_no_joins ts b).
  set (js0 := map (fun _ : table => @nil join) ts).
  assert (L0 : length js0 = length ts) by (unfold js0; apply map_length).
  split; [|split].
  - rewrite nth_upd_other by congruence. rewrite nth_upd_same by lia. reflexivity.
  - rewrite nth_upd_same by (rewrite upd_length; lia). reflexivity.
  - rewrite !upd_length. assumption.
Qed.

(* the property on two datasets, end to end and in both directions: a selection that only the other
   dataset can evaluate arrives as the join of this dataset's (viewed) rows with the rows selected there *)
Theorem join_both_directions : forall (ts : list table) a b ca cb js,
  a <> b -> (a < length ts)%nat -> (b < length ts)%nat ->
  join_on_key (map (fun _ => []) ts) a b ca cb = (js, 0) ->
  (forall ow view mb, nth a ow None = None -> nth b ow None = Some mb ->
     get_mask_top (Sys ts js ow) a view =
     out_of (join_mask (apply_view [] view (nth a ts [])) (select mb (nth b ts [])) ca cb)) /\
  (forall ow view ma, nth b ow None = None -> nth a ow None = Some ma ->
     get_mask_top (Sys ts js ow) b view =
     out_of (join_mask (apply_view [] view (nth b ts [])) (select ma (nth a ts [])) cb ca)).
Proof.
  intros ts a b ca cb js Hab Ha Hb H.
  destruct (join_on_key_both ts a b ca cb js Hab Ha Hb H) as [Ja [Jb _]].
  split; intros ow view m Hn Hs; unfold get_mask_top, fuel_for; simpl tables;
    replace (2 * length ts + 2)%nat with (S (S (2 * length ts))) by lia.
  - apply (get_mask_via_join _ (Sys ts js ow) [] a view [] b ca cb [] m).
    + exact Hn.
    + exact Ja.
    + intros j [].
    + reflexivity.
    + rewrite get_mask_S. unfold own_of. simpl own. rewrite Hs. reflexivity.
  - apply (get_mask_via_join _ (Sys ts js ow) [] b view [] a cb ca [] m).
    + exact Hn.
    + exact Jb.
    + intros j [].
    + reflexivity.
    + rewrite get_mask_S. unfold own_of. simpl own. rewrite Hs. reflexivity.
Qed.

(* ------------------------------------------------------------------ chains *)
(* a path  d0 -(c)- d1 -(c')- ... - dk : each entry carries the cids of the join towards the next dataset *)
Definition hop : Type := nat * (list nat * list nat).

Fixpoint chain_ok (S : sys) (prev : option nat) (path : list hop) : Prop :=
  match path with
  | [] => False
  | (d, c) :: rest =>
    match rest with
    | [] => exists m, own_of S d = Some m
    | (o, _) :: _ =>
      own_of S d = None /\
      (exists pre post, joins_of S d = pre ++ (o, c) :: post /\ forall j, In j pre -> Some (fst j) = prev) /\
      chain_ok S (Some d) rest
    end
  end.

Fixpoint chain_out (S : sys) (path : list hop) : outcome :=
  match path with
  | [] => Incompatible
  | (d, c) :: rest =>
    match rest with
    | [] => match own_of S d with Some m => Mask m | None => Incompatible end
    | (o, _) :: _ =>
      match chain_out S rest with
      | Mask mr => out_of (join_mask (rows_of S d) (select mr (rows_of S o)) (fst c) (snd c))
      | x => x
      end
    end
  end.

Lemma chain_out_not_inc : forall S path prev, chain_ok S prev path -> chain_out S path <> Incompatible.
Proof.
  intros S. induction path as [|[d c] rest IH]; intros prev H; [contradiction|].
  destruct rest as [|[o c'] rest'].
  - simpl in *. destruct H as [m Hm]. rewrite Hm. discriminate.
  - destruct H as [_ [_ H]]. specialize (IH (Some d) H).
    change (chain_out S ((d, c) :: (o, c') :: rest')) with
      (match chain_out S ((o, c') :: rest') with
       | Mask mr => out_of (join_mask (rows_of S d) (select mr (rows_of S o)) (fst c) (snd c))
       | x => x end).
    destruct (chain_out S ((o, c') :: rest')) eqn:E; try discriminate; [|intros _; exact (IH E)].
    unfold out_of. destruct (join_mask _ _ _ _); discriminate.
Qed.

Lemma try_joins_skip_flagged : forall ask F left S pre js,
  (forall j, In j pre -> memb (fst j) F = true) ->
  try_joins ask F left S (pre ++ js) = try_joins ask F left S js.
Proof.
  intros ask F left S. induction pre as [|[p [d1 d2]] pre IH]; intros js H; [reflexivity|].
  simpl app. rewrite try_joins_cons.
  assert (Hp := H (p, (d1, d2)) (or_introl eq_refl)). simpl in Hp. rewrite Hp.
  apply IH. intros j Hj. apply H. right. assumption.
Qed.

(* join_chain: along a chain in which only the last dataset can evaluate the selection, the first
   dataset receives the composition of the joins *)
Theorem join_chain : forall S path prev F fuel,
  chain_ok S prev path -> NoDup (map fst path) ->
  (forall p, prev = Some p -> memb p F = true) ->
  (forall x, In x (map fst path) -> memb x F = false) ->
  (length path <= fuel)%nat ->
  get_mask fuel S F (hd 0%nat (map fst path)) None = chain_out S path.
Proof.
  intros S. induction path as [|[d c] rest IH]; intros prev F fuel Hok Hnd Hprev Hfl Hfuel; [contradiction|].
  destruct fuel as [|f]; [simpl in Hfuel; lia|].
  destruct rest as [|[o c'] rest'].
  - simpl in *. destruct Hok as [m Hm]. rewrite Hm. reflexivity.
  - destruct Hok as [Hown [[pre [post [Hj Hpre]]] Hrest]].
    assert (Hnd' : NoDup (map fst ((o, c') :: rest'))) by (simpl in Hnd; inversion Hnd; assumption).
    assert (Hd_notin : ~ In d (map fst ((o, c') :: rest'))) by (simpl in Hnd; inversion Hnd; assumption).
    assert (R : get_mask f S (d :: F) o None = chain_out S ((o, c') :: rest')).
    { apply (IH (Some d) (d :: F) f Hrest Hnd').
      - intros p Hp. injection Hp as Hp. subst. rewrite memb_cons, Nat.eqb_refl. reflexivity.
      - intros x Hx. rewrite memb_cons. rewrite (Hfl x (or_intror Hx)).
        rewrite (proj2 (Nat.eqb_neq x d)); [reflexivity|]. intro E. subst. contradiction.
      - simpl in *. lia. }
    simpl map. simpl hd. rewrite get_mask_S, Hown, Hj.
    rewrite try_joins_skip_flagged by (intros j Hjin; apply Hprev; symmetry; apply Hpre; assumption).
    destruct c as [c1 c2]. rewrite try_joins_cons.
    rewrite (Hfl o) by (simpl; right; left; reflexivity).
    rewrite R.
    assert (NI := chain_out_not_inc S _ _ Hrest).
    change (chain_out S ((d, (c1, c2)) :: (o, c') :: rest')) with
      (match chain_out S ((o, c') :: rest') with
       | Mask mr => out_of (join_mask (rows_of S d) (select mr (rows_of S o)) c1 c2)
       | x => x end).
    destruct (chain_out S ((o, c') :: rest')) eqn:E; try reflexivity. exfalso. exact (NI E).
Qed.

(* ------------------------------------------------------------------ F-C11 : the unrepaired byte comparison *)
(* (1, 1) stored as int32 pair on the left, as int64 pair on the right: equal by value, never matched;
   (1, 2) as int32 pair against (2^33 + 1, 0) as int64 pair: different by value, matched *)
Definition i32 (v : Z) : cell := Cell KInt 4 (le_bytes 4 v).
Definition i64 (v : Z) : cell := Cell KInt 8 (le_bytes 8 v).

Theorem join_n_n_width_refuted :
  (exists left right mr c1 c2,
     length c1 = length c2 /\ (1 < length c1)%nat /\ nn_domain left right c1 c2 /\
     exists r r', nth_error left 0 = Some r /\ nth_error right 0 = Some r' /\ selected mr 0 /\
       Forall2 (fun x y => veq (key r x) (key r' y) = true) c1 c2 /\
       ~ selected (mask_nn_raw left (select mr right) c1 c2) 0) /\
  (exists left right mr c1 c2,
     length c1 = length c2 /\ (1 < length c1)%nat /\ nn_domain left right c1 c2 /\
     selected (mask_nn_raw left (select mr right) c1 c2) 0 /\
     forall r j r', nth_error left 0 = Some r -> selected mr j -> nth_error right j = Some r' ->
       ~ Forall2 (fun x y => veq (key r x) (key r' y) = true) c1 c2).
Proof.
  split.
  - exists [[i32 1; i32 1]], [[i64 1; i64 1]], [true], [0%nat; 1%nat], [0%nat; 1%nat].
    split; [reflexivity|]. split; [simpl; lia|]. split.
    { intros r r' x y [Hr|[]] [Hr'|[]] Hxy. subst.
      simpl in Hxy. destruct Hxy as [E|[E|[]]]; injection E as Ex Ey; subst; vm_compute; auto. }
    exists [i32 1; i32 1], [i64 1; i64 1].
    split; [reflexivity|]. split; [reflexivity|]. split; [reflexivity|]. split.
    + repeat constructor.
    + vm_compute. discriminate.
  - exists [[i32 1; i32 2]], [[i64 8589934593; i64 0]], [true], [0%nat; 1%nat], [0%nat; 1%nat].
    split; [reflexivity|]. split; [simpl; lia|]. split.
    { intros r r' x y [Hr|[]] [Hr'|[]] Hxy. subst.
      simpl in Hxy. destruct Hxy as [E|[E|[]]]; injection E as Ex Ey; subst; vm_compute; auto. }
    split; [vm_compute; reflexivity|].
    intros r j r' Hr Hm Hr'. injection Hr as Hr. subst r.
    destruct j as [|[|j]]; try (vm_compute in Hm; discriminate).
    injection Hr' as Hr'. subst r'. intro H. inversion H as [|? ? ? ? Hv _]; subst.
    vm_compute in Hv. discriminate.
Qed.
