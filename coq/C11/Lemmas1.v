(* C11 — lemmas, part 1: bytes, values, dtype promotion, the concatenated key *)
From Coq Require Import ZArith List Bool Arith Lia.
Import ListNotations.
From GV Require Import Common.Wire C11.Model.
Open Scope Z_scope.

(* ------------------------------------------------------------------ list equality *)
Lemma zlist_eqb_spec : forall a b, zlist_eqb a b = true <-> a = b.
Proof.
  induction a as [|x a IH]; intros [|y b]; simpl; split; intro H; try congruence; try reflexivity.
  - apply andb_true_iff in H. destruct H as [Hxy Hab]. apply Z.eqb_eq in Hxy. apply IH in Hab. congruence.
  - injection H as Hxy Hab. subst. apply andb_true_iff. split. apply Z.eqb_refl. apply IH. reflexivity.
Qed.

Lemma zlist_eqb_refl : forall a, zlist_eqb a a = true.
Proof. intro a. apply zlist_eqb_spec. reflexivity. Qed.

(* ------------------------------------------------------------------ strip0 / pad0 *)
Lemma strip0_cons : forall x t,
  strip0 (x :: t) = match strip0 t with [] => if x =? 0 then [] else [x] | t' => x :: t' end.
Proof. reflexivity. Qed.

Lemma strip0_nil_inv : forall l, strip0 l = [] -> Forall (fun x => x = 0) l.
Proof.
  induction l as [|x t IH]; intro H; [constructor|].
  rewrite strip0_cons in H. destruct (strip0 t) eqn:Et.
  - destruct (x =? 0) eqn:Ex; [|discriminate]. apply Z.eqb_eq in Ex. constructor; auto.
  - discriminate.
Qed.

Lemma strip0_inj_len : forall a b, length a = length b -> strip0 a = strip0 b -> a = b.
Proof.
  induction a as [|x a IH]; intros [|y b] Hlen Heq; simpl in Hlen; try discriminate; [reflexivity|].
  injection Hlen as Hlen. rewrite !strip0_cons in Heq.
  destruct (strip0 a) eqn:Ea; destruct (strip0 b) eqn:Eb.
  - destruct (x =? 0) eqn:Ex; destruct (y =? 0) eqn:Ey; try discriminate.
    + apply Z.eqb_eq in Ex. apply Z.eqb_eq in Ey. subst. f_equal. apply IH; congruence.
    + injection Heq as Hxy. subst. f_equal. apply IH; congruence.
  - destruct (x =? 0); discriminate.
  - destruct (y =? 0); discriminate.
  - injection Heq as Hxy Hz Ht. subst. f_equal. apply IH; [assumption|congruence].
Qed.

Lemma strip0_idem : forall l, strip0 (strip0 l) = strip0 l.
Proof.
  induction l as [|x t IH]; [reflexivity|].
  rewrite strip0_cons. destruct (strip0 t) as [|z t'] eqn:Et.
  - destruct (x =? 0) eqn:Ex; [reflexivity|]. simpl. rewrite Ex. reflexivity.
  - rewrite strip0_cons. rewrite IH. reflexivity.
Qed.

Lemma strip0_length : forall l, (length (strip0 l) <= length l)%nat.
Proof.
  induction l as [|x t IH]; [simpl; lia|].
  rewrite strip0_cons. destruct (strip0 t) as [|z t'] eqn:Et.
  - destruct (x =? 0); simpl; lia.
  - simpl in *. lia.
Qed.

Lemma strip0_Forall : forall (P : Z -> Prop) l, Forall P l -> Forall P (strip0 l).
Proof.
  intros P. induction l as [|x t IH]; intro H; [constructor|].
  inversion H as [|? ? Hx Ht]; subst. rewrite strip0_cons.
  destruct (strip0 t) as [|z t'] eqn:Et.
  - destruct (x =? 0); constructor; auto.
  - constructor; auto.
Qed.

Lemma pad0_length : forall n l, length (pad0 n l) = n.
Proof. induction n as [|n IH]; intros l; [reflexivity|]. destruct l; simpl; rewrite IH; reflexivity. Qed.

Lemma strip0_pad0_nil : forall n, strip0 (pad0 n []) = [].
Proof. induction n as [|n IH]; [reflexivity|]. simpl pad0. rewrite strip0_cons, IH. reflexivity. Qed.

Lemma strip0_pad0 : forall n l, (length l <= n)%nat -> strip0 (pad0 n l) = strip0 l.
Proof.
  induction n as [|n IH]; intros l Hl.
  - destruct l; simpl in Hl; [reflexivity|lia].
  - destruct l as [|x t].
    + apply (strip0_pad0_nil (S n)).
    + simpl pad0. rewrite !strip0_cons. rewrite IH by (simpl in Hl; lia). reflexivity.
Qed.

Lemma pad0_Forall : forall (P : Z -> Prop) n l, P 0 -> Forall P l -> Forall P (pad0 n l).
Proof.
  intros P. induction n as [|n IH]; intros l H0 Hl; [constructor|].
  destruct l as [|x t]; simpl.
  - constructor; auto.
  - inversion Hl; subst. constructor; auto.
Qed.

(* padding is injective on stripped strings that fit *)
Lemma pad0_inj_stripped : forall n a b,
  (length a <= n)%nat -> (length b <= n)%nat -> strip0 a = a -> strip0 b = b ->
  pad0 n a = pad0 n b -> a = b.
Proof.
  intros n a b Ha Hb Sa Sb H.
  rewrite <- Sa, <- Sb. rewrite <- (strip0_pad0 n a Ha), <- (strip0_pad0 n b Hb). rewrite H. reflexivity.
Qed.

(* ------------------------------------------------------------------ concatenation of equally long pieces *)
Lemma app_inj_len : forall (A : Type) (a b c d : list A),
  length a = length b -> a ++ c = b ++ d -> a = b /\ c = d.
Proof.
  induction a as [|x a IH]; intros [|y b] c d Hlen H; simpl in Hlen; try discriminate.
  - split; [reflexivity|assumption].
  - simpl in H. injection H as Hxy H. injection Hlen as Hlen.
    destruct (IH b c d Hlen H) as [Hab Hcd]. subst. split; reflexivity.
Qed.

Definition same_lengths (xs ys : list (list Z)) : Prop := Forall2 (fun x y => length x = length y) xs ys.

Lemma concat_length_same : forall xs ys, same_lengths xs ys -> length (concat xs) = length (concat ys).
Proof.
  intros xs ys H. induction H as [|x y xs ys Hxy _ IH]; [reflexivity|].
  simpl. rewrite !app_length. congruence.
Qed.

Lemma concat_inj_len : forall xs ys, same_lengths xs ys -> concat xs = concat ys -> xs = ys.
Proof.
  intros xs ys H. induction H as [|x y xs ys Hxy _ IH]; intro Hc; [reflexivity|].
  simpl in Hc. destruct (app_inj_len _ _ _ _ _ Hxy Hc) as [H1 H2]. subst. f_equal. apply IH. assumption.
Qed.

(* concat_key_injective: when the column widths agree on both sides, the
   concatenated S<total> items are equal (as numpy compares them, i.e. up to
   trailing NULs) iff the tuples of column contents are equal *)
Lemma skey_injective : forall xs ys, same_lengths xs ys -> (skey xs = skey ys <-> xs = ys).
Proof.
  intros xs ys H. unfold skey. split; intro E.
  - apply concat_inj_len; [assumption|]. apply strip0_inj_len; [|assumption]. apply concat_length_same. assumption.
  - subst. reflexivity.
Qed.

(* without the width agreement both directions fail *)
Lemma skey_not_injective_without_widths :
  (exists xs ys, length xs = length ys /\ skey xs = skey ys /\ xs <> ys) /\
  (exists xs ys, length xs = length ys /\ map strip0 xs = map strip0 ys /\ skey xs <> skey ys).
Proof.
  split.
  - (* (1, 2) stored as two int32  against  (2^33 + 1, 0) stored as two int64 *)
    exists [[1;0;0;0]; [2;0;0;0]], [[1;0;0;0;2;0;0;0]; [0;0;0;0;0;0;0;0]].
    split; [reflexivity|]. split; [reflexivity|]. discriminate.
  - (* (1, 1) stored as two int32  against  (1, 1) stored as two int64 *)
    exists [[1;0;0;0]; [1;0;0;0]], [[1;0;0;0;0;0;0;0]; [1;0;0;0;0;0;0;0]].
    split; [reflexivity|]. split; [reflexivity|]. discriminate.
Qed.

(* ------------------------------------------------------------------ little-endian numbers *)
Lemma p256_0 : p256 0 = 1. Proof. reflexivity. Qed.
Lemma p256_S : forall w, p256 (S w) = 256 * p256 w.
Proof. intro w. unfold p256. rewrite Nat2Z.inj_succ. rewrite Z.pow_succ_r by lia. reflexivity. Qed.
Lemma p256_pos : forall w, 0 < p256 w.
Proof. intro w. unfold p256. apply Z.pow_pos_nonneg; lia. Qed.
Lemma p256_mono : forall a b, (a <= b)%nat -> p256 a <= p256 b.
Proof. intros a b H. unfold p256. apply Z.pow_le_mono_r; lia. Qed.

Lemma le_bytes_length : forall w v, length (le_bytes w v) = w.
Proof. induction w as [|w IH]; intro v; simpl; [reflexivity|]. rewrite IH. reflexivity. Qed.

Lemma le_bytes_inj : forall w x y, le_bytes w x = le_bytes w y <-> x mod p256 w = y mod p256 w.
Proof.
  induction w as [|w IH]; intros x y.
  - simpl. rewrite p256_0, !Z.mod_1_r. split; reflexivity.
  - simpl le_bytes. rewrite p256_S.
    assert (Hp := p256_pos w).
    rewrite (Z.rem_mul_r x 256 (p256 w)) by lia.
    rewrite (Z.rem_mul_r y 256 (p256 w)) by lia.
    assert (Hx := Z.mod_pos_bound x 256 ltac:(lia)).
    assert (Hy := Z.mod_pos_bound y 256 ltac:(lia)).
    split; intro H.
    + injection H as H1 H2. apply IH in H2. rewrite H1, H2. reflexivity.
    + assert (Hgen : forall r1 r2 q1 q2 : Z, 0 <= r1 < 256 -> 0 <= r2 < 256 ->
                r1 + 256 * q1 = r2 + 256 * q2 -> r1 = r2 /\ q1 = q2) by (intros; lia).
      destruct (Hgen _ _ _ _ Hx Hy H) as [H1 H2].
      rewrite H1. f_equal. apply IH. exact H2.
Qed.

Definition bytes_ok (bs : list Z) : Prop := Forall (fun b => 0 <= b < 256) bs.

Lemma byteb_ok : forall bs, forallb byteb bs = true -> bytes_ok bs.
Proof.
  intros bs H. unfold bytes_ok. rewrite forallb_forall in H. apply Forall_forall. intros b Hb.
  specialize (H b Hb). unfold byteb in H. apply andb_true_iff in H. lia.
Qed.

Lemma le_val_bound : forall bs, bytes_ok bs -> 0 <= le_val bs < p256 (length bs).
Proof.
  induction bs as [|b t IH]; intro H.
  - simpl. rewrite p256_0. lia.
  - inversion H as [|? ? Hb Ht]; subst. specialize (IH Ht). simpl length. rewrite p256_S.
    change (le_val (b :: t)) with (b + 256 * le_val t). lia.
Qed.

Lemma mod_eq_small : forall M x y, 0 < M -> - M <= 2 * x < M -> - M <= 2 * y < M -> x mod M = y mod M -> x = y.
Proof.
  intros M x y HM Hx Hy H.
  assert (Ex := Z.div_mod x M ltac:(lia)). assert (Ey := Z.div_mod y M ltac:(lia)).
  rewrite H in Ex.
  assert (Hk : M * (x / M - y / M) = x - y) by lia.
  assert (x / M - y / M = 0) by nia.
  lia.
Qed.

Lemma int_of_bytes_range : forall bs, bytes_ok bs -> (0 < length bs)%nat ->
  - p256 (length bs) <= 2 * int_of_bytes bs < p256 (length bs).
Proof.
  intros bs H Hl. unfold int_of_bytes. assert (B := le_val_bound bs H).
  destruct (2 * le_val bs <? p256 (length bs)) eqn:E; [apply Z.ltb_lt in E|apply Z.ltb_ge in E]; lia.
Qed.

(* ------------------------------------------------------------------ casts decide equality by value *)
Definition wf_cell (c : cell) : Prop := wf_cellb c = true.

Lemma wf_cell_inv : forall c, wf_cell c ->
  length (cbytes c) = cwidth c /\ bytes_ok (cbytes c) /\
  match ckind c with
  | KInt => (0 < cwidth c)%nat
  | KFlt => cwidth c = 8%nat
  | KStr => Nat.modulo (cwidth c) 4 = 0%nat
  end.
Proof.
  intros c H. unfold wf_cell, wf_cellb in H.
  apply andb_true_iff in H. destruct H as [H H3]. apply andb_true_iff in H. destruct H as [H1 H2].
  apply Nat.eqb_eq in H1. split; [assumption|]. split; [apply byteb_ok; assumption|].
  destruct (ckind c).
  - apply Nat.ltb_lt in H3. assumption.
  - apply Nat.eqb_eq in H3. assumption.
  - apply Nat.eqb_eq in H3. assumption.
Qed.

Lemma cast_int_int : forall W a b,
  wf_cell a -> wf_cell b -> ckind a = KInt -> ckind b = KInt -> (cwidth a <= W)%nat -> (cwidth b <= W)%nat ->
  (cast KInt W a = cast KInt W b <-> veq a b = true).
Proof.
  intros W a b Ha Hb Ka Kb Wa Wb. unfold cast, veq, cell_val. rewrite Ka, Kb. simpl val_eqb.
  destruct (wf_cell_inv a Ha) as [La [Ba Ta]]. destruct (wf_cell_inv b Hb) as [Lb [Bb Tb]].
  rewrite Ka in Ta. rewrite Kb in Tb.
  assert (Ra := int_of_bytes_range (cbytes a) Ba ltac:(lia)).
  assert (Rb := int_of_bytes_range (cbytes b) Bb ltac:(lia)).
  assert (Ma := p256_mono (length (cbytes a)) W ltac:(lia)).
  assert (Mb := p256_mono (length (cbytes b)) W ltac:(lia)).
  rewrite le_bytes_inj. rewrite Z.eqb_eq. split; intro H.
  - apply (mod_eq_small (p256 W)); [apply p256_pos|lia|lia|assumption].
  - rewrite H. reflexivity.
Qed.

Lemma p256_8 : p256 8 = two64. Proof. reflexivity. Qed.

Lemma le_bytes8_inj : forall x y, 0 <= x < two64 -> 0 <= y < two64 -> (le_bytes 8 x = le_bytes 8 y <-> x = y).
Proof.
  intros x y Hx Hy. rewrite le_bytes_inj. rewrite p256_8. rewrite !Z.mod_small by assumption. reflexivity.
Qed.

Lemma flt_of_bytes_range : forall c, wf_cell c -> ckind c = KFlt -> 0 <= flt_of_bytes (cbytes c) < two64.
Proof.
  intros c H K. destruct (wf_cell_inv c H) as [L [B T]]. rewrite K in T.
  assert (R := le_val_bound (cbytes c) B). rewrite L, T, p256_8 in R.
  unfold flt_of_bytes, flt_canon. destruct (le_val (cbytes c) =? two63); [|assumption].
  unfold two64. lia.
Qed.

Lemma f64_of_int_range : forall i, 0 <= f64_of_int i < two64.
Proof.
  intro i. unfold f64_of_int. destruct (i =? 0).
  - unfold two64. lia.
  - apply Z.mod_pos_bound. unfold two64. lia.
Qed.

Lemma cast_flt : forall a b,
  wf_cell a -> wf_cell b -> numeric (ckind a) = true -> numeric (ckind b) = true ->
  (ckind a = KFlt \/ ckind b = KFlt) -> conv_ok a b = true ->
  (cast KFlt 8 a = cast KFlt 8 b <-> veq a b = true).
Proof.
  intros a b Ha Hb Na Nb Hf Hc. unfold cast, veq, cell_val. unfold conv_ok in Hc.
  destruct (ckind a) eqn:Ka; destruct (ckind b) eqn:Kb; simpl in Na, Nb; try discriminate;
    try (destruct Hf; discriminate); simpl val_eqb.
  - apply Bool.eqb_prop in Hc. rewrite <- Hc. rewrite Z.eqb_eq. apply le_bytes8_inj.
    + apply f64_of_int_range.
    + apply flt_of_bytes_range; assumption.
  - apply Bool.eqb_prop in Hc. rewrite <- Hc. rewrite Z.eqb_eq. apply le_bytes8_inj.
    + apply flt_of_bytes_range; assumption.
    + apply f64_of_int_range.
  - rewrite Z.eqb_eq. apply le_bytes8_inj; apply flt_of_bytes_range; assumption.
Qed.

(* strings *)
Definition cp_ok (x : Z) : Prop := 0 <= x < 2 ^ 32.

Lemma cps_of_bytes_spec : forall n bs, (length bs <= n)%nat -> bytes_ok bs ->
  Forall cp_ok (cps_of_bytes bs) /\ (4 * length (cps_of_bytes bs) <= length bs)%nat.
Proof.
  induction n as [|n IH]; intros bs Hl Hb.
  - destruct bs; simpl in Hl; [|lia]. simpl. split; [constructor|lia].
  - destruct bs as [|a [|b [|c [|d t]]]]; try (simpl; split; [constructor|lia]).
    change (cps_of_bytes (a :: b :: c :: d :: t)) with (le_val [a; b; c; d] :: cps_of_bytes t).
    inversion Hb as [|? ? Ha Hb1]; subst. inversion Hb1 as [|? ? Hbb Hb2]; subst.
    inversion Hb2 as [|? ? Hc Hb3]; subst. inversion Hb3 as [|? ? Hd Ht]; subst.
    destruct (IH t) as [F L]; [simpl in Hl; lia|assumption|].
    split.
    + constructor; [|assumption]. unfold cp_ok.
      assert (B4 : bytes_ok [a; b; c; d]).
      { unfold bytes_ok. constructor; [exact Ha|]. constructor; [exact Hbb|]. constructor; [exact Hc|].
        constructor; [exact Hd|]. constructor. }
      apply le_val_bound in B4. exact B4.
    + simpl length in *. lia.
Qed.

Lemma le_bytes4_inj : forall x y, cp_ok x -> cp_ok y -> le_bytes 4 x = le_bytes 4 y -> x = y.
Proof.
  intros x y Hx Hy H. apply le_bytes_inj in H. change (p256 4) with (2 ^ 32) in H.
  unfold cp_ok in *. rewrite !Z.mod_small in H by assumption. assumption.
Qed.

Lemma bytes_of_cps_cons : forall x t, bytes_of_cps (x :: t) = le_bytes 4 x ++ bytes_of_cps t.
Proof. reflexivity. Qed.

Lemma bytes_of_cps_inj : forall a b, length a = length b -> Forall cp_ok a -> Forall cp_ok b ->
  bytes_of_cps a = bytes_of_cps b -> a = b.
Proof.
  induction a as [|x a IH]; intros [|y b] Hl Fa Fb H; simpl in Hl; try discriminate; [reflexivity|].
  inversion Fa as [|? ? Px Pa]; subst. inversion Fb as [|? ? Py Pb]; subst. rewrite !bytes_of_cps_cons in H.
  destruct (app_inj_len _ _ _ _ _ ltac:(rewrite !le_bytes_length; reflexivity) H) as [E1 E2].
  f_equal.
  - apply le_bytes4_inj; assumption.
  - apply IH; [lia|assumption|assumption|assumption].
Qed.

Lemma bytes_of_cps_length : forall l, length (bytes_of_cps l) = (4 * length l)%nat.
Proof.
  induction l as [|x t IH]; [reflexivity|]. rewrite bytes_of_cps_cons.
  rewrite app_length, le_bytes_length, IH. simpl length. lia.
Qed.

Lemma str_of_bytes_props : forall c W, wf_cell c -> (cwidth c <= W)%nat ->
  Forall cp_ok (str_of_bytes (cbytes c)) /\ (length (str_of_bytes (cbytes c)) <= Nat.div W 4)%nat
  /\ strip0 (str_of_bytes (cbytes c)) = str_of_bytes (cbytes c).
Proof.
  intros c W H HW. destruct (wf_cell_inv c H) as [L [B _]].
  destruct (cps_of_bytes_spec (length (cbytes c)) (cbytes c) (le_n _) B) as [F Ln].
  unfold str_of_bytes. split; [apply strip0_Forall; assumption|]. split.
  - assert (S := strip0_length (cps_of_bytes (cbytes c))).
    apply Nat.div_le_lower_bound; lia.
  - apply strip0_idem.
Qed.

Lemma cast_str_str : forall W a b,
  wf_cell a -> wf_cell b -> ckind a = KStr -> ckind b = KStr -> (cwidth a <= W)%nat -> (cwidth b <= W)%nat ->
  (cast KStr W a = cast KStr W b <-> veq a b = true).
Proof.
  intros W a b Ha Hb Ka Kb Wa Wb. unfold cast, veq, cell_val. rewrite Ka, Kb. simpl val_eqb.
  destruct (str_of_bytes_props a W Ha Wa) as [Fa [La Sa]].
  destruct (str_of_bytes_props b W Hb Wb) as [Fb [Lb Sb]].
  rewrite zlist_eqb_spec. split; intro H.
  - apply bytes_of_cps_inj in H.
    + apply (pad0_inj_stripped (Nat.div W 4)); assumption.
    + rewrite !pad0_length. reflexivity.
    + apply pad0_Forall; [unfold cp_ok; lia|assumption].
    + apply pad0_Forall; [unfold cp_ok; lia|assumption].
  - rewrite H. reflexivity.
Qed.

Lemma cast_length : forall K W c, kind_eqb K KStr = false \/ Nat.modulo W 4 = 0%nat ->
  (K = KInt -> ckind c = KInt) -> (K = KStr -> ckind c = KStr) -> (K = KFlt -> numeric (ckind c) = true) ->
  length (cast K W c) = W.
Proof.
  intros K W c HW Hi Hs Hf. unfold cast. destruct K.
  - rewrite (Hi eq_refl). apply le_bytes_length.
  - specialize (Hf eq_refl). destruct (ckind c); simpl in Hf; try discriminate; apply le_bytes_length.
  - rewrite (Hs eq_refl). rewrite bytes_of_cps_length, pad0_length.
    destruct HW as [HW|HW]; [discriminate|].
    assert (E := Nat.div_mod W 4 ltac:(lia)). lia.
Qed.

(* the pair of casts of the repaired n-n comparison: equal bytes iff equal values, and equal lengths *)
Lemma cast_pair_spec : forall a b, wf_cell a -> wf_cell b -> compat a b = true -> conv_ok a b = true ->
  (fst (cast_pair (a, b)) = snd (cast_pair (a, b)) <-> veq a b = true) /\
  length (fst (cast_pair (a, b))) = length (snd (cast_pair (a, b))).
Proof.
  intros a b Ha Hb Hc Hk. unfold cast_pair, compat in *.
  destruct (wf_cell_inv a Ha) as [_ [_ Ta]]. destruct (wf_cell_inv b Hb) as [_ [_ Tb]].
  destruct (ckind a) eqn:Ka; destruct (ckind b) eqn:Kb; simpl in Hc; try discriminate; cbn [promote fst snd].
  - split.
    + apply cast_int_int; auto; lia.
    + rewrite !cast_length; auto; try (intros; discriminate).
  - split.
    + apply cast_flt; auto; rewrite ?Ka, ?Kb; auto.
    + rewrite !cast_length; auto; try (intros; discriminate); intros _; rewrite ?Ka, ?Kb; reflexivity.
  - split.
    + apply cast_flt; auto; rewrite ?Ka, ?Kb; auto.
    + rewrite !cast_length; auto; try (intros; discriminate); intros _; rewrite ?Ka, ?Kb; reflexivity.
  - split.
    + apply cast_flt; auto; rewrite ?Ka, ?Kb; auto.
    + rewrite !cast_length; auto; try (intros; discriminate); intros _; rewrite ?Ka, ?Kb; reflexivity.
  - assert (HW : Nat.modulo (Nat.max (cwidth a) (cwidth b)) 4 = 0%nat).
    { destruct (Nat.max_dec (cwidth a) (cwidth b)) as [E|E]; rewrite E; assumption. }
    split.
    + apply cast_str_str; auto; lia.
    + rewrite !cast_length; auto; try (intros; discriminate).
Qed.

Definition good_pair (p : cell * cell) : Prop :=
  wf_cell (fst p) /\ wf_cell (snd p) /\ compat (fst p) (snd p) = true /\ conv_ok (fst p) (snd p) = true.

(* the repaired n-n comparison decides equality of the key tuples by value *)
Lemma nn_match_pairs : forall l, (forall p, In p l -> good_pair p) ->
  zlist_eqb (skey (map fst (map cast_pair l))) (skey (map snd (map cast_pair l)))
  = forallb (fun p => veq (fst p) (snd p)) l.
Proof.
  intros l Hg.
  assert (SL : same_lengths (map fst (map cast_pair l)) (map snd (map cast_pair l))).
  { induction l as [|p l IH]; [constructor|]. simpl. constructor.
    - destruct p as [a b]. destruct (Hg (a, b) (or_introl eq_refl)) as [Ha [Hb [Hc Hk]]].
      apply (cast_pair_spec a b Ha Hb Hc Hk).
    - apply IH. intros q Hq. apply Hg. right. assumption. }
  assert (E : map fst (map cast_pair l) = map snd (map cast_pair l) <-> forallb (fun p => veq (fst p) (snd p)) l = true).
  { clear SL. induction l as [|p l IH]; [simpl; split; reflexivity|].
    destruct p as [a b]. destruct (Hg (a, b) (or_introl eq_refl)) as [Ha [Hb [Hc Hk]]].
    destruct (cast_pair_spec a b Ha Hb Hc Hk) as [Hv _].
    specialize (IH (fun q Hq => Hg q (or_intror Hq))).
    simpl map. simpl forallb. rewrite andb_true_iff. split; intro H.
    - injection H as H1 H2. split; [apply Hv; assumption|apply IH; assumption].
    - destruct H as [H1 H2]. f_equal; [apply Hv; assumption|apply IH; assumption]. }
  destruct (forallb (fun p => veq (fst p) (snd p)) l) eqn:F.
  - apply zlist_eqb_spec. apply skey_injective; [assumption|]. apply E. reflexivity.
  - destruct (zlist_eqb _ _) eqn:Z; [|reflexivity].
    apply zlist_eqb_spec in Z. apply skey_injective in Z; [|assumption]. apply E in Z. discriminate.
Qed.

Lemma nn_match_spec : forall ka kb, (forall p, In p (combine ka kb) -> good_pair p) ->
  nn_match ka kb = forallb (fun p => veq (fst p) (snd p)) (combine ka kb).
Proof. intros ka kb H. unfold nn_match. apply nn_match_pairs. assumption. Qed.
