(* C11 — lemmas, part 2: the four join shapes as membership laws on tables *)
From Coq Require Import ZArith List Bool Arith Lia.
Import ListNotations.
From GV Require Import Common.Wire C11.Model C11.Lemmas1.
Open Scope Z_scope.

Lemma existsb_map : forall (A B : Type) (f : A -> B) (p : B -> bool) l,
  existsb p (map f l) = existsb (fun x => p (f x)) l.
Proof. induction l as [|x l IH]; simpl; [reflexivity|]. rewrite IH. reflexivity. Qed.

Lemma existsb_ext_in : forall (A : Type) (p q : A -> bool) l,
  (forall x, In x l -> p x = q x) -> existsb p l = existsb q l.
Proof.
  induction l as [|x l IH]; intro H; simpl; [reflexivity|].
  rewrite (H x (or_introl eq_refl)). rewrite IH; [reflexivity|]. intros y Hy. apply H. right. assumption.
Qed.

(* ------------------------------------------------------------------ select *)
Lemma select_cons : forall (A : Type) (b : bool) m (x : A) t,
  select (b :: m) (x :: t) = if b then x :: select m t else select m t.
Proof. intros. unfold select. simpl. destruct b; reflexivity. Qed.

Lemma In_select : forall (A : Type) (m : list bool) (t : list A) r,
  In r (select m t) <-> exists j, nth_error m j = Some true /\ nth_error t j = Some r.
Proof.
  induction m as [|b m IH]; intros t r.
  - unfold select. simpl. split; [intros []|]. intros [j [H _]]. destruct j; discriminate.
  - destruct t as [|x t].
    + unfold select. simpl. split; [intros []|]. intros [j [_ H]]. destruct j; discriminate.
    + rewrite select_cons. destruct b.
      * simpl In. rewrite IH. split.
        -- intros [E|[j [H1 H2]]]; [exists 0%nat; subst; split; reflexivity|exists (S j); split; assumption].
        -- intros [[|j] [H1 H2]]; simpl in *; [left; congruence|right; exists j; split; assumption].
      * rewrite IH. split.
        -- intros [j [H1 H2]]. exists (S j). split; assumption.
        -- intros [[|j] [H1 H2]]; simpl in *; [discriminate|exists j; split; assumption].
Qed.

(* ------------------------------------------------------------------ row predicates: "this row is selected" *)
Definition sel_11 (right : table) (a b : nat) (r : row) : bool :=
  existsb (fun r' => veq (key r a) (key r' b)) right.
Definition tuple_eqv (r r' : row) (c1 c2 : list nat) : bool :=
  forallb (fun p => veq (fst p) (snd p)) (combine (keys r c1) (keys r' c2)).
Definition sel_nn (right : table) (c1 c2 : list nat) (r : row) : bool :=
  existsb (fun r' => tuple_eqv r r' c1 c2) right.
Definition sel_1n (right : table) (a : nat) (c2 : list nat) (r : row) : bool :=
  existsb (fun b => sel_11 right a b r) c2.
Definition sel_n1 (right : table) (c1 : list nat) (b : nat) (r : row) : bool :=
  existsb (fun a => sel_11 right a b r) c1.

Lemma mask_11_map : forall left right a b, mask_11 left right a b = map (sel_11 right a b) left.
Proof.
  intros. unfold mask_11, isin, col, sel_11. rewrite map_map. apply map_ext. intro r.
  rewrite existsb_map. reflexivity.
Qed.

Lemma orb_lists_map : forall (A : Type) (f g : A -> bool) l,
  orb_lists (map f l) (map g l) = map (fun x => f x || g x) l.
Proof. induction l as [|x l IH]; [reflexivity|]. unfold orb_lists in *. simpl. rewrite IH. reflexivity. Qed.

Lemma fold_or_map : forall (A : Type) (g : nat -> A -> bool) (cs : list nat) (f : A -> bool) (l : list A),
  fold_left (fun m c => orb_lists m (map (g c) l)) cs (map f l) = map (fun x => f x || existsb (fun c => g c x) cs) l.
Proof.
  induction cs as [|c cs IH]; intros f l; simpl.
  - apply map_ext. intro x. rewrite orb_false_r. reflexivity.
  - rewrite orb_lists_map. rewrite IH. apply map_ext. intro x. rewrite orb_assoc. reflexivity.
Qed.

Lemma mask_1n_map : forall left right a c2, mask_1n left right a c2 = map (sel_1n right a c2) left.
Proof.
  intros. unfold mask_1n.
  assert (E : forall m, fold_left (fun m b => orb_lists m (isin (col left a) (col right b))) c2 m
                   = fold_left (fun m b => orb_lists m (map (fun r => sel_11 right a b r) left)) c2 m).
  { induction c2 as [|b c2 IH]; intro m; simpl; [reflexivity|].
    rewrite <- IH. f_equal. f_equal. apply mask_11_map. }
  rewrite E. rewrite (fold_or_map row (fun b r => sel_11 right a b r) c2 (fun _ => false) left).
  apply map_ext. intro r. reflexivity.
Qed.

Lemma mask_n1_map : forall left right c1 b, mask_n1 left right c1 b = map (sel_n1 right c1 b) left.
Proof.
  intros. unfold mask_n1.
  assert (E : forall m, fold_left (fun m a => orb_lists m (isin (col left a) (col right b))) c1 m
                   = fold_left (fun m a => orb_lists m (map (fun r => sel_11 right a b r) left)) c1 m).
  { induction c1 as [|a c1 IH]; intro m; simpl; [reflexivity|].
    rewrite <- IH. f_equal. f_equal. apply mask_11_map. }
  rewrite E. rewrite (fold_or_map row (fun a r => sel_11 right a b r) c1 (fun _ => false) left).
  apply map_ext. intro r. reflexivity.
Qed.

(* domain of the n-n law: every compared pair of key cells is well formed and of compatible kinds *)
Definition nn_domain (left right : table) (c1 c2 : list nat) : Prop :=
  forall r r' x y, In r left -> In r' right -> In (x, y) (combine c1 c2) ->
    wf_cell (key r x) /\ wf_cell (key r' y) /\ compat (key r x) (key r' y) = true /\
    conv_ok (key r x) (key r' y) = true.

Lemma in_combine_map : forall (A B C D : Type) (f : A -> C) (g : B -> D) l1 l2 p,
  In p (combine (map f l1) (map g l2)) -> exists x y, In (x, y) (combine l1 l2) /\ p = (f x, g y).
Proof.
  induction l1 as [|x l1 IH]; intros [|y l2] p H; simpl in H; try contradiction.
  destruct H as [H|H].
  - exists x, y. split; [left; reflexivity|congruence].
  - destruct (IH l2 p H) as [x' [y' [H1 H2]]]. exists x', y'. split; [right; assumption|assumption].
Qed.

Lemma mask_nn_map : forall left right c1 c2, nn_domain left right c1 c2 ->
  mask_nn left right c1 c2 = map (sel_nn right c1 c2) left.
Proof.
  intros left right c1 c2 D. unfold mask_nn, sel_nn. apply map_ext_in. intros r Hr.
  apply existsb_ext_in. intros r' Hr'. unfold tuple_eqv. apply nn_match_spec.
  intros p Hp. unfold keys in Hp. apply in_combine_map in Hp. destruct Hp as [x [y [Hxy E]]]. subst p.
  unfold good_pair. simpl. apply D; assumption.
Qed.

Lemma mask_nn_domain_select : forall left right mr c1 c2,
  nn_domain left right c1 c2 -> nn_domain left (select mr right) c1 c2.
Proof.
  intros left right mr c1 c2 D r r' x y Hr Hr' Hxy. apply D; try assumption.
  apply In_select in Hr'. destruct Hr' as [j [_ H]]. apply nth_error_In in H. assumption.
Qed.

(* ------------------------------------------------------------------ reading a mask  map P left *)
Lemma nth_error_map_true : forall (A : Type) (P : A -> bool) l i,
  nth_error (map P l) i = Some true <-> exists r, nth_error l i = Some r /\ P r = true.
Proof.
  intros A P l i. rewrite nth_error_map. destruct (nth_error l i) as [r|]; simpl; split.
  - intro H. exists r. split; [reflexivity|congruence].
  - intros [r' [H1 H2]]. congruence.
  - discriminate.
  - intros [r' [H1 _]]. discriminate.
Qed.

Lemma sel_11_spec : forall right mr a b r,
  sel_11 (select mr right) a b r = true <->
  exists j r', nth_error mr j = Some true /\ nth_error right j = Some r' /\ veq (key r a) (key r' b) = true.
Proof.
  intros. unfold sel_11. rewrite existsb_exists. split.
  - intros [r' [H1 H2]]. apply In_select in H1. destruct H1 as [j [Hm Ht]]. exists j, r'. auto.
  - intros [j [r' [Hm [Ht Hv]]]]. exists r'. split; [|assumption]. apply In_select. exists j. auto.
Qed.

Lemma tuple_eqv_spec : forall r r' c1 c2, length c1 = length c2 ->
  (tuple_eqv r r' c1 c2 = true <-> Forall2 (fun x y => veq (key r x) (key r' y) = true) c1 c2).
Proof.
  intros r r'. unfold tuple_eqv, keys. induction c1 as [|x c1 IH]; intros [|y c2] Hl; simpl in Hl; try discriminate.
  - simpl. split; [constructor|reflexivity].
  - simpl. rewrite andb_true_iff. rewrite IH by lia. split.
    + intros [H1 H2]. constructor; assumption.
    + intro H. inversion H; subst. split; assumption.
Qed.

(* ------------------------------------------------------------------ the four laws on join_mask *)
Definition selected (m : list bool) (i : nat) : Prop := nth_error m i = Some true.

Theorem join_1_1 : forall (left right : table) (mr : list bool) (a b : nat),
  exists m, join_mask left (select mr right) [a] [b] = Some m /\ length m = length left /\
    forall i, selected m i <->
      exists r j r', nth_error left i = Some r /\ selected mr j /\ nth_error right j = Some r' /\
                     veq (key r a) (key r' b) = true.
Proof.
  intros. exists (mask_11 left (select mr right) a b). split; [reflexivity|].
  rewrite mask_11_map. split; [apply map_length|]. intro i. unfold selected.
  rewrite nth_error_map_true. split.
  - intros [r [H1 H2]]. apply sel_11_spec in H2. destruct H2 as [j [r' [Hm [Ht Hv]]]]. exists r, j, r'. auto.
  - intros [r [j [r' [H1 [Hm [Ht Hv]]]]]]. exists r. split; [assumption|]. apply sel_11_spec. exists j, r'. auto.
Qed.

Lemma join_mask_nn : forall left right c1 c2, length c1 = length c2 -> (1 < length c1)%nat ->
  join_mask left right c1 c2 = Some (mask_nn left right c1 c2).
Proof.
  intros left right c1 c2 Hl H1. unfold join_mask.
  destruct c1 as [|x [|x' c1]]; simpl in H1; try lia;
  destruct c2 as [|y [|y' c2]]; simpl in Hl; try lia;
  rewrite (proj2 (Nat.eqb_eq _ _)) by (simpl; lia); reflexivity.
Qed.

Theorem join_n_n : forall (left right : table) (mr : list bool) (c1 c2 : list nat),
  length c1 = length c2 -> (1 < length c1)%nat -> nn_domain left right c1 c2 ->
  exists m, join_mask left (select mr right) c1 c2 = Some m /\ length m = length left /\
    forall i, selected m i <->
      exists r j r', nth_error left i = Some r /\ selected mr j /\ nth_error right j = Some r' /\
                     Forall2 (fun x y => veq (key r x) (key r' y) = true) c1 c2.
Proof.
  intros left right mr c1 c2 Hl H1 D. exists (mask_nn left (select mr right) c1 c2).
  split; [apply join_mask_nn; assumption|].
  rewrite mask_nn_map by (apply mask_nn_domain_select; assumption).
  split; [apply map_length|]. intro i. unfold selected. rewrite nth_error_map_true. split.
  - intros [r [Hr Hs]]. unfold sel_nn in Hs. apply existsb_exists in Hs. destruct Hs as [r' [Hin Hv]].
    apply In_select in Hin. destruct Hin as [j [Hm Ht]]. exists r, j, r'.
    repeat split; try assumption. apply tuple_eqv_spec; assumption.
  - intros [r [j [r' [Hr [Hm [Ht Hv]]]]]]. exists r. split; [assumption|].
    unfold sel_nn. apply existsb_exists. exists r'. split.
    + apply In_select. exists j. auto.
    + apply tuple_eqv_spec; assumption.
Qed.

Lemma join_mask_1n : forall left right a c2, length c2 <> 1%nat ->
  join_mask left right [a] c2 = Some (mask_1n left right a c2).
Proof.
  intros left right a c2 H. unfold join_mask.
  destruct c2 as [|y [|y' c2]]; simpl in H; try lia; reflexivity.
Qed.

Theorem join_1_n : forall (left right : table) (mr : list bool) (a : nat) (c2 : list nat),
  length c2 <> 1%nat ->
  exists m, join_mask left (select mr right) [a] c2 = Some m /\ length m = length left /\
    forall i, selected m i <->
      exists r j r' y, nth_error left i = Some r /\ selected mr j /\ nth_error right j = Some r' /\
                       In y c2 /\ veq (key r a) (key r' y) = true.
Proof.
  intros left right mr a c2 H. exists (mask_1n left (select mr right) a c2).
  split; [apply join_mask_1n; assumption|]. rewrite mask_1n_map.
  split; [apply map_length|]. intro i. unfold selected. rewrite nth_error_map_true. split.
  - intros [r [Hr Hs]]. unfold sel_1n in Hs. apply existsb_exists in Hs. destruct Hs as [y [Hy Hs]].
    apply sel_11_spec in Hs. destruct Hs as [j [r' [Hm [Ht Hv]]]]. exists r, j, r', y. auto.
  - intros [r [j [r' [y [Hr [Hm [Ht [Hy Hv]]]]]]]]. exists r. split; [assumption|].
    unfold sel_1n. apply existsb_exists. exists y. split; [assumption|]. apply sel_11_spec. exists j, r'. auto.
Qed.

Lemma join_mask_n1 : forall left right c1 b, length c1 <> 1%nat ->
  join_mask left right c1 [b] = Some (mask_n1 left right c1 b).
Proof.
  intros left right c1 b H. unfold join_mask.
  destruct c1 as [|x [|x' c1]]; simpl in H; try lia; reflexivity.
Qed.

Theorem join_n_1 : forall (left right : table) (mr : list bool) (c1 : list nat) (b : nat),
  length c1 <> 1%nat ->
  exists m, join_mask left (select mr right) c1 [b] = Some m /\ length m = length left /\
    forall i, selected m i <->
      exists r j r' x, nth_error left i = Some r /\ selected mr j /\ nth_error right j = Some r' /\
                       In x c1 /\ veq (key r x) (key r' b) = true.
Proof.
  intros left right mr c1 b H. exists (mask_n1 left (select mr right) c1 b).
  split; [apply join_mask_n1; assumption|]. rewrite mask_n1_map.
  split; [apply map_length|]. intro i. unfold selected. rewrite nth_error_map_true. split.
  - intros [r [Hr Hs]]. unfold sel_n1 in Hs. apply existsb_exists in Hs. destruct Hs as [x [Hx Hs]].
    apply sel_11_spec in Hs. destruct Hs as [j [r' [Hm [Ht Hv]]]]. exists r, j, r', x. auto.
  - intros [r [j [r' [x [Hr [Hm [Ht [Hx Hv]]]]]]]]. exists r. split; [assumption|].
    unfold sel_n1. apply existsb_exists. exists x. split; [assumption|]. apply sel_11_spec. exists j, r'. auto.
Qed.

(* every shape is "map (row predicate) left" (or the shape is rejected): the basis of the view law *)
Lemma join_mask_map_form : forall right c1 c2,
  (exists P : row -> bool, forall left, join_mask left right c1 c2 = Some (map P left)) \/
  (forall left, join_mask left right c1 c2 = None).
Proof.
  intros right c1 c2.
  destruct (Nat.eq_dec (length c1) 1) as [E1|E1]; destruct (Nat.eq_dec (length c2) 1) as [E2|E2].
  - destruct c1 as [|a [|? ?]]; simpl in E1; try lia. destruct c2 as [|b [|? ?]]; simpl in E2; try lia.
    left. exists (sel_11 right a b). intro left. simpl. rewrite mask_11_map. reflexivity.
  - destruct c1 as [|a [|? ?]]; simpl in E1; try lia.
    left. exists (sel_1n right a c2). intro left. rewrite join_mask_1n by assumption. rewrite mask_1n_map. reflexivity.
  - destruct c2 as [|b [|? ?]]; simpl in E2; try lia.
    left. exists (sel_n1 right c1 b). intro left. rewrite join_mask_n1 by assumption. rewrite mask_n1_map. reflexivity.
  - destruct (Nat.eqb (length c1) (length c2)) eqn:E.
    + left. exists (fun r => existsb (fun r' => nn_match (keys r c1) (keys r' c2)) right). intro left.
      unfold join_mask. rewrite E.
      destruct c1 as [|a [|? ?]]; simpl in E1; try lia; destruct c2 as [|b [|? ?]]; simpl in E2; try lia; reflexivity.
    + right. intro left. unfold join_mask. rewrite E.
      destruct c1 as [|a [|? ?]]; simpl in E1; try lia; destruct c2 as [|b [|? ?]]; simpl in E2; try lia; reflexivity.
Qed.

Definition gather {A} (dflt : A) (idx : list nat) (l : list A) : list A := map (fun i => nth i l dflt) idx.

Lemma gather_map : forall (P : row -> bool) (rows : table) idx,
  (forall i, In i idx -> (i < length rows)%nat) ->
  map P (gather [] idx rows) = gather false idx (map P rows).
Proof.
  intros P rows idx H. unfold gather. rewrite map_map. apply map_ext_in. intros i Hi.
  rewrite (nth_indep (map P rows) false (P [])) by (rewrite map_length; apply H; assumption).
  rewrite map_nth. reflexivity.
Qed.

(* a view on the left side commutes with the join *)
Lemma join_mask_view : forall rows right c1 c2 idx,
  (forall i, In i idx -> (i < length rows)%nat) ->
  join_mask (gather [] idx rows) right c1 c2 = option_map (gather false idx) (join_mask rows right c1 c2).
Proof.
  intros rows right c1 c2 idx H. destruct (join_mask_map_form right c1 c2) as [[P HP]|HN].
  - rewrite !HP. simpl. rewrite gather_map by assumption. reflexivity.
  - rewrite !HN. reflexivity.
Qed.
