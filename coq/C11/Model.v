(* C11 — key joins: executable model (definitions only).

   Anchors: glue/core/joins.py (concatenate_arrays, get_mask_with_key_joins),
   glue/core/data.py (Data.join_on_key, Data.get_mask), glue/core/link_manager.py
   (JoinLink add / remove).

   A table is a list of rows (the flattened elements of a dataset) over key
   columns.  A key cell carries its storage: (kind, width in bytes, bytes), the
   bytes being exactly what numpy stores (little endian), so that the
   byte-concatenation trick of the n-n join is modelled at the level where it
   can go wrong.  The model follows the code as repaired by the three `fix:`
   commits of the C11 worktree:
     * n-n joins cast each pair of key columns to its common dtype before the
       bytes are concatenated (np.promote_types);
     * floating-point key columns get `+ 0.` (so -0.0 and 0.0 have the same bytes);
     * the `_recursing` flag is restored to its previous value, so the flags are
       exactly "the datasets whose loop is waiting for an answer" and can be
       passed down as an argument.
   The unrepaired byte concatenation is kept as [concat_key] / [nn_match_raw]
   (it is still what `concatenate_arrays` does, and is tied to it by its own
   correspondence stream); [Lemmas] refutes the n-n law for it. *)
From Coq Require Import ZArith List Bool Arith.
Import ListNotations.
From GV Require Import Common.Wire.
Open Scope Z_scope.

(* ------------------------------------------------------------------ cells *)
Inductive kind : Type := KInt | KFlt | KStr.
Record cell : Type := Cell { ckind : kind; cwidth : nat; cbytes : list Z }.
Definition dcell : cell := Cell KInt 0 [].

Definition kind_eqb (a b : kind) : bool :=
  match a, b with KInt, KInt => true | KFlt, KFlt => true | KStr, KStr => true | _, _ => false end.
Definition numeric (k : kind) : bool := match k with KStr => false | _ => true end.

(* little-endian unsigned value of a byte string, and back *)
Fixpoint le_val (bs : list Z) : Z :=
  match bs with [] => 0 | b :: t => b + 256 * le_val t end.
Fixpoint le_bytes (w : nat) (v : Z) : list Z :=
  match w with O => [] | S w' => v mod 256 :: le_bytes w' (v / 256) end.
Definition p256 (w : nat) : Z := 256 ^ Z.of_nat w.

(* two's complement *)
Definition int_of_bytes (bs : list Z) : Z :=
  let u := le_val bs in let m := p256 (length bs) in if 2 * u <? m then u else u - m.

(* float64: the value is represented by its bit pattern with -0.0 identified
   with +0.0 (NaN is outside the modelled domain, so two finite doubles are
   equal iff their canonical patterns are equal) *)
Definition two63 : Z := 2 ^ 63.
Definition two64 : Z := 2 ^ 64.
Definition flt_canon (u : Z) : Z := if u =? two63 then 0 else u.
Definition flt_of_bytes (bs : list Z) : Z := flt_canon (le_val bs).
(* int -> float64 conversion as numpy casts (round to nearest, ties to even; exact for |i| <= 2^53) *)
Definition f64_of_int (i : Z) : Z :=
  if i =? 0 then 0 else
  let a := Z.abs i in
  let e := Z.log2 a in
  let sig :=                                  (* the 53-bit significand, possibly 2^53 after rounding up *)
    if e <=? 52 then a * 2 ^ (52 - e)
    else let sh := e - 52 in
         let q := a / 2 ^ sh in let r := a mod 2 ^ sh in let half := 2 ^ (sh - 1) in
         if (half <? r) || ((r =? half) && Z.odd q) then q + 1 else q in
  ((if i <? 0 then two63 else 0) + (1023 + e) * 2 ^ 52 + (sig - 2 ^ 52)) mod two64.
(* exact comparison of an integer with the (finite) double of bit pattern [bits]:
   the double is (-1)^s * M * 2^k *)
Definition flt_eq_int (bits i : Z) : bool :=
  let s := bits / two63 in
  let E := (bits / 2 ^ 52) mod 2 ^ 11 in
  let m := bits mod 2 ^ 52 in
  if E =? 2047 then false else
  let M := if E =? 0 then m else 2 ^ 52 + m in
  let k := (if E =? 0 then 1 else E) - 1075 in
  let a := if s =? 1 then - i else i in
  if 0 <=? k then a =? M * 2 ^ k else a * 2 ^ (- k) =? M.

(* unicode strings: UCS4 code points, 4 bytes each; trailing NULs are padding *)
Fixpoint cps_of_bytes (bs : list Z) : list Z :=
  match bs with
  | a :: b :: c :: d :: t => le_val [a; b; c; d] :: cps_of_bytes t
  | _ => []
  end.
Fixpoint strip0 (l : list Z) : list Z :=
  match l with
  | [] => []
  | x :: t =>
    match strip0 t with
    | [] => if x =? 0 then [] else [x]
    | t' => x :: t'
    end
  end.
(* pad with zeros (or cut) to exactly n entries *)
Fixpoint pad0 (n : nat) (l : list Z) : list Z :=
  match n with
  | O => []
  | S n' => match l with [] => 0 :: pad0 n' [] | x :: t => x :: pad0 n' t end
  end.
Definition bytes_of_cps (l : list Z) : list Z := flat_map (le_bytes 4) l.
Definition str_of_bytes (bs : list Z) : list Z := strip0 (cps_of_bytes bs).

Fixpoint zlist_eqb (a b : list Z) : bool :=
  match a, b with
  | [], [] => true
  | x :: a', y :: b' => (x =? y) && zlist_eqb a' b'
  | _, _ => false
  end.

(* ------------------------------------------------------------------ values *)
Inductive val : Type := VInt (z : Z) | VFlt (bits : Z) | VStr (cps : list Z).
Definition cell_val (c : cell) : val :=
  match ckind c with
  | KInt => VInt (int_of_bytes (cbytes c))
  | KFlt => VFlt (flt_of_bytes (cbytes c))
  | KStr => VStr (str_of_bytes (cbytes c))
  end.
(* equality by value: ints exactly, an int and a float exactly (as rational numbers), floats by
   canonical bit pattern, strings up to padding.  numpy compares an int64 with a float64 after
   converting the int to float64; the two notions agree on the pairs accepted by [conv_ok] below *)
Definition val_eqb (a b : val) : bool :=
  match a, b with
  | VInt x, VInt y => x =? y
  | VFlt x, VFlt y => x =? y
  | VInt x, VFlt y => flt_eq_int y x
  | VFlt x, VInt y => flt_eq_int x y
  | VStr x, VStr y => zlist_eqb x y
  | _, _ => false
  end.
Definition veq (a b : cell) : bool := val_eqb (cell_val a) (cell_val b).

(* ------------------------------------------------------------------ dtype promotion (np.promote_types) and casting *)
Definition promote (k1 : kind) (w1 : nat) (k2 : kind) (w2 : nat) : kind * nat :=
  match k1, k2 with
  | KInt, KInt => (KInt, Nat.max w1 w2)
  | KStr, KStr => (KStr, Nat.max w1 w2)
  | KStr, _ => (KStr, 0%nat)     (* number vs string: outside the modelled domain (see [compat]) *)
  | _, KStr => (KStr, 0%nat)
  | _, _ => (KFlt, 8%nat)
  end.
(* the bytes of a cell after  np.asarray(column, dtype=(K, W))  (and `+ 0.` for floats) *)
Definition cast (K : kind) (W : nat) (c : cell) : list Z :=
  match K, ckind c with
  | KInt, KInt => le_bytes W (int_of_bytes (cbytes c))
  | KFlt, KInt => le_bytes W (f64_of_int (int_of_bytes (cbytes c)))
  | KFlt, KFlt => le_bytes W (flt_of_bytes (cbytes c))
  | KStr, KStr => bytes_of_cps (pad0 (Nat.div W 4) (str_of_bytes (cbytes c)))
  | _, _ => []
  end.
Definition compat (a b : cell) : bool := Bool.eqb (numeric (ckind a)) (numeric (ckind b)).
(* the int -> float64 conversion does not blur this pair: comparing after the conversion (what numpy
   does) and comparing exactly give the same answer.  False only for an integer beyond 2^53 next to
   a double that is its rounded image without being equal to it. *)
Definition conv_ok (a b : cell) : bool :=
  match ckind a, ckind b with
  | KInt, KFlt => Bool.eqb (f64_of_int (int_of_bytes (cbytes a)) =? flt_of_bytes (cbytes b))
                           (flt_eq_int (flt_of_bytes (cbytes b)) (int_of_bytes (cbytes a)))
  | KFlt, KInt => Bool.eqb (flt_of_bytes (cbytes a) =? f64_of_int (int_of_bytes (cbytes b)))
                           (flt_eq_int (flt_of_bytes (cbytes a)) (int_of_bytes (cbytes b)))
  | _, _ => true
  end.
Definition cast_pair (ab : cell * cell) : list Z * list Z :=
  let '(a, b) := ab in
  let '(K, W) := promote (ckind a) (cwidth a) (ckind b) (cwidth b) in
  (cast K W a, cast K W b).

(* concatenate_arrays: the bytes of the columns side by side, viewed as one
   S<total> item; numpy compares S items ignoring trailing NUL bytes *)
Definition skey (cols : list (list Z)) : list Z := strip0 (concat cols).
Definition concat_key (k : list cell) : list Z := skey (map cbytes k).
Definition nn_match_raw (ka kb : list cell) : bool := zlist_eqb (concat_key ka) (concat_key kb).
(* repaired n-n comparison of a left key tuple with a right key tuple *)
Definition nn_match (ka kb : list cell) : bool :=
  let ps := map cast_pair (combine ka kb) in
  zlist_eqb (skey (map fst ps)) (skey (map snd ps)).

(* ------------------------------------------------------------------ tables and the four join shapes *)
Definition row : Type := list cell.
Definition table : Type := list row.
Definition key (r : row) (c : nat) : cell := nth c r dcell.
Definition keys (r : row) (cs : list nat) : list cell := map (key r) cs.
Definition col (t : table) (c : nat) : list cell := map (fun r => key r c) t.
(* np.isin(ks, right) *)
Definition isin (ks right : list cell) : list bool := map (fun a => existsb (veq a) right) ks.
Definition orb_lists (a b : list bool) : list bool := map (fun xy => orb (fst xy) (snd xy)) (combine a b).
(* rows selected by a mask: other.get_data(cid, view=mask_right) *)
Definition select {A} (m : list bool) (t : list A) : list A := map snd (filter fst (combine m t)).

Definition mask_11 (left right : table) (a b : nat) : list bool := isin (col left a) (col right b).
Definition mask_nn (left right : table) (c1 c2 : list nat) : list bool :=
  map (fun r => existsb (fun r' => nn_match (keys r c1) (keys r' c2)) right) left.
Definition mask_nn_raw (left right : table) (c1 c2 : list nat) : list bool :=
  map (fun r => existsb (fun r' => nn_match_raw (keys r c1) (keys r' c2)) right) left.
Definition mask_1n (left right : table) (a : nat) (c2 : list nat) : list bool :=
  fold_left (fun m b => orb_lists m (isin (col left a) (col right b))) c2 (map (fun _ => false) left).
Definition mask_n1 (left right : table) (c1 : list nat) (b : nat) : list bool :=
  fold_left (fun m a => orb_lists m (isin (col left a) (col right b))) c1 (map (fun _ => false) left).

(* the dispatch of get_mask_with_key_joins; None = the final `raise Exception` *)
Definition join_mask (left right : table) (c1 c2 : list nat) : option (list bool) :=
  match c1, c2 with
  | [a], [b] => Some (mask_11 left right a b)
  | _, _ =>
    if Nat.eqb (length c1) (length c2) then Some (mask_nn left right c1 c2)
    else match c1, c2 with
         | [a], _ => Some (mask_1n left right a c2)
         | _, [b] => Some (mask_n1 left right c1 b)
         | _, _ => None
         end
  end.

(* ------------------------------------------------------------------ the join graph and get_mask *)
Definition join : Type := nat * (list nat * list nat).     (* other -> (own cids, other cids) *)
Record sys : Type := Sys {
  tables : list table;
  joins : list (list join);            (* per dataset: Data._key_joins in dict order *)
  own : list (option (list bool))      (* the selection evaluated on the dataset itself; None = IncompatibleAttribute *)
}.
Definition rows_of (S : sys) (d : nat) : table := nth d (tables S) [].
Definition joins_of (S : sys) (d : nat) : list join := nth d (joins S) [].
Definition own_of (S : sys) (d : nat) : option (list bool) := nth d (own S) None.

Inductive outcome : Type := Mask (m : list bool) | Incompatible | OutOfFuel | Bad (code : Z).

Definition memb (x : nat) (l : list nat) : bool := existsb (Nat.eqb x) l.
Definition apply_view {A} (dflt : A) (view : option (list nat)) (l : list A) : list A :=
  match view with None => l | Some idx => map (fun i => nth i l dflt) idx end.

(* the loop of get_mask_with_key_joins; [ask o] = other.get_mask(subset_state) *)
Fixpoint try_joins (ask : nat -> outcome) (flags : list nat) (left : table) (S : sys) (js : list join) : outcome :=
  match js with
  | [] => Incompatible
  | (o, (c1, c2)) :: rest =>
    if memb o flags then try_joins ask flags left S rest
    else match ask o with
         | Incompatible => try_joins ask flags left S rest
         | Mask mr =>
           match join_mask left (select mr (rows_of S o)) c1 c2 with
           | Some m => Mask m
           | None => Bad 1
           end
         | x => x
         end
  end.

(* Data.get_mask ; [flags] = the datasets whose _recursing flag is set *)
Fixpoint get_mask (fuel : nat) (S : sys) (flags : list nat) (d : nat) (view : option (list nat)) : outcome :=
  match fuel with
  | O => OutOfFuel
  | Datatypes.S f =>
    match own_of S d with
    | Some m => Mask (apply_view false view m)
    | None =>
      try_joins (fun o => get_mask f S (d :: flags) o None) flags
                (apply_view [] view (rows_of S d)) S (joins_of S d)
    end
  end.

Definition fuel_for (S : sys) : nat := (2 * length (tables S) + 2)%nat.
Definition get_mask_top (S : sys) (d : nat) (view : option (list nat)) : outcome :=
  get_mask (fuel_for S) S [] d view.

(* ------------------------------------------------------------------ join_on_key / JoinLink removal on the dicts *)
Fixpoint dict_set (k : nat) (v : list nat * list nat) (d : list join) : list join :=
  match d with
  | [] => [(k, v)]
  | (k', v') :: t => if Nat.eqb k' k then (k, v) :: t else (k', v') :: dict_set k v t
  end.
Fixpoint dict_pop (k : nat) (d : list join) : option (list join) :=
  match d with
  | [] => None
  | (k', v') :: t =>
    if Nat.eqb k' k then Some t
    else match dict_pop k t with Some t' => Some ((k', v') :: t') | None => None end
  end.
Fixpoint upd {A} (i : nat) (v : A) (l : list A) : list A :=
  match l, i with
  | [], _ => []
  | _ :: t, O => v :: t
  | h :: t, Datatypes.S i' => h :: upd i' v t
  end.

Inductive op : Type :=
| OJoin (a b : nat) (ca cb : list nat)        (* a.join_on_key(b, ca, cb)  (also LinkManager.add_link of a JoinLink, single cids) *)
| OUnlink (a b : nat) (ca cb : nat).          (* LinkManager.remove_link(JoinLink(data1=a, data2=b, cids1=[ca], cids2=[cb])) *)

Definition E_SHAPE : Z := 1.      (* join_on_key: "Either the number of components ..." *)
Definition E_KEY : Z := 2.        (* KeyError from dict.pop *)
Definition E_DOMAIN : Z := 90.    (* input outside the modelled domain *)

Definition join_on_key (js : list (list join)) (a b : nat) (ca cb : list nat) : list (list join) * Z :=
  if (Nat.ltb 1 (length ca)) && (Nat.ltb 1 (length cb)) && negb (Nat.eqb (length ca) (length cb))
  then (js, E_SHAPE)
  else
    let j1 := upd a (dict_set b (ca, cb) (nth a js [])) js in
    let j2 := upd b (dict_set a (cb, ca) (nth b j1 [])) j1 in
    (j2, 0).

Definition hd_is (c : nat) (l : list nat) : bool := match l with x :: _ => Nat.eqb x c | [] => false end.
Definition unlink (js : list (list join)) (a b ca cb : nat) : list (list join) * Z :=
  if existsb (fun j : join => Nat.eqb (fst j) b && hd_is ca (fst (snd j)) && hd_is cb (snd (snd j))) (nth a js [])
  then match dict_pop b (nth a js []) with
       | None => (js, E_KEY)
       | Some da =>
         let j1 := upd a da js in
         match dict_pop a (nth b j1 []) with
         | None => (j1, E_KEY)
         | Some db => (upd b db j1, 0)
         end
       end
  else (js, E_KEY).

Definition apply_op (js : list (list join)) (o : op) : list (list join) * Z :=
  match o with
  | OJoin a b ca cb => join_on_key js a b ca cb
  | OUnlink a b ca cb => unlink js a b ca cb
  end.
Fixpoint apply_ops (js : list (list join)) (ops : list op) : list (list join) * list Z :=
  match ops with
  | [] => (js, [])
  | o :: t => let '(js1, c) := apply_op js o in let '(js2, cs) := apply_ops js1 t in (js2, c :: cs)
  end.

(* ------------------------------------------------------------------ JoinLink: dataset identities vs. ComponentID parents *)
(* A ComponentID is an object of its own: [cid_uid] says which one, [cid_parent] is its .parent attribute - the dataset it was
   first created for, in general NOT the dataset that stores a column under it (Data.add_component(values, existing_cid),
   Data.update_id, a free-standing ComponentID(label, parent=...)).  A JoinLink names its two datasets itself. *)
Record cid : Type := Cid { cid_uid : nat; cid_parent : nat }.
Definition dcid : cid := Cid 0 0.
Record jlink : Type := JLink { data1 : nat; data2 : nat; cids1 : list cid; cids2 : list cid }.
(* per dataset: the uid of the ComponentID each key column is stored under *)
Definition layout : Type := list (list nat).
Fixpoint index_of (u : nat) (l : list nat) : nat :=
  match l with [] => 0%nat | x :: t => if Nat.eqb x u then 0%nat else Datatypes.S (index_of u t) end.
(* the column of dataset d that is stored under the ComponentID c (= length when there is none) *)
Definition cpos (L : layout) (d : nat) (c : cid) : nat := index_of (cid_uid c) (nth d L []).
(* d1.join_on_key(d2, c1, c2) with ComponentID arguments *)
Definition join_on_key_cids (L : layout) (js : list (list join)) (d1 d2 : nat) (c1 c2 : cid) : list (list join) * Z :=
  join_on_key js d1 d2 [cpos L d1 c1] [cpos L d2 c2].
(* LinkManager.add_link(JoinLink): the join is made between the two datasets the link names *)
Definition add_link (L : layout) (js : list (list join)) (l : jlink) : list (list join) * Z :=
  join_on_key_cids L js (data1 l) (data2 l) (hd dcid (cids1 l)) (hd dcid (cids2 l)).
(* LinkManager.remove_link(JoinLink) *)
Definition remove_link (L : layout) (js : list (list join)) (l : jlink) : list (list join) * Z :=
  unlink js (data1 l) (data2 l) (cpos L (data1 l) (hd dcid (cids1 l))) (cpos L (data2 l) (hd dcid (cids2 l))).

Inductive lop : Type :=
| LPlain (o : op)
| LLink (l : jlink)              (* DataCollection.add_link(JoinLink(data1, data2, cids1, cids2)) *)
| LUnlink (l : jlink).           (* DataCollection.remove_link(the same link) *)
Definition apply_lop (L : layout) (js : list (list join)) (o : lop) : list (list join) * Z :=
  match o with
  | LPlain o => apply_op js o
  | LLink l => add_link L js l
  | LUnlink l => remove_link L js l
  end.
Fixpoint apply_lops (L : layout) (js : list (list join)) (ops : list lop) : list (list join) * list Z :=
  match ops with
  | [] => (js, [])
  | o :: t => let '(js1, c) := apply_lop L js o in let '(js2, cs) := apply_lops L js1 t in (js2, c :: cs)
  end.

(* ------------------------------------------------------------------ the modelled domain, as boolean checks *)
Definition byteb (b : Z) : bool := (0 <=? b) && (b <? 256).
Definition wf_cellb (c : cell) : bool :=
  Nat.eqb (length (cbytes c)) (cwidth c) && forallb byteb (cbytes c) &&
  match ckind c with
  | KInt => Nat.ltb 0 (cwidth c)
  | KFlt => Nat.eqb (cwidth c) 8
  | KStr => Nat.eqb (Nat.modulo (cwidth c) 4) 0
  end.
Definition same_dtype (a b : cell) : bool := kind_eqb (ckind a) (ckind b) && Nat.eqb (cwidth a) (cwidth b).
(* every row has the cells of the first row's dtypes, column by column *)
Fixpoint rows_likeb (r0 r : row) : bool :=
  match r0, r with
  | [], [] => true
  | a :: r0', b :: r' => same_dtype a b && rows_likeb r0' r'
  | _, _ => false
  end.
Definition wf_tableb (t : table) : bool :=
  forallb (forallb wf_cellb) t && match t with [] => true | r0 :: _ => forallb (rows_likeb r0) t end.
Definition ncols (t : table) : nat := match t with [] => 0 | r :: _ => length r end.

Definition own_okb (t : table) (o : option (list bool)) : bool :=
  match o with None => true | Some m => Nat.eqb (length m) (length t) end.
Definition cids_okb (t : table) (cs : list nat) : bool :=
  negb (Nat.eqb (length cs) 0) && forallb (fun c => match t with [] => true | _ => Nat.ltb c (ncols t) end) cs.
Definition mixed_num (a b : cell) : bool :=
  match ckind a, ckind b with KInt, KFlt => true | KFlt, KInt => true | _, _ => false end.
Definition pair_okb (ta tb : table) (ca cb : nat) : bool :=
  match ta, tb with
  | ra :: _, rb :: _ =>
    compat (key ra ca) (key rb cb) &&
    (if mixed_num (key ra ca) (key rb cb)
     then forallb (fun r => forallb (fun r' => conv_ok (key r ca) (key r' cb)) tb) ta
     else true)
  | _, _ => true
  end.
Definition op_okb (ts : list table) (o : op) : bool :=
  match o with
  | OJoin a b ca cb =>
    Nat.ltb a (length ts) && Nat.ltb b (length ts) &&
    cids_okb (nth a ts []) ca && cids_okb (nth b ts []) cb &&
    (* columns compared with each other hold the same kind of values *)
    (if Nat.eqb (length ca) (length cb)
     then forallb (fun p => pair_okb (nth a ts []) (nth b ts []) (fst p) (snd p)) (combine ca cb)
     else forallb (fun x => forallb (fun y => pair_okb (nth a ts []) (nth b ts []) x y) cb) ca)
  | OUnlink a b ca cb => Nat.ltb a (length ts) && Nat.ltb b (length ts)
  end.
Definition view_okb (t : table) (v : option (list nat)) : bool :=
  match v with None => true | Some idx => forallb (fun i => Nat.ltb i (length t)) idx end.

(* a JoinLink of the domain: single ids, each naming a column of the dataset the link names for it *)
Fixpoint nodupb (l : list nat) : bool := match l with [] => true | x :: t => negb (memb x t) && nodupb t end.
Definition layout_okb (ts : list table) (L : layout) : bool :=
  Nat.eqb (length L) (length ts) &&
  forallb (fun p => nodupb (snd p) && match fst p with [] => true | _ => Nat.eqb (length (snd p)) (ncols (fst p)) end) (combine ts L).
Definition link_okb (ts : list table) (L : layout) (l : jlink) : bool :=
  Nat.eqb (length (cids1 l)) 1 && Nat.eqb (length (cids2 l)) 1 &&
  Nat.ltb (data1 l) (length ts) && Nat.ltb (data2 l) (length ts) &&
  Nat.ltb (cpos L (data1 l) (hd dcid (cids1 l))) (length (nth (data1 l) L [])) &&
  Nat.ltb (cpos L (data2 l) (hd dcid (cids2 l))) (length (nth (data2 l) L [])) &&
  Nat.ltb (cid_parent (hd dcid (cids1 l))) (length ts) && Nat.ltb (cid_parent (hd dcid (cids2 l))) (length ts).
Definition lop_okb (ts : list table) (L : layout) (o : lop) : bool :=
  match o with
  | LPlain o => op_okb ts o
  | LLink l => link_okb ts L l &&
               op_okb ts (OJoin (data1 l) (data2 l) [cpos L (data1 l) (hd dcid (cids1 l))] [cpos L (data2 l) (hd dcid (cids2 l))])
  | LUnlink l => link_okb ts L l
  end.

(* ------------------------------------------------------------------ wire *)
Definition dec_kind (z : Z) : kind := if z =? 0 then KInt else if z =? 1 then KFlt else KStr.
Definition dec_cell (t : tree) : cell :=
  match t with
  | T k (T w _ :: bs) => Cell (dec_kind k) (Z.to_nat w) (map tag bs)
  | _ => dcell
  end.
Definition dec_row (t : tree) : row := map dec_cell (kids t).
Definition dec_table (t : tree) : table := map dec_row (kids t).
Definition dec_own (t : tree) : option (list bool) :=
  match t with T 0 _ => None | T _ l => Some (map (fun k => negb (tag k =? 0)) l) end.
Definition dec_nats (t : tree) : list nat := map (fun k => Z.to_nat (tag k)) (kids t).
Definition dec_nat (t : tree) : nat := Z.to_nat (tag t).
Definition dec_op (t : tree) : op :=
  match t with
  | T 2 [a; b; ca; cb] => OUnlink (dec_nat a) (dec_nat b) (dec_nat ca) (dec_nat cb)
  | T _ [a; b; ca; cb] => OJoin (dec_nat a) (dec_nat b) (dec_nats ca) (dec_nats cb)
  | _ => OJoin 0 0 [] []
  end.
Definition dec_cid (t : tree) : cid := Cid (dec_nat t) (dec_nat (kid 0 t)).
Definition dec_link (a b ca cb : tree) : jlink := JLink (dec_nat a) (dec_nat b) [dec_cid ca] [dec_cid cb].
Definition dec_lop (t : tree) : lop :=
  match t with
  | T 3 [a; b; ca; cb] => LLink (dec_link a b ca cb)
  | T 4 [a; b; ca; cb] => LUnlink (dec_link a b ca cb)
  | _ => LPlain (dec_op t)
  end.
Definition dec_view (t : tree) : option (list nat) :=
  match t with T 0 _ => None | T _ _ => Some (dec_nats t) end.
(* a query = (dataset, view, the selection = its own evaluation on every dataset) *)
Definition dec_query (t : tree) : nat * option (list nat) * list (option (list bool)) :=
  (dec_nat (kid 0 t), dec_view (kid 1 t), map dec_own (kids (kid 2 t))).

Definition znat (n : nat) : tree := leaf (Z.of_nat n).
Definition enc_outcome (o : outcome) : tree :=
  match o with
  | Mask m => T 1 (map (fun b : bool => leaf (of_bool b)) m)
  | Incompatible => T 2 []
  | OutOfFuel => T 3 []
  | Bad c => err c
  end.
Definition enc_join (j : join) : tree :=
  T (Z.of_nat (fst j)) [T 0 (map znat (fst (snd j))); T 0 (map znat (snd (snd j)))].
Definition enc_joins (js : list (list join)) : tree := T 0 (map (fun d => T 0 (map enc_join d)) js).

Definition query_okb (ts : list table) (q : nat * option (list nat) * list (option (list bool))) : bool :=
  let '(d, v, ow) := q in
  Nat.ltb d (length ts) && view_okb (nth d ts []) v && Nat.eqb (length ow) (length ts)
  && forallb (fun p => own_okb (fst p) (snd p)) (combine ts ow).

Definition run_system (ds : list tree) (ops : list tree) (qs : list tree) : tree :=
  let ts := map dec_table ds in
  let os := map dec_op ops in
  let queries := map dec_query qs in
  if forallb wf_tableb ts && forallb (op_okb ts) os && forallb (query_okb ts) queries
  then
    let '(js, codes) := apply_ops (map (fun _ => []) ts) os in
    T 0 [ zs codes; enc_joins js;
          T 0 (map (fun q : nat * option (list nat) * list (option (list bool)) =>
                      let '(d, v, ow) := q in enc_outcome (get_mask_top (Sys ts js ow) d v)) queries) ]
  else err E_DOMAIN.

(* the same with ComponentID identities: [lay] = per dataset the uids of its columns; operations may be JoinLinks *)
Definition run_system_ids (ds : list tree) (lay : list tree) (ops : list tree) (qs : list tree) : tree :=
  let ts := map dec_table ds in
  let L := map dec_nats lay in
  let os := map dec_lop ops in
  let queries := map dec_query qs in
  if forallb wf_tableb ts && layout_okb ts L && forallb (lop_okb ts L) os && forallb (query_okb ts) queries
  then
    let '(js, codes) := apply_lops L (map (fun _ => []) ts) os in
    T 0 [ zs codes; enc_joins js;
          T 0 (map (fun q : nat * option (list nat) * list (option (list bool)) =>
                      let '(d, v, ow) := q in enc_outcome (get_mask_top (Sys ts js ow) d v)) queries) ]
  else err E_DOMAIN.

Definition run_case (t : tree) : tree :=
  match t with
  | T 1 [T _ ds; T _ ops; T _ qs] => run_system ds ops qs
  | T 4 [T _ ds; T _ lay; T _ ops; T _ qs] => run_system_ids ds lay ops qs
  (* concatenate_arrays of the columns: one S<total> item per row, as compared by numpy *)
  | T 2 [tb] => T 0 (map (fun r => zs (concat_key r)) (dec_table tb))
  (* a single pair of key tuples: (np.isin by value per column pair, unrepaired n-n match, repaired n-n match) *)
  | T 3 [ra; rb] =>
      let a := dec_row ra in let b := dec_row rb in
      zs [ of_bool (forallb (fun p => veq (fst p) (snd p)) (combine a b));
           of_bool (nn_match_raw a b); of_bool (nn_match a b) ]
  | _ => err (-2)
  end.
