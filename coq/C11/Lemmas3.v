(* C11 — lemmas, part 3: the recursion over the join graph (flags, fuel, termination, views, chains) *)
From Coq Require Import ZArith List Bool Arith Lia.
Import ListNotations.
From GV Require Import Common.Wire C11.Model C11.Lemmas1 C11.Lemmas2.
Open Scope Z_scope.

Definition out_of (o : option (list bool)) : outcome :=
  match o with Some m => Mask m | None => Bad 1 end.
Definition map_outcome (f : list bool -> list bool) (o : outcome) : outcome :=
  match o with Mask m => Mask (f m) | x => x end.

(* ------------------------------------------------------------------ the loop *)
Lemma try_joins_cons : forall ask F left S o c1 c2 rest,
  try_joins ask F left S ((o, (c1, c2)) :: rest) =
  if memb o F then try_joins ask F left S rest
  else match ask o with
       | Incompatible => try_joins ask F left S rest
       | Mask mr => out_of (join_mask left (select mr (rows_of S o)) c1 c2)
       | x => x
       end.
Proof.
  intros. simpl. destruct (memb o F); [reflexivity|]. destruct (ask o); reflexivity.
Qed.

Lemma try_joins_no_fuel : forall ask F left S js,
  (forall j, In j js -> memb (fst j) F = false -> ask (fst j) <> OutOfFuel) ->
  try_joins ask F left S js <> OutOfFuel.
Proof.
  intros ask F left S. induction js as [|[o [c1 c2]] rest IH]; intro H; [simpl; discriminate|].
  rewrite try_joins_cons. destruct (memb o F) eqn:M.
  - apply IH. intros j Hj. apply H. right. assumption.
  - assert (A := H (o, (c1, c2)) (or_introl eq_refl) M). simpl in A.
    destruct (ask o) eqn:E.
    + unfold out_of. destruct (join_mask _ _ _ _); discriminate.
    + apply IH. intros j Hj. apply H. right. assumption.
    + congruence.
    + discriminate.
Qed.

Lemma try_joins_agree : forall ask1 ask2 F left S js,
  (forall o, ask1 o <> OutOfFuel -> ask2 o = ask1 o) ->
  try_joins ask1 F left S js <> OutOfFuel ->
  try_joins ask2 F left S js = try_joins ask1 F left S js.
Proof.
  intros ask1 ask2 F left S js A. induction js as [|[o [c1 c2]] rest IH]; intro H; [reflexivity|].
  rewrite !try_joins_cons in *. destruct (memb o F); [apply IH; assumption|].
  destruct (ask1 o) eqn:E.
  - rewrite (A o) by congruence. rewrite E. reflexivity.
  - rewrite (A o) by congruence. rewrite E. apply IH. assumption.
  - congruence.
  - rewrite (A o) by congruence. rewrite E. reflexivity.
Qed.

Lemma try_joins_first : forall ask F left S pre o c1 c2 rest mr,
  (forall j, In j pre -> memb (fst j) F = true \/ ask (fst j) = Incompatible) ->
  memb o F = false -> ask o = Mask mr ->
  try_joins ask F left S (pre ++ (o, (c1, c2)) :: rest) = out_of (join_mask left (select mr (rows_of S o)) c1 c2).
Proof.
  intros ask F left S pre o c1 c2 rest mr. induction pre as [|[p [d1 d2]] pre IH]; intros Hp Ho Ha.
  - simpl app. rewrite try_joins_cons, Ho, Ha. reflexivity.
  - simpl app. rewrite try_joins_cons.
    assert (IH' := IH (fun j Hj => Hp j (or_intror Hj)) Ho Ha).
    destruct (Hp (p, (d1, d2)) (or_introl eq_refl)) as [H|H]; simpl in H.
    + rewrite H. assumption.
    + destruct (memb p F); [assumption|]. rewrite H. assumption.
Qed.

Lemma try_joins_view : forall ask F rows S js idx,
  (forall i, In i idx -> (i < length rows)%nat) ->
  try_joins ask F (gather [] idx rows) S js = map_outcome (gather false idx) (try_joins ask F rows S js).
Proof.
  intros ask F rows S js idx H. induction js as [|[o [c1 c2]] rest IH]; [reflexivity|].
  rewrite !try_joins_cons. destruct (memb o F); [assumption|].
  destruct (ask o); try reflexivity; [|assumption].
  rewrite join_mask_view by assumption. destruct (join_mask rows _ c1 c2); reflexivity.
Qed.

(* ------------------------------------------------------------------ get_mask: unfolding, views *)
Lemma get_mask_S : forall f S F d view,
  get_mask (Datatypes.S f) S F d view =
  match own_of S d with
  | Some m => Mask (apply_view false view m)
  | None => try_joins (fun o => get_mask f S (d :: F) o None) F (apply_view [] view (rows_of S d)) S (joins_of S d)
  end.
Proof. reflexivity. Qed.

(* all views: asking through a view = asking for everything, then looking through the view *)
Lemma get_mask_view : forall fuel S F d idx,
  (forall i, In i idx -> (i < length (rows_of S d))%nat) ->
  get_mask fuel S F d (Some idx) = map_outcome (gather false idx) (get_mask fuel S F d None).
Proof.
  intros [|f] S F d idx H; [reflexivity|]. rewrite !get_mask_S.
  destruct (own_of S d); [reflexivity|]. simpl apply_view. apply (try_joins_view _ F (rows_of S d) S). assumption.
Qed.

(* the propagation step *)
Lemma get_mask_via_join : forall f S F d view pre o c1 c2 rest mr,
  own_of S d = None ->
  joins_of S d = pre ++ (o, (c1, c2)) :: rest ->
  (forall j, In j pre -> memb (fst j) F = true \/ get_mask f S (d :: F) (fst j) None = Incompatible) ->
  memb o F = false ->
  get_mask f S (d :: F) o None = Mask mr ->
  get_mask (Datatypes.S f) S F d view =
  out_of (join_mask (apply_view [] view (rows_of S d)) (select mr (rows_of S o)) c1 c2).
Proof.
  intros f S F d view pre o c1 c2 rest mr Ho Hj Hp Hm Ha. rewrite get_mask_S, Ho, Hj.
  apply (try_joins_first (fun o => get_mask f S (d :: F) o None)); assumption.
Qed.

(* ------------------------------------------------------------------ fuel: monotone, and bounded by the graph *)
Lemma get_mask_fuel_mono : forall f S F x v f',
  get_mask f S F x v <> OutOfFuel -> (f <= f')%nat -> get_mask f' S F x v = get_mask f S F x v.
Proof.
  induction f as [|f IH]; intros S F x v f' H Hle; [simpl in H; congruence|].
  destruct f' as [|f']; [lia|]. rewrite !get_mask_S in *. destruct (own_of S x); [reflexivity|].
  apply try_joins_agree; [|assumption]. intros o Ho. apply IH; [assumption|lia].
Qed.

Definition unflagged (n : nat) (F : list nat) : nat :=
  length (filter (fun i => negb (memb i F)) (seq 0 n)).

Lemma memb_cons : forall i x F, memb i (x :: F) = Nat.eqb i x || memb i F.
Proof. reflexivity. Qed.

Lemma unflagged_S : forall n F, unflagged (S n) F = (unflagged n F + (if memb n F then 0 else 1))%nat.
Proof.
  intros n F. unfold unflagged. rewrite seq_S. simpl plus. rewrite filter_app, app_length. simpl.
  destruct (memb n F); reflexivity.
Qed.

Lemma unflagged_cons_ge : forall n x F, (n <= x)%nat -> unflagged n (x :: F) = unflagged n F.
Proof.
  induction n as [|n IH]; intros x F H; [reflexivity|]. rewrite !unflagged_S, IH by lia.
  rewrite memb_cons. rewrite (proj2 (Nat.eqb_neq n x)) by lia. reflexivity.
Qed.

Lemma unflagged_cons_in : forall n x F, memb x F = true -> unflagged n (x :: F) = unflagged n F.
Proof.
  induction n as [|n IH]; intros x F H; [reflexivity|]. rewrite !unflagged_S, IH by assumption.
  rewrite memb_cons. destruct (Nat.eqb n x) eqn:E; [|reflexivity].
  apply Nat.eqb_eq in E. subst. rewrite H. reflexivity.
Qed.

Lemma unflagged_cons_notin : forall n x F, (x < n)%nat -> memb x F = false ->
  S (unflagged n (x :: F)) = unflagged n F.
Proof.
  induction n as [|n IH]; intros x F Hx H; [lia|]. rewrite !unflagged_S.
  destruct (Nat.eq_dec x n) as [E|E].
  - subst. rewrite unflagged_cons_ge by lia. rewrite memb_cons, Nat.eqb_refl, H. simpl. lia.
  - rewrite memb_cons. rewrite (proj2 (Nat.eqb_neq n x)) by lia. simpl orb.
    rewrite <- (IH x F) by (assumption || lia). lia.
Qed.

Lemma unflagged_nil : forall n, unflagged n [] = n.
Proof.
  induction n as [|n IH]; [reflexivity|]. rewrite unflagged_S, IH. simpl. lia.
Qed.

Lemma joins_of_nonempty : forall S x j, In j (joins_of S x) -> (x < length (joins S))%nat.
Proof.
  intros S x j H. unfold joins_of in H. destruct (Nat.lt_ge_cases x (length (joins S))) as [L|L]; [assumption|].
  rewrite nth_overflow in H by assumption. contradiction.
Qed.

(* depth needed by a call on x under flags F: every dataset not yet flagged can be entered once,
   and a dataset joined with itself once more *)
Definition bound (n : nat) (x : nat) (F : list nat) : nat :=
  (2 * unflagged n F + (if memb x F then 2 else 1))%nat.

Lemma get_mask_fuel_enough : forall fuel S F x view,
  (bound (length (joins S)) x F <= fuel)%nat -> get_mask fuel S F x view <> OutOfFuel.
Proof.
  induction fuel as [|f IH]; intros S F x view H.
  - unfold bound in H. destruct (memb x F); lia.
  - rewrite get_mask_S. destruct (own_of S x); [discriminate|].
    apply try_joins_no_fuel. intros [o c] Hj Ho. simpl in Ho. simpl fst.
    assert (Hx := joins_of_nonempty S x _ Hj).
    apply IH. unfold bound in *. rewrite memb_cons.
    destruct (memb x F) eqn:Mx.
    + rewrite unflagged_cons_in by assumption.
      destruct (Nat.eqb o x) eqn:E; [apply Nat.eqb_eq in E; subst; congruence|].
      rewrite Ho. simpl orb. cbv iota. lia.
    + assert (U := unflagged_cons_notin _ x F Hx Mx).
      destruct (Nat.eqb o x || memb o F); lia.
Qed.

Definition no_self_join (S : sys) : Prop := forall d j, In j (joins_of S d) -> fst j <> d.

Lemma get_mask_fuel_enough_simple : forall fuel S F x view,
  no_self_join S -> memb x F = false ->
  (unflagged (length (joins S)) F + 1 <= fuel)%nat -> get_mask fuel S F x view <> OutOfFuel.
Proof.
  induction fuel as [|f IH]; intros S F x view N Mx H; [lia|].
  rewrite get_mask_S. destruct (own_of S x); [discriminate|].
  apply try_joins_no_fuel. intros [o c] Hj Ho. simpl in Ho. simpl fst.
  assert (Hx := joins_of_nonempty S x _ Hj).
  assert (U := unflagged_cons_notin _ x F Hx Mx).
  apply IH; [assumption| |lia].
  rewrite memb_cons, Ho. rewrite (proj2 (Nat.eqb_neq o x)); [reflexivity|]. apply (N x (o, c) Hj).
Qed.

(* ------------------------------------------------------------------ nobody can evaluate -> Incompatible *)
Inductive reach (S : sys) : nat -> nat -> Prop :=
| reach_refl : forall d, reach S d d
| reach_step : forall d j e, In j (joins_of S d) -> reach S (fst j) e -> reach S d e.

Lemma try_joins_inc : forall ask F left S js,
  (forall j, In j js -> ask (fst j) = Incompatible \/ ask (fst j) = OutOfFuel) ->
  try_joins ask F left S js = Incompatible \/ try_joins ask F left S js = OutOfFuel.
Proof.
  intros ask F left S. induction js as [|[o [c1 c2]] rest IH]; intro H; [left; reflexivity|].
  rewrite try_joins_cons. specialize (IH (fun j Hj => H j (or_intror Hj))).
  destruct (memb o F); [assumption|].
  destruct (H (o, (c1, c2)) (or_introl eq_refl)) as [E|E]; simpl in E; rewrite E; [assumption|right; reflexivity].
Qed.

Lemma nobody_evaluates : forall fuel S F d view,
  (forall e, reach S d e -> own_of S e = None) ->
  get_mask fuel S F d view = Incompatible \/ get_mask fuel S F d view = OutOfFuel.
Proof.
  induction fuel as [|f IH]; intros S F d view H; [right; reflexivity|].
  rewrite get_mask_S. rewrite (H d (reach_refl S d)).
  apply try_joins_inc. intros j Hj. apply IH. intros e He. apply H. apply (reach_step S d j e); assumption.
Qed.

(* join_terminates *)
Theorem join_terminates : forall S, (length (joins S) <= length (tables S))%nat -> forall d view,
  get_mask_top S d view <> OutOfFuel /\
  (forall fuel, (fuel_for S <= fuel)%nat -> get_mask fuel S [] d view = get_mask_top S d view) /\
  ((forall e, reach S d e -> own_of S e = None) -> get_mask_top S d view = Incompatible) /\
  (no_self_join S -> forall fuel, (length (tables S) + 1 <= fuel)%nat -> get_mask fuel S [] d view = get_mask_top S d view).
Proof.
  intros S HS d view.
  assert (T : get_mask_top S d view <> OutOfFuel).
  { unfold get_mask_top. apply get_mask_fuel_enough. unfold bound, fuel_for. rewrite unflagged_nil. simpl. lia. }
  split; [assumption|]. split; [|split].
  - intros fuel Hf. unfold get_mask_top in *. apply get_mask_fuel_mono; assumption.
  - intro H. destruct (nobody_evaluates (fuel_for S) S [] d view H) as [E|E]; [assumption|]. contradiction.
  - intros N fuel Hf.
    assert (A : get_mask (length (tables S) + 1) S [] d view <> OutOfFuel).
    { apply get_mask_fuel_enough_simple; [assumption|reflexivity|]. rewrite unflagged_nil. lia. }
    unfold get_mask_top.
    rewrite (get_mask_fuel_mono _ S [] d view fuel A Hf).
    rewrite (get_mask_fuel_mono _ S [] d view (fuel_for S) A) by (unfold fuel_for; lia). reflexivity.
Qed.
