(* C11 — the code translated from the source on every run (coq/gen/Gen_joins.v) is the model:
     * kj_dispatch (the four-way dispatch of get_mask_with_key_joins, numpy kernels instantiated by the model's
       column operations) = join_mask;
     * get_mask_with_key_joins with the _recursing flags as an explicit state (skip / set / restore, try / except
       IncompatibleAttribute: continue / finally), closed into Data.get_mask by explicit fuel = the model's get_mask,
       and it leaves every flag as it found it;
     * Data.join_on_key's registration = join_on_key;  LinkManager.add_link / remove_link (JoinLink) = add_link / remove_link,
       i.e. the datasets joined are link.data1 / link.data2 and the ids link.cids1[0] / link.cids2[0].
   The theorems about join_mask / get_mask are then transported to the translated code. *)
From Coq Require Import ZArith List Bool Arith Lia.
Import ListNotations.
From GV Require Import Common.Wire C11.Model C11.Lemmas gen.Gen_joins.
Open Scope Z_scope.

(* ------------------------------------------------------------------ the kernels, instantiated *)
Section Inst.
Variable S : sys.
Variable view : option (list nat).

(* X.get_data(c, view=V).ravel() on the flat tables of the model *)
Definition fetch_m (d : nat) (v : gview) (c : nat) : list cell :=
  match v with
  | VView => col (apply_view [] view (rows_of S d)) c
  | VMask m => col (select m (rows_of S d)) c
  end.
Definition zeros_m (a : list cell) : list bool := map (fun _ => false) a.
Definition nn_m (d o : nat) (mr : list bool) (prs : list (nat * nat)) : list bool :=
  mask_nn (apply_view [] view (rows_of S d)) (select mr (rows_of S o)) (map fst prs) (map snd prs).

Definition gen_dispatch (d o : nat) (mr : list bool) (c1 c2 : list nat) : outcome :=
  kj_dispatch (list cell) fetch_m isin zeros_m orb_lists nn_m d o mr c1 c2.
Definition gen_loop (ask : list nat -> nat -> outcome * list nat) : list nat -> nat -> list join -> outcome * list nat :=
  get_mask_with_key_joins (list cell) fetch_m isin zeros_m orb_lists nn_m ask.
End Inst.

Lemma zlen_eqb_1 : forall {A} (l : list A), (zlen l =? 1) = Nat.eqb (length l) 1.
Proof.
  intros A l. unfold zlen. destruct (Z.eqb_spec (Z.of_nat (length l)) 1) as [E|E];
    destruct (Nat.eqb_spec (length l) 1) as [F|F]; try reflexivity; lia.
Qed.
Lemma zlen_eqb : forall {A B} (a : list A) (b : list B), (zlen a =? zlen b) = Nat.eqb (length a) (length b).
Proof.
  intros A B a b. unfold zlen. destruct (Z.eqb_spec (Z.of_nat (length a)) (Z.of_nat (length b))) as [E|E];
    destruct (Nat.eqb_spec (length a) (length b)) as [F|F]; try reflexivity; lia.
Qed.
Lemma zlen_gtb_1 : forall {A} (l : list A), (zlen l >? 1) = Nat.ltb 1 (length l).
Proof.
  intros A l. unfold zlen. rewrite Z.gtb_ltb. destruct (Z.ltb_spec 1 (Z.of_nat (length l))) as [E|E];
    destruct (Nat.ltb_spec 1 (length l)) as [F|F]; try reflexivity; lia.
Qed.

Lemma zeros_col : forall (t : table) c, zeros_m (col t c) = map (fun _ => false) t.
Proof. intros t c. unfold zeros_m, col. rewrite map_map. reflexivity. Qed.

Lemma combine_fst : forall {A B} (a : list A) (b : list B), length a = length b -> map fst (combine a b) = a.
Proof. induction a as [|x a IH]; intros [|y b] H; simpl in *; try discriminate; try reflexivity. f_equal. apply IH. lia. Qed.
Lemma combine_snd : forall {A B} (a : list A) (b : list B), length a = length b -> map snd (combine a b) = b.
Proof. induction a as [|x a IH]; intros [|y b] H; simpl in *; try discriminate; try reflexivity. f_equal. apply IH. lia. Qed.

(* the translated dispatch is the model's *)
Theorem gen_dispatch_eq : forall S view d o mr c1 c2,
  gen_dispatch S view d o mr c1 c2 =
  out_of (join_mask (apply_view [] view (rows_of S d)) (select mr (rows_of S o)) c1 c2).
Proof.
  intros S view d o mr c1 c2. unfold gen_dispatch, kj_dispatch.
  rewrite !zlen_eqb_1, zlen_eqb.
  assert (Hn : forall n : nat, Nat.eqb 1 (Datatypes.S (Datatypes.S n)) = false) by (intros; reflexivity).
  destruct c1 as [|a [|a' c1]]; destruct c2 as [|b [|b' c2]]; simpl length; simpl Nat.eqb; simpl andb; cbv iota;
    unfold join_mask; simpl length; simpl Nat.eqb; cbv iota;
    try (unfold out_of, mask_11, mask_1n, mask_n1, fetch_m; simpl nth; rewrite ?zeros_col; reflexivity).
  (* n - n' *)
  destruct (Nat.eqb (length c1) (length c2)) eqn:E.
  - apply Nat.eqb_eq in E. unfold out_of, nn_m.
    rewrite combine_fst, combine_snd by (simpl; lia). reflexivity.
  - reflexivity.
Qed.

(* ------------------------------------------------------------------ the loop and the _recursing protocol *)
Definition feq (F G : list nat) : Prop := forall x, memb x F = memb x G.

Lemma memb_cons_eq : forall x d F, memb x (d :: F) = Nat.eqb x d || memb x F.
Proof. intros. reflexivity. Qed.
Lemma memb_filter_ne : forall x d F,
  memb x (filter (fun y => negb (Nat.eqb y d)) F) = negb (Nat.eqb x d) && memb x F.
Proof.
  intros x d F. induction F as [|y F IH]; simpl.
  - rewrite andb_false_r. reflexivity.
  - destruct (Nat.eqb y d) eqn:Eyd; simpl.
    + rewrite IH. apply Nat.eqb_eq in Eyd. subst y.
      destruct (Nat.eqb x d) eqn:Exd; simpl; reflexivity.
    + rewrite IH. destruct (Nat.eqb x y) eqn:Exy; simpl.
      * apply Nat.eqb_eq in Exy. subst y. rewrite Eyd. reflexivity.
      * reflexivity.
Qed.

Lemma feq_cons : forall d F G, feq F G -> feq (d :: F) (d :: G).
Proof. intros d F G H x. rewrite !memb_cons_eq, H. reflexivity. Qed.

(* set to True, then restore the value read before: every flag is as before *)
Lemma flag_restore : forall d F X, feq X (d :: F) -> feq (flag_set d (flag_get d F) X) F.
Proof.
  intros d F X H x. unfold flag_set, flag_get. destruct (memb d F) eqn:E.
  - rewrite memb_cons_eq, H, memb_cons_eq. destruct (Nat.eqb x d) eqn:Exd; simpl; [|reflexivity].
    apply Nat.eqb_eq in Exd. subst x. symmetry. exact E.
  - rewrite memb_filter_ne, H, memb_cons_eq. destruct (Nat.eqb x d) eqn:Exd; simpl; [|reflexivity].
    apply Nat.eqb_eq in Exd. subst x. symmetry. exact E.
Qed.

Lemma try_joins_ext : forall ask ask' F G left S js,
  (forall o, ask o = ask' o) -> feq F G ->
  try_joins ask F left S js = try_joins ask' G left S js.
Proof.
  intros ask ask' F G left S js Hask HF. induction js as [|[o [c1 c2]] rest IH]; simpl; [reflexivity|].
  rewrite (HF o), Hask, IH. reflexivity.
Qed.

Lemma get_mask_feq : forall f S F G d v, feq F G -> get_mask f S F d v = get_mask f S G d v.
Proof.
  induction f as [|f IH]; intros S F G d v H; simpl; [reflexivity|].
  destruct (own_of S d); [reflexivity|].
  apply try_joins_ext; [|exact H].
  intro o. apply IH. apply feq_cons. exact H.
Qed.

(* Data.get_mask over the translated loop, with the flags as a state that is handed on and returned *)
Fixpoint gen_get_mask (fuel : nat) (S : sys) (flags : list nat) (d : nat) (view : option (list nat)) : outcome * list nat :=
  match fuel with
  | O => (OutOfFuel, flags)
  | Datatypes.S f =>
    match own_of S d with
    | Some m => (Mask (apply_view false view m), flags)
    | None => gen_loop S view (fun fl o => gen_get_mask f S fl o None) flags d (joins_of S d)
    end
  end.

Lemma gen_loop_eq : forall S view f d F
  (IH : forall F' o, fst (gen_get_mask f S F' o None) = get_mask f S F' o None /\ feq (snd (gen_get_mask f S F' o None)) F'),
  forall js F0, feq F0 F ->
  fst (gen_loop S view (fun fl o => gen_get_mask f S fl o None) F0 d js) =
    try_joins (fun o => get_mask f S (d :: F) o None) F (apply_view [] view (rows_of S d)) S js /\
  feq (snd (gen_loop S view (fun fl o => gen_get_mask f S fl o None) F0 d js)) F.
Proof.
  intros S view f d F IH. induction js as [|[o [c1 c2]] rest IHjs]; intros F0 HF0.
  - simpl. split; [reflexivity|exact HF0].
  - unfold gen_loop in *. simpl get_mask_with_key_joins. simpl try_joins.
    assert (Eflag : flag_get o F0 = memb o F) by (unfold flag_get; apply HF0). rewrite !Eflag.
    destruct (memb o F) eqn:Eo.
    + apply IHjs. exact HF0.
    + destruct (IH (d :: F0) o) as [Hfst Hsnd].
      destruct (gen_get_mask f S (d :: F0) o None) as [r fl] eqn:Ecall.
      simpl fst in Hfst. simpl snd in Hsnd.
      assert (Hr : r = get_mask f S (d :: F) o None).
      { rewrite Hfst. apply get_mask_feq. apply feq_cons. exact HF0. }
      assert (Hfl : feq (flag_set d (flag_get d F0) fl) F).
      { intro x. rewrite (flag_restore d F0 fl Hsnd x). apply HF0. }
      rewrite <- Hr.
      destruct r as [mr| | |code].
      * split; [|exact Hfl]. simpl fst.
        change (kj_dispatch (list cell) (fetch_m S view) isin zeros_m orb_lists (nn_m S view) d o mr c1 c2)
          with (gen_dispatch S view d o mr c1 c2).
        rewrite gen_dispatch_eq. unfold out_of. reflexivity.
      * apply IHjs. exact Hfl.
      * split; [reflexivity|exact Hfl].
      * split; [reflexivity|exact Hfl].
Qed.

(* the translated loop, closed into get_mask, computes what the model computes and leaves the flags as it found them *)
Theorem gen_get_mask_eq : forall f S F d view,
  fst (gen_get_mask f S F d view) = get_mask f S F d view /\ feq (snd (gen_get_mask f S F d view)) F.
Proof.
  induction f as [|f IH]; intros S F d view.
  - simpl. split; [reflexivity|intro x; reflexivity].
  - simpl. destruct (own_of S d) as [m|].
    + split; [reflexivity|intro x; reflexivity].
    + apply gen_loop_eq; [|intro x; reflexivity].
      intros F' o. apply IH.
Qed.

(* ------------------------------------------------------------------ join_on_key, add_link, remove_link *)
Theorem gen_join_on_key_eq : forall js a b ca cb, join_on_key_reg js a b ca cb = join_on_key js a b ca cb.
Proof.
  intros js a b ca cb. unfold join_on_key_reg, join_on_key, kj_store.
  rewrite !zlen_gtb_1, zlen_eqb. reflexivity.
Qed.

(* LinkManager.remove_link's JoinLink branch with its seven slots free: the dataset whose dict is searched, the dataset and the two
   ids an entry is compared with, the dataset popped from the second dict, the two datasets whose dicts are popped *)
Definition remove_join_m (L : layout) (js : list (list join)) (it md : nat) (c1 c2 : cid) (rem2 pop1 pop2 : nat)
  : list (list join) * Z :=
  if existsb (fun j : join => Nat.eqb (fst j) md && hd_is (cpos L it c1) (fst (snd j)) && hd_is (cpos L md c2) (snd (snd j)))
             (nth it js [])
  then match dict_pop md (nth pop1 js []) with
       | None => (js, E_KEY)
       | Some da =>
         let j1 := upd pop1 da js in
         match dict_pop rem2 (nth pop2 j1 []) with
         | None => (j1, E_KEY)
         | Some db => (upd pop2 db j1, 0)
         end
       end
  else (js, E_KEY).

Definition gen_add_link (L : layout) (js : list (list join)) (l : jlink) : list (list join) * Z :=
  add_link_join (fun d1 d2 c1 c2 => join_on_key_reg js d1 d2 [cpos L d1 c1] [cpos L d2 c2]) l.
Definition gen_remove_link (L : layout) (js : list (list join)) (l : jlink) : list (list join) * Z :=
  remove_link_join (remove_join_m L js) l.

(* the translated add_link / remove_link join and unjoin the datasets NAMED BY THE LINK, on the ids named by the link *)
Theorem gen_add_link_eq : forall L js l, gen_add_link L js l = add_link L js l.
Proof.
  intros L js l. unfold gen_add_link, add_link_join, add_link, join_on_key_cids. apply gen_join_on_key_eq.
Qed.
Theorem gen_remove_link_eq : forall L js l, gen_remove_link L js l = remove_link L js l.
Proof. intros L js l. reflexivity. Qed.

(* ------------------------------------------------------------------ the laws, transported to the translated code *)
Section Transport.
Variables (S : sys) (view : option (list nat)) (d o : nat) (mr : list bool).
Let left := apply_view [] view (rows_of S d).
Let right := rows_of S o.

Theorem gen_join_1_1 : forall a b,
  exists m, gen_dispatch S view d o mr [a] [b] = Mask m /\ length m = length left /\
    forall i, selected m i <->
      exists r j r', nth_error left i = Some r /\ selected mr j /\ nth_error right j = Some r' /\
                     veq (key r a) (key r' b) = true.
Proof.
  intros a b. destruct (join_1_1 left right mr a b) as [m [H1 H2]].
  exists m. rewrite gen_dispatch_eq. fold left. fold right. rewrite H1. split; [reflexivity|exact H2].
Qed.

Theorem gen_join_n_n : forall c1 c2,
  length c1 = length c2 -> (1 < length c1)%nat -> nn_domain left right c1 c2 ->
  exists m, gen_dispatch S view d o mr c1 c2 = Mask m /\ length m = length left /\
    forall i, selected m i <->
      exists r j r', nth_error left i = Some r /\ selected mr j /\ nth_error right j = Some r' /\
                     Forall2 (fun x y => veq (key r x) (key r' y) = true) c1 c2.
Proof.
  intros c1 c2 Hl Hn Hd. destruct (join_n_n left right mr c1 c2 Hl Hn Hd) as [m [H1 H2]].
  exists m. rewrite gen_dispatch_eq. fold left. fold right. rewrite H1. split; [reflexivity|exact H2].
Qed.

Theorem gen_join_1_n : forall a c2, length c2 <> 1%nat ->
  exists m, gen_dispatch S view d o mr [a] c2 = Mask m /\ length m = length left /\
    forall i, selected m i <->
      exists r j r' y, nth_error left i = Some r /\ selected mr j /\ nth_error right j = Some r' /\
                       In y c2 /\ veq (key r a) (key r' y) = true.
Proof.
  intros a c2 Hn. destruct (join_1_n left right mr a c2 Hn) as [m [H1 H2]].
  exists m. rewrite gen_dispatch_eq. fold left. fold right. rewrite H1. split; [reflexivity|exact H2].
Qed.

Theorem gen_join_n_1 : forall c1 b, length c1 <> 1%nat ->
  exists m, gen_dispatch S view d o mr c1 [b] = Mask m /\ length m = length left /\
    forall i, selected m i <->
      exists r j r' x, nth_error left i = Some r /\ selected mr j /\ nth_error right j = Some r' /\
                       In x c1 /\ veq (key r x) (key r' b) = true.
Proof.
  intros c1 b Hn. destruct (join_n_1 left right mr c1 b Hn) as [m [H1 H2]].
  exists m. rewrite gen_dispatch_eq. fold left. fold right. rewrite H1. split; [reflexivity|exact H2].
Qed.
End Transport.

Definition gen_get_mask_top (S : sys) (d : nat) (view : option (list nat)) : outcome * list nat :=
  gen_get_mask (fuel_for S) S [] d view.

Theorem gen_join_terminates : forall S, (length (joins S) <= length (tables S))%nat -> forall d view,
  fst (gen_get_mask_top S d view) <> OutOfFuel /\
  (forall x, memb x (snd (gen_get_mask_top S d view)) = false) /\
  (forall fuel, (fuel_for S <= fuel)%nat -> fst (gen_get_mask fuel S [] d view) = fst (gen_get_mask_top S d view)) /\
  ((forall e, reach S d e -> own_of S e = None) -> fst (gen_get_mask_top S d view) = Incompatible) /\
  (no_self_join S -> forall fuel, (length (tables S) + 1 <= fuel)%nat ->
     fst (gen_get_mask fuel S [] d view) = fst (gen_get_mask_top S d view)).
Proof.
  intros S HS d view. destruct (join_terminates S HS d view) as [H1 [H2 [H3 H4]]].
  unfold gen_get_mask_top.
  destruct (gen_get_mask_eq (fuel_for S) S [] d view) as [E1 E2].
  split; [rewrite E1; exact H1|].
  split; [intro x; rewrite (E2 x); reflexivity|].
  split; [intros fuel Hf; rewrite E1, (proj1 (gen_get_mask_eq fuel S [] d view)); apply H2; exact Hf|].
  split; [intro Hr; rewrite E1; apply H3; exact Hr|].
  intros Hns fuel Hf. rewrite E1, (proj1 (gen_get_mask_eq fuel S [] d view)). apply H4; assumption.
Qed.

(* ------------------------------------------------------------------ JoinLink: the datasets are the ones the link names *)
(* both directions, stated for a JoinLink given to the LinkManager: the join is between link.data1 and link.data2, on the columns
   those two datasets store under link.cids1[0] / link.cids2[0] - whatever the parents of these ids are *)
Theorem link_both_directions : forall (ts : list table) (L : layout) (l : jlink) js,
  data1 l <> data2 l -> (data1 l < length ts)%nat -> (data2 l < length ts)%nat ->
  add_link L (map (fun _ => []) ts) l = (js, 0) ->
  let ca := [cpos L (data1 l) (hd dcid (cids1 l))] in
  let cb := [cpos L (data2 l) (hd dcid (cids2 l))] in
  (forall ow view mb, nth (data1 l) ow None = None -> nth (data2 l) ow None = Some mb ->
     get_mask_top (Sys ts js ow) (data1 l) view =
     out_of (join_mask (apply_view [] view (nth (data1 l) ts [])) (select mb (nth (data2 l) ts [])) ca cb)) /\
  (forall ow view ma, nth (data2 l) ow None = None -> nth (data1 l) ow None = Some ma ->
     get_mask_top (Sys ts js ow) (data2 l) view =
     out_of (join_mask (apply_view [] view (nth (data2 l) ts [])) (select ma (nth (data1 l) ts [])) cb ca)).
Proof.
  intros ts L l js Hne H1 H2 Hadd. cbv zeta.
  apply (join_both_directions ts (data1 l) (data2 l) _ _ js Hne H1 H2). exact Hadd.
Qed.

(* a LinkManager that identifies the two datasets from the ids' parents instead *)
Definition add_link_by_parent (L : layout) (js : list (list join)) (l : jlink) : list (list join) * Z :=
  let c1 := hd dcid (cids1 l) in let c2 := hd dcid (cids2 l) in
  join_on_key_cids L js (cid_parent c1) (cid_parent c2) c1 c2.

(* ... is a different function: a catalogue (dataset 0), a table extracted from it that stores its key under the catalogue's
   ComponentID (dataset 1), observations (dataset 2) linked with the table.  By the link's datasets the table receives the
   selection made on the observations; by the parents the table receives nothing and the catalogue, which the link does not
   name, does *)
Theorem link_by_parent_refuted :
  exists (ts : list table) (L : layout) (l : jlink) (ow : list (option (list bool))),
    layout_okb ts L = true /\ link_okb ts L l = true /\ data1 l <> data2 l /\
    nth (data2 l) ow None = None /\ nth (cid_parent (hd dcid (cids2 l))) ow None = None /\
    get_mask_top (Sys ts (fst (add_link L (map (fun _ => []) ts) l)) ow) (data2 l) None = Mask [false; true] /\
    get_mask_top (Sys ts (fst (add_link L (map (fun _ => []) ts) l)) ow) (cid_parent (hd dcid (cids2 l))) None = Incompatible /\
    get_mask_top (Sys ts (fst (add_link_by_parent L (map (fun _ => []) ts) l)) ow) (data2 l) None = Incompatible /\
    get_mask_top (Sys ts (fst (add_link_by_parent L (map (fun _ => []) ts) l)) ow) (cid_parent (hd dcid (cids2 l))) None
      = Mask [false; false; true].
Proof.
  exists [ [[i64 10]; [i64 11]; [i64 12]]; [[i64 11]; [i64 12]]; [[i64 12]; [i64 12]; [i64 10]; [i64 11]] ],
         [ [0%nat]; [0%nat]; [1%nat] ],
         (JLink 2 1 [Cid 1 2] [Cid 0 0]),
         [ None; None; Some [true; false; false; false] ].
  repeat split; try (vm_compute; reflexivity). vm_compute. discriminate.
Qed.

(* removing the link undoes the join: the dicts are what they were, so nothing propagates any more *)
Lemma upd_same_id : forall (A : Type) i (l : list A) d, nth i l d = d -> (forall v, v = d -> upd i v l = l) .
Proof.
  intros A i l. revert i. induction l as [|h t IH]; intros i d H v Hv; [destruct i; reflexivity|].
  destruct i as [|i]; simpl in *.
  - subst. reflexivity.
  - f_equal. apply (IH i d H v Hv).
Qed.
Lemma upd_upd_same : forall (A : Type) i (v w : A) l, upd i v (upd i w l) = upd i v l.
Proof. intros A i v w l. revert i. induction l as [|h t IH]; intros [|i]; simpl; try reflexivity. f_equal. apply IH. Qed.
Lemma upd_comm : forall (A : Type) i j (v w : A) l, i <> j -> upd i v (upd j w l) = upd j w (upd i v l).
Proof.
  intros A i j v w l. revert i j. induction l as [|h t IH]; intros [|i] [|j] H; simpl; try reflexivity; try congruence.
  f_equal. apply IH. congruence.
Qed.

Theorem unlink_restores : forall (ts : list table) (L : layout) (l : jlink) js,
  data1 l <> data2 l -> (data1 l < length ts)%nat -> (data2 l < length ts)%nat ->
  add_link L (map (fun _ => []) ts) l = (js, 0) ->
  remove_link L js l = (map (fun _ => []) ts, 0) /\
  forall ow view d, nth d ow None = None -> get_mask_top (Sys ts (map (fun _ => []) ts) ow) d view = Incompatible.
Proof.
  intros ts L l js Hne H1 H2 Hadd. split.
  - unfold add_link, join_on_key_cids, join_on_key in Hadd. simpl in Hadd. injection Hadd as Hjs.
    set (a := data1 l) in *. set (b := data2 l) in *.
    set (ca := cpos L a (hd dcid (cids1 l))) in *. set (cb := cpos L b (hd dcid (cids2 l))) in *.
    set (init := map (fun _ : table => @nil join) ts) in *.
    assert (La : (a < length init)%nat) by (unfold init; rewrite map_length; exact H1).
    assert (Lb : (b < length init)%nat) by (unfold init; rewrite map_length; exact H2).
    rewrite nth_upd_other in Hjs by exact Hne.
    assert (Ea : nth a init [] = []) by apply nth_no_joins.
    assert (Eb : nth b init [] = []) by apply nth_no_joins.
    rewrite Ea, Eb in Hjs. simpl in Hjs.
    unfold remove_link, unlink. fold a b ca cb. subst js.
    rewrite nth_upd_other by congruence. rewrite nth_upd_same by exact La.
    simpl. rewrite !Nat.eqb_refl. simpl.
    rewrite nth_upd_other by exact Hne. rewrite nth_upd_same by (rewrite upd_length; exact Lb).
    simpl. rewrite Nat.eqb_refl.
    f_equal.
    rewrite (upd_comm _ a b) by exact Hne. rewrite upd_upd_same.
    rewrite upd_upd_same.
    assert (Ua : upd a [] init = init) by (apply (upd_same_id _ a init [] Ea); reflexivity).
    assert (Ub : upd b [] init = init) by (apply (upd_same_id _ b init [] Eb); reflexivity).
    transitivity (upd b [] init); [|exact Ub]. f_equal. exact Ua.
  - intros ow view d Hd. unfold get_mask_top, fuel_for.
    remember (2 * length (tables (Sys ts (map (fun _ : table => []) ts) ow)) + 2)%nat as n eqn:En.
    destruct n as [|n]; [lia|].
    simpl. unfold own_of. simpl. rewrite Hd. unfold joins_of. simpl. rewrite nth_no_joins. reflexivity.
Qed.
