(* C11 — the theorems Property.v states, collected from Lemmas1..4 *)
From Coq Require Import ZArith List Bool Arith Lia.
Import ListNotations.
From GV Require Import Common.Wire C11.Model.
From GV Require Export C11.Lemmas1 C11.Lemmas2 C11.Lemmas3 C11.Lemmas4.
Open Scope Z_scope.

Definition same_widths (ka kb : list cell) : Prop :=
  Forall2 (fun a b => length (cbytes a) = length (cbytes b)) ka kb.

Lemma same_widths_lengths : forall ka kb, same_widths ka kb -> same_lengths (map cbytes ka) (map cbytes kb).
Proof. intros ka kb H. induction H; simpl; constructor; assumption. Qed.

Theorem concat_key_injective : forall ka kb, same_widths ka kb ->
  (concat_key ka = concat_key kb <-> map cbytes ka = map cbytes kb).
Proof. intros ka kb H. unfold concat_key. apply skey_injective. apply same_widths_lengths. assumption. Qed.

Theorem concat_key_needs_widths :
  (exists ka kb, length ka = length kb /\ concat_key ka = concat_key kb /\ map cbytes ka <> map cbytes kb) /\
  (exists ka kb, Forall2 (fun a b => veq a b = true) ka kb /\ concat_key ka <> concat_key kb).
Proof.
  split.
  - exists [i32 1; i32 2], [i64 8589934593; i64 0]. split; [reflexivity|]. split; [vm_compute; reflexivity|].
    vm_compute. discriminate.
  - exists [i32 1; i32 1], [i64 1; i64 1]. split; [repeat constructor|]. vm_compute. discriminate.
Qed.

Definition join_1_1 := Lemmas2.join_1_1.
Definition join_n_n := Lemmas2.join_n_n.
Definition join_1_n := Lemmas2.join_1_n.
Definition join_n_1 := Lemmas2.join_n_1.
Definition join_n_n_width_refuted := Lemmas4.join_n_n_width_refuted.
Definition join_terminates := Lemmas3.join_terminates.
Definition join_propagates := Lemmas3.get_mask_via_join.
Definition join_view := Lemmas3.get_mask_view.
Definition join_both_directions := Lemmas4.join_both_directions.
Definition join_chain := Lemmas4.join_chain.
