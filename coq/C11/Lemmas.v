From Coq Require Import ZArith List Bool Lia.
Import ListNotations.
From GV Require Import Common.Wire C11.Model.
Lemma placeholder : True. Proof. exact I. Qed.
