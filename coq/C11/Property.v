(* C11 — key joins propagate selections by key membership, in all four join shapes.
   Statements only; every proof is `exact Lemmas.<name>`.

   Reading guide.  [veq a b = true] is equality by value of two key cells, decoded from their stored
   bytes (ints exactly, strings up to padding, floats by bit pattern with +0.0 = -0.0, an int against a
   float exactly, as numbers).  numpy compares an int64 with a float64 after converting the int to
   float64; [conv_ok] (part of [nn_domain], and of the domain check of run_case for every shape) holds
   when that conversion does not blur the pair, i.e. except for an integer beyond 2^53 next to the
   double it rounds to without being equal to it.  [selected m i] = element i of mask m is True.
   [join_mask left (select mr right) c1 c2] is what get_mask_with_key_joins computes for this dataset's
   (viewed) rows [left], the other dataset's rows [right], the mask [mr] the other dataset answered,
   and the join's component tuples c1 (own) / c2 (other).  [get_mask fuel S flags d view] is
   Data.get_mask on dataset d of the system S (tables, Data._key_joins dicts, the selection's own
   evaluation per dataset) with the datasets in [flags] marked _recursing. *)
From Coq Require Import ZArith List Bool.
Import ListNotations.
From GV Require Import C11.Model C11.Lemmas gen.Gen_joins C11.GenLink.

(* ---- the four shapes: a row is selected iff its key equals by value a key of a row selected on the other side *)
Theorem join_1_1 : forall (left right : table) (mr : list bool) (a b : nat),
  exists m, join_mask left (select mr right) [a] [b] = Some m /\ length m = length left /\
    forall i, selected m i <->
      exists r j r', nth_error left i = Some r /\ selected mr j /\ nth_error right j = Some r' /\
                     veq (key r a) (key r' b) = true.
Proof. exact Lemmas.join_1_1. Qed.
Print Assumptions join_1_1.

(* n-n: the tuple of key values must match, whatever the storage dtypes / string widths of the columns
   ([nn_domain]: the compared cells are well-formed numpy items, number with number or string with string) *)
Theorem join_n_n : forall (left right : table) (mr : list bool) (c1 c2 : list nat),
  length c1 = length c2 -> (1 < length c1)%nat -> nn_domain left right c1 c2 ->
  exists m, join_mask left (select mr right) c1 c2 = Some m /\ length m = length left /\
    forall i, selected m i <->
      exists r j r', nth_error left i = Some r /\ selected mr j /\ nth_error right j = Some r' /\
                     Forall2 (fun x y => veq (key r x) (key r' y) = true) c1 c2.
Proof. exact Lemmas.join_n_n. Qed.
Print Assumptions join_n_n.

Theorem join_1_n : forall (left right : table) (mr : list bool) (a : nat) (c2 : list nat),
  length c2 <> 1%nat ->
  exists m, join_mask left (select mr right) [a] c2 = Some m /\ length m = length left /\
    forall i, selected m i <->
      exists r j r' y, nth_error left i = Some r /\ selected mr j /\ nth_error right j = Some r' /\
                       In y c2 /\ veq (key r a) (key r' y) = true.
Proof. exact Lemmas.join_1_n. Qed.
Print Assumptions join_1_n.

Theorem join_n_1 : forall (left right : table) (mr : list bool) (c1 : list nat) (b : nat),
  length c1 <> 1%nat ->
  exists m, join_mask left (select mr right) c1 [b] = Some m /\ length m = length left /\
    forall i, selected m i <->
      exists r j r' x, nth_error left i = Some r /\ selected mr j /\ nth_error right j = Some r' /\
                       In x c1 /\ veq (key r x) (key r' b) = true.
Proof. exact Lemmas.join_n_1. Qed.
Print Assumptions join_n_1.

(* ---- the byte-concatenation trick of concatenate_arrays *)
(* with equal column widths on both sides the S<total> items are equal (up to trailing NULs, as numpy
   compares them) iff the column contents are equal ... *)
Theorem concat_key_injective : forall ka kb, same_widths ka kb ->
  (concat_key ka = concat_key kb <-> map cbytes ka = map cbytes kb).
Proof. exact Lemmas.concat_key_injective. Qed.
Print Assumptions concat_key_injective.

(* ... and without that agreement it is neither sound nor complete *)
Theorem concat_key_needs_widths :
  (exists ka kb, length ka = length kb /\ concat_key ka = concat_key kb /\ map cbytes ka <> map cbytes kb) /\
  (exists ka kb, Forall2 (fun a b => veq a b = true) ka kb /\ concat_key ka <> concat_key kb).
Proof. exact Lemmas.concat_key_needs_widths. Qed.
Print Assumptions concat_key_needs_widths.

(* F-C11 (glue-core @56f48f0, before the repair): the n-n law fails for the raw byte comparison when the
   dtypes differ — equal tuples that are not matched, and a match between different tuples *)
Theorem join_n_n_width_refuted :
  (exists left right mr c1 c2,
     length c1 = length c2 /\ (1 < length c1)%nat /\ nn_domain left right c1 c2 /\
     exists r r', nth_error left 0 = Some r /\ nth_error right 0 = Some r' /\ selected mr 0 /\
       Forall2 (fun x y => veq (key r x) (key r' y) = true) c1 c2 /\
       ~ selected (mask_nn_raw left (select mr right) c1 c2) 0) /\
  (exists left right mr c1 c2,
     length c1 = length c2 /\ (1 < length c1)%nat /\ nn_domain left right c1 c2 /\
     selected (mask_nn_raw left (select mr right) c1 c2) 0 /\
     forall r j r', nth_error left 0 = Some r -> selected mr j -> nth_error right j = Some r' ->
       ~ Forall2 (fun x y => veq (key r x) (key r' y) = true) c1 c2).
Proof. exact Lemmas.join_n_n_width_refuted. Qed.
Print Assumptions join_n_n_width_refuted.

(* ---- the recursion over the join graph *)
(* one step: the first join (dict order) whose far side is not flagged and does not answer
   Incompatible decides, and the answer is the join of this dataset's viewed rows with the rows selected there *)
Theorem join_propagates : forall f S F d view pre o c1 c2 rest mr,
  own_of S d = None ->
  joins_of S d = pre ++ (o, (c1, c2)) :: rest ->
  (forall j, In j pre -> memb (fst j) F = true \/ get_mask f S (d :: F) (fst j) None = Incompatible) ->
  memb o F = false ->
  get_mask f S (d :: F) o None = Mask mr ->
  get_mask (Datatypes.S f) S F d view =
  out_of (join_mask (apply_view [] view (rows_of S d)) (select mr (rows_of S o)) c1 c2).
Proof. exact Lemmas.join_propagates. Qed.
Print Assumptions join_propagates.

(* on every join graph (cycles and self-joins included) the recursion ends: the fuel the model runs with
   is never exhausted and more fuel changes nothing; the depth is at most |datasets| + 1 frames when no
   dataset is joined with itself (2|datasets| + 2 otherwise); and when no dataset reachable through joins
   can evaluate the selection the answer is Incompatible *)
Theorem join_terminates : forall S, (length (joins S) <= length (tables S))%nat -> forall d view,
  get_mask_top S d view <> OutOfFuel /\
  (forall fuel, (fuel_for S <= fuel)%nat -> get_mask fuel S [] d view = get_mask_top S d view) /\
  ((forall e, reach S d e -> own_of S e = None) -> get_mask_top S d view = Incompatible) /\
  (no_self_join S -> forall fuel, (length (tables S) + 1 <= fuel)%nat -> get_mask fuel S [] d view = get_mask_top S d view).
Proof. exact Lemmas.join_terminates. Qed.
Print Assumptions join_terminates.

(* all views: asking through a view = asking for the whole dataset and looking through the view *)
Theorem join_view : forall fuel S F d idx,
  (forall i, In i idx -> (i < length (rows_of S d))%nat) ->
  get_mask fuel S F d (Some idx) = map_outcome (gather false idx) (get_mask fuel S F d None).
Proof. exact Lemmas.join_view. Qed.
Print Assumptions join_view.

(* both directions: join_on_key registers the join on both datasets (cids swapped), and a selection that
   only the other dataset can evaluate arrives here as the join, whichever of the two is asked *)
Theorem join_both_directions : forall (ts : list table) a b ca cb js,
  a <> b -> (a < length ts)%nat -> (b < length ts)%nat ->
  join_on_key (map (fun _ => []) ts) a b ca cb = (js, 0%Z) ->
  (forall ow view mb, nth a ow None = None -> nth b ow None = Some mb ->
     get_mask_top (Sys ts js ow) a view =
     out_of (join_mask (apply_view [] view (nth a ts [])) (select mb (nth b ts [])) ca cb)) /\
  (forall ow view ma, nth b ow None = None -> nth a ow None = Some ma ->
     get_mask_top (Sys ts js ow) b view =
     out_of (join_mask (apply_view [] view (nth b ts [])) (select ma (nth a ts [])) cb ca)).
Proof. exact Lemmas.join_both_directions. Qed.
Print Assumptions join_both_directions.

(* chains: along d0 - d1 - ... - dk where only dk can evaluate, d0 receives the composition of the joins *)
Theorem join_chain : forall S path prev F fuel,
  chain_ok S prev path -> NoDup (map fst path) ->
  (forall p, prev = Some p -> memb p F = true) ->
  (forall x, In x (map fst path) -> memb x F = false) ->
  (length path <= fuel)%nat ->
  get_mask fuel S F (hd 0%nat (map fst path)) None = chain_out S path.
Proof. exact Lemmas.join_chain. Qed.
Print Assumptions join_chain.


(* ================================================================== round 4 ==================================================== *)
(* ---- JoinLink given to the LinkManager: dataset identities are the link's data1 / data2, not the parents of its ComponentIDs.
   [cid] = (which ComponentID object, its .parent); [layout] = per dataset the ids its columns are stored under; [cpos L d c] = the
   column of dataset d stored under id c. *)
Theorem link_both_directions : forall (ts : list table) (L : layout) (l : jlink) js,
  data1 l <> data2 l -> (data1 l < length ts)%nat -> (data2 l < length ts)%nat ->
  add_link L (map (fun _ => []) ts) l = (js, 0%Z) ->
  let ca := [cpos L (data1 l) (hd dcid (cids1 l))] in
  let cb := [cpos L (data2 l) (hd dcid (cids2 l))] in
  (forall ow view mb, nth (data1 l) ow None = None -> nth (data2 l) ow None = Some mb ->
     get_mask_top (Sys ts js ow) (data1 l) view =
     out_of (join_mask (apply_view [] view (nth (data1 l) ts [])) (select mb (nth (data2 l) ts [])) ca cb)) /\
  (forall ow view ma, nth (data2 l) ow None = None -> nth (data1 l) ow None = Some ma ->
     get_mask_top (Sys ts js ow) (data2 l) view =
     out_of (join_mask (apply_view [] view (nth (data2 l) ts [])) (select ma (nth (data1 l) ts [])) cb ca)).
Proof. exact GenLink.link_both_directions. Qed.
Print Assumptions link_both_directions.

(* a LinkManager that takes the datasets from cids[0].parent is provably a different function: with a table (dataset 1) that stores
   its key under the ComponentID of the catalogue it was extracted from (dataset 0) and is linked with observations (dataset 2), the
   table receives the selection by the link's datasets and nothing by the parents, and the catalogue the other way round *)
Theorem link_by_parent_refuted :
  exists (ts : list table) (L : layout) (l : jlink) (ow : list (option (list bool))),
    layout_okb ts L = true /\ link_okb ts L l = true /\ data1 l <> data2 l /\
    nth (data2 l) ow None = None /\ nth (cid_parent (hd dcid (cids2 l))) ow None = None /\
    get_mask_top (Sys ts (fst (add_link L (map (fun _ => []) ts) l)) ow) (data2 l) None = Mask [false; true] /\
    get_mask_top (Sys ts (fst (add_link L (map (fun _ => []) ts) l)) ow) (cid_parent (hd dcid (cids2 l))) None = Incompatible /\
    get_mask_top (Sys ts (fst (add_link_by_parent L (map (fun _ => []) ts) l)) ow) (data2 l) None = Incompatible /\
    get_mask_top (Sys ts (fst (add_link_by_parent L (map (fun _ => []) ts) l)) ow) (cid_parent (hd dcid (cids2 l))) None
      = Mask [false; false; true].
Proof. exact GenLink.link_by_parent_refuted. Qed.
Print Assumptions link_by_parent_refuted.

(* remove_link of the link just added restores the dicts, and then nothing propagates: every dataset that cannot evaluate the
   selection itself answers Incompatible *)
Theorem unlink_restores : forall (ts : list table) (L : layout) (l : jlink) js,
  data1 l <> data2 l -> (data1 l < length ts)%nat -> (data2 l < length ts)%nat ->
  add_link L (map (fun _ => []) ts) l = (js, 0%Z) ->
  remove_link L js l = (map (fun _ => []) ts, 0%Z) /\
  forall ow view d, nth d ow None = None -> get_mask_top (Sys ts (map (fun _ => []) ts) ow) d view = Incompatible.
Proof. exact GenLink.unlink_restores. Qed.
Print Assumptions unlink_restores.

(* ---- the code translated from the source on every run (coq/gen/Gen_joins.v) is the model *)
(* the four-way dispatch of get_mask_with_key_joins, numpy kernels instantiated by the model's column operations *)
Theorem gen_dispatch_eq : forall S view d o mr c1 c2,
  gen_dispatch S view d o mr c1 c2 =
  out_of (join_mask (apply_view [] view (rows_of S d)) (select mr (rows_of S o)) c1 c2).
Proof. exact GenLink.gen_dispatch_eq. Qed.
Print Assumptions gen_dispatch_eq.

(* the translated loop (skip flagged, read / set / restore _recursing, try / except IncompatibleAttribute: continue / finally), closed
   into Data.get_mask with the flags handed on as a state: same answer as the model, and every flag is left as it was found *)
Theorem gen_get_mask_eq : forall f S F d view,
  fst (gen_get_mask f S F d view) = get_mask f S F d view /\ feq (snd (gen_get_mask f S F d view)) F.
Proof. exact GenLink.gen_get_mask_eq. Qed.
Print Assumptions gen_get_mask_eq.

Theorem gen_join_on_key_eq : forall js a b ca cb, join_on_key_reg js a b ca cb = join_on_key js a b ca cb.
Proof. exact GenLink.gen_join_on_key_eq. Qed.
Print Assumptions gen_join_on_key_eq.

(* LinkManager.add_link / remove_link as translated use link.data1, link.data2, link.cids1[0], link.cids2[0] *)
Theorem gen_add_link_eq : forall L js l, gen_add_link L js l = add_link L js l.
Proof. exact GenLink.gen_add_link_eq. Qed.
Print Assumptions gen_add_link_eq.

Theorem gen_remove_link_eq : forall L js l, gen_remove_link L js l = remove_link L js l.
Proof. exact GenLink.gen_remove_link_eq. Qed.
Print Assumptions gen_remove_link_eq.

(* ---- the four laws and termination, for the translated code *)
Theorem gen_join_1_1 : forall S view d o mr a b,
  exists m, gen_dispatch S view d o mr [a] [b] = Mask m /\ length m = length (apply_view [] view (rows_of S d)) /\
    forall i, selected m i <->
      exists r j r', nth_error (apply_view [] view (rows_of S d)) i = Some r /\ selected mr j /\ nth_error (rows_of S o) j = Some r' /\
                     veq (key r a) (key r' b) = true.
Proof. exact GenLink.gen_join_1_1. Qed.
Print Assumptions gen_join_1_1.

Theorem gen_join_n_n : forall S view d o mr c1 c2,
  length c1 = length c2 -> (1 < length c1)%nat -> nn_domain (apply_view [] view (rows_of S d)) (rows_of S o) c1 c2 ->
  exists m, gen_dispatch S view d o mr c1 c2 = Mask m /\ length m = length (apply_view [] view (rows_of S d)) /\
    forall i, selected m i <->
      exists r j r', nth_error (apply_view [] view (rows_of S d)) i = Some r /\ selected mr j /\ nth_error (rows_of S o) j = Some r' /\
                     Forall2 (fun x y => veq (key r x) (key r' y) = true) c1 c2.
Proof. exact GenLink.gen_join_n_n. Qed.
Print Assumptions gen_join_n_n.

Theorem gen_join_1_n : forall S view d o mr a c2, length c2 <> 1%nat ->
  exists m, gen_dispatch S view d o mr [a] c2 = Mask m /\ length m = length (apply_view [] view (rows_of S d)) /\
    forall i, selected m i <->
      exists r j r' y, nth_error (apply_view [] view (rows_of S d)) i = Some r /\ selected mr j /\ nth_error (rows_of S o) j = Some r' /\
                       In y c2 /\ veq (key r a) (key r' y) = true.
Proof. exact GenLink.gen_join_1_n. Qed.
Print Assumptions gen_join_1_n.

Theorem gen_join_n_1 : forall S view d o mr c1 b, length c1 <> 1%nat ->
  exists m, gen_dispatch S view d o mr c1 [b] = Mask m /\ length m = length (apply_view [] view (rows_of S d)) /\
    forall i, selected m i <->
      exists r j r' x, nth_error (apply_view [] view (rows_of S d)) i = Some r /\ selected mr j /\ nth_error (rows_of S o) j = Some r' /\
                       In x c1 /\ veq (key r x) (key r' b) = true.
Proof. exact GenLink.gen_join_n_1. Qed.
Print Assumptions gen_join_n_1.

Theorem gen_join_terminates : forall S, (length (joins S) <= length (tables S))%nat -> forall d view,
  fst (gen_get_mask_top S d view) <> OutOfFuel /\
  (forall x, memb x (snd (gen_get_mask_top S d view)) = false) /\
  (forall fuel, (fuel_for S <= fuel)%nat -> fst (gen_get_mask fuel S [] d view) = fst (gen_get_mask_top S d view)) /\
  ((forall e, reach S d e -> own_of S e = None) -> fst (gen_get_mask_top S d view) = Incompatible) /\
  (no_self_join S -> forall fuel, (length (tables S) + 1 <= fuel)%nat ->
     fst (gen_get_mask fuel S [] d view) = fst (gen_get_mask_top S d view)).
Proof. exact GenLink.gen_join_terminates. Qed.
Print Assumptions gen_join_terminates.
