(* C11 — key joins propagate selections by key membership, in all four join shapes.
   Statements only; every proof is `exact Lemmas.<name>`.

   Reading guide.  [veq a b = true] is equality by value of two key cells, decoded from their stored
   bytes (ints exactly, strings up to padding, floats by bit pattern with +0.0 = -0.0, an int against a
   float exactly, as numbers).  numpy compares an int64 with a float64 after converting the int to
   float64; [conv_ok] (part of [nn_domain], and of the domain check of run_case for every shape) holds
   when that conversion does not blur the pair, i.e. except for an integer beyond 2^53 next to the
   double it rounds to without being equal to it.  [selected m i] = element i of mask m is True.
   [join_mask left (select mr right) c1 c2] is what get_mask_with_key_joins computes for this dataset's
   (viewed) rows [left], the other dataset's rows [right], the mask [mr] the other dataset answered,
   and the join's component tuples c1 (own) / c2 (other).  [get_mask fuel S flags d view] is
   Data.get_mask on dataset d of the system S (tables, Data._key_joins dicts, the selection's own
   evaluation per dataset) with the datasets in [flags] marked _recursing. *)
From Coq Require Import ZArith List Bool.
Import ListNotations.
From GV Require Import C11.Model C11.Lemmas.

(* ---- the four shapes: a row is selected iff its key equals by value a key of a row selected on the other side *)
Theorem join_1_1 : forall (left right : table) (mr : list bool) (a b : nat),
  exists m, join_mask left (select mr right) [a] [b] = Some m /\ length m = length left /\
    forall i, selected m i <->
      exists r j r', nth_error left i = Some r /\ selected mr j /\ nth_error right j = Some r' /\
                     veq (key r a) (key r' b) = true.
Proof. exact Lemmas.join_1_1. Qed.
Print Assumptions join_1_1.

(* n-n: the tuple of key values must match, whatever the storage dtypes / string widths of the columns
   ([nn_domain]: the compared cells are well-formed numpy items, number with number or string with string) *)
Theorem join_n_n : forall (left right : table) (mr : list bool) (c1 c2 : list nat),
  length c1 = length c2 -> (1 < length c1)%nat -> nn_domain left right c1 c2 ->
  exists m, join_mask left (select mr right) c1 c2 = Some m /\ length m = length left /\
    forall i, selected m i <->
      exists r j r', nth_error left i = Some r /\ selected mr j /\ nth_error right j = Some r' /\
                     Forall2 (fun x y => veq (key r x) (key r' y) = true) c1 c2.
Proof. exact Lemmas.join_n_n. Qed.
Print Assumptions join_n_n.

Theorem join_1_n : forall (left right : table) (mr : list bool) (a : nat) (c2 : list nat),
  length c2 <> 1%nat ->
  exists m, join_mask left (select mr right) [a] c2 = Some m /\ length m = length left /\
    forall i, selected m i <->
      exists r j r' y, nth_error left i = Some r /\ selected mr j /\ nth_error right j = Some r' /\
                       In y c2 /\ veq (key r a) (key r' y) = true.
Proof. exact Lemmas.join_1_n. Qed.
Print Assumptions join_1_n.

Theorem join_n_1 : forall (left right : table) (mr : list bool) (c1 : list nat) (b : nat),
  length c1 <> 1%nat ->
  exists m, join_mask left (select mr right) c1 [b] = Some m /\ length m = length left /\
    forall i, selected m i <->
      exists r j r' x, nth_error left i = Some r /\ selected mr j /\ nth_error right j = Some r' /\
                       In x c1 /\ veq (key r x) (key r' b) = true.
Proof. exact Lemmas.join_n_1. Qed.
Print Assumptions join_n_1.

(* ---- the byte-concatenation trick of concatenate_arrays *)
(* with equal column widths on both sides the S<total> items are equal (up to trailing NULs, as numpy
   compares them) iff the column contents are equal ... *)
Theorem concat_key_injective : forall ka kb, same_widths ka kb ->
  (concat_key ka = concat_key kb <-> map cbytes ka = map cbytes kb).
Proof. exact Lemmas.concat_key_injective. Qed.
Print Assumptions concat_key_injective.

(* ... and without that agreement it is neither sound nor complete *)
Theorem concat_key_needs_widths :
  (exists ka kb, length ka = length kb /\ concat_key ka = concat_key kb /\ map cbytes ka <> map cbytes kb) /\
  (exists ka kb, Forall2 (fun a b => veq a b = true) ka kb /\ concat_key ka <> concat_key kb).
Proof. exact Lemmas.concat_key_needs_widths. Qed.
Print Assumptions concat_key_needs_widths.

(* F-C11 (glue-core @56f48f0, before the repair): the n-n law fails for the raw byte comparison when the
   dtypes differ — equal tuples that are not matched, and a match between different tuples *)
Theorem join_n_n_width_refuted :
  (exists left right mr c1 c2,
     length c1 = length c2 /\ (1 < length c1)%nat /\ nn_domain left right c1 c2 /\
     exists r r', nth_error left 0 = Some r /\ nth_error right 0 = Some r' /\ selected mr 0 /\
       Forall2 (fun x y => veq (key r x) (key r' y) = true) c1 c2 /\
       ~ selected (mask_nn_raw left (select mr right) c1 c2) 0) /\
  (exists left right mr c1 c2,
     length c1 = length c2 /\ (1 < length c1)%nat /\ nn_domain left right c1 c2 /\
     selected (mask_nn_raw left (select mr right) c1 c2) 0 /\
     forall r j r', nth_error left 0 = Some r -> selected mr j -> nth_error right j = Some r' ->
       ~ Forall2 (fun x y => veq (key r x) (key r' y) = true) c1 c2).
Proof. exact Lemmas.join_n_n_width_refuted. Qed.
Print Assumptions join_n_n_width_refuted.

(* ---- the recursion over the join graph *)
(* one step: the first join (dict order) whose far side is not flagged and does not answer
   Incompatible decides, and the answer is the join of this dataset's viewed rows with the rows selected there *)
Theorem join_propagates : forall f S F d view pre o c1 c2 rest mr,
  own_of S d = None ->
  joins_of S d = pre ++ (o, (c1, c2)) :: rest ->
  (forall j, In j pre -> memb (fst j) F = true \/ get_mask f S (d :: F) (fst j) None = Incompatible) ->
  memb o F = false ->
  get_mask f S (d :: F) o None = Mask mr ->
  get_mask (Datatypes.S f) S F d view =
  out_of (join_mask (apply_view [] view (rows_of S d)) (select mr (rows_of S o)) c1 c2).
Proof. exact Lemmas.join_propagates. Qed.
Print Assumptions join_propagates.

(* on every join graph (cycles and self-joins included) the recursion ends: the fuel the model runs with
   is never exhausted and more fuel changes nothing; the depth is at most |datasets| + 1 frames when no
   dataset is joined with itself (2|datasets| + 2 otherwise); and when no dataset reachable through joins
   can evaluate the selection the answer is Incompatible *)
Theorem join_terminates : forall S, (length (joins S) <= length (tables S))%nat -> forall d view,
  get_mask_top S d view <> OutOfFuel /\
  (forall fuel, (fuel_for S <= fuel)%nat -> get_mask fuel S [] d view = get_mask_top S d view) /\
  ((forall e, reach S d e -> own_of S e = None) -> get_mask_top S d view = Incompatible) /\
  (no_self_join S -> forall fuel, (length (tables S) + 1 <= fuel)%nat -> get_mask fuel S [] d view = get_mask_top S d view).
Proof. exact Lemmas.join_terminates. Qed.
Print Assumptions join_terminates.

(* all views: asking through a view = asking for the whole dataset and looking through the view *)
Theorem join_view : forall fuel S F d idx,
  (forall i, In i idx -> (i < length (rows_of S d))%nat) ->
  get_mask fuel S F d (Some idx) = map_outcome (gather false idx) (get_mask fuel S F d None).
Proof. exact Lemmas.join_view. Qed.
Print Assumptions join_view.

(* both directions: join_on_key registers the join on both datasets (cids swapped), and a selection that
   only the other dataset can evaluate arrives here as the join, whichever of the two is asked *)
Theorem join_both_directions : forall (ts : list table) a b ca cb js,
  a <> b -> (a < length ts)%nat -> (b < length ts)%nat ->
  join_on_key (map (fun _ => []) ts) a b ca cb = (js, 0%Z) ->
  (forall ow view mb, nth a ow None = None -> nth b ow None = Some mb ->
     get_mask_top (Sys ts js ow) a view =
     out_of (join_mask (apply_view [] view (nth a ts [])) (select mb (nth b ts [])) ca cb)) /\
  (forall ow view ma, nth b ow None = None -> nth a ow None = Some ma ->
     get_mask_top (Sys ts js ow) b view =
     out_of (join_mask (apply_view [] view (nth b ts [])) (select ma (nth a ts [])) cb ca)).
Proof. exact Lemmas.join_both_directions. Qed.
Print Assumptions join_both_directions.

(* chains: along d0 - d1 - ... - dk where only dk can evaluate, d0 receives the composition of the joins *)
Theorem join_chain : forall S path prev F fuel,
  chain_ok S prev path -> NoDup (map fst path) ->
  (forall p, prev = Some p -> memb p F = true) ->
  (forall x, In x (map fst path) -> memb x F = false) ->
  (length path <= fuel)%nat ->
  get_mask fuel S F (hd 0%nat (map fst path)) None = chain_out S path.
Proof. exact Lemmas.join_chain. Qed.
Print Assumptions join_chain.
