From Coq Require Import ZArith List Bool.
From GV Require Import C11.Lemmas.
Theorem placeholder : True. Proof. exact Lemmas.placeholder. Qed.
Print Assumptions placeholder.
