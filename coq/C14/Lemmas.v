(* C14 — the theorems (statements are repeated verbatim in Property.v) *)
From Coq Require Import ZArith QArith List Bool.
Import ListNotations.
From GV Require Import Common.Wire C14.Model.
From GV Require Export C14.Lemmas1 C14.Lemmas2 C14.Lemmas3 C14.Lemmas4 C14.Lemmas5 C14.Lemmas6.
Open Scope Z_scope.

Definition derived_value := Lemmas5.derived_value.
Definition derived_value_scalar := Lemmas5.derived_value_scalar.
Definition remove_closure := Lemmas6.remove_closure.
Definition remove_values := Lemmas6.remove_values.
Definition update_id_preserves := Lemmas6.update_id_preserves.
Definition remove_order_independent := Lemmas6.remove_order_independent.
