(* C14 — the tag grammar of parsed text expressions (glue/core/parse.py).  The tokenizer (TAG_RE.finditer), the str / dict
   primitives and parse._validate itself are in coq/gen/Gen_parse.v, REGENERATED from the source on every run.  Here:
   the model of the rewrite on token lists, the meaning of a command (its text pieces and the objects it refers to),
   and the wire entry points.  Definitions only; proofs are in ParseLemmas.v. *)
From Coq Require Import ZArith List Bool.
Import ListNotations.
From GV Require Import Common.Wire gen.Gen_parse.
Open Scope Z_scope.

Section ParseModel.
Variable Obj : Type.
Variable Obj_default : Obj.
Variable uuid : Obj -> list Z.

(* what _validate's first loop builds, keyed by the text between the brackets (of the command: any spelling; of the
   replacement: the uuid) *)
Definition obj_of (refs : list (list Z * Obj)) (raw : list Z) : Obj := sd_getitem Obj_default refs (strip raw).
Definition repl_of (refs : list (list Z * Obj)) (rs : list (list Z)) : list (list Z * list Z) :=
  fold_left (fun d raw => sd_setitem raw (uuid (obj_of refs raw)) d) rs [].
Definition refs_new_of (refs : list (list Z * Obj)) (rs : list (list Z)) : list (list Z * Obj) :=
  fold_left (fun d raw => sd_setitem (uuid (obj_of refs raw)) (obj_of refs raw) d) rs [].
Definition all_known (refs : list (list Z * Obj)) (rs : list (list Z)) : bool :=
  forallb (fun raw => sd_has_key (strip raw) refs) rs.

(* the rewrite on tokens: one replacement after the other, each on every reference spelled exactly like its key *)
Definition subst1 (kv : list Z * list Z) (t : token) : token :=
  match t with Ref raw => if leqb raw (fst kv) then Ref (snd kv) else t | Text _ => t end.
Definition validate_tokens (toks : list token) (refs : list (list Z * Obj)) : option (list token * list (list Z * Obj)) :=
  if all_known refs (raws toks)
  then Some (fold_left (fun ts kv => map (subst1 kv) ts) (repl_of refs (raws toks)) toks, refs_new_of refs (raws toks))
  else None.

(* the rewrite on the command string: the same replacements, with their brackets, through str.replace *)
Definition validate_str (cmd : list Z) (refs : list (list Z * Obj)) : option (list Z * list (list Z * Obj)) :=
  let rs := finditer cmd in
  if all_known refs rs
  then Some (fold_left (fun s kv => py_replace (m_full (fst kv)) (m_full (snd kv)) s) (repl_of refs rs) cmd, refs_new_of refs rs)
  else None.

(* the meaning of a command under a reference table: its text pieces and, for every reference, the object named *)
Inductive piece : Type := PText (s : list Z) | PObj (o : option Obj).
Definition deref (table : list (list Z * Obj)) (toks : list token) : list piece :=
  map (fun t => match t with Text s => PText s | Ref raw => PObj (sd_get (strip raw) table) end) toks.
End ParseModel.
Arguments obj_of {Obj}. Arguments repl_of {Obj}. Arguments refs_new_of {Obj}. Arguments all_known {Obj}.
Arguments validate_tokens {Obj}. Arguments validate_str {Obj}. Arguments deref {Obj}. Arguments PText {Obj}. Arguments PObj {Obj}.

(* ---------- wire: (3 codes) -> spans of the matches ; (4 codes ((label uuid) ...)) -> the rewritten command ---------- *)
Definition parse_tokens_case (s : tree) : tree :=
  T 0 (map (fun m => match m with (a, b, tg) => T 0 [leaf a; leaf b; zs tg] end) (spans 0 (tokenize (to_zs s)))).
Definition parse_validate_case (s refs : tree) : tree :=
  let table := map (fun k => (to_zs (kid 0 k), to_zs (kid 1 k))) (kids refs) in      (* the object is its uuid *)
  match _validate [] (fun u => u) (to_zs s) table with
  | None => err 1
  | Some (cmd_new, refs_new) =>
    T 0 [zs cmd_new; T 0 (map (fun kv => zs (fst kv)) refs_new);
         match validate_tokens [] (fun u => u) (tokenize (to_zs s)) table with
         | Some (toks, _) => zs (detok toks)
         | None => err 1
         end]
  end.
