(* C14 — BinaryComponentLink.compute / ParsedCommand.evaluate compute the expression elementwise *)
From Coq Require Import ZArith QArith List Bool Lia.
Import ListNotations.
From GV Require Import Common.Wire C14.Model C14.Lemmas1.
Open Scope Z_scope.

(* a fetched operand holds F on the box sh (a scalar holds a constant function) *)
Definition vrepr (x : value) (sh : list Z) (F : list Z -> val) : Prop :=
  match x with
  | VArr a => repr a sh F
  | VScalar s => forall idx, F idx = s
  | VErr _ => False
  end.

Lemma ashape_axes : forall a, ashape a = map fst (axes a).
Proof. reflexivity. Qed.

Lemma binary_arr_arr : forall o a b sh FL FR, repr a sh FL -> repr b sh FR ->
  vrepr (binary_compute o (VArr a) (VArr b)) sh (fun idx => qop o (FL idx) (FR idx)).
Proof.
  intros o a b sh FL FR [Sa Ha] [Sb Hb].
  assert (Hs : map fst (axes a) = map fst (axes b)) by (rewrite <- !ashape_axes; congruence).
  destruct (binary_axes (axes a) (axes b) Hs) as (cs & a' & b' & fin & Hc & Hba & Hbb & Hf & Hi).
  unfold binary_compute. rewrite !ashape_axes, !axes_unbroadcast. rewrite Hc.
  unfold broadcast_to. rewrite !axes_unbroadcast. rewrite Hba, Hbb. cbn [axes]. rewrite Hf.
  unfold vrepr, repr. split.
  - rewrite ashape_axes. cbn [axes]. rewrite (bcast_axes_shape _ _ _ Hf). rewrite <- ashape_axes. exact Sb.
  - intros idx Hbox. rewrite <- Sa, ashape_axes in Hbox. destruct (Hi idx Hbox) as [Hia Hib].
    unfold aget at 1. cbn [axes aval]. unfold aget at 1. cbn [axes aval]. rewrite collapse_fresh.
    f_equal.
    + unfold aget at 1. cbn [axes aval]. unfold aget at 1. rewrite axes_unbroadcast, collapse_unb. unfold unbroadcast. cbn [aval].
      unfold aget. rewrite Hia. apply Ha. rewrite <- Sa, ashape_axes. exact Hbox.
    + unfold aget at 1. cbn [axes aval]. unfold aget at 1. rewrite axes_unbroadcast, collapse_unb. unfold unbroadcast. cbn [aval].
      unfold aget. rewrite Hib. apply Hb. rewrite <- Sb, ashape_axes, <- Hs. exact Hbox.
Qed.

Lemma binary_arr_scalar : forall a sh F (g : val -> val), repr a sh F ->
  forall x, (let u := unbroadcast a in
             let res := mkarr (fresh_axes (ashape u)) (fun idx => g (aget u idx)) in
             match broadcast_to res (ashape a) with Some x => VArr x | None => VErr BroadcastError end) = x ->
  vrepr x sh (fun idx => g (F idx)).
Proof.
  intros a sh F g [Sa Ha] x Hx. cbv zeta in Hx.
  destruct (scalar_axes (axes a)) as (fin & Hf & Hi).
  unfold broadcast_to in Hx. cbn [axes] in Hx. rewrite !ashape_axes, axes_unbroadcast in Hx. rewrite Hf in Hx. subst x.
  unfold vrepr, repr. split.
  - rewrite ashape_axes. cbn [axes]. rewrite (bcast_axes_shape _ _ _ Hf). rewrite <- ashape_axes. exact Sa.
  - intros idx Hbox. rewrite <- Sa, ashape_axes in Hbox.
    unfold aget at 1. cbn [axes aval]. unfold aget at 1. cbn [axes aval]. rewrite collapse_fresh. f_equal.
    unfold aget at 1. rewrite axes_unbroadcast, collapse_unb. unfold unbroadcast. cbn [aval]. unfold aget. rewrite (Hi idx Hbox).
    apply Ha. rewrite <- Sa, ashape_axes. exact Hbox.
Qed.

Lemma vrepr_ext : forall x sh F G, (forall idx, F idx = G idx) -> vrepr x sh F -> vrepr x sh G.
Proof.
  intros x sh F G E H. destruct x as [s|a|e]; simpl in *.
  - intros idx. rewrite <- E. apply H.
  - destruct H as [S H]. split; [exact S|]. intros idx Hb. rewrite <- E. apply H. exact Hb.
  - exact H.
Qed.

Lemma binary_compute_ok : forall o l r sh FL FR, vrepr l sh FL -> vrepr r sh FR ->
  vrepr (binary_compute o l r) sh (fun idx => qop o (FL idx) (FR idx)).
Proof.
  intros o l r sh FL FR Hl Hr. destruct l as [x|a|e]; [| |destruct Hl]; (destruct r as [y|b|e]; [| |destruct Hr]).
  - simpl in *. intros idx. rewrite Hl, Hr. reflexivity.
  - simpl in Hl. pose proof (binary_arr_scalar b sh FR (fun v => qop o x v) Hr _ eq_refl) as H.
    eapply vrepr_ext; [|exact H]. intros idx. simpl. rewrite Hl. reflexivity.
  - simpl in Hr. pose proof (binary_arr_scalar a sh FL (fun v => qop o v y) Hl _ eq_refl) as H.
    eapply vrepr_ext; [|exact H]. intros idx. simpl. rewrite Hr. reflexivity.
  - apply binary_arr_arr; assumption.
Qed.
