(* C14 — views, expression evaluation through operator links and parsed commands, and the main theorem derived_value *)
From Coq Require Import ZArith QArith List Bool Lia.
Import ListNotations.
From GV Require Import Common.Wire C14.Model C14.Lemmas1 C14.Lemmas2.
Open Scope Z_scope.

Definition good (x : value) : Prop := match x with VErr _ => False | _ => True end.

(* ---------- views ---------- *)
Lemma collapse_idem : forall l idx, collapse l (collapse l idx) = collapse l idx.
Proof.
  induction l as [|[n b] l IH]; intros idx; simpl; [destruct idx; reflexivity|].
  destruct idx as [|i idx]; [reflexivity|]. simpl. destruct b; f_equal; apply IH.
Qed.

Lemma expand_collapse : forall v la ax idx, view_axes v la = Some ax ->
  collapse la (expand v (collapse ax idx)) = collapse la (expand v idx).
Proof.
  induction v as [|e v IH]; intros la ax idx H; simpl in *.
  - inversion H; subst. apply collapse_idem.
  - destruct la as [|[n b] la]; [destruct e; discriminate|].
    destruct e as [i|l].
    + destruct ((0 <=? i) && (i <? n)); [|discriminate]. simpl. f_equal. apply IH. exact H.
    + destruct (forallb (fun i => (0 <=? i) && (i <? n)) l); [|discriminate].
      destruct (view_axes v la) as [r|] eqn:E; [|discriminate]. inversion H; subst.
      destruct idx as [|j idx]; simpl; [reflexivity|].
      destruct b; simpl; f_equal; apply IH; exact E.
Qed.

Lemma view_axes_sizes : forall v la lb ax, map fst la = map fst lb -> view_axes v la = Some ax ->
  exists bx, view_axes v lb = Some bx /\ map fst bx = map fst ax.
Proof.
  induction v as [|e v IH]; intros la lb ax Hs H; simpl in *.
  - inversion H; subst. exists lb. split; [reflexivity | symmetry; exact Hs].
  - destruct la as [|[n b] la]; [destruct e; discriminate|].
    destruct lb as [|[m b'] lb]; [discriminate|]. simpl in Hs. inversion Hs as [[Hnm H1]]; subst m.
    destruct e as [i|l].
    + destruct ((0 <=? i) && (i <? n)); [|discriminate]. eapply IH; eassumption.
    + destruct (forallb (fun i => (0 <=? i) && (i <? n)) l); [|discriminate].
      destruct (view_axes v la) as [r|] eqn:E; [|discriminate]. inversion H; subst.
      destruct (IH la lb r H1 E) as (bx & Hb & Hm). rewrite Hb. eexists. split; [reflexivity|]. simpl. f_equal. exact Hm.
Qed.

Definition vshape (v : view) (full : list Z) : list Z :=
  match view_axes v (fresh_axes full) with Some ax => map fst ax | None => [] end.

Lemma apply_view_repr : forall v a x, apply_view v a = Some x ->
  repr x (vshape v (ashape a)) (fun idx => aget a (expand v idx)).
Proof.
  intros v a x H. unfold apply_view in H. destruct (view_axes v (axes a)) as [ax|] eqn:E; [|discriminate]. inversion H; subst x.
  assert (Hs : map fst (axes a) = map fst (fresh_axes (ashape a))) by (rewrite map_fst_fresh; reflexivity).
  destruct (view_axes_sizes v (axes a) (fresh_axes (ashape a)) ax Hs E) as (bx & Hb & Hm).
  split.
  - unfold vshape. rewrite Hb. unfold ashape at 1. cbn [axes]. symmetry. exact Hm.
  - intros idx _. unfold aget at 1. cbn [axes aval]. unfold aget. f_equal. eapply expand_collapse. exact E.
Qed.

(* ---------- expressions ---------- *)
Lemma eval_expr_ext : forall e env1 env2, (forall c, In c (leaves e) -> env1 c = env2 c) -> eval_expr e env1 = eval_expr e env2.
Proof.
  induction e as [c|q|o l IHl r IHr]; intros env1 env2 H; simpl.
  - apply H. left. reflexivity.
  - reflexivity.
  - f_equal; [apply IHl | apply IHr]; intros c Hc; apply H; simpl; apply in_app_iff; [left | right]; exact Hc.
Qed.

Lemma binary_good_l : forall o l r, good (binary_compute o l r) -> good l.
Proof. intros o l r H. destruct l; simpl in *; auto. Qed.
Lemma binary_good_r : forall o l r, good (binary_compute o l r) -> good r.
Proof. intros o l r H. destruct l, r; simpl in *; auto. Qed.

Lemma compute_ops_good : forall e leaf, good (compute_ops e leaf) -> forall c, In c (leaves e) -> good (leaf c).
Proof.
  induction e as [c0|q|o l IHl r IHr]; intros leaf H c Hc; simpl in *.
  - destruct Hc as [<-|[]]. exact H.
  - destruct Hc.
  - apply in_app_iff in Hc. destruct Hc as [Hc|Hc].
    + apply IHl; [eapply binary_good_l; exact H | exact Hc].
    + apply IHr; [eapply binary_good_r; exact H | exact Hc].
Qed.

Lemma compute_ops_ok : forall e leaf sh Fc, (forall c, In c (leaves e) -> vrepr (leaf c) sh (Fc c)) ->
  vrepr (compute_ops e leaf) sh (fun idx => eval_expr e (fun c => Fc c idx)).
Proof.
  induction e as [c0|q|o l IHl r IHr]; intros leaf sh Fc H; simpl.
  - apply H. left. reflexivity.
  - intros idx. reflexivity.
  - apply binary_compute_ok; [apply IHl | apply IHr]; intros c Hc; apply H; simpl; apply in_app_iff; [left | right]; exact Hc.
Qed.

(* ---------- parsed commands ---------- *)
Lemma In_dedup : forall l x, In x (dedup l) <-> In x l.
Proof.
  induction l as [|y l IH]; intros x; simpl; [tauto|].
  rewrite filter_In, IH, negb_true_iff, Z.eqb_neq. split.
  - intros [H|[H _]]; auto.
  - intros [H|H]; [left; exact H|]. destruct (Z.eq_dec y x); [left; assumption | right; split; [exact H | congruence]].
Qed.

Lemma assoc_env_map : forall ids (h : cid -> val) c, In c ids -> assoc_env ids (map h ids) c = h c.
Proof.
  induction ids as [|x ids IH]; intros h c H; [destruct H|].
  simpl. destruct (x =? c) eqn:E; [apply Z.eqb_eq in E; subst; reflexivity|].
  destruct H as [H|H]; [apply Z.eqb_neq in E; congruence|]. apply IH. exact H.
Qed.

Lemma first_err_none : forall l, first_err l = None -> forall x, In x l -> good x.
Proof.
  induction l as [|y l IH]; intros H x Hx; [destruct Hx|].
  destruct Hx as [<-|Hx]; [destruct y; simpl in *; auto; discriminate|].
  apply IH; [destruct y; simpl in H; try exact H; discriminate | exact Hx].
Qed.

Lemma first_arr_some : forall l a, first_arr l = Some a -> In (VArr a) l.
Proof.
  induction l as [|y l IH]; intros a H; [discriminate|]. destruct y; simpl in H; try (right; apply IH; exact H).
  inversion H; subst. left. reflexivity.
Qed.

Lemma first_arr_none : forall l, first_arr l = None -> forall a, ~ In (VArr a) l.
Proof.
  induction l as [|y l IH]; intros H a Hin; [destruct Hin|]. destruct y; simpl in H; try discriminate;
    (destruct Hin as [E|Hin]; [discriminate | eapply IH; eassumption]).
Qed.

Lemma compute_parsed_good : forall e leaf full v, good (compute_parsed e leaf full v) -> forall c, In c (leaves e) -> good (leaf c).
Proof.
  intros e leaf full v H c Hc. unfold compute_parsed in H.
  destruct (first_err (map leaf (dedup (leaves e)))) eqn:E; [destruct H|].
  eapply first_err_none; [exact E|]. apply in_map. apply In_dedup. exact Hc.
Qed.

Lemma compute_parsed_ok : forall e leaf full v sh Fc,
  sh = vshape v full ->
  (forall c, In c (leaves e) -> vrepr (leaf c) sh (Fc c)) ->
  good (compute_parsed e leaf full v) ->
  vrepr (compute_parsed e leaf full v) sh (fun idx => eval_expr e (fun c => Fc c idx)).
Proof.
  intros e leaf full v sh Fc Hsh H G. unfold compute_parsed in *.
  set (ids := dedup (leaves e)) in *. set (args := map leaf ids) in *.
  destruct (first_err args) eqn:E; [destruct G|].
  assert (Hpt : forall idx idx', (forall c, In c (leaves e) -> arg_at idx (leaf c) = Fc c idx') ->
                 eval_expr e (assoc_env ids (map (arg_at idx) args)) = eval_expr e (fun c => Fc c idx')).
  { intros idx idx' Ha. apply eval_expr_ext. intros c Hc. unfold args. rewrite map_map.
    rewrite (assoc_env_map ids (fun x => arg_at idx (leaf x)) c) by (apply In_dedup; exact Hc). apply Ha. exact Hc. }
  destruct (first_arr args) as [a0|] eqn:EA.
  - apply first_arr_some in EA. unfold args in EA. apply in_map_iff in EA. destruct EA as [c0 [E0 Hc0]].
    unfold ids in Hc0. apply -> In_dedup in Hc0. pose proof (H c0 Hc0) as R0. rewrite E0 in R0. destruct R0 as [S0 _].
    simpl. split.
    + unfold ashape at 1. cbn [axes]. rewrite map_fst_fresh. exact S0.
    + intros idx Hb. unfold aget at 1. cbn [axes aval]. rewrite collapse_fresh. apply Hpt.
      intros c Hc. pose proof (H c Hc) as R. destruct (leaf c) as [s|a|er]; simpl in *.
      * symmetry. apply R.
      * destruct R as [_ R]. apply R. exact Hb.
      * destruct R.
  - (* every reference evaluates to a scalar (or there is none) *)
    assert (Hsc : forall c, In c (leaves e) -> forall idx idx', arg_at idx (leaf c) = Fc c idx').
    { intros c Hc idx idx'. pose proof (H c Hc) as R. destruct (leaf c) as [s|a|er] eqn:El; simpl in *.
      - symmetry. apply R.
      - exfalso. eapply (first_arr_none args EA a). unfold args. rewrite <- El. apply in_map. apply In_dedup. exact Hc.
      - destruct R. }
    destruct (apply_view v (mkarr (fresh_axes full) (fun _ => eval_expr e (assoc_env ids (map (arg_at []) args))))) as [x|] eqn:EV; [|destruct G].
    apply apply_view_repr in EV. unfold ashape in EV at 1. cbn [axes] in EV. rewrite map_fst_fresh in EV.
    simpl. destruct EV as [S R]. split; [rewrite Hsh; exact S|].
    intros idx Hb. rewrite Hsh in Hb. rewrite (R idx Hb). unfold aget. cbn [aval]. apply Hpt.
    intros c Hc. apply Hsc. exact Hc.
Qed.
