(* C14 — ComponentLink.compute as REGENERATED from glue/core/component_link.py (coq/gen/Gen_linkcompute.v), instantiated with the
   model's arrays (Model.env_link), is the model's evaluation of a user-function link. *)
From Coq Require Import ZArith QArith List Bool.
Import ListNotations.
From GV Require Import Common.Wire gen.Gen_linkcompute C14.Model C14.Lemmas1.
Open Scope Z_scope.

Lemma lc_shape_eqb_refl : forall a, lc_shape_eqb a a = true.
Proof. induction a as [|x a IH]; [reflexivity|]. cbn [lc_shape_eqb]. rewrite Z.eqb_refl. exact IH. Qed.

Lemma broadcast_to_shape : forall a sh b, broadcast_to a sh = Some b -> ashape b = sh.
Proof.
  intros a sh b H. unfold broadcast_to in H. destruct (bcast_axes (axes a) sh) as [ax|] eqn:E; [|discriminate].
  injection H as <-. unfold ashape. cbn [axes]. eapply bcast_axes_shape. exact E.
Qed.

Section Fetch.
  Variables (e : dexpr) (ids : list cid) (leaf : cid -> value).

  Lemma fetch_all : forall l, (forall c s, In c l -> leaf c <> VScalar s) ->
    lc_map_m (fun f => lc_bind (lc_fetch (env_link e ids leaf) f) (fun v => LcOk v)) l
    = match first_err (map leaf l) with
      | Some er => LcErr er
      | None => match all_some (map the_arr (map leaf l)) with Some r => LcOk r | None => LcErr IndexError end
      end.
  Proof.
    induction l as [|c l IH]; intros H; [reflexivity|].
    assert (Hl : forall c0 s, In c0 l -> leaf c0 <> VScalar s) by (intros c0 s Hc; apply H; right; exact Hc).
    specialize (IH Hl).
    cbn [lc_map_m map first_err]. rewrite IH. clear IH.
    cbn [env_link lc_fetch].
    destruct (leaf c) as [s|a|er] eqn:El.
    - exfalso. apply (H c s (or_introl eq_refl)). exact El.
    - cbn [lc_bind the_arr all_some]. destruct (first_err (map leaf l)); [reflexivity|].
      destruct (all_some (map the_arr (map leaf l))); reflexivity.
    - reflexivity.
  Qed.
End Fetch.

(* whatever the link function's expression, for inputs that are arrays or errors (a bare scalar input is outside the domain of
   both), and with or without the "ravelled result" flag of the model *)
Lemma gen_compute_is_model : forall rv e leaf,
  (forall c s, In c (dedup (leaves e)) -> leaf c <> VScalar s) ->
  g_compute_func e leaf = compute_func rv e leaf.
Proof.
  intros rv e leaf H. unfold g_compute_func, compute_func, compute. cbv zeta.
  set (ids := dedup (leaves e)) in *.
  rewrite (fetch_all e ids leaf ids H).
  destruct (first_err (map leaf ids)) as [er|]; [reflexivity|].
  destruct (all_some (map the_arr (map leaf ids))) as [[|a0 rest]|]; cbn [lc_bind env_link lc_first]; try reflexivity.
  cbn [env_link lc_shape lc_unbroadcast lc_broadcast_arrays lc_using lc_asarray lc_first lc_set_shape lc_broadcast_to map].
  change (map (fun arg : arr => unbroadcast arg) rest) with (map unbroadcast rest).
  destruct (common_all (ashape (unbroadcast a0) :: map ashape (map unbroadcast rest))) as [cs|] eqn:Ec; cbn [lc_bind]; [|reflexivity].
  cbn [all_some].
  destruct (broadcast_to (unbroadcast a0) cs) as [b0|] eqn:Eb; cbn [lc_bind]; [|reflexivity].
  destruct (all_some (map (fun u => broadcast_to u cs) (map unbroadcast rest))) as [bs|] eqn:Er; cbn [lc_bind]; [|reflexivity].
  unfold ashape at 1. cbn [axes]. rewrite map_fst_fresh. rewrite lc_shape_eqb_refl. cbn [negb lc_bind].
  rewrite (broadcast_to_shape _ _ _ Eb).
  destruct (broadcast_to _ (ashape a0)); reflexivity.
Qed.
