(* C14 — executable model of derived attributes of glue.core.data.Data:
     * BinaryComponentLink.compute  (ComponentID arithmetic: unbroadcast -> broadcast_arrays -> op -> broadcast_to)
     * ComponentLink.compute        (user function: unbroadcast, n-ary broadcast, shape repair, broadcast_to)
     * ParsedCommand.evaluate       (parsed text expression: numpy arithmetic on the viewed inputs; constants expanded then viewed)
     * Data.remove_component cascade, Data.update_id (with the F-C14a repair), add_component(link)
   Values are rationals with a bottom element (division by zero, 0 ** negative, non-integer exponent: the
   "non-finite / inexact" class).  Arrays carry, per axis, their length and a "stride 0" flag.
   Definitions only; proofs are in Lemmas*.v. *)
From Coq Require Import ZArith QArith List Bool.
Import ListNotations.
From GV Require Import Common.Wire.
From GV Require gen.Gen_datamut.
From GV Require C14.ParseModel.
From GV Require gen.Gen_linkcompute.
Open Scope Z_scope.

Definition cid := Z.
Definition val := option Q.

Inductive bop := Add | Sub | Mul | Div | Pow.
Inductive dexpr := Cid (c : cid) | Const (q : Q) | Bin (o : bop) (l r : dexpr).

(* ---------- arithmetic with a bottom element ---------- *)
Fixpoint qpow_pos (a : Q) (n : nat) : Q := match n with O => 1%Q | S n' => (a * qpow_pos a n')%Q end.
Definition q_is_zero (a : Q) : bool := Qnum a =? 0.
Definition qop (o : bop) (x y : val) : val :=
  match x, y with
  | Some a, Some b =>
    match o with
    | Add => Some (a + b)%Q
    | Sub => Some (a - b)%Q
    | Mul => Some (a * b)%Q
    | Div => if q_is_zero b then None else Some (a / b)%Q
    | Pow =>
      let b' := Qred b in
      if negb (Zpos (Qden b') =? 1) then None                    (* non-integer exponent: outside the exact class *)
      else if (Qnum b' >? 64) || (Qnum b' <? -64) then None      (* huge exponent: outside the exact class as well *)
      else if Qnum b' >=? 0 then Some (qpow_pos a (Z.to_nat (Qnum b')))
      else if q_is_zero a then None
      else Some (qpow_pos (/ a)%Q (Z.to_nat (- Qnum b')))
    end
  | _, _ => None
  end.

(* ---------- arrays: per axis (length, stride-0 flag); the value function ignores flagged coordinates ---------- *)
Definition axis := (Z * bool)%type.
Record arr := mkarr { axes : list axis; aval : list Z -> val }.
Definition ashape (a : arr) : list Z := map fst (axes a).
Fixpoint collapse (ax : list axis) (idx : list Z) : list Z :=
  match ax, idx with
  | (_, b) :: ax', i :: idx' => (if b then 0 else i) :: collapse ax' idx'
  | _, _ => idx
  end.
Definition aget (a : arr) (idx : list Z) : val := aval a (collapse (axes a) idx).

Fixpoint zrange (n : nat) : list Z := match n with O => [] | S n' => zrange n' ++ [Z.of_nat n'] end.
Fixpoint all_indices (sh : list Z) : list (list Z) :=
  match sh with
  | [] => [[]]
  | n :: sh' => flat_map (fun i => map (cons i) (all_indices sh')) (zrange (Z.to_nat n))
  end.
Fixpoint flat_index (sh idx : list Z) : Z :=
  match sh, idx with
  | n :: sh', i :: idx' => i * fold_right Z.mul 1 sh' + flat_index sh' idx'
  | _, _ => 0
  end.

(* ---------- views: per axis an integer index or a list of selected positions (resolved slice) ---------- *)
Inductive ventry := VInt (i : Z) | VSel (l : list Z).
Definition view := list ventry.
(* index in the full array of the element at position idx of the view *)
Fixpoint expand (v : view) (idx : list Z) : list Z :=
  match v with
  | [] => idx
  | VInt i :: v' => i :: expand v' idx
  | VSel l :: v' => match idx with
                    | j :: idx' => nth (Z.to_nat j) l 0 :: expand v' idx'
                    | [] => []
                    end
  end.
Fixpoint view_axes (v : view) (ax : list axis) : option (list axis) :=
  match v, ax with
  | [], _ => Some ax
  | _ :: _, [] => None                                           (* too many indices *)
  | VInt i :: v', (n, _) :: ax' => if (0 <=? i) && (i <? n) then view_axes v' ax' else None
  | VSel l :: v', (n, b) :: ax' =>
    if forallb (fun i => (0 <=? i) && (i <? n)) l then
      match view_axes v' ax' with Some r => Some ((Z.of_nat (length l), b) :: r) | None => None end
    else None
  end.
Definition apply_view (v : view) (a : arr) : option arr :=
  match view_axes v (axes a) with
  | Some ax => Some (mkarr ax (fun idx => aget a (expand v idx)))
  | None => None
  end.

(* ---------- numpy pieces ---------- *)
Definition unbroadcast (a : arr) : arr :=
  mkarr (map (fun nb : axis => ((if snd nb then 1 else fst nb), false)) (axes a)) (aget a).
(* common shape of two shapes of the same rank; None = shapes cannot be broadcast *)
Fixpoint common_shape (s1 s2 : list Z) : option (list Z) :=
  match s1, s2 with
  | [], [] => Some []
  | n :: s1', m :: s2' =>
    match common_shape s1' s2' with
    | Some r => if n =? m then Some (n :: r) else if n =? 1 then Some (m :: r) else if m =? 1 then Some (n :: r) else None
    | None => None
    end
  | _, _ => None
  end.
(* np.broadcast_to(a, sh): same rank, each axis equal or of length 1 (then stride 0) *)
Fixpoint bcast_axes (ax : list axis) (sh : list Z) : option (list axis) :=
  match ax, sh with
  | [], [] => Some []
  | (n, b) :: ax', m :: sh' =>
    match bcast_axes ax' sh' with
    | Some r => if n =? m then Some ((m, b) :: r) else if n =? 1 then Some ((m, true) :: r) else None
    | None => None
    end
  | _, _ => None
  end.
Definition broadcast_to (a : arr) (sh : list Z) : option arr :=
  match bcast_axes (axes a) sh with
  | Some ax => Some (mkarr ax (aget a))
  | None => None
  end.
Definition fresh_axes (sh : list Z) : list axis := map (fun n => (n, false)) sh.

Inductive cerr := Incompatible | BroadcastError | IndexError | OutOfFuel | ShapeError.
Inductive value := VScalar (x : val) | VArr (a : arr) | VErr (e : cerr).

(* BinaryComponentLink.compute after the operands have been fetched *)
Definition binary_compute (o : bop) (l r : value) : value :=
  match l, r with
  | VErr e, _ => VErr e
  | _, VErr e => VErr e
  | VScalar x, VScalar y => VScalar (qop o x y)                  (* original_shape is None: the scalar is returned *)
  | VArr a, VScalar y =>
    let u := unbroadcast a in
    let res := mkarr (fresh_axes (ashape u)) (fun idx => qop o (aget u idx) y) in
    match broadcast_to res (ashape a) with Some x => VArr x | None => VErr BroadcastError end
  | VScalar x, VArr b =>
    let u := unbroadcast b in
    let res := mkarr (fresh_axes (ashape u)) (fun idx => qop o x (aget u idx)) in
    match broadcast_to res (ashape b) with Some x => VArr x | None => VErr BroadcastError end
  | VArr a, VArr b =>
    let original_shape := ashape b in                              (* the right operand's shape wins *)
    let ua := unbroadcast a in
    let ub := unbroadcast b in
    match common_shape (ashape ua) (ashape ub) with
    | None => VErr BroadcastError
    | Some cs =>
      match broadcast_to ua cs, broadcast_to ub cs with
      | Some a', Some b' =>
        let res := mkarr (fresh_axes cs) (fun idx => qop o (aget a' idx) (aget b' idx)) in
        match broadcast_to res original_shape with Some x => VArr x | None => VErr BroadcastError end
      | _, _ => VErr BroadcastError
      end
    end
  end.

(* the expression applied to one element *)
Fixpoint eval_expr (e : dexpr) (env : cid -> val) : val :=
  match e with
  | Cid c => env c
  | Const q => Some q
  | Bin o l r => qop o (eval_expr l env) (eval_expr r env)
  end.

Fixpoint leaves (e : dexpr) : list cid :=
  match e with Cid c => [c] | Const _ => [] | Bin _ l r => leaves l ++ leaves r end.
Fixpoint dedup (l : list cid) : list cid :=
  match l with [] => [] | x :: t => x :: filter (fun y => negb (y =? x)) (dedup t) end.

(* ---------- how a derived attribute is defined ---------- *)
Inductive how := HOps | HParsed | HFunc (ravel : bool).

(* ComponentID arithmetic: one BinaryComponentLink per node *)
Fixpoint compute_ops (e : dexpr) (leaf : cid -> value) : value :=
  match e with
  | Cid c => leaf c
  | Const q => VScalar (Some q)
  | Bin o l r => binary_compute o (compute_ops l leaf) (compute_ops r leaf)
  end.

Fixpoint first_err (l : list value) : option cerr :=
  match l with [] => None | VErr e :: _ => Some e | _ :: t => first_err t end.
Fixpoint first_arr (l : list value) : option arr :=
  match l with [] => None | VArr a :: _ => Some a | _ :: t => first_arr t end.
Definition assoc_env (ids : list cid) (vals : list val) (c : cid) : val :=
  (fix go (i : list cid) (v : list val) : val :=
     match i, v with
     | x :: i', y :: v' => if x =? c then y else go i' v'
     | _, _ => None
     end) ids vals.

(* ParsedCommand.evaluate: numpy arithmetic on data[ref, view]; a constant is expanded to the full shape, then viewed *)
Definition arg_at (idx : list Z) (x : value) : val :=
  match x with VArr a => aget a idx | VScalar s => s | VErr _ => None end.
Definition compute_parsed (e : dexpr) (leaf : cid -> value) (full : list Z) (v : view) : value :=
  let ids := dedup (leaves e) in
  let args := map leaf ids in
  let point (idx : list Z) := eval_expr e (assoc_env ids (map (arg_at idx) args)) in
  match first_err args with
  | Some er => VErr er
  | None =>
    match first_arr args with
    | None => (* no array among the references: scalar result -> ones(shape) * result, then [view] *)
      match apply_view v (mkarr (fresh_axes full) (fun _ => point [])) with
      | Some a => VArr a
      | None => VErr IndexError
      end
    | Some a0 => VArr (mkarr (fresh_axes (ashape a0)) point)
    end
  end.

(* ComponentLink.compute with a user function that evaluates e on its arguments (one per distinct input) *)
Fixpoint common_all (l : list (list Z)) : option (list Z) :=
  match l with
  | [] => None
  | [s] => Some s
  | s :: t => match common_all t with Some r => common_shape s r | None => None end
  end.
Definition the_arr (x : value) : option arr := match x with VArr a => Some a | _ => None end.
Fixpoint all_some {A} (l : list (option A)) : option (list A) :=
  match l with
  | [] => Some []
  | Some x :: t => match all_some t with Some r => Some (x :: r) | None => None end
  | None :: _ => None
  end.
Definition compute_func (ravel : bool) (e : dexpr) (leaf : cid -> value) : value :=
  let ids := dedup (leaves e) in
  let args := map leaf ids in
  match first_err args with
  | Some er => VErr er
  | None =>
    match all_some (map the_arr args) with
    | Some (a0 :: rest) =>
      let original_shape := ashape a0 in
      let us := map unbroadcast (a0 :: rest) in
      match common_all (map ashape us) with
      | None => VErr BroadcastError
      | Some cs =>
        match all_some (map (fun u => broadcast_to u cs) us) with
        | None => VErr BroadcastError
        | Some bs =>
          let point (idx : list Z) := eval_expr e (assoc_env ids (map (fun b => aget b idx) bs)) in
          (* the function may return a ravelled array ([ravel]); the code then sets result.shape = args[0].shape, which for a
             row-major array with the same number of elements is the identity on the element order: invisible here *)
          let res := mkarr (fresh_axes cs) point in
          match broadcast_to res original_shape with Some x => VArr x | None => VErr BroadcastError end
        end
      end
    | _ => VErr IndexError      (* no inputs, or an input that is a bare scalar: outside the domain *)
    end
  end.


(* ---------- ComponentLink.compute as REGENERATED from glue/core/component_link.py (coq/gen/Gen_linkcompute.v), instantiated with the
   model's arrays: the link function evaluates e point-wise on its (already broadcast) arguments and returns an array of their
   shape; ravel / reshape / `result.shape = s` do not occur in the unchanged function (ravel and reshape are the identity here,
   an assignment to .shape is an error: the lemma gen_compute_is_model shows it is never reached) ---------- *)
Definition env_link (e : dexpr) (ids : list cid) (leaf : cid -> value) : Gen_linkcompute.lc_env cid arr cerr := {|
  Gen_linkcompute.lc_fetch := fun c => match leaf c with
                                       | VArr a => Gen_linkcompute.LcOk a
                                       | VErr er => Gen_linkcompute.LcErr er
                                       | VScalar _ => Gen_linkcompute.LcErr IndexError
                                       end;
  Gen_linkcompute.lc_first := fun l => match l with a :: _ => Gen_linkcompute.LcOk a | [] => Gen_linkcompute.LcErr IndexError end;
  Gen_linkcompute.lc_shape := ashape;
  Gen_linkcompute.lc_unbroadcast := unbroadcast;
  Gen_linkcompute.lc_broadcast_arrays := fun us =>
    match common_all (map ashape us) with
    | None => Gen_linkcompute.LcErr BroadcastError
    | Some cs => match all_some (map (fun u => broadcast_to u cs) us) with
                 | None => Gen_linkcompute.LcErr BroadcastError
                 | Some bs => Gen_linkcompute.LcOk bs
                 end
    end;
  Gen_linkcompute.lc_using := fun bs =>
    Gen_linkcompute.LcOk (mkarr (fresh_axes (match bs with b :: _ => ashape b | [] => [] end))
                                (fun idx => eval_expr e (assoc_env ids (map (fun b => aget b idx) bs))));
  Gen_linkcompute.lc_asarray := fun a => a;
  Gen_linkcompute.lc_set_shape := fun _ _ => Gen_linkcompute.LcErr ShapeError;
  Gen_linkcompute.lc_broadcast_to := fun a sh => match broadcast_to a sh with
                                                 | Some x => Gen_linkcompute.LcOk x
                                                 | None => Gen_linkcompute.LcErr BroadcastError
                                                 end;
  Gen_linkcompute.lc_ravel := fun _ a => a;
  Gen_linkcompute.lc_reshape := fun a _ => Gen_linkcompute.LcOk a
|}.
Definition g_compute_func (e : dexpr) (leaf : cid -> value) : value :=
  match Gen_linkcompute.compute (env_link e (dedup (leaves e)) leaf) (dedup (leaves e)) with
  | Gen_linkcompute.LcOk a => VArr a
  | Gen_linkcompute.LcErr er => VErr er
  end.

(* ---------- the dataset ---------- *)
Inductive comp :=
| Stored (flags : list bool) (data : list val)   (* row-major data over the unbroadcast shape *)
| Pixel (k : Z)
| World (k : Z) (scale off : Q)
| Derived (h : how) (e : dexpr).
Record ds := mkds { dshape : list Z; dcomps : list (cid * comp) }.

Fixpoint assoc {A} (k : Z) (l : list (Z * A)) : option A :=
  match l with [] => None | (k', v) :: t => if k' =? k then Some v else assoc k t end.

Definition coord_axes (sh : list Z) (k : Z) : list axis :=
  map (fun ni : Z * Z => (fst ni, negb (snd ni =? k))) (combine sh (zrange (length sh))).
Definition stored_arr (sh : list Z) (flags : list bool) (data : list val) : arr :=
  let ax := combine sh flags in
  let small := map (fun nb : axis => if snd nb then 1 else fst nb) ax in
  mkarr ax (fun idx => nth (Z.to_nat (flat_index small idx)) data None).
Definition base_arr (sh : list Z) (c : comp) : option arr :=
  match c with
  | Stored fl data => Some (stored_arr sh fl data)
  | Pixel k => Some (mkarr (coord_axes sh k) (fun idx => Some (inject_Z (nth (Z.to_nat k) idx 0))))
  | World k sc off => Some (mkarr (coord_axes sh k) (fun idx => Some (sc * inject_Z (nth (Z.to_nat k) idx 0%Z) + off)%Q))
  | Derived _ _ => None
  end.

(* data[c, view] *)
Fixpoint get_data (fuel : nat) (d : ds) (v : view) (c : cid) : value :=
  match fuel with
  | O => VErr OutOfFuel
  | S f =>
    match assoc c (dcomps d) with
    | None => VErr Incompatible
    | Some (Derived h e) =>
      match h with
      | HOps => compute_ops e (get_data f d v)      (* a constant-only link returns the scalar, as the code does *)
      | HParsed => compute_parsed e (get_data f d v) (dshape d) v
      | HFunc rv => compute_func rv e (get_data f d v)
      end
    | Some k =>
      match base_arr (dshape d) k with
      | Some a => match apply_view v a with Some x => VArr x | None => VErr IndexError end
      | None => VErr Incompatible
      end
    end
  end.

(* the meaning: value of attribute c at the full index idx *)
Fixpoint sem (fuel : nat) (d : ds) (c : cid) (idx : list Z) : val :=
  match fuel with
  | O => None
  | S f =>
    match assoc c (dcomps d) with
    | None => None
    | Some (Derived _ e) => eval_expr e (fun c' => sem f d c' idx)
    | Some k => match base_arr (dshape d) k with Some a => aget a idx | None => None end
    end
  end.

(* ---------- structure: add / remove (cascade) / update_id ---------- *)
Definition keys {A} (l : list (Z * A)) : list Z := map fst l.
Definition memz (x : Z) (l : list Z) : bool := existsb (Z.eqb x) l.
Definition from_ids (k : comp) : list cid := match k with Derived _ e => leaves e | _ => [] end.
Definition depends_on (c : cid) (ck : cid * comp) : bool := memz c (from_ids (snd ck)).
Definition del_key {A} (k : Z) (l : list (Z * A)) : list (Z * A) := filter (fun kv => negb (fst kv =? k)) l.

Fixpoint remove_fuel (n : nat) (c : cid) (l : list (cid * comp)) : list (cid * comp) :=
  match n with
  | O => l
  | S n' =>
    if memz c (keys l) then
      let l1 := del_key c l in
      let deps := keys (filter (depends_on c) l1) in
      fold_left (fun acc d => remove_fuel n' d acc) deps l1
    else l
  end.
Definition remove_component (c : cid) (d : ds) : ds := mkds (dshape d) (remove_fuel (length (dcomps d)) c (dcomps d)).

Fixpoint rename_expr (o n : cid) (e : dexpr) : dexpr :=
  match e with
  | Cid c => Cid (if c =? o then n else c)
  | Const q => Const q
  | Bin op l r => Bin op (rename_expr o n l) (rename_expr o n r)
  end.
Definition rename_comp (o n : cid) (k : comp) : comp :=
  match k with Derived h e => Derived h (rename_expr o n e) | _ => k end.
(* Data.update_id with the F-C14a repair: keys and the links of all derived components are re-targeted *)
Definition update_id (o n : cid) (d : ds) : ds :=
  if (o =? n) || negb (memz o (keys (dcomps d))) || memz n (keys (dcomps d)) then d
  else mkds (dshape d) (map (fun ck => ((if fst ck =? o then n else fst ck), rename_comp o n (snd ck))) (dcomps d)).

Definition subsetz (a b : list Z) : bool := forallb (fun x => memz x b) a.
(* add_component(link, label): only internal inputs; the id is new *)
Definition add_derived (c : cid) (h : how) (e : dexpr) (d : ds) : option ds :=
  if memz c (keys (dcomps d)) then None
  else if negb (subsetz (leaves e) (keys (dcomps d))) then None
  else Some (mkds (dshape d) (dcomps d ++ [(c, Derived h e)])).

(* add_component_link(link, label = existing id): the derived attribute is re-defined in place (keeps its slot) *)
Definition redefine (c : cid) (h : how) (e : dexpr) (d : ds) : option ds :=
  if negb (memz c (keys (dcomps d))) then None
  else if negb (subsetz (leaves e) (keys (dcomps d))) then None
  else Some (mkds (dshape d) (map (fun ck => if fst ck =? c then (c, Derived h e) else ck) (dcomps d))).
(* Data.reorder_components(l): l must be a permutation of the ids *)
Definition reorder (l : list cid) (d : ds) : option ds :=
  if negb (Nat.eqb (length l) (length (dcomps d))) || negb (subsetz l (keys (dcomps d))) || negb (subsetz (keys (dcomps d)) l) then None
  else Some (mkds (dshape d) (map (fun c => (c, match assoc c (dcomps d) with Some k => k | None => Pixel (-1) end)) l)).


(* ---------- the same mutations through Data.remove_component / _removed_derived_that_depend_on / update_id /
   reorder_components as REGENERATED from glue/core/data.py on every run (coq/gen/Gen_datamut.v), instantiated with the
   component table as the whole object state (no hub, no pixel / world id lists) ---------- *)
Definition is_derived_comp (k : comp) : bool := match k with Derived _ _ => true | _ => false end.
Fixpoint map_expr (g : cid -> cid) (e : dexpr) : dexpr :=
  match e with
  | Cid c => Cid (g c)
  | Const q => Const q
  | Bin op l r => Bin op (map_expr g l) (map_expr g r)
  end.
(* what a mutator of link objects (seen as (from ids, to id)) does to one id *)
Definition on_id (f : list Z * Z -> list Z * Z) (c : cid) : cid := match fst (f ([c], c)) with [x] => x | _ => c end.
Definition env14 : Gen_datamut.dm_env (list (cid * comp)) comp unit unit := {|
  Gen_datamut.dm_K_default := Pixel (-1);
  Gen_datamut.dm_get_components := fun l => l;
  Gen_datamut.dm_set_components := fun v _ => v;
  Gen_datamut.dm_get_pixel_component_ids := fun _ => [];
  Gen_datamut.dm_set_pixel_component_ids := fun _ l => l;
  Gen_datamut.dm_get_world_component_ids := fun _ => [];
  Gen_datamut.dm_set_world_component_ids := fun _ l => l;
  Gen_datamut.dm_get_shape := fun _ => [];
  Gen_datamut.dm_set_shape := fun _ l => l;
  Gen_datamut.dm_hub_is_none := fun _ => true;
  Gen_datamut.dm_broadcast := fun _ l => l;
  Gen_datamut.dm_clear_mask_caches := fun l => l;
  Gen_datamut.dm_is_derived := is_derived_comp;
  Gen_datamut.dm_link_from_ids := from_ids;
  Gen_datamut.dm_comp_shape := fun _ _ => [];
  Gen_datamut.dm_get_component := fun l c => Gen_datamut.dm_getitem (Pixel (-1)) l c;
  Gen_datamut.dm_resolve_component := fun _ _ => None;
  Gen_datamut.dm_set_data := fun _ _ l => l;
  Gen_datamut.dm_data_shape := fun _ => [];
  Gen_datamut.dm_parent_is_none := fun _ _ => false;
  Gen_datamut.dm_set_parent := fun _ l => l;
  Gen_datamut.dm_map_links := fun f l =>
    map (fun ck => (fst ck, match snd ck with Derived h e => Derived h (map_expr (on_id f) e) | k => k end)) l;
  Gen_datamut.dm_out_of_fuel := fun _ l => l
|}.
Definition g_remove_fuel (n : nat) (c : cid) (l : list (cid * comp)) : list (cid * comp) :=
  Gen_datamut.remove_component env14 n c l.
Definition g_remove_component (c : cid) (d : ds) : ds := mkds (dshape d) (g_remove_fuel (length (dcomps d)) c (dcomps d)).
Definition g_update_id (o n : cid) (d : ds) : ds := mkds (dshape d) (Gen_datamut.update_id env14 o n (dcomps d)).
Definition g_reorder (l : list cid) (d : ds) : option ds :=
  match Gen_datamut.reorder_components env14 l (dcomps d) with
  | (l', Gen_datamut.DmOk) => Some (mkds (dshape d) l')
  | _ => None
  end.

(* ---------- wire ---------- *)
Definition dec_q (t : tree) : Q :=
  match t with T _ [T n _; T d _] => Qmake n (Z.to_pos d) | _ => 0%Q end.
Definition dec_val (t : tree) : val := match t with T 0 _ => None | _ => Some (dec_q t) end.
Definition dec_bop (z : Z) : bop := if z =? 0 then Add else if z =? 1 then Sub else if z =? 2 then Mul else if z =? 3 then Div else Pow.
Fixpoint dec_expr (t : tree) : dexpr :=
  match t with
  | T 1 [T c _] => Cid c
  | T 2 [q] => Const (dec_q q)
  | T 3 [T o _; l; r] => Bin (dec_bop o) (dec_expr l) (dec_expr r)
  | _ => Const 0%Q
  end.
Definition dec_how (z : Z) : how := if z =? 0 then HOps else if z =? 1 then HParsed else if z =? 2 then HFunc false else HFunc true.
Definition dec_comp (t : tree) : comp :=
  match t with
  | T 1 [fl; T _ data] => Stored (to_bools fl) (map dec_val data)
  | T 2 [T k _] => Pixel k
  | T 3 [T k _; sc; off] => World k (dec_q sc) (dec_q off)
  | T 4 [T h _; e] => Derived (dec_how h) (dec_expr e)
  | _ => Pixel (-1)
  end.
Definition dec_ventry (t : tree) : ventry :=
  match t with T 1 [T i _] => VInt i | T _ l => VSel (map tag l) end.

Definition enc_q (q : Q) : tree := let r := Qred q in T 1 [leaf (Qnum r); leaf (Zpos (Qden r))].
Definition enc_val (x : val) : tree := match x with None => T 0 [] | Some q => enc_q q end.
Definition enc_err (e : cerr) : tree :=
  match e with Incompatible => err 3 | BroadcastError => err 6 | IndexError => err 4 | OutOfFuel => err 99 | ShapeError => err 7 end.
Definition enc_value (x : value) : tree :=
  match x with
  | VErr e => enc_err e
  | VScalar s => T 2 [enc_val s]
  | VArr a => T 1 [zs (ashape a); T 0 (map (fun idx => enc_val (aget a idx)) (all_indices (ashape a)))]
  end.

Inductive op :=
| OAdd (c : cid) (h : how) (e : dexpr)
| ORemove (c : cid)
| OUpdateId (o n : cid)
| OQuery (c : cid) (v : view)
| ORedefine (c : cid) (h : how) (e : dexpr)
| OReorder (l : list cid).
Definition dec_op (t : tree) : option op :=
  match t with
  | T 1 [T c _; T h _; e] => Some (OAdd c (dec_how h) (dec_expr e))
  | T 2 [T c _] => Some (ORemove c)
  | T 3 [T o _; T n _] => Some (OUpdateId o n)
  | T 4 [T c _; T _ v] => Some (OQuery c (map dec_ventry v))
  | T 5 [T c _; T h _; e] => Some (ORedefine c (dec_how h) (dec_expr e))
  | T 6 [l] => Some (OReorder (to_zs l))
  | _ => None
  end.

Definition enc_struct (d : ds) : tree :=
  T 0 (map (fun ck => T 0 [leaf (fst ck); zs (from_ids (snd ck))]) (dcomps d)).

Fixpoint run_ops (gen : bool) (ops : list tree) (d : ds) : list tree :=
  match ops with
  | [] => []
  | t :: r =>
    match dec_op t with
    | None => [err (-2)]
    | Some (OAdd c h e) =>
      match add_derived c h e d with
      | Some d' => T 1 [enc_struct d'] :: run_ops gen r d'
      | None => err 1 :: run_ops gen r d
      end
    | Some (ORemove c) => let d' := (if gen then g_remove_component c d else remove_component c d) in T 1 [enc_struct d'] :: run_ops gen r d'
    | Some (OUpdateId o n) => let d' := (if gen then g_update_id o n d else update_id o n d) in T 1 [enc_struct d'] :: run_ops gen r d'
    | Some (OQuery c v) => T 2 [enc_value (get_data (S (length (dcomps d))) d v c)] :: run_ops gen r d
    | Some (ORedefine c h e) =>
      match redefine c h e d with
      | Some d' => T 1 [enc_struct d'] :: run_ops gen r d'
      | None => err 1 :: run_ops gen r d
      end
    | Some (OReorder l) =>
      match (if gen then g_reorder l d else reorder l d) with
      | Some d' => T 1 [enc_struct d'] :: run_ops gen r d'
      | None => err 1 :: run_ops gen r d
      end
    end
  end.

(* case = (1|2 shape comps ops) ; comps = ((cid comp) ...) *)
Definition run_case (t : tree) : tree :=
  match t with
  | T 1 [sh; T _ cs; T _ ops] =>
    let d := mkds (to_zs sh) (map (fun k => (tag (kid 0 k), dec_comp (kid 1 k))) cs) in
    T 0 (run_ops false ops d)
  (* the same case with remove / update_id / reorder taken from the generated code *)
  | T 2 [sh; T _ cs; T _ ops] =>
    let d := mkds (to_zs sh) (map (fun k => (tag (kid 0 k), dec_comp (kid 1 k))) cs) in
    T 0 (run_ops true ops d)
  (* the tag grammar of parsed commands (ParseModel.v, coq/gen/Gen_parse.v) *)
  | T 3 [s] => ParseModel.parse_tokens_case s
  | T 4 [s; refs] => ParseModel.parse_validate_case s refs
  | _ => err (-2)
  end.
