(* C14 — non-vacuity and sanity runs *)
From Coq Require Import ZArith QArith List Bool.
Import ListNotations.
From GV Require Import Common.Wire gen.Gen_parse C14.ParseModel C14.Model C14.Lemmas C14.GenEquiv C14.ParseLemmas.
Open Scope Z_scope.

(* a 2 x 3 dataset: pixel attributes 0, 1; a plain stored attribute 2; a stored attribute 3 that is broadcast along
   axis 0; derived attributes: 4 = (2 + 3) * pixel1 by operators, 5 = {4} / {3} as parsed text, 6 = f(5, 0) user function *)
Definition q (n : Z) : val := Some (inject_Z n).
Definition d0 : ds :=
  mkds [2; 3]
       [ (0, Pixel 0); (1, Pixel 1);
         (2, Stored [false; false] [q 1; q 2; q 3; q 4; q 5; q 6]);
         (3, Stored [true; false] [q 2; q 0; q 4]);
         (4, Derived HOps (Bin Mul (Bin Add (Cid 2) (Cid 3)) (Cid 1)));
         (5, Derived HParsed (Bin Div (Cid 4) (Cid 3)));
         (6, Derived (HFunc true) (Bin Sub (Cid 5) (Cid 0))) ].

Example d0_wf : wf_ds d0.
Proof. intros c fl data H. simpl in H. repeat (destruct H as [H|H]; [inversion H; reflexivity|]). destruct H. Qed.

Definition v0 : view := [VSel [1; 0]; VSel [2; 0]].    (* data[c, ::-1, ::-2] *)
Definition show (x : value) : list (option (Z * positive)) :=
  match x with
  | VArr a => map (fun idx => option_map (fun r => (Qnum (Qred r), Qden (Qred r))) (aget a idx)) (all_indices (ashape a))
  | _ => []
  end.
(* the hypothesis of derived_value is met: reading through the view yields an array *)
Example reads_array : exists a, get_data (S (length (dcomps d0))) d0 v0 6 = VArr a.
Proof. eexists. reflexivity. Qed.
Eval vm_compute in (show (get_data 8 d0 [] 4), show (get_data 8 d0 [] 5), show (get_data 8 d0 v0 6)).
(* the meaning, element by element (division by the zero of attribute 3 gives the bottom element) *)
Eval vm_compute in (map (fun idx => option_map (fun r => (Qnum (Qred r), Qden (Qred r))) (sem 8 d0 6 (expand v0 idx))) (all_indices [2; 2])).
Example value_agrees : forall idx, In idx (all_indices [2; 2]) ->
  match get_data 8 d0 v0 6 with VArr a => aget a idx | _ => None end = sem 8 d0 6 (expand v0 idx).
Proof. intros idx H. simpl in H. repeat (destruct H as [<-|H]; [vm_compute; reflexivity|]). destruct H. Qed.

(* removing attribute 3 removes 4, 5, 6 (transitively) and nothing else; the rest keeps order *)
Eval vm_compute in (keys (dcomps (remove_component 3 d0)), keys (dcomps (remove_component 0 d0)), keys (dcomps (remove_component 5 d0))).
Example closure_hyp : NoDup (keys (dcomps d0)) /\ In 3 (keys (dcomps d0)).
Proof. split; [repeat constructor; simpl; intuition discriminate | simpl; tauto]. Qed.
Example dep_6_on_3 : dependent (dcomps d0) 3 6.
Proof.
  eapply dep_step with (y := 5); [eapply dep_step with (y := 4); [eapply dep_step with (y := 3); [apply dep_self | |] | |] | |];
    simpl; try (right; right; right; right; left; reflexivity); try (right; right; right; right; right; left; reflexivity);
    try (right; right; right; right; right; right; left; reflexivity); simpl; tauto.
Qed.

(* update_id 2 -> 9 keeps order and the derived values *)
Eval vm_compute in (keys (dcomps (update_id 2 9 d0)), show (get_data 8 (update_id 2 9 d0) [] 6), show (get_data 8 d0 [] 6)).

(* ---- the generated cascade (Gen_datamut.remove_component through env14) removes the same attributes ---- *)
Eval vm_compute in (keys (dcomps (g_remove_component 3 d0)), keys (dcomps (g_remove_component 0 d0)), keys (dcomps (g_remove_component 5 d0))).
Example generated_cascade_same : g_remove_component 3 d0 = remove_component 3 d0 /\ length (dcomps (g_remove_component 3 d0)) = 3%nat.
Proof. split; vm_compute; reflexivity. Qed.
Example generated_update_id_same : keys (dcomps (g_update_id 2 9 d0)) = keys (dcomps (update_id 2 9 d0)).
Proof. vm_compute. reflexivity. Qed.

(* ---- parsed commands: "{ a } + {a}*{a b }" with a -> object 1 (uuid "u1"), "a b" -> object 2 (uuid "u2") ---- *)
Definition uu (o : Z) : list Z := [117; 48 + o].
Definition tbl : list (list Z * Z) := [([97], 1); ([97; 32; 98], 2)].
Definition cmd0 : list Z := [123; 32; 97; 32; 125; 32; 43; 32; 123; 97; 125; 42; 123; 97; 32; 98; 32; 125].
Eval vm_compute in (tokenize cmd0, spans 0 (tokenize cmd0)).
Eval vm_compute in (_validate 0 uu cmd0 tbl).
Example validate_example :
  exists toks' refs', validate_tokens 0 uu (tokenize cmd0) tbl = Some (toks', refs')
    /\ _validate 0 uu cmd0 tbl = Some (detok toks', refs')
    /\ deref refs' toks' = deref tbl (tokenize cmd0)
    /\ deref tbl (tokenize cmd0) = [PObj (Some 1); PText [32; 43; 32]; PObj (Some 1); PText [42]; PObj (Some 2)].
Proof. eexists. eexists. repeat split; vm_compute; reflexivity. Qed.
(* the hypotheses of validate_tokens_meaning hold for it *)
Example validate_hyps :
  (forall raw, In raw (raws (tokenize cmd0)) -> strip (uu (obj_of 0 tbl raw)) = uu (obj_of 0 tbl raw)) /\
  (forall a b, In a (raws (tokenize cmd0)) -> In b (raws (tokenize cmd0)) -> uu (obj_of 0 tbl a) <> b).
Proof.
  split.
  - intros raw H. vm_compute in H. repeat (destruct H as [<-|H]; [vm_compute; reflexivity|]). destruct H.
  - intros a b Ha Hb. vm_compute in Ha, Hb.
    repeat (destruct Ha as [<-|Ha]; [repeat (destruct Hb as [<-|Hb]; [vm_compute; discriminate|]); destruct Hb|]). destruct Ha.
Qed.
(* an unknown tag raises *)
Eval vm_compute in (_validate 0 uu [123; 122; 125] tbl).
