(* Facts about the fixed prelude of coq/gen/Gen_datamut.v (Python list / ordered-dict primitives) that do not depend
   on any instance of the object state.  Used by C14/GenEquiv.v and C17/GenEquiv.v. *)
From Coq Require Import ZArith List Bool Lia.
Import ListNotations.
From GV Require Import gen.Gen_datamut.
Open Scope Z_scope.

(* the "collect" loop:  for x in l: if p(x): acc.append(x) *)
Lemma fold_collect : forall (p : Z -> bool) l acc,
  fold_left (fun (remove : list Z) cid => if p cid then remove ++ [cid] else remove) l acc = acc ++ filter p l.
Proof.
  intros p l. induction l as [|x l IH]; intros acc; cbn [fold_left filter].
  - rewrite app_nil_r. reflexivity.
  - rewrite IH. destruct (p x); [rewrite <- app_assoc; reflexivity | reflexivity].
Qed.

Lemma dm_mem_In : forall x l, dm_mem x l = true <-> In x l.
Proof.
  intros x l. unfold dm_mem. rewrite existsb_exists. split.
  - intros [y [H1 H2]]. apply Z.eqb_eq in H2. subst. exact H1.
  - intros H. exists x. split; [exact H | apply Z.eqb_refl].
Qed.

Lemma dm_get_In : forall A (l : list (Z * A)) k v, NoDup (dm_keys l) -> In (k, v) l -> dm_get k l = Some v.
Proof.
  intros A l k v. induction l as [|[k' v'] l IH]; intros ND Hin; [destruct Hin|].
  cbn [dm_get]. cbn [dm_keys map fst] in ND. inversion ND as [|? ? Hn ND']; subst.
  destruct Hin as [Hin|Hin].
  - inversion Hin; subst. rewrite Z.eqb_refl. reflexivity.
  - destruct (k' =? k) eqn:E.
    + apply Z.eqb_eq in E. subst. exfalso. apply Hn. change (In k (map fst l)). apply in_map_iff. exists (k, v). split; [reflexivity | exact Hin].
    + apply IH; assumption.
Qed.

Lemma dm_get_None : forall A (l : list (Z * A)) k, ~ In k (dm_keys l) -> dm_get k l = None.
Proof.
  intros A l k. induction l as [|[k' v'] l IH]; intros Hn; [reflexivity|].
  cbn [dm_get]. cbn [dm_keys map fst] in Hn. destruct (k' =? k) eqn:E.
  - apply Z.eqb_eq in E. subst. exfalso. apply Hn. left. reflexivity.
  - apply IH. intros H. apply Hn. right. exact H.
Qed.

(* [c for c in d.keys() if P(d[c])]  =  the keys of the items whose value satisfies P *)
Lemma filter_keys_getitem_gen : forall A (dflt : A) (P : A -> bool) (l0 l : list (Z * A)),
  (forall k v, In (k, v) l -> dm_get k l0 = Some v) ->
  filter (fun c => P (dm_getitem dflt l0 c)) (dm_keys l) = dm_keys (filter (fun ck => P (snd ck)) l).
Proof.
  intros A dflt P l0 l. induction l as [|[k v] l IH]; intros Hall; [reflexivity|].
  cbn [dm_keys map fst filter snd].
  assert (E : dm_getitem dflt l0 k = v) by (unfold dm_getitem; rewrite (Hall k v (or_introl eq_refl)); reflexivity).
  rewrite E. fold (dm_keys l).
  rewrite IH by (intros k2 v2 H; apply Hall; right; exact H).
  destruct (P v); reflexivity.
Qed.

Lemma filter_keys_getitem : forall A (dflt : A) (P : A -> bool) (l : list (Z * A)), NoDup (dm_keys l) ->
  filter (fun c => P (dm_getitem dflt l c)) (dm_keys l) = dm_keys (filter (fun ck => P (snd ck)) l).
Proof. intros A dflt P l ND. apply filter_keys_getitem_gen. intros k v H. apply dm_get_In; assumption. Qed.

(* the same with a second test that reads the value again *)
Lemma filter_keys_getitem2 : forall A (dflt : A) (P Q : A -> bool) (l : list (Z * A)), NoDup (dm_keys l) ->
  filter (fun c => Q (dm_getitem dflt l c)) (filter (fun c => P (dm_getitem dflt l c)) (dm_keys l))
  = dm_keys (filter (fun ck => P (snd ck) && Q (snd ck)) l).
Proof.
  intros A dflt P Q l ND.
  assert (F : forall (f g : Z -> bool) (m : list Z), filter f (filter g m) = filter (fun x => g x && f x) m).
  { intros f g m. induction m as [|a m IH]; [reflexivity|]. cbn [filter]. destruct (g a); cbn [filter andb]; rewrite IH; reflexivity. }
  rewrite F. apply (filter_keys_getitem A dflt (fun v => P v && Q v) l ND).
Qed.

(* OrderedDict(pairs) of pairs with distinct keys is that list of items *)
Lemma dm_setitem_fresh : forall A k (v : A) l, ~ In k (dm_keys l) -> dm_setitem k v l = l ++ [(k, v)].
Proof.
  intros A k v l. induction l as [|[k' v'] l IH]; intros Hn; [reflexivity|].
  cbn [dm_setitem app]. cbn [dm_keys map fst] in Hn. destruct (k' =? k) eqn:E.
  - apply Z.eqb_eq in E. subst. exfalso. apply Hn. left. reflexivity.
  - rewrite IH; [reflexivity|]. intros H. apply Hn. right. exact H.
Qed.

Lemma dm_keys_app : forall A (a b : list (Z * A)), dm_keys (a ++ b) = dm_keys a ++ dm_keys b.
Proof. intros. unfold dm_keys. apply map_app. Qed.

Lemma dm_of_pairs_nodup : forall A (l : list (Z * A)), NoDup (dm_keys l) -> dm_of_pairs l = l.
Proof.
  intros A l ND. unfold dm_of_pairs.
  assert (G : forall (m acc : list (Z * A)), NoDup (dm_keys (acc ++ m)) ->
              fold_left (fun d kv => dm_setitem (fst kv) (snd kv) d) m acc = acc ++ m).
  { induction m as [|[k v] m IH]; intros acc H; cbn [fold_left fst snd].
    - rewrite app_nil_r. reflexivity.
    - assert (Hn : ~ In k (dm_keys acc)).
      { rewrite dm_keys_app in H. cbn [dm_keys map fst] in H. apply NoDup_remove_2 in H. intros Hk. apply H. apply in_or_app. left. exact Hk. }
      rewrite dm_setitem_fresh by exact Hn. rewrite IH.
      + rewrite <- app_assoc. reflexivity.
      + rewrite <- app_assoc. exact H. }
  apply (G l []). exact ND.
Qed.
