(* C14 — ComponentLink.compute with a user function: n-ary unbroadcast / broadcast / broadcast_to *)
From Coq Require Import ZArith QArith List Bool Lia.
Import ListNotations.
From GV Require Import Common.Wire C14.Model C14.Lemmas1 C14.Lemmas2 C14.Lemmas3.
Open Scope Z_scope.

(* cs is a possible common shape for an operand with axes la: per axis the full length or 1, the full length when the
   operand is not broadcast along that axis *)
Definition agrees (la : list axis) (cs : list Z) : Prop :=
  Forall2 (fun (nf : axis) c => (c = fst nf \/ c = 1) /\ (snd nf = false -> c = fst nf)) la cs.

Lemma agrees_self : forall la, agrees la (map fst (unb la)).
Proof.
  induction la as [|[n f] la IH]; simpl; constructor; [|exact IH].
  simpl. destruct f; split; auto; intros; discriminate.
Qed.

Lemma common_agrees : forall la cs', agrees la cs' \/ True -> forall sh, map fst la = sh ->
  Forall2 (fun n c => c = n \/ c = 1) sh cs' ->
  exists cs, common_shape (map fst (unb la)) cs' = Some cs /\ agrees la cs /\
             Forall2 (fun n c => c = n \/ c = 1) sh cs /\
             (forall lb, map fst lb = sh -> agrees lb cs' -> agrees lb cs).
Proof.
  induction la as [|[n f] la IH]; intros cs' _ sh Hs Hr; simpl in Hs; subst sh.
  - inversion Hr; subst. exists []. simpl. repeat split; try constructor.
    intros lb Hl _. destruct lb; [constructor | discriminate].
  - inversion Hr as [|? c' ? cs'' Hc' Hr']; subst.
    destruct (IH cs'' (or_intror I) (map fst la) eq_refl Hr') as (cs & Hc & Ha & Hf & Hm).
    cbn [unb map fst snd common_shape]. fold (unb la). rewrite Hc.
    set (ua := if f then 1 else n).
    assert (Hx : exists c, (if ua =? c' then Some (ua :: cs) else if ua =? 1 then Some (c' :: cs) else if c' =? 1 then Some (ua :: cs) else None) = Some (c :: cs)
                          /\ (c = n \/ c = 1) /\ (f = false -> c = n) /\ (c' = n -> c = n) /\ (c = c' \/ c' = 1)).
    { unfold ua. destruct f; cbv iota.
      - destruct (1 =? c') eqn:E.
        + apply Z.eqb_eq in E. subst c'. exists 1. repeat split; auto; intros; try discriminate; try congruence.
        + rewrite Z.eqb_refl. exists c'. repeat split; auto; intros; try discriminate; try congruence.
      - destruct (n =? c') eqn:E.
        + apply Z.eqb_eq in E. subst c'. exists n. repeat split; auto.
        + apply Z.eqb_neq in E. destruct Hc' as [Hc'|Hc']; [congruence|]. subst c'.
          destruct (n =? 1) eqn:E1; [apply Z.eqb_eq in E1; congruence|]. rewrite Z.eqb_refl.
          exists n. repeat split; auto; intros; try congruence. }
    destruct Hx as (c & Hcc & Hcn & Hcf & Hcm & Hcc'). fold ua. rewrite Hcc.
    exists (c :: cs). split; [reflexivity|]. split; [|split].
    + constructor; [simpl; split; assumption | exact Ha].
    + constructor; assumption.
    + intros lb Hl Hb. destruct lb as [|[m g] lb]; [discriminate|]. simpl in Hl. inversion Hl; subst m.
      inversion Hb as [|? ? ? ? [Hb1 Hb2] Hb']; subst. simpl in *. constructor.
      * simpl. split; [exact Hcn|]. intros Hg. apply Hcm. apply Hb2. exact Hg.
      * apply Hm; assumption.
Qed.

Lemma common_all_agrees : forall (L : list (list axis)) sh, L <> [] -> (forall la, In la L -> map fst la = sh) ->
  exists cs, common_all (map (fun la => map fst (unb la)) L) = Some cs /\
             Forall2 (fun n c => c = n \/ c = 1) sh cs /\ forall la, In la L -> agrees la cs.
Proof.
  induction L as [|la L IH]; intros sh Hne Hs; [congruence|].
  destruct L as [|lb L'].
  - exists (map fst (unb la)). simpl. split; [reflexivity|]. split.
    + rewrite <- (Hs la (or_introl eq_refl)). clear. induction la as [|[n f] la IH]; simpl; constructor; [destruct f; auto | exact IH].
    + intros x [<-|[]]. apply agrees_self.
  - destruct (IH sh) as (cs' & Hc' & Hr' & Ha'); [discriminate | intros x Hx; apply Hs; right; exact Hx|].
    destruct (common_agrees la cs' (or_intror I) sh (Hs la (or_introl eq_refl)) Hr') as (cs & Hc & Ha & Hr & Hm).
    exists cs. split.
    + change (common_all (map (fun la0 => map fst (unb la0)) (la :: lb :: L')))
        with (match common_all (map (fun la0 => map fst (unb la0)) (lb :: L')) with
              | Some r => common_shape (map fst (unb la)) r | None => None end).
      rewrite Hc'. exact Hc.
    + split; [exact Hr|]. intros x [<-|Hx]; [exact Ha|]. apply Hm; [apply Hs; right; exact Hx | apply Ha'; exact Hx].
Qed.

Lemma agrees_bcast : forall la cs, agrees la cs ->
  exists a' fin, bcast_axes (unb la) cs = Some a' /\ bcast_axes (fresh_axes cs) (map fst la) = Some fin /\
    forall idx, in_box (map fst la) idx -> collapse la (collapse a' (collapse fin idx)) = collapse la idx.
Proof.
  induction la as [|[n f] la IH]; intros cs H; inversion H as [|? c ? cs' [Hc1 Hc2] H']; subst.
  - exists [], []. repeat split.
  - destruct (IH cs' H') as (a' & fin & Ha & Hf & Hi). simpl in Hc1, Hc2.
    unfold fresh_axes in *.
    set (ua := if f then 1 else n).
    assert (Ea : exists f1, (if ua =? c then Some ((c, false) :: a') else if ua =? 1 then Some ((c, true) :: a') else None) = Some ((c, f1) :: a') /\ (f = false -> f1 = false)).
    { unfold ua. destruct f; cbv iota.
      - destruct (1 =? c) eqn:E; [exists false; split; [reflexivity | intros; discriminate]|].
        rewrite Z.eqb_refl. exists true. split; [reflexivity | intros; discriminate].
      - rewrite (Hc2 eq_refl), Z.eqb_refl. exists false. split; reflexivity. }
    assert (Ef : exists f3, (if c =? n then Some ((n, false) :: fin) else if c =? 1 then Some ((n, true) :: fin) else None) = Some ((n, f3) :: fin) /\ (f = false -> f3 = false)).
    { destruct (c =? n) eqn:E; [exists false; split; [reflexivity | auto]|].
      apply Z.eqb_neq in E. destruct Hc1 as [Hc1|Hc1]; [congruence|]. rewrite Hc1, Z.eqb_refl. exists true. split; [reflexivity|].
      intros Hf0. apply Hc2 in Hf0. congruence. }
    destruct Ea as (f1 & Ea & Hf1). destruct Ef as (f3 & Ef & Hf3).
    exists ((c, f1) :: a'), ((n, f3) :: fin). split; [|split].
    { cbn [unb map fst snd bcast_axes]. fold (unb la). rewrite Ha. fold ua. exact Ea. }
    { cbn [unb map fst snd bcast_axes]. rewrite Hf. exact Ef. }
    intros idx Hb. inversion Hb; subst. cbn [collapse]. rewrite Hi by assumption.
    destruct f; [reflexivity|]. rewrite (Hf1 eq_refl), (Hf3 eq_refl). reflexivity.
Qed.

(* ---------- list plumbing ---------- *)
Lemma all_some_map : forall A B (f : A -> option B) (h : A -> B) l, (forall x, In x l -> f x = Some (h x)) ->
  all_some (map f l) = Some (map h l).
Proof.
  induction l as [|x l IH]; intros H; simpl; [reflexivity|].
  rewrite (H x (or_introl eq_refl)). rewrite IH; [reflexivity|]. intros y Hy. apply H. right. exact Hy.
Qed.

Lemma all_some_inv : forall A (l : list (option A)) r, all_some l = Some r -> forall x, In x l -> exists y, x = Some y.
Proof.
  induction l as [|o l IH]; intros r H x Hx; [destruct Hx|]. simpl in H. destruct o as [y|]; [|discriminate].
  destruct (all_some l) eqn:E; [|discriminate]. destruct Hx as [<-|Hx]; [eexists; reflexivity | eapply IH; [reflexivity | exact Hx]].
Qed.

Definition arr_of (leaf : cid -> value) (c : cid) : arr := match leaf c with VArr a => a | _ => mkarr [] (fun _ => None) end.

Lemma compute_func_good : forall rv e leaf, good (compute_func rv e leaf) -> forall c, In c (leaves e) -> good (leaf c).
Proof.
  intros rv e leaf H c Hc. unfold compute_func in H.
  destruct (first_err (map leaf (dedup (leaves e)))) eqn:E; [destruct H|].
  eapply first_err_none; [exact E|]. apply in_map. apply In_dedup. exact Hc.
Qed.

Lemma compute_func_ok : forall rv e leaf sh Fc,
  (forall c, In c (leaves e) -> vrepr (leaf c) sh (Fc c)) ->
  good (compute_func rv e leaf) ->
  vrepr (compute_func rv e leaf) sh (fun idx => eval_expr e (fun c => Fc c idx)).
Proof.
  intros rv e leaf sh Fc H G. unfold compute_func in *.
  set (ids := dedup (leaves e)) in *. set (args := map leaf ids) in *.
  destruct (first_err args) eqn:E; [destruct G|].
  destruct (all_some (map the_arr args)) as [arrs|] eqn:EA; [|destruct G].
  (* every input is an array *)
  assert (Harr : forall c, In c ids -> leaf c = VArr (arr_of leaf c)).
  { intros c Hc. assert (Hin : In (the_arr (leaf c)) (map the_arr args)) by (unfold args; rewrite map_map; apply in_map_iff; exists c; split; [reflexivity | exact Hc]).
    destruct (all_some_inv _ _ _ EA _ Hin) as [a Ha]. unfold arr_of. destruct (leaf c); simpl in Ha; try discriminate. reflexivity. }
  assert (EA' : all_some (map the_arr args) = Some (map (arr_of leaf) ids)).
  { unfold args. rewrite map_map. apply all_some_map. intros c Hc. rewrite (Harr c Hc). reflexivity. }
  rewrite EA' in EA. inversion EA; subst arrs. clear EA.
  destruct ids as [|c0 ids'] eqn:Eids; [destruct G|]. cbn [map] in *.
  assert (Hrep : forall c, In c (c0 :: ids') -> repr (arr_of leaf c) sh (Fc c)).
  { intros c Hc. assert (Hl : In c (leaves e)) by (apply In_dedup; fold ids; rewrite Eids; exact Hc).
    pose proof (H c Hl) as R. rewrite (Harr c Hc) in R. exact R. }
  set (L := map (fun c => axes (arr_of leaf c)) (c0 :: ids')).
  assert (HL : forall la, In la L -> map fst la = sh).
  { intros la Hla. unfold L in Hla. apply in_map_iff in Hla. destruct Hla as [c [<- Hc]]. destruct (Hrep c Hc) as [S _]. exact S. }
  destruct (common_all_agrees L sh) as (cs & Hcs & Hr & Hag); [unfold L; discriminate | exact HL|].
  (* rewrite the model's expression in terms of L *)
  assert (Eus : ashape (unbroadcast (arr_of leaf c0)) :: map ashape (map unbroadcast (map (arr_of leaf) ids')) = map (fun la => map fst (unb la)) L).
  { unfold L. cbn [map]. f_equal. rewrite !map_map. reflexivity. }
  rewrite Eus, Hcs.
  set (b_of := fun c => mkarr (match bcast_axes (unb (axes (arr_of leaf c))) cs with Some a' => a' | None => [] end) (aget (unbroadcast (arr_of leaf c)))).
  assert (Ebs : all_some (broadcast_to (unbroadcast (arr_of leaf c0)) cs :: map (fun u => broadcast_to u cs) (map unbroadcast (map (arr_of leaf) ids'))) = Some (map b_of (c0 :: ids'))).
  { change (broadcast_to (unbroadcast (arr_of leaf c0)) cs :: map (fun u => broadcast_to u cs) (map unbroadcast (map (arr_of leaf) ids')))
      with (map (fun u => broadcast_to u cs) (map unbroadcast (map (arr_of leaf) (c0 :: ids')))). rewrite !map_map.
    apply all_some_map. intros c Hc. unfold broadcast_to. rewrite axes_unbroadcast.
    assert (Hla : In (axes (arr_of leaf c)) L) by (unfold L; apply in_map_iff; exists c; split; [reflexivity | exact Hc]).
    destruct (agrees_bcast _ _ (Hag _ Hla)) as (a' & fin & Ha & _ & _). unfold b_of. rewrite Ha. reflexivity. }
  rewrite Ebs.
  (* the final broadcast_to *)
  assert (Hla0 : In (axes (arr_of leaf c0)) L) by (unfold L; left; reflexivity).
  destruct (agrees_bcast _ _ (Hag _ Hla0)) as (a0' & fin & Ha0 & Hf0 & _).
  destruct (Hrep c0 (or_introl eq_refl)) as [S0 _].
  unfold broadcast_to at 1. cbn [axes]. rewrite ashape_axes, Hf0.
  unfold vrepr, repr. split.
  - unfold ashape at 1. cbn [axes]. rewrite (bcast_axes_shape _ _ _ Hf0). exact S0.
  - intros idx Hb. unfold aget at 1. cbn [axes aval]. unfold aget at 1. cbn [axes aval]. rewrite collapse_fresh.
    apply eval_expr_ext. intros c Hc.
    assert (Hci : In c (c0 :: ids')) by (rewrite <- Eids; apply In_dedup; exact Hc).
    rewrite map_map. rewrite (assoc_env_map (c0 :: ids') (fun x => aget (b_of x) (collapse fin idx)) c Hci).
    assert (Hla : In (axes (arr_of leaf c)) L) by (unfold L; apply in_map_iff; exists c; split; [reflexivity | exact Hci]).
    destruct (agrees_bcast _ _ (Hag _ Hla)) as (a' & fin' & Ha & Hf & Hi).
    destruct (Hrep c Hci) as [Sc Rc].
    assert (fin' = fin) by (rewrite (HL _ Hla) in Hf; rewrite (HL _ Hla0) in Hf0; congruence). subst fin'.
    unfold b_of. rewrite Ha. unfold aget at 1. cbn [axes aval]. unfold aget at 1. rewrite axes_unbroadcast, collapse_unb.
    unfold unbroadcast. cbn [aval]. unfold aget. rewrite Hi by (rewrite (HL _ Hla); exact Hb).
    apply Rc. exact Hb.
Qed.
