(* C14 — removal removes exactly the transitive dependents; update_id keeps order and values *)
From Coq Require Import ZArith QArith List Bool Lia.
Import ListNotations.
From GV Require Import Common.Wire C14.Model C14.Lemmas1 C14.Lemmas2 C14.Lemmas3 C14.Lemmas5.
Open Scope Z_scope.

Lemma memz_In : forall x l, memz x l = true <-> In x l.
Proof.
  intros x l. unfold memz. rewrite existsb_exists. split.
  - intros [y [Hy He]]. apply Z.eqb_eq in He. subst. exact Hy.
  - intros H. exists x. split; [exact H | apply Z.eqb_refl].
Qed.

Lemma In_keys : forall A k (v : A) l, In (k, v) l -> In k (keys l).
Proof. intros. unfold keys. apply (in_map fst) in H. exact H. Qed.

Lemma In_keys_ex : forall A k (l : list (Z * A)), In k (keys l) -> exists v, In (k, v) l.
Proof. intros A k l H. unfold keys in H. apply in_map_iff in H. destruct H as [[k' v] [H1 H2]]. simpl in H1. subst. exists v. exact H2. Qed.

Lemma In_assoc : forall A k (v : A) l, NoDup (keys l) -> In (k, v) l -> assoc k l = Some v.
Proof.
  induction l as [|[k' v'] l IH]; simpl; intros ND H; [contradiction|].
  inversion ND as [|? ? Hn ND']; subst. destruct H as [H|H].
  - inversion H; subst. rewrite Z.eqb_refl. reflexivity.
  - destruct (k' =? k) eqn:E; [apply Z.eqb_eq in E; subst; exfalso; apply Hn; eapply In_keys; exact H | apply IH; assumption].
Qed.

Lemma assoc_none : forall A k (l : list (Z * A)), ~ In k (keys l) -> assoc k l = None.
Proof.
  induction l as [|[k' v] l IH]; simpl; intros H; [reflexivity|].
  destruct (k' =? k) eqn:E; [apply Z.eqb_eq in E; subst; exfalso; apply H; left; reflexivity | apply IH; intros H1; apply H; right; exact H1].
Qed.

Lemma NoDup_keys_filter : forall A (f : Z * A -> bool) l, NoDup (keys l) -> NoDup (keys (filter f l)).
Proof.
  induction l as [|[k v] l IH]; simpl; intros ND; [constructor|]. inversion ND; subst. destruct (f (k, v)); simpl; [constructor|]; auto.
  intros H. apply H1. apply In_keys_ex in H. destruct H as [w H]. apply filter_In in H. eapply In_keys. apply H.
Qed.

Lemma filter_filter : forall A (f g : A -> bool) l, filter f (filter g l) = filter (fun x => g x && f x) l.
Proof. induction l; simpl; [reflexivity|]. destruct (g a); simpl; [destruct (f a); rewrite IHl; reflexivity | exact IHl]. Qed.

Lemma filter_length_le : forall A (f : A -> bool) l, (length (filter f l) <= length l)%nat.
Proof. induction l; simpl; [lia | destruct (f a); simpl; lia]. Qed.

(* ---------- dependents ---------- *)
(* x is c or depends on c through a chain of derived attributes of the table l *)
Inductive dependent (l : list (cid * comp)) (c : cid) : cid -> Prop :=
| dep_self : dependent l c c
| dep_step : forall y z k, dependent l c y -> In (z, k) l -> In y (from_ids k) -> dependent l c z.

Lemma dependent_trans : forall l a b c, dependent l a b -> dependent l b c -> dependent l a c.
Proof. intros l a b c H1 H2. induction H2; [exact H1 | eapply dep_step; eassumption]. Qed.

Lemma dependent_mono : forall (l l' : list (cid * comp)) c x, (forall e, In e l' -> In e l) -> dependent l' c x -> dependent l c x.
Proof. intros l l' c x Hs H. induction H; [apply dep_self | eapply dep_step; [eassumption | apply Hs; eassumption | assumption]]. Qed.

Record rm_spec (P : cid -> Prop) (l l' : list (cid * comp)) : Prop := {
  rm_sub : exists f, l' = filter f l;
  rm_target : forall c, P c -> ~ In c (keys l');
  rm_sound : forall x, In x (keys l) -> ~ In x (keys l') -> exists c, P c /\ dependent l c x;
  rm_closed : forall z k y, In (z, k) l' -> In y (from_ids k) -> In y (keys l) -> In y (keys l')
}.

Lemma sub_In : forall (f : cid * comp -> bool) l e, In e (filter f l) -> In e l.
Proof. intros f l e H. apply filter_In in H. tauto. Qed.

Lemma sub_keys : forall (f : cid * comp -> bool) l x, In x (keys (filter f l)) -> In x (keys l).
Proof. intros f l x H. apply In_keys_ex in H. destruct H as [v H]. eapply In_keys. eapply sub_In. exact H. Qed.

Section Fuel.
  Variable n : nat.
  Hypothesis IHn : forall c l, (length l <= n)%nat -> NoDup (keys l) -> rm_spec (eq c) l (remove_fuel n c l).

  Lemma rm_fold : forall cs l, (length l <= n)%nat -> NoDup (keys l) ->
    rm_spec (fun x => In x cs) l (fold_left (fun acc d => remove_fuel n d acc) cs l).
  Proof.
    induction cs as [|d cs IH]; intros l Hlen ND; simpl.
    - constructor.
      + exists (fun _ => true). clear. induction l; simpl; [reflexivity | f_equal; assumption].
      + intros c [].
      + intros x H1 H2. contradiction.
      + intros z k y H1 H2 H3. exact H3.
    - pose proof (IHn d l Hlen ND) as S1. set (l1 := remove_fuel n d l) in *.
      destruct (rm_sub _ _ _ S1) as [f1 Hf1].
      assert (Hlen1 : (length l1 <= n)%nat) by (rewrite Hf1; eapply Nat.le_trans; [apply filter_length_le | exact Hlen]).
      assert (ND1 : NoDup (keys l1)) by (rewrite Hf1; apply NoDup_keys_filter; exact ND).
      pose proof (IH l1 Hlen1 ND1) as S2. set (l2 := fold_left (fun acc d0 => remove_fuel n d0 acc) cs l1) in *.
      destruct (rm_sub _ _ _ S2) as [f2 Hf2].
      assert (Sub21 : forall x, In x (keys l2) -> In x (keys l1)) by (intros x Hx; rewrite Hf2 in Hx; eapply sub_keys; exact Hx).
      assert (Sub10 : forall e, In e l1 -> In e l) by (intros e He; rewrite Hf1 in He; eapply sub_In; exact He).
      constructor.
      + exists (fun x => f1 x && f2 x). rewrite Hf2, Hf1. apply filter_filter.
      + intros c [<-|Hc]; [intros H; apply (rm_target _ _ _ S1 d eq_refl); apply Sub21; exact H | apply (rm_target _ _ _ S2 c Hc)].
      + intros x Hx Hn. destruct (in_dec Z.eq_dec x (keys l1)) as [H1|H1].
        * destruct (rm_sound _ _ _ S2 x H1 Hn) as [c [Hc Hd]]. exists c. split; [right; exact Hc|]. eapply dependent_mono; [exact Sub10 | exact Hd].
        * destruct (rm_sound _ _ _ S1 x Hx H1) as [c [<- Hd]]. exists d. split; [left; reflexivity | exact Hd].
      + intros z k y Hz Hy Hk. apply (rm_closed _ _ _ S2 z k y Hz Hy).
        assert (Hz1 : In (z, k) l1) by (rewrite Hf2 in Hz; eapply sub_In; exact Hz).
        apply (rm_closed _ _ _ S1 z k y Hz1 Hy Hk).
  Qed.
End Fuel.

Lemma del_key_length : forall A k (l : list (Z * A)), In k (keys l) -> (length (del_key k l) < length l)%nat.
Proof.
  induction l as [|[k' v] l IH]; simpl; intros H; [contradiction|].
  destruct (k' =? k) eqn:E; simpl.
  - pose proof (filter_length_le _ (fun kv : Z * A => negb (fst kv =? k)) l). unfold del_key. lia.
  - destruct H as [H|H]; [apply Z.eqb_neq in E; congruence|]. apply IH in H. unfold del_key in *. lia.
Qed.

Lemma remove_fuel_spec : forall n c l, (length l <= n)%nat -> NoDup (keys l) -> rm_spec (eq c) l (remove_fuel n c l).
Proof.
  induction n as [|n IH]; intros c l Hlen ND.
  - assert (l = []) by (destruct l; [reflexivity | simpl in Hlen; lia]). subst l. simpl. constructor.
    + exists (fun _ => true). reflexivity.
    + intros x _ [].
    + intros x [].
    + intros z k y [].
  - set (l1 := del_key c l).
    change (rm_spec (eq c) l (if memz c (keys l) then fold_left (fun acc d => remove_fuel n d acc) (keys (filter (depends_on c) l1)) l1 else l)).
    destruct (memz c (keys l)) eqn:Hk.
    2:{ constructor.
        - exists (fun _ => true). clear. induction l; simpl; [reflexivity | f_equal; assumption].
        - intros x <- H. apply memz_In in H. congruence.
        - intros x H1 H2. contradiction.
        - intros z k y H1 H2 H3. exact H3. }
    apply memz_In in Hk.
    assert (Hlen1 : (length l1 <= n)%nat).
    { pose proof (del_key_length _ c l Hk) as Hd. apply Nat.lt_succ_r. eapply Nat.lt_le_trans; [exact Hd | exact Hlen]. }
    assert (ND1 : NoDup (keys l1)) by (apply NoDup_keys_filter; exact ND).
    pose proof (rm_fold n IH (keys (filter (depends_on c) l1)) l1 Hlen1 ND1) as S2.
    set (l2 := fold_left (fun acc d => remove_fuel n d acc) (keys (filter (depends_on c) l1)) l1) in *.
    destruct (rm_sub _ _ _ S2) as [f2 Hf2].
    assert (Sub10 : forall e, In e l1 -> In e l) by (intros e He; eapply sub_In; exact He).
    assert (Hnc1 : ~ In c (keys l1)).
    { intros H. apply In_keys_ex in H. destruct H as [v H]. apply filter_In in H. destruct H as [_ H]. simpl in H. rewrite Z.eqb_refl in H. discriminate. }
    assert (Hkeep : forall x, In x (keys l) -> x <> c -> In x (keys l1)).
    { intros x Hx Hne. apply In_keys_ex in Hx. destruct Hx as [v Hv]. apply (In_keys _ x v). apply filter_In. split; [exact Hv|].
      simpl. apply negb_true_iff. apply Z.eqb_neq. exact Hne. }
    constructor.
    + exists (fun x => negb (fst x =? c) && f2 x). rewrite Hf2. unfold l1, del_key. apply filter_filter.
    + intros x <- H. apply Hnc1. rewrite Hf2 in H. eapply sub_keys. exact H.
    + intros x Hx Hn. destruct (Z.eq_dec x c) as [->|Hne]; [exists c; split; [reflexivity | apply dep_self]|].
      destruct (rm_sound _ _ _ S2 x (Hkeep x Hx Hne) Hn) as [d [Hd Hdep]].
      exists c. split; [reflexivity|].
      (* d depends directly on c *)
      apply In_keys_ex in Hd. destruct Hd as [k Hd]. apply filter_In in Hd. destruct Hd as [Hd1 Hd2].
      unfold depends_on in Hd2. simpl in Hd2. apply memz_In in Hd2.
      eapply dependent_trans; [eapply dep_step; [apply dep_self | apply Sub10; exact Hd1 | exact Hd2]|].
      eapply dependent_mono; [exact Sub10 | exact Hdep].
    + intros z k y Hz Hy Hk'. destruct (Z.eq_dec y c) as [->|Hne].
      * (* an entry that still depends on c would have been among the dependents, all of which are gone *)
        exfalso. assert (Hz1 : In (z, k) l1) by (rewrite Hf2 in Hz; eapply sub_In; exact Hz).
        assert (Hdz : In z (keys (filter (depends_on c) l1))).
        { apply (In_keys _ z k). apply filter_In. split; [exact Hz1|]. unfold depends_on. simpl. apply memz_In. exact Hy. }
        apply (rm_target _ _ _ S2 z Hdz). eapply In_keys. exact Hz.
      * apply (rm_closed _ _ _ S2 z k y Hz Hy). apply Hkeep; assumption.
Qed.

(* ---------- remove_closure ---------- *)
Lemma remove_closure : forall c l, NoDup (keys l) -> In c (keys l) ->
  let l' := remove_fuel (length l) c l in
  (exists f, l' = filter f l) /\
  (forall x k, In (x, k) l -> (In (x, k) l' <-> ~ dependent l c x)).
Proof.
  intros c l ND Hc. pose proof (remove_fuel_spec (length l) c l (Nat.le_refl _) ND) as S. cbv zeta.
  set (l' := remove_fuel (length l) c l) in *. destruct (rm_sub _ _ _ S) as [f Hf].
  split; [exists f; exact Hf|].
  intros x k Hx. split.
  - intros Hin Hdep. assert (Hk : In x (keys l')) by (eapply In_keys; exact Hin).
    revert k Hx Hin Hk. induction Hdep as [|y z kz Hy IHy Hz Hyz]; intros k Hx Hin Hk.
    + apply (rm_target _ _ _ S c eq_refl). exact Hk.
    + assert (kz = k).
      { apply In_assoc in Hz; [|exact ND]. apply In_assoc in Hx; [|exact ND]. congruence. }
      subst kz.
      assert (Hyl : In y (keys l)).
      { clear - Hy Hc. destruct Hy; [exact Hc | eapply In_keys; eassumption]. }
      pose proof (rm_closed _ _ _ S z k y Hin Hyz Hyl) as Hy'.
      apply In_keys_ex in Hyl. destruct Hyl as [ky Hky].
      apply (IHy ky Hky); [|exact Hy'].
      apply In_keys_ex in Hy'. destruct Hy' as [ky' Hky'].
      assert (ky' = ky).
      { assert (In (y, ky') l) by (rewrite Hf in Hky'; eapply sub_In; exact Hky').
        apply In_assoc in H; [|exact ND]. apply In_assoc in Hky; [|exact ND]. congruence. }
      subst ky'. exact Hky'.
  - intros Hnd. destruct (in_dec Z.eq_dec x (keys l')) as [Hk|Hk].
    + apply In_keys_ex in Hk. destruct Hk as [k' Hk']. assert (k' = k).
      { assert (In (x, k') l) by (rewrite Hf in Hk'; eapply sub_In; exact Hk').
        apply In_assoc in H; [|exact ND]. apply In_assoc in Hx; [|exact ND]. congruence. }
      subst k'. exact Hk'.
    + exfalso. destruct (rm_sound _ _ _ S x (In_keys _ _ _ _ Hx) Hk) as [c' [<- Hd]]. apply Hnd. exact Hd.
Qed.

(* what stays keeps its value *)
Lemma remove_values : forall c d, NoDup (keys (dcomps d)) ->
  let d' := remove_component c d in
  forall fuel x idx, In x (keys (dcomps d')) -> sem fuel d' x idx = sem fuel d x idx.
Proof.
  intros c d ND. cbv zeta. unfold remove_component.
  pose proof (remove_fuel_spec (length (dcomps d)) c (dcomps d) (Nat.le_refl _) ND) as S.
  set (l' := remove_fuel (length (dcomps d)) c (dcomps d)) in *. destruct (rm_sub _ _ _ S) as [f Hf].
  assert (ND' : NoDup (keys l')) by (rewrite Hf; apply NoDup_keys_filter; exact ND).
  induction fuel as [|fu IH]; intros x idx Hx; [reflexivity|].
  cbn [sem dcomps dshape].
  apply In_keys_ex in Hx. destruct Hx as [k Hk].
  assert (Hk0 : In (x, k) (dcomps d)) by (rewrite Hf in Hk; eapply sub_In; exact Hk).
  rewrite (In_assoc _ x k l' ND' Hk), (In_assoc _ x k (dcomps d) ND Hk0).
  destruct k as [fl data|ax|ax sc off|h e]; try reflexivity.
  apply eval_expr_ext. intros y Hy.
  destruct (in_dec Z.eq_dec y (keys (dcomps d))) as [Hyl|Hyl].
  - apply IH. apply (rm_closed _ _ _ S x (Derived h e) y Hk Hy Hyl).
  - (* an input that never existed: no value on either side *)
    assert (Hyl' : ~ In y (keys l')) by (intros H; apply Hyl; rewrite Hf in H; eapply sub_keys; exact H).
    destruct fu; [reflexivity|]. cbn [sem dcomps]. rewrite (assoc_none _ y l' Hyl'), (assoc_none _ y (dcomps d) Hyl). reflexivity.
Qed.

(* ---------- update_id ---------- *)
Definition ren (o n c : cid) : cid := if c =? o then n else c.

Lemma eval_rename : forall o n e env, eval_expr (rename_expr o n e) env = eval_expr e (fun c => env (ren o n c)).
Proof. induction e as [c|q|op l IHl r IHr]; intros env; simpl; [reflexivity | reflexivity | rewrite IHl, IHr; reflexivity]. Qed.

Lemma assoc_ren : forall o n (l : list (cid * comp)) x, NoDup (keys l) -> ~ In n (keys l) -> x <> n ->
  assoc (ren o n x) (map (fun ck => ((if fst ck =? o then n else fst ck), rename_comp o n (snd ck))) l)
  = option_map (rename_comp o n) (assoc x l).
Proof.
  induction l as [|[k v] l IH]; intros x ND Hn Hx; simpl; [reflexivity|].
  inversion ND as [|? ? Hk ND']; subst.
  assert (Hn' : ~ In n (keys l)) by (intros H; apply Hn; right; exact H).
  assert (Hkn : k <> n) by (intros ->; apply Hn; left; reflexivity).
  unfold ren. destruct (k =? x) eqn:E1.
  - apply Z.eqb_eq in E1. subst x. destruct (k =? o); rewrite Z.eqb_refl; reflexivity.
  - apply Z.eqb_neq in E1.
    match goal with |- (if ?b then _ else _) = _ => assert (E2 : b = false) end.
    { apply Z.eqb_neq. destruct (Z.eqb_spec k o), (Z.eqb_spec x o); subst; congruence. }
    rewrite E2. apply (IH x ND' Hn' Hx).
Qed.

Lemma update_id_preserves : forall o n d, NoDup (keys (dcomps d)) -> In o (keys (dcomps d)) -> ~ In n (keys (dcomps d)) -> o <> n ->
  (forall c k, In (c, k) (dcomps d) -> ~ In n (from_ids k)) ->
  let d' := update_id o n d in
  keys (dcomps d') = map (ren o n) (keys (dcomps d)) /\
  forall fuel x idx, x <> n -> sem fuel d' (ren o n x) idx = sem fuel d x idx.
Proof.
  intros o n d ND Ho Hn Hon Hfr. cbv zeta. unfold update_id.
  assert (E : (o =? n) || negb (memz o (keys (dcomps d))) || memz n (keys (dcomps d)) = false).
  { apply orb_false_iff. split; [apply orb_false_iff; split|].
    - apply Z.eqb_neq. exact Hon.
    - apply negb_false_iff. apply memz_In. exact Ho.
    - destruct (memz n (keys (dcomps d))) eqn:Em; [apply memz_In in Em; contradiction | reflexivity]. }
  rewrite E. cbn [dcomps dshape]. split.
  - unfold keys. rewrite !map_map. apply map_ext. intros [c k]. reflexivity.
  - induction fuel as [|fu IH]; intros x idx Hx; [reflexivity|].
    cbn [sem dcomps dshape]. pose proof (assoc_ren o n (dcomps d) x ND Hn Hx) as HA. unfold cid in *. rewrite HA. clear HA.
    destruct (assoc x (dcomps d)) as [k|] eqn:Ea; [|reflexivity]. simpl.
    destruct k as [fl data|ax|ax sc off|h e]; try reflexivity. simpl.
    rewrite eval_rename. apply eval_expr_ext. intros y Hy. apply IH.
    intros ->. apply (Hfr x (Derived h e)); [apply assoc_In; exact Ea | exact Hy].
Qed.

(* the removed set does not depend on where the attributes sit in the table: two tables with the same entries in any
   two orders (dependents before or after their inputs) lose exactly the same entries *)
Lemma remove_absent : forall n c (l : list (cid * comp)), ~ In c (keys l) -> remove_fuel n c l = l.
Proof.
  intros n c l H. destruct n; simpl; [reflexivity|].
  destruct (memz c (keys l)) eqn:E; [apply memz_In in E; contradiction | reflexivity].
Qed.

Lemma remove_order_independent : forall c l1 l2, NoDup (keys l1) -> NoDup (keys l2) -> (forall e, In e l1 <-> In e l2) ->
  forall x k, In (x, k) (remove_fuel (length l1) c l1) <-> In (x, k) (remove_fuel (length l2) c l2).
Proof.
  intros c l1 l2 N1 N2 HE x k.
  assert (HK : forall y, In y (keys l1) <-> In y (keys l2)).
  { intros y. split; intros H; apply In_keys_ex in H; destruct H as [v H]; apply HE in H; eapply In_keys; exact H. }
  destruct (in_dec Z.eq_dec c (keys l1)) as [Hc|Hc].
  - destruct (remove_closure c l1 N1 Hc) as [[f1 F1] R1]. destruct (remove_closure c l2 N2 (proj1 (HK c) Hc)) as [[f2 F2] R2].
    cbv zeta in *.
    assert (D : dependent l1 c x <-> dependent l2 c x).
    { split; apply dependent_mono; intros e He; apply HE; exact He. }
    split; intros H.
    + assert (H1 : In (x, k) l1) by (rewrite F1 in H; eapply sub_In; exact H).
      apply (R2 x k (proj1 (HE _) H1)). intros Hd. apply (proj1 (R1 x k H1) H). apply D. exact Hd.
    + assert (H2 : In (x, k) l2) by (rewrite F2 in H; eapply sub_In; exact H).
      apply (R1 x k (proj2 (HE _) H2)). intros Hd. apply (proj1 (R2 x k H2) H). apply D. exact Hd.
  - rewrite (remove_absent _ c l1 Hc), (remove_absent _ c l2 (fun H => Hc (proj2 (HK c) H))). apply HE.
Qed.
