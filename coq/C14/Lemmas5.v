(* C14 — derived_value: what Data[c, view] returns is the expression applied elementwise, restricted to the view *)
From Coq Require Import ZArith QArith List Bool Lia.
Import ListNotations.
From GV Require Import Common.Wire C14.Model C14.Lemmas1 C14.Lemmas2 C14.Lemmas3 C14.Lemmas4.
Open Scope Z_scope.

(* stored arrays come with one stride flag per axis *)
Definition wf_ds (d : ds) : Prop :=
  forall c fl data, In (c, Stored fl data) (dcomps d) -> length fl = length (dshape d).

Lemma assoc_In : forall A k (v : A) l, assoc k l = Some v -> In (k, v) l.
Proof.
  induction l as [|[k' v'] l IH]; simpl; intros H; [discriminate|].
  destruct (k' =? k) eqn:E; [apply Z.eqb_eq in E; inversion H; subst; left; reflexivity | right; apply IH; exact H].
Qed.

Lemma map_fst_combine : forall A B (a : list A) (b : list B), length a = length b -> map fst (combine a b) = a.
Proof.
  induction a as [|x a IH]; intros [|y b] H; simpl in *; try discriminate; [reflexivity|]. f_equal. apply IH. lia.
Qed.

Lemma zrange_length : forall n, length (zrange n) = n.
Proof. induction n; simpl; [reflexivity|]. rewrite app_length, IHn. simpl. lia. Qed.

Lemma base_arr_shape : forall d c k a, wf_ds d -> assoc c (dcomps d) = Some k -> base_arr (dshape d) k = Some a -> ashape a = dshape d.
Proof.
  intros d c k a W Ha Hb. destruct k as [fl data|ax|ax sc off|h e]; simpl in Hb; inversion Hb; subst a; unfold ashape; cbn [axes].
  - apply map_fst_combine. symmetry. eapply W. apply assoc_In. exact Ha.
  - unfold coord_axes. rewrite map_map. simpl. apply map_fst_combine. rewrite zrange_length. reflexivity.
  - unfold coord_axes. rewrite map_map. simpl. apply map_fst_combine. rewrite zrange_length. reflexivity.
Qed.

Lemma derived_value_gen : forall fuel d v c, wf_ds d -> good (get_data fuel d v c) ->
  vrepr (get_data fuel d v c) (vshape v (dshape d)) (fun idx => sem fuel d c (expand v idx)).
Proof.
  induction fuel as [|f IH]; intros d v c W G; [destruct G|].
  cbn [get_data sem] in *.
  destruct (assoc c (dcomps d)) as [k|] eqn:Ea; [|destruct G].
  assert (Hbase : forall a, base_arr (dshape d) k = Some a ->
            good (match apply_view v a with Some x => VArr x | None => VErr IndexError end) ->
            vrepr (match apply_view v a with Some x => VArr x | None => VErr IndexError end) (vshape v (dshape d))
                  (fun idx => aget a (expand v idx))).
  { intros a Hb G'. destruct (apply_view v a) as [x|] eqn:Ev; [|destruct G'].
    apply apply_view_repr in Ev. rewrite (base_arr_shape d c k a W Ea Hb) in Ev. exact Ev. }
  destruct k as [fl data|ax|ax sc off|h e].
  - cbn [base_arr] in *. apply (Hbase _ eq_refl G).
  - cbn [base_arr] in *. apply (Hbase _ eq_refl G).
  - cbn [base_arr] in *. apply (Hbase _ eq_refl G).
  - destruct h as [| |rv].
    + apply compute_ops_ok. intros c' Hc'. apply IH; [exact W|]. eapply compute_ops_good; eassumption.
    + apply compute_parsed_ok; [reflexivity | | exact G]. intros c' Hc'. apply IH; [exact W|]. eapply compute_parsed_good; eassumption.
    + apply compute_func_ok; [| exact G]. intros c' Hc'. apply IH; [exact W|]. eapply compute_func_good; eassumption.
Qed.

Lemma derived_value : forall d v c a, wf_ds d ->
  get_data (S (length (dcomps d))) d v c = VArr a ->
  ashape a = vshape v (dshape d) /\
  forall idx, in_box (ashape a) idx -> aget a idx = sem (S (length (dcomps d))) d c (expand v idx).
Proof.
  intros d v c a W H. pose proof (derived_value_gen (S (length (dcomps d))) d v c W) as R. rewrite H in R.
  destruct (R I) as [S Hv]. split; [exact S|]. intros idx Hb. apply Hv. rewrite <- S. exact Hb.
Qed.

(* a link made of constants only returns its value as a scalar, as the code does *)
Lemma derived_value_scalar : forall d v c s, wf_ds d ->
  get_data (S (length (dcomps d))) d v c = VScalar s ->
  forall idx, sem (S (length (dcomps d))) d c (expand v idx) = s.
Proof.
  intros d v c s W H. pose proof (derived_value_gen (S (length (dcomps d))) d v c W) as R. rewrite H in R. apply (R I).
Qed.
