(* C14 — arrays with stride-0 flags: unbroadcast -> broadcast -> op -> broadcast_to is the elementwise operation *)
From Coq Require Import ZArith QArith List Bool Lia.
Import ListNotations.
From GV Require Import Common.Wire C14.Model.
Open Scope Z_scope.

Definition in_box (sh idx : list Z) : Prop := Forall2 (fun n i => 0 <= i < n) sh idx.
(* array a has shape sh and holds F *)
Definition repr (a : arr) (sh : list Z) (F : list Z -> val) : Prop :=
  ashape a = sh /\ forall idx, in_box sh idx -> aget a idx = F idx.

Definition unb (l : list axis) : list axis := map (fun nb : axis => ((if snd nb then 1 else fst nb), false)) l.

Lemma axes_unbroadcast : forall a, axes (unbroadcast a) = unb (axes a).
Proof. reflexivity. Qed.

Lemma collapse_noflags : forall l idx, (forall x, In x l -> snd x = false) -> collapse l idx = idx.
Proof.
  induction l as [|[n b] l IH]; intros idx H; simpl; [destruct idx; reflexivity|].
  destruct idx as [|i idx]; [reflexivity|].
  assert (b = false) by (apply (H (n, b)); left; reflexivity). subst b.
  f_equal. apply IH. intros x Hx. apply H. right. exact Hx.
Qed.

Lemma collapse_fresh : forall sh idx, collapse (fresh_axes sh) idx = idx.
Proof.
  intros. apply collapse_noflags. intros x Hx. unfold fresh_axes in Hx. apply in_map_iff in Hx. destruct Hx as [n [<- _]]. reflexivity.
Qed.

Lemma collapse_unb : forall l idx, collapse (unb l) idx = idx.
Proof.
  intros. apply collapse_noflags. intros x Hx. unfold unb in Hx. apply in_map_iff in Hx. destruct Hx as [n [<- _]]. reflexivity.
Qed.

Lemma map_fst_fresh : forall sh, map fst (fresh_axes sh) = sh.
Proof. intros. unfold fresh_axes. rewrite map_map. simpl. apply map_id. Qed.

Lemma bcast_axes_shape : forall ax sh r, bcast_axes ax sh = Some r -> map fst r = sh.
Proof.
  induction ax as [|[n b] ax IH]; intros [|m sh] r H; simpl in H; try discriminate.
  - inversion H. reflexivity.
  - destruct (bcast_axes ax sh) as [r'|] eqn:E; [|discriminate].
    destruct (n =? m); [|destruct (n =? 1); [|discriminate]]; inversion H; simpl; f_equal; apply IH; exact E.
Qed.

(* ---------- the per-axis heart: two arrays of the same shape ---------- *)
Lemma binary_axes : forall la lb, map fst la = map fst lb ->
  exists cs a' b' fin,
    common_shape (map fst (unb la)) (map fst (unb lb)) = Some cs /\
    bcast_axes (unb la) cs = Some a' /\ bcast_axes (unb lb) cs = Some b' /\
    bcast_axes (fresh_axes cs) (map fst lb) = Some fin /\
    forall idx, in_box (map fst la) idx ->
      collapse la (collapse a' (collapse fin idx)) = collapse la idx /\
      collapse lb (collapse b' (collapse fin idx)) = collapse lb idx.
Proof.
  induction la as [|[n fa] la IH]; intros [|[m fb] lb] H; simpl in H; try discriminate.
  - exists [], [], [], []. simpl. repeat split; reflexivity.
  - inversion H as [[Hn Ht]]. subst m. destruct (IH lb Ht) as (cs & a' & b' & fin & Hc & Ha & Hb & Hf & Hi).
    simpl. rewrite Hc.
    (* the per-axis sizes after unbroadcast *)
    set (ua := if fa then 1 else n). set (ub := if fb then 1 else n).
    assert (Hcs : exists c, (if ua =? ub then Some (ua :: cs) else if ua =? 1 then Some (ub :: cs) else if ub =? 1 then Some (ua :: cs) else None) = Some (c :: cs)
                            /\ (c = ua \/ ua = 1) /\ (c = ub \/ ub = 1) /\ (c = n \/ c = 1) /\ (fa = false -> c = n) /\ (fb = false -> c = n)).
    { unfold ua, ub. destruct fa, fb; cbv iota.
      - rewrite Z.eqb_refl. exists 1. repeat split; auto; intros; discriminate.
      - destruct (1 =? n) eqn:E.
        + apply Z.eqb_eq in E. exists 1. subst n. repeat split; auto; intros; discriminate.
        + rewrite Z.eqb_refl. exists n. repeat split; auto; intros; discriminate.
      - destruct (n =? 1) eqn:E.
        + apply Z.eqb_eq in E. exists n. repeat split; auto; intros; discriminate.
        + rewrite Z.eqb_refl. exists n. repeat split; auto; intros; discriminate.
      - rewrite Z.eqb_refl. exists n. repeat split; auto. }
    destruct Hcs as (c & Hcc & Hca & Hcb & Hcn & Hfa & Hfb). rewrite Hcc.
    exists (c :: cs). simpl. rewrite Ha, Hb, Hf.
    (* broadcast of the operands to the common shape *)
    assert (Ea : exists f1, (if ua =? c then Some ((c, false) :: a') else if ua =? 1 then Some ((c, true) :: a') else None) = Some ((c, f1) :: a') /\ (fa = false -> f1 = false)).
    { destruct (ua =? c) eqn:E; [exists false; split; [reflexivity | auto]|].
      apply Z.eqb_neq in E. destruct Hca as [Hc0|Hu]; [congruence|]. exists true. split.
      - rewrite Hu. rewrite Z.eqb_refl. reflexivity.
      - intros Hf0. exfalso. pose proof (Hfa Hf0) as Hc0. unfold ua in *. destruct fa; [discriminate|]. cbv iota in *. congruence. }
    assert (Eb : exists f2, (if ub =? c then Some ((c, false) :: b') else if ub =? 1 then Some ((c, true) :: b') else None) = Some ((c, f2) :: b') /\ (fb = false -> f2 = false)).
    { destruct (ub =? c) eqn:E; [exists false; split; [reflexivity | auto]|].
      apply Z.eqb_neq in E. destruct Hcb as [Hc0|Hu]; [congruence|]. exists true. split.
      - rewrite Hu. rewrite Z.eqb_refl. reflexivity.
      - intros Hf0. exfalso. pose proof (Hfb Hf0) as Hc0. unfold ub in *. destruct fb; [discriminate|]. cbv iota in *. congruence. }
    destruct Ea as (f1 & Ea & Hf1). destruct Eb as (f2 & Eb & Hf2).
    assert (Ef : exists f3, (if c =? n then Some ((n, false) :: fin) else if c =? 1 then Some ((n, true) :: fin) else None) = Some ((n, f3) :: fin)
                            /\ (fa = false -> f3 = false) /\ (fb = false -> f3 = false)).
    { destruct (c =? n) eqn:E; [exists false; repeat split; auto|].
      apply Z.eqb_neq in E. destruct Hcn as [Hc0|Hu]; [congruence|]. exists true. split.
      - rewrite Hu. rewrite Z.eqb_refl. reflexivity.
      - split; intros Hf0; exfalso; [apply Hfa in Hf0 | apply Hfb in Hf0]; congruence. }
    destruct Ef as (f3 & Ef & Hf3a & Hf3b).
    exists ((c, f1) :: a'), ((c, f2) :: b'), ((n, f3) :: fin).
    split; [reflexivity|]. split; [exact Ea|]. split; [exact Eb|]. split; [exact Ef|].
    intros idx Hbox. inversion Hbox as [|? i ? idx' Hi0 Hbox']; subst. simpl.
    destruct (Hi idx' Hbox') as [Hia Hib]. split.
    + rewrite Hia. destruct fa; [reflexivity|]. rewrite (Hf1 eq_refl), (Hf3a eq_refl). reflexivity.
    + rewrite Hib. destruct fb; [reflexivity|]. rewrite (Hf2 eq_refl), (Hf3b eq_refl). reflexivity.
Qed.

(* one array and a scalar *)
Lemma scalar_axes : forall la,
  exists fin, bcast_axes (fresh_axes (map fst (unb la))) (map fst la) = Some fin /\
    forall idx, in_box (map fst la) idx -> collapse la (collapse fin idx) = collapse la idx.
Proof.
  induction la as [|[n fa] la IH].
  - exists []. split; [reflexivity|]. intros idx _. destruct idx; reflexivity.
  - destruct IH as (fin & Hf & Hi). unfold fresh_axes in *.
    cbn [unb map fst snd bcast_axes]. fold (unb la). rewrite Hf.
    destruct fa; cbv iota.
    + destruct (1 =? n) eqn:E.
      * exists ((n, false) :: fin). split; [reflexivity|]. intros idx Hb. inversion Hb; subst. cbn [collapse]. rewrite Hi by assumption. reflexivity.
      * rewrite Z.eqb_refl. exists ((n, true) :: fin). split; [reflexivity|]. intros idx Hb. inversion Hb; subst. cbn [collapse]. rewrite Hi by assumption. reflexivity.
    + rewrite Z.eqb_refl. exists ((n, false) :: fin). split; [reflexivity|]. intros idx Hb. inversion Hb; subst. cbn [collapse]. rewrite Hi by assumption. reflexivity.
Qed.
