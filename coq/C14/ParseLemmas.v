(* C14 — the tag grammar of parsed commands: parse._validate as REGENERATED from glue/core/parse.py (coq/gen/Gen_parse.v)
   builds exactly the replacement table of the model, keyed by the matched text; and rewriting the references of a command
   to uuid references does not change what the command means, whatever the spelling of the references. *)
From Coq Require Import ZArith List Bool Lia.
Import ListNotations.
From GV Require Import Common.Wire gen.Gen_parse C14.ParseModel.
Open Scope Z_scope.

(* ---------- strings as keys ---------- *)
Lemma leqb_eq : forall a b, leqb a b = true <-> a = b.
Proof.
  induction a as [|x a IH]; intros [|y b]; cbn [leqb]; split; intros H; try reflexivity; try discriminate.
  - apply andb_true_iff in H. destruct H as [H1 H2]. apply Z.eqb_eq in H1. apply IH in H2. subst. reflexivity.
  - injection H as -> ->. rewrite Z.eqb_refl. apply IH. reflexivity.
Qed.

Lemma leqb_refl : forall a, leqb a a = true.
Proof. intros a. apply leqb_eq. reflexivity. Qed.

Lemma leqb_neq : forall a b, a <> b -> leqb a b = false.
Proof. intros a b H. destruct (leqb a b) eqn:E; [apply leqb_eq in E; contradiction | reflexivity]. Qed.

Lemma leqb_sym : forall a b, leqb a b = leqb b a.
Proof.
  intros a b. destruct (leqb a b) eqn:E.
  - apply leqb_eq in E. subst. symmetry. apply leqb_refl.
  - symmetry. apply leqb_neq. intros H. subst. rewrite leqb_refl in E. discriminate.
Qed.

Definition str_dec : forall a b : list Z, {a = b} + {a <> b} := list_eq_dec Z.eq_dec.

Lemma m_full_inj : forall a b, m_full a = m_full b -> a = b.
Proof. intros a b H. unfold m_full in H. injection H as H. apply app_inv_tail in H. exact H. Qed.

Lemma leqb_m_full : forall a b, leqb (m_full a) (m_full b) = leqb a b.
Proof.
  intros a b. destruct (str_dec a b) as [->|N]; [rewrite !leqb_refl; reflexivity|].
  rewrite (leqb_neq a b N). apply leqb_neq. intros H. apply N. apply m_full_inj. exact H.
Qed.

Section Dict.
  Context {A : Type}.

  Lemma sd_get_setitem_same : forall k (v : A) d, sd_get k (sd_setitem k v d) = Some v.
  Proof.
    intros k v d. induction d as [|[k' v'] d IH]; cbn [sd_setitem sd_get]; [rewrite leqb_refl; reflexivity|].
    destruct (leqb k' k) eqn:E; cbn [sd_get]; [rewrite leqb_refl; reflexivity | rewrite E; exact IH].
  Qed.

  Lemma sd_get_setitem_other : forall k k' (v : A) d, k' <> k -> sd_get k' (sd_setitem k v d) = sd_get k' d.
  Proof.
    intros k k' v d N. induction d as [|[k0 v0] d IH]; cbn [sd_setitem sd_get].
    - rewrite (leqb_neq k k') by congruence. reflexivity.
    - destruct (leqb k0 k) eqn:E; cbn [sd_get].
      + apply leqb_eq in E. subst k0. rewrite (leqb_neq k k') by congruence. reflexivity.
      + destruct (leqb k0 k'); [reflexivity | exact IH].
  Qed.

  Lemma in_setitem : forall k (v : A) d k' v', In (k', v') (sd_setitem k v d) -> (k', v') = (k, v) \/ In (k', v') d.
  Proof.
    intros k v d k' v'. induction d as [|[k0 v0] d IH]; cbn [sd_setitem]; intros H.
    - destruct H as [H|[]]. left. symmetry. exact H.
    - destruct (leqb k0 k).
      + destruct H as [H|H]; [left; symmetry; exact H | right; right; exact H].
      + destruct H as [H|H]; [right; left; exact H|]. destruct (IH H) as [H'|H']; [left; exact H' | right; right; exact H'].
  Qed.

  (* a dict filled in a loop whose values are determined by their keys *)
  Section Fill.
    Context {X : Type} (key : X -> list Z) (val : X -> A).
    Definition fill (xs : list X) (acc : list (list Z * A)) := fold_left (fun d x => sd_setitem (key x) (val x) d) xs acc.

    Lemma fill_get_absent : forall xs acc k, (forall x, In x xs -> key x <> k) -> sd_get k (fill xs acc) = sd_get k acc.
    Proof.
      induction xs as [|x xs IH]; intros acc k H; [reflexivity|]. unfold fill in *. cbn [fold_left].
      rewrite IH by (intros y Hy; apply H; right; exact Hy).
      apply sd_get_setitem_other. intros E. apply (H x (or_introl eq_refl)). symmetry. exact E.
    Qed.

    Lemma fill_get_present : forall xs acc x, In x xs ->
      (forall a b, In a xs -> In b xs -> key a = key b -> val a = val b) ->
      sd_get (key x) (fill xs acc) = Some (val x).
    Proof.
      induction xs as [|y xs IH]; intros acc x Hin Hc; [destruct Hin|]. unfold fill in *. cbn [fold_left].
      destruct (existsb (fun z => leqb (key z) (key x)) xs) eqn:Ex.
      - apply existsb_exists in Ex. destruct Ex as [z [Hz Ez]]. apply leqb_eq in Ez.
        rewrite <- Ez. rewrite (IH _ z Hz) by (intros a b Ha Hb; apply Hc; right; assumption).
        f_equal. apply Hc; [right; exact Hz | exact Hin | exact Ez].
      - assert (Hn : forall z, In z xs -> key z <> key x).
        { intros z Hz E. assert (existsb (fun z => leqb (key z) (key x)) xs = true) as Ht.
          { apply existsb_exists. exists z. split; [exact Hz | apply leqb_eq; exact E]. }
          rewrite Ht in Ex. discriminate. }
        change (sd_get (key x) (fill xs (sd_setitem (key y) (val y) acc)) = Some (val x)).
        rewrite fill_get_absent by exact Hn.
        destruct Hin as [->|Hin]; [apply sd_get_setitem_same|]. exfalso. apply (Hn x Hin). reflexivity.
    Qed.

    Lemma fill_in : forall xs acc k v, In (k, v) (fill xs acc) -> In (k, v) acc \/ exists x, In x xs /\ k = key x /\ v = val x.
    Proof.
      induction xs as [|y xs IH]; intros acc k v H; [left; exact H|]. unfold fill in *. cbn [fold_left] in H.
      destruct (IH _ _ _ H) as [H1|[x [Hx [E1 E2]]]].
      - apply in_setitem in H1. destruct H1 as [H1|H1]; [|left; exact H1].
        injection H1 as -> ->. right. exists y. repeat split. left. reflexivity.
      - right. exists x. repeat split; [right; exact Hx | exact E1 | exact E2].
    Qed.
  End Fill.
End Dict.

(* ---------- parse._validate (generated) = the string-level model ---------- *)
Section Generated.
  Variable Obj : Type.
  Variable dflt : Obj.
  Variable uuid : Obj -> list Z.
  Variable refs : list (list Z * Obj).

  Definition full2 (kv : list Z * list Z) : list Z * list Z := (m_full (fst kv), m_full (snd kv)).

  Lemma setitem_full2 : forall k v d, sd_setitem (m_full k) (m_full v) (map full2 d) = map full2 (sd_setitem k v d).
  Proof.
    intros k v d. induction d as [|[k' v'] d IH]; [reflexivity|].
    cbn [map sd_setitem full2 fst snd]. rewrite leqb_m_full. destruct (leqb k' k); cbn [map full2 fst snd]; [reflexivity|].
    f_equal. exact IH.
  Qed.

  (* the loop of _validate: it raises iff some tag is unknown; otherwise it fills the two tables, the replacements being
     keyed by the MATCHED TEXT '{' raw '}' and valued '{' uuid '}' *)
  Lemma validate_loop : forall rs rn rp,
    ps_for_each rs (fun match_ '(references_new, replacements) =>
        let tag := m_tag match_ in
        if negb (sd_has_key tag refs) then None else
        let full_tag := m_full match_ in
        let replacements := sd_setitem full_tag (([123] ++ uuid (sd_getitem dflt refs tag)) ++ [125]) replacements in
        let references_new := sd_setitem (uuid (sd_getitem dflt refs tag)) (sd_getitem dflt refs tag) references_new in
        Some (references_new, replacements)) (rn, map full2 rp)
    = if all_known refs rs
      then Some (fold_left (fun d raw => sd_setitem (uuid (obj_of dflt refs raw)) (obj_of dflt refs raw) d) rs rn,
                 map full2 (fold_left (fun d raw => sd_setitem raw (uuid (obj_of dflt refs raw)) d) rs rp))
      else None.
  Proof.
    induction rs as [|raw rs IH]; intros rn rp; [reflexivity|].
    cbn [ps_for_each all_known forallb fold_left]. cbv zeta. unfold m_tag.
    destruct (sd_has_key (strip raw) refs); cbn [negb andb]; [|reflexivity].
    change (([123] ++ uuid (sd_getitem dflt refs (strip raw))) ++ [125]) with (m_full (uuid (obj_of dflt refs raw))).
    rewrite setitem_full2. apply IH.
  Qed.

  Lemma fold_replace_full2 : forall R cmd,
    fold_left (fun cmd_new '(before, after) => py_replace before after cmd_new) (map full2 R) cmd
    = fold_left (fun s kv => py_replace (m_full (fst kv)) (m_full (snd kv)) s) R cmd.
  Proof. induction R as [|[k v] R IH]; intros cmd; [reflexivity|]. cbn [map fold_left full2 fst snd]. apply IH. Qed.

  Lemma gen_validate_is_model : forall cmd, _validate dflt uuid cmd refs = validate_str dflt uuid cmd refs.
  Proof.
    intros cmd. unfold _validate, validate_str. cbv zeta.
    pose proof (validate_loop (finditer cmd) [] []) as L. cbn [map] in L. rewrite L. clear L.
    unfold all_known. destruct (forallb (fun raw => sd_has_key (strip raw) refs) (finditer cmd)); [|reflexivity].
    rewrite fold_replace_full2. reflexivity.
  Qed.

  (* ---------- the rewrite on tokens does not change the meaning ---------- *)
  Lemma fold_subst_map : forall R toks,
    fold_left (fun ts kv => map (subst1 kv) ts) R toks = map (fun t => fold_left (fun t kv => subst1 kv t) R t) toks.
  Proof.
    induction R as [|kv R IH]; intros toks; cbn [fold_left]; [symmetry; apply map_id|].
    rewrite IH, map_map. reflexivity.
  Qed.

  Lemma fold_subst_text : forall R s, fold_left (fun t kv => subst1 kv t) R (Text s) = Text s.
  Proof. induction R as [|kv R IH]; intros s; [reflexivity|]. cbn [fold_left subst1]. apply IH. Qed.

  Lemma fold_subst_ref_fixed : forall R r, (forall k v, In (k, v) R -> k <> r) ->
    fold_left (fun t kv => subst1 kv t) R (Ref r) = Ref r.
  Proof.
    induction R as [|[k v] R IH]; intros r H; [reflexivity|]. cbn [fold_left subst1 fst snd].
    rewrite (leqb_neq r k) by (intros E; apply (H k v (or_introl eq_refl)); symmetry; exact E).
    apply IH. intros k' v' Hin. apply (H k' v'). right. exact Hin.
  Qed.

  Lemma fold_subst_ref : forall R r,
    (forall k v k' v', In (k, v) R -> In (k', v') R -> v <> k') ->
    fold_left (fun t kv => subst1 kv t) R (Ref r) = Ref (match sd_get r R with Some v => v | None => r end).
  Proof.
    induction R as [|[k v] R IH]; intros r H; [reflexivity|]. cbn [fold_left subst1 fst snd sd_get].
    rewrite (leqb_sym k r). destruct (leqb r k) eqn:E.
    - apply fold_subst_ref_fixed. intros k' v' Hin E'. subst k'.
      apply (H k v v v' (or_introl eq_refl) (or_intror Hin)). reflexivity.
    - apply IH. intros k1 v1 k2 v2 H1 H2. apply (H k1 v1 k2 v2); right; assumption.
  Qed.

  Lemma all_known_get : forall rs raw, all_known refs rs = true -> In raw rs ->
    sd_get (strip raw) refs = Some (obj_of dflt refs raw).
  Proof.
    intros rs raw H Hin. unfold all_known in H. rewrite forallb_forall in H. specialize (H raw Hin).
    unfold sd_has_key in H. unfold obj_of, sd_getitem. destruct (sd_get (strip raw) refs); [reflexivity | discriminate].
  Qed.

  Lemma raws_in : forall toks raw, In (Ref raw) toks -> In raw (raws toks).
  Proof.
    induction toks as [|t toks IH]; intros raw H; [destruct H|]. cbn [raws flat_map].
    destruct H as [->|H]; [left; reflexivity|]. apply in_or_app. right. apply IH. exact H.
  Qed.

  (* For every command (every spelling of its references): if _validate's rewrite succeeds, then reading the rewritten
     tokens against the new table (keyed by uuid) gives, piece by piece, what reading the original tokens against the
     original table (keyed by label) gives.  Hypotheses on the uuids of the objects the command refers to: they have no
     leading / trailing blank, distinct objects have distinct uuids, and no reference of the command is spelled exactly
     like one of these uuids. *)
  Lemma validate_tokens_meaning : forall toks toks' refs',
    validate_tokens dflt uuid toks refs = Some (toks', refs') ->
    (forall raw, In raw (raws toks) -> strip (uuid (obj_of dflt refs raw)) = uuid (obj_of dflt refs raw)) ->
    (forall a b, In a (raws toks) -> In b (raws toks) ->
       uuid (obj_of dflt refs a) = uuid (obj_of dflt refs b) -> obj_of dflt refs a = obj_of dflt refs b) ->
    (forall a b, In a (raws toks) -> In b (raws toks) -> uuid (obj_of dflt refs a) <> b) ->
    deref refs' toks' = deref refs toks.
  Proof.
    intros toks toks' refs' HV Hstrip Hinj Hfresh. unfold validate_tokens in HV.
    destruct (all_known refs (raws toks)) eqn:HK; [|discriminate]. injection HV as <- <-.
    set (rs := raws toks) in *.
    set (f := fun raw => uuid (obj_of dflt refs raw)).
    change (repl_of dflt uuid refs rs) with (fill (fun raw : list Z => raw) f rs []).
    change (refs_new_of dflt uuid refs rs) with (fill f (fun raw => obj_of dflt refs raw) rs []).
    rewrite fold_subst_map. unfold deref. rewrite map_map. apply map_ext_in. intros t Ht.
    destruct t as [s|raw]; [rewrite fold_subst_text; reflexivity|].
    assert (Hr : In raw rs) by (apply raws_in; exact Ht).
    rewrite fold_subst_ref.
    - rewrite (fill_get_present (fun raw : list Z => raw) f rs [] raw Hr) by (intros a b _ _ ->; reflexivity).
      assert (Hs : strip (f raw) = f raw) by (apply Hstrip; exact Hr). rewrite Hs.
      rewrite (fill_get_present f (fun raw => obj_of dflt refs raw) rs [] raw Hr) by exact Hinj.
      rewrite (all_known_get rs raw HK Hr). reflexivity.
    - intros k v k' v' H1 H2.
      apply fill_in in H1. destruct H1 as [[]|[x [Hx [-> ->]]]].
      apply fill_in in H2. destruct H2 as [[]|[y [Hy [-> _]]]].
      apply (Hfresh x y Hx Hy).
  Qed.

  (* the tokenizer loses nothing: a command is the concatenation of its tokens *)
  Lemma flush_detok : forall txt, detok (flush txt) = txt.
  Proof. intros [|c t]; [reflexivity|]. unfold detok, flush. cbn [flat_map detok1]. apply app_nil_r. Qed.

  Lemma detok_app : forall a b, detok (a ++ b) = detok a ++ detok b.
  Proof. intros a b. unfold detok. apply flat_map_app. Qed.

  Lemma tok_detok : forall s txt open_,
    detok (tok s txt open_) = txt ++ (match open_ with Some raw => LBRACE :: raw | None => [] end) ++ s.
  Proof.
    induction s as [|c s IH]; intros txt open_; cbn [tok].
    - destruct open_ as [raw|]; rewrite flush_detok, ?app_nil_r; reflexivity.
    - destruct (c =? LBRACE) eqn:E1.
      + apply Z.eqb_eq in E1. subst c. destruct open_ as [raw|]; rewrite IH; cbn [app]; rewrite <- ?app_assoc; reflexivity.
      + destruct (c =? RBRACE) eqn:E2.
        * apply Z.eqb_eq in E2. subst c. destruct open_ as [raw|].
          -- destruct (nonblank raw).
             ++ rewrite detok_app, flush_detok. change (detok (Ref raw :: tok s [] None)) with (detok1 (Ref raw) ++ detok (tok s [] None)).
                rewrite IH. cbn [detok1 app]. rewrite <- !app_assoc. reflexivity.
             ++ rewrite IH. cbn [app]. rewrite <- !app_assoc. cbn [app]. rewrite <- !app_assoc. reflexivity.
          -- rewrite IH. cbn [app]. rewrite <- app_assoc. reflexivity.
        * destruct open_ as [raw|]; rewrite IH; cbn [app]; rewrite <- ?app_assoc; reflexivity.
  Qed.

  Lemma tokenize_detok : forall s, detok (tokenize s) = s.
  Proof. intros s. unfold tokenize. rewrite tok_detok. reflexivity. Qed.
End Generated.

(* ---------- every spelling of a reference is one reference token, and its tag is the name ---------- *)
Definition brace_free (raw : list Z) : Prop := forall c, In c raw -> c <> LBRACE /\ c <> RBRACE.

Lemma tok_content : forall raw s txt acc, brace_free raw ->
  tok (raw ++ RBRACE :: s) txt (Some acc)
  = if nonblank (acc ++ raw) then flush txt ++ Ref (acc ++ raw) :: tok s [] None
    else tok s (txt ++ LBRACE :: (acc ++ raw) ++ [RBRACE]) None.
Proof.
  induction raw as [|c raw IH]; intros s txt acc Hb.
  - cbn [app tok]. rewrite app_nil_r. cbn. reflexivity.
  - cbn [app tok]. destruct (Hb c (or_introl eq_refl)) as [N1 N2].
    apply Z.eqb_neq in N1. apply Z.eqb_neq in N2. rewrite N1, N2.
    rewrite IH by (intros d Hd; apply Hb; right; exact Hd). rewrite <- app_assoc. reflexivity.
Qed.

Lemma spelling_is_one_reference : forall raw, brace_free raw -> nonblank raw = true ->
  tokenize (LBRACE :: raw ++ [RBRACE]) = [Ref raw] /\ finditer (LBRACE :: raw ++ [RBRACE]) = [raw].
Proof.
  intros raw Hb Hn.
  assert (E : tokenize (LBRACE :: raw ++ [RBRACE]) = [Ref raw]).
  { unfold tokenize. cbn [tok]. rewrite Z.eqb_refl. rewrite (tok_content raw [] [] [] Hb). cbn [app]. rewrite Hn. reflexivity. }
  split; [exact E|]. unfold finditer. rewrite E. reflexivity.
Qed.

Definition blank (l : list Z) : Prop := forall c, In c l -> is_space c = true.

Lemma lstrip_blank_app : forall l x, blank l -> lstrip (l ++ x) = lstrip x.
Proof.
  induction l as [|c l IH]; intros x H; [reflexivity|]. cbn [app lstrip]. rewrite (H c (or_introl eq_refl)).
  apply IH. intros d Hd. apply H. right. exact Hd.
Qed.

Lemma lstrip_solid : forall c x, is_space c = false -> lstrip (c :: x) = c :: x.
Proof. intros c x H. cbn [lstrip]. rewrite H. reflexivity. Qed.

Lemma blank_rev : forall l, blank l -> blank (rev l).
Proof. intros l H c Hc. apply H. apply in_rev. exact Hc. Qed.

(* the name is any text that starts and ends with a non-blank character: first :: middle ++ [last] or a single character *)
Lemma padding_erased : forall l r first middle last, blank l -> blank r ->
  is_space first = false -> is_space last = false ->
  strip (l ++ (first :: middle ++ [last]) ++ r) = first :: middle ++ [last].
Proof.
  intros l r first middle last Hl Hr Hf Hla. unfold strip.
  rewrite lstrip_blank_app by exact Hl. cbn [app]. rewrite lstrip_solid by exact Hf.
  change (first :: (middle ++ [last]) ++ r) with ((first :: middle ++ [last]) ++ r).
  rewrite rev_app_distr. rewrite lstrip_blank_app by (apply blank_rev; exact Hr).
  change (first :: middle ++ [last]) with ((first :: middle) ++ [last]). rewrite rev_app_distr. cbn [rev app].
  rewrite lstrip_solid by exact Hla.
  change (last :: rev middle ++ [first]) with ([last] ++ (rev middle ++ [first])).
  rewrite rev_app_distr, rev_app_distr, rev_involutive. cbn [rev app]. reflexivity.
Qed.

Lemma padding_erased_single : forall l r c, blank l -> blank r -> is_space c = false -> strip (l ++ [c] ++ r) = [c].
Proof.
  intros l r c Hl Hr Hc. unfold strip.
  rewrite lstrip_blank_app by exact Hl. cbn [app]. rewrite lstrip_solid by exact Hc.
  change (c :: r) with ([c] ++ r). rewrite rev_app_distr. rewrite lstrip_blank_app by (apply blank_rev; exact Hr).
  cbn [rev app]. rewrite lstrip_solid by exact Hc. reflexivity.
Qed.
