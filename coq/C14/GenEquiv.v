(* C14 — the removal cascade, update_id and reorder_components of the hand-written model are the functions REGENERATED
   from glue/core/data.py on every run (coq/gen/Gen_datamut.v: Data.remove_component, Data._removed_derived_that_depend_on,
   Data.update_id, Data.reorder_components), instantiated with the component table as the object state (Model.env14).
   The theorems about the cascade are transported to the generated code. *)
From Coq Require Import ZArith QArith List Bool Lia.
Import ListNotations.
From GV Require Import Common.Wire Common.PyInt gen.Gen_datamut C14.GenLemmas.
From GV Require Import C14.Model C14.Lemmas6.
Open Scope Z_scope.

Local Notation remove_fuel := Model.remove_fuel.

(* ---------- the hand model's cascade keeps a sub-table, whatever the fuel ---------- *)
Lemma fold_sub : forall (g : cid -> list (cid * comp) -> list (cid * comp)),
  (forall d l, exists f, g d l = filter f l) ->
  forall ds l, exists f, fold_left (fun acc d => g d acc) ds l = filter f l.
Proof.
  intros g Hg ds. induction ds as [|d ds IH]; intros l; cbn [fold_left].
  - exists (fun _ => true). clear. induction l; simpl; [reflexivity | f_equal; assumption].
  - destruct (Hg d l) as [f1 E1]. destruct (IH (g d l)) as [f2 E2]. exists (fun x => f1 x && f2 x).
    rewrite E2, E1. apply filter_filter.
Qed.

Lemma remove_fuel_sub : forall n c l, exists f, remove_fuel n c l = filter f l.
Proof.
  induction n as [|n IH]; intros c l.
  - exists (fun _ => true). cbn [Model.remove_fuel]. clear. induction l; simpl; [reflexivity | f_equal; assumption].
  - cbn [Model.remove_fuel]. destruct (memz c (keys l)).
    + destruct (fold_sub (remove_fuel n) (IH) (keys (filter (depends_on c) (del_key c l))) (del_key c l)) as [f E].
      exists (fun kv => negb (fst kv =? c) && f kv). cbv zeta. rewrite E. unfold del_key. apply filter_filter.
    + exists (fun _ => true). clear. induction l; simpl; [reflexivity | f_equal; assumption].
Qed.

Lemma remove_fuel_nodup : forall n c l, NoDup (keys l) -> NoDup (keys (remove_fuel n c l)).
Proof. intros n c l ND. destruct (remove_fuel_sub n c l) as [f E]. rewrite E. apply NoDup_keys_filter. exact ND. Qed.

(* ---------- the collect phase of Data._removed_derived_that_depend_on ---------- *)
Lemma depends_pred : forall c (ck : cid * comp),
  is_derived_comp (snd ck) && dm_mem c (from_ids (snd ck)) = depends_on c ck.
Proof. intros c [x k]. unfold depends_on. cbn [snd]. destruct k; reflexivity. Qed.

Lemma collect_is_deps : forall c (l : list (cid * comp)), NoDup (keys l) ->
  fold_left (fun (remove : list Z) cid =>
               if dm_mem c (from_ids (dm_getitem (Pixel (-1)) l cid)) then remove ++ [cid] else remove)
            (derived_components env14 l) []
  = keys (filter (depends_on c) l).
Proof.
  intros c l ND.
  rewrite (fold_collect (fun cid => dm_mem c (from_ids (dm_getitem (Pixel (-1)) l cid)))). cbn [app].
  unfold derived_components, component_ids. cbn [env14 dm_get_components dm_is_derived dm_K_default].
  rewrite (filter_keys_getitem2 comp (Pixel (-1)) is_derived_comp (fun k => dm_mem c (from_ids k)) l ND).
  unfold keys, dm_keys. f_equal. apply filter_ext. intros ck. apply depends_pred.
Qed.

(* ---------- Data.remove_component (generated) = the model's cascade ---------- *)
Lemma fold_agree : forall (g h : cid -> list (cid * comp) -> list (cid * comp)),
  (forall d l, NoDup (keys l) -> g d l = h d l) ->
  (forall d l, NoDup (keys l) -> NoDup (keys (h d l))) ->
  forall ds l, NoDup (keys l) -> fold_left (fun acc d => g d acc) ds l = fold_left (fun acc d => h d acc) ds l.
Proof.
  intros g h Hgh Hnd ds. induction ds as [|d ds IH]; intros l ND; cbn [fold_left]; [reflexivity|].
  rewrite Hgh by exact ND. apply IH. apply Hnd. exact ND.
Qed.

Lemma gen_remove_is_model : forall n c l, NoDup (keys l) -> g_remove_fuel n c l = remove_fuel n c l.
Proof.
  induction n as [|n IH]; intros c l ND; [reflexivity|].
  unfold g_remove_fuel. cbn [Gen_datamut.remove_component Model.remove_fuel].
  cbn [env14 dm_get_components dm_set_components dm_clear_mask_caches dm_hub_is_none dm_broadcast negb].
  change (dm_has_key c l) with (memz c (keys l)).
  destruct (memz c (keys l)) eqn:Hk; [|reflexivity].
  cbv zeta. change (dm_pop c l) with (del_key c l).
  assert (ND1 : NoDup (keys (del_key c l))) by (apply NoDup_keys_filter; exact ND).
  unfold _removed_derived_that_depend_on. cbv zeta.
  cbn [env14 dm_get_component dm_link_from_ids].
  rewrite (collect_is_deps c (del_key c l) ND1).
  apply (fold_agree (fun d acc => Gen_datamut.remove_component env14 n d acc) (remove_fuel n)).
  - intros d l0 ND0. apply (IH d l0 ND0).
  - intros d l0 ND0. apply remove_fuel_nodup. exact ND0.
  - exact ND1.
Qed.

Lemma gen_remove_component_is_model : forall c d, NoDup (keys (dcomps d)) -> g_remove_component c d = Model.remove_component c d.
Proof. intros c d ND. unfold g_remove_component, Model.remove_component. rewrite gen_remove_is_model by exact ND. reflexivity. Qed.

(* ---------- the cascade theorems, about the generated code ---------- *)
Lemma gen_remove_closure : forall c l, NoDup (keys l) -> In c (keys l) ->
  let l' := g_remove_fuel (length l) c l in
  (exists f, l' = filter f l) /\
  (forall x k, In (x, k) l -> (In (x, k) l' <-> ~ dependent l c x)).
Proof. intros c l ND Hin. cbv zeta. rewrite gen_remove_is_model by exact ND. apply remove_closure; assumption. Qed.

Lemma gen_remove_order_independent : forall c l1 l2, NoDup (keys l1) -> NoDup (keys l2) -> (forall e, In e l1 <-> In e l2) ->
  forall x k, In (x, k) (g_remove_fuel (length l1) c l1) <-> In (x, k) (g_remove_fuel (length l2) c l2).
Proof.
  intros c l1 l2 N1 N2 Hp x k. rewrite !gen_remove_is_model by assumption.
  apply remove_order_independent; assumption.
Qed.

Lemma gen_remove_values : forall c d, NoDup (keys (dcomps d)) ->
  let d' := g_remove_component c d in
  forall fuel x idx, In x (keys (dcomps d')) -> sem fuel d' x idx = sem fuel d x idx.
Proof. intros c d ND. cbv zeta. rewrite gen_remove_component_is_model by exact ND. apply remove_values. exact ND. Qed.
