(* C14 — Derived attributes compute their defining expression and go with their inputs.
   Statements only; every proof is [exact Lemmas.<name>]. *)
From Coq Require Import ZArith QArith List Bool.
Import ListNotations.
From GV Require Import Common.Wire gen.Gen_datamut gen.Gen_parse C14.ParseModel C14.Model C14.Lemmas C14.GenEquiv C14.ParseLemmas C14.LinkEquiv.
Open Scope Z_scope.

(* For every dataset (any stored / pixel / world attributes with any per-axis broadcast flags, any derived attributes
   defined by operator links, parsed text or a user function, nested to any depth), every attribute c and every basic
   view v: if reading data[c, v] yields an array, that array has the shape of the view and its element at position idx
   is [sem ... c (expand v idx)], i.e. (by definition of [sem]) the defining expression applied to the values of its inputs
   at the corresponding position of the full arrays. *)
Theorem derived_value : forall d v c a, wf_ds d ->
  get_data (S (length (dcomps d))) d v c = VArr a ->
  ashape a = vshape v (dshape d) /\
  forall idx, in_box (ashape a) idx -> aget a idx = sem (S (length (dcomps d))) d c (expand v idx).
Proof. exact Lemmas.derived_value. Qed.
Print Assumptions derived_value.

(* an operator link made of constants only is returned as a bare scalar by the code; its value is the expression *)
Theorem derived_value_scalar : forall d v c s, wf_ds d ->
  get_data (S (length (dcomps d))) d v c = VScalar s ->
  forall idx, sem (S (length (dcomps d))) d c (expand v idx) = s.
Proof. exact Lemmas.derived_value_scalar. Qed.
Print Assumptions derived_value_scalar.

(* remove_component(c), for every table (hence every insertion order): what remains is the old table, in its old
   order, minus exactly c and everything that depends on c directly or transitively *)
Theorem remove_closure : forall c l, NoDup (keys l) -> In c (keys l) ->
  let l' := remove_fuel (length l) c l in
  (exists f, l' = filter f l) /\
  (forall x k, In (x, k) l -> (In (x, k) l' <-> ~ dependent l c x)).
Proof. exact Lemmas.remove_closure. Qed.
Print Assumptions remove_closure.

(* ... and every attribute that remains keeps its value *)
Theorem remove_values : forall c d, NoDup (keys (dcomps d)) ->
  let d' := remove_component c d in
  forall fuel x idx, In x (keys (dcomps d')) -> sem fuel d' x idx = sem fuel d x idx.
Proof. exact Lemmas.remove_values. Qed.
Print Assumptions remove_values.

(* update_id(o, n) with a new identifier n: same order, and every attribute (under its possibly new identifier)
   has the value it had, derived attributes included (they evaluate through the renamed inputs) *)
Theorem update_id_preserves : forall o n d, NoDup (keys (dcomps d)) -> In o (keys (dcomps d)) -> ~ In n (keys (dcomps d)) -> o <> n ->
  (forall c k, In (c, k) (dcomps d) -> ~ In n (from_ids k)) ->
  let d' := update_id o n d in
  keys (dcomps d') = map (ren o n) (keys (dcomps d)) /\
  forall fuel x idx, x <> n -> sem fuel d' (ren o n x) idx = sem fuel d x idx.
Proof. exact Lemmas.update_id_preserves. Qed.
Print Assumptions update_id_preserves.

(* the position of the attributes in the table is irrelevant to what remove_component removes: two tables with the same
   entries in any two orders (so also orders in which a derived attribute precedes its inputs, as after re-defining an
   attribute in place or after reorder_components) keep exactly the same entries *)
Theorem remove_order_independent : forall c l1 l2, NoDup (keys l1) -> NoDup (keys l2) -> (forall e, In e l1 <-> In e l2) ->
  forall x k, In (x, k) (remove_fuel (length l1) c l1) <-> In (x, k) (remove_fuel (length l2) c l2).
Proof. exact Lemmas.remove_order_independent. Qed.
Print Assumptions remove_order_independent.

(* ---- tie of the removal cascade to the source by translation.  [g_remove_fuel] (Model.v) is Data.remove_component /
   Data._removed_derived_that_depend_on as REGENERATED from glue/core/data.py on every run (tools/gen/gen_datamut.py ->
   coq/gen/Gen_datamut.v), instantiated with the component table as the object state ([env14]). ---- *)

(* the generated cascade computes, on every table with distinct ids and with any fuel, what the hand-written model computes *)
Theorem gen_remove_is_model : forall n c l, NoDup (keys l) ->
  Gen_datamut.remove_component env14 n c l = Model.remove_fuel n c l.
Proof. exact GenEquiv.gen_remove_is_model. Qed.
Print Assumptions gen_remove_is_model.

(* remove_closure, about the generated code: what remains is the old table in its old order minus exactly c and everything
   that depends on c directly or transitively (a fuel equal to the number of attributes suffices) *)
Theorem gen_remove_closure : forall c l, NoDup (keys l) -> In c (keys l) ->
  let l' := Gen_datamut.remove_component env14 (length l) c l in
  (exists f, l' = filter f l) /\
  (forall x k, In (x, k) l -> (In (x, k) l' <-> ~ dependent l c x)).
Proof. exact GenEquiv.gen_remove_closure. Qed.
Print Assumptions gen_remove_closure.

(* remove_order_independent, about the generated code *)
Theorem gen_remove_order_independent : forall c l1 l2, NoDup (keys l1) -> NoDup (keys l2) -> (forall e, In e l1 <-> In e l2) ->
  forall x k, In (x, k) (Gen_datamut.remove_component env14 (length l1) c l1)
          <-> In (x, k) (Gen_datamut.remove_component env14 (length l2) c l2).
Proof. exact GenEquiv.gen_remove_order_independent. Qed.
Print Assumptions gen_remove_order_independent.

(* remove_values, about the generated code: every attribute that remains keeps its value *)
Theorem gen_remove_values : forall c d, NoDup (keys (dcomps d)) ->
  let d' := g_remove_component c d in
  forall fuel x idx, In x (keys (dcomps d')) -> sem fuel d' x idx = sem fuel d x idx.
Proof. exact GenEquiv.gen_remove_values. Qed.
Print Assumptions gen_remove_values.

(* ---- the surface syntax of parsed text expressions (glue/core/parse.py).  [tokenize] / [finditer] model TAG_RE.finditer
   (fixed text, emitted only for the known pattern; the class \s is read from the live re module); [_validate] is
   parse._validate REGENERATED from the source on every run (tools/gen/gen_parse.py -> coq/gen/Gen_parse.v). ---- *)

(* the generated _validate raises iff a tag is unknown, and otherwise applies, through str.replace, exactly the model's
   replacement table: one entry per distinct MATCHED TEXT '{' raw '}' (whatever its padding), rewritten to '{' uuid '}' *)
Theorem gen_validate_is_model : forall (Obj : Type) (dflt : Obj) (uuid : Obj -> list Z) refs cmd,
  _validate dflt uuid cmd refs = validate_str dflt uuid cmd refs.
Proof. exact ParseLemmas.gen_validate_is_model. Qed.
Print Assumptions gen_validate_is_model.

(* For every command and every spelling of its references: when the rewrite succeeds, reading the rewritten tokens
   against the new table (keyed by uuid) gives, piece by piece, what reading the original tokens against the original
   table (keyed by label) gives.  The uuids of the objects referred to have no leading / trailing blank, distinct
   objects have distinct uuids, and no reference of the command is spelled exactly like one of these uuids. *)
Theorem validate_tokens_meaning : forall (Obj : Type) (dflt : Obj) (uuid : Obj -> list Z) refs toks toks' refs',
  validate_tokens dflt uuid toks refs = Some (toks', refs') ->
  (forall raw, In raw (raws toks) -> strip (uuid (obj_of dflt refs raw)) = uuid (obj_of dflt refs raw)) ->
  (forall a b, In a (raws toks) -> In b (raws toks) ->
     uuid (obj_of dflt refs a) = uuid (obj_of dflt refs b) -> obj_of dflt refs a = obj_of dflt refs b) ->
  (forall a b, In a (raws toks) -> In b (raws toks) -> uuid (obj_of dflt refs a) <> b) ->
  deref refs' toks' = deref refs toks.
Proof. exact ParseLemmas.validate_tokens_meaning. Qed.
Print Assumptions validate_tokens_meaning.

(* the tokenizer loses nothing *)
Theorem tokenize_detok : forall s, detok (tokenize s) = s.
Proof. exact ParseLemmas.tokenize_detok. Qed.
Print Assumptions tokenize_detok.

(* every spelling '{' raw '}' (raw without curly brackets, not blank) is exactly one reference ... *)
Theorem spelling_is_one_reference : forall raw, brace_free raw -> nonblank raw = true ->
  tokenize (LBRACE :: raw ++ [RBRACE]) = [Ref raw] /\ finditer (LBRACE :: raw ++ [RBRACE]) = [raw].
Proof. exact ParseLemmas.spelling_is_one_reference. Qed.
Print Assumptions spelling_is_one_reference.

(* ... and its tag is the name, whatever blanks surround it *)
Theorem padding_erased : forall l r first middle last, blank l -> blank r ->
  is_space first = false -> is_space last = false ->
  m_tag (l ++ (first :: middle ++ [last]) ++ r) = first :: middle ++ [last].
Proof. exact ParseLemmas.padding_erased. Qed.
Print Assumptions padding_erased.

(* ---- ComponentLink.compute (the user-function path) is REGENERATED from glue/core/component_link.py on every run
   (tools/gen/gen_linkcompute.py -> coq/gen/Gen_linkcompute.v) over opaque array operations; [g_compute_func] (Model.v) is
   that code on the model's arrays.  It is the model's evaluation of a user-function link: fetch the inputs through the
   view, unbroadcast, broadcast to the common shape, apply the function, (no shape repair needed), broadcast to the shape
   of the first input.  A ravel / reshape inserted into the source appears in the generated term. ---- *)
Theorem gen_compute_is_model : forall rv e leaf,
  (forall c s, In c (dedup (leaves e)) -> leaf c <> VScalar s) ->
  g_compute_func e leaf = compute_func rv e leaf.
Proof. exact LinkEquiv.gen_compute_is_model. Qed.
Print Assumptions gen_compute_is_model.
