(* C03 - which links are in force, as TRANSLATED from LinkManager._links / ._inverse_links and the expression
   `self._links | self._inverse_links` of update_externally_derivable_components (coq/gen/Gen_links.v, round 5):
   the translated set contains exactly every registered link - the links internal to the datasets of the collection
   (Data.links: coordinate links and the links of derived components) and the member links of every entry of
   _external_links - and the `.inverse` of each of them that has one.  Stated for every iteration order of Python sets. *)
From Coq Require Import ZArith List Bool Arith Lia.
Import ListNotations.
From GV Require Import Common.PyInt gen.Gen_links.

Section LinksInForce.
  Variables L E D : Type.
  Variable leqb : L -> L -> bool.
  Hypothesis leqb_spec : forall a b, leqb a b = true <-> a = b.      (* `==` / hash on ComponentLink objects is identity *)
  Variable data_links_attr : D -> list L.
  Variable is_collection : E -> bool.
  Variable coll_links : E -> list L.
  Variable entry_link : E -> L.

  Lemma set_mem_In : forall x s, set_mem leqb x s = true <-> In x s.
  Proof.
    intros x s. unfold set_mem. rewrite existsb_exists. split.
    - intros [y [Hy He]]. apply leqb_spec in He. subst. exact Hy.
    - intros H. exists x. split; auto. apply leqb_spec. reflexivity.
  Qed.

  Lemma set_add_In : forall s y x, In x (set_add leqb s y) <-> In x s \/ x = y.
  Proof.
    intros s y x. unfold set_add. destruct (set_mem leqb y s) eqn:Em.
    - apply set_mem_In in Em. split; auto. intros [H|H]; auto. subst. exact Em.
    - rewrite in_app_iff. simpl. intuition.
  Qed.

  Lemma fold_add_In : forall l acc x, In x (fold_left (set_add leqb) l acc) <-> In x acc \/ In x l.
  Proof.
    induction l as [|y r IH]; intros acc x; simpl.
    - tauto.
    - rewrite IH, set_add_In. intuition.
  Qed.

  Lemma set_of_list_In : forall l x, In x (set_of_list leqb l) <-> In x l.
  Proof. intros l x. unfold set_of_list. rewrite fold_add_In. simpl. tauto. Qed.

  Lemma set_union_In : forall a b x, In x (set_union leqb a b) <-> In x a \/ In x b.
  Proof. intros a b x. unfold set_union. apply fold_add_In. Qed.

  (* the member links of one entry of _external_links: a LinkCollection's links, or the ComponentLink itself *)
  Definition entry_members (e : E) : list L := if is_collection e then coll_links e else [entry_link e].

  (* a registered link: internal to a dataset of the collection, or a member of a registered entry *)
  Definition registered (dc : option (list D)) (ext : list E) (l : L) : Prop :=
    (exists dl d, dc = Some dl /\ In d dl /\ In l (data_links_attr d)) \/
    (exists e, In e ext /\ In l (entry_members e)).

  Lemma ext_fold_In : forall ext acc x,
    In x (fold_left (fun external_links link =>
            if is_collection link
            then fold_left (fun external_links0 sublink => set_add leqb external_links0 sublink) (coll_links link) external_links
            else set_add leqb external_links (entry_link link)) ext acc)
    <-> In x acc \/ exists e, In e ext /\ In x (entry_members e).
  Proof.
    induction ext as [|e r IH]; intros acc x; simpl.
    - split; auto. intros [H|[e [[] _]]]. exact H.
    - rewrite IH. unfold entry_members at 2. destruct (is_collection e) eqn:Ec.
      + change (fold_left (fun external_links0 sublink => set_add leqb external_links0 sublink) (coll_links e) acc)
          with (fold_left (set_add leqb) (coll_links e) acc).
        rewrite fold_add_In. split.
        * intros [[H|H]|[e' [He' Hx]]]; auto.
          -- right. exists e. split; auto. unfold entry_members. rewrite Ec. exact H.
          -- right. exists e'. auto.
        * intros [H|[e' [[He'|He'] Hx]]]; auto.
          -- subst e'. unfold entry_members in Hx. rewrite Ec in Hx. auto.
          -- right. exists e'. auto.
      + rewrite set_add_In. split.
        * intros [[H|H]|[e' [He' Hx]]]; auto.
          -- right. exists e. split; auto. unfold entry_members. rewrite Ec. simpl. auto.
          -- right. exists e'. auto.
        * intros [H|[e' [[He'|He'] Hx]]]; auto.
          -- subst e'. unfold entry_members in Hx. rewrite Ec in Hx. destruct Hx as [Hx|[]]. auto.
          -- right. exists e'. auto.
  Qed.

  (* LinkManager._links *)
  Theorem gen_links_spec : forall dc ext l,
    In l (lm_links L E D leqb data_links_attr is_collection coll_links entry_link dc ext) <-> registered dc ext l.
  Proof.
    intros dc ext l. unfold lm_links, registered. destruct dc as [dl|].
    - rewrite set_union_In, set_of_list_In, in_flat_map, ext_fold_In. simpl. split.
      + intros [[d [Hd Hl]]|[[]|H]]; [left; exists dl, d; auto|right; exact H].
      + intros [[dl' [d [Heq [Hd Hl]]]]|H]; [inversion Heq; subst; left; exists d; auto|right; right; exact H].
    - rewrite set_union_In, ext_fold_In. simpl. split.
      + intros [[]|[[]|H]]. right. exact H.
      + intros [[dl' [d [Heq _]]]|H]; [discriminate|right; right; exact H].
  Qed.

  Variable inverse : L -> option L.
  Variable iterL : list L -> list L.
  Hypothesis iterL_ok : forall s x, In x (iterL s) <-> In x s.

  (* LinkManager._inverse_links *)
  Theorem gen_inverse_links_spec : forall dc ext l,
    In l (lm_inverse_links L E D leqb data_links_attr is_collection coll_links entry_link inverse iterL dc ext)
    <-> exists l0, registered dc ext l0 /\ inverse l0 = Some l.
  Proof.
    intros dc ext l. unfold lm_inverse_links. rewrite set_of_list_In, in_flat_map. split.
    - intros [l0 [H0 Hl]]. apply iterL_ok, gen_links_spec in H0. exists l0. split; auto.
      destruct (inverse l0) as [i|]; simpl in Hl; [destruct Hl as [Hl|[]]; subst; reflexivity|contradiction].
    - intros [l0 [H0 Hi]]. exists l0. split. { apply iterL_ok, gen_links_spec. exact H0. } rewrite Hi. simpl. auto.
  Qed.

  (* the set handed to discover_links: `self._links | self._inverse_links` *)
  Theorem gen_links_in_force_spec : forall dc ext l,
    In l (lm_links_in_force L E D leqb data_links_attr is_collection coll_links entry_link inverse iterL dc ext)
    <-> registered dc ext l \/ exists l0, registered dc ext l0 /\ inverse l0 = Some l.
  Proof.
    intros dc ext l. unfold lm_links_in_force. rewrite set_union_In, gen_links_spec, gen_inverse_links_spec. tauto.
  Qed.
End LinksInForce.
