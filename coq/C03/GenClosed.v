(* C03 - round 6: the set of links in force, as TRANSLATED from `self._links | self._inverse_links`
   (gen/Gen_links.v: lm_links_in_force), instantiated at the manager model's types (Model.g_links_in_force), has exactly the
   elements of the hand model's [all_links s]; hence the translated update loop, run with the translated set (no parameter),
   installs on every dataset the same derivations as the hand model's [recompute] stores - same keys, same depth for every
   attribute, every stored link a valid minimal derivation step - up to the choice among links of equal merit, which
   depends on the enumeration order of a Python set. *)
From Coq Require Import ZArith List Bool Arith Lia.
Import ListNotations.
From GV Require Import Common.Wire Common.PyInt gen.Gen_links C03.Model C03.Lemmas1 C03.Lemmas3 C03.GenEquiv C03.GenManager
                       C03.GenLinks.
Open Scope nat_scope.

(* ------------------------------------------------------------------ equality on link objects reflects = *)
Lemma zs_eqb_eq : forall a b, zs_eqb a b = true <-> a = b.
Proof.
  induction a as [|x a IH]; intros [|y b]; simpl; split; intros H; try reflexivity; try discriminate.
  - apply andb_true_iff in H. destruct H as [H1 H2]. apply Z.eqb_eq in H1. apply IH in H2. subst. reflexivity.
  - inversion H; subst. apply andb_true_iff. split; [apply Z.eqb_refl|apply IH; reflexivity].
Qed.

Lemma cids_eqb_eq : forall a b, cids_eqb a b = true <-> a = b.
Proof.
  induction a as [|x a IH]; intros [|y b]; simpl; split; intros H; try reflexivity; try discriminate.
  - apply andb_true_iff in H. destruct H as [H1 H2]. apply cid_eqb_eq in H1. apply IH in H2. subst. reflexivity.
  - inversion H; subst. apply andb_true_iff. split; [apply cid_eqb_refl|apply IH; reflexivity].
Qed.

Lemma fn_eqb_eq : forall f g, fn_eqb f g = true <-> f = g.
Proof.
  intros [c1 k1] [c2 k2]. unfold fn_eqb. simpl. rewrite andb_true_iff, Z.eqb_eq, zs_eqb_eq. split.
  - intros [H1 H2]. subst. reflexivity.
  - intros H. inversion H. auto.
Qed.

Lemma link_seqb_eq : forall a b, link_seqb a b = true <-> a = b.
Proof.
  intros [i1 f1 t1 g1] [i2 f2 t2 g2]. unfold link_seqb. simpl.
  rewrite !andb_true_iff, Z.eqb_eq, cids_eqb_eq, cid_eqb_eq, fn_eqb_eq. split.
  - intros [[[H1 H2] H3] H4]. subst. reflexivity.
  - intros H. inversion H. auto.
Qed.

Lemma glink_eqb_eq : forall a b, glink_eqb a b = true <-> a = b.
Proof.
  intros [l1 o1] [l2 o2]. unfold glink_eqb. simpl. rewrite andb_true_iff, link_seqb_eq. split.
  - intros [H1 H2]. subst. destruct o1 as [f|]; destruct o2 as [g|]; try discriminate; [|reflexivity].
    apply fn_eqb_eq in H2. subst. reflexivity.
  - intros H. inversion H. subst. split; auto. destruct o2 as [g|]; [apply fn_eqb_eq|]; reflexivity.
Qed.

(* ------------------------------------------------------------------ the inverse of a link object *)
Lemma g_inverse_spec : forall p q, g_inverse p = Some q <-> In (fst q) (inv_links (fst p) (snd p)) /\ snd q = Some (l_fn (fst p)).
Proof.
  intros [l og] [i oi]. unfold g_inverse, inv_links. simpl.
  destruct og as [g|]; [|split; [discriminate|intros [[] _]]].
  destruct (l_from l) as [|f [|f2 r]]; simpl; try (split; [discriminate|intros [[] _]]).
  split.
  - intros H. inversion H. auto.
  - intros [[H|[]] H2]. subst. reflexivity.
Qed.

Lemma find_first : forall {A} (p : A -> bool) l x, In x l -> p x = true -> exists y, find p l = Some y /\ In y l /\ p y = true.
Proof.
  intros A p l. induction l as [|a r IH]; intros x Hin Hp; [contradiction|]. simpl.
  destruct (p a) eqn:E.
  - exists a. simpl. auto.
  - destruct Hin as [Hin|Hin]; [subst; congruence|].
    destruct (IH x Hin Hp) as [y [H1 [H2 H3]]]. exists y. simpl. auto.
Qed.

Lemma is_inverse_of_spec : forall l i, is_inverse_of l i = true <->
  l_from l = [l_to i] /\ l_from i = [l_to l] /\ l_id i = l_id l.
Proof.
  intros l i. unfold is_inverse_of. destruct (l_from l) as [|f [|f2 r]].
  - split; [discriminate|intros [H _]; discriminate].
  - rewrite !andb_true_iff, cids_eqb_eq, cid_eqb_eq, Z.eqb_eq. split.
    + intros [[H1 H2] H3]. subst. auto.
    + intros [H1 [H2 H3]]. inversion H1. auto.
  - split; [discriminate|intros [H _]; discriminate].
Qed.

(* the inverse objects of a dataset's derived-component links are exactly the stored inverses *)
Lemma der_inverse_in_dinv : forall d l q, g_inverse (l, der_inverse_fn d l) = Some q -> In (fst q) (d_dinv d).
Proof.
  intros d l q H. apply g_inverse_spec in H. destruct H as [H _]. simpl in H.
  unfold der_inverse_fn in H. destruct (find (is_inverse_of l) (d_dinv d)) as [i|] eqn:Ef; [|simpl in H; contradiction].
  apply find_some in Ef. destruct Ef as [Hin Hp]. apply is_inverse_of_spec in Hp. destruct Hp as [H1 [H2 H3]].
  unfold inv_links in H. rewrite H1 in H. simpl in H. destruct H as [H|[]].
  replace (fst q) with i; [exact Hin|]. rewrite <- H. destruct i as [ii fi ti gi]. simpl in *. subst. reflexivity.
Qed.

Lemma dinv_is_der_inverse : forall d i, dinv_paired d -> In i (d_dinv d) ->
  exists l, In l (d_der d) /\ g_inverse (l, der_inverse_fn d l) = Some (i, Some (l_fn l)).
Proof.
  intros d i [HA HB] Hi. destruct (HA i Hi) as [l [Hl [H1 [H2 H3]]]]. exists l. split; [exact Hl|].
  apply g_inverse_spec. simpl. split; [|reflexivity].
  assert (Hp : is_inverse_of l i = true) by (apply is_inverse_of_spec; auto).
  destruct (find_first _ _ _ Hi Hp) as [y [Hf [Hy Hpy]]]. unfold der_inverse_fn. rewrite Hf.
  apply is_inverse_of_spec in Hpy. destruct Hpy as [_ [Hy2 _]].
  assert (y = i). { apply HB; auto. congruence. } subst y.
  unfold inv_links. rewrite H1. simpl. left.
  destruct i as [ii fi ti gi]. simpl in *. subst. reflexivity.
Qed.

(* ------------------------------------------------------------------ (2) same elements *)
Lemma registered_objs : forall s p, (forall e, In e (s_ext s) -> entry_shaped e) ->
  (registered glink entry dataset g_data_links e_coll e_links g_entry_link (Some (filter d_member (s_data s))) (s_ext s) p <->
   (exists d, In d (s_data s) /\ d_member d = true /\
              ((In (fst p) (d_int d) /\ snd p = None) \/ (In (fst p) (d_der d) /\ snd p = der_inverse_fn d (fst p)))) \/
   (exists e, In e (s_ext s) /\ In p (e_links e))).
Proof.
  intros s p Hpe. unfold registered. split.
  - intros [[dl [d [Hdl [Hd Hq]]]]|[e [He Hq]]].
    + left. inversion Hdl; subst dl. apply filter_In in Hd. destruct Hd as [Hd Hm]. exists d. split; [|split]; auto.
      unfold g_data_links in Hq. apply in_app_iff in Hq. destruct Hq as [Hq|Hq]; apply in_map_iff in Hq;
        destruct Hq as [l0 [Hl0 Hin]]; subst p; simpl; auto.
    + right. exists e. split; auto. unfold entry_members in Hq. destruct (e_coll e) eqn:Ec; [exact Hq|].
      destruct (Hpe e He Ec) as [p0 Hp0]. unfold g_entry_link in Hq. rewrite Hp0 in *. exact Hq.
  - intros [[d [Hd [Hm Hq]]]|[e [He Hq]]].
    + left. exists (filter d_member (s_data s)), d. split; [reflexivity|]. split; [apply filter_In; auto|].
      unfold g_data_links. apply in_app_iff. destruct p as [l og]. simpl in Hq.
      destruct Hq as [[Hq Ho]|[Hq Ho]]; subst og; [left|right]; apply in_map_iff; exists l; auto.
    + right. exists e. split; auto. unfold entry_members. destruct (e_coll e) eqn:Ec; [exact Hq|].
      destruct (Hpe e He Ec) as [p0 Hp0]. unfold g_entry_link. rewrite Hp0 in *. exact Hq.
Qed.

Theorem gen_links_in_force_is_all_links : forall s iterL, iterL_ok iterL -> links_paired s ->
  forall l, In l (g_links_in_force iterL s) <-> In l (all_links s).
Proof.
  intros s iterL Hiter [Hpd Hpe] l. unfold g_links_in_force, g_links_in_force_objs. rewrite in_map_iff.
  rewrite in_all_links. split.
  - intros [p [Hfst Hp]]. subst l.
    apply (gen_links_in_force_spec glink entry dataset glink_eqb glink_eqb_eq) in Hp; [|exact Hiter].
    destruct Hp as [Hp|[p0 [Hp0 Hinv]]].
    + apply (registered_objs s p Hpe) in Hp. destruct Hp as [[d [Hd [Hm Hq]]]|[e [He Hq]]].
      * left. exists d. split; [|split]; auto. unfold ds_links. rewrite !in_app_iff. tauto.
      * right. exists e. split; auto. apply in_entry_links. exists p. auto.
    + apply (registered_objs s p0 Hpe) in Hp0. destruct Hp0 as [[d [Hd [Hm Hq]]]|[e [He Hq]]].
      * left. exists d. split; [|split]; auto. unfold ds_links. rewrite !in_app_iff. right. right.
        destruct p0 as [l0 og0]. simpl in Hq. destruct Hq as [[Hq Ho]|[Hq Ho]]; subst og0.
        -- (* coordinate links declare no inverse *) unfold g_inverse, inv_links in Hinv. simpl in Hinv. discriminate.
        -- apply (der_inverse_in_dinv d l0 p Hinv).
      * right. exists e. split; auto. apply in_entry_links. exists p0. split; auto. right.
        apply g_inverse_spec in Hinv. tauto.
  - intros [[d [Hd [Hm Hl]]]|[e [He Hl]]].
    + unfold ds_links in Hl. rewrite !in_app_iff in Hl. destruct Hl as [Hl|[Hl|Hl]].
      * exists (l, None). split; [reflexivity|].
        apply (gen_links_in_force_spec glink entry dataset glink_eqb glink_eqb_eq); [exact Hiter|]. left.
        apply (registered_objs s _ Hpe). left. exists d. simpl. auto.
      * exists (l, der_inverse_fn d l). split; [reflexivity|].
        apply (gen_links_in_force_spec glink entry dataset glink_eqb glink_eqb_eq); [exact Hiter|]. left.
        apply (registered_objs s _ Hpe). left. exists d. simpl. auto.
      * destruct (dinv_is_der_inverse d l (Hpd d Hd) Hl) as [l0 [Hl0 Hinv]].
        exists (l, Some (l_fn l0)). split; [reflexivity|].
        apply (gen_links_in_force_spec glink entry dataset glink_eqb glink_eqb_eq); [exact Hiter|]. right.
        exists (l0, der_inverse_fn d l0). split; [|exact Hinv].
        apply (registered_objs s _ Hpe). left. exists d. simpl. auto.
    + apply in_entry_links in Hl. destruct Hl as [p [Hp [Hl|Hl]]].
      * exists p. split; [auto|].
        apply (gen_links_in_force_spec glink entry dataset glink_eqb glink_eqb_eq); [exact Hiter|]. left.
        apply (registered_objs s _ Hpe). right. exists e. auto.
      * exists (l, Some (l_fn (fst p))). split; [reflexivity|].
        apply (gen_links_in_force_spec glink entry dataset glink_eqb glink_eqb_eq); [exact Hiter|]. right.
        exists p. split; [apply (registered_objs s _ Hpe); right; exists e; auto|].
        apply g_inverse_spec. simpl. auto.
Qed.

(* ------------------------------------------------------------------ (3) the update loop with the translated set *)
Lemma same_derivations_of_same_links : forall own L L' t0 t,
  (forall l, In l L' <-> In l L) -> discover own L = Some t0 -> discover own L' = Some t ->
  same_derivations own L t0 t.
Proof.
  intros own L L' t0 t Hsame H0 H. unfold same_derivations.
  assert (Hinc : forall l, In l L' -> In l L) by (intros l; apply Hsame).
  assert (Hinc' : forall l, In l L -> In l L') by (intros l; apply Hsame).
  split; [|split].
  - intros c. rewrite (discover_sound_complete _ _ _ H0 c), (discover_sound_complete _ _ _ H c). split.
    + intros [[n Hn] Ho]. split; auto. exists n. apply (Derivable_incl _ _ _ _ _ Hinc' Hn).
    + intros [[n Hn] Ho]. split; auto. exists n. apply (Derivable_incl _ _ _ _ _ Hinc Hn).
  - intros c. apply (discover_order_irrelevant own L L' t0 t); auto. intros l. symmetry. apply Hsame.
  - intros c k l Hl. destruct (discover_wellfounded _ _ _ H c k l Hl) as (H1 & H2 & H3 & H4).
    split; [apply Hinc; exact H1|]. split; [exact H2|]. split; [exact H3|]. split; [|exact H4].
    assert (Hd : depth_of own t c = Some k).
    { unfold depth_of. apply mem_false in H3. rewrite H3, Hl. reflexivity. }
    destruct (discover_min_depth _ _ _ H c k Hd) as [D M]. split.
    + apply (Derivable_incl _ _ _ _ _ Hinc D).
    + intros n Hn. apply M. apply (Derivable_incl _ _ _ _ _ Hinc' Hn).
Qed.

Lemma Forall2_map_same : forall {A B C} (R : B -> C -> Prop) (f : A -> B) (g : A -> C) l,
  (forall x, In x l -> R (f x) (g x)) -> Forall2 R (map f l) (map g l).
Proof.
  intros A B C R f g l. induction l as [|x r IH]; intros H; simpl; constructor.
  - apply H. left. reflexivity.
  - apply IH. intros y Hy. apply H. right. exact Hy.
Qed.

Theorem gen_update_is_recompute_closed : forall s iterL iter fuel,
  iterL_ok iterL -> iter_ok iter -> links_paired s ->
  fuel_for (g_links_in_force iterL s) <= fuel ->
  exists tabs : list table,
    g_update iter fuel (g_links_in_force iterL s) (map gdata_of (filter d_member (s_data s))) =
      Ok ([], map (fun dt => EvSet cid link gdata (gdata_of (fst dt)) (installed (gdata_of (fst dt)) (snd dt)))
                  (combine (filter d_member (s_data s)) tabs), tt) /\
    length tabs = length (filter d_member (s_data s)) /\
    Forall2 (fun d t => same_derivations (d_own d) (all_links s) (d_tbl d) t)
            (filter d_member (s_data (recompute s))) tabs.
Proof.
  intros s iterL iter fuel HiterL Hiter Hp Hfuel.
  set (L := g_links_in_force iterL s) in *.
  exists (map (fun d => fst (disc (d_own d) L)) (filter d_member (s_data s))).
  split; [|split].
  - rewrite (gen_update_installs iter fuel L _ Hiter Hfuel). f_equal. f_equal. f_equal.
    generalize (filter d_member (s_data s)) as ds. intros ds. induction ds as [|d r IH]; simpl; [reflexivity|].
    rewrite IH. unfold gdata_of at 1 2 3. cbn [g_main g_coord]. rewrite app_nil_r. reflexivity.
  - apply map_length.
  - unfold recompute. cbn [s_data]. rewrite filter_map_member.
    2:{ intros d. destruct (d_member d) eqn:E; [unfold set_tbl; simpl; exact E|exact E]. }
    apply Forall2_map_same. intros d Hd. apply filter_In in Hd. destruct Hd as [Hd Hm]. rewrite Hm.
    unfold set_tbl. cbn [d_own d_tbl].
    apply (same_derivations_of_same_links (d_own d) (all_links s) L).
    + intros l. apply gen_links_in_force_is_all_links; assumption.
    + apply disc_ok.
    + apply disc_ok.
Qed.

(* ------------------------------------------------------------------ the pairing invariant is kept by every operation *)
Lemma dinv_paired_fields : forall d d', d_der d' = d_der d -> d_dinv d' = d_dinv d -> dinv_paired d -> dinv_paired d'.
Proof. intros d d' H1 H2 H. unfold dinv_paired in *. rewrite H1, H2. exact H. Qed.

Lemma recompute_paired : forall s, links_paired s -> links_paired (recompute s).
Proof.
  intros s [Hd He]. split; [|exact He]. intros d Hin. rewrite recompute_data in Hin. apply in_map_iff in Hin.
  destruct Hin as [d0 [E Hin]]. subst d. destruct (retbl_fields (all_links s) d0) as (_&_&_&_&_&_&_&H1&H2).
  apply (dinv_paired_fields d0); auto.
Qed.

Lemma sync_paired : forall s, links_paired s -> links_paired (sync s).
Proof. intros s H. unfold sync. destruct (s_delay s); [apply recompute_paired|]; exact H. Qed.

Lemma set_ext_paired : forall s ext, links_paired s -> (forall e, In e ext -> entry_shaped e) -> links_paired (set_ext s ext).
Proof. intros s ext [Hd He] H. split; simpl; auto. Qed.

Lemma drop_links_paired : forall cs s, links_paired s -> links_paired (drop_links cs s).
Proof.
  intros cs s H. unfold drop_links. destruct (Nat.eqb _ _); [exact H|]. apply recompute_paired.
  apply set_ext_paired; [exact H|]. intros e He. apply filter_In in He. destruct H as [_ H]. apply H. tauto.
Qed.

Lemma put_paired : forall s d', links_paired s -> dinv_paired d' -> links_paired (set_data s (put_ds d' (s_data s))).
Proof.
  intros s d' [Hd He] H. split; simpl; auto. intros d Hin. apply put_ds_in in Hin. destruct Hin as [Hin|Hin]; [subst; exact H|auto].
Qed.

Lemma add_one_in' : forall e ext x, In x (fst (add_one e ext)) -> In x ext \/ x = e.
Proof.
  intros e ext x. unfold add_one. destruct (e_coll e).
  - destruct (has_id (e_id e) ext); simpl; auto. rewrite in_app_iff. simpl. intuition.
  - destruct (e_inv e) as [j|]; [destruct (has_id j ext)|]; simpl; auto; rewrite in_app_iff; simpl; intuition.
Qed.

Lemma add_all_in' : forall es ext x, In x (fst (add_all es ext)) -> In x ext \/ In x es.
Proof.
  intros es. induction es as [|e r IH]; simpl; intros ext x H; auto.
  destruct (add_one e ext) as [ext' code] eqn:Ea.
  assert (Hone : forall y, In y ext' -> In y ext \/ y = e).
  { intros y Hy. apply add_one_in'. rewrite Ea. exact Hy. }
  destruct (Z.eqb code 0).
  - apply IH in H. destruct H as [H|H]; auto. apply Hone in H. intuition.
  - simpl in H. apply Hone in H. intuition.
Qed.

Lemma remove_first_in' : forall i ext x, In x (remove_first i ext) -> In x ext.
Proof.
  intros i ext. induction ext as [|e r IH]; simpl; intros x H; auto.
  destruct (Z.eqb (e_id e) i); simpl in *; auto. destruct H; auto.
Qed.

Lemma existsb_mem_single : forall x cs, existsb (fun c => mem c [x]) cs = mem x cs.
Proof.
  intros x cs. induction cs as [|c r IH]; [reflexivity|].
  change (mem x (c :: r)) with (cid_eqb x c || mem x r). cbn [existsb]. rewrite IH.
  unfold mem at 1. cbn [existsb]. rewrite orb_false_r.
  f_equal. destruct (cid_eqb c x) eqn:E.
  - apply cid_eqb_eq in E. subst. symmetry. apply cid_eqb_refl.
  - destruct (cid_eqb x c) eqn:E'; [|reflexivity]. apply cid_eqb_eq in E'. subst. rewrite cid_eqb_refl in E. discriminate.
Qed.

(* a link and its stored inverse mention the same two attributes: the removal cascade drops both or neither *)
Lemma der_hit_inverse : forall cs l i, l_from l = [l_to i] -> l_from i = [l_to l] -> der_hit cs i = der_hit cs l.
Proof.
  intros cs l i H1 H2. unfold der_hit. rewrite H1, H2, !existsb_mem_single. apply orb_comm.
Qed.

Lemma keep_paired : forall cs d, dinv_paired d ->
  (forall i, In i (keep_dinv cs d) ->
     exists l, In l (keep_der cs d) /\ l_from l = [l_to i] /\ l_from i = [l_to l] /\ l_id i = l_id l) /\
  (forall i i', In i (keep_dinv cs d) -> In i' (keep_dinv cs d) -> l_from i = l_from i' -> i = i').
Proof.
  intros cs d [HA HB]. unfold keep_dinv, keep_der. split.
  - intros i Hi. apply filter_In in Hi. destruct Hi as [Hi Hk]. destruct (HA i Hi) as [l [Hl [H1 [H2 H3]]]].
    exists l. split; [|auto]. apply filter_In. split; [exact Hl|]. rewrite <- (der_hit_inverse cs l i H1 H2). exact Hk.
  - intros i i' Hi Hi'. apply filter_In in Hi. apply filter_In in Hi'. apply HB; tauto.
Qed.

Lemma step_paired : forall s o, links_paired s -> shaped_op o -> links_paired (fst (step s o)).
Proof.
  intros s o Hp Hs. pose proof Hp as [Hd He].
  destruct o as [e|i|es|i c|i c|i l og|i|i|i| |]; simpl in Hs |- *.
  - destruct (add_one e (s_ext s)) as [ext' code] eqn:Ea.
    destruct (Nat.eqb (length ext') (length (s_ext s))); simpl; auto.
    apply sync_paired, set_ext_paired; auto. intros x Hx.
    assert (Hx' : In x (s_ext s) \/ x = e). { apply add_one_in'. rewrite Ea. exact Hx. }
    destruct Hx' as [Hx'|Hx']; [auto|subst; exact Hs].
  - destruct (has_id i (s_ext s)); simpl; auto.
    apply sync_paired, set_ext_paired; auto. intros x Hx. apply remove_first_in' in Hx. auto.
  - destruct (add_all es []) as [ext' code] eqn:Ea.
    assert (Hall : forall x, In x ext' -> entry_shaped x).
    { intros x Hx. assert (Hx' : In x [] \/ In x es). { apply add_all_in'. rewrite Ea. exact Hx. }
      destruct Hx' as [[]|Hx']. auto. }
    destruct (Z.eqb code 0); simpl; [apply sync_paired|]; apply set_ext_paired; auto.
  - destruct (find_ds i (s_data s)) as [d|] eqn:Ef; simpl; auto.
    destruct (mem c (comps d) || negb (fst c =? i)%Z); simpl; auto.
    apply find_ds_some in Ef. destruct Ef as [Hin _].
    match goal with |- links_paired (if ?b then sync ?s1 else ?s1) => assert (H1 : links_paired s1) end.
    { apply put_paired; auto. apply (dinv_paired_fields d); auto. }
    destruct (d_hub d && d_member d); [apply sync_paired|]; exact H1.
  - destruct (find_ds i (s_data s)) as [d|] eqn:Ef; simpl; auto.
    destruct (negb (mem c (comps d))); simpl; auto.
    apply find_ds_some in Ef. destruct Ef as [Hin _].
    match goal with |- links_paired (fst (if d_hub d then _ else (?s1, _))) => assert (H1 : links_paired s1) end.
    { apply put_paired; auto. apply (keep_paired [c] d (Hd d Hin)). }
    destruct (d_hub d); simpl; [|exact H1].
    destruct (d_member d); [apply sync_paired|]; apply drop_links_paired; exact H1.
  - destruct (find_ds i (s_data s)) as [d|] eqn:Ef; simpl; auto.
    destruct (mem (l_to l) (comps d)) eqn:Em; simpl; auto.
    match goal with |- links_paired (fst (if ?b then _ else _)) => destruct b; simpl; auto end.
    apply find_ds_some in Ef. destruct Ef as [Hin _].
    match goal with |- links_paired (if ?b then sync ?s1 else ?s1) => assert (H1 : links_paired s1) end.
    { apply put_paired; auto. destruct (Hd d Hin) as [HA HB]. unfold dinv_paired. cbn [d_der d_dinv].
      assert (Hnew : forall x, In x (inv_links l og) -> l_from l = [l_to x] /\ l_from x = [l_to l] /\ l_id x = l_id l).
      { intros x Hx. destruct (inv_links_spec _ _ _ Hx) as [Ha Hb]. split; [|split]; auto.
        unfold inv_links in Hx. destruct og as [g|]; [|contradiction]. destruct (l_from l) as [|f [|f2 r]]; try contradiction.
        destruct Hx as [Hx|[]]. subst x. reflexivity. }
      assert (Hold : forall x, In x (d_dinv d) -> l_from x <> [l_to l]).
      { intros x Hx E. destruct (HA x Hx) as [l' [Hl' [_ [H2 _]]]]. rewrite H2 in E. inversion E as [E'].
        apply mem_false in Em. apply Em. unfold comps, der_cids. apply in_app_iff. right. rewrite <- E'. apply in_map. exact Hl'. }
      split.
      - intros x Hx. apply in_app_iff in Hx. destruct Hx as [Hx|Hx].
        + destruct (HA x Hx) as [l' [Hl' Hr]]. exists l'. split; [apply in_app_iff; auto|exact Hr].
        + exists l. split; [apply in_app_iff; right; left; reflexivity|]. apply Hnew. exact Hx.
      - intros x x' Hx Hx' E. apply in_app_iff in Hx. apply in_app_iff in Hx'.
        destruct Hx as [Hx|Hx]; destruct Hx' as [Hx'|Hx'].
        + apply HB; auto.
        + exfalso. apply (Hold x Hx). rewrite E. apply (Hnew x' Hx').
        + exfalso. apply (Hold x' Hx'). rewrite <- E. apply (Hnew x Hx).
        + unfold inv_links in Hx, Hx'. destruct og as [g|]; [|contradiction]. destruct (l_from l) as [|f [|f2 r]]; try contradiction.
          destruct Hx as [Hx|[]]. destruct Hx' as [Hx'|[]]. congruence. }
    destruct (d_hub d && d_member d); [apply sync_paired|]; exact H1.
  - destruct (find_ds i (s_data s)) as [d|] eqn:Ef; simpl; auto.
    destruct (d_member d); simpl; auto.
    apply find_ds_some in Ef. destruct Ef as [Hin _].
    apply sync_paired, put_paired; auto. apply (dinv_paired_fields d); auto.
  - destruct (find_ds i (s_data s)) as [d|] eqn:Ef; simpl; auto.
    destruct (negb (d_member d)); simpl; auto.
    apply find_ds_some in Ef. destruct Ef as [Hin _].
    apply drop_links_paired, put_paired; auto. apply (dinv_paired_fields d); auto.
  - destruct (find_ds i (s_data s)) as [d|] eqn:Ef; simpl; auto.
    destruct (d_world d) as [|w0 wr] eqn:Ew; simpl; auto.
    apply find_ds_some in Ef. destruct Ef as [Hin _].
    match goal with |- links_paired (fst (if d_hub d then _ else (?s1, _))) => assert (H1 : links_paired s1) end.
    { apply put_paired; auto. apply (keep_paired (w0 :: wr) d (Hd d Hin)). }
    destruct (d_hub d); simpl; [|exact H1].
    destruct (d_member d); [apply sync_paired|]; apply drop_links_paired; exact H1.
  - split; simpl; auto.
  - destruct (s_delay s) as [|k]; simpl; auto. apply sync_paired. split; simpl; auto.
Qed.

Theorem links_paired_reachable : forall ops s0, links_paired s0 -> Forall shaped_op ops -> links_paired (run s0 ops).
Proof.
  induction ops as [|o r IH]; intros s0 Hp Hs; simpl; [exact Hp|].
  inversion Hs; subst. apply IH; [apply step_paired|]; assumption.
Qed.

(* the state a DataCollection starts from *)
Theorem links_paired_init : forall ds, (forall d, In d ds -> dinv_paired d) -> links_paired (recompute (mkstate ds [] 0 false)).
Proof. intros ds H. apply recompute_paired. split; simpl; [exact H|intros e []]. Qed.
