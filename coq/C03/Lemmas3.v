(* C03 — lemmas, part 3: the manager state machine (well-formedness, freshness of the tables). *)
From Coq Require Import ZArith List Bool Arith Lia.
Import ListNotations.
From GV Require Import Common.Wire C03.Model C03.Lemmas1.
Open Scope nat_scope.

(* ------------------------------------------------------------------ lists *)
Lemma filter_len_le : forall (A : Type) (f : A -> bool) (l : list A), length (filter f l) <= length l.
Proof.
  intros A f l. induction l as [|a r IH]; simpl; auto. destruct (f a); simpl; lia.
Qed.

Lemma filter_length_all : forall (A : Type) (f : A -> bool) (l : list A),
  length (filter f l) = length l -> forall x, In x l -> f x = true.
Proof.
  intros A f l. induction l as [|a r IH]; simpl; intros H x Hin; try contradiction.
  destruct (f a) eqn:Ea; simpl in H.
  - destruct Hin as [Hin|Hin]; subst; auto.
  - pose proof (filter_len_le _ f r). lia.
Qed.

Lemma filter_all_id : forall (A : Type) (f : A -> bool) (l : list A),
  (forall x, In x l -> f x = true) -> filter f l = l.
Proof.
  intros A f l. induction l as [|a r IH]; simpl; intros H; auto.
  rewrite (H a (or_introl eq_refl)). f_equal. apply IH. intros; apply H; auto.
Qed.

Lemma filter_map_comm : forall (A : Type) (p : A -> bool) (g : A -> A) (l : list A),
  (forall x, p (g x) = p x) -> filter p (map g l) = map g (filter p l).
Proof.
  intros A p g l H. induction l as [|a r IH]; simpl; auto.
  rewrite H. destruct (p a); simpl; rewrite IH; auto.
Qed.

Lemma flat_map_map_ext : forall (A B : Type) (f : A -> list B) (g : A -> A) (l : list A),
  (forall x, f (g x) = f x) -> flat_map f (map g l) = flat_map f l.
Proof.
  intros A B f g l H. induction l as [|a r IH]; simpl; auto. rewrite H, IH. reflexivity.
Qed.

(* ------------------------------------------------------------------ datasets in a list *)
Lemma find_ds_some : forall i ds d, find_ds i ds = Some d -> In d ds /\ d_id d = i.
Proof.
  intros i ds. induction ds as [|a r IH]; simpl; intros d H; try discriminate.
  destruct (Z.eqb (d_id a) i) eqn:E.
  - inversion H; subst. apply Z.eqb_eq in E. auto.
  - destruct (IH _ H). auto.
Qed.

Lemma put_ds_ids : forall d' ds, map d_id (put_ds d' ds) = map d_id ds.
Proof.
  intros d' ds. induction ds as [|a r IH]; simpl; auto.
  destruct (Z.eqb (d_id a) (d_id d')) eqn:E; simpl.
  - apply Z.eqb_eq in E. rewrite E. reflexivity.
  - rewrite IH. reflexivity.
Qed.

Lemma put_ds_in : forall d' ds x, In x (put_ds d' ds) -> x = d' \/ In x ds.
Proof.
  intros d' ds. induction ds as [|a r IH]; simpl; intros x H; auto.
  destruct (Z.eqb (d_id a) (d_id d')); simpl in H.
  - destruct H; auto.
  - destruct H as [H|H]; auto. destruct (IH _ H); auto.
Qed.

Lemma nodup_id_eq : forall ds x y, NoDup (map d_id ds) -> In x ds -> In y ds -> d_id x = d_id y -> x = y.
Proof.
  intros ds. induction ds as [|a r IH]; simpl; intros x y Hnd Hx Hy He; try contradiction.
  inversion Hnd as [|? ? Hn Hr]; subst.
  destruct Hx as [Hx|Hx]; destruct Hy as [Hy|Hy]; subst; auto.
  - exfalso. apply Hn. rewrite He. apply in_map. exact Hy.
  - exfalso. apply Hn. rewrite <- He. apply in_map. exact Hx.
Qed.

Lemma put_ds_in_iff : forall d' ds d x, NoDup (map d_id ds) -> find_ds (d_id d') ds = Some d ->
  (In x (put_ds d' ds) <-> x = d' \/ (In x ds /\ d_id x <> d_id d')).
Proof.
  intros d' ds. induction ds as [|a r IH]; simpl; intros d x Hnd Hf; try discriminate.
  inversion Hnd as [|? ? Hn Hr]; subst.
  destruct (Z.eqb (d_id a) (d_id d')) eqn:E; simpl.
  - apply Z.eqb_eq in E. split.
    + intros [H|H]; auto. right. split; auto. intros He. apply Hn. rewrite E, <- He. apply in_map. exact H.
    + intros [H|[[H|H] Hne]]; auto. subst. congruence.
  - apply Z.eqb_neq in E. rewrite (IH d x Hr Hf). split.
    + intros [H|[H|[H Hne]]]; auto. subst. auto.
    + intros [H|[[H|H] Hne]]; auto.
Qed.

(* ------------------------------------------------------------------ which links are in force *)
Lemma inv_links_spec : forall l0 og l, In l (inv_links l0 og) ->
  l_from l = [l_to l0] /\ l_from l0 = [l_to l].
Proof.
  intros l0 og l H. unfold inv_links in H. destruct og as [g|]; simpl in H; try contradiction.
  destruct (l_from l0) as [|f [|f2 r]] eqn:Ef; simpl in H; try contradiction.
  destruct H as [H|H]; try contradiction. subst l. simpl. auto.
Qed.

Lemma in_entry_links : forall e l, In l (entry_links e) <->
  exists p, In p (e_links e) /\ (l = fst p \/ In l (inv_links (fst p) (snd p))).
Proof.
  intros e l. unfold entry_links. rewrite in_flat_map. split.
  - intros [p [Hp [H|H]]]; exists p; auto.
  - intros [p [Hp [H|H]]]; exists p; split; auto. left. auto. right. auto.
Qed.

Lemma entry_link_cids : forall e p l, In p (e_links e) -> (l = fst p \/ In l (inv_links (fst p) (snd p))) ->
  forall c, In c (link_cids l) -> In c (link_cids (fst p)).
Proof.
  intros e p l Hp [H|H] c Hc.
  - subst. exact Hc.
  - destruct (inv_links_spec _ _ _ H) as [H1 H2]. unfold link_cids in *. rewrite H1 in Hc. rewrite H2.
    simpl in *. intuition.
Qed.

Lemma in_all_links : forall s l, In l (all_links s) <->
  (exists x, In x (s_data s) /\ d_member x = true /\ In l (ds_links x)) \/
  (exists e, In e (s_ext s) /\ In l (entry_links e)).
Proof.
  intros s l. unfold all_links. rewrite in_app_iff, !in_flat_map. split.
  - intros [[x [Hx Hl]]|[e [He Hl]]].
    + apply filter_In in Hx. left. exists x. tauto.
    + right. exists e. auto.
  - intros [[x [Hx [Hm Hl]]]|[e [He Hl]]].
    + left. exists x. split; auto. apply filter_In. auto.
    + right. exists e. auto.
Qed.

(* touching *)
Lemma link_touches_cids : forall c l, In c (link_cids l) -> link_touches c l = true.
Proof.
  intros c l H. unfold link_touches, link_cids in *. destruct H as [H|H].
  - subst. rewrite cid_eqb_refl. apply orb_true_r.
  - apply mem_In in H. rewrite H. reflexivity.
Qed.

Lemma entry_touches_any_intro : forall cs e p c,
  In p (e_links e) -> In c (link_cids (fst p)) -> In c cs -> entry_touches_any cs e = true.
Proof.
  intros cs e p c Hp Hc Hcs. unfold entry_touches_any. apply existsb_exists. exists c. split; auto.
  unfold entry_touches. apply existsb_exists. exists p. split; auto. apply link_touches_cids. exact Hc.
Qed.

(* ------------------------------------------------------------------ recompute *)
Lemma disc_ok : forall own L, discover own L = Some (fst (disc own L)) /\ snd (disc own L) = false.
Proof.
  intros own L. unfold disc. destruct (discover_total own L) as [t [H _]]. rewrite H. simpl. auto.
Qed.

Definition retbl (L : list link) (d : dataset) : dataset :=
  if d_member d then set_tbl d (fst (disc (d_own d) L)) else d.

Lemma retbl_fields : forall L d,
  d_id (retbl L d) = d_id d /\ d_member (retbl L d) = d_member d /\ d_hub (retbl L d) = d_hub d /\
  d_own (retbl L d) = d_own d /\ d_coord (retbl L d) = d_coord d /\ d_world (retbl L d) = d_world d /\
  d_int (retbl L d) = d_int d /\ d_der (retbl L d) = d_der d /\ d_dinv (retbl L d) = d_dinv d.
Proof. intros L d. unfold retbl. destruct (d_member d) eqn:E; simpl; rewrite ?E; repeat split; auto. Qed.

Lemma retbl_comps : forall L d, comps (retbl L d) = comps d.
Proof. intros L d. unfold retbl. destruct (d_member d); reflexivity. Qed.

Lemma retbl_links : forall L d, ds_links (retbl L d) = ds_links d.
Proof. intros L d. unfold retbl. destruct (d_member d); reflexivity. Qed.

Lemma recompute_data : forall s, s_data (recompute s) = map (retbl (all_links s)) (s_data s).
Proof. intros s. reflexivity. Qed.

Lemma recompute_links : forall s, all_links (recompute s) = all_links s.
Proof.
  intros s. unfold all_links at 1. rewrite recompute_data. simpl s_ext.
  rewrite filter_map_comm by (intros x; apply (retbl_fields (all_links s) x)).
  rewrite flat_map_map_ext by (intros x; apply retbl_links).
  reflexivity.
Qed.

Lemma recompute_err : forall s, s_err (recompute s) = s_err s.
Proof.
  intros s. simpl. replace (existsb _ (s_data s)) with false. apply orb_false_r.
  symmetry. induction (s_data s) as [|a r IH]; simpl; auto.
  rewrite (proj2 (disc_ok (d_own a) (all_links s))). rewrite andb_false_r. simpl. exact IH.
Qed.

Lemma live_recompute : forall s c, live (recompute s) c <-> live s c.
Proof.
  intros s c. unfold live. rewrite recompute_data. split.
  - intros [d [Hd [Hm Hc]]]. apply in_map_iff in Hd. destruct Hd as [x [Hx Hin]]. subst d.
    destruct (retbl_fields (all_links s) x) as (_ & E2 & _). rewrite E2 in Hm. rewrite retbl_comps in Hc. exists x. auto.
  - intros [d [Hd [Hm Hc]]]. exists (retbl (all_links s) d).
    destruct (retbl_fields (all_links s) d) as (_ & E2 & _). rewrite E2, retbl_comps. split; auto. apply in_map. exact Hd.
Qed.

Lemma ds_wf_fields : forall d d',
  d_id d' = d_id d -> d_member d' = d_member d -> d_hub d' = d_hub d -> d_own d' = d_own d ->
  d_coord d' = d_coord d -> d_int d' = d_int d -> d_der d' = d_der d -> d_dinv d' = d_dinv d -> ds_wf d -> ds_wf d'.
Proof.
  intros d d' E1 E2 E3 E4 E5 E6 E7 E8 H. unfold ds_wf, comps, der_cids in *. rewrite E1, E2, E3, E4, E5, E6, E7, E8. exact H.
Qed.

Lemma recompute_wf : forall s, wf s -> wf (recompute s).
Proof.
  intros s (Hnd & Hds & Hext & Herr). unfold wf. split; [|split; [|split]].
  - rewrite recompute_data, map_map.
    replace (map (fun x => d_id (retbl (all_links s) x)) (s_data s)) with (map d_id (s_data s)); auto.
    apply map_ext. intros x. symmetry. apply (retbl_fields (all_links s) x).
  - intros d Hd. rewrite recompute_data in Hd. apply in_map_iff in Hd. destruct Hd as [x [Hx Hin]]. subst d.
    destruct (retbl_fields (all_links s) x) as (E1 & E2 & E3 & E4 & E5 & _ & E7 & E8 & E9).
    apply (ds_wf_fields x); auto.
  - intros e He p c Hp Hc. apply live_recompute. apply (Hext e He p c Hp Hc).
  - rewrite recompute_err. exact Herr.
Qed.

Lemma recompute_fresh : forall s, fresh (recompute s).
Proof.
  intros s d Hd Hm. rewrite recompute_links. rewrite recompute_data in Hd.
  apply in_map_iff in Hd. destruct Hd as [x [Hx Hin]]. subst d.
  unfold retbl in *. destruct (d_member x) eqn:E.
  - simpl. apply disc_ok.
  - congruence.
Qed.

Definition Good (s : state) : Prop := wf s /\ (s_delay s = 0 -> fresh s).

Lemma sync_good : forall s, wf s -> Good (sync s).
Proof.
  intros s H. unfold sync. destruct (s_delay s) eqn:E.
  - split. apply recompute_wf; auto. intros _. apply recompute_fresh.
  - split; auto. intros H0. congruence.
Qed.

Lemma sync_delay : forall s, s_delay (sync s) = s_delay s.
Proof. intros s. unfold sync. destruct (s_delay s) eqn:E; simpl; auto. Qed.

(* ------------------------------------------------------------------ dropping links *)
Lemma drop_links_cases : forall cs s1,
  (drop_links cs s1 = s1 /\ forall e, In e (s_ext s1) -> entry_touches_any cs e = false) \/
  drop_links cs s1 = recompute (set_ext s1 (filter (fun e => negb (entry_touches_any cs e)) (s_ext s1))).
Proof.
  intros cs s1. unfold drop_links.
  destruct (Nat.eqb (length (filter (fun e => negb (entry_touches_any cs e)) (s_ext s1))) (length (s_ext s1))) eqn:E.
  - left. split; auto. intros e He. apply Nat.eqb_eq in E.
    pose proof (filter_length_all _ _ _ E e He) as H. apply negb_true_iff in H. exact H.
  - right. reflexivity.
Qed.

Lemma drop_links_wf : forall cs s1,
  NoDup (map d_id (s_data s1)) -> (forall d, In d (s_data s1) -> ds_wf d) -> s_err s1 = false ->
  (forall e, In e (s_ext s1) -> entry_touches_any cs e = false -> entry_live s1 e) ->
  wf (drop_links cs s1).
Proof.
  intros cs s1 Hnd Hds Herr Hlive.
  destruct (drop_links_cases cs s1) as [[E Hno]|E]; rewrite E.
  - unfold wf. split; [|split; [|split]]; auto.
  - apply recompute_wf. unfold wf. simpl. split; [|split; [|split]]; auto.
    intros e He. apply filter_In in He. destruct He as [He Hn]. apply negb_true_iff in Hn.
    apply (Hlive e He Hn).
Qed.

Lemma drop_links_delay : forall cs s, s_delay (drop_links cs s) = s_delay s.
Proof.
  intros cs s. destruct (drop_links_cases cs s) as [[E _]|E]; rewrite E; auto.
Qed.

(* ------------------------------------------------------------------ liveness across a dataset update *)
Lemma live_put : forall s d d' c,
  NoDup (map d_id (s_data s)) -> find_ds (d_id d') (s_data s) = Some d ->
  (live (set_data s (put_ds d' (s_data s))) c <->
   (d_member d' = true /\ In c (comps d')) \/
   (exists x, In x (s_data s) /\ d_id x <> d_id d' /\ d_member x = true /\ In c (comps x))).
Proof.
  intros s d d' c Hnd Hf. unfold live. simpl. split.
  - intros [x [Hx [Hm Hc]]]. apply (put_ds_in_iff d' _ d x Hnd Hf) in Hx. destruct Hx as [Hx|[Hx Hne]].
    + subst. left. auto.
    + right. exists x. auto.
  - intros [[Hm Hc]|[x [Hx [Hne [Hm Hc]]]]].
    + exists d'. split; auto. apply (put_ds_in_iff d' _ d d' Hnd Hf). auto.
    + exists x. split; auto. apply (put_ds_in_iff d' _ d x Hnd Hf). auto.
Qed.

Lemma live_split : forall s d c,
  NoDup (map d_id (s_data s)) -> In d (s_data s) ->
  (live s c <->
   (d_member d = true /\ In c (comps d)) \/
   (exists x, In x (s_data s) /\ d_id x <> d_id d /\ d_member x = true /\ In c (comps x))).
Proof.
  intros s d c Hnd Hd. unfold live. split.
  - intros [x [Hx [Hm Hc]]]. destruct (Z.eq_dec (d_id x) (d_id d)) as [E|E].
    + assert (x = d) by (apply (nodup_id_eq (s_data s)); auto). subst. auto.
    + right. exists x. auto.
  - intros [[Hm Hc]|[x [Hx [Hne [Hm Hc]]]]].
    + exists d. auto.
    + exists x. auto.
Qed.

(* the members other than the updated dataset, and the links in force, when a non-member is replaced by a non-member *)
Lemma member_links_put : forall d' ds d,
  find_ds (d_id d') ds = Some d -> d_member d = false -> d_member d' = false ->
  flat_map ds_links (filter d_member (put_ds d' ds)) = flat_map ds_links (filter d_member ds).
Proof.
  intros d' ds. induction ds as [|a r IH]; simpl; intros d Hf Hm Hm'; auto.
  destruct (Z.eqb (d_id a) (d_id d')) eqn:E; simpl.
  - inversion Hf; subst. rewrite Hm, Hm'. reflexivity.
  - destruct (d_member a); simpl; rewrite (IH d Hf Hm Hm'); reflexivity.
Qed.

Lemma fresh_put_nonmember : forall s d d',
  NoDup (map d_id (s_data s)) -> find_ds (d_id d') (s_data s) = Some d ->
  d_member d = false -> d_member d' = false ->
  fresh s -> fresh (set_data s (put_ds d' (s_data s))).
Proof.
  intros s d d' Hnd Hf Hm Hm' Hfr x Hx Hmx. simpl in Hx.
  apply (put_ds_in_iff d' _ d x Hnd Hf) in Hx. destruct Hx as [Hx|[Hx Hne]].
  - subst. congruence.
  - unfold all_links. simpl. rewrite (member_links_put d' _ d Hf Hm Hm'). apply (Hfr x Hx Hmx).
Qed.

(* shape of the internal links (coordinate links and derived-component links) of a well-formed dataset *)
Lemma ds_link_shape : forall x l, ds_wf x -> In l (ds_links x) ->
  l_from l <> [] /\ (forall c, In c (link_cids l) -> In c (comps x)) /\
  (forall c, In c (link_cids l) -> fst c = d_id x).
Proof.
  intros x l (Hown & Hco & Hint & (Hder & Hdinv) & _) Hl.
  assert (H : l_from l <> [] /\ forall c, In c (link_cids l) -> In c (comps x)).
  { unfold ds_links in Hl. apply in_app_iff in Hl. destruct Hl as [Hl|Hl]; [|apply in_app_iff in Hl; destruct Hl as [Hl|Hl]].
    - destruct (Hint l Hl) as (Hnn & Hfr & Hto). split; auto.
      intros c [Hc|Hc]; unfold comps; apply in_app_iff; left; apply Hco; subst; auto.
    - destruct (Hder l Hl) as (Hnn & Hfr). split; auto.
      intros c [Hc|Hc]; unfold comps; apply in_app_iff.
      + right. subst c. unfold der_cids. apply in_map. exact Hl.
      + left. apply Hfr. exact Hc.
    - destruct (Hdinv l Hl) as (l' & Hl' & Ef' & Ef). destruct (Hder l' Hl') as (Hnn' & Hfr'). split.
      + rewrite Ef. discriminate.
      + intros c [Hc|Hc]; unfold comps; apply in_app_iff.
        * left. subst c. apply Hfr'. rewrite Ef'. simpl. auto.
        * right. rewrite Ef in Hc. destruct Hc as [Hc|[]]. subst c. unfold der_cids. apply in_map. exact Hl'. }
  destruct H as [H1 H2]. repeat split; auto.
Qed.
