(* C03 — lemmas, part 1: the discover loop (invariant, termination, soundness, completeness, minimal depth). *)
From Coq Require Import ZArith List Bool Arith Lia.
Import ListNotations.
From GV Require Import Common.Wire C03.Model.
Open Scope nat_scope.

(* ------------------------------------------------------------------ cids *)
Lemma cid_eqb_eq : forall a b : cid, cid_eqb a b = true <-> a = b.
Proof.
  intros [a1 a2] [b1 b2]. unfold cid_eqb. simpl.
  rewrite andb_true_iff, !Z.eqb_eq. split.
  - intros [H1 H2]. subst. reflexivity.
  - intros H. inversion H. auto.
Qed.

Lemma cid_eqb_refl : forall a, cid_eqb a a = true.
Proof. intros a. apply cid_eqb_eq. reflexivity. Qed.

Lemma cid_eqb_neq : forall a b : cid, cid_eqb a b = false <-> a <> b.
Proof.
  intros a b. split.
  - intros H E. apply cid_eqb_eq in E. congruence.
  - intros H. destruct (cid_eqb a b) eqn:E; auto. apply cid_eqb_eq in E. contradiction.
Qed.

Lemma cid_eq_dec : forall a b : cid, {a = b} + {a <> b}.
Proof.
  intros a b. destruct (cid_eqb a b) eqn:E.
  - left. apply cid_eqb_eq. exact E.
  - right. apply cid_eqb_neq. exact E.
Qed.

Lemma mem_In : forall c l, mem c l = true <-> In c l.
Proof.
  intros c l. unfold mem. rewrite existsb_exists. split.
  - intros [x [Hin Heq]]. apply cid_eqb_eq in Heq. subst. exact Hin.
  - intros Hin. exists c. split; auto. apply cid_eqb_refl.
Qed.

Lemma mem_false : forall c l, mem c l = false <-> ~ In c l.
Proof.
  intros c l. split.
  - intros H Hin. apply mem_In in Hin. congruence.
  - intros H. destruct (mem c l) eqn:E; auto. apply mem_In in E. contradiction.
Qed.

(* ------------------------------------------------------------------ tables *)
Lemma lookup_set : forall c v t c',
  lookup c' (set_entry c v t) = if cid_eqb c' c then Some v else lookup c' t.
Proof.
  intros c v t c'. induction t as [|[k w] r IH]; simpl.
  - destruct (cid_eqb c' c); reflexivity.
  - destruct (cid_eqb c k) eqn:Eck; simpl.
    + apply cid_eqb_eq in Eck. subst k. destruct (cid_eqb c' c); reflexivity.
    + rewrite IH. destruct (cid_eqb c' k) eqn:Ek; destruct (cid_eqb c' c) eqn:Ec; auto.
      apply cid_eqb_eq in Ek. apply cid_eqb_eq in Ec. subst. rewrite cid_eqb_refl in Eck. discriminate.
Qed.

Lemma length_set : forall c v t,
  length (set_entry c v t) = match lookup c t with Some _ => length t | None => S (length t) end.
Proof.
  intros c v t. induction t as [|[k w] r IH]; simpl; auto.
  destruct (cid_eqb c k) eqn:E; simpl; auto.
  rewrite IH. destruct (lookup c r); auto.
Qed.

Lemma dom_set : forall c v t x,
  In x (map fst (set_entry c v t)) <-> x = c \/ In x (map fst t).
Proof.
  intros c v t x. induction t as [|[k w] r IH]; simpl.
  - intuition.
  - destruct (cid_eqb c k) eqn:E; simpl.
    + apply cid_eqb_eq in E. subst. intuition.
    + rewrite IH. intuition.
Qed.

Lemma nodup_set : forall c v t, NoDup (map fst t) -> NoDup (map fst (set_entry c v t)).
Proof.
  intros c v t. induction t as [|[k w] r IH]; simpl; intros H.
  - constructor; [simpl; tauto | constructor].
  - inversion H as [|? ? Hn Hr]; subst.
    destruct (cid_eqb c k) eqn:E; simpl.
    + constructor; auto.
    + constructor; auto. rewrite dom_set. intros [Hx|Hx]; auto.
      subst. rewrite cid_eqb_refl in E. discriminate.
Qed.

Lemma lookup_dom : forall c t v, lookup c t = Some v -> In c (map fst t).
Proof.
  intros c t v. induction t as [|[k w] r IH]; simpl; intros H; try discriminate.
  destruct (cid_eqb c k) eqn:E.
  - apply cid_eqb_eq in E. auto.
  - right. auto.
Qed.

(* ------------------------------------------------------------------ depths *)
Lemma depth_of_set : forall own c v t c',
  depth_of own (set_entry c v t) c' =
  if mem c' own then Some 0 else if cid_eqb c' c then Some (fst v) else depth_of own t c'.
Proof.
  intros own c v t c'. unfold depth_of. rewrite lookup_set.
  destruct (mem c' own); auto. destruct (cid_eqb c' c); auto. destruct v; reflexivity.
Qed.

Definition le_tbl (own : list cid) (t t' : table) : Prop :=
  forall c d, depth_of own t c = Some d -> exists d', depth_of own t' c = Some d' /\ d' <= d.

Lemma max_depth_mono : forall own t t' fs m,
  le_tbl own t t' -> max_depth own t fs = Some m ->
  exists m', max_depth own t' fs = Some m' /\ m' <= m.
Proof.
  intros own t t' fs. induction fs as [|f r IH]; simpl; intros m Hle H.
  - inversion H. exists 0. auto.
  - destruct (depth_of own t f) as [a|] eqn:Ea; try discriminate.
    destruct (max_depth own t r) as [b|] eqn:Eb; try discriminate.
    inversion H; subst.
    destruct (Hle _ _ Ea) as [a' [Ha' Hla]].
    destruct (IH _ Hle eq_refl) as [b' [Hb' Hlb]].
    rewrite Ha', Hb'. exists (Nat.max a' b'). split; auto. lia.
Qed.

Lemma max_depth_In : forall own t fs m f,
  max_depth own t fs = Some m -> In f fs -> exists d, depth_of own t f = Some d /\ d <= m.
Proof.
  intros own t fs. induction fs as [|g r IH]; simpl; intros m f H Hin; try contradiction.
  destruct (depth_of own t g) as [a|] eqn:Ea; try discriminate.
  destruct (max_depth own t r) as [b|] eqn:Eb; try discriminate.
  inversion H; subst. destruct Hin as [Hin|Hin].
  - subst. exists a. split; auto. lia.
  - destruct (IH _ _ eq_refl Hin) as [d [Hd Hl]]. exists d. split; auto. lia.
Qed.

Lemma max_depth_build : forall own t fs n,
  (forall f, In f fs -> exists d, depth_of own t f = Some d /\ d <= n) ->
  exists m, max_depth own t fs = Some m /\ m <= n.
Proof.
  intros own t fs n. induction fs as [|g r IH]; simpl; intros H.
  - exists 0. split; auto. lia.
  - destruct (H g (or_introl eq_refl)) as [a [Ha Hla]].
    destruct IH as [b [Hb Hlb]]. { intros f Hf. apply H. auto. }
    rewrite Ha, Hb. exists (Nat.max a b). split; auto. lia.
Qed.

(* ------------------------------------------------------------------ the loop body *)
Lemma improves_spec : forall own t l k,
  improves own t l = Some k ->
  exists m, max_depth own t (l_from l) = Some m /\ k = S m /\ mem (l_to l) own = false /\
            (lookup (l_to l) t = None \/ exists d l0, lookup (l_to l) t = Some (d, l0) /\ S m < d).
Proof.
  intros own t l k H. unfold improves in H.
  destruct (max_depth own t (l_from l)) as [m|] eqn:Em; try discriminate.
  exists m. split; auto. unfold depth_of in H.
  destruct (mem (l_to l) own) eqn:Emem.
  - simpl in H. discriminate.
  - destruct (lookup (l_to l) t) as [[d l0]|] eqn:El.
    + destruct (S m <? d) eqn:Elt; try discriminate. inversion H; subst.
      apply Nat.ltb_lt in Elt. repeat split; auto. right. exists d, l0. auto.
    + inversion H; subst. repeat split; auto.
Qed.

Lemma improves_none : forall own t l m,
  improves own t l = None -> max_depth own t (l_from l) = Some m ->
  exists d, depth_of own t (l_to l) = Some d /\ d <= S m.
Proof.
  intros own t l m H Hm. unfold improves in H. rewrite Hm in H.
  destruct (depth_of own t (l_to l)) as [d|] eqn:Ed; try discriminate.
  destruct (S m <? d) eqn:Elt; try discriminate.
  apply Nat.ltb_ge in Elt. exists d. auto.
Qed.

Lemma first_improving_some : forall own t links l k,
  first_improving own t links = Some (l, k) -> In l links /\ improves own t l = Some k.
Proof.
  intros own t links. induction links as [|x r IH]; simpl; intros l k H; try discriminate.
  destruct (improves own t x) as [kx|] eqn:Ex.
  - inversion H; subst. auto.
  - destruct (IH _ _ H). auto.
Qed.

Lemma first_improving_none : forall own t links,
  first_improving own t links = None -> forall l, In l links -> improves own t l = None.
Proof.
  intros own t links. induction links as [|x r IH]; simpl; intros H l Hin; try contradiction.
  destruct (improves own t x) as [kx|] eqn:Ex; try discriminate.
  destruct Hin as [Hin|Hin]; subst; auto.
Qed.

(* ------------------------------------------------------------------ the invariant *)
Record Inv (own : list cid) (links : list link) (t : table) : Prop := {
  inv_nodup : NoDup (map fst t);
  inv_entry : forall c d l, lookup c t = Some (d, l) ->
      mem c own = false /\ In l links /\ l_to l = c /\ d <= length t /\
      exists m, max_depth own t (l_from l) = Some m /\ S m <= d
}.

Lemma Inv_nil : forall own links, Inv own links [].
Proof. intros. constructor; simpl. constructor. intros; discriminate. Qed.

Lemma Inv_depth_bound : forall own links t c d,
  Inv own links t -> depth_of own t c = Some d -> d <= length t.
Proof.
  intros own links t c d HI H. unfold depth_of in H.
  destruct (mem c own). { inversion H. lia. }
  destruct (lookup c t) as [[d0 l0]|] eqn:El; try discriminate. inversion H; subst.
  destruct (inv_entry _ _ _ HI _ _ _ El) as (_ & _ & _ & Hb & _). exact Hb.
Qed.

Lemma max_depth_bound : forall own links t fs m,
  Inv own links t -> max_depth own t fs = Some m -> m <= length t.
Proof.
  intros own links t fs. induction fs as [|f r IH]; simpl; intros m HI H.
  - inversion H. lia.
  - destruct (depth_of own t f) as [a|] eqn:Ea; try discriminate.
    destruct (max_depth own t r) as [b|] eqn:Eb; try discriminate.
    inversion H; subst. pose proof (Inv_depth_bound _ _ _ _ _ HI Ea). pose proof (IH _ HI eq_refl). lia.
Qed.

Lemma step_le_tbl : forall own t l m,
  mem (l_to l) own = false ->
  (lookup (l_to l) t = None \/ exists d l0, lookup (l_to l) t = Some (d, l0) /\ S m < d) ->
  le_tbl own t (set_entry (l_to l) (S m, l) t).
Proof.
  intros own t l m Hmem Hcase c d Hd. rewrite depth_of_set.
  unfold depth_of in *. destruct (mem c own) eqn:Ec.
  - exists d. split; auto.
  - destruct (cid_eqb c (l_to l)) eqn:E.
    + apply cid_eqb_eq in E. subst c. simpl.
      destruct Hcase as [Hn|[d0 [l0 [Hl Hlt]]]].
      * rewrite Hn in Hd. discriminate.
      * rewrite Hl in Hd. inversion Hd; subst. exists (S m). split; auto. lia.
    + exists d. split; auto.
Qed.

Lemma Inv_step : forall own links t l k,
  Inv own links t -> In l links -> improves own t l = Some k ->
  Inv own links (set_entry (l_to l) (k, l) t).
Proof.
  intros own links t l k HI Hin Himp.
  destruct (improves_spec _ _ _ _ Himp) as [m [Hm [Hk [Hmem Hcase]]]]. subst k.
  pose proof (step_le_tbl own t l m Hmem Hcase) as Hle.
  pose proof (max_depth_bound _ _ _ _ _ HI Hm) as Hmb.
  assert (Hlen : length t <= length (set_entry (l_to l) (S m, l) t)).
  { rewrite length_set. destruct (lookup (l_to l) t); lia. }
  constructor.
  - apply nodup_set. apply (inv_nodup _ _ _ HI).
  - intros c d l1 Hl. rewrite lookup_set in Hl.
    destruct (cid_eqb c (l_to l)) eqn:E.
    + apply cid_eqb_eq in E. subst c. inversion Hl; subst d l1.
      repeat split; auto.
      * rewrite length_set. destruct Hcase as [Hn|[d0 [l0 [Hl0 Hlt]]]].
        -- rewrite Hn. lia.
        -- rewrite Hl0. destruct (inv_entry _ _ _ HI _ _ _ Hl0) as (_ & _ & _ & Hb & _). lia.
      * destruct (max_depth_mono _ _ _ _ _ Hle Hm) as [m' [Hm' Hlm]]. exists m'. split; auto. lia.
    + destruct (inv_entry _ _ _ HI _ _ _ Hl) as (H1 & H2 & H3 & H4 & [m1 [Hm1 Hs1]]).
      repeat split; auto; try lia.
      destruct (max_depth_mono _ _ _ _ _ Hle Hm1) as [m' [Hm' Hlm]]. exists m'. split; auto. lia.
Qed.

(* ------------------------------------------------------------------ monotonicity of the specification *)
Lemma Derivable_mono : forall own links c n, Derivable own links c n -> forall n', n <= n' -> Derivable own links c n'.
Proof.
  intros own links c n H. induction H as [c n Hc | l n Hl Hf IH]; intros n' Hle.
  - apply D_own. exact Hc.
  - destruct n' as [|n']; [lia|]. apply D_link; auto. intros f Hfin. apply IH; auto. lia.
Qed.

Lemma Derivable_incl : forall own links links' c n,
  (forall l, In l links -> In l links') -> Derivable own links c n -> Derivable own links' c n.
Proof.
  intros own links links' c n Hinc H. induction H as [c n Hc | l n Hl Hf IH].
  - apply D_own. exact Hc.
  - apply D_link; auto.
Qed.

(* ------------------------------------------------------------------ soundness *)
Lemma Inv_sound : forall own links t, Inv own links t ->
  forall d c, depth_of own t c = Some d -> Derivable own links c d.
Proof.
  intros own links t HI d. induction d as [d IH] using lt_wf_ind. intros c Hd.
  unfold depth_of in Hd. destruct (mem c own) eqn:Ec.
  - apply D_own. apply mem_In. exact Ec.
  - destruct (lookup c t) as [[d0 l0]|] eqn:El; try discriminate. inversion Hd; subst d0.
    destruct (inv_entry _ _ _ HI _ _ _ El) as (_ & Hin & Hto & _ & [m [Hm Hs]]).
    destruct d as [|d]; [lia|]. subst c. apply D_link; auto.
    intros f Hf. destruct (max_depth_In _ _ _ _ _ Hm Hf) as [df [Hdf Hle]].
    apply Derivable_mono with (n := df); [|lia]. apply IH; [lia|exact Hdf].
Qed.

(* ------------------------------------------------------------------ completeness at the fixpoint *)
Lemma fix_complete : forall own links t,
  (forall l, In l links -> improves own t l = None) ->
  forall c n, Derivable own links c n -> exists d, depth_of own t c = Some d /\ d <= n.
Proof.
  intros own links t Hfix c n H. induction H as [c n Hc | l n Hl Hf IH].
  - exists 0. split; [|lia]. unfold depth_of. apply mem_In in Hc. rewrite Hc. reflexivity.
  - destruct (max_depth_build own t (l_from l) n IH) as [m [Hm Hle]].
    destruct (improves_none _ _ _ _ (Hfix l Hl) Hm) as [d [Hd Hld]].
    exists d. split; auto. lia.
Qed.

(* ------------------------------------------------------------------ termination *)
Definition phi (own : list cid) (n : nat) (t : table) (c : cid) : nat :=
  if mem c own then 0 else match lookup c t with Some (d, _) => d | None => S n end.

Fixpoint sumf (f : link -> nat) (l : list link) : nat :=
  match l with [] => 0 | x :: r => f x + sumf f r end.

Lemma sumf_le : forall f g l, (forall x, In x l -> g x <= f x) -> sumf g l <= sumf f l.
Proof.
  intros f g l. induction l as [|x r IH]; simpl; intros H; auto.
  pose proof (H x (or_introl eq_refl)). assert (sumf g r <= sumf f r) by (apply IH; intros; apply H; auto). lia.
Qed.

Lemma sumf_lt : forall f g l x0, (forall x, In x l -> g x <= f x) -> In x0 l -> g x0 < f x0 -> sumf g l < sumf f l.
Proof.
  intros f g l. induction l as [|x r IH]; simpl; intros x0 H Hin Hlt; try contradiction.
  pose proof (H x (or_introl eq_refl)) as Hx.
  assert (Hr : sumf g r <= sumf f r) by (apply sumf_le; intros; apply H; auto).
  destruct Hin as [Hin|Hin].
  - subst. lia.
  - assert (sumf g r < sumf f r) by (apply IH with (x0 := x0); auto). lia.
Qed.

Lemma sumf_bound : forall f l b, (forall x, In x l -> f x <= b) -> sumf f l <= length l * b.
Proof.
  intros f l b. induction l as [|x r IH]; simpl; intros H; auto.
  pose proof (H x (or_introl eq_refl)). assert (sumf f r <= length r * b) by (apply IH; intros; apply H; auto). lia.
Qed.

Lemma Inv_length : forall own links t, Inv own links t -> length t <= length links.
Proof.
  intros own links t HI.
  rewrite <- (map_length fst t), <- (map_length l_to links).
  apply NoDup_incl_length. { apply (inv_nodup _ _ _ HI). }
  intros c Hc. apply in_map_iff in Hc. destruct Hc as [[k [d l]] [Hk Hin]]. simpl in Hk. subst k.
  assert (exists v, lookup c t = Some v) as [[d' l'] Hv].
  { clear -Hin. induction t as [|[k w] r IH]; simpl in *; try contradiction.
    destruct (cid_eqb c k) eqn:E; eauto. destruct Hin as [Hin|Hin].
    - inversion Hin; subst. rewrite cid_eqb_refl in E. discriminate.
    - auto. }
  destruct (inv_entry _ _ _ HI _ _ _ Hv) as (_ & Hl & Hto & _). apply in_map_iff. exists l'. auto.
Qed.

Lemma phi_step : forall own links t l k,
  Inv own links t -> In l links -> improves own t l = Some k ->
  let t' := set_entry (l_to l) (k, l) t in
  (forall c, phi own (length links) t' c <= phi own (length links) t c) /\
  phi own (length links) t' (l_to l) < phi own (length links) t (l_to l).
Proof.
  intros own links t l k HI Hin Himp t'.
  pose proof (Inv_step _ _ _ _ _ HI Hin Himp) as HI'. fold t' in HI'.
  pose proof (Inv_length _ _ _ HI') as Hlen'.
  destruct (improves_spec _ _ _ _ Himp) as [m [Hm [Hk [Hmem Hcase]]]]. subst k.
  assert (Hnew : lookup (l_to l) t' = Some (S m, l)).
  { unfold t'. rewrite lookup_set, cid_eqb_refl. reflexivity. }
  destruct (inv_entry _ _ _ HI' _ _ _ Hnew) as (_ & _ & _ & Hb & _).
  split.
  - intros c. unfold phi. destruct (mem c own); auto. unfold t'. rewrite lookup_set.
    destruct (cid_eqb c (l_to l)) eqn:E; auto.
    apply cid_eqb_eq in E. subst c.
    destruct Hcase as [Hn|[d0 [l0 [Hl0 Hlt]]]].
    + rewrite Hn. fold t' in Hb. lia.
    + rewrite Hl0. lia.
  - unfold phi. rewrite Hmem, Hnew.
    destruct Hcase as [Hn|[d0 [l0 [Hl0 Hlt]]]].
    + rewrite Hn. lia.
    + rewrite Hl0. lia.
Qed.

Definition Phi (own : list cid) (links : list link) (t : table) : nat :=
  sumf (fun l => phi own (length links) t (l_to l)) links.

Lemma loop_terminates : forall own links fuel t,
  Inv own links t -> Phi own links t < fuel ->
  exists t', discover_loop fuel own links t = Some t' /\ Inv own links t' /\
             first_improving own t' links = None.
Proof.
  intros own links fuel. induction fuel as [|fuel IH]; intros t HI Hphi; [lia|].
  simpl. destruct (first_improving own t links) as [[l k]|] eqn:Ef.
  - destruct (first_improving_some _ _ _ _ _ Ef) as [Hin Himp].
    destruct (phi_step _ _ _ _ _ HI Hin Himp) as [Hle Hlt].
    apply IH.
    + apply Inv_step; auto.
    + assert (Phi own links (set_entry (l_to l) (k, l) t) < Phi own links t).
      { unfold Phi. apply sumf_lt with (x0 := l); auto. }
      lia.
  - exists t. auto.
Qed.

Lemma Phi_nil : forall own links, Phi own links [] < fuel_for links.
Proof.
  intros own links. unfold Phi, fuel_for.
  assert (sumf (fun l => phi own (length links) [] (l_to l)) links <= length links * S (length links)).
  { apply sumf_bound. intros x _. unfold phi. destruct (mem (l_to x) own); simpl; lia. }
  lia.
Qed.

Lemma discover_total : forall own links,
  exists t, discover own links = Some t /\ Inv own links t /\ first_improving own t links = None.
Proof.
  intros own links. unfold discover. apply loop_terminates. apply Inv_nil. apply Phi_nil.
Qed.

Lemma discover_inv : forall own links t, discover own links = Some t ->
  Inv own links t /\ (forall l, In l links -> improves own t l = None).
Proof.
  intros own links t H. destruct (discover_total own links) as [t' [H' [HI Hfix]]].
  rewrite H in H'. inversion H'; subst t'. split; auto. apply first_improving_none. exact Hfix.
Qed.

Lemma loop_fuel_mono : forall own links fuel t r k,
  discover_loop fuel own links t = Some r -> discover_loop (fuel + k) own links t = Some r.
Proof.
  intros own links fuel. induction fuel as [|fuel IH]; simpl; intros t r k H; try discriminate.
  destruct (first_improving own t links) as [[l c]|]; auto.
Qed.

(* ------------------------------------------------------------------ the theorems about discover *)
Theorem discover_terminates : forall own links,
  (exists t, discover_loop (fuel_for links) own links [] = Some t) /\
  (forall fuel, fuel_for links <= fuel -> discover_loop fuel own links [] = discover own links).
Proof.
  intros own links. destruct (discover_total own links) as [t [H _]]. split.
  - exists t. exact H.
  - intros fuel Hle. rewrite H. replace fuel with (fuel_for links + (fuel - fuel_for links)) by lia.
    apply loop_fuel_mono. exact H.
Qed.

Theorem discover_sound_complete : forall own links t, discover own links = Some t ->
  forall c, lookup c t <> None <-> ((exists n, Derivable own links c n) /\ ~ In c own).
Proof.
  intros own links t H c. destruct (discover_inv _ _ _ H) as [HI Hfix]. split.
  - intros Hl. destruct (lookup c t) as [[d l]|] eqn:El; [|congruence].
    destruct (inv_entry _ _ _ HI _ _ _ El) as (Hmem & _).
    split; [|apply mem_false; exact Hmem].
    exists d. apply (Inv_sound _ _ _ HI). unfold depth_of. rewrite Hmem, El. reflexivity.
  - intros [[n Hn] Hown]. destruct (fix_complete _ _ _ Hfix _ _ Hn) as [d [Hd _]].
    unfold depth_of in Hd. apply mem_false in Hown. rewrite Hown in Hd.
    destruct (lookup c t); [congruence|discriminate].
Qed.

Theorem discover_min_depth : forall own links t, discover own links = Some t ->
  forall c d, depth_of own t c = Some d ->
  Derivable own links c d /\ forall n, Derivable own links c n -> d <= n.
Proof.
  intros own links t H c d Hd. destruct (discover_inv _ _ _ H) as [HI Hfix]. split.
  - apply (Inv_sound _ _ _ HI). exact Hd.
  - intros n Hn. destruct (fix_complete _ _ _ Hfix _ _ Hn) as [d' [Hd' Hle]]. congruence.
Qed.

Theorem discover_wellfounded : forall own links t, discover own links = Some t ->
  forall c d l, lookup c t = Some (d, l) ->
  In l links /\ l_to l = c /\ ~ In c own /\
  forall f, In f (l_from l) -> exists df, depth_of own t f = Some df /\ df < d.
Proof.
  intros own links t H c d l El. destruct (discover_inv _ _ _ H) as [HI _].
  destruct (inv_entry _ _ _ HI _ _ _ El) as (Hmem & Hin & Hto & _ & [m [Hm Hs]]).
  repeat split; auto. { apply mem_false. exact Hmem. }
  intros f Hf. destruct (max_depth_In _ _ _ _ _ Hm Hf) as [df [Hdf Hle]]. exists df. split; auto. lia.
Qed.

Theorem discover_order_irrelevant : forall own links links' t t',
  (forall l, In l links <-> In l links') ->
  discover own links = Some t -> discover own links' = Some t' ->
  forall c, depth_of own t c = depth_of own t' c.
Proof.
  intros own links links' t t' Hsame H H' c.
  destruct (discover_inv _ _ _ H) as [HI Hfix]. destruct (discover_inv _ _ _ H') as [HI' Hfix'].
  destruct (depth_of own t c) as [d|] eqn:Ed; destruct (depth_of own t' c) as [d'|] eqn:Ed'; auto.
  - destruct (discover_min_depth _ _ _ H _ _ Ed) as [D1 M1].
    destruct (discover_min_depth _ _ _ H' _ _ Ed') as [D2 M2].
    assert (d <= d'). { apply M1. apply Derivable_incl with (links := links'); auto. intros; apply Hsame; auto. }
    assert (d' <= d). { apply M2. apply Derivable_incl with (links := links); auto. intros; apply Hsame; auto. }
    f_equal. lia.
  - pose proof (Inv_sound _ _ _ HI _ _ Ed) as D.
    apply Derivable_incl with (links' := links') in D; [|intros; apply Hsame; auto].
    destruct (fix_complete _ _ _ Hfix' _ _ D) as [x [Hx _]]. congruence.
  - pose proof (Inv_sound _ _ _ HI' _ _ Ed') as D.
    apply Derivable_incl with (links' := links) in D; [|intros; apply Hsame; auto].
    destruct (fix_complete _ _ _ Hfix _ _ D) as [x [Hx _]]. congruence.
Qed.
