(* C03 — the functions TRANSLATED from glue/core/link_manager.py on every run (coq/gen/Gen_links.v) compute what the hand
   model of Model.v part 1 computes.

   gen_accessible_spec     accessible_links keeps exactly the links whose inputs are all among the given ids, in order
   gen_discover_equiv      discover_links (translated: sets, two dicts, for/else + break/continue inside `while True` on fuel)
                           = discover_loop of the hand model (one table, first improving link), for every fuel, every
                           iteration order of the Python sets, with the dict cid_links = the table's chosen links in the
                           table's (insertion) order; KeyError / ValueError are never raised
   The only place where the generated text is inspected is [body_spec] (the body of the `for link in accessible_links`
   loop, reduced by computation and case analysis) and the unfolding of discover_links in [gen_discover_equiv]. *)
From Coq Require Import ZArith List Bool Arith Lia Setoid.
Import ListNotations.
From GV Require Import Common.Wire Common.PyInt gen.Gen_links C03.Model C03.Lemmas1 C03.Lemmas2.
Open Scope nat_scope.

(* ------------------------------------------------------------------ control combinators *)
Lemma for_else_fold : forall {A S R : Type} (f : S -> A -> S) (xs : list A) (s : S),
  for_else (R := R) (fun x s => Normal (f s x)) (fun s => Normal s) xs s = Normal (fold_left f xs s).
Proof. intros A S R f xs. induction xs as [|x r IH]; intros s; simpl; auto. Qed.

(* ------------------------------------------------------------------ containers at cid *)
Lemma set_mem_mem : forall c l, set_mem cid_eqb c l = mem c l.
Proof. reflexivity. Qed.

Lemma set_add_In : forall s x c, In c (set_add cid_eqb s x) <-> In c s \/ c = x.
Proof.
  intros s x c. unfold set_add. rewrite set_mem_mem. destruct (mem x s) eqn:E.
  - apply mem_In in E. split; [auto|]. intros [H|H]; subst; auto.
  - rewrite in_app_iff. simpl. intuition.
Qed.

Lemma set_of_list_In_gen : forall l acc c, In c (fold_left (set_add cid_eqb) l acc) <-> In c acc \/ In c l.
Proof.
  induction l as [|x r IH]; intros acc c; simpl.
  - tauto.
  - rewrite IH, set_add_In. intuition.
Qed.

Lemma set_of_list_In : forall l c, In c (set_of_list cid_eqb l) <-> In c l.
Proof. intros l c. unfold set_of_list. rewrite set_of_list_In_gen. simpl. tauto. Qed.

Lemma mem_eq_of_In : forall a b c, (In c a <-> In c b) -> mem c a = mem c b.
Proof.
  intros a b c H. destruct (mem c a) eqn:Ea; destruct (mem c b) eqn:Eb; auto.
  - apply mem_In in Ea. apply H in Ea. apply mem_In in Ea. congruence.
  - apply mem_In in Eb. apply H in Eb. apply mem_In in Eb. congruence.
Qed.

Lemma set_le_spec : forall a b, set_le cid_eqb a b = true <-> forall c, In c a -> In c b.
Proof.
  intros a b. unfold set_le. rewrite forallb_forall. split; intros H c Hc.
  - apply mem_In. apply H. exact Hc.
  - apply mem_In. apply H. exact Hc.
Qed.

Lemma dict_get_set : forall {V} (d : list (cid * V)) k v k',
  dict_get cid_eqb (dict_set cid_eqb d k v) k' = if cid_eqb k' k then Ok v else dict_get cid_eqb d k'.
Proof.
  intros V d k v k'. induction d as [|[k0 w] r IH]; simpl.
  - destruct (cid_eqb k' k); reflexivity.
  - destruct (cid_eqb k k0) eqn:E; simpl.
    + apply cid_eqb_eq in E. subst k0. destruct (cid_eqb k' k); reflexivity.
    + rewrite IH. destruct (cid_eqb k' k0) eqn:E0; destruct (cid_eqb k' k) eqn:E1; auto.
      apply cid_eqb_eq in E0. apply cid_eqb_eq in E1. subst. rewrite cid_eqb_refl in E. discriminate.
Qed.

(* ------------------------------------------------------------------ accessible_links *)
Definition accessible (cids : list cid) (l : link) : bool := forallb (fun f => mem f cids) (l_from l).

Lemma gen_accessible_spec : forall cids links,
  g_accessible cids links = filter (accessible cids) links.
Proof.
  intros cids links. unfold g_accessible, accessible_links. apply filter_ext. intros l.
  unfold accessible. destruct (forallb (fun f => mem f cids) (l_from l)) eqn:E.
  - apply set_le_spec. intros c Hc. rewrite set_of_list_In in *.
    rewrite forallb_forall in E. apply mem_In. apply E. exact Hc.
  - destruct (set_le cid_eqb (set_of_list cid_eqb (l_from l)) (set_of_list cid_eqb cids)) eqn:E'; auto.
    rewrite set_le_spec in E'. assert (forallb (fun f => mem f cids) (l_from l) = true); [|congruence].
    apply forallb_forall. intros f Hf. apply mem_In. rewrite <- set_of_list_In. apply E'. rewrite set_of_list_In. exact Hf.
Qed.

(* ------------------------------------------------------------------ the state of the translated loop vs the table *)
Notation proj := links_of_table.

Definition zdepth (own : list cid) (t : table) (c : cid) : result Z :=
  match depth_of own t c with Some d => Ok (Z.of_nat d) | None => Err KeyError end.

(* (cids, cid_links, depth) of the translated code represents table t *)
Record Rep (own : list cid) (t : table) (st : list cid * list (cid * link) * list (cid * Z)) : Prop := {
  rep_cids : forall c, mem c (fst (fst st)) = match depth_of own t c with Some _ => true | None => false end;
  rep_links : snd (fst st) = proj t;
  rep_depth : forall c, dict_get cid_eqb (snd st) c = zdepth own t c
}.

Lemma proj_set : forall t c d l, dict_set cid_eqb (proj t) c l = proj (set_entry c (d, l) t).
Proof.
  intros t c d l. induction t as [|[k [d0 l0]] r IH]; simpl; auto.
  destruct (cid_eqb c k); simpl; auto. rewrite IH. reflexivity.
Qed.

Lemma max_depth_some_iff : forall own t fs,
  (exists m, max_depth own t fs = Some m) <-> forall f, In f fs -> depth_of own t f <> None.
Proof.
  intros own t fs. induction fs as [|f r IH]; simpl.
  - split; [intros _ f []| intros _; eauto].
  - split.
    + intros [m H] g [Hg|Hg].
      * subst. destruct (depth_of own t g); congruence.
      * destruct (depth_of own t f); try discriminate. destruct (max_depth own t r) eqn:E; try discriminate.
        apply IH; eauto.
    + intros H. destruct (depth_of own t f) eqn:Ef; [|exfalso; apply (H f); auto].
      destruct (proj2 IH) as [m Hm]. { intros g Hg. apply H. auto. }
      rewrite Hm. eauto.
Qed.

Lemma accessible_max_depth : forall own t cids iter l,
  (forall s c, In c (iter s) <-> In c s) ->
  (forall c, mem c cids = match depth_of own t c with Some _ => true | None => false end) ->
  set_le cid_eqb (set_of_list cid_eqb (l_from l)) (set_of_list cid_eqb (iter cids)) =
  match max_depth own t (l_from l) with Some _ => true | None => false end.
Proof.
  intros own t cids iter l Hiter Hc.
  assert (Hiff : set_le cid_eqb (set_of_list cid_eqb (l_from l)) (set_of_list cid_eqb (iter cids)) = true <->
                 exists m, max_depth own t (l_from l) = Some m).
  { rewrite set_le_spec, max_depth_some_iff. split; intros H f Hf.
    - assert (Hin : In f cids). { rewrite <- Hiter, <- set_of_list_In. apply H. rewrite set_of_list_In. exact Hf. }
      apply mem_In in Hin. rewrite Hc in Hin. destruct (depth_of own t f); congruence.
    - rewrite set_of_list_In in Hf. rewrite set_of_list_In, Hiter. apply mem_In. rewrite Hc.
      specialize (H f Hf). destruct (depth_of own t f); congruence. }
  destruct (max_depth own t (l_from l)) as [m|] eqn:Em.
  - apply Hiff. eauto.
  - destruct (set_le _ _ _) eqn:E; auto. destruct (proj1 Hiff eq_refl). discriminate.
Qed.

(* max([depth[f] for f in from_]) over any enumeration of the inputs *)
Lemma fold_max_spec : forall r x,
  (forall z, In z (x :: r) -> (z <= fold_left Z.max r x)%Z) /\ In (fold_left Z.max r x) (x :: r).
Proof.
  induction r as [|y r IH]; intros x.
  - simpl. split; [intros z [H|[]]; subst; lia | auto].
  - destruct (IH (Z.max x y)) as [Hub Hin]. change (fold_left Z.max (y :: r) x) with (fold_left Z.max r (Z.max x y)). split.
    + intros z [H|[H|H]]; subst.
      * specialize (Hub (Z.max z y) (or_introl eq_refl)). lia.
      * specialize (Hub (Z.max x z) (or_introl eq_refl)). lia.
      * apply Hub. right. exact H.
    + destruct Hin as [Hin|Hin]; [|right; right; exact Hin].
      rewrite <- Hin. destruct (Z.max_spec x y) as [[_ E]|[_ E]]; rewrite E; simpl; auto.
Qed.

Lemma map_result_depths : forall own t (depth : list (cid * Z)) xs,
  (forall c, dict_get cid_eqb depth c = zdepth own t c) ->
  (forall f, In f xs -> depth_of own t f <> None) ->
  exists zs, map_result (fun f => match dict_get cid_eqb depth f with Ok v => Ok v | Err e => Err e end) xs = Ok zs /\
             forall z, In z zs <-> exists f d, In f xs /\ depth_of own t f = Some d /\ z = Z.of_nat d.
Proof.
  intros own t depth xs Hd. induction xs as [|x r IH]; intros Hall; simpl.
  - exists []. split; auto. intros z. split; [intros []|intros [f [d [[] _]]]].
  - rewrite Hd. unfold zdepth. destruct (depth_of own t x) as [dx|] eqn:Ex; [|exfalso; apply (Hall x); [left; reflexivity|exact Ex]].
    destruct IH as [zs [Hzs Hin]]. { intros f Hf. apply Hall. right. exact Hf. }
    rewrite Hzs. exists (Z.of_nat dx :: zs). split; auto.
    intros z. simpl. rewrite Hin. split.
    + intros [H|[f [d [Hf [Hd' Hz]]]]]; [exists x, dx; auto | exists f, d; auto].
    + intros [f [d [[Hf|Hf] [Hd' Hz]]]]; [subst; left; congruence | right; eauto].
Qed.

Lemma max_depth_is_max : forall own t fs m, max_depth own t fs = Some m -> fs <> [] ->
  (forall f d, In f fs -> depth_of own t f = Some d -> d <= m) /\
  (exists f, In f fs /\ depth_of own t f = Some m).
Proof.
  intros own t fs. induction fs as [|f r IH]; intros m H Hne; [congruence|].
  simpl in H. destruct (depth_of own t f) as [a|] eqn:Ea; try discriminate.
  destruct (max_depth own t r) as [b|] eqn:Eb; try discriminate. inversion H; subst; clear H.
  destruct r as [|g r'].
  - simpl in Eb. inversion Eb; subst. split.
    + intros f0 d [Hf|[]] Hd; subst. rewrite Ea in Hd. inversion Hd; lia.
    + exists f. split; [left; auto|]. rewrite Ea. f_equal. lia.
  - destruct (IH b eq_refl ltac:(discriminate)) as [Hub [f0 [Hf0 Hd0]]]. split.
    + intros f1 d [Hf|Hf] Hd; subst.
      * rewrite Ea in Hd. inversion Hd; lia.
      * specialize (Hub _ _ Hf Hd). lia.
    + destruct (Nat.max_spec a b) as [[_ E]|[_ E]]; rewrite E.
      * exists f0. split; [right; auto|auto].
      * exists f. split; [left; auto|auto].
Qed.

Lemma cost_agrees : forall own t (depth : list (cid * Z)) iter (l : link) m,
  (forall s c, In c (iter s) <-> In c s) ->
  (forall c, dict_get cid_eqb depth c = zdepth own t c) ->
  max_depth own t (l_from l) = Some m -> l_from l <> [] ->
  exists zs, map_result (fun f => match dict_get cid_eqb depth f with Ok v => Ok v | Err e => Err e end)
                        (iter (set_of_list cid_eqb (l_from l))) = Ok zs /\
             py_max zs = Ok (Z.of_nat m).
Proof.
  intros own t depth iter l m Hiter Hd Hm Hne.
  assert (Hsame : forall f, In f (iter (set_of_list cid_eqb (l_from l))) <-> In f (l_from l)).
  { intros f. rewrite Hiter. apply set_of_list_In. }
  destruct (map_result_depths own t depth (iter (set_of_list cid_eqb (l_from l))) Hd) as [zs [Hzs Hin]].
  { intros f Hf. apply Hsame in Hf. apply (proj1 (max_depth_some_iff own t (l_from l))); eauto. }
  exists zs. split; auto.
  destruct (max_depth_is_max _ _ _ _ Hm Hne) as [Hub [f0 [Hf0 Hd0]]].
  destruct zs as [|z r].
  - exfalso. apply (proj2 (Hin (Z.of_nat m))). exists f0, m. rewrite Hsame. auto.
  - unfold py_max. f_equal. destruct (fold_max_spec r z) as [Hle Hmem].
    apply Z.le_antisymm.
    + apply Hin in Hmem. destruct Hmem as [f [d [Hf [Hdf Hz]]]]. rewrite Hz. apply Hsame in Hf.
      specialize (Hub _ _ Hf Hdf). lia.
    + apply Hle. apply Hin. exists f0, m. rewrite Hsame. auto.
Qed.

(* ------------------------------------------------------------------ simulation of the loops *)
Definition gstate := (list cid * list (cid * link) * list (cid * Z))%type.

Definition step_state (st : gstate) (l : link) (c : nat) : gstate :=
  let '(cids, cid_links, depth) := st in
  (set_add cid_eqb cids (l_to l), dict_set cid_eqb cid_links (l_to l) l, dict_set cid_eqb depth (l_to l) (Z.of_nat c)).

Lemma Rep_step : forall own t st l c,
  Rep own t st -> improves own t l = Some c -> Rep own (set_entry (l_to l) (c, l) t) (step_state st l c).
Proof.
  intros own t [[cids cl] depth] l c [H1 H2 H3] Himp. simpl in *.
  destruct (improves_spec _ _ _ _ Himp) as [m [Hm [Hc [Hown _]]]].
  constructor; simpl.
  - intros x. rewrite depth_of_set. simpl.
    rewrite (mem_eq_of_In (set_add cid_eqb cids (l_to l)) (l_to l :: cids) x).
    2:{ rewrite set_add_In. simpl. intuition. }
    simpl. rewrite H1. destruct (mem x own) eqn:Ex.
    + unfold depth_of. rewrite Ex. destruct (cid_eqb x (l_to l)); reflexivity.
    + destruct (cid_eqb x (l_to l)); reflexivity.
  - rewrite H2. apply proj_set.
  - intros x. rewrite dict_get_set, H3. unfold zdepth. rewrite depth_of_set. simpl.
    destruct (cid_eqb x (l_to l)) eqn:Ex.
    + apply cid_eqb_eq in Ex. subst x. rewrite Hown. reflexivity.
    + unfold depth_of. destruct (mem x own); reflexivity.
Qed.

(* the generic shape: a loop body that either skips (Continue) or takes the link (Break with the updated state) *)
Lemma for_else_first : forall own t (B : link -> gstate -> outcome gstate (list (cid * link))) (p : link -> bool) st links,
  (forall l, p l = false -> improves own t l = None) ->
  (forall l, p l = true -> B l st = match improves own t l with
                                   | None => Continue st
                                   | Some c => Break (step_state st l c)
                                   end) ->
  forall O, (forall s, O s = Break s) ->
  for_else B O (filter p links) st =
  match first_improving own t links with
  | None => Break st
  | Some (l, c) => Normal (step_state st l c)
  end.
Proof.
  intros own t B p st links Hp HB O HO. induction links as [|l r IH]; simpl; auto.
  destruct (p l) eqn:El.
  - simpl. rewrite (HB l El). destruct (improves own t l); auto.
  - rewrite (Hp l El). exact IH.
Qed.

Lemma while_sim : forall own links (W : gstate -> outcome gstate (list (cid * link))),
  (forall st t, Rep own t st ->
     W st = match first_improving own t links with
            | None => Break st
            | Some (l, c) => Normal (step_state st l c)
            end) ->
  forall fuel st t, Rep own t st ->
    match discover_loop fuel own links t with
    | Some t' => exists st', while_true fuel W st = Normal st' /\ Rep own t' st'
    | None => while_true fuel W st = Raise OutOfFuel
    end.
Proof.
  intros own links W HW. induction fuel as [|k IH]; intros st t HR; simpl; auto.
  rewrite (HW st t HR). destruct (first_improving own t links) as [[l c]|] eqn:E.
  - apply IH. apply Rep_step; auto. apply (first_improving_some _ _ _ _ _ E).
  - exists st. auto.
Qed.

Lemma set_of_list_nil : forall l, set_of_list cid_eqb l = [] -> l = [].
Proof.
  intros [|x r] H; auto. exfalso.
  assert (Hin : In x (set_of_list cid_eqb (x :: r))). { apply set_of_list_In. left. reflexivity. }
  rewrite H in Hin. exact Hin.
Qed.

Lemma zlen_pos : forall l, (zlen (set_of_list cid_eqb l) >? 0)%Z = match l with [] => false | _ => true end.
Proof.
  intros l. destruct l as [|x r]; [reflexivity|].
  destruct (set_of_list cid_eqb (x :: r)) eqn:E.
  - apply set_of_list_nil in E. discriminate.
  - unfold zlen. simpl length. apply Z.gtb_lt. lia.
Qed.

Lemma dict_get_fold0 : forall xs acc c,
  dict_get cid_eqb (fold_left (fun d x => dict_set cid_eqb d x 0%Z) xs acc) c =
  if mem c xs then Ok 0%Z else dict_get cid_eqb acc c.
Proof.
  induction xs as [|x r IH]; intros acc c; simpl; auto.
  rewrite IH, dict_get_set. destruct (cid_eqb c x) eqn:E; simpl.
  - destruct (mem c r); reflexivity.
  - reflexivity.
Qed.

Lemma Rep_init : forall own iter, (forall s c, In c (iter s) <-> In c s) ->
  Rep own [] (set_of_list cid_eqb own, [],
              fold_left (fun d x => dict_set cid_eqb d x 0%Z) (iter (set_of_list cid_eqb own)) []).
Proof.
  intros own iter Hiter. constructor; simpl.
  - intros c. unfold depth_of. simpl. rewrite (mem_eq_of_In (set_of_list cid_eqb own) own c (set_of_list_In own c)).
    destruct (mem c own); reflexivity.
  - reflexivity.
  - intros c. rewrite dict_get_fold0. unfold zdepth, depth_of. simpl.
    rewrite (mem_eq_of_In (iter (set_of_list cid_eqb own)) own c).
    2:{ rewrite Hiter. apply set_of_list_In. }
    destruct (mem c own); reflexivity.
Qed.

(* the translated discover_links is the hand model's loop *)
Theorem gen_discover_equiv : forall iter, (forall s c, In c (iter s) <-> In c s) ->
  forall fuel d links,
  g_discover_with iter fuel d links =
  match discover_loop fuel (g_main d ++ g_coord d) links [] with
  | Some t => Ok (proj t)
  | None => Err OutOfFuel
  end.
Proof.
  intros iter Hiter fuel d links. unfold g_discover_with, discover_links.
  set (own := g_main d ++ g_coord d).
  (* the loop `for cid in cids: depth[cid] = 0` *)
  match goal with |- context [for_else ?B ?O ?xs (@nil (cid * Z))] =>
    replace (for_else B O xs []) with
      (@Normal (list (cid * Z)) (list (cid * link)) (fold_left (fun dd x => dict_set cid_eqb dd x 0%Z) xs []))
      by (symmetry; exact (for_else_fold (fun dd x => dict_set cid_eqb dd x 0%Z) xs []))
  end.
  cbv beta iota.
  (* the `while True` loop *)
  match goal with |- context [while_true fuel ?W ?s0] => set (Wb := W); set (st0 := s0) end.
  assert (HW : forall st t, Rep own t st ->
             Wb st = match first_improving own t links with
                     | None => Break st
                     | Some (l, c) => Normal (step_state st l c)
                     end).
  { intros [[cids cl] depth] t [H1 H2 H3]. simpl in H1, H2, H3. subst Wb. cbv beta iota.
    unfold accessible_links.
    match goal with |- context [for_else ?B ?O (filter ?p links) ?s] =>
      rewrite (for_else_first own t B p s links)
    end.
    - destruct (first_improving own t links) as [[l c]|]; reflexivity.
    - (* links that are not accessible do not improve *)
      intros l Hl. cbv beta in Hl. rewrite (accessible_max_depth own t cids iter l Hiter H1) in Hl.
      unfold improves. destruct (max_depth own t (l_from l)); [discriminate|reflexivity].
    - (* the body of `for link in accessible_links(cids, links)` *)
      intros l Hl. cbv beta in Hl. rewrite (accessible_max_depth own t cids iter l Hiter H1) in Hl.
      destruct (max_depth own t (l_from l)) as [m|] eqn:Hm; [clear Hl|discriminate].
      cbv beta iota. rewrite zlen_pos.
      change (set_mem cid_eqb (l_to l) cids) with (mem (l_to l) cids). rewrite H1, (H3 (l_to l)).
      unfold improves, zdepth. rewrite Hm.
      destruct (l_from l) as [|f0 fr] eqn:Hfrom.
      + simpl in Hm. inversion Hm; subst m.
        destruct (depth_of own t (l_to l)) as [d0|] eqn:Ed; [|reflexivity].
        destruct (1 >=? Z.of_nat d0)%Z eqn:Ege; destruct (1 <? d0) eqn:Elt; try reflexivity; exfalso.
        * apply Nat.ltb_lt in Elt. apply Z.geb_le in Ege. lia.
        * apply Nat.ltb_ge in Elt. rewrite Z.geb_leb in Ege. apply Z.leb_gt in Ege. lia.
      + rewrite <- Hfrom in *.
        destruct (cost_agrees own t depth iter l m Hiter H3 Hm ltac:(rewrite Hfrom; discriminate)) as [zs [Hzs Hmax]].
        rewrite Hzs, Hmax. replace (Z.of_nat m + 1)%Z with (Z.of_nat (S m)) by lia.
        destruct (depth_of own t (l_to l)) as [d0|] eqn:Ed; [|reflexivity].
        destruct (Z.of_nat (S m) >=? Z.of_nat d0)%Z eqn:Ege; destruct (S m <? d0) eqn:Elt; try reflexivity; exfalso.
        * apply Nat.ltb_lt in Elt. apply Z.geb_le in Ege. lia.
        * apply Nat.ltb_ge in Elt. rewrite Z.geb_leb in Ege. apply Z.leb_gt in Ege. lia.
    - intros [[a b] c]. reflexivity. }
  pose proof (while_sim own links Wb HW fuel st0 [] (Rep_init own iter Hiter)) as Hsim.
  destruct (discover_loop fuel own links []) as [t'|].
  - destruct Hsim as [[[cids' cl'] depth'] [Hrun [_ Hcl _]]]. unfold gstate in Hrun. rewrite Hrun. simpl in Hcl. rewrite Hcl. reflexivity.
  - unfold gstate in Hsim. rewrite Hsim. reflexivity.
Qed.

(* ------------------------------------------------------------------ the theorems of the hand model, transported *)
Lemma gen_accessible_links_spec : forall cids links,
  g_accessible cids links = filter (fun l => forallb (fun f => mem f cids) (l_from l)) links.
Proof. exact gen_accessible_spec. Qed.

Lemma gen_discover_is_model : forall iter, iter_ok iter -> forall fuel d links,
  g_discover_with iter fuel d links =
  match discover_loop fuel (g_main d ++ g_coord d) links [] with
  | Some t => Ok (links_of_table t)
  | None => Err OutOfFuel
  end.
Proof. exact gen_discover_equiv. Qed.

Lemma iter_id_ok : iter_ok (fun s => s).
Proof. intros s c. tauto. Qed.

(* no KeyError, no ValueError, no fuel exhaustion; the result depends neither on the fuel nor on the set order *)
Lemma gen_discover_total : forall d links,
  exists t, discover (g_main d ++ g_coord d) links = Some t /\ forall iter fuel, iter_ok iter -> fuel_for links <= fuel ->
      g_discover_with iter fuel d links = Ok (links_of_table t).
Proof.
  intros d links. destruct (discover_terminates (g_main d ++ g_coord d) links) as [[t Ht] Hfuel].
  exists t. split; [exact Ht|]. intros iter fuel Hiter Hle.
  rewrite (gen_discover_equiv iter Hiter), (Hfuel fuel Hle). unfold discover. rewrite Ht. reflexivity.
Qed.

Lemma gen_result_table : forall iter fuel d links r, iter_ok iter -> fuel_for links <= fuel ->
  g_discover_with iter fuel d links = Ok r ->
  exists t, discover (g_main d ++ g_coord d) links = Some t /\ r = links_of_table t.
Proof.
  intros iter fuel d links r Hiter Hle H. destruct (gen_discover_total d links) as [t [Ht Hall]].
  rewrite (Hall iter fuel Hiter Hle) in H. inversion H. eauto.
Qed.

Lemma dict_mem_proj : forall t c, dict_mem cid_eqb (links_of_table t) c = true <-> lookup c t <> None.
Proof.
  intros t c. induction t as [|[k [d0 l0]] r IH]; simpl.
  - split; [discriminate|congruence].
  - destruct (cid_eqb c k); simpl; [split; [discriminate|reflexivity]|exact IH].
Qed.

(* reachability: the keys of the returned dict are the closure of the dataset's own attributes under the links *)
Lemma gen_discover_reachable : forall iter fuel d links r, iter_ok iter -> fuel_for links <= fuel ->
  g_discover_with iter fuel d links = Ok r ->
  forall c, dict_mem cid_eqb r c = true <->
            ((exists n, Derivable (g_main d ++ g_coord d) links c n) /\ ~ In c (g_main d ++ g_coord d)).
Proof.
  intros iter fuel d links r Hiter Hle H c. destruct (gen_result_table _ _ _ _ _ Hiter Hle H) as [t [Ht Hr]]. subst r.
  rewrite dict_mem_proj. apply (discover_sound_complete _ _ _ Ht).
Qed.

Lemma In_proj : forall t c l, NoDup (map fst t) -> (In (c, l) (links_of_table t) <-> exists d, lookup c t = Some (d, l)).
Proof.
  intros t c l. induction t as [|[k [d0 l0]] r IH]; simpl; intros Hnd.
  - split; [intros []|intros [d H]; discriminate].
  - inversion Hnd as [|? ? Hnot Hr]; subst. destruct (cid_eqb c k) eqn:E.
    + apply cid_eqb_eq in E. subst k. split.
      * intros [H|H]. { inversion H; subst. eauto. }
        exfalso. apply Hnot. apply in_map_iff in H. destruct H as [[k [d1 l1]] [H1 H2]]. simpl in H1. inversion H1; subst.
        apply in_map_iff. exists (c, (d1, l)). auto.
      * intros [d H]. inversion H; subst. left. reflexivity.
    + rewrite <- (IH Hr). split.
      * intros [H|H]; auto. inversion H; subst. rewrite cid_eqb_refl in E. discriminate.
      * auto.
Qed.

(* every returned link is a valid last step of a derivation of minimum height: it is one of the links given, targets
   its key, and each of its inputs is own or has an entry of strictly smaller rank, the rank being the minimum height *)
Lemma gen_discover_wellfounded_min : forall iter fuel d links r, iter_ok iter -> fuel_for links <= fuel ->
  g_discover_with iter fuel d links = Ok r ->
  let own := g_main d ++ g_coord d in
  exists rank : cid -> option nat,
    (forall c, rank c <> None <-> In c own \/ dict_mem cid_eqb r c = true) /\
    (forall c k, rank c = Some k -> Derivable own links c k /\ forall n, Derivable own links c n -> k <= n) /\
    (forall c l, In (c, l) r ->
       In l links /\ l_to l = c /\ ~ In c own /\
       exists k, rank c = Some k /\ forall f, In f (l_from l) -> exists kf, rank f = Some kf /\ kf < k).
Proof.
  intros iter fuel d links r Hiter Hle H own. destruct (gen_result_table _ _ _ _ _ Hiter Hle H) as [t [Ht Hr]]. subst r.
  fold own in Ht. exists (depth_of own t). destruct (discover_inv _ _ _ Ht) as [HI _]. split; [|split].
  - intros c. rewrite dict_mem_proj. unfold depth_of. destruct (mem c own) eqn:E.
    + apply mem_In in E. split; [auto|congruence].
    + apply mem_false in E. destruct (lookup c t) as [[d0 l0]|].
      * split; [intros _; right; discriminate | intros _; discriminate].
      * split; [congruence | intros [Hc|Hc]; [contradiction|congruence]].
  - intros c k Hk. apply (discover_min_depth _ _ _ Ht c k Hk).
  - intros c l Hin. apply (In_proj t c l (inv_nodup _ _ _ HI)) in Hin. destruct Hin as [d0 Hl].
    destruct (discover_wellfounded _ _ _ Ht c d0 l Hl) as (H1 & H2 & H3 & H4). repeat split; auto.
    exists d0. split; auto. unfold depth_of. apply mem_false in H3. rewrite H3, Hl. reflexivity.
Qed.

(* reading through the returned dict *)
Lemma lookup_table_of : forall t c,
  lookup c (table_of_links (links_of_table t)) = match lookup c t with Some (_, l) => Some (0, l) | None => None end.
Proof.
  intros t c. induction t as [|[k [d0 l0]] r IH]; simpl; auto. destruct (cid_eqb c k); auto.
Qed.

Lemma eval_table_of : forall fuel own env t c,
  eval fuel own env (table_of_links (links_of_table t)) c = eval fuel own env t c.
Proof.
  induction fuel as [|k IH]; intros own env t c; simpl; auto.
  destruct (mem c own); auto. rewrite lookup_table_of. destruct (lookup c t) as [[d0 l0]|]; auto.
  replace (map (eval k own env (table_of_links (links_of_table t))) (l_from l0)) with (map (eval k own env t) (l_from l0)); auto.
  apply map_ext. intros f. symmetry. apply IH.
Qed.

Lemma read_table_of : forall own env t c, read own env (table_of_links (links_of_table t)) c = read own env t c.
Proof.
  intros. unfold read. unfold table_of_links, links_of_table at 1. rewrite !map_length. apply eval_table_of.
Qed.

(* composed values: what Data.get_data reads through the dict returned by the translated discover_links *)
Lemma gen_discover_value : forall iter fuel d links r env, iter_ok iter -> fuel_for links <= fuel ->
  g_discover_with iter fuel d links = Ok r ->
  let own := g_main d ++ g_coord d in
  forall c,
  (forall n, Derivable own links c n ->
     exists k v, read own env (table_of_links r) c = Some v /\ DerivVal own links env c k v /\
                 (forall m, Derivable own links c m -> k <= m) /\
                 select own env (table_of_links r) c 0%Z = Some (v >? 0)%Z) /\
  ((forall n, ~ Derivable own links c n) ->
     read own env (table_of_links r) c = None /\ select own env (table_of_links r) c 0%Z = None).
Proof.
  intros iter fuel d links r env Hiter Hle H own c. destruct (gen_result_table _ _ _ _ _ Hiter Hle H) as [t [Ht Hr]]. subst r.
  fold own in Ht. unfold select. rewrite read_table_of.
  destruct (discover_value own links env t Ht c) as [Hsome Hnone].
  destruct (depth_of own t c) as [k|] eqn:Ek.
  - destruct (Hsome k eq_refl) as [v [Hread [Hdv Hmin]]]. split.
    + intros n Hn. exists k, v. rewrite Hread. auto.
    + intros Hno. exfalso. apply (Hno k). apply (discover_min_depth _ _ _ Ht c k Ek).
  - destruct (Hnone eq_refl) as [Hread Hno]. split.
    + intros n Hn. exfalso. apply (Hno n Hn).
    + intros _. rewrite Hread. auto.
Qed.

(* order irrelevance on the translated code: the enumeration of the links and of every set *)
Lemma gen_discover_order_irrelevant : forall iter iter' fuel fuel' d links links' r r',
  iter_ok iter -> iter_ok iter' -> fuel_for links <= fuel -> fuel_for links' <= fuel' ->
  (forall l, In l links <-> In l links') ->
  g_discover_with iter fuel d links = Ok r -> g_discover_with iter' fuel' d links' = Ok r' ->
  forall c, dict_mem cid_eqb r c = dict_mem cid_eqb r' c.
Proof.
  intros iter iter' fuel fuel' d links links' r r' Hi Hi' Hf Hf' Hsame H H' c.
  destruct (gen_result_table _ _ _ _ _ Hi Hf H) as [t [Ht Hr]].
  destruct (gen_result_table _ _ _ _ _ Hi' Hf' H') as [t' [Ht' Hr']]. subst r r'.
  pose proof (discover_order_irrelevant _ _ _ _ _ Hsame Ht Ht' c) as Hd.
  assert (Hiff : dict_mem cid_eqb (links_of_table t) c = true <-> dict_mem cid_eqb (links_of_table t') c = true).
  { rewrite !dict_mem_proj. unfold depth_of in Hd. destruct (mem c (g_main d ++ g_coord d)) eqn:E.
    - (* own attributes are never keys *)
      split; intros Hx; exfalso.
      + destruct (proj1 (discover_sound_complete _ _ _ Ht c) Hx) as [_ Hn]. apply Hn. apply mem_In. exact E.
      + destruct (proj1 (discover_sound_complete _ _ _ Ht' c) Hx) as [_ Hn]. apply Hn. apply mem_In. exact E.
    - destruct (lookup c t) as [[? ?]|]; destruct (lookup c t') as [[? ?]|]; split; congruence. }
  destruct (dict_mem cid_eqb (links_of_table t) c); destruct (dict_mem cid_eqb (links_of_table t') c); auto.
  - symmetry. apply Hiff. reflexivity.
  - apply Hiff. reflexivity.
Qed.
