(* C03 — non-vacuity examples and sanity runs. *)
From Coq Require Import ZArith List Bool Arith Lia.
Import ListNotations.
From GV Require Import Common.Wire Common.PyInt gen.Gen_links C03.Model C03.Lemmas.
Open Scope Z_scope.

(* ---------- discover on a graph with a cycle, a diamond, a two-input link and an unreachable part ---------- *)
Definition a : cid := (0, 2).   Definition b : cid := (1, 2).   Definition c : cid := (2, 2).
Definition e : cid := (3, 2).   Definition u : cid := (4, 2).   Definition w : cid := (4, 3).

Definition L : list link :=
  [ mklink 0 [a] b (mkfn 1 [2]);          (* b = 2a+1 *)
    mklink 1 [b] a (mkfn 0 [1]);          (* cycle back into an own attribute: never used *)
    mklink 2 [b] c (mkfn 0 [3]);          (* c = 3b      (depth 2) *)
    mklink 3 [a] c (mkfn 5 [1]);          (* c = a+5     (depth 1: the diamond's short side wins) *)
    mklink 4 [b; c] e (mkfn 0 [1; 1]);    (* e = b+c     (depth 2) *)
    mklink 5 [u] w (mkfn 0 [1]);          (* not reachable *)
    mklink 6 [e] b (mkfn 7 [1]) ].        (* longer way to b: not an improvement *)

Example discover_runs :
  discover [a] L = Some [ (b, (1%nat, mklink 0 [a] b (mkfn 1 [2])));
                          (c, (1%nat, mklink 3 [a] c (mkfn 5 [1])));
                          (e, (2%nat, mklink 4 [b; c] e (mkfn 0 [1; 1]))) ].
Proof. vm_compute. reflexivity. Qed.

(* c is first found at depth 2 (through b) when that link is enumerated first, then replaced by the strictly cheaper one *)
Example discover_replaces :
  discover [a] [mklink 0 [a] b (mkfn 1 [2]); mklink 2 [b] c (mkfn 0 [3]); mklink 3 [a] c (mkfn 5 [1])]
  = Some [ (b, (1%nat, mklink 0 [a] b (mkfn 1 [2]))); (c, (1%nat, mklink 3 [a] c (mkfn 5 [1]))) ].
Proof. vm_compute. reflexivity. Qed.

Definition env0 : cid -> Z := fun x => if cid_eqb x a then 10 else 0.

Example values_read :
  match discover [a] L with
  | Some t => (read [a] env0 t b, read [a] env0 t c, read [a] env0 t e, read [a] env0 t w,
               select [a] env0 t e 35, select [a] env0 t e 36, select [a] env0 t w 0)
  | None => (None, None, None, None, None, None, None)
  end = (Some 21, Some 15, Some 36, None, Some true, Some false, None).
Proof. vm_compute. reflexivity. Qed.

(* the hypotheses of the discover theorems are met by this instance (Some table, non-empty) and their conclusions say
   something: e is derivable, at minimum height 2, w is not derivable at all *)
Example e_min_depth : forall t, discover [a] L = Some t ->
  Derivable [a] L e 2 /\ (forall n, Derivable [a] L e n -> (2 <= n)%nat).
Proof.
  intros t H. apply (Lemmas.discover_min_depth _ _ _ H e 2%nat).
  rewrite discover_runs in H. inversion H. vm_compute. reflexivity.
Qed.

Example w_not_derivable : forall n, ~ Derivable [a] L w n.
Proof.
  intros n. apply (proj2 (Lemmas.discover_value [a] L env0 _ discover_runs w)). vm_compute. reflexivity.
Qed.

(* order irrelevance on the instance: reversing the enumeration gives the same depths *)
Example reversed_same_depths :
  match discover [a] L, discover [a] (rev L) with
  | Some t, Some t' => map (depth_of [a] t) [a; b; c; e; u; w] = map (depth_of [a] t') [a; b; c; e; u; w]
  | _, _ => False
  end.
Proof. vm_compute. reflexivity. Qed.

(* ---------- the manager: two datasets in the collection (one with coordinates), one outside ---------- *)
Definition p1 : cid := (1, 0).  Definition w1 : cid := (1, 1).
Definition D0 := mkds 0 true true 2 [(0, 0); a] [(0, 0)] [] [] [] [] [].
Definition D1 := mkds 1 true true 2 [p1; w1; b] [p1; w1] [w1]
                      [mklink 1002 [p1] w1 (mkfn 2 [-1]); mklink 1003 [w1] p1 (mkfn 2 [-1])] [] [] [].
Definition D2 := mkds 2 false false 2 [(2, 0); c] [(2, 0)] [] [] [] [] [].
Definition s0 := recompute (mkstate [D0; D1; D2] [] 0%nat false).

Definition same_ab := mkent 0 true None [(mklink 0 [a] b (mkfn 0 [1]), Some (mkfn 0 [1]))].
Definition a_to_w := mkent 2 false None [(mklink 20 [a] w1 (mkfn 1 [-1]), Some (mkfn 1 [-1]))].
Definition p_to_c := mkent 1 false None [(mklink 10 [p1] c (mkfn 1 [2]), None)].

Lemma D0_wf : ds_wf D0.
Proof.
  unfold ds_wf, D0, comps, der_cids. simpl. split; [|split; [|split; [|split]]].
  - intros x [H|[H|[]]]; subst; reflexivity.
  - intros x [H|[]]; subst; simpl; auto.
  - intros l [].
  - split; intros l [].
  - auto.
Qed.

Lemma D1_wf : ds_wf D1.
Proof.
  unfold ds_wf, D1, comps, der_cids. simpl. split; [|split; [|split; [|split]]].
  - intros x [H|[H|[H|[]]]]; subst; reflexivity.
  - intros x [H|[H|[]]]; subst; simpl; auto.
  - intros l [H|[H|[]]]; subst l; simpl;
      (split; [discriminate | split; [intros x [Hx|[]]; subst; simpl; auto | auto]]).
  - split; intros l [].
  - auto.
Qed.

Lemma D2_wf : ds_wf D2.
Proof.
  unfold ds_wf, D2, comps, der_cids. simpl. split; [|split; [|split; [|split]]].
  - intros x [H|[H|[]]]; subst; reflexivity.
  - intros x [H|[]]; subst; simpl; auto.
  - intros l [].
  - split; intros l [].
  - intros; discriminate.
Qed.

Lemma s0_good : wf s0 /\ fresh s0 /\ s_delay s0 = 0%nat.
Proof.
  apply Lemmas.manager_init.
  - simpl. constructor; [simpl; intuition; discriminate|].
    constructor; [simpl; intuition; discriminate|]. constructor; [simpl; tauto|constructor].
  - intros d [H|[H|[H|[]]]]; subst d. apply D0_wf. apply D1_wf. apply D2_wf.
Qed.

Definition hist : list op :=
  [ AddLink same_ab; AddData 2; DelayBegin; AddLink p_to_c; AddLink a_to_w; DelayEnd;
    SetCoordsNone 1; RemoveComponent 0 a; RemoveData 2 ].

(* what the history does, step by step: (result code, registered ids, tables as (dataset, attribute, depth)) *)
Definition trace (s : state) (ops : list op) : list (Z * list Z * list (Z * cid * nat)) :=
  (fix go s ops := match ops with
                   | [] => []
                   | o :: r => let '(s', code) := step s o in
                               (code, map e_id (s_ext s'),
                                flat_map (fun d => map (fun kv => (d_id d, fst kv, fst (snd kv))) (d_tbl d)) (s_data s'))
                               :: go s' r
                   end) s ops.

Example hist_trace :
  trace s0 hist =
  [ (0, [0], [(0, b, 1%nat); (1, a, 1%nat)]);
    (0, [0], [(0, b, 1%nat); (1, a, 1%nat)]);
    (0, [0], [(0, b, 1%nat); (1, a, 1%nat)]);
    (0, [0; 1], [(0, b, 1%nat); (1, a, 1%nat)]);                       (* inside the delay block: stale *)
    (0, [0; 1; 2], [(0, b, 1%nat); (1, a, 1%nat)]);
    (0, [0; 1; 2],                                                     (* DelayEnd: everything recomputed *)
       [(0, b, 1%nat); (0, w1, 1%nat); (0, p1, 2%nat); (0, c, 3%nat);
        (1, a, 1%nat); (1, c, 1%nat)]);
    (0, [0; 1], [(0, b, 1%nat); (1, a, 1%nat); (1, c, 1%nat)]);        (* coords=None: link 2 (into the world attribute) dropped *)
    (0, [1], [(1, c, 1%nat)]);                                         (* a removed: link 0 dropped *)
    (0, [], []) ].                                                     (* dataset 2 removed: link 1 (into its attribute c) dropped *)
Proof. vm_compute. reflexivity. Qed.

(* a boolean checker for valid_history, so that validity of a concrete history is a computation *)
Definition live_b (s : state) (x : cid) : bool := existsb (fun d => d_member d && mem x (comps d)) (s_data s).
Definition entry_live_b (s : state) (en : entry) : bool :=
  forallb (fun p => forallb (live_b s) (link_cids (fst p))) (e_links en).
Definition valid_op_b (s : state) (o : op) : bool :=
  match o with
  | AddLink en => entry_live_b s en
  | SetLinks es => forallb (entry_live_b s) es && (snd (add_all es []) =? 0)
  | RemoveComponent i x => match find_ds i (s_data s) with Some d => negb (mem x (d_coord d)) | None => true end
  | _ => true
  end.
Fixpoint valid_history_b (s : state) (ops : list op) : bool :=
  match ops with [] => true | o :: r => valid_op_b s o && valid_history_b (fst (step s o)) r end.

Lemma live_b_ok : forall s x, live_b s x = true -> live s x.
Proof.
  intros s x H. unfold live_b in H. apply existsb_exists in H. destruct H as [d [Hd H]].
  apply andb_true_iff in H. destruct H as [Hm Hx]. exists d. repeat split; auto. apply mem_In. exact Hx.
Qed.

Lemma entry_live_b_ok : forall s en, entry_live_b s en = true -> entry_live s en.
Proof.
  intros s en H p x Hp Hx. unfold entry_live_b in H. rewrite forallb_forall in H.
  pose proof (H p Hp) as H1. rewrite forallb_forall in H1. apply live_b_ok. apply H1. exact Hx.
Qed.

Lemma valid_op_b_ok : forall s o, valid_op_b s o = true -> valid_op s o.
Proof.
  intros s o H. destruct o; simpl in *; auto.
  - apply entry_live_b_ok. exact H.
  - apply andb_true_iff in H. destruct H as [H1 H2]. split.
    + intros en Hen. apply entry_live_b_ok. rewrite forallb_forall in H1. apply H1. exact Hen.
    + apply Z.eqb_eq. exact H2.
  - intros d0 Hd0. rewrite Hd0 in H. apply negb_true_iff in H. apply mem_false. exact H.
Qed.

Lemma valid_history_b_ok : forall ops s, valid_history_b s ops = true -> valid_history s ops.
Proof.
  intros ops. induction ops as [|o r IH]; simpl; intros s H; auto.
  apply andb_true_iff in H. destruct H as [H1 H2]. split. apply valid_op_b_ok; auto. apply IH; auto.
Qed.

(* the history is valid in the sense of manager_inv_reachable, so the theorem applies to it *)
Example hist_valid : valid_history s0 hist.
Proof. apply valid_history_b_ok. vm_compute. reflexivity. Qed.

Example hist_end_state :
  let s := run s0 hist in
  wf s /\
  (s_delay s = 0%nat ->
     fresh s /\
     forall d x dep l, In d (s_data s) -> d_member d = true -> lookup x (d_tbl d) = Some (dep, l) ->
       In l (all_links s) /\ forall y, In y (link_cids l) -> live s y).
Proof.
  destruct s0_good as (H1 & H2 & H3).
  exact (Lemmas.manager_inv_reachable s0 hist H1 (fun _ => H2) hist_valid).
Qed.

(* ---------- derived components: removing an input removes the derived attribute and every link touching it ---------- *)
Definition x1 : cid := (1, 2).  Definition y1 : cid := (1, 6).  Definition z2 : cid := (2, 2).
Definition E1 := mkds 1 true true 2 [(1, 0); x1] [(1, 0)] [] [] [mklink 2001 [x1] y1 (mkfn 0 [2])] [] [].   (* y = 2x *)
Definition E2 := mkds 2 true true 2 [(2, 0); z2] [(2, 0)] [] [] [] [] [].
Definition t0 := recompute (mkstate [E1; E2] [] 0%nat false).
Definition z_to_y := mkent 0 false None [(mklink 0 [z2] y1 (mkfn 1 [-1]), Some (mkfn 1 [-1]))].     (* touches y, not x *)
Definition casc : list op := [ AddLink z_to_y; RemoveComponent 1 x1 ].

Lemma E1_wf : ds_wf E1.
Proof.
  unfold ds_wf, E1, comps, der_cids. simpl. split; [|split; [|split; [|split]]].
  - intros x [H|[H|[H|[]]]]; subst; reflexivity.
  - intros x [H|[]]; subst; simpl; auto.
  - intros l [].
  - split; [|intros l []]. intros l [H|[]]; subst l; simpl. split; [discriminate|]. intros x [Hx|[]]; subst; simpl; auto.
  - auto.
Qed.

Lemma E2_wf : ds_wf E2.
Proof.
  unfold ds_wf, E2, comps, der_cids. simpl. split; [|split; [|split; [|split]]].
  - intros x [H|[H|[]]]; subst; reflexivity.
  - intros x [H|[]]; subst; simpl; auto.
  - intros l [].
  - split; intros l [].
  - auto.
Qed.

Lemma t0_good : wf t0 /\ fresh t0 /\ s_delay t0 = 0%nat.
Proof.
  apply Lemmas.manager_init.
  - simpl. constructor; [simpl; intuition; discriminate|]. constructor; [simpl; tauto|constructor].
  - intros d [H|[H|[]]]; subst d. apply E1_wf. apply E2_wf.
Qed.

(* dataset 1 lists its own derived y at depth 1; after the link both datasets see across; removing x takes y with
   it, the link (which never mentioned x) is dropped and nothing is derivable any more *)
Example casc_trace :
  trace t0 casc =
  [ (0, [0], [(1, y1, 1%nat); (1, z2, 2%nat); (2, y1, 1%nat)]);
    (0, [], []) ].
Proof. vm_compute. reflexivity. Qed.

Example casc_initial_table : flat_map (fun d => map (fun kv => (d_id d, fst kv, fst (snd kv))) (d_tbl d)) (s_data t0)
                             = [(1, y1, 1%nat)].
Proof. vm_compute. reflexivity. Qed.

Example casc_valid : valid_history t0 casc.
Proof. apply valid_history_b_ok. vm_compute. reflexivity. Qed.

Example casc_reads :
  let s := fst (step t0 (AddLink z_to_y)) in
  let env := fun c : cid => if cid_eqb c x1 then 5 else if cid_eqb c z2 then 7 else 0 in
  map (fun d => (read_ds d env y1, read_ds d env z2, read_ds d env x1)) (s_data s)
  = [ (Some 10, Some (-9), Some 5);       (* dataset 1: y = 2x (its own component), z = 1 - y *)
      (Some (-6), Some 7, None) ].        (* dataset 2: y = 1 - z, x not reachable (y -> x has no link) *)
Proof. vm_compute. reflexivity. Qed.

(* wire: one discover case and one small history through run_case *)
Eval vm_compute in run_case (T 2 [T 0 [enc_cid a];
   T 0 [T 0 [T 0 [enc_cid a]; enc_cid b; T 0 [leaf 0; zs [1]]]; T 1 [T 0 [enc_cid b]; enc_cid c; T 0 [leaf 0; zs [1]]]]]).

(* ---------- the functions translated from glue/core/link_manager.py (gen/Gen_links.v) on the same graph ---------- *)
Definition GD : gdata := mkgdata [a] [] [].

(* the generated discover_links, run: the same dict as the hand model's table, in the same order *)
Example gen_discover_runs :
  g_discover GD L = Ok [ (b, mklink 0 [a] b (mkfn 1 [2])); (c, mklink 3 [a] c (mkfn 5 [1]));
                         (e, mklink 4 [b; c] e (mkfn 0 [1; 1])) ].
Proof. vm_compute. reflexivity. Qed.

(* a different iteration order of the sets (reversed) and more fuel: the same result, as gen_discover_total says *)
Example gen_discover_other_order :
  g_discover_with (@rev cid) 200 GD L = g_discover GD L.
Proof. vm_compute. reflexivity. Qed.

Lemma rev_iter_ok : iter_ok (@rev cid).
Proof. intros s x. symmetry. apply in_rev. Qed.

(* main and coordinate components both seed the closure; an empty-input link costs 1; out of fuel is an explicit error *)
Example gen_discover_coord_and_constant :
  g_discover (mkgdata [] [a] []) [mklink 0 [a] b (mkfn 1 [2]); mklink 1 [] u (mkfn 4 [])]
  = Ok [ (b, mklink 0 [a] b (mkfn 1 [2])); (u, mklink 1 [] u (mkfn 4 [])) ]
  /\ g_discover_with (fun s => s) 2 GD L = Err OutOfFuel.
Proof. split; vm_compute; reflexivity. Qed.

Example gen_accessible_runs :
  map l_id (g_accessible [a; b] L) = [0; 1; 2; 3] /\ map l_id (g_accessible [a; a; c; b] L) = [0; 1; 2; 3; 4].
Proof. split; vm_compute; reflexivity. Qed.

(* the hypotheses of the transported theorems are met (an Ok result with three keys) and their conclusions are not
   trivial: e is a key, derivable at minimum height 2, reads 36 = b + c = (2a+1) + (a+5); w is no key and unreadable *)
Example gen_e_reachable : dict_mem cid_eqb
    [ (b, mklink 0 [a] b (mkfn 1 [2])); (c, mklink 3 [a] c (mkfn 5 [1])); (e, mklink 4 [b; c] e (mkfn 0 [1; 1])) ] e = true
  /\ (exists n, Derivable [a] L e n) /\ ~ In e [a].
Proof.
  assert (H : g_discover_with (fun s => s) (fuel_for L) GD L = Ok [ (b, mklink 0 [a] b (mkfn 1 [2])); (c, mklink 3 [a] c (mkfn 5 [1]));
                         (e, mklink 4 [b; c] e (mkfn 0 [1; 1])) ]) by exact gen_discover_runs.
  pose proof (Lemmas.gen_discover_reachable _ _ _ _ _ GenEquiv.iter_id_ok (le_n _) H e) as Hr.
  split; [vm_compute; reflexivity|]. apply Hr. vm_compute. reflexivity.
Qed.

Example gen_values_read :
  match g_discover GD L with
  | Ok r => (read [a] env0 (table_of_links r) b, read [a] env0 (table_of_links r) e, read [a] env0 (table_of_links r) w,
             select [a] env0 (table_of_links r) e 35)
  | Err _ => (None, None, None, None)
  end = (Some 21, Some 36, None, Some true).
Proof. vm_compute. reflexivity. Qed.

(* find_dependents (translated): y1 = f(a) through link 10, y2 = g(y1), y3 = h(b): asking about link 10 gives {y1, y2} *)
Example gen_find_dependents_runs :
  let y1 : cid := (0, 10) in let y2 : cid := (0, 11) in let y3 : cid := (0, 12) in
  let l1 := mklink 10 [a] y1 (mkfn 0 [1]) in
  let dd := mkgdata [a; b] [] [mklink 11 [y1] y2 (mkfn 0 [1]); l1; mklink 12 [b] y3 (mkfn 0 [1])] in
  g_find_dependents 5 dd l1 = Ok [y1; y2] /\ g_find_dependents 5 dd (mklink 99 [a] y1 (mkfn 0 [1])) = Ok [].
Proof. split; vm_compute; reflexivity. Qed.

(* the translated handlers on three registered links (ids 0 1 2; 1 is registered twice): removing attribute b drops 0 and
   both copies of 1 - three updates -, removing dataset 4 (attributes u, w) drops only link 2 *)
Definition POOL : list entry :=
  [ mkent 0 false None [(mklink 0 [a] b (mkfn 1 [2]), None)];
    mkent 1 true None [(mklink 10 [b] c (mkfn 0 [3]), None); (mklink 11 [c] b (mkfn 0 [1]), None)];
    mkent 2 false None [(mklink 5 [u] w (mkfn 0 [1]), None)] ].
Example gen_component_removed_runs :
  g_component_removed POOL [1; 2; 0; 1] b = Ok ([2], [EvUpdate _ _ _; EvUpdate _ _ _; EvUpdate _ _ _], tt)
  /\ g_data_removed POOL [1; 2; 0; 1] 4 [u; w] = Ok ([1; 0; 1], [EvUpdate _ _ _], tt)
  /\ g_data_removed POOL [1; 2; 0; 1] 9 [u; w] = Ok ([1; 2; 0; 1], [], tt).
Proof. repeat split; vm_compute; reflexivity. Qed.

(* the translated update loop on two datasets: the first is handed b c e (through links 0 3 4), the second (own attribute c: no link starts from c alone) an empty dict *)
Example gen_update_runs :
  match g_update (fun s => s) (fuel_for L) L [GD; mkgdata [c] [] []] with
  | Ok (_, [EvSet _ _ _ d1 c1; EvSet _ _ _ d2 c2], _) => (map fst c1, map fst c2) = ([b; c; e], []) /\ d1 = GD /\ map (fun kv => l_id (snd (snd kv))) c1 = [0; 3; 4]
  | _ => False
  end.
Proof. vm_compute. repeat split; reflexivity. Qed.

(* ---------- round 5: a derived attribute whose link declares its inverse; another dataset linked to the DERIVED attribute only
   reaches the input attribute through the inverse of the dataset-internal link ---------- *)
Definition F1 := mkds 1 true true 2 [(1, 0); x1] [(1, 0)] [] []
                      [mklink 2001 [x1] y1 (mkfn 1 [-1])] [mklink 2001 [y1] x1 (mkfn 1 [-1])] [].     (* y = 1 - x, x = 1 - y *)
Definition u0 := recompute (mkstate [F1; E2] [] 0%nat false).

Lemma F1_wf : ds_wf F1.
Proof.
  unfold ds_wf, F1, comps, der_cids. simpl. split; [|split; [|split; [|split]]].
  - intros x [H|[H|[H|[]]]]; subst; reflexivity.
  - intros x [H|[]]; subst; simpl; auto.
  - intros l [].
  - split.
    + intros l [H|[]]; subst l; simpl. split; [discriminate|]. intros x [Hx|[]]; subst; simpl; auto.
    + intros l [H|[]]; subst l. exists (mklink 2001 [x1] y1 (mkfn 1 [-1])). simpl. auto.
  - auto.
Qed.

Example inverse_of_internal_link_reaches_input :
  let s := run u0 [AddLink z_to_y] in
  match find_ds 2 (s_data s) with
  | Some d => read_ds d (fun c => if cid_eqb c z2 then 5 else 0) y1 = Some (-4) /\
              read_ds d (fun c => if cid_eqb c z2 then 5 else 0) x1 = Some 5 /\
              select_ds d (fun c => if cid_eqb c z2 then 5 else 0) x1 4 = Some true
  | None => False
  end.
Proof. vm_compute. auto. Qed.

Example without_declared_inverse_input_unreachable :
  let s := run t0 [AddLink z_to_y] in
  match find_ds 2 (s_data s) with
  | Some d => read_ds d (fun c => if cid_eqb c z2 then 5 else 0) x1 = None
  | None => False
  end.
Proof. vm_compute. auto. Qed.


(* ---------- round 6: the translated set of links in force on the state above (F1 with y = 1 - x and its declared inverse, E2,
   one registered link z -> y with a declared inverse): the hypotheses of the round-6 theorems are met and say something ---------- *)
Lemma F1_paired : dinv_paired F1.
Proof.
  unfold dinv_paired, F1. simpl. split.
  - intros i [H|[]]; subst i. exists (mklink 2001 [x1] y1 (mkfn 1 [-1])). simpl. auto.
  - intros i i' [H|[]] [H'|[]] _. congruence.
Qed.

Lemma u0_paired : links_paired u0.
Proof.
  apply GenClosed.links_paired_init. intros d [H|[H|[]]]; subst d; [exact F1_paired|].
  unfold dinv_paired, E2. simpl. split; [intros i []|intros i i' []].
Qed.

Lemma z_to_y_shaped : Forall shaped_op [AddLink z_to_y].
Proof. constructor; [|constructor]. simpl. intros _. eexists. reflexivity. Qed.

Definition u1 := run u0 [AddLink z_to_y].
Lemma u1_paired : links_paired u1.
Proof. exact (Lemmas.links_paired_reachable _ _ u0_paired z_to_y_shaped). Qed.

(* the translated set: 4 links - the internal link x -> y (2001), the registered z -> y (0), then their inverses y -> z (0) and
   y -> x (2001), the last one being the inverse of a dataset-INTERNAL link; all_links enumerates the same four in another order *)
Example links_in_force_runs :
  map (fun l => (l_id l, l_from l, l_to l)) (g_links_in_force (fun s => s) u1)
    = [(2001, [x1], y1); (0, [z2], y1); (2001, [y1], x1); (0, [y1], z2)] /\
  map (fun l => (l_id l, l_from l, l_to l)) (all_links u1)
    = [(2001, [x1], y1); (2001, [y1], x1); (0, [z2], y1); (0, [y1], z2)] /\
  g_links_in_force (fun s => s) u1 <> all_links u1.
Proof. vm_compute. repeat split; try reflexivity. discriminate. Qed.

Example links_in_force_same_elements : forall l, In l (g_links_in_force (fun s => s) u1) <-> In l (all_links u1).
Proof. apply Lemmas.gen_links_in_force_is_all_links; [intros s x; tauto|exact u1_paired]. Qed.

(* the closed update theorem on this state: its hypotheses hold, and what the translated loop installs with the translated set is
   not trivial - dataset 2 is handed y AND x (x only through the inverse of the internal link), dataset 1 is handed y (its own derived
   attribute, through the internal link) and z *)
Example update_closed_applies :
  exists tabs : list table,
    g_update (fun s => s) (fuel_for (g_links_in_force (fun s => s) u1)) (g_links_in_force (fun s => s) u1)
             (map gdata_of (filter d_member (s_data u1))) =
      Ok ([], map (fun dt => EvSet cid link gdata (gdata_of (fst dt)) (installed (gdata_of (fst dt)) (snd dt)))
                  (combine (filter d_member (s_data u1)) tabs), tt) /\
    length tabs = length (filter d_member (s_data u1)) /\
    Forall2 (fun d t => same_derivations (d_own d) (all_links u1) (d_tbl d) t) (filter d_member (s_data (recompute u1))) tabs.
Proof.
  apply Lemmas.gen_update_is_recompute_closed; [intros s x; tauto|exact GenEquiv.iter_id_ok|exact u1_paired|apply le_n].
Qed.

Example update_closed_runs :
  match g_update (fun s => s) (fuel_for (g_links_in_force (fun s => s) u1)) (g_links_in_force (fun s => s) u1)
                 (map gdata_of (filter d_member (s_data u1))) with
  | Ok (_, [EvSet _ _ _ _ c1; EvSet _ _ _ _ c2], _) =>
      (map fst c1, map fst c2) = ([y1; z2], [y1; x1]) /\ map (fun kv => l_id (snd (snd kv))) c2 = [0; 2001]
  | _ => False
  end.
Proof. vm_compute. repeat split; reflexivity. Qed.
