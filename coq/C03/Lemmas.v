(* C03 — lemmas, last part: every operation of the manager keeps the state well-formed and, outside delay
   blocks, the tables fresh.  Re-exports the theorems used by Property.v. *)
From Coq Require Import ZArith List Bool Arith Lia.
Import ListNotations.
From GV Require Import Common.Wire C03.Model.
From GV Require C03.GenEquiv C03.GenManager C03.GenLinks C03.GenClosed.
From GV Require Export C03.Lemmas1 C03.Lemmas2 C03.Lemmas3 C03.Lemmas4.
Open Scope nat_scope.

(* ------------------------------------------------------------------ small facts *)
Lemma in_remove_cids : forall cs l x, In x (remove_cids cs l) <-> In x l /\ ~ In x cs.
Proof.
  intros cs l x. unfold remove_cids. rewrite filter_In. rewrite negb_true_iff, mem_false. tauto.
Qed.

Lemma add_one_in : forall e ext x, In x (fst (add_one e ext)) -> In x ext \/ x = e.
Proof.
  intros e ext x. unfold add_one.
  destruct (e_coll e).
  - destruct (has_id (e_id e) ext); simpl; auto. rewrite in_app_iff. simpl. intuition.
  - destruct (e_inv e) as [j|].
    + destruct (has_id j ext); simpl; auto. rewrite in_app_iff. simpl. intuition.
    + simpl. rewrite in_app_iff. simpl. intuition.
Qed.

Lemma add_all_in : forall es ext x, In x (fst (add_all es ext)) -> In x ext \/ In x es.
Proof.
  intros es. induction es as [|e r IH]; simpl; intros ext x H; auto.
  destruct (add_one e ext) as [ext' code] eqn:Ea.
  assert (Hone : forall y, In y ext' -> In y ext \/ y = e).
  { intros y Hy. apply add_one_in. rewrite Ea. exact Hy. }
  destruct (Z.eqb code 0).
  - destruct (IH _ _ H) as [H1|H1]; auto. destruct (Hone _ H1); auto.
  - simpl in H. destruct (Hone _ H); auto.
Qed.

Lemma remove_first_in : forall i ext x, In x (remove_first i ext) -> In x ext.
Proof.
  intros i ext. induction ext as [|e r IH]; simpl; intros x H; auto.
  destruct (Z.eqb (e_id e) i); simpl in *; auto. destruct H; auto.
Qed.

Lemma live_put_keep : forall s d d' c,
  NoDup (map d_id (s_data s)) -> find_ds (d_id d') (s_data s) = Some d ->
  live s c ->
  (d_member d = true -> In c (comps d) -> d_member d' = true /\ In c (comps d')) ->
  live (set_data s (put_ds d' (s_data s))) c.
Proof.
  intros s d d' c Hnd Hf Hl Hkeep.
  destruct (find_ds_some _ _ _ Hf) as [Hd Hid].
  apply (live_put s d d' c Hnd Hf).
  apply (live_split s d c Hnd Hd) in Hl. destruct Hl as [[Hm Hc]|[x [Hx [Hne [Hm Hc]]]]].
  - left. auto.
  - right. exists x. repeat split; auto. congruence.
Qed.

Lemma wf_set_data : forall s d d',
  wf s -> find_ds (d_id d') (s_data s) = Some d -> ds_wf d' ->
  NoDup (map d_id (s_data (set_data s (put_ds d' (s_data s))))) /\
  (forall x, In x (s_data (set_data s (put_ds d' (s_data s)))) -> ds_wf x) /\
  s_err (set_data s (put_ds d' (s_data s))) = false.
Proof.
  intros s d d' (Hnd & Hds & Hext & Herr) Hf Hwf'. simpl. split; [|split]; auto.
  - rewrite put_ds_ids. exact Hnd.
  - intros x Hx. destruct (put_ds_in _ _ _ Hx) as [E|E]; subst; auto.
Qed.

Lemma all_links_live : forall s l, wf s -> In l (all_links s) -> forall x, In x (link_cids l) -> live s x.
Proof.
  intros s l (Hnd & Hds & Hext & Herr) Hl x Hx.
  apply in_all_links in Hl. destruct Hl as [[y [Hy [Hm Hly]]]|[e [He Hle]]].
  - destruct (ds_link_shape y l (Hds y Hy) Hly) as (_ & Hin & _).
    exists y. repeat split; auto.
  - apply in_entry_links in Hle. destruct Hle as [p [Hp Hl]].
    apply (Hext e He p x Hp). apply (entry_link_cids e p l Hp Hl). exact Hx.
Qed.

(* ------------------------------------------------------------------ removing attributes (with the cascade) *)
Lemma der_hit_false : forall cs l, der_hit cs l = false ->
  (forall f, In f (l_from l) -> ~ In f cs) /\ ~ In (l_to l) cs.
Proof.
  intros cs l H. unfold der_hit in H. apply orb_false_iff in H. destruct H as [H1 H2]. split.
  - intros f Hf Hc. assert (existsb (fun c => mem c (l_from l)) cs = true); [|congruence].
    apply existsb_exists. exists f. split; auto. apply mem_In. exact Hf.
  - apply mem_false. exact H2.
Qed.

Lemma keep_der_in : forall cs d l, In l (keep_der cs d) <-> In l (d_der d) /\ der_hit cs l = false.
Proof. intros cs d l. unfold keep_der. rewrite filter_In, negb_true_iff. tauto. Qed.

Lemma removed_cs : forall cs d c, In c cs -> In c (removed_cids cs d).
Proof. intros cs d c H. unfold removed_cids. apply in_app_iff. auto. Qed.

Lemma removed_der : forall cs d l, In l (d_der d) -> der_hit cs l = true -> In (l_to l) (removed_cids cs d).
Proof.
  intros cs d l Hl Hh. unfold removed_cids. apply in_app_iff. right. apply in_map. apply filter_In. auto.
Qed.

(* an attribute that is not among the removed ones is still a component afterwards *)
Lemma comps_keep : forall cs d d' c,
  d_own d' = remove_cids cs (d_own d) -> d_der d' = keep_der cs d ->
  In c (comps d) -> ~ In c (removed_cids cs d) -> In c (comps d').
Proof.
  intros cs d d' c Eo Ed Hc Hn. unfold comps, der_cids in *. rewrite Eo, Ed.
  apply in_app_iff in Hc. apply in_app_iff. destruct Hc as [Hc|Hc].
  - left. apply in_remove_cids. split; auto. intros Hcs. apply Hn. apply removed_cs. exact Hcs.
  - right. apply in_map_iff in Hc. destruct Hc as [l [El Hl]]. subst c.
    apply in_map. apply keep_der_in. split; auto.
    destruct (der_hit cs l) eqn:Eh; auto. exfalso. apply Hn. apply removed_der; auto.
Qed.

Lemma comps_sub : forall cs d d' c,
  d_own d' = remove_cids cs (d_own d) -> d_der d' = keep_der cs d -> In c (comps d') -> In c (comps d).
Proof.
  intros cs d d' c Eo Ed Hc. unfold comps, der_cids in *. rewrite Eo, Ed in Hc.
  apply in_app_iff in Hc. apply in_app_iff. destruct Hc as [Hc|Hc].
  - left. apply in_remove_cids in Hc. tauto.
  - right. apply in_map_iff in Hc. destruct Hc as [l [El Hl]]. subst c. apply in_map. apply keep_der_in in Hl. tauto.
Qed.

Lemma ds_wf_remove : forall d d' cs,
  ds_wf d -> d_id d' = d_id d -> d_member d' = d_member d -> d_hub d' = d_hub d ->
  d_own d' = remove_cids cs (d_own d) -> d_der d' = keep_der cs d -> d_dinv d' = keep_dinv cs d ->
  incl (d_coord d') (d_own d') ->
  (forall l, In l (d_int d') -> l_from l <> [] /\ incl (l_from l) (d_coord d') /\ In (l_to l) (d_coord d')) ->
  ds_wf d'.
Proof.
  intros d d' cs (Hown & Hco & Hint & (Hder & Hdinv) & Hhub) E1 E2 E3 Eo Ed Ei Hco' Hint'.
  unfold ds_wf. rewrite E1, E2, E3. split; [|split; [|split; [|split; [split|]]]]; auto.
  - intros c Hc. apply Hown. apply (comps_sub cs d d' c Eo Ed Hc).
  - intros l Hl. rewrite Ed in Hl. apply keep_der_in in Hl. destruct Hl as [Hl Hh].
    destruct (Hder l Hl) as (Hnn & Hfr). split; auto.
    intros f Hf. rewrite Eo. apply in_remove_cids. split. { apply Hfr. exact Hf. }
    apply (proj1 (der_hit_false cs l Hh) f Hf).
  - intros l Hl. rewrite Ei in Hl. unfold keep_dinv in Hl. apply filter_In in Hl. destruct Hl as [Hl Hh].
    apply negb_true_iff in Hh. destruct (Hdinv l Hl) as (l' & Hl' & Ef' & Ef). exists l'. split; [|auto].
    rewrite Ed. apply keep_der_in. split; auto.
    destruct (der_hit_false cs l Hh) as [Hn1 Hn2].
    unfold der_hit. apply orb_false_iff. split.
    + rewrite Ef'. destruct (existsb (fun c => mem c [l_to l]) cs) eqn:Ex; auto.
      apply existsb_exists in Ex. destruct Ex as [c [Hc Hm]]. apply mem_In in Hm. destruct Hm as [Hm|[]]. subst c. contradiction.
    + destruct (mem (l_to l') cs) eqn:Em'; auto. apply mem_In in Em'. exfalso. apply (Hn1 (l_to l')); auto. rewrite Ef. simpl. auto.
Qed.

(* the registered links that survive drop_links are live in the state after the removal *)
Lemma live_after_remove : forall s d d' cs e,
  wf s -> find_ds (d_id d') (s_data s) = Some d -> d_member d' = d_member d ->
  d_own d' = remove_cids cs (d_own d) -> d_der d' = keep_der cs d ->
  In e (s_ext s) -> entry_touches_any (removed_cids cs d) e = false ->
  entry_live (set_data s (put_ds d' (s_data s))) e.
Proof.
  intros s d d' cs e (Hnd & Hds & Hext & Herr) Hf Em Eo Ed He Ht p c0 Hp Hc0.
  apply (live_put_keep s d d' c0 Hnd Hf). { apply (Hext e He p c0 Hp Hc0). }
  intros Hm Hin. split. { congruence. }
  apply (comps_keep cs d d' c0 Eo Ed Hin).
  intros Hr. rewrite (entry_touches_any_intro (removed_cids cs d) e p c0 Hp Hc0 Hr) in Ht. discriminate.
Qed.

(* ------------------------------------------------------------------ one operation *)
Lemma good_nonmember_put : forall s d d',
  Good s -> find_ds (d_id d') (s_data s) = Some d -> ds_wf d' ->
  d_member d = false -> d_member d' = false ->
  Good (set_data s (put_ds d' (s_data s))).
Proof.
  intros s d d' [Hwf Hfr] Hf Hwf' Hm Hm'.
  destruct (wf_set_data s d d' Hwf Hf Hwf') as (N1 & N2 & N3).
  destruct Hwf as (Hnd & Hds & Hext & Herr).
  split.
  - unfold wf. split; [|split; [|split]]; auto.
    intros e He p c Hp Hc. apply (live_put_keep s d d' c Hnd Hf).
    + apply (Hext e He p c Hp Hc).
    + intros Hmt. congruence.
  - intros Hd. apply (fresh_put_nonmember s d d' Hnd Hf Hm Hm'). apply Hfr. exact Hd.
Qed.

Lemma good_drop_nonmember : forall s d d' cs,
  Good s -> find_ds (d_id d') (s_data s) = Some d -> ds_wf d' ->
  d_member d = false -> d_member d' = false ->
  Good (drop_links cs (set_data s (put_ds d' (s_data s)))).
Proof.
  intros s d d' cs HG Hf Hwf' Hm Hm'.
  pose proof (good_nonmember_put s d d' HG Hf Hwf' Hm Hm') as [Hwf1 Hfr1].
  set (s1 := set_data s (put_ds d' (s_data s))) in *.
  destruct Hwf1 as (N1 & N2 & N3 & N4).
  split.
  - apply drop_links_wf; auto.
  - intros Hd. rewrite drop_links_delay in Hd.
    destruct (drop_links_cases cs s1) as [[E _]|E]; rewrite E.
    + apply Hfr1. exact Hd.
    + apply recompute_fresh.
Qed.

Lemma step_good : forall s o, Good s -> valid_op s o -> Good (fst (step s o)).
Proof.
  intros s o HG Hv. pose proof HG as [Hwf Hfr]. pose proof Hwf as (Hnd & Hds & Hext & Herr).
  destruct o as [e|i|es|i c|i c|i l og|i|i|i| |]; simpl in Hv |- *.
  - (* AddLink *)
    destruct (add_one e (s_ext s)) as [ext' code] eqn:Ea.
    destruct (Nat.eqb (length ext') (length (s_ext s))); simpl; auto.
    apply sync_good. unfold wf. simpl. split; [|split; [|split]]; auto.
    intros x Hx. assert (Hx' : In x (s_ext s) \/ x = e). { apply add_one_in. rewrite Ea. exact Hx. }
    destruct Hx' as [Hx'|Hx']; [apply (Hext x Hx')|subst; exact Hv].
  - (* RemoveLink *)
    destruct (has_id i (s_ext s)); simpl; auto.
    apply sync_good. unfold wf. simpl. split; [|split; [|split]]; auto.
    intros x Hx. apply (Hext x). apply (remove_first_in _ _ _ Hx).
  - (* SetLinks *)
    destruct Hv as [Hlive Hcode].
    destruct (add_all es []) as [ext' code] eqn:Ea. simpl in Hcode. subst code. simpl.
    apply sync_good. unfold wf. simpl. split; [|split; [|split]]; auto.
    intros x Hx. assert (Hx' : In x [] \/ In x es). { apply add_all_in. rewrite Ea. exact Hx. }
    destruct Hx' as [Hx'|Hx']; [contradiction|]. apply (Hlive x Hx').
  - (* AddComponent *)
    destruct (find_ds i (s_data s)) as [d|] eqn:Ef; simpl; auto.
    destruct (mem c (comps d) || negb (Z.eqb (fst c) i)) eqn:Ec; simpl; auto.
    apply orb_false_iff in Ec. destruct Ec as [Ec1 Ec2]. apply negb_false_iff, Z.eqb_eq in Ec2.
    destruct (find_ds_some _ _ _ Ef) as [Hd Hid].
    set (d' := mkds (d_id d) (d_member d) (d_hub d) (d_n d) (d_own d ++ [c]) (d_coord d) (d_world d) (d_int d) (d_der d) (d_dinv d) (d_tbl d)).
    assert (Hf' : find_ds (d_id d') (s_data s) = Some d) by (simpl; rewrite Hid; exact Ef).
    assert (Hsub : forall x, In x (comps d) -> In x (comps d')).
    { intros x Hx. unfold comps in *. simpl. apply in_app_iff in Hx. rewrite !in_app_iff. tauto. }
    assert (Hwf' : ds_wf d').
    { destruct (Hds d Hd) as (Hown & Hco & Hint & Hder & Hhub). unfold ds_wf. simpl.
      split; [|split; [|split; [|split]]]; auto.
      - intros c0 Hc0. unfold comps in Hc0. simpl in Hc0. rewrite !in_app_iff in Hc0.
        destruct Hc0 as [[Hc0|[Hc0|[]]]|Hc0].
        + apply Hown. unfold comps. apply in_app_iff. auto.
        + subst c0. congruence.
        + apply Hown. unfold comps. apply in_app_iff. auto.
      - apply incl_appl. exact Hco.
      - destruct Hder as [Hder Hdinv]. split; auto.
        intros l Hl. destruct (Hder l Hl) as (Hnn & Hfrm). split; auto. apply incl_appl. exact Hfrm. }
    destruct (d_hub d && d_member d) eqn:Ehm.
    + apply sync_good.
      destruct (wf_set_data s d d' Hwf Hf' Hwf') as (N1 & N2 & N3).
      unfold wf. split; [|split; [|split]]; auto.
      intros e He p c0 Hp Hc0. apply (live_put_keep s d d' c0 Hnd Hf'). { apply (Hext e He p c0 Hp Hc0). }
      intros Hm Hin. split; auto.
    + assert (Hm : d_member d = false).
      { destruct (d_member d) eqn:Em; auto. destruct (Hds d Hd) as (_ & _ & _ & _ & Hhub).
        rewrite (Hhub Em) in Ehm. discriminate. }
      apply (good_nonmember_put s d d' HG Hf' Hwf' Hm). simpl. exact Hm.
  - (* RemoveComponent *)
    destruct (find_ds i (s_data s)) as [d|] eqn:Ef; simpl; auto.
    destruct (negb (mem c (comps d))) eqn:Ec; simpl; auto.
    destruct (find_ds_some _ _ _ Ef) as [Hd Hid].
    pose proof (Hv d eq_refl) as Hnc.
    set (d' := mkds (d_id d) (d_member d) (d_hub d) (d_n d) (remove_cids [c] (d_own d)) (d_coord d) (d_world d) (d_int d)
                    (keep_der [c] d) (keep_dinv [c] d) (d_tbl d)).
    assert (Hf' : find_ds (d_id d') (s_data s) = Some d) by (simpl; rewrite Hid; exact Ef).
    assert (Hwf' : ds_wf d').
    { destruct (Hds d Hd) as (Hown & Hco & Hint & Hder & Hhub).
      apply (ds_wf_remove d d' [c] (Hds d Hd)); auto; simpl.
      intros x Hx. apply in_remove_cids. split; auto. simpl. intros [E|[]]. subst. contradiction. }
    destruct (d_member d) eqn:Em.
    + destruct (Hds d Hd) as (_ & _ & _ & _ & Hhub). rewrite (Hhub Em).
      destruct (wf_set_data s d d' Hwf Hf' Hwf') as (N1 & N2 & N3).
      apply sync_good. apply drop_links_wf; auto.
      intros e He Ht. apply (live_after_remove s d d' [c] e Hwf Hf'); auto.
    + destruct (d_hub d).
      * apply (good_drop_nonmember s d d' (removed_cids [c] d) HG Hf' Hwf' Em). reflexivity.
      * apply (good_nonmember_put s d d' HG Hf' Hwf' Em). reflexivity.
  - (* AddDerived *)
    destruct (find_ds i (s_data s)) as [d|] eqn:Ef; simpl; auto.
    destruct (mem (l_to l) (comps d) || negb (Z.eqb (fst (l_to l)) i)
              || match l_from l with [] => true | _ :: _ => false end
              || negb (forallb (fun f => mem f (d_own d)) (l_from l))) eqn:Ec; simpl; auto.
    apply orb_false_iff in Ec. destruct Ec as [Ec Ec4].
    apply orb_false_iff in Ec. destruct Ec as [Ec Ec3].
    apply orb_false_iff in Ec. destruct Ec as [Ec1 Ec2].
    apply negb_false_iff, Z.eqb_eq in Ec2. apply negb_false_iff in Ec4.
    destruct (find_ds_some _ _ _ Ef) as [Hd Hid].
    set (d' := mkds (d_id d) (d_member d) (d_hub d) (d_n d) (d_own d) (d_coord d) (d_world d) (d_int d) (d_der d ++ [l]) (d_dinv d ++ inv_links l og) (d_tbl d)).
    assert (Hf' : find_ds (d_id d') (s_data s) = Some d) by (simpl; rewrite Hid; exact Ef).
    assert (Hsub : forall x, In x (comps d) -> In x (comps d')).
    { intros x Hx. unfold comps, der_cids in *. simpl. rewrite map_app. apply in_app_iff in Hx. rewrite !in_app_iff. tauto. }
    assert (Hwf' : ds_wf d').
    { destruct (Hds d Hd) as (Hown & Hco & Hint & Hder & Hhub). unfold ds_wf. simpl.
      split; [|split; [|split; [|split]]]; auto.
      - intros c0 Hc0. unfold comps, der_cids in Hc0. simpl in Hc0. rewrite map_app in Hc0. rewrite !in_app_iff in Hc0.
        destruct Hc0 as [Hc0|[Hc0|[Hc0|[]]]].
        + apply Hown. unfold comps. apply in_app_iff. auto.
        + apply Hown. unfold comps. apply in_app_iff. auto.
        + subst c0. congruence.
      - destruct Hder as [Hder Hdinv]. split.
        + intros l0 Hl0. apply in_app_iff in Hl0. destruct Hl0 as [Hl0|[Hl0|[]]]; auto.
          subst l0. split.
          * destruct (l_from l); [discriminate|]. discriminate.
          * intros f Hf. rewrite forallb_forall in Ec4. apply mem_In. apply Ec4. exact Hf.
        + intros l0 Hl0. apply in_app_iff in Hl0. destruct Hl0 as [Hl0|Hl0].
          * destruct (Hdinv l0 Hl0) as (l' & Hl' & E1 & E2). exists l'. split; auto. apply in_app_iff. auto.
          * exists l. split. { apply in_app_iff. right. simpl. auto. }
            destruct (inv_links_spec _ _ _ Hl0) as [H1 H2]. rewrite H1, H2. simpl. auto. }
    destruct (d_hub d && d_member d) eqn:Ehm.
    + apply sync_good.
      destruct (wf_set_data s d d' Hwf Hf' Hwf') as (N1 & N2 & N3).
      unfold wf. split; [|split; [|split]]; auto.
      intros e He p c0 Hp Hc0. apply (live_put_keep s d d' c0 Hnd Hf'). { apply (Hext e He p c0 Hp Hc0). }
      intros Hm Hin. split; auto.
    + assert (Hm : d_member d = false).
      { destruct (d_member d) eqn:Em; auto. destruct (Hds d Hd) as (_ & _ & _ & _ & Hhub).
        rewrite (Hhub Em) in Ehm. discriminate. }
      apply (good_nonmember_put s d d' HG Hf' Hwf' Hm). simpl. exact Hm.
  - (* AddData *)
    destruct (find_ds i (s_data s)) as [d|] eqn:Ef; simpl; auto.
    destruct (d_member d) eqn:Em; simpl; auto.
    destruct (find_ds_some _ _ _ Ef) as [Hd Hid].
    set (d' := mkds (d_id d) true true (d_n d) (d_own d) (d_coord d) (d_world d) (d_int d) (d_der d) (d_dinv d) (d_tbl d)).
    assert (Hf' : find_ds (d_id d') (s_data s) = Some d) by (simpl; rewrite Hid; exact Ef).
    assert (Hwf' : ds_wf d').
    { destruct (Hds d Hd) as (Hown & Hco & Hint & Hder & Hhub). unfold ds_wf. simpl. split; [|split; [|split; [|split]]]; auto. }
    destruct (wf_set_data s d d' Hwf Hf' Hwf') as (N1 & N2 & N3).
    apply sync_good. unfold wf. split; [|split; [|split]]; auto.
    intros e He p c0 Hp Hc0. apply (live_put_keep s d d' c0 Hnd Hf'). { apply (Hext e He p c0 Hp Hc0). }
    intros Hm. congruence.
  - (* RemoveData *)
    destruct (find_ds i (s_data s)) as [d|] eqn:Ef; simpl; auto.
    destruct (d_member d) eqn:Em; simpl; auto.
    destruct (find_ds_some _ _ _ Ef) as [Hd Hid].
    set (d' := mkds (d_id d) false (d_hub d) (d_n d) (d_own d) (d_coord d) (d_world d) (d_int d) (d_der d) (d_dinv d) (d_tbl d)).
    assert (Hf' : find_ds (d_id d') (s_data s) = Some d) by (simpl; rewrite Hid; exact Ef).
    assert (Hwf' : ds_wf d').
    { destruct (Hds d Hd) as (Hown & Hco & Hint & Hder & Hhub). unfold ds_wf. simpl. split; [|split; [|split; [|split]]]; auto. }
    destruct (wf_set_data s d d' Hwf Hf' Hwf') as (N1 & N2 & N3).
    set (s1 := set_data s (put_ds d' (s_data s))) in *.
    split.
    + apply drop_links_wf; auto.
      intros e He Ht p c0 Hp Hc0. apply (live_put_keep s d d' c0 Hnd Hf'). { apply (Hext e He p c0 Hp Hc0). }
      intros _ Hin. rewrite (entry_touches_any_intro (comps d) e p c0 Hp Hc0 Hin) in Ht. discriminate.
    + intros Hdl. rewrite drop_links_delay in Hdl.
      destruct (drop_links_cases (comps d) s1) as [[E Hno]|E]; rewrite E.
      * apply (fresh_remove_data s d d' Hwf Hf' Em eq_refl Hno). apply Hfr. exact Hdl.
      * apply recompute_fresh.
  - (* SetCoordsNone *)
    destruct (find_ds i (s_data s)) as [d|] eqn:Ef; simpl; auto.
    destruct (d_world d) as [|w0 wr] eqn:Ew; simpl; auto.
    destruct (find_ds_some _ _ _ Ef) as [Hd Hid].
    set (w := w0 :: wr) in *.
    set (d' := mkds (d_id d) (d_member d) (d_hub d) (d_n d) (remove_cids w (d_own d)) (remove_cids w (d_coord d)) [] []
                    (keep_der w d) (keep_dinv w d) (d_tbl d)).
    assert (Hf' : find_ds (d_id d') (s_data s) = Some d) by (simpl; rewrite Hid; exact Ef).
    assert (Hwf' : ds_wf d').
    { destruct (Hds d Hd) as (Hown & Hco & Hint & Hder & Hhub).
      apply (ds_wf_remove d d' w (Hds d Hd)); auto; simpl.
      - intros x Hx. apply in_remove_cids in Hx. apply in_remove_cids. split; [apply Hco|]; tauto.
      - intros l0 []. }
    destruct (d_member d) eqn:Em.
    + destruct (Hds d Hd) as (_ & _ & _ & _ & Hhub). rewrite (Hhub Em).
      destruct (wf_set_data s d d' Hwf Hf' Hwf') as (N1 & N2 & N3).
      apply sync_good. apply drop_links_wf; auto.
      intros e He Ht. apply (live_after_remove s d d' w e Hwf Hf'); auto.
    + destruct (d_hub d).
      * apply (good_drop_nonmember s d d' (removed_cids w d) HG Hf' Hwf' Em). reflexivity.
      * apply (good_nonmember_put s d d' HG Hf' Hwf' Em). reflexivity.
  - (* DelayBegin *)
    split. { unfold wf. simpl. split; [|split; [|split]]; auto. } simpl. intros; discriminate.
  - (* DelayEnd *)
    destruct (s_delay s) as [|k] eqn:Ed; simpl; auto.
    apply sync_good. unfold wf. simpl. split; [|split; [|split]]; auto.
Qed.

Lemma run_good : forall ops s, Good s -> valid_history s ops -> Good (run s ops).
Proof.
  intros ops. induction ops as [|o r IH]; simpl; intros s HG Hv; auto.
  destruct Hv as [Hv Hr]. apply IH; auto. apply step_good; auto.
Qed.

(* ------------------------------------------------------------------ the manager theorems *)
Theorem manager_inv_reachable : forall s0 ops,
  wf s0 -> (s_delay s0 = 0 -> fresh s0) -> valid_history s0 ops ->
  let s := run s0 ops in
  wf s /\
  (s_delay s = 0 ->
     fresh s /\
     forall d c dep l, In d (s_data s) -> d_member d = true -> lookup c (d_tbl d) = Some (dep, l) ->
       In l (all_links s) /\ forall x, In x (link_cids l) -> live s x).
Proof.
  intros s0 ops Hwf Hfr Hv s.
  destruct (run_good ops s0 (conj Hwf Hfr) Hv) as [Hwf' Hfr']. fold s in Hwf', Hfr'.
  split; auto. intros Hd. split; auto.
  intros d c dep l Hin Hm Hl.
  pose proof (Hfr' Hd d Hin Hm) as Hdisc.
  destruct (discover_wellfounded _ _ _ Hdisc _ _ _ Hl) as (Hlin & _).
  split; auto. apply all_links_live; auto.
Qed.

Theorem manager_init : forall ds,
  NoDup (map d_id ds) -> (forall d, In d ds -> ds_wf d) ->
  let s0 := recompute (mkstate ds [] 0 false) in
  wf s0 /\ fresh s0 /\ s_delay s0 = 0.
Proof.
  intros ds Hnd Hds s0. split; [|split].
  - apply recompute_wf. unfold wf. simpl. split; [|split; [|split]]; auto. intros e [].
  - apply recompute_fresh.
  - reflexivity.
Qed.

(* what a dataset of the collection can read is exactly what the links in force (its own derived-component links
   included) derive from its main and coordinate attributes; the value is the composition along the stored tree, whose
   height is the minimum one, with the dataset's own components (derived ones with their derived value) as leaves *)
Theorem manager_reads_exactly : forall s0 ops,
  wf s0 -> (s_delay s0 = 0 -> fresh s0) -> valid_history s0 ops ->
  let s := run s0 ops in
  s_delay s = 0 ->
  forall d env c, In d (s_data s) -> d_member d = true ->
    (read_ds d env c <> None <-> exists n, Derivable (d_own d) (all_links s) c n) /\
    (forall v, read_ds d env c = Some v ->
       exists k, DerivVal (comps d) (all_links s) (der_env d env) c k v /\
                 depth_of (d_own d) (d_tbl d) c = Some k /\
                 forall n, Derivable (d_own d) (all_links s) c n -> k <= n).
Proof.
  intros s0 ops Hwf Hfr Hv s Hd d env c Hin Hm.
  destruct (manager_inv_reachable s0 ops Hwf Hfr Hv) as [Hwfs Hrest]. fold s in Hwfs, Hrest.
  destruct (Hrest Hd) as [Hfresh _]. pose proof (Hfresh d Hin Hm) as Hdisc.
  destruct (discover_inv _ _ _ Hdisc) as [HI Hfix].
  assert (Hinc : incl (d_own d) (comps d)). { intros x Hx. unfold comps. apply in_app_iff. auto. }
  destruct (depth_of (d_own d) (d_tbl d) c) as [k|] eqn:Ek.
  - destruct (read_correct_sup _ _ _ (comps d) (der_env d env) HI Hinc c k Ek) as [v [Hr Hdv]].
    unfold read_ds. split.
    + split. { intros _. exists k. apply (Inv_sound _ _ _ HI). exact Ek. } intros _. congruence.
    + intros v' Hv'. rewrite Hr in Hv'. inversion Hv'; subst v'. exists k. repeat split; auto.
      apply (Lemmas1.discover_min_depth _ _ _ Hdisc c k Ek).
  - assert (Hnot : ~ In c (comps d)).
    { intros Hc. unfold comps in Hc. apply in_app_iff in Hc. destruct Hc as [Hc|Hc].
      - unfold depth_of in Ek. apply mem_In in Hc. rewrite Hc in Ek. discriminate.
      - unfold der_cids in Hc. apply in_map_iff in Hc. destruct Hc as [l [El Hl]]. subst c.
        destruct Hwfs as (_ & Hds & _). destruct (Hds d Hin) as (_ & _ & _ & (Hder & _) & _).
        destruct (Hder l Hl) as (_ & Hfrm).
        assert (HD : Derivable (d_own d) (all_links s) (l_to l) 1).
        { apply D_link.
          - apply in_all_links. left. exists d. repeat split; auto. unfold ds_links. rewrite !in_app_iff. auto.
          - intros f Hf. apply D_own. apply Hfrm. exact Hf. }
        destruct (fix_complete _ _ _ Hfix _ _ HD) as [x [Hx _]]. congruence. }
    unfold read_ds. rewrite (read_none_sup _ _ (comps d) (der_env d env) c Ek Hnot). split.
    + split. { intros H. congruence. }
      intros [n Hn]. exfalso. destruct (fix_complete _ _ _ Hfix _ _ Hn) as [x [Hx _]]. congruence.
    + intros v' Hv'. discriminate.
Qed.

(* ------------------------------------------------------------------ re-exports for Property.v *)
Definition discover_terminates := Lemmas1.discover_terminates.
Definition discover_sound_complete := Lemmas1.discover_sound_complete.
Definition discover_min_depth := Lemmas1.discover_min_depth.
Definition discover_wellfounded := Lemmas1.discover_wellfounded.
Definition discover_order_irrelevant := Lemmas1.discover_order_irrelevant.
Definition discover_value := Lemmas2.discover_value.
Definition selection_follows_links := Lemmas2.selection_follows_links.

(* the functions translated from glue/core/link_manager.py on every run (gen/Gen_links.v), tied to the model in GenEquiv.v *)
Definition gen_accessible_links_spec := GenEquiv.gen_accessible_links_spec.
Definition gen_discover_is_model := GenEquiv.gen_discover_is_model.
Definition gen_discover_total := GenEquiv.gen_discover_total.
Definition gen_discover_reachable := GenEquiv.gen_discover_reachable.
Definition gen_discover_wellfounded_min := GenEquiv.gen_discover_wellfounded_min.
Definition gen_discover_value := GenEquiv.gen_discover_value.
Definition gen_discover_order_irrelevant := GenEquiv.gen_discover_order_irrelevant.
Definition gen_component_removed_spec := GenManager.gen_component_removed_spec.
Definition gen_data_removed_spec := GenManager.gen_data_removed_spec.
Definition gen_component_removed_is_drop := GenManager.gen_component_removed_is_drop.
Definition gen_update_installs := GenManager.gen_update_installs.
Definition gen_update_is_recompute := GenManager.gen_update_is_recompute.
(* round 5: which links are in force, translated (_links, _inverse_links, `self._links | self._inverse_links`) *)
Definition gen_links_spec := GenLinks.gen_links_spec.
Definition gen_inverse_links_spec := GenLinks.gen_inverse_links_spec.
Definition gen_links_in_force_spec := GenLinks.gen_links_in_force_spec.
(* round 6: the translated set of links in force at the model's types = all_links (same elements); the update loop closed over it *)
Definition links_paired_reachable := GenClosed.links_paired_reachable.
Definition gen_links_in_force_is_all_links := GenClosed.gen_links_in_force_is_all_links.
Definition gen_update_is_recompute_closed := GenClosed.gen_update_is_recompute_closed.
