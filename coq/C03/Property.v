(* C03 — linked attributes are reachable exactly through links and carry composed values.
   Statements only; every proof is `exact Lemmas.<name>`. *)
From Coq Require Import ZArith List Bool Arith.
Import ListNotations.
From GV Require Import Common.PyInt gen.Gen_links C03.Model C03.Lemmas.
From GV Require C03.GenLinks.

(* the relaxation loop stops within the fuel the model gives it, and more fuel changes nothing *)
Theorem discover_terminates : forall own links,
  (exists t, discover_loop (fuel_for links) own links [] = Some t) /\
  (forall fuel, (fuel_for links <= fuel)%nat -> discover_loop fuel own links [] = discover own links).
Proof. exact Lemmas.discover_terminates. Qed.
Print Assumptions discover_terminates.

(* an attribute is in the table exactly when a tree of links derives it from the own attributes and it is not own *)
Theorem discover_sound_complete : forall own links t, discover own links = Some t ->
  forall c, lookup c t <> None <-> ((exists n, Derivable own links c n) /\ ~ In c own).
Proof. exact Lemmas.discover_sound_complete. Qed.
Print Assumptions discover_sound_complete.

(* the depth recorded (0 for own attributes) is the height of the lowest derivation tree *)
Theorem discover_min_depth : forall own links t, discover own links = Some t ->
  forall c d, depth_of own t c = Some d ->
  Derivable own links c d /\ forall n, Derivable own links c n -> (d <= n)%nat.
Proof. exact Lemmas.discover_min_depth. Qed.
Print Assumptions discover_min_depth.

(* the link chosen for an attribute is one of the links given, targets it, and each of its inputs is strictly closer
   to the own attributes: lazy evaluation through Data.get_data terminates *)
Theorem discover_wellfounded : forall own links t, discover own links = Some t ->
  forall c d l, lookup c t = Some (d, l) ->
  In l links /\ l_to l = c /\ ~ In c own /\
  forall f, In f (l_from l) -> exists df, depth_of own t f = Some df /\ (df < d)%nat.
Proof. exact Lemmas.discover_wellfounded. Qed.
Print Assumptions discover_wellfounded.

(* the value read through the table is the composition of the link functions along a derivation tree of minimum
   height; an attribute without depth cannot be read (IncompatibleAttribute) and has no derivation *)
Theorem discover_value : forall own links env t, discover own links = Some t ->
  forall c,
  (forall d, depth_of own t c = Some d ->
     exists v, read own env t c = Some v /\ DerivVal own links env c d v /\
               (forall n, Derivable own links c n -> (d <= n)%nat)) /\
  (depth_of own t c = None -> read own env t c = None /\ forall n, ~ Derivable own links c n).
Proof. exact Lemmas.discover_value. Qed.
Print Assumptions discover_value.

(* which attributes are derivable, and at what depth, does not depend on the order (or multiplicity) in which the
   links are enumerated — the code iterates a Python set *)
Theorem discover_order_irrelevant : forall own links links' t t',
  (forall l, In l links <-> In l links') ->
  discover own links = Some t -> discover own links' = Some t' ->
  forall c, depth_of own t c = depth_of own t' c.
Proof. exact Lemmas.discover_order_irrelevant. Qed.
Print Assumptions discover_order_irrelevant.

(* an inequality on attribute c selects, in a dataset that can derive c, exactly the elements whose derived value
   (along a minimum-height tree) satisfies it; where c is not derivable the selection is incompatible *)
Theorem selection_follows_links : forall own links env t, discover own links = Some t ->
  forall c thr,
  (forall n, Derivable own links c n ->
     exists d v, depth_of own t c = Some d /\ DerivVal own links env c d v /\
                 (forall m, Derivable own links c m -> (d <= m)%nat) /\
                 select own env t c thr = Some (v >? thr)%Z) /\
  ((forall n, ~ Derivable own links c n) -> select own env t c thr = None).
Proof. exact Lemmas.selection_follows_links. Qed.
Print Assumptions selection_follows_links.

(* the state a DataCollection starts from is well-formed and fresh *)
Theorem manager_init : forall ds,
  NoDup (map d_id ds) -> (forall d, In d ds -> ds_wf d) ->
  let s0 := recompute (mkstate ds [] 0 false) in
  wf s0 /\ fresh s0 /\ s_delay s0 = 0%nat.
Proof. exact Lemmas.manager_init. Qed.
Print Assumptions manager_init.

(* after every valid history: no discover call ran out of fuel, every registered link mentions only attributes of
   datasets in the collection (wf), and — whenever no delay block is open — every dataset of the collection holds
   exactly the table discover computes from the links in force now, whose chosen links are links in force and
   mention live attributes only *)
Theorem manager_inv_reachable : forall s0 ops,
  wf s0 -> (s_delay s0 = 0%nat -> fresh s0) -> valid_history s0 ops ->
  let s := run s0 ops in
  wf s /\
  (s_delay s = 0%nat ->
     fresh s /\
     forall d c dep l, In d (s_data s) -> d_member d = true -> lookup c (d_tbl d) = Some (dep, l) ->
       In l (all_links s) /\ forall x, In x (link_cids l) -> live s x).
Proof. exact Lemmas.manager_inv_reachable. Qed.
Print Assumptions manager_inv_reachable.

(* in every state reached by a valid history with no delay block open, a dataset of the collection reads an attribute
   (through Data.get_data: own components first, derived ones by their own link) exactly when the links in force - the
   derived-component and coordinate links of the datasets in the collection included - derive it from its main and
   coordinate attributes; the value read is the composition of the link functions along the stored derivation tree,
   whose height is the minimum one, with the dataset's own components as leaves *)
Theorem manager_reads_exactly : forall s0 ops,
  wf s0 -> (s_delay s0 = 0%nat -> fresh s0) -> valid_history s0 ops ->
  let s := run s0 ops in
  s_delay s = 0%nat ->
  forall d env c, In d (s_data s) -> d_member d = true ->
    (read_ds d env c <> None <-> exists n, Derivable (d_own d) (all_links s) c n) /\
    (forall v, read_ds d env c = Some v ->
       exists k, DerivVal (comps d) (all_links s) (der_env d env) c k v /\
                 depth_of (d_own d) (d_tbl d) c = Some k /\
                 forall n, Derivable (d_own d) (all_links s) c n -> (k <= n)%nat).
Proof. exact Lemmas.manager_reads_exactly. Qed.
Print Assumptions manager_reads_exactly.

(* ---------------------------------------------------------------------------------------------------------------
   The same facts about the functions TRANSLATED from glue/core/link_manager.py on every run (coq/gen/Gen_links.v;
   g_accessible / g_discover_with are accessible_links / discover_links of the generated file at the model's types,
   [iter] is the order in which Python iterates a set, [fuel] bounds the `while True` loop). *)

(* accessible_links keeps, in order, exactly the links all of whose inputs are among the given ids *)
Theorem gen_accessible_links_spec : forall cids links,
  g_accessible cids links = filter (fun l => forallb (fun f => mem f cids) (l_from l)) links.
Proof. exact Lemmas.gen_accessible_links_spec. Qed.
Print Assumptions gen_accessible_links_spec.

(* the translated discover_links is the hand model's loop: same dict (keys in insertion order, chosen link per key) for
   every fuel and every iteration order of the sets; it raises nothing but fuel exhaustion, exactly when the model does *)
Theorem gen_discover_is_model : forall iter, iter_ok iter -> forall fuel d links,
  g_discover_with iter fuel d links =
  match discover_loop fuel (g_main d ++ g_coord d) links [] with
  | Some t => Ok (links_of_table t)
  | None => Err OutOfFuel
  end.
Proof. exact Lemmas.gen_discover_is_model. Qed.
Print Assumptions gen_discover_is_model.

(* the translated loop terminates within fuel_for links iterations without KeyError / ValueError, and its result depends
   neither on the fuel beyond that nor on the iteration order of the sets *)
Theorem gen_discover_total : forall d links,
  exists t, discover (g_main d ++ g_coord d) links = Some t /\
    forall iter fuel, iter_ok iter -> (fuel_for links <= fuel)%nat ->
      g_discover_with iter fuel d links = Ok (links_of_table t).
Proof. exact Lemmas.gen_discover_total. Qed.
Print Assumptions gen_discover_total.

(* an attribute is a key of the dict returned by the translated discover_links exactly when it is in the closure of the
   dataset's main and coordinate attributes under the links and is not one of them *)
Theorem gen_discover_reachable : forall iter fuel d links r, iter_ok iter -> (fuel_for links <= fuel)%nat ->
  g_discover_with iter fuel d links = Ok r ->
  forall c, dict_mem cid_eqb r c = true <->
            ((exists n, Derivable (g_main d ++ g_coord d) links c n) /\ ~ In c (g_main d ++ g_coord d)).
Proof. exact Lemmas.gen_discover_reachable. Qed.
Print Assumptions gen_discover_reachable.

(* there is a rank (defined exactly on the own attributes and the keys) that is the minimum height of a derivation, and
   the link stored under a key is one of the links given, targets the key, and has all inputs at strictly smaller rank *)
Theorem gen_discover_wellfounded_min : forall iter fuel d links r, iter_ok iter -> (fuel_for links <= fuel)%nat ->
  g_discover_with iter fuel d links = Ok r ->
  let own := g_main d ++ g_coord d in
  exists rank : cid -> option nat,
    (forall c, rank c <> None <-> In c own \/ dict_mem cid_eqb r c = true) /\
    (forall c k, rank c = Some k -> Derivable own links c k /\ forall n, Derivable own links c n -> (k <= n)%nat) /\
    (forall c l, In (c, l) r ->
       In l links /\ l_to l = c /\ ~ In c own /\
       exists k, rank c = Some k /\ forall f, In f (l_from l) -> exists kf, rank f = Some kf /\ (kf < k)%nat).
Proof. exact Lemmas.gen_discover_wellfounded_min. Qed.
Print Assumptions gen_discover_wellfounded_min.

(* reading (and selecting) through the dict returned by the translated discover_links: a derivable attribute reads as the
   composition of the link functions along a derivation of minimum height, any other attribute is incompatible *)
Theorem gen_discover_value : forall iter fuel d links r env, iter_ok iter -> (fuel_for links <= fuel)%nat ->
  g_discover_with iter fuel d links = Ok r ->
  let own := g_main d ++ g_coord d in
  forall c,
  (forall n, Derivable own links c n ->
     exists k v, read own env (table_of_links r) c = Some v /\ DerivVal own links env c k v /\
                 (forall m, Derivable own links c m -> (k <= m)%nat) /\
                 select own env (table_of_links r) c 0%Z = Some (v >? 0)%Z) /\
  ((forall n, ~ Derivable own links c n) ->
     read own env (table_of_links r) c = None /\ select own env (table_of_links r) c 0%Z = None).
Proof. exact Lemmas.gen_discover_value. Qed.
Print Assumptions gen_discover_value.

(* the key set computed by the translated code does not depend on the enumeration order (or multiplicity) of the links,
   nor on the iteration order of the sets *)
Theorem gen_discover_order_irrelevant : forall iter iter' fuel fuel' d links links' r r',
  iter_ok iter -> iter_ok iter' -> (fuel_for links <= fuel)%nat -> (fuel_for links' <= fuel')%nat ->
  (forall l, In l links <-> In l links') ->
  g_discover_with iter fuel d links = Ok r -> g_discover_with iter' fuel' d links' = Ok r' ->
  forall c, dict_mem cid_eqb r c = dict_mem cid_eqb r' c.
Proof. exact Lemmas.gen_discover_order_irrelevant. Qed.
Print Assumptions gen_discover_order_irrelevant.

(* LinkManager._component_removed (with remove_link), translated: the registered links that mention the removed attribute
   are dropped, the others keep their order; update_externally_derivable_components is called once per dropped link
   (also inside a delay block: remove_link's default update_external=True); list.remove never raises ValueError *)
Theorem gen_component_removed_spec : forall pool ext c,
  g_component_removed pool ext c =
  Ok (filter (fun i => negb (pool_touches pool i c)) ext,
      repeat (EvUpdate cid link Z) (length (filter (fun i => pool_touches pool i c) ext)), tt).
Proof. exact Lemmas.gen_component_removed_spec. Qed.
Print Assumptions gen_component_removed_spec.

(* LinkManager._data_removed, translated: a registered link is dropped exactly when it mentions a component of the removed
   dataset whose parent is that dataset *)
Theorem gen_data_removed_spec : forall pool ext d cs,
  let hit := fun i => existsb (fun x : cid => pool_touches pool i x && (fst x =? d)%Z) cs in
  g_data_removed pool ext d cs =
  Ok (filter (fun i => negb (hit i)) ext, repeat (EvUpdate cid link Z) (length (filter hit ext)), tt).
Proof. exact Lemmas.gen_data_removed_spec. Qed.
Print Assumptions gen_data_removed_spec.

(* the translated handler and the hand model's drop_links agree on a state whose entry ids name its entries: same
   registered links afterwards, and the model recomputes exactly when the code calls update at least once *)
Theorem gen_component_removed_is_drop : forall s c,
  (forall e, In e (s_ext s) -> pool_entry (s_ext s) (e_id e) = e) ->
  let kept := filter (fun e => negb (entry_touches_any [c] e)) (s_ext s) in
  exists n, g_component_removed (s_ext s) (map e_id (s_ext s)) c =
              Ok (map e_id (s_ext (drop_links [c] s)), repeat (EvUpdate cid link Z) n, tt) /\
            (n = 0%nat -> drop_links [c] s = s) /\
            (n <> 0%nat -> drop_links [c] s = recompute (set_ext s kept)).
Proof. exact Lemmas.gen_component_removed_is_drop. Qed.
Print Assumptions gen_component_removed_is_drop.

(* the translated loop `for data in data_collection` of update_externally_derivable_components hands every dataset, in
   order, exactly the dict cid -> DerivedComponent(data, link) of discover's table for the links in force; no exception *)
Theorem gen_update_installs : forall iter fuel L dc, iter_ok iter -> (fuel_for L <= fuel)%nat ->
  g_update iter fuel L dc =
  Ok ([], map (fun d => EvSet cid link gdata d (installed d (fst (disc (g_main d ++ g_coord d) L)))) dc, tt).
Proof. exact Lemmas.gen_update_installs. Qed.
Print Assumptions gen_update_installs.

(* run on the datasets of the collection with the links in force, the translated loop installs exactly the tables that the
   hand model's recompute stores (so manager_inv_reachable / manager_reads_exactly speak about what the translated loop installs) *)
Theorem gen_update_is_recompute : forall s iter fuel, iter_ok iter -> (fuel_for (all_links s) <= fuel)%nat ->
  g_update iter fuel (all_links s) (map gdata_of (filter d_member (s_data s))) =
  Ok ([], map (fun d => EvSet cid link gdata (gdata_of d) (installed (gdata_of d) (d_tbl d)))
              (filter d_member (s_data (recompute s))), tt).
Proof. exact Lemmas.gen_update_is_recompute. Qed.
Print Assumptions gen_update_is_recompute.

(* ---- round 5: WHICH links are in force, as translated from LinkManager._links / ._inverse_links / the expression
   `self._links | self._inverse_links` handed to discover_links.  Polymorphic in the link / entry / dataset objects; `leqb` is
   `==`/hash on ComponentLink objects (identity), `iterL` any iteration order of a Python set of links.
   GenLinks.registered dc ext l :=  (exists dl d, dc = Some dl /\ In d dl /\ In l (data_links_attr d))          -- Data.links of a dataset of the collection
                                \/ (exists e, In e ext /\ In l (if is_collection e then coll_links e else [entry_link e]))   -- member of a registered entry *)

(* the translated _links holds exactly the registered links: those internal to the datasets of the collection (coordinate
   links, links of derived components) and the member links of every entry of _external_links *)
Theorem gen_links_spec : forall (L E D : Type) (leqb : L -> L -> bool), (forall a b, leqb a b = true <-> a = b) ->
  forall (data_links_attr : D -> list L) (is_collection : E -> bool) (coll_links : E -> list L) (entry_link : E -> L) dc ext l,
  In l (lm_links L E D leqb data_links_attr is_collection coll_links entry_link dc ext) <->
  ((exists dl d, dc = Some dl /\ In d dl /\ In l (data_links_attr d)) \/
   (exists e, In e ext /\ In l (if is_collection e then coll_links e else [entry_link e]))).
Proof. exact Lemmas.gen_links_spec. Qed.
Print Assumptions gen_links_spec.

(* the translated _inverse_links holds exactly the `.inverse` of every registered link that has one - internal ones included *)
Theorem gen_inverse_links_spec : forall (L E D : Type) (leqb : L -> L -> bool), (forall a b, leqb a b = true <-> a = b) ->
  forall (data_links_attr : D -> list L) (is_collection : E -> bool) (coll_links : E -> list L) (entry_link : E -> L)
         (inverse : L -> option L) (iterL : list L -> list L), (forall s x, In x (iterL s) <-> In x s) ->
  forall dc ext l,
  In l (lm_inverse_links L E D leqb data_links_attr is_collection coll_links entry_link inverse iterL dc ext) <->
  exists l0, GenLinks.registered L E D data_links_attr is_collection coll_links entry_link dc ext l0 /\ inverse l0 = Some l.
Proof. exact Lemmas.gen_inverse_links_spec. Qed.
Print Assumptions gen_inverse_links_spec.

(* the set handed to discover_links: every registered link and the inverse of each one that has an inverse, nothing else *)
Theorem gen_links_in_force_spec : forall (L E D : Type) (leqb : L -> L -> bool), (forall a b, leqb a b = true <-> a = b) ->
  forall (data_links_attr : D -> list L) (is_collection : E -> bool) (coll_links : E -> list L) (entry_link : E -> L)
         (inverse : L -> option L) (iterL : list L -> list L), (forall s x, In x (iterL s) <-> In x s) ->
  forall dc ext l,
  In l (lm_links_in_force L E D leqb data_links_attr is_collection coll_links entry_link inverse iterL dc ext) <->
  (GenLinks.registered L E D data_links_attr is_collection coll_links entry_link dc ext l \/
   exists l0, GenLinks.registered L E D data_links_attr is_collection coll_links entry_link dc ext l0 /\ inverse l0 = Some l).
Proof. exact Lemmas.gen_links_in_force_spec. Qed.
Print Assumptions gen_links_in_force_spec.

(* ---- round 6: the translated set of links in force, instantiated at the manager model's types, and the update loop closed
   over it (no link-set parameter).  g_links_in_force iterL s  is  lm_links_in_force (gen/Gen_links.v) with
   data_collection = the member datasets of s, _external_links = s_ext s, link objects = (link, declared inverse function),
   Data.links d = coordinate links ++ derived-component links (each with the inverse function read off d_dinv),
   link.inverse = ComponentLink([to], from[0], using=inverse, inverse=using), `==` on link objects structural;
   the result is projected to the model's links.
   links_paired s :=  every dataset's d_dinv entries are the `.inverse` objects of its d_der links (same name, attributes swapped,
                      at most one per starting attribute)  /\  every entry that is not a LinkCollection has exactly one sublink.
   same_derivations own links t0 t :=  same keys  /\  same depth_of for every attribute  /\  every entry (k, l) of t is a link of
                      [links] that targets its key, is not own, k is the minimum height of a derivation, inputs strictly lower. *)

(* the pairing invariant holds in every state reached from a paired state by operations that only register one-link plain entries *)
Theorem links_paired_reachable : forall ops s0, links_paired s0 -> Forall shaped_op ops -> links_paired (run s0 ops).
Proof. exact Lemmas.links_paired_reachable. Qed.
Print Assumptions links_paired_reachable.

(* the TRANSLATED `self._links | self._inverse_links`, run on a state of the manager model, has exactly the elements of the hand
   model's all_links (order and multiplicity may differ), for every iteration order of the set of links *)
Theorem gen_links_in_force_is_all_links : forall s iterL, iterL_ok iterL -> links_paired s ->
  forall l, In l (g_links_in_force iterL s) <-> In l (all_links s).
Proof. exact Lemmas.gen_links_in_force_is_all_links. Qed.
Print Assumptions gen_links_in_force_is_all_links.

(* gen_update_is_recompute without the link-set parameter: the translated update loop, handed the TRANSLATED set of links in force,
   raises nothing and installs on every dataset of the collection, in order, a table with the same derivations as the one the hand
   model's recompute stores: same keys, same depth for every attribute, every stored link a link in force that is a valid
   minimal derivation step.  Up to link order: among links of equal merit the stored link may differ, because the translated
   set enumerates its elements in another order than all_links (Python iterates a set). *)
Theorem gen_update_is_recompute_closed : forall s iterL iter fuel,
  iterL_ok iterL -> iter_ok iter -> links_paired s ->
  (fuel_for (g_links_in_force iterL s) <= fuel)%nat ->
  exists tabs : list table,
    g_update iter fuel (g_links_in_force iterL s) (map gdata_of (filter d_member (s_data s))) =
      Ok ([], map (fun dt => EvSet cid link gdata (gdata_of (fst dt)) (installed (gdata_of (fst dt)) (snd dt)))
                  (combine (filter d_member (s_data s)) tabs), tt) /\
    length tabs = length (filter d_member (s_data s)) /\
    Forall2 (fun d t => same_derivations (d_own d) (all_links s) (d_tbl d) t)
            (filter d_member (s_data (recompute s))) tabs.
Proof. exact Lemmas.gen_update_is_recompute_closed. Qed.
Print Assumptions gen_update_is_recompute_closed.
