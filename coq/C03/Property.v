(* C03 — linked attributes are reachable exactly through links and carry composed values.
   Statements only; every proof is `exact Lemmas.<name>`. *)
From Coq Require Import ZArith List Bool Arith.
Import ListNotations.
From GV Require Import C03.Model C03.Lemmas.

(* the relaxation loop stops within the fuel the model gives it, and more fuel changes nothing *)
Theorem discover_terminates : forall own links,
  (exists t, discover_loop (fuel_for links) own links [] = Some t) /\
  (forall fuel, (fuel_for links <= fuel)%nat -> discover_loop fuel own links [] = discover own links).
Proof. exact Lemmas.discover_terminates. Qed.
Print Assumptions discover_terminates.

(* an attribute is in the table exactly when a tree of links derives it from the own attributes and it is not own *)
Theorem discover_sound_complete : forall own links t, discover own links = Some t ->
  forall c, lookup c t <> None <-> ((exists n, Derivable own links c n) /\ ~ In c own).
Proof. exact Lemmas.discover_sound_complete. Qed.
Print Assumptions discover_sound_complete.

(* the depth recorded (0 for own attributes) is the height of the lowest derivation tree *)
Theorem discover_min_depth : forall own links t, discover own links = Some t ->
  forall c d, depth_of own t c = Some d ->
  Derivable own links c d /\ forall n, Derivable own links c n -> (d <= n)%nat.
Proof. exact Lemmas.discover_min_depth. Qed.
Print Assumptions discover_min_depth.

(* the link chosen for an attribute is one of the links given, targets it, and each of its inputs is strictly closer
   to the own attributes: lazy evaluation through Data.get_data terminates *)
Theorem discover_wellfounded : forall own links t, discover own links = Some t ->
  forall c d l, lookup c t = Some (d, l) ->
  In l links /\ l_to l = c /\ ~ In c own /\
  forall f, In f (l_from l) -> exists df, depth_of own t f = Some df /\ (df < d)%nat.
Proof. exact Lemmas.discover_wellfounded. Qed.
Print Assumptions discover_wellfounded.

(* the value read through the table is the composition of the link functions along a derivation tree of minimum
   height; an attribute without depth cannot be read (IncompatibleAttribute) and has no derivation *)
Theorem discover_value : forall own links env t, discover own links = Some t ->
  forall c,
  (forall d, depth_of own t c = Some d ->
     exists v, read own env t c = Some v /\ DerivVal own links env c d v /\
               (forall n, Derivable own links c n -> (d <= n)%nat)) /\
  (depth_of own t c = None -> read own env t c = None /\ forall n, ~ Derivable own links c n).
Proof. exact Lemmas.discover_value. Qed.
Print Assumptions discover_value.

(* which attributes are derivable, and at what depth, does not depend on the order (or multiplicity) in which the
   links are enumerated — the code iterates a Python set *)
Theorem discover_order_irrelevant : forall own links links' t t',
  (forall l, In l links <-> In l links') ->
  discover own links = Some t -> discover own links' = Some t' ->
  forall c, depth_of own t c = depth_of own t' c.
Proof. exact Lemmas.discover_order_irrelevant. Qed.
Print Assumptions discover_order_irrelevant.

(* an inequality on attribute c selects, in a dataset that can derive c, exactly the elements whose derived value
   (along a minimum-height tree) satisfies it; where c is not derivable the selection is incompatible *)
Theorem selection_follows_links : forall own links env t, discover own links = Some t ->
  forall c thr,
  (forall n, Derivable own links c n ->
     exists d v, depth_of own t c = Some d /\ DerivVal own links env c d v /\
                 (forall m, Derivable own links c m -> (d <= m)%nat) /\
                 select own env t c thr = Some (v >? thr)%Z) /\
  ((forall n, ~ Derivable own links c n) -> select own env t c thr = None).
Proof. exact Lemmas.selection_follows_links. Qed.
Print Assumptions selection_follows_links.

(* the state a DataCollection starts from is well-formed and fresh *)
Theorem manager_init : forall ds,
  NoDup (map d_id ds) -> (forall d, In d ds -> ds_wf d) ->
  let s0 := recompute (mkstate ds [] 0 false) in
  wf s0 /\ fresh s0 /\ s_delay s0 = 0%nat.
Proof. exact Lemmas.manager_init. Qed.
Print Assumptions manager_init.

(* after every valid history: no discover call ran out of fuel, every registered link mentions only attributes of
   datasets in the collection (wf), and — whenever no delay block is open — every dataset of the collection holds
   exactly the table discover computes from the links in force now, whose chosen links are links in force and
   mention live attributes only *)
Theorem manager_inv_reachable : forall s0 ops,
  wf s0 -> (s_delay s0 = 0%nat -> fresh s0) -> valid_history s0 ops ->
  let s := run s0 ops in
  wf s /\
  (s_delay s = 0%nat ->
     fresh s /\
     forall d c dep l, In d (s_data s) -> d_member d = true -> lookup c (d_tbl d) = Some (dep, l) ->
       In l (all_links s) /\ forall x, In x (link_cids l) -> live s x).
Proof. exact Lemmas.manager_inv_reachable. Qed.
Print Assumptions manager_inv_reachable.

(* in every state reached by a valid history with no delay block open, a dataset of the collection reads an attribute
   (through Data.get_data: own components first, derived ones by their own link) exactly when the links in force - the
   derived-component and coordinate links of the datasets in the collection included - derive it from its main and
   coordinate attributes; the value read is the composition of the link functions along the stored derivation tree,
   whose height is the minimum one, with the dataset's own components as leaves *)
Theorem manager_reads_exactly : forall s0 ops,
  wf s0 -> (s_delay s0 = 0%nat -> fresh s0) -> valid_history s0 ops ->
  let s := run s0 ops in
  s_delay s = 0%nat ->
  forall d env c, In d (s_data s) -> d_member d = true ->
    (read_ds d env c <> None <-> exists n, Derivable (d_own d) (all_links s) c n) /\
    (forall v, read_ds d env c = Some v ->
       exists k, DerivVal (comps d) (all_links s) (der_env d env) c k v /\
                 depth_of (d_own d) (d_tbl d) c = Some k /\
                 forall n, Derivable (d_own d) (all_links s) c n -> (k <= n)%nat).
Proof. exact Lemmas.manager_reads_exactly. Qed.
Print Assumptions manager_reads_exactly.
