(* C03 — the LinkManager methods TRANSLATED from glue/core/link_manager.py on every run (coq/gen/Gen_links.v):
   _component_removed / _data_removed (with remove_link) drop exactly the registered links that mention the removed
   attribute / an attribute of the removed dataset, one recomputation per dropped link, never ValueError;
   the loop of update_externally_derivable_components installs on every dataset exactly discover's result. *)
From Coq Require Import ZArith List Bool Arith Lia Setoid.
Import ListNotations.
From GV Require Import Common.Wire Common.PyInt gen.Gen_links C03.Model C03.Lemmas1 C03.GenEquiv.
Open Scope nat_scope.

(* ------------------------------------------------------------------ loops that only accumulate *)
Lemma for_else_fold_ext : forall {A S R : Type} (B : A -> S -> outcome S R) (O : S -> outcome S R) (f : S -> A -> S),
  (forall x s, B x s = Normal (f s x)) -> (forall s, O s = Normal s) ->
  forall xs s, for_else B O xs s = Normal (fold_left f xs s).
Proof.
  intros A S R B O f HB HO xs. induction xs as [|x r IH]; intros s; simpl; [apply HO|]. rewrite HB. apply IH.
Qed.

Lemma fold_filter_app : forall {A} (p : A -> bool) xs acc,
  fold_left (fun r x => if p x then r ++ [x] else r) xs acc = acc ++ filter p xs.
Proof.
  intros A p xs. induction xs as [|x r IH]; intros acc; simpl; [rewrite app_nil_r; reflexivity|].
  rewrite IH. destruct (p x); [rewrite <- app_assoc|]; reflexivity.
Qed.

(* `for x in xs: if q x: acc.append(y); break` *)
Lemma for_else_find : forall {A S R : Type} (B : A -> S -> outcome S R) (O : S -> outcome S R) (q : A -> bool) (hit : S -> S),
  (forall x s, B x s = if q x then Break (hit s) else Normal s) -> (forall s, O s = Normal s) ->
  forall xs s, for_else B O xs s = Normal (if existsb q xs then hit s else s).
Proof.
  intros A S R B O q hit HB HO xs. induction xs as [|x r IH]; intros s; simpl; [apply HO|].
  rewrite HB. destruct (q x); simpl; [reflexivity|apply IH].
Qed.

(* ------------------------------------------------------------------ removing every selected link *)
Section RemoveAll.
  Variables (C L E D : Type) (eeqb : E -> E -> bool).
  Hypothesis eeqb_eq : forall x y, eeqb x y = true <-> x = y.
  Variable p : E -> bool.
  Notation ev := (event C L D).

  Lemma list_remove_app : forall pre x r, (forall z, In z pre -> z <> x) ->
    list_remove eeqb (pre ++ x :: r) x = Ok (pre ++ r).
  Proof.
    induction pre as [|y pre IH]; intros x r Hne; simpl.
    - assert (Hx : eeqb x x = true) by (apply eeqb_eq; reflexivity). rewrite Hx. reflexivity.
    - destruct (eeqb x y) eqn:E1.
      + apply eeqb_eq in E1. exfalso. apply (Hne y); [left; reflexivity|auto].
      + rewrite IH; [reflexivity|]. intros z Hz. apply Hne. right. exact Hz.
  Qed.

  Lemma remove_all : forall (B : E -> list E * list ev -> outcome (list E * list ev) (list E * list ev * unit)) O,
    (forall link sel tr, B link (sel, tr) = match list_remove eeqb sel link with
                                            | Err e => Raise e
                                            | Ok l => Normal (l, tr ++ [EvUpdate C L D])
                                            end) ->
    (forall s, O s = Normal s) ->
    forall ext pre tr, (forall z, In z pre -> p z = false) ->
    for_else B O (filter p ext) (pre ++ ext, tr) =
    Normal (pre ++ filter (fun x => negb (p x)) ext, tr ++ repeat (EvUpdate C L D) (length (filter p ext))).
  Proof.
    intros B O HB HO ext. induction ext as [|x r IH]; intros pre tr Hpre; simpl.
    - rewrite HO, !app_nil_r. reflexivity.
    - destruct (p x) eqn:Ex; simpl.
      + rewrite HB, list_remove_app.
        * rewrite (IH pre _ Hpre). rewrite <- app_assoc. reflexivity.
        * intros z Hz Hzx. subst z. rewrite (Hpre x Hz) in Ex. discriminate.
      + replace (pre ++ x :: r) with ((pre ++ [x]) ++ r) by (rewrite <- app_assoc; reflexivity).
        rewrite (IH (pre ++ [x]) tr).
        * rewrite <- app_assoc. reflexivity.
        * intros z Hz. apply in_app_iff in Hz. destruct Hz as [Hz|[Hz|[]]]; [auto|subst; exact Ex].
  Qed.
End RemoveAll.

Lemma zeqb_eq : forall x y : Z, Z.eqb x y = true <-> x = y.
Proof. intros. apply Z.eqb_eq. Qed.

(* _component_removed: exactly the registered links that mention the attribute go, in place; one update per link *)
Theorem gen_component_removed_spec : forall pool ext c,
  g_component_removed pool ext c =
  Ok (filter (fun i => negb (pool_touches pool i c)) ext,
      repeat (EvUpdate cid link Z) (length (filter (fun i => pool_touches pool i c) ext)), tt).
Proof.
  intros pool ext c. unfold g_component_removed, lm_component_removed.
  rewrite (for_else_fold_ext _ _ (fun r x => if pool_touches pool x c then r ++ [x] else r)).
  2:{ intros x s. destruct (pool_touches pool x c); reflexivity. }
  2:{ reflexivity. }
  rewrite fold_filter_app. cbv beta iota. simpl app.
  match goal with |- context [for_else ?B ?O (filter ?p ext) (ext, ?tr)] =>
    pose proof (remove_all cid link Z Z Z.eqb zeqb_eq p B O) as Hra
  end.
  rewrite (Hra) with (pre := @nil Z) (tr := @nil (event cid link Z)).
  - reflexivity.
  - intros l sel tr. unfold lm_remove_link. destruct (list_remove Z.eqb sel l); reflexivity.
  - intros [a b]. reflexivity.
  - intros z [].
Qed.

(* _data_removed: exactly the registered links that mention a component of the removed dataset whose parent it is *)
Theorem gen_data_removed_spec : forall pool ext d cs,
  let hit := fun i => existsb (fun x : cid => pool_touches pool i x && (fst x =? d)%Z) cs in
  g_data_removed pool ext d cs =
  Ok (filter (fun i => negb (hit i)) ext, repeat (EvUpdate cid link Z) (length (filter hit ext)), tt).
Proof.
  intros pool ext d cs hit. unfold g_data_removed, lm_data_removed.
  rewrite (for_else_fold_ext _ _ (fun r x => if hit x then r ++ [x] else r)).
  2:{ intros x s.
      rewrite (for_else_find _ _ (fun y : cid => pool_touches pool x y && (fst y =? d)%Z) (fun r => r ++ [x])).
      - reflexivity.
      - intros y s'. destruct (pool_touches pool x y && (fst y =? d)%Z); reflexivity.
      - reflexivity. }
  2:{ reflexivity. }
  rewrite fold_filter_app. cbv beta iota. simpl app.
  match goal with |- context [for_else ?B ?O (filter ?p ext) (ext, ?tr)] =>
    pose proof (remove_all cid link Z Z Z.eqb zeqb_eq p B O) as Hra
  end.
  rewrite (Hra) with (pre := @nil Z) (tr := @nil (event cid link Z)).
  - reflexivity.
  - intros l sel tr. unfold lm_remove_link. destruct (list_remove Z.eqb sel l); reflexivity.
  - intros [a b]. reflexivity.
  - intros z [].
Qed.

(* ------------------------------------------------------------------ the loop of update_externally_derivable_components *)
Lemma dict_set_fresh : forall {V} (acc : list (cid * V)) k v,
  ~ In k (map fst acc) -> dict_set cid_eqb acc k v = acc ++ [(k, v)].
Proof.
  intros V acc k v. induction acc as [|[k0 w] r IH]; simpl; intros Hn; [reflexivity|].
  destruct (cid_eqb k k0) eqn:E.
  - apply cid_eqb_eq in E. subst. exfalso. apply Hn. left. reflexivity.
  - rewrite IH; [reflexivity|]. intros H. apply Hn. right. exact H.
Qed.

Lemma fold_install : forall (d : gdata) (t : table) acc,
  NoDup (map fst acc ++ map fst t) ->
  fold_left (fun comps (kv : cid * link) => dict_set cid_eqb comps (fst kv) (d, snd kv)) (links_of_table t) acc =
  acc ++ installed d t.
Proof.
  intros d t. induction t as [|[k [d0 l0]] r IH]; intros acc Hnd; simpl.
  - rewrite app_nil_r. reflexivity.
  - rewrite dict_set_fresh.
    + rewrite IH.
      * rewrite <- app_assoc. reflexivity.
      * rewrite map_app. simpl. rewrite <- app_assoc. exact Hnd.
    + simpl in Hnd. apply NoDup_remove_2 in Hnd. intros H. apply Hnd. apply in_app_iff. left. exact H.
Qed.

Lemma fold_snoc_map : forall {A B} (g : A -> B) xs acc,
  fold_left (fun tr d => tr ++ [g d]) xs acc = acc ++ map g xs.
Proof.
  intros A B g xs. induction xs as [|x r IH]; intros acc; simpl; [rewrite app_nil_r; reflexivity|].
  rewrite IH, <- app_assoc. reflexivity.
Qed.

Theorem gen_update_installs : forall iter fuel L dc, iter_ok iter -> fuel_for L <= fuel ->
  g_update iter fuel L dc =
  Ok ([], map (fun d => EvSet cid link gdata d (installed d (fst (disc (g_main d ++ g_coord d) L)))) dc, tt).
Proof.
  intros iter fuel L dc Hiter Hfuel. unfold g_update, lm_update_loop.
  rewrite (for_else_fold_ext _ _
             (fun tr d => tr ++ [EvSet cid link gdata d (installed d (fst (disc (g_main d ++ g_coord d) L)))])).
  - cbv beta iota. rewrite fold_snoc_map. reflexivity.
  - intros d tr.
    destruct (gen_discover_total d L) as [t [Ht Hall]].
    change (discover_links cid link gdata cid_eqb l_from l_to g_main g_coord iter fuel d L)
      with (g_discover_with iter fuel d L).
    rewrite (Hall iter fuel Hiter Hfuel). unfold disc. rewrite Ht. simpl fst.
    rewrite (for_else_fold_ext _ _ (fun comps (kv : cid * link) => dict_set cid_eqb comps (fst kv) (d, snd kv))).
    + rewrite (fold_install d t []); [reflexivity|]. simpl.
      destruct (discover_inv _ _ _ Ht) as [HI _]. exact (inv_nodup _ _ _ HI).
    + intros [k l0] s. reflexivity.
    + reflexivity.
  - reflexivity.
Qed.

(* the translated loop, run on the datasets of the collection with the links in force, installs exactly the tables that
   the hand model's [recompute] stores *)
Lemma filter_map_member : forall (F : dataset -> dataset) ds, (forall d, d_member (F d) = d_member d) ->
  filter d_member (map F ds) = map F (filter d_member ds).
Proof.
  intros F ds HF. induction ds as [|d r IH]; simpl; [reflexivity|].
  rewrite HF. destruct (d_member d); simpl; rewrite IH; reflexivity.
Qed.

Theorem gen_update_is_recompute : forall s iter fuel, iter_ok iter -> fuel_for (all_links s) <= fuel ->
  g_update iter fuel (all_links s) (map gdata_of (filter d_member (s_data s))) =
  Ok ([], map (fun d => EvSet cid link gdata (gdata_of d) (installed (gdata_of d) (d_tbl d)))
              (filter d_member (s_data (recompute s))), tt).
Proof.
  intros s iter fuel Hiter Hfuel. rewrite (gen_update_installs iter fuel _ _ Hiter Hfuel).
  f_equal. f_equal. f_equal. unfold recompute. cbn [s_data].
  rewrite filter_map_member.
  2:{ intros d. destruct (d_member d) eqn:E; [unfold set_tbl; simpl; exact E|exact E]. }
  rewrite !map_map. apply map_ext_in. intros d Hd. apply filter_In in Hd. destruct Hd as [_ Hm]. rewrite Hm.
  unfold gdata_of, set_tbl. cbn [g_main g_coord g_der d_own d_der d_tbl]. rewrite app_nil_r. reflexivity.
Qed.

(* the translated handler against the hand model's [drop_links] for one removed attribute: same registered links
   afterwards; the model recomputes exactly when the code calls update at least once *)
Lemma filter_map_ids : forall (q : Z -> bool) (q' : entry -> bool) es,
  (forall e, In e es -> q (e_id e) = q' e) -> filter q (map e_id es) = map e_id (filter q' es).
Proof.
  intros q q' es. induction es as [|e r IH]; intros H; simpl; [reflexivity|].
  rewrite (H e (or_introl eq_refl)). destruct (q' e); simpl; rewrite IH; auto; intros x Hx; apply H; right; exact Hx.
Qed.

Lemma filter_len_le : forall {A} (q : A -> bool) l, length (filter q l) <= length l.
Proof. intros A q l. induction l as [|x r IH]; simpl; [lia|]. destruct (q x); simpl; lia. Qed.

Lemma filter_length_all : forall {A} (q : A -> bool) l, length (filter q l) = length l -> filter (fun x => negb (q x)) l = [].
Proof.
  intros A q l. induction l as [|x r IH]; simpl; intros H; [reflexivity|].
  destruct (q x); simpl in *.
  - apply IH. lia.
  - pose proof (filter_len_le q r). lia.
Qed.

Theorem gen_component_removed_is_drop : forall s c,
  (forall e, In e (s_ext s) -> pool_entry (s_ext s) (e_id e) = e) ->
  let kept := filter (fun e => negb (entry_touches_any [c] e)) (s_ext s) in
  exists n, g_component_removed (s_ext s) (map e_id (s_ext s)) c =
              Ok (map e_id (s_ext (drop_links [c] s)), repeat (EvUpdate cid link Z) n, tt) /\
            (n = 0 -> drop_links [c] s = s) /\
            (n <> 0 -> drop_links [c] s = recompute (set_ext s kept)).
Proof.
  intros s c Hpool kept. rewrite gen_component_removed_spec.
  assert (Hq : forall e, In e (s_ext s) -> pool_touches (s_ext s) (e_id e) c = entry_touches_any [c] e).
  { intros e He. unfold pool_touches. rewrite (Hpool e He). unfold entry_touches_any. simpl. rewrite orb_false_r. reflexivity. }
  rewrite (filter_map_ids _ (fun e => negb (entry_touches_any [c] e)) (s_ext s)).
  2:{ intros e He. rewrite (Hq e He). reflexivity. }
  rewrite (filter_map_ids (fun i => pool_touches (s_ext s) i c) (fun e => entry_touches_any [c] e) (s_ext s) Hq).
  rewrite map_length. fold kept.
  exists (length (filter (fun e => entry_touches_any [c] e) (s_ext s))).
  assert (Hlen : length kept + length (filter (fun e => entry_touches_any [c] e) (s_ext s)) = length (s_ext s)).
  { unfold kept. generalize (s_ext s) as es. clear. intros es. induction es as [|e r IH]; [reflexivity|].
    cbn [filter]. destruct (entry_touches_any [c] e); cbn [negb length]; lia. }
  unfold drop_links. fold kept.
  destruct (length kept =? length (s_ext s)) eqn:E.
  - apply Nat.eqb_eq in E. split; [|split].
    + f_equal. f_equal. f_equal.
      assert (Hnil : filter (fun e => negb (negb (entry_touches_any [c] e))) (s_ext s) = []).
      { apply (filter_length_all (fun e => negb (entry_touches_any [c] e))). exact E. }
      unfold kept. revert Hnil. generalize (s_ext s) as es. clear. intros es. induction es as [|e r IH]; intros Hnil; [reflexivity|].
      cbn [filter] in *. destruct (entry_touches_any [c] e); cbn [negb] in *; [discriminate|]. cbn [map]. f_equal. apply IH. exact Hnil.
    + reflexivity.
    + intros Hn. exfalso. apply Hn. lia.
  - apply Nat.eqb_neq in E. split; [|split].
    + reflexivity.
    + intros Hn. exfalso. lia.
    + reflexivity.
Qed.
