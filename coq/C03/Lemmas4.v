(* C03 — lemmas, part 4: links that can never be used may be dropped from the enumeration without changing
   what discover returns (used when a dataset leaves the collection and none of the registered links touched it). *)
From Coq Require Import ZArith List Bool Arith Lia.
Import ListNotations.
From GV Require Import Common.Wire C03.Model C03.Lemmas1 C03.Lemmas3.
Open Scope nat_scope.

Definition dead (own : list cid) (Lf : list link) (l : link) : Prop :=
  exists f, In f (l_from l) /\ forall n, ~ Derivable own Lf f n.

Inductive Skip (own : list cid) (Lf : list link) : list link -> list link -> Prop :=
| Skip_nil : Skip own Lf [] []
| Skip_keep : forall l a b, Skip own Lf a b -> Skip own Lf (l :: a) (l :: b)
| Skip_drop : forall l a b, dead own Lf l -> Skip own Lf a b -> Skip own Lf (l :: a) b.

Lemma Skip_refl : forall own Lf a, Skip own Lf a a.
Proof. intros own Lf a. induction a; constructor; auto. Qed.

Lemma Skip_app : forall own Lf a b c d, Skip own Lf a b -> Skip own Lf c d -> Skip own Lf (a ++ c) (b ++ d).
Proof.
  intros own Lf a b c d H. induction H; simpl; intros Hc; auto.
  - apply Skip_keep. auto.
  - apply Skip_drop; auto.
Qed.

Lemma Skip_drop_all : forall own Lf x a b,
  (forall l, In l x -> dead own Lf l) -> Skip own Lf a b -> Skip own Lf (x ++ a) b.
Proof.
  intros own Lf x. induction x as [|l r IH]; simpl; intros a b H Hs; auto.
  apply Skip_drop. { apply H. auto. } apply IH; auto.
Qed.

Lemma Skip_incl : forall own Lf a b, Skip own Lf a b -> forall l, In l b -> In l a.
Proof.
  intros own Lf a b H. induction H; simpl; intros x Hx; auto.
  destruct Hx; auto.
Qed.

Lemma dead_no_improve : forall own Lf t l, Inv own Lf t -> dead own Lf l -> improves own t l = None.
Proof.
  intros own Lf t l HI [f [Hf Hno]]. unfold improves.
  destruct (max_depth own t (l_from l)) as [m|] eqn:Em; auto.
  destruct (max_depth_In _ _ _ _ _ Em Hf) as [d [Hd _]].
  exfalso. apply (Hno d). apply (Inv_sound _ _ _ HI). exact Hd.
Qed.

Lemma first_improving_skip : forall own Lf t a b,
  Inv own Lf t -> Skip own Lf a b -> first_improving own t a = first_improving own t b.
Proof.
  intros own Lf t a b HI H. induction H; simpl; auto.
  - rewrite IHSkip. reflexivity.
  - rewrite (dead_no_improve _ _ _ _ HI H). exact IHSkip.
Qed.

Lemma loop_skip : forall own L L', Skip own L L L' ->
  forall fuel t r, Inv own L t -> discover_loop fuel own L t = Some r ->
  exists fuel', discover_loop fuel' own L' t = Some r.
Proof.
  intros own L L' HS fuel. induction fuel as [|fuel IH]; simpl; intros t r HI H; try discriminate.
  destruct (first_improving own t L) as [[l c]|] eqn:Ef.
  - destruct (first_improving_some _ _ _ _ _ Ef) as [Hin Himp].
    destruct (IH _ _ (Inv_step _ _ _ _ _ HI Hin Himp) H) as [f' Hf'].
    exists (S f'). simpl. rewrite <- (first_improving_skip _ _ _ _ _ HI HS), Ef. exact Hf'.
  - exists 1. simpl. rewrite <- (first_improving_skip _ _ _ _ _ HI HS), Ef. exact H.
Qed.

Lemma loop_fuel_indep : forall own L f1 f2 t a b,
  discover_loop f1 own L t = Some a -> discover_loop f2 own L t = Some b -> a = b.
Proof.
  intros own L f1 f2 t a b H1 H2.
  apply (loop_fuel_mono _ _ _ _ _ f2) in H1. apply (loop_fuel_mono _ _ _ _ _ f1) in H2.
  rewrite Nat.add_comm in H2. congruence.
Qed.

Lemma discover_skip : forall own L L' t,
  Skip own L L L' -> discover own L = Some t -> discover own L' = Some t.
Proof.
  intros own L L' t HS H.
  destruct (loop_skip _ _ _ HS _ _ _ (Inv_nil own L) H) as [f' Hf'].
  destruct (discover_total own L') as [t' [H' _]]. rewrite H'. f_equal.
  unfold discover in H'. apply (loop_fuel_indep _ _ _ _ _ _ _ H' Hf').
Qed.

(* ------------------------------------------------------------------ a dataset nobody is linked to cannot be reached *)
Lemma no_reach : forall s d e,
  wf s -> In d (s_data s) -> d_member d = true -> In e (s_data s) -> d_id e <> d_id d ->
  (forall x, In x (s_ext s) -> entry_touches_any (comps d) x = false) ->
  forall c n, Derivable (d_own e) (all_links s) c n -> fst c <> d_id d.
Proof.
  intros s d e (Hnd & Hds & Hext & _) Hd Hmd He Hne Hno c n H.
  induction H as [c n Hc | l n Hl Hf IH].
  - destruct (Hds e He) as (Hown & _). rewrite (Hown c); [exact Hne|]. unfold comps. apply in_app_iff. auto.
  - apply in_all_links in Hl. destruct Hl as [[x [Hx [Hmx Hlx]]]|[x [Hx Hlx]]].
    + destruct (ds_link_shape x l (Hds x Hx) Hlx) as (Hnn & _ & Hfst).
      destruct (l_from l) as [|f0 r] eqn:Efr; [congruence|].
      assert (Hf0 : fst f0 <> d_id d) by (apply IH; simpl; auto).
      assert (fst f0 = d_id x) by (apply Hfst; unfold link_cids; rewrite Efr; simpl; auto).
      assert (fst (l_to l) = d_id x) by (apply Hfst; unfold link_cids; simpl; auto).
      congruence.
    + apply in_entry_links in Hlx. destruct Hlx as [p [Hp Hl]].
      intros Heq.
      assert (Hc : In (l_to l) (link_cids (fst p))).
      { apply (entry_link_cids x p l Hp Hl). unfold link_cids. simpl. auto. }
      destruct (Hext x Hx p (l_to l) Hp Hc) as [y [Hy [Hmy Hcy]]].
      destruct (Hds y Hy) as (Hown & _).
      assert (y = d). { apply (nodup_id_eq (s_data s)); auto. rewrite <- (Hown _ Hcy). exact Heq. }
      subst y. pose proof (entry_touches_any_intro (comps d) x p (l_to l) Hp Hc Hcy) as Ht.
      rewrite (Hno x Hx) in Ht. discriminate.
Qed.

(* the links of a state with dataset d marked as outside the collection: d's internal links skipped *)
Lemma skip_remove_member : forall own Lf d' ds d,
  find_ds (d_id d') ds = Some d -> d_member d' = false ->
  (forall l, In l (ds_links d) -> dead own Lf l) ->
  Skip own Lf (flat_map ds_links (filter d_member ds)) (flat_map ds_links (filter d_member (put_ds d' ds))).
Proof.
  intros own Lf d' ds. induction ds as [|a r IH]; simpl; intros d Hf Hm' Hdead.
  - constructor.
  - destruct (Z.eqb (d_id a) (d_id d')) eqn:E; simpl.
    + inversion Hf; subst a. rewrite Hm'. destruct (d_member d); simpl.
      * apply Skip_drop_all; auto. apply Skip_refl.
      * apply Skip_refl.
    + destruct (d_member a); simpl.
      * apply Skip_app. apply Skip_refl. apply (IH d); auto.
      * apply (IH d); auto.
Qed.

Lemma fresh_remove_data : forall s d d',
  wf s -> find_ds (d_id d') (s_data s) = Some d -> d_member d = true ->
  d_member d' = false ->
  (forall x, In x (s_ext s) -> entry_touches_any (comps d) x = false) ->
  fresh s -> fresh (set_data s (put_ds d' (s_data s))).
Proof.
  intros s d d' Hwf Hf Hm Hm' Hno Hfr x Hx Hmx.
  destruct Hwf as (Hnd & Hds & Hext & Herr).
  destruct (find_ds_some _ _ _ Hf) as [Hd Hid].
  simpl in Hx. apply (put_ds_in_iff d' _ d x Hnd Hf) in Hx. destruct Hx as [Hx|[Hx Hne]].
  { subst. congruence. }
  apply discover_skip with (L := all_links s); [|apply (Hfr x Hx Hmx)].
  unfold all_links. simpl. apply Skip_app; [|apply Skip_refl].
  apply (skip_remove_member _ _ d' _ d Hf Hm').
  intros l Hl. destruct (ds_link_shape d l (Hds d Hd) Hl) as (Hnn & _ & Hfst).
  destruct (l_from l) as [|f0 r] eqn:Efr; [congruence|].
  exists f0. split. { rewrite Efr. simpl. auto. }
  intros n Hder.
  assert (Hwf : wf s) by (unfold wf; auto).
  apply (no_reach s d x Hwf Hd Hm Hx) in Hder; auto.
  - apply Hder. apply Hfst. unfold link_cids. rewrite Efr. simpl. auto.
  - rewrite Hid. exact Hne.
Qed.
