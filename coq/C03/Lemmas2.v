(* C03 — lemmas, part 2: values read through the table, selections. *)
From Coq Require Import ZArith List Bool Arith Lia.
Import ListNotations.
From GV Require Import Common.Wire C03.Model C03.Lemmas1.
Open Scope nat_scope.

Lemma DerivVal_mono : forall own links env c n v,
  DerivVal own links env c n v -> forall n', n <= n' -> DerivVal own links env c n' v.
Proof.
  intros own links env c n v H. induction H as [c n Hc | l n vf Hl Hf IH]; intros n' Hle.
  - apply DV_own. exact Hc.
  - destruct n' as [|n']; [lia|]. apply DV_link; auto. intros f Hfin. apply IH; auto. lia.
Qed.

Lemma DerivVal_Derivable : forall own links env c n v,
  DerivVal own links env c n v -> Derivable own links c n.
Proof.
  intros own links env c n v H. induction H as [c n Hc | l n vf Hl Hf IH].
  - apply D_own. exact Hc.
  - apply D_link; auto.
Qed.

Lemma all_some_map : forall (A B : Type) (g : A -> option B) (dflt : B) (fs : list A),
  (forall f, In f fs -> exists v, g f = Some v) ->
  all_some (map g fs) = Some (map (fun f => match g f with Some v => v | None => dflt end) fs).
Proof.
  intros A B g dflt fs. induction fs as [|f r IH]; simpl; intros H; auto.
  destruct (H f (or_introl eq_refl)) as [v Hv]. rewrite Hv.
  rewrite IH; auto.
Qed.

Lemma all_some_none : forall (A B : Type) (g : A -> option B) (fs : list A) f,
  In f fs -> g f = None -> all_some (map g fs) = None.
Proof.
  intros A B g fs. induction fs as [|x r IH]; simpl; intros f Hin Hn; try contradiction.
  destruct Hin as [Hin|Hin].
  - subst. rewrite Hn. reflexivity.
  - destruct (g x); auto. rewrite (IH f Hin Hn). reflexivity.
Qed.

(* reading an attribute whose depth is d needs d+1 units of fuel, and yields the value of the derivation tree stored
   in the table.  own' may be larger than the own set the table was computed for (a dataset reads its derived
   components as components): those attributes are then leaves of the tree, with the value env' gives them *)
Lemma eval_correct_sup : forall own links t own' env', Inv own links t -> incl own own' ->
  forall d c, depth_of own t c = Some d ->
  exists v, (forall k, eval (S d + k) own' env' t c = Some v) /\ DerivVal own' links env' c d v.
Proof.
  intros own links t own' env' HI Hinc d. induction d as [d IH] using lt_wf_ind. intros c Hd.
  destruct (mem c own') eqn:Ec'.
  - exists (env' c). split.
    + intros k. simpl. rewrite Ec'. reflexivity.
    + apply DV_own. apply mem_In. exact Ec'.
  - assert (Ec : mem c own = false).
    { apply mem_false. intros Hc. apply Hinc in Hc. apply mem_In in Hc. congruence. }
    unfold depth_of in Hd. rewrite Ec in Hd.
    destruct (lookup c t) as [[d0 l0]|] eqn:El; try discriminate. inversion Hd; subst d0.
    destruct (inv_entry _ _ _ HI _ _ _ El) as (_ & Hin & Hto & _ & [m [Hm Hs]]).
    destruct d as [|d]; [lia|].
    assert (Hfs : forall f, In f (l_from l0) -> exists v,
               (forall k, eval (S d + k) own' env' t f = Some v) /\ DerivVal own' links env' f d v).
    { intros f Hf. destruct (max_depth_In _ _ _ _ _ Hm Hf) as [df [Hdf Hle]].
      destruct (IH df ltac:(lia) f Hdf) as [v [Hev Hdv]]. exists v. split.
      - intros k. replace (S d + k) with (S df + (d - df + k)) by lia. apply Hev.
      - apply DerivVal_mono with (n := df); auto. lia. }
    set (vf := fun f => match eval (S d) own' env' t f with Some v => v | None => 0%Z end).
    exists (apply_fn (l_fn l0) (map vf (l_from l0))). split.
    + intros k. simpl. rewrite Ec', El.
      rewrite (all_some_map _ _ (eval (S (d + k)) own' env' t) 0%Z).
      * f_equal. f_equal. apply map_ext_in. intros f Hf. unfold vf.
        destruct (Hfs f Hf) as [v [Hev _]].
        pose proof (Hev k) as H1. pose proof (Hev 0) as H0.
        replace (S d + k) with (S (d + k)) in H1 by lia. replace (S d + 0) with (S d) in H0 by lia.
        rewrite H1, H0. reflexivity.
      * intros f Hf. destruct (Hfs f Hf) as [v [Hev _]]. exists v.
        pose proof (Hev k) as H1. replace (S d + k) with (S (d + k)) in H1 by lia. exact H1.
    + subst c. apply DV_link; auto. intros f Hf. unfold vf.
      destruct (Hfs f Hf) as [v [Hev Hdv]]. pose proof (Hev 0) as H0.
      replace (S d + 0) with (S d) in H0 by lia. rewrite H0. exact Hdv.
Qed.

Lemma eval_correct : forall own links env t, Inv own links t ->
  forall d c, depth_of own t c = Some d ->
  exists v, (forall k, eval (S d + k) own env t c = Some v) /\ DerivVal own links env c d v.
Proof. intros own links env t HI. apply eval_correct_sup; auto. apply incl_refl. Qed.

Lemma read_correct_sup : forall own links t own' env', Inv own links t -> incl own own' ->
  forall c d, depth_of own t c = Some d ->
  exists v, read own' env' t c = Some v /\ DerivVal own' links env' c d v.
Proof.
  intros own links t own' env' HI Hinc c d Hd.
  destruct (eval_correct_sup _ _ _ own' env' HI Hinc _ _ Hd) as [v [Hev Hdv]].
  exists v. split; auto. unfold read.
  pose proof (Inv_depth_bound _ _ _ _ _ HI Hd) as Hb.
  replace (S (length t)) with (S d + (length t - d)) by lia. apply Hev.
Qed.

Lemma read_none_sup : forall own t own' env' c,
  depth_of own t c = None -> ~ In c own' -> read own' env' t c = None.
Proof.
  intros own t own' env' c H Hn. unfold read. simpl. apply mem_false in Hn. rewrite Hn.
  unfold depth_of in H. destruct (mem c own); try discriminate.
  destruct (lookup c t) as [[d l]|]; try discriminate. reflexivity.
Qed.

Lemma eval_none : forall own env t c, depth_of own t c = None -> forall fuel, eval fuel own env t c = None.
Proof.
  intros own env t c H fuel. destruct fuel as [|k]; simpl; auto.
  unfold depth_of in H. destruct (mem c own); try discriminate.
  destruct (lookup c t) as [[d l]|]; try discriminate. reflexivity.
Qed.

Lemma read_correct : forall own links env t, Inv own links t ->
  forall c d, depth_of own t c = Some d ->
  exists v, read own env t c = Some v /\ DerivVal own links env c d v.
Proof.
  intros own links env t HI c d Hd.
  destruct (eval_correct _ _ env _ HI _ _ Hd) as [v [Hev Hdv]].
  exists v. split; auto. unfold read.
  pose proof (Inv_depth_bound _ _ _ _ _ HI Hd) as Hb.
  replace (S (length t)) with (S d + (length t - d)) by lia. apply Hev.
Qed.

Theorem discover_value : forall own links env t, discover own links = Some t ->
  forall c,
  (forall d, depth_of own t c = Some d ->
     exists v, read own env t c = Some v /\ DerivVal own links env c d v /\
               (forall n, Derivable own links c n -> d <= n)) /\
  (depth_of own t c = None -> read own env t c = None /\ forall n, ~ Derivable own links c n).
Proof.
  intros own links env t H c. destruct (discover_inv _ _ _ H) as [HI Hfix]. split.
  - intros d Hd. destruct (read_correct _ _ env _ HI _ _ Hd) as [v [Hr Hv]].
    exists v. repeat split; auto. apply (discover_min_depth _ _ _ H _ _ Hd).
  - intros Hn. split. { apply eval_none. exact Hn. }
    intros n Hder. destruct (fix_complete _ _ _ Hfix _ _ Hder) as [d [Hd _]]. congruence.
Qed.

Theorem selection_follows_links : forall own links env t, discover own links = Some t ->
  forall c thr,
  (forall n, Derivable own links c n ->
     exists d v, depth_of own t c = Some d /\ DerivVal own links env c d v /\
                 (forall m, Derivable own links c m -> d <= m) /\
                 select own env t c thr = Some (v >? thr)%Z) /\
  ((forall n, ~ Derivable own links c n) -> select own env t c thr = None).
Proof.
  intros own links env t H c thr. destruct (discover_inv _ _ _ H) as [HI Hfix]. split.
  - intros n Hder. destruct (fix_complete _ _ _ Hfix _ _ Hder) as [d [Hd _]].
    destruct (proj1 (discover_value _ _ env _ H c) d Hd) as [v [Hr [Hv Hmin]]].
    exists d, v. repeat split; auto. unfold select. rewrite Hr. reflexivity.
  - intros Hno. unfold select.
    destruct (depth_of own t c) as [d|] eqn:Ed.
    + exfalso. apply (Hno d). apply (Inv_sound _ _ _ HI). exact Ed.
    + rewrite (proj1 (proj2 (discover_value _ _ env _ H c) Ed)). reflexivity.
Qed.
