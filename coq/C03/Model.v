(* C03 — linked attributes: executable model.

   Part 1  discover      : the relaxation loop of glue/core/link_manager.py:discover_links on explicit fuel
   Part 2  eval / select : reading an attribute through the table (Data.get_data / ComponentLink.compute /
                           DerivedComponent.data) and an inequality selection on it
   Part 3  manager       : DataCollection + LinkManager as a state machine over the operations
                           AddLink | RemoveLink | SetLinks | AddComponent | RemoveComponent | AddData |
                           RemoveData | SetCoordsNone | DelayBegin | DelayEnd   with the implemented triggers
   Part 4  wire          : run_case
   Part 6  generated     : the functions of glue/core/link_manager.py as TRANSLATED on every run (coq/gen/Gen_links.v),
                           instantiated at the model's types; run_case tags 3-5 run them (the correspondence stream
                           `gen_*` of the harness compares them with the live code); C03/GenEquiv.v proves that they
                           compute what part 1 computes

   Definitions only; every proof is in Lemmas*.v. *)
From Coq Require Import ZArith List Bool Arith.
Import ListNotations.
From GV Require Import Common.Wire Common.PyInt gen.Gen_links.
Open Scope Z_scope.

(* ------------------------------------------------------------------ part 1: discover *)

(* a component id: (owning dataset, index inside the dataset); ComponentID.parent is the first half *)
Definition cid := (Z * Z)%type.
Definition cid_eqb (a b : cid) : bool := (fst a =? fst b) && (snd a =? snd b).
Definition mem (c : cid) (l : list cid) : bool := existsb (cid_eqb c) l.

(* link functions: integer-affine maps  xs |-> c0 + sum ci*xi *)
Record fn := mkfn { f_const : Z; f_coefs : list Z }.
Fixpoint dot (cs xs : list Z) : Z :=
  match cs, xs with
  | c :: cs', x :: xs' => c * x + dot cs' xs'
  | _, _ => 0
  end.
Definition apply_fn (f : fn) (xs : list Z) : Z := f_const f + dot (f_coefs f) xs.

(* ComponentLink(comp_from, comp_to, using) ; l_id only names the link on the wire *)
Record link := mklink { l_id : Z; l_from : list cid; l_to : cid; l_fn : fn }.

(* cid_links and depth of discover_links, as one insertion-ordered association list (a Python dict) *)
Definition table := list (cid * (nat * link)).

Fixpoint lookup (c : cid) (t : table) : option (nat * link) :=
  match t with
  | [] => None
  | (k, v) :: r => if cid_eqb c k then Some v else lookup c r
  end.

(* dict assignment: replace in place, or append *)
Fixpoint set_entry (c : cid) (v : nat * link) (t : table) : table :=
  match t with
  | [] => [(c, v)]
  | (k, w) :: r => if cid_eqb c k then (k, v) :: r else (k, w) :: set_entry c v r
  end.

(* depth[cid]: own attributes (main + coordinate components) have depth 0 *)
Definition depth_of (own : list cid) (t : table) (c : cid) : option nat :=
  if mem c own then Some 0%nat
  else match lookup c t with Some (d, _) => Some d | None => None end.

(* max([depth[f] for f in from_]) ; None when some f is not in cids, i.e. the link is not accessible *)
Fixpoint max_depth (own : list cid) (t : table) (fs : list cid) : option nat :=
  match fs with
  | [] => Some 0%nat
  | f :: r =>
    match depth_of own t f, max_depth own t r with
    | Some a, Some b => Some (Nat.max a b)
    | _, _ => None
    end
  end.

(* the loop body's test: Some cost when the link is accessible and (to_ not in cids or cost < depth[to_]) *)
Definition improves (own : list cid) (t : table) (l : link) : option nat :=
  match max_depth own t (l_from l) with
  | None => None
  | Some m =>
    match depth_of own t (l_to l) with
    | None => Some (S m)
    | Some d => if (S m <? d)%nat then Some (S m) else None
    end
  end.

(* `for link in accessible_links(cids, links): ... break` : the first link, in enumeration order, that improves *)
Fixpoint first_improving (own : list cid) (t : table) (links : list link) : option (link * nat) :=
  match links with
  | [] => None
  | l :: r =>
    match improves own t l with
    | Some k => Some (l, k)
    | None => first_improving own t r
    end
  end.

(* `while True:` on explicit fuel; None = fuel exhausted (proved impossible for fuel_for) *)
Fixpoint discover_loop (fuel : nat) (own : list cid) (links : list link) (t : table) : option table :=
  match fuel with
  | O => None
  | S k =>
    match first_improving own t links with
    | None => Some t
    | Some (l, c) => discover_loop k own links (set_entry (l_to l) (c, l) t)
    end
  end.

Definition fuel_for (links : list link) : nat := S (length links * S (length links)).

Definition discover (own : list cid) (links : list link) : option table :=
  discover_loop (fuel_for links) own links [].

(* ------------------------------------------------------------------ part 2: reading values *)

Fixpoint all_some {A} (l : list (option A)) : option (list A) :=
  match l with
  | [] => Some []
  | None :: _ => None
  | Some a :: r => match all_some r with Some r' => Some (a :: r') | None => None end
  end.

(* Data.get_data: own components first, then the externally derivable ones, evaluated lazily through
   ComponentLink.compute (which reads every `from` through get_data again); None = IncompatibleAttribute *)
Fixpoint eval (fuel : nat) (own : list cid) (env : cid -> Z) (t : table) (c : cid) : option Z :=
  match fuel with
  | O => None
  | S k =>
    if mem c own then Some (env c)
    else match lookup c t with
         | None => None
         | Some (_, l) =>
           match all_some (map (eval k own env t) (l_from l)) with
           | Some vs => Some (apply_fn (l_fn l) vs)
           | None => None
           end
         end
  end.

Definition read (own : list cid) (env : cid -> Z) (t : table) (c : cid) : option Z :=
  eval (S (length t)) own env t c.

(* InequalitySubsetState(c, thr, operator.gt).to_mask on one element; None = IncompatibleAttribute *)
Definition select (own : list cid) (env : cid -> Z) (t : table) (c : cid) (thr : Z) : option bool :=
  match read own env t c with Some v => Some (v >? thr) | None => None end.

(* ------------------------------------------------------------------ part 3: the manager *)

Record dataset := mkds {
  d_id : Z;
  d_member : bool;          (* in DataCollection._data *)
  d_hub : bool;             (* Data.hub set (the dataset has been appended at least once) *)
  d_n : Z;                  (* number of elements *)
  d_own : list cid;         (* main_components + coordinate_components *)
  d_coord : list cid;       (* pixel and world components (never removed one by one) *)
  d_world : list cid;       (* _world_component_ids *)
  d_int : list link;        (* Data.coordinate_links: the pixel<->world CoordinateComponentLinks *)
  d_der : list link;        (* Data.derived_links: one link per internal derived component, l_to = the derived attribute *)
  d_dinv : list link;       (* the `.inverse` of every link of d_der that declares an inverse function (round 5):
                               LinkManager._inverse_links inverts the dataset-internal links too *)
  d_tbl : table             (* _externally_derivable_components *)
}.

(* Data.components: main + coordinate + derived *)
Definition der_cids (d : dataset) : list cid := map l_to (d_der d).
Definition comps (d : dataset) : list cid := d_own d ++ der_cids d.
(* Data.links, and the inverses LinkManager._inverse_links builds from them (coordinate links declare none) *)
Definition ds_links (d : dataset) : list link := d_int d ++ d_der d ++ d_dinv d.

(* Data.get_data on a dataset: its own components first - a derived one is computed by its own link from the
   dataset's attributes - then the externally derivable ones through the table (whose inputs are read the same way) *)
Definition der_env (d : dataset) (env : cid -> Z) : cid -> Z :=
  fun c => match find (fun l => cid_eqb c (l_to l)) (d_der d) with
           | Some l => apply_fn (l_fn l) (map env (l_from l))
           | None => env c
           end.
Definition read_ds (d : dataset) (env : cid -> Z) (c : cid) : option Z :=
  read (comps d) (der_env d env) (d_tbl d) c.
Definition select_ds (d : dataset) (env : cid -> Z) (c : cid) (thr : Z) : option bool :=
  select (comps d) (der_env d env) (d_tbl d) c thr.

(* one element of LinkManager._external_links: a ComponentLink (one sublink) or a LinkCollection *)
Record entry := mkent {
  e_id : Z;
  e_coll : bool;                         (* isinstance(link, LinkCollection) *)
  e_inv : option Z;                      (* id of the entry that is this link's .inverse object, when that object is used as a link itself *)
  e_links : list (link * option fn)      (* sublinks; Some g = the sublink has an inverse function g *)
}.

Record state := mkstate { s_data : list dataset; s_ext : list entry; s_delay : nat; s_err : bool }.

(* link.inverse: only links with a single input have one *)
Definition inv_links (l : link) (og : option fn) : list link :=
  match og, l_from l with
  | Some g, [f] => [mklink (l_id l) [l_to l] f g]
  | _, _ => []
  end.
Definition entry_links (e : entry) : list link :=
  flat_map (fun p => fst p :: inv_links (fst p) (snd p)) (e_links e).

(* LinkManager._links | LinkManager._inverse_links  (a set in the code: the order here is one enumeration) *)
Definition all_links (s : state) : list link :=
  flat_map ds_links (filter d_member (s_data s)) ++ flat_map entry_links (s_ext s).

(* `cid in link` *)
Definition link_touches (c : cid) (l : link) : bool := mem c (l_from l) || cid_eqb c (l_to l).
Definition entry_touches (c : cid) (e : entry) : bool := existsb (fun p => link_touches c (fst p)) (e_links e).
Definition entry_touches_any (cs : list cid) (e : entry) : bool := existsb (fun c => entry_touches c e) cs.

Definition set_tbl (d : dataset) (t : table) : dataset :=
  mkds (d_id d) (d_member d) (d_hub d) (d_n d) (d_own d) (d_coord d) (d_world d) (d_int d) (d_der d) (d_dinv d) t.

Definition disc (own : list cid) (links : list link) : table * bool :=
  match discover own links with Some t => (t, false) | None => ([], true) end.

(* LinkManager.update_externally_derivable_components *)
Definition recompute (s : state) : state :=
  let L := all_links s in
  mkstate (map (fun d => if d_member d then set_tbl d (fst (disc (d_own d) L)) else d) (s_data s))
          (s_ext s) (s_delay s)
          (s_err s || existsb (fun d => d_member d && snd (disc (d_own d) L)) (s_data s)).

(* DataCollection._sync_link_manager *)
Definition sync (s : state) : state := match s_delay s with O => recompute s | S _ => s end.

Definition set_ext (s : state) (ext : list entry) : state := mkstate (s_data s) ext (s_delay s) (s_err s).
Definition set_data (s : state) (ds : list dataset) : state := mkstate ds (s_ext s) (s_delay s) (s_err s).
Definition set_delay (s : state) (n : nat) : state := mkstate (s_data s) (s_ext s) n (s_err s).

Definition has_id (i : Z) (ext : list entry) : bool := existsb (fun e => e_id e =? i) ext.

(* LinkManager.add_link for one link: (new list, code); code 1 = AttributeError, list unchanged *)
Definition add_one (e : entry) (ext : list entry) : list entry * Z :=
  if e_coll e then
    (if has_id (e_id e) ext then (ext, 1) else (ext ++ [e], 0))
  else
    match e_inv e with
    | Some j => if has_id j ext then (ext, 0) else (ext ++ [e], 0)
    | None => (ext ++ [e], 0)
    end.

Fixpoint add_all (es : list entry) (ext : list entry) : list entry * Z :=
  match es with
  | [] => (ext, 0)
  | e :: r => let '(ext', code) := add_one e ext in
              if code =? 0 then add_all r ext' else (ext', code)
  end.

(* list.remove: first occurrence *)
Fixpoint remove_first (i : Z) (ext : list entry) : list entry :=
  match ext with
  | [] => []
  | e :: r => if e_id e =? i then r else e :: remove_first i r
  end.

Fixpoint find_ds (i : Z) (ds : list dataset) : option dataset :=
  match ds with
  | [] => None
  | d :: r => if d_id d =? i then Some d else find_ds i r
  end.
Fixpoint put_ds (d' : dataset) (ds : list dataset) : list dataset :=
  match ds with
  | [] => []
  | d :: r => if d_id d =? d_id d' then d' :: r else d :: put_ds d' r
  end.

Definition remove_cids (cs : list cid) (l : list cid) : list cid := filter (fun c => negb (mem c cs)) l.

(* Data.remove_component on each of cs: the attribute goes, and with it (_removed_derived_that_depend_on) every
   derived component computed from it; each removed attribute is announced by its own DataRemoveComponentMessage *)
Definition der_hit (cs : list cid) (l : link) : bool :=
  existsb (fun c => mem c (l_from l)) cs || mem (l_to l) cs.
Definition removed_cids (cs : list cid) (d : dataset) : list cid :=
  cs ++ map l_to (filter (der_hit cs) (d_der d)).
Definition keep_der (cs : list cid) (d : dataset) : list link :=
  filter (fun l => negb (der_hit cs l)) (d_der d).
(* the inverse of a derived component's link lives and dies with the link (it mentions the same two attributes) *)
Definition keep_dinv (cs : list cid) (d : dataset) : list link :=
  filter (fun l => negb (der_hit cs l)) (d_dinv d).

(* the hub handlers _component_removed / _data_removed: drop every external link that mentions one of cs,
   each through remove_link(link) whose default update_external=True recomputes even inside a delay block *)
Definition drop_links (cs : list cid) (s : state) : state :=
  let ext' := filter (fun e => negb (entry_touches_any cs e)) (s_ext s) in
  if (length ext' =? length (s_ext s))%nat then s else recompute (set_ext s ext').

Inductive op :=
| AddLink (e : entry) | RemoveLink (i : Z) | SetLinks (es : list entry)
| AddComponent (d : Z) (c : cid) | RemoveComponent (d : Z) (c : cid) | AddDerived (d : Z) (l : link) (og : option fn)
| AddData (d : Z) | RemoveData (d : Z) | SetCoordsNone (d : Z)
| DelayBegin | DelayEnd.

(* result codes: 0 done, 1 AttributeError, 2 ValueError, 3 nothing to do *)
Definition step (s : state) (o : op) : state * Z :=
  match o with
  | AddLink e =>
    let '(ext', code) := add_one e (s_ext s) in
    if (length ext' =? length (s_ext s))%nat then (s, code)
    else (sync (set_ext s ext'), code)                      (* update_external = not _disable_sync_link_manager *)
  | RemoveLink i =>
    if has_id i (s_ext s) then (sync (set_ext s (remove_first i (s_ext s))), 0) else (s, 2)
  | SetLinks es =>
    let '(ext', code) := add_all es [] in
    if code =? 0 then (sync (set_ext s ext'), 0) else (set_ext s ext', code)
  | AddComponent i c =>
    match find_ds i (s_data s) with
    | None => (s, 3)
    | Some d =>
      if mem c (comps d) || negb (fst c =? i) then (s, 3)
      else
        let d' := mkds (d_id d) (d_member d) (d_hub d) (d_n d) (d_own d ++ [c]) (d_coord d) (d_world d) (d_int d) (d_der d) (d_dinv d) (d_tbl d) in
        let s1 := set_data s (put_ds d' (s_data s)) in
        (* ComponentsChangedMessage -> _sync_link_manager, filtered on sender in dc._data *)
        (if d_hub d && d_member d then sync s1 else s1, 0)
    end
  | RemoveComponent i c =>
    match find_ds i (s_data s) with
    | None => (s, 3)
    | Some d =>
      if negb (mem c (comps d)) then (s, 3)
      else
        let d' := mkds (d_id d) (d_member d) (d_hub d) (d_n d) (remove_cids [c] (d_own d)) (d_coord d) (d_world d) (d_int d)
                       (keep_der [c] d) (keep_dinv [c] d) (d_tbl d) in
        let s1 := set_data s (put_ds d' (s_data s)) in
        if d_hub d then
          let s2 := drop_links (removed_cids [c] d) s1 in     (* one DataRemoveComponentMessage per removed attribute *)
          (if d_member d then sync s2 else s2, 0)              (* ComponentsChangedMessage *)
        else (s1, 0)
    end
  | AddDerived i l og =>
    (* Data.add_component_link for y = f(own attributes): y becomes a component, its link joins Data.links; when the link
       declares an inverse function (og = Some g, single input) its `.inverse` joins the links in force as well *)
    match find_ds i (s_data s) with
    | None => (s, 3)
    | Some d =>
      if mem (l_to l) (comps d) || negb (fst (l_to l) =? i)
         || match l_from l with [] => true | _ => false end
         || negb (forallb (fun f => mem f (d_own d)) (l_from l)) then (s, 3)
      else
        let d' := mkds (d_id d) (d_member d) (d_hub d) (d_n d) (d_own d) (d_coord d) (d_world d) (d_int d) (d_der d ++ [l])
                       (d_dinv d ++ inv_links l og) (d_tbl d) in
        let s1 := set_data s (put_ds d' (s_data s)) in
        (if d_hub d && d_member d then sync s1 else s1, 0)
    end
  | AddData i =>
    match find_ds i (s_data s) with
    | None => (s, 3)
    | Some d =>
      if d_member d then (s, 3)
      else
        let d' := mkds (d_id d) true true (d_n d) (d_own d) (d_coord d) (d_world d) (d_int d) (d_der d) (d_dinv d) (d_tbl d) in
        (sync (set_data s (put_ds d' (s_data s))), 0)
    end
  | RemoveData i =>
    match find_ds i (s_data s) with
    | None => (s, 3)
    | Some d =>
      if negb (d_member d) then (s, 3)
      else
        let d' := mkds (d_id d) false (d_hub d) (d_n d) (d_own d) (d_coord d) (d_world d) (d_int d) (d_der d) (d_dinv d) (d_tbl d) in
        (drop_links (comps d) (set_data s (put_ds d' (s_data s))), 0)     (* DataCollectionDeleteMessage: msg.data.components *)
    end
  | SetCoordsNone i =>
    match find_ds i (s_data s) with
    | None => (s, 3)
    | Some d =>
      match d_world d with
      | [] => (s, 3)
      | w =>
        (* _update_world_components: world components removed, pixel<->world links dropped (repaired code) *)
        let d' := mkds (d_id d) (d_member d) (d_hub d) (d_n d) (remove_cids w (d_own d)) (remove_cids w (d_coord d)) [] []
                       (keep_der w d) (keep_dinv w d) (d_tbl d) in
        let s1 := set_data s (put_ds d' (s_data s)) in
        if d_hub d then
          let s2 := drop_links (removed_cids w d) s1 in
          (if d_member d then sync s2 else s2, 0)
        else (s1, 0)
      end
    end
  | DelayBegin => (set_delay s (S (s_delay s)), 0)
  | DelayEnd =>
    match s_delay s with
    | O => (s, 3)
    | S k => (sync (set_delay s k), 0)
    end
  end.

Fixpoint run (s : state) (ops : list op) : state :=
  match ops with
  | [] => s
  | o :: r => run (fst (step s o)) r
  end.

(* ------------------------------------------------------------------ part 4: wire *)

Definition dec_cid (t : tree) : cid := (tag (kid 0 t), tag (kid 1 t)).
Definition dec_cids (t : tree) : list cid := map dec_cid (kids t).
Definition dec_fn (t : tree) : fn := mkfn (tag (kid 0 t)) (to_zs (kid 1 t)).
Definition dec_link (t : tree) : link := mklink (tag t) (dec_cids (kid 0 t)) (dec_cid (kid 1 t)) (dec_fn (kid 2 t)).
Definition dec_optfn (t : tree) : option fn :=
  match t with T 1 (f :: _) => Some (dec_fn f) | _ => None end.
Definition dec_sublink (t : tree) : link * option fn := (dec_link (kid 0 t), dec_optfn (kid 1 t)).
Definition dec_entry (t : tree) : entry :=
  mkent (tag t) (negb (tag (kid 0 t) =? 0))
        (match kid 1 t with T 1 (T j _ :: _) => Some j | _ => None end)
        (map dec_sublink (kids (kid 2 t))).
Definition dec_ds (t : tree) : dataset :=
  let m := negb (tag (kid 0 t) =? 0) in
  mkds (tag t) m m (tag (kid 1 t)) (dec_cids (kid 2 t)) (dec_cids (kid 3 t)) (dec_cids (kid 4 t))
       (map dec_link (kids (kid 5 t))) (map (fun p => fst (dec_sublink p)) (kids (kid 6 t)))
       (flat_map (fun p => inv_links (fst (dec_sublink p)) (snd (dec_sublink p))) (kids (kid 6 t))) [].
Definition dec_op (t : tree) : op :=
  match t with
  | T 1 (e :: _) => AddLink (dec_entry e)
  | T 2 (T i _ :: _) => RemoveLink i
  | T 3 (es :: _) => SetLinks (map dec_entry (kids es))
  | T 4 (T d _ :: c :: _) => AddComponent d (dec_cid c)
  | T 5 (T d _ :: c :: _) => RemoveComponent d (dec_cid c)
  | T 6 (T d _ :: _) => AddData d
  | T 7 (T d _ :: _) => RemoveData d
  | T 8 (T d _ :: _) => SetCoordsNone d
  | T 9 _ => DelayBegin
  | T 11 (T d _ :: p :: _) => AddDerived d (fst (dec_sublink p)) (snd (dec_sublink p))
  | _ => DelayEnd
  end.

Definition enc_cid (c : cid) : tree := T 0 [leaf (fst c); leaf (snd c)].

(* values: association list cid -> per-element vector *)
Definition vals := list (cid * list Z).
Fixpoint val_of (vs : vals) (c : cid) : list Z :=
  match vs with
  | [] => []
  | (k, v) :: r => if cid_eqb c k then v else val_of r c
  end.
Definition env_at (vs : vals) (i : nat) : cid -> Z := fun c => nth i (val_of vs c) 0.

Fixpoint table_depth (own : list cid) (t : table) (fuel : nat) (c : cid) : Z :=
  (* length of the chain actually stored: 1 + max over the chosen link's inputs; -1 when broken *)
  match fuel with
  | O => -1
  | S k =>
    if mem c own then 0
    else match lookup c t with
         | None => -1
         | Some (_, l) =>
           fold_left (fun acc f => let r := table_depth own t k f in
                                   if (acc <? 0) || (r <? 0) then -1 else Z.max acc (1 + r)) (l_from l) 1
         end
  end.

Definition enc_optvec (n : nat) (f : nat -> option Z) : tree :=
  match all_some (map f (seq 0 n)) with
  | Some v => T 1 [zs v]
  | None => T 0 []
  end.

Definition observe_ds (vs : vals) (universe : list cid) (sel : cid) (thr : Z) (d : dataset) : tree :=
  let n := Z.to_nat (d_n d) in
  let own := d_own d in
  let t := d_tbl d in
  T (d_id d)
    [ leaf (of_bool (d_member d));
      T 0 (map (fun kv => T 0 [enc_cid (fst kv); leaf (Z.of_nat (fst (snd kv))); leaf (l_id (snd (snd kv)));
                               leaf (table_depth own t (S (length t)) (fst kv))]) t);
      T 0 (map (fun c => enc_optvec n (fun i => read_ds d (env_at vs i) c)) universe);
      enc_optvec n (fun i => match select_ds d (env_at vs i) sel thr with
                             | Some b => Some (of_bool b) | None => None end) ].

Definition observe (vs : vals) (universe : list cid) (sel : cid) (thr : Z) (code : Z) (s : state) : tree :=
  T 0 [ leaf code;
        zs (map e_id (s_ext s));
        T 0 (map (observe_ds vs universe sel thr) (s_data s));
        leaf (of_bool (s_err s));
        leaf (Z.of_nat (s_delay s)) ].

Fixpoint run_obs (vs : vals) (universe : list cid) (sel : cid) (thr : Z) (s : state) (ops : list op) : list tree :=
  match ops with
  | [] => []
  | o :: r => let '(s', code) := step s o in observe vs universe sel thr code s' :: run_obs vs universe sel thr s' r
  end.

Definition enc_table (own : list cid) (t : table) : tree :=
  T 0 (map (fun kv => T 0 [enc_cid (fst kv); leaf (Z.of_nat (fst (snd kv))); leaf (l_id (snd (snd kv)))]) t).

(* ------------------------------------------------------------------ part 6: the translated functions at the model's types *)

(* a dataset as the translated functions see it: main_components, coordinate_components, and the links of its derived
   components (Data.derived_components lists their targets, get_component(c).link is the link that targets c) *)
Record gdata := mkgdata { g_main : list cid; g_coord : list cid; g_der : list link }.
Definition link_eqb (a b : link) : bool := l_id a =? l_id b.       (* `is` on link objects: l_id names the object *)
Definition no_link : link := mklink (-1) [] (-1, -1) (mkfn 0 []).
Definition g_component (d : gdata) (c : cid) : link :=
  match find (fun l => cid_eqb c (l_to l)) (g_der d) with Some l => l | None => no_link end.

(* accessible_links(cids, links) *)
Definition g_accessible (cids : list cid) (links : list link) : list link :=
  accessible_links cid link cid_eqb l_from cids links.

(* discover_links(data, links); [iter] is the order in which a Python set is iterated *)
Definition g_discover_with (iter : list cid -> list cid) (fuel : nat) (d : gdata) (links : list link)
  : result (list (cid * link)) :=
  discover_links cid link gdata cid_eqb l_from l_to g_main g_coord iter fuel d links.
Definition g_discover (d : gdata) (links : list link) : result (list (cid * link)) :=
  g_discover_with (fun s => s) (fuel_for links) d links.

(* find_dependents(data, link) *)
Definition g_find_dependents (fuel : nat) (d : gdata) (l : link) : result (list cid) :=
  find_dependents cid link link gdata cid_eqb link_eqb link_eqb l_from l_to (fun d => map l_to (g_der d)) g_component
                  (fun k => k) fuel d l.

(* the dict cid_links that discover_links returns, read off the hand model's table, and back (the depth column is
   not returned by the code and is not used by eval / read / select) *)
Definition links_of_table (t : table) : list (cid * link) := map (fun kv => (fst kv, snd (snd kv))) t.
Definition table_of_links (r : list (cid * link)) : table := map (fun kv => (fst kv, (0%nat, snd kv))) r.
(* an iteration order for Python sets: any enumeration with the same elements *)
Definition iter_ok (iter : list cid -> list cid) : Prop := forall s c, In c (iter s) <-> In c s.

(* the LinkManager methods, translated: entries of _external_links are named by their ids (Python object identity),
   `cid in link` is entry_touches on the entry the id names, ComponentID.parent is the dataset half of a cid *)
Definition pool_entry (pool : list entry) (i : Z) : entry :=
  match find (fun e => e_id e =? i) pool with Some e => e | None => mkent i false None [] end.
Definition pool_touches (pool : list entry) (i : Z) (c : cid) : bool := entry_touches c (pool_entry pool i).
Definition gevent := event cid link gdata.
(* LinkManager._component_removed(msg), msg.component_id = c *)
Definition g_component_removed (pool : list entry) (ext : list Z) (c : cid) : result (list Z * list (event cid link Z) * unit) :=
  lm_component_removed cid link Z Z cid Z.eqb (pool_touches pool) (fun m => m) ext [] c.
(* LinkManager._data_removed(msg), msg.data = dataset d whose .components are cs *)
Definition g_data_removed (pool : list entry) (ext : list Z) (d : Z) (cs : list cid) : result (list Z * list (event cid link Z) * unit) :=
  lm_data_removed cid link Z Z Z Z.eqb Z.eqb (fun _ => cs) (fun c : cid => fst c) (pool_touches pool) (fun m => m) ext [] d.
(* the loop of update_externally_derivable_components over the datasets dc, with self._links | self._inverse_links = L *)
Definition g_update (iter : list cid -> list cid) (fuel : nat) (L : list link) (dc : list gdata) : result (list Z * list gevent * unit) :=
  lm_update_loop cid link Z gdata cid_eqb l_from l_to g_main g_coord L iter fuel [] [] dc.
(* what the loop installs on dataset d when discover gives table t: cid -> DerivedComponent(d, link) *)
Definition installed (d : gdata) (t : table) : list (cid * (gdata * link)) := map (fun kv => (fst kv, (d, snd (snd kv)))) t.

(* a dataset of the manager model as the translated functions see it *)
Definition gdata_of (d : dataset) : gdata := mkgdata (d_own d) [] (d_der d).

(* ---- round 6: WHICH links are in force (`self._links | self._inverse_links`), translated, at the model's types.
   A ComponentLink object is the link together with the function it declares as its inverse (ComponentLink(..., inverse=g));
   `==`/hash on these objects is structural here (the model names an object by its content), which reflects equality. *)
Definition glink := (link * option fn)%type.
Fixpoint zs_eqb (a b : list Z) : bool :=
  match a, b with
  | [], [] => true
  | x :: a', y :: b' => (x =? y) && zs_eqb a' b'
  | _, _ => false
  end.
Fixpoint cids_eqb (a b : list cid) : bool :=
  match a, b with
  | [], [] => true
  | x :: a', y :: b' => cid_eqb x y && cids_eqb a' b'
  | _, _ => false
  end.
Definition fn_eqb (f g : fn) : bool := (f_const f =? f_const g) && zs_eqb (f_coefs f) (f_coefs g).
Definition link_seqb (a b : link) : bool :=
  (l_id a =? l_id b) && cids_eqb (l_from a) (l_from b) && cid_eqb (l_to a) (l_to b) && fn_eqb (l_fn a) (l_fn b).
Definition glink_eqb (a b : glink) : bool :=
  link_seqb (fst a) (fst b) &&
  match snd a, snd b with Some f, Some g => fn_eqb f g | None, None => true | _, _ => false end.
(* link.inverse: ComponentLink([to], from[0], using=inverse, inverse=using) when an inverse function is declared *)
Definition g_inverse (p : glink) : option glink :=
  match inv_links (fst p) (snd p) with i :: _ => Some (i, Some (l_fn (fst p))) | [] => None end.
(* the inverse function a derived-component link of dataset d declares: read off the stored `.inverse` object in d_dinv
   (same link name, the two attributes swapped) *)
Definition is_inverse_of (l i : link) : bool :=
  match l_from l with
  | [f] => cids_eqb (l_from i) [l_to l] && cid_eqb (l_to i) f && (l_id i =? l_id l)
  | _ => false
  end.
Definition der_inverse_fn (d : dataset) (l : link) : option fn :=
  match find (is_inverse_of l) (d_dinv d) with Some i => Some (l_fn i) | None => None end.
(* Data.links as link objects: coordinate links (no inverse declared), then the links of the derived components *)
Definition g_data_links (d : dataset) : list glink :=
  map (fun l => (l, None)) (d_int d) ++ map (fun l => (l, der_inverse_fn d l)) (d_der d).
(* an entry of _external_links that is not a LinkCollection is itself the link: its one sublink *)
Definition g_entry_link (e : entry) : glink := hd (no_link, None) (e_links e).
(* the translated `self._links | self._inverse_links` on a state of the manager model: data_collection = the member
   datasets, _external_links = s_ext; the links it contains, as the model's links (the object's inverse function dropped) *)
Definition g_links_in_force_objs (iterL : list glink -> list glink) (s : state) : list glink :=
  lm_links_in_force glink entry dataset glink_eqb g_data_links e_coll e_links g_entry_link g_inverse iterL
                    (Some (filter d_member (s_data s))) (s_ext s).
Definition g_links_in_force (iterL : list glink -> list glink) (s : state) : list link :=
  map fst (g_links_in_force_objs iterL s).
Definition iterL_ok (iterL : list glink -> list glink) : Prop := forall s x, In x (iterL s) <-> In x s.

Definition enc_event {D} (ev : event cid link D) : tree :=
  match ev with
  | EvUpdate _ _ _ => T 0 []
  | EvSet _ _ _ _ comps => T 1 (map (fun kv => T 0 [enc_cid (fst kv); leaf (l_id (snd (snd kv)))]) comps)
  end.
Definition enc_lm {D} (r : list Z * list (event cid link D) * unit) : tree :=
  T 0 [zs (fst (fst r)); T 0 (map enc_event (snd (fst r)))].

Definition enc_result {A} (enc : A -> tree) (r : result A) : tree :=
  match r with Ok a => T 1 [enc a] | Err e => err e end.

Definition run_case (t : tree) : tree :=
  match t with
  | T 3 [maint; coordt; linkst] =>
    (* generated discover_links *)
    enc_result (fun tb => T 0 (map (fun kv => T 0 [enc_cid (fst kv); leaf (l_id (snd kv))]) tb))
               (g_discover (mkgdata (dec_cids maint) (dec_cids coordt) []) (map dec_link (kids linkst)))
  | T 4 [cidst; linkst] =>
    (* generated accessible_links *)
    zs (map l_id (g_accessible (dec_cids cidst) (map dec_link (kids linkst))))
  | T 6 [poolt; extt; ct] =>
    enc_result enc_lm (g_component_removed (map dec_entry (kids poolt)) (to_zs extt) (dec_cid ct))
  | T 7 [poolt; extt; T dd _; cst] =>
    enc_result enc_lm (g_data_removed (map dec_entry (kids poolt)) (to_zs extt) dd (dec_cids cst))
  | T 8 [dct; linkst] =>
    let L := map dec_link (kids linkst) in
    enc_result enc_lm (g_update (fun s => s) (fuel_for L) L
                                (map (fun dt => mkgdata (dec_cids (kid 0 dt)) (dec_cids (kid 1 dt)) []) (kids dct)))
  | T 5 [dert; lt] =>
    (* generated find_dependents; fuel: every iteration but the last marks one more derived component as visited *)
    let der := map dec_link (kids dert) in
    enc_result (fun cs => T 0 (map enc_cid cs))
               (g_find_dependents (S (S (length der))) (mkgdata [] [] der) (dec_link lt))
  | T 1 [dss; vst; selt; opst] =>
    (* a history: datasets, values, the selection, the operations; DataCollection(initial members) syncs once *)
    let vs := map (fun kv => (dec_cid (kid 0 kv), to_zs (kid 1 kv))) (kids vst) in
    let s0 := recompute (mkstate (map dec_ds (kids dss)) [] 0%nat false) in
    let sel := dec_cid (kid 0 selt) in
    let thr := tag (kid 1 selt) in
    let u := map fst vs in
    T 0 (observe vs u sel thr 0 s0 :: run_obs vs u sel thr s0 (map dec_op (kids opst)))
  | T 2 [ownt; linkst] =>
    (* discover_links(data, links) with the links enumerated in the given order *)
    match discover (dec_cids ownt) (map dec_link (kids linkst)) with
    | Some tb => T 1 [enc_table (dec_cids ownt) tb]
    | None => err 99
    end
  | _ => err (-2)
  end.

(* ------------------------------------------------------------------ part 5: specification predicates
   (definitions only; used by the statements in Property.v) *)

(* [Derivable own links c n]: attribute c can be computed from the own attributes by a tree of links of height <= n *)
Inductive Derivable (own : list cid) (links : list link) : cid -> nat -> Prop :=
| D_own : forall c n, In c own -> Derivable own links c n
| D_link : forall l n, In l links ->
           (forall f, In f (l_from l) -> Derivable own links f n) ->
           Derivable own links (l_to l) (S n).

(* the same tree carrying the value it computes; vf gives the value used for each input attribute *)
Inductive DerivVal (own : list cid) (links : list link) (env : cid -> Z) : cid -> nat -> Z -> Prop :=
| DV_own : forall c n, In c own -> DerivVal own links env c n (env c)
| DV_link : forall l n (vf : cid -> Z), In l links ->
            (forall f, In f (l_from l) -> DerivVal own links env f n (vf f)) ->
            DerivVal own links env (l_to l) (S n) (apply_fn (l_fn l) (map vf (l_from l))).

(* manager: well-formed states, valid histories, freshness *)
Definition ds_wf (d : dataset) : Prop :=
  (forall c, In c (comps d) -> fst c = d_id d) /\
  incl (d_coord d) (d_own d) /\
  (forall l, In l (d_int d) -> l_from l <> [] /\ incl (l_from l) (d_coord d) /\ In (l_to l) (d_coord d)) /\
  ((forall l, In l (d_der d) -> l_from l <> [] /\ incl (l_from l) (d_own d)) /\
   (* every stored inverse is the reversal of one of the dataset's single-input derived-component links *)
   (forall l, In l (d_dinv d) -> exists l', In l' (d_der d) /\ l_from l' = [l_to l] /\ l_from l = [l_to l'])) /\
  (d_member d = true -> d_hub d = true).

(* c is an attribute (main, coordinate or derived) of a dataset that is in the collection *)
Definition live (s : state) (c : cid) : Prop :=
  exists d, In d (s_data s) /\ d_member d = true /\ In c (comps d).

Definition link_cids (l : link) : list cid := l_to l :: l_from l.

Definition entry_live (s : state) (e : entry) : Prop :=
  forall p c, In p (e_links e) -> In c (link_cids (fst p)) -> live s c.

Definition wf (s : state) : Prop :=
  NoDup (map d_id (s_data s)) /\
  (forall d, In d (s_data s) -> ds_wf d) /\
  (forall e, In e (s_ext s) -> entry_live s e) /\
  s_err s = false.

(* every dataset of the collection holds exactly the table discover computes from the links in force now *)
Definition fresh (s : state) : Prop :=
  forall d, In d (s_data s) -> d_member d = true -> discover (d_own d) (all_links s) = Some (d_tbl d).

(* what a history may do: links are added over live attributes; coordinate components are not removed one by
   one; set_links is not given the same collection twice (the code raises half-way there) *)
Definition valid_op (s : state) (o : op) : Prop :=
  match o with
  | AddLink e => entry_live s e
  | SetLinks es => (forall e, In e es -> entry_live s e) /\ snd (add_all es []) = 0
  | RemoveComponent i c => forall d, find_ds i (s_data s) = Some d -> ~ In c (d_coord d)
  | _ => True
  end.

Fixpoint valid_history (s : state) (ops : list op) : Prop :=
  match ops with
  | [] => True
  | o :: r => valid_op s o /\ valid_history (fst (step s o)) r
  end.

(* ---- round 6: the invariant that pairs d_dinv with d_der, the shape of plain entries, and what "the same derivations" means *)

(* every stored inverse is the `.inverse` object of one of the dataset's derived-component links (same name, the two attributes
   swapped), and no two stored inverses start from the same attribute (a derived attribute has one defining link) *)
Definition dinv_paired (d : dataset) : Prop :=
  (forall i, In i (d_dinv d) ->
     exists l, In l (d_der d) /\ l_from l = [l_to i] /\ l_from i = [l_to l] /\ l_id i = l_id l) /\
  (forall i i', In i (d_dinv d) -> In i' (d_dinv d) -> l_from i = l_from i' -> i = i').
(* an entry that is not a LinkCollection is one ComponentLink *)
Definition entry_shaped (e : entry) : Prop := e_coll e = false -> exists p, e_links e = [p].
Definition links_paired (s : state) : Prop :=
  (forall d, In d (s_data s) -> dinv_paired d) /\ (forall e, In e (s_ext s) -> entry_shaped e).
Definition shaped_op (o : op) : Prop :=
  match o with
  | AddLink e => entry_shaped e
  | SetLinks es => forall e, In e es -> entry_shaped e
  | _ => True
  end.

(* table t holds the same derivations as table t0, up to the choice among links of equal merit: same keys, same depth
   for every attribute, and every entry of t is a valid minimal derivation step over [links] *)
Definition same_derivations (own : list cid) (links : list link) (t0 t : table) : Prop :=
  (forall c, lookup c t0 <> None <-> lookup c t <> None) /\
  (forall c, depth_of own t0 c = depth_of own t c) /\
  (forall c k l, lookup c t = Some (k, l) ->
     In l links /\ l_to l = c /\ ~ In c own /\
     (Derivable own links c k /\ forall n, Derivable own links c n -> (k <= n)%nat) /\
     forall f, In f (l_from l) -> exists df, depth_of own t f = Some df /\ (df < k)%nat).
