(* C02 — non-vacuity examples and sanity evaluations. *)
From Coq Require Import ZArith List Bool String Lia.
Import ListNotations.
From GV Require Import Common.Wire gen.Gen_tables C12.Model gen.Gen_codecs C02.CodecModel gen.Gen_methodcodecs C02.MethodCodecModel C02.Model C02.Lemmas.
Open Scope Z_scope.

(* ---- naming: labels that collide with disambiguated names.  "a" = [97], "a_0" = [97;95;48] *)
Definition la : name := [97].
Definition la0 : name := [97; 95; 48].
Definition ops1 : list (Z * bool * name) :=
  [(0, true, la); (1, false, la); (2, false, la0); (3, false, la); (1, false, la); (4, false, la)].
(* main -> "__main__", then a, a_0, a_1 (a_0 is taken by the object labelled a_0), object 1 keeps its name, then a_2 *)
Example naming_run : map snd (run_reg suffix [] ops1) = [main_name; la; la0; [97; 95; 49]; [97; 95; 50]].
Proof. vm_compute. reflexivity. Qed.
Example digits_12 : digits 12 = [49; 50].
Proof. vm_compute. reflexivity. Qed.

(* ---- graph: a cycle (0 -> 1 -> 0), sharing (2 referenced twice), an unreachable node (9) and a list field *)
Definition g1 : heap :=
  [(10, mkNode 100 [FRef 11; FRef 12; FLit 5]);
   (11, mkNode 1 [FList [FRef 12; FRef 10]]);
   (12, mkNode 2 []);
   (99, mkNode 3 [FRef 10])].
Example g1_closed : heap_closed g1.
Proof.
  intros a n H k Hk. unfold g1 in H. simpl in H.
  repeat match type of H with
         | (if ?c then _ else _) = _ => destruct c eqn:?; [inversion H; subst; clear H|]
         end; try discriminate;
  simpl in Hk; repeat (destruct Hk as [Hk|Hk]; [subst; eexists; reflexivity|]); try contradiction.
Qed.
Example g1_discover : discover g1 10 = [10; 11; 12].
Proof. vm_compute. reflexivity. Qed.
Example g1_save : save id_codec g1 10 =
  [mkNode 100 [FRef 1; FRef 2; FLit 5]; mkNode 1 [FList [FRef 2; FRef 0]]; mkNode 2 []].
Proof. vm_compute. reflexivity. Qed.
Example g1_idem : save id_codec (load id_codec (save id_codec g1 10)) 0 = save id_codec g1 10.
Proof. vm_compute. reflexivity. Qed.
(* the hypotheses of graph_roundtrip are satisfiable with a non-trivial graph and codec *)
Example g1_roundtrip_instance : List.length (load id_codec (save id_codec g1 10)) = 3%nat.
Proof.
  pose proof (Lemmas.graph_roundtrip id_codec id_codec (fun c fs => eq_refl) g1 10 g1_closed
                (ex_intro _ _ eq_refl)) as H.
  destruct H as [_ [_ [_ [_ [_ [L _]]]]]]. rewrite L. vm_compute. reflexivity.
Qed.
(* operational loader: the cycle 0 -> 1 -> 0 loads when entered through the two-phase node 0 ... *)
Example op_load_ok : obj_load (fun c => 100 <=? c) 20 (save id_codec g1 10) [] [] 0 = Some [0; 2; 1].
Proof. vm_compute. reflexivity. Qed.
(* ... and is a "Circular Reference" when both nodes of the cycle have eager loaders *)
Example op_load_circular :
  obj_load (fun c => 100 <=? c) 20 [mkNode 1 [FRef 1]; mkNode 1 [FRef 0]] [] [] 0 = None.
Proof. vm_compute. reflexivity. Qed.

(* ---- tables: the scope of no_silent_fallthrough is not empty, and the exempt classes are in the table *)
Example scope_size : (10 <= List.length (filter in_scope classes))%nat.
Proof. vm_compute. lia. Qed.
Example exempt_in_table : forallb (fun s => existsb (fun c => String.eqb (name_of (c_id c)) s) classes) exempt_fallthrough = true.
Proof. vm_compute. reflexivity. Qed.
Eval vm_compute in (List.length (filter in_scope classes)).
Eval vm_compute in (map (fun c => name_of (c_id c)) (filter (fun c => in_scope c && negb (pair_ok c)) classes)).

(* ---- field-level codec table: non-vacuity.  The table has rows; the by-value record of a CategoricalComponent carries its
   category list unconditionally (written on the by-value path, value not depending on a test); a loader path reads it. *)
Local Open Scope string_scope.
Definition cid_of (s : string) : Z := match find (fun p => String.eqb (snd p) s) cnames with Some p => fst p | None => -1 end.
Example codec_tables_nonempty : ((40 <=? Z.of_nat (List.length saver_codecs)) && (40 <=? Z.of_nat (List.length loader_codecs)))%Z = true.
Proof. vm_compute. reflexivity. Qed.
Example codec_categorical_categories :
  codec_query (cid_of "glue.core.component.CategoricalComponent") 1 (cid_of "categories") = [0; 1; 0].
Proof. vm_compute. reflexivity. Qed.
Example codec_categorical_by_value_path :
  existsb (fun sc => Z.eqb (sc_cls sc) (cid_of "glue.core.component.CategoricalComponent") &&
     existsb (fun p => memZ (cid_of "categories") (spath_keys p) && memZ (cid_of "categorical_data") (spath_keys p)
                       && negb (memZ (cid_of "log") (spath_keys p))) (sc_paths sc)) saver_codecs = true.
Proof. vm_compute. reflexivity. Qed.
Example codec_categorical_loader_reads :
  existsb (fun lc => Z.eqb (lc_cls lc) (cid_of "glue.core.component.CategoricalComponent") &&
     existsb (fun b => memZ (cid_of "categories") (lp_reads b) && memZ (cid_of "log") (lp_absent b)
                       && match lp_ctor b with Some args => existsb (fun a => Z.eqb (fst a) (cid_of "categories") && snd a) args | None => false end)
             (lc_paths lc)) loader_codecs = true.
Proof. vm_compute. reflexivity. Qed.
(* a compatible (saver path, loader path) pair with reads exists, so codec_reads_written is not vacuous *)
Example codec_reads_nonvacuous :
  existsb (fun sc => existsb (fun lc => same_codec sc lc && existsb (fun p => existsb (fun b =>
      negb (sp_dynamic p) && negb (lp_dynamic b) && compatible p b && (3 <=? Z.of_nat (List.length (lp_reads b)))%Z) (lc_paths lc)) (sc_paths sc))
    loader_codecs) saver_codecs = true.
Proof. vm_compute. reflexivity. Qed.

(* ---- method pairs: the table is not empty; VertexROIBase.__gluestate__ (PolygonalROI, Path) stores vx and vy computed from the
   attributes vx / vy with no transformation outside the lossless list; an entry with a named transformation exists and is listed;
   at least 30 (saver, loader) pairs are checked *)
Example method_table_nonempty : (30 <=? List.length method_savers)%nat = true /\ (30 <=? List.length method_loaders)%nat = true /\ (30 <=? List.length method_pairs)%nat = true.
Proof. vm_compute. repeat split. Qed.

Definition key_is_identity_of (key att : string) (k : mkey) : bool :=
  String.eqb (mk_key k) key && match mk_sources k, mk_lossy k with [a], [] => String.eqb a att | _, _ => false end.

Example vertex_roi_saver_is_identity :
  existsb (fun sv => String.eqb (ms_cls sv) "glue.core.roi.VertexROIBase" &&
     forallb (fun p => existsb (key_is_identity_of "vx" "vx") (msp_keys p) && existsb (key_is_identity_of "vy" "vy") (msp_keys p)) (ms_paths sv)
     && negb (match ms_paths sv with [] => true | _ => false end)) method_savers = true.
Proof. vm_compute. reflexivity. Qed.

Example method_named_transformation_exists :
  existsb (fun sv => existsb (fun p => existsb (fun k => negb (match mk_lossy k with [] => true | _ => false end)) (msp_keys p)) (ms_paths sv)) method_savers = true.
Proof. vm_compute. reflexivity. Qed.
