From Coq Require Import ZArith ExtrOcamlBasic.
From GV Require Import Common.Wire C02.Model.
Extraction "c02_model.ml" run_case Z.add Z.mul Z.div_eucl Z.opp.
