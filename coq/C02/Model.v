(* C02 — executable model (definitions only).
   1. naming: GlueSerializer.id / _label / _disambiguate as a registry state machine over names (strings = lists of character codes);
   2. dispatch over the regenerated class table (C12.Model.saver_of / loader_of) and the table predicates of no_silent_fallthrough;
   3. graph codec: an abstract object graph (nodes = class + fields; fields = literal | reference | list), save = name every
      reachable node in registration order and emit records with references replaced by names, load = the records read back
      as a graph whose node ids are the names; plus the operational memoised two-phase loader (executable, tied by correspondence).
   [run_case] is the wire entry point. *)
From Coq Require Import ZArith List Bool.
Import ListNotations.
From GV Require Import Common.Wire gen.Gen_tables C12.Model gen.Gen_codecs C02.CodecModel.
Open Scope Z_scope.

(* ================================================================= 1. naming *)

Definition name := list Z.

Fixpoint name_eqb (a b : name) : bool :=
  match a, b with
  | [], [] => true
  | x :: a', y :: b' => (x =? y) && name_eqb a' b'
  | _, _ => false
  end.

Definition mem_name (n : name) (l : list name) : bool := existsb (name_eqb n) l.

(* "%i" % i : decimal digits, most significant first *)
Fixpoint digits_fuel (fuel : nat) (i : Z) : list Z :=
  match fuel with
  | O => [48 + i]
  | S f => if i <? 10 then [48 + i] else digits_fuel f (i / 10) ++ [48 + i mod 10]
  end.
Definition digits (i : nat) : list Z := digits_fuel (S i) (Z.of_nat i).

(* "%s_%i" % (base, i) *)
Definition suffix (base : name) (i : nat) : name := base ++ [95] ++ digits i.

Definition main_name : name := [95; 95; 109; 97; 105; 110; 95; 95].      (* "__main__" *)

Definition registry := list (Z * name).        (* (object id, name) in registration order: _names and _objs together *)
Definition names_of (r : registry) : list name := map snd r.

Section Naming.
  Variable sfx : name -> nat -> name.

  (* for i in count(0): newname = sfx base i; if newname not in self._objs: return newname *)
  Fixpoint first_free (used : list name) (base : name) (i fuel : nat) : option name :=
    match fuel with
    | O => None
    | S f => let c := sfx base i in
             if mem_name c used then first_free used base (S i) f else Some c
    end.

  Definition disambiguate (used : list name) (base : name) : option name :=
    if mem_name base used then first_free used base 0 (S (List.length used)) else Some base.

  Fixpoint name_for (r : registry) (oid : Z) : option name :=
    match r with
    | [] => None
    | (o, n) :: r' => if o =? oid then Some n else name_for r' oid
    end.

  (* GlueSerializer.id(obj) for a non-literal object: (registry, Some name) or (registry unchanged, None) when the
     assertion `name not in self._objs` would fail / the search runs out of fuel *)
  Definition register (r : registry) (oid : Z) (is_main : bool) (base : name) : registry * option name :=
    match name_for r oid with
    | Some n => (r, Some n)
    | None =>
        match (if is_main then Some main_name else disambiguate (names_of r) base) with
        | Some n => if mem_name n (names_of r) then (r, None) else (r ++ [(oid, n)], Some n)
        | None => (r, None)
        end
    end.

  Fixpoint run_reg (r : registry) (ops : list (Z * bool * name)) : registry :=
    match ops with
    | [] => r
    | (oid, m, base) :: ops' => run_reg (fst (register r oid m base)) ops'
    end.
End Naming.

(* ================================================================= 2. table predicates *)

Fixpoint zlist_eqb (a b : list Z) : bool :=
  match a, b with
  | [], [] => true
  | x :: a', y :: b' => (x =? y) && zlist_eqb a' b'
  | _, _ => false
  end.

Definition is_nil {A} (l : list A) : bool := match l with [] => true | _ => false end.

(* the saver/loader found for class c belongs to c itself or to an ancestor with the same instance-state attributes *)
Definition provider_ok (c : cls_row) (p : Z) : bool :=
  (p =? c_id c) ||
  match find_cls p with Some pc => zlist_eqb (c_attrs pc) (c_attrs c) | None => false end.

Definition pair_ok (c : cls_row) : bool :=
  match saver_of c with
  | Some (Meth p) =>
      provider_ok c p &&
      match loader_of c 1 with Some (Meth q) => (q =? p) || (q =? c_id c) | _ => false end
  | Some (Reg t v) =>
      (saver_shape t v =? 1)                       (* the registered saver only raises: a loud failure *)
      || (provider_ok c t &&
          match loader_of c v with Some (Reg t' v') => (t' =? t) && (v' =? v) | _ => false end)
  | None => true                                   (* no saver at all: GlueSerializeError at save time *)
  end.

(* concrete classes of this package in the families SubsetState, Roi, link helpers, ComponentLink, Coordinates,
   Component that carry instance state *)
Definition in_scope (c : cls_row) : bool :=
  negb (c_abstract c) && c_inpkg c && (c_family c <? 6) && negb (is_nil (c_attrs c)).

(* the generic cls(...) call made by the __setgluestate__ that c uses is accepted by c.__init__ *)
Definition ctor_ok (c : cls_row) : bool :=
  match c_call c with
  | Some (npos, kws) =>
      ((c_init_npos c <? 0) || (npos <=? c_init_npos c)) &&
      forallb (fun k => c_init_varkw c || zmem k (c_init_kws c)) kws
  | None => true
  end.

(* ================================================================= 3. graph codec *)

Inductive field := FLit (z : Z) | FRef (a : Z) | FList (l : list field).
Record node := mkNode { n_cls : Z; n_fields : list field }.
Definition heap := list (Z * node).          (* object id -> node *)

Fixpoint hfind (a : Z) (h : heap) : option node :=
  match h with
  | [] => None
  | (b, n) :: h' => if b =? a then Some n else hfind a h'
  end.

(* references of a field, depth first, left to right: the order in which context.id() is called *)
Fixpoint refs_field (f : field) : list Z :=
  match f with
  | FLit _ => []
  | FRef a => [a]
  | FList l => flat_map refs_field l
  end.
Definition refs (n : node) : list Z := flat_map refs_field (n_fields n).

Fixpoint map_field (rho : Z -> Z) (f : field) : field :=
  match f with
  | FLit z => FLit z
  | FRef a => FRef (rho a)
  | FList l => FList (map (map_field rho) l)
  end.
Definition map_node (rho : Z -> Z) (n : node) : node := mkNode (n_cls n) (map (map_field rho) (n_fields n)).

Definition add_new (r : list Z) (c : Z) : list Z := if zmem c r then r else r ++ [c].

(* do_all: objects are serialised in registration order; serialising one registers the objects it refers to *)
Fixpoint disc (fuel : nat) (h : heap) (reg : list Z) (i : nat) : list Z :=
  match fuel with
  | O => reg
  | S f => match nth_error reg i with
           | None => reg
           | Some a => let ks := match hfind a h with Some n => refs n | None => [] end in
                       disc f h (fold_left add_new ks reg) (S i)
           end
  end.

Definition discover (h : heap) (root : Z) : list Z := disc (S (List.length h)) h [root] 0.

Fixpoint index_of (a : Z) (l : list Z) : Z :=
  match l with
  | [] => 0
  | b :: l' => if b =? a then 0 else 1 + index_of a l'
  end.

Section Codec.
  (* per-class field codec: what __gluestate__ writes / __setgluestate__ reads for the fields of one class *)
  Variable enc dec : Z -> list field -> list field.

  Definition record_of (reg : list Z) (n : node) : node :=
    mkNode (n_cls n) (enc (n_cls n) (map (map_field (fun a => index_of a reg)) (n_fields n))).

  Definition save (h : heap) (root : Z) : list node :=
    let reg := discover h root in
    map (fun a => match hfind a h with Some n => record_of reg n | None => mkNode (-1) [] end) reg.

  (* the records read back: object i is built from record i *)
  Fixpoint load_from (i : Z) (recs : list node) : heap :=
    match recs with
    | [] => []
    | r :: recs' => (i, mkNode (n_cls r) (dec (n_cls r) (n_fields r))) :: load_from (i + 1) recs'
    end.
  Definition load (recs : list node) : heap := load_from 0 recs.
End Codec.

Definition id_codec (c : Z) (fs : list field) : list field := fs.

(* ---- the operational loader: GlueUnSerializer.object with the memo (_objs), the working set and two-phase (generator)
        loaders.  lazy c = the loader of class c yields the object before loading its references.
        Result: Some (order in which objects were completed) or None = "Circular Reference detected". *)
Section Operational.
  Variable lazy : Z -> bool.

  Fixpoint obj_load (fuel : nat) (recs : list node) (done working : list Z) (a : Z) : option (list Z) :=
    match fuel with
    | O => None
    | S f =>
        if zmem a done then Some done
        else if zmem a working then None
        else match nth_error recs (Z.to_nat a) with
             | None => None
             | Some n =>
                 let fix go (ks : list Z) (done : list Z) (working : list Z) : option (list Z) :=
                     match ks with
                     | [] => Some done
                     | k :: ks' => match obj_load f recs done working k with
                                   | Some d' => go ks' d' working
                                   | None => None
                                   end
                     end in
                 if lazy (n_cls n)
                 then go (refs n) (done ++ [a]) working            (* registered before its references are loaded *)
                 else match go (refs n) done (a :: working) with   (* references first, while `a` is being worked on *)
                      | Some d' => Some (if zmem a d' then d' else d' ++ [a])
                      | None => None
                      end
             end
    end.
End Operational.

(* ================================================================= wire *)

Fixpoint dec_field (t : tree) : field :=
  match t with
  | T 0 [T z _] => FLit z
  | T 1 [T a _] => FRef a
  | T 2 l => FList (map dec_field l)
  | _ => FLit (-999)
  end.
Definition dec_node (t : tree) : Z * node :=
  match t with
  | T a (T c _ :: fs) => (a, mkNode c (map dec_field fs))
  | _ => (-1, mkNode (-1) [])
  end.
Fixpoint enc_field (f : field) : tree :=
  match f with
  | FLit z => T 0 [leaf z]
  | FRef a => T 1 [leaf a]
  | FList l => T 2 (map enc_field l)
  end.
Definition enc_node (a : Z) (n : node) : tree := T a (leaf (n_cls n) :: map enc_field (n_fields n)).

Definition dec_regop (t : tree) : Z * bool * name :=
  match t with
  | T oid (T m _ :: T _ cs :: _) => (oid, negb (m =? 0), map tag cs)
  | _ => (-1, false, [])
  end.

Definition enc_registry (r : registry) : tree := T 0 (map (fun '(o, n) => T o [zs n]) r).

Definition run_case (t : tree) : tree :=
  match t with
  (* naming: a sequence of id() calls *)
  | T 1 ops => enc_registry (run_reg suffix [] (map dec_regop ops))
  (* graph: registration order and records *)
  | T 2 (T root _ :: nodes) =>
      let h := map dec_node nodes in
      T 0 [zs (discover h root);
           T 0 (map (fun '(i, n) => enc_node i n) (load id_codec (save id_codec h root)))]
  (* operational load of records (class >= 100 = two-phase loader) from record 0 *)
  | T 3 nodes =>
      let recs := map (fun t => snd (dec_node t)) nodes in
      match obj_load (fun c => 100 <=? c) (S (List.length recs * S (List.length recs))) recs [] [] 0 with
      | Some d => T 1 [zs d]
      | None => err 4
      end
  (* table predicates for one class *)
  | T 4 [T c _] => match find_cls c with
                   | Some r => zs [of_bool (in_scope r); of_bool (pair_ok r); of_bool (ctor_ok r)]
                   | None => err (-3)
                   end
  (* field-level codec table: for (class, version, key): written on every saver path? on some path? value depends on a test? *)
  | T 5 [T c _; T v _; T k _] => zs (codec_query c v k)
  | _ => err (-2)
  end.
