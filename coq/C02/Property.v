(* C02 — statements only.  Every theorem is proved in Lemmas1.v / Lemmas2.v / Lemmas.v. *)
From Coq Require Import ZArith List Bool String.
Import ListNotations.
From GV Require Import Common.Wire gen.Gen_tables C12.Model gen.Gen_codecs C02.CodecModel gen.Gen_methodcodecs C02.MethodCodecModel C02.Model C02.Lemmas.
Open Scope Z_scope.

(* the object <-> name map built by GlueSerializer.id is a bijection for every sequence of registrations, never renames,
   and naming never fails (an unused disambiguated name is always found) *)
Theorem names_injective : forall ops : list (Z * bool * name),
  let r := run_reg suffix [] ops in
  NoDup (map fst r) /\ NoDup (map snd r)
  /\ (forall pre post, ops = pre ++ post -> exists ext, r = run_reg suffix [] pre ++ ext)
  /\ (forall oid base, exists n, snd (register suffix r oid false base) = Some n).
Proof. exact Lemmas.names_injective. Qed.
Print Assumptions names_injective.

(* Full statement, false of the current class table:  forall c, In c classes -> in_scope c = true -> pair_ok c = true. *)
Theorem no_silent_fallthrough_refuted : exists c, In c classes /\ in_scope c = true /\ pair_ok c = false.
Proof. exact Lemmas.no_silent_fallthrough_refuted. Qed.
Print Assumptions no_silent_fallthrough_refuted.

Theorem no_silent_fallthrough_partial : forall c, In c classes -> in_scope c = true ->
  ~ In (name_of (c_id c))
       ["glue.plugins.wcs_autolinking.wcs_autolinking.OffsetLink"%string;
        "glue.plugins.wcs_autolinking.wcs_autolinking.AffineLink"%string] ->
  pair_ok c = true.
Proof. exact Lemmas.no_silent_fallthrough_partial. Qed.
Print Assumptions no_silent_fallthrough_partial.

Theorem loader_call_accepted : forall c, In c classes -> c_abstract c = false -> c_inpkg c = true -> c_family c < 6 ->
  ctor_ok c = true.
Proof. exact Lemmas.loader_call_accepted. Qed.
Print Assumptions loader_call_accepted.

Theorem graph_roundtrip : forall (enc dec : Z -> list field -> list field),
  (forall c fs, dec c (enc c fs) = fs) ->
  forall (h : heap) (root : Z), heap_closed h -> (exists n, hfind root h = Some n) ->
  let R := discover h root in
  let rho := fun a => index_of a R in
  let h' := load dec (save enc h root) in
  NoDup R /\ rho root = 0
  /\ (forall a b, In a R -> In b R -> rho a = rho b -> a = b)
  /\ (forall a, In a R -> 0 <= rho a < Z.of_nat (List.length R))
  /\ (forall a n, In a R -> hfind a h = Some n ->
        hfind (rho a) h' = Some (map_node rho n) /\ (forall k, In k (refs n) -> In k R))
  /\ List.length h' = List.length R
  /\ save enc h' 0 = save enc h root.
Proof. exact Lemmas.graph_roundtrip. Qed.
Print Assumptions graph_roundtrip.

(* ---- field-level table of the registered saver / loader functions (gen/Gen_codecs.v, regenerated from the source by `ast`):
   saver paths with the keys they write, loader paths with the keys they test and read.  The named lists
   (legit_unwritten_reads, dynamic_classes, legit_value_tests, legit_conditional_keys, legit_unfed_params) are in CodecModel.v,
   each entry with its reason. *)

(* every key a loader path reads without testing for it is written by every saver path whose record can reach that path *)
Theorem codec_reads_written : forall sc lc p b k, In sc saver_codecs -> In lc loader_codecs ->
  sc_cls sc = lc_cls lc -> sc_ver sc = lc_ver lc -> In p (sc_paths sc) -> In b (lc_paths lc) ->
  sp_dynamic p = false -> lp_dynamic b = false -> compatible p b = true -> In k (lp_reads b) ->
  In k (spath_keys p) \/ In k framework_keys \/ In (cname (sc_cls sc), cname k) legit_unwritten_reads.
Proof. exact Lemmas.codec_reads_written. Qed.
Print Assumptions codec_reads_written.

Theorem codec_dynamic_listed : forall sc lc p b, In sc saver_codecs -> In lc loader_codecs ->
  sc_cls sc = lc_cls lc -> sc_ver sc = lc_ver lc -> In p (sc_paths sc) -> In b (lc_paths lc) ->
  sp_dynamic p = true \/ lp_dynamic b = true -> In (cname (sc_cls sc)) dynamic_classes.
Proof. exact Lemmas.codec_dynamic_listed. Qed.
Print Assumptions codec_dynamic_listed.

(* every record a saver can return is accepted by some path of the loader registered for the same class and version *)
Theorem codec_every_record_loadable : forall sc p, In sc saver_codecs -> In p (sc_paths sc) -> ~ In (sc_cls sc) codec_write_only ->
  exists lc b, In lc loader_codecs /\ lc_cls lc = sc_cls sc /\ lc_ver lc = sc_ver sc /\ In b (lc_paths lc)
               /\ (sp_dynamic p = true \/ compatible p b = true).
Proof. exact Lemmas.codec_every_record_loadable. Qed.
Print Assumptions codec_every_record_loadable.

(* no stored value depends on a test (conditional expression, comparison, a local bound or mutated under a condition), except the named ones *)
Theorem codec_values_unconditional : forall sc p k, In sc saver_codecs -> In p (sc_paths sc) -> In (k, true) (sp_keys p) ->
  In (cname (sc_cls sc), cname k) legit_value_tests.
Proof. exact Lemmas.codec_values_unconditional. Qed.
Print Assumptions codec_values_unconditional.

(* a key written on one path of a saver is written on every path of it, except the named ones, and a named one is written
   exactly on the paths singled out by its discriminating key (polarity true: where that key is written; false: where it is not) *)
Theorem codec_conditional_keys_listed : forall sc p q k, In sc saver_codecs -> In p (sc_paths sc) -> In q (sc_paths sc) ->
  In k (spath_keys p) -> ~ In k (spath_keys q) ->
  exists d pol, In (cname (sc_cls sc), cname k, d, pol) legit_conditional_keys
    /\ forall r, In r (sc_paths sc) -> memZ k (spath_keys r) = Bool.eqb (writes_named d r) pol.
Proof. exact Lemmas.codec_conditional_keys_listed. Qed.
Print Assumptions codec_conditional_keys_listed.

(* when a loader path builds the object by calling the class, every __init__ parameter gets an argument computed from the record, except the named ones *)
Theorem codec_ctor_fed : forall lc b args prm, In lc loader_codecs -> In b (lc_paths lc) -> lp_ctor b = Some args ->
  In (prm, false) args -> In (cname (lc_cls lc), cname prm) legit_unfed_params.
Proof. exact Lemmas.codec_ctor_fed. Qed.
Print Assumptions codec_ctor_fed.

(* ---- the __gluestate__ / __setgluestate__ method pairs of every class of the class table (gen/Gen_methodcodecs.v) ---- *)

(* every value stored by every __gluestate__ is an image of instance state under lossless steps only (attribute access, np.asarray,
   .tolist(), .items(), list / tuple / dict / str / float / int, displays, comprehensions / map without a filter, context.id / context.do):
   every other transformation on the way (`.astype(...)`, np.round, np.float32, arithmetic, slicing, a helper method call, a test, a value
   not computed from the instance) is a named (class, key, transformation) entry of legit_saver_transformations; no key is computed *)
Theorem method_values_lossless : forall sv p k t, In sv method_savers -> In p (ms_paths sv) -> In k (msp_keys p) ->
  msp_dynamic p = false /\ (In t (mk_lossy k) -> In (ms_cls sv, mk_key k, t) legit_saver_transformations).
Proof. exact Lemmas.method_values_lossless. Qed.
Print Assumptions method_values_lossless.

(* on the way back every __setgluestate__ hands each stored value to the constructor / an attribute of the new object through
   context.object, np.asarray, list / tuple / dict, displays and comprehensions only, except the named entries *)
Theorem method_loader_steps_listed : forall ld r t, In ld method_loaders -> In r (ml_reads ld) ->
  ml_dynamic ld = false /\ (In t (mr_steps r) -> In (ml_cls ld, mr_key r, t) legit_loader_transformations).
Proof. exact Lemmas.method_loader_steps_listed. Qed.
Print Assumptions method_loader_steps_listed.

(* for the (class defining __gluestate__, class defining __setgluestate__) of every concrete class of the class table: both methods are
   in the table, and every key the loader reads is written on every path of the saver, or is a named legacy key *)
Theorem method_reads_written : forall g s, In (g, s) method_pairs ->
  exists sv ld, In sv method_savers /\ ms_cls sv = g /\ In ld method_loaders /\ ml_cls ld = s /\
    forall p r, In p (ms_paths sv) -> In r (ml_reads ld) ->
      path_writes p (mr_key r) = true \/ In (s, mr_key r) legit_method_unwritten_reads.
Proof. exact Lemmas.method_reads_written. Qed.
Print Assumptions method_reads_written.
