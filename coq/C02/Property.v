(* C02 — statements only.  Every theorem is proved in Lemmas1.v / Lemmas2.v / Lemmas.v. *)
From Coq Require Import ZArith List Bool String.
Import ListNotations.
From GV Require Import Common.Wire gen.Gen_tables C12.Model C02.Model C02.Lemmas.
Open Scope Z_scope.

(* the object <-> name map built by GlueSerializer.id is a bijection for every sequence of registrations, never renames,
   and naming never fails (an unused disambiguated name is always found) *)
Theorem names_injective : forall ops : list (Z * bool * name),
  let r := run_reg suffix [] ops in
  NoDup (map fst r) /\ NoDup (map snd r)
  /\ (forall pre post, ops = pre ++ post -> exists ext, r = run_reg suffix [] pre ++ ext)
  /\ (forall oid base, exists n, snd (register suffix r oid false base) = Some n).
Proof. exact Lemmas.names_injective. Qed.
Print Assumptions names_injective.

(* Full statement, false of the current class table:  forall c, In c classes -> in_scope c = true -> pair_ok c = true. *)
Theorem no_silent_fallthrough_refuted : exists c, In c classes /\ in_scope c = true /\ pair_ok c = false.
Proof. exact Lemmas.no_silent_fallthrough_refuted. Qed.
Print Assumptions no_silent_fallthrough_refuted.

Theorem no_silent_fallthrough_partial : forall c, In c classes -> in_scope c = true ->
  ~ In (name_of (c_id c))
       ["glue.plugins.wcs_autolinking.wcs_autolinking.OffsetLink"%string;
        "glue.plugins.wcs_autolinking.wcs_autolinking.AffineLink"%string] ->
  pair_ok c = true.
Proof. exact Lemmas.no_silent_fallthrough_partial. Qed.
Print Assumptions no_silent_fallthrough_partial.

Theorem loader_call_accepted : forall c, In c classes -> c_abstract c = false -> c_inpkg c = true -> c_family c < 6 ->
  ctor_ok c = true.
Proof. exact Lemmas.loader_call_accepted. Qed.
Print Assumptions loader_call_accepted.

Theorem graph_roundtrip : forall (enc dec : Z -> list field -> list field),
  (forall c fs, dec c (enc c fs) = fs) ->
  forall (h : heap) (root : Z), heap_closed h -> (exists n, hfind root h = Some n) ->
  let R := discover h root in
  let rho := fun a => index_of a R in
  let h' := load dec (save enc h root) in
  NoDup R /\ rho root = 0
  /\ (forall a b, In a R -> In b R -> rho a = rho b -> a = b)
  /\ (forall a, In a R -> 0 <= rho a < Z.of_nat (List.length R))
  /\ (forall a n, In a R -> hfind a h = Some n ->
        hfind (rho a) h' = Some (map_node rho n) /\ (forall k, In k (refs n) -> In k R))
  /\ List.length h' = List.length R
  /\ save enc h' 0 = save enc h root.
Proof. exact Lemmas.graph_roundtrip. Qed.
Print Assumptions graph_roundtrip.
