(* C02 — proofs, part 2: the graph codec.  save names every reachable object once (registration order), the records read
   back form the image of the reachable graph under the naming, and saving the restored graph gives the same records. *)
From Coq Require Import ZArith List Bool Lia.
Import ListNotations.
From GV Require Import Common.Wire C12.Model C02.Model.
Open Scope Z_scope.

(* ---------- induction principle for the nested type [field] ---------- *)
Fixpoint field_ind' (P : field -> Prop)
  (HL : forall z, P (FLit z)) (HR : forall a, P (FRef a)) (HS : forall l, Forall P l -> P (FList l))
  (f : field) : P f :=
  match f with
  | FLit z => HL z
  | FRef a => HR a
  | FList l => HS l ((fix go (l : list field) : Forall P l :=
                        match l with
                        | [] => Forall_nil P
                        | x :: l' => Forall_cons x (field_ind' P HL HR HS x) (go l')
                        end) l)
  end.

Lemma refs_field_map : forall rho f, refs_field (map_field rho f) = map rho (refs_field f).
Proof.
  intros rho. induction f as [z|a|l IH] using field_ind'; simpl; try reflexivity.
  induction IH as [|x l Hx _ IHl]; simpl; [reflexivity|]. now rewrite map_app, Hx, IHl.
Qed.

Lemma refs_map_node : forall rho n, refs (map_node rho n) = map rho (refs n).
Proof.
  intros rho [c fs]. unfold refs, map_node. simpl.
  induction fs as [|f fs IH]; simpl; [reflexivity|]. now rewrite map_app, refs_field_map, IH.
Qed.

Lemma map_field_absorb : forall g rho f,
  (forall k, In k (refs_field f) -> g (rho k) = rho k) -> map_field g (map_field rho f) = map_field rho f.
Proof.
  intros g rho. induction f as [z|a|l IH] using field_ind'; simpl; intros H; try reflexivity.
  - rewrite H by now left. reflexivity.
  - f_equal. induction IH as [|x l Hx _ IHl]; simpl; [reflexivity|].
    rewrite Hx by (intros k Hk; apply H; simpl; apply in_app_iff; now left).
    f_equal. apply IHl. intros k Hk. apply H. simpl. apply in_app_iff. now right.
Qed.

(* ---------- membership, add_new ---------- *)
Lemma zmem_In : forall x l, zmem x l = true <-> In x l.
Proof.
  intros x l. unfold zmem. rewrite existsb_exists. split.
  - intros [y [Hy E]]. apply Z.eqb_eq in E. now subst.
  - intros H. exists x. split; [assumption | apply Z.eqb_refl].
Qed.

Lemma zmem_false : forall x l, zmem x l = false <-> ~ In x l.
Proof.
  intros x l. split.
  - intros H I. apply zmem_In in I. congruence.
  - intros H. destruct (zmem x l) eqn:E; [|reflexivity]. apply zmem_In in E. contradiction.
Qed.

Lemma NoDup_snoc : forall {A} (l : list A) x, NoDup l -> ~ In x l -> NoDup (l ++ [x]).
Proof.
  intros A l x H N. induction H as [|y l Hy H IH]; simpl.
  - constructor; [tauto | constructor].
  - constructor.
    + rewrite in_app_iff. simpl. intros [I|[I|[]]]; [contradiction|]. subst. apply N. now left.
    + apply IH. intros I. apply N. now right.
Qed.

Lemma fold_add_spec : forall ks reg,
  (exists ext, fold_left add_new ks reg = reg ++ ext)
  /\ (forall x, In x (fold_left add_new ks reg) <-> In x reg \/ In x ks)
  /\ (NoDup reg -> NoDup (fold_left add_new ks reg)).
Proof.
  induction ks as [|c ks IH]; intros reg; simpl.
  - split; [exists []; now rewrite app_nil_r|]. split; [tauto | tauto].
  - destruct (IH (add_new reg c)) as [[ext E] [I N]].
    assert (A : (exists e, add_new reg c = reg ++ e) /\ (forall x, In x (add_new reg c) <-> In x reg \/ x = c)
                /\ (NoDup reg -> NoDup (add_new reg c))).
    { unfold add_new. destruct (zmem c reg) eqn:M.
      - apply zmem_In in M. split; [exists []; now rewrite app_nil_r|]. split; [|tauto].
        intros x. split; [tauto|]. intros [H|H]; [assumption | now subst].
      - apply zmem_false in M. split; [now exists [c]|]. split.
        + intros x. rewrite in_app_iff. simpl. split; [intros [H|[H|[]]]; [now left | right; now subst] | intros [H|H]; [now left | right; left; now subst]].
        + intros H. now apply NoDup_snoc. }
    destruct A as [[e Ee] [Ia Na]]. split; [|split].
    + exists (e ++ ext). rewrite E, Ee. now rewrite app_assoc.
    + intros x. rewrite I, Ia. split; [intros [[H|H]|H]; [now left | right; left; now subst | right; now right]
                                      | intros [H|[H|H]]; [left; now left | left; right; now subst | now right]].
    + intros H. apply N, Na, H.
Qed.

(* ---------- the heap ---------- *)
Definition heap_closed (h : heap) : Prop :=
  forall a n, hfind a h = Some n -> forall k, In k (refs n) -> exists m, hfind k h = Some m.

Definition closed_on (h : heap) (R : list Z) : Prop :=
  forall a, In a R -> exists n, hfind a h = Some n /\ forall k, In k (refs n) -> In k R.

Lemma hfind_key : forall h a n, hfind a h = Some n -> In a (map fst h).
Proof.
  induction h as [|[b m] h IH]; intros a n H; simpl in *; [discriminate|].
  destruct (b =? a) eqn:E; [left; now apply Z.eqb_eq | right; eapply IH; eassumption].
Qed.

Section Disc.
  Variable h : heap.
  Hypothesis HC : heap_closed h.

  Definition inheap (reg : list Z) : Prop := forall a, In a reg -> exists n, hfind a h = Some n.
  Definition processed (reg : list Z) (i : nat) : Prop :=
    forall j a n, (j < i)%nat -> nth_error reg j = Some a -> hfind a h = Some n -> forall k, In k (refs n) -> In k reg.

  Lemma done_closed : forall reg i, inheap reg -> processed reg i -> (List.length reg <= i)%nat -> closed_on h reg.
  Proof.
    intros reg i IH P L a Ha. destruct (IH a Ha) as [n Hn]. exists n. split; [assumption|].
    apply In_nth_error in Ha. destruct Ha as [j Hj].
    assert (j < List.length reg)%nat by (apply nth_error_Some; congruence).
    intros k Hk. eapply P; try eassumption. lia.
  Qed.

  Lemma disc_spec : forall fuel reg i,
    NoDup reg -> inheap reg -> processed reg i ->
    let R := disc fuel h reg i in
    NoDup R /\ inheap R /\ (exists ext, R = reg ++ ext) /\ ((List.length R <= i + fuel)%nat -> closed_on h R).
  Proof.
    induction fuel as [|f IH]; intros reg i N IHp P; simpl.
    - split; [assumption|]. split; [assumption|]. split; [exists []; now rewrite app_nil_r|].
      intros L. eapply done_closed; try eassumption. lia.
    - destruct (nth_error reg i) as [a|] eqn:E.
      + assert (Ha : In a reg) by (eapply nth_error_In; eassumption).
        destruct (IHp a Ha) as [n Hn]. rewrite Hn.
        destruct (fold_add_spec (refs n) reg) as [[ext Eext] [I ND]].
        set (reg' := fold_left add_new (refs n) reg) in *.
        assert (N' : NoDup reg') by now apply ND.
        assert (IH' : inheap reg').
        { intros x Hx. apply I in Hx. destruct Hx as [Hx|Hx]; [now apply IHp | eapply HC; eassumption]. }
        assert (P' : processed reg' (S i)).
        { intros j b m Hj Hb Hm k Hk.
          assert (Li : (i < List.length reg)%nat) by (apply nth_error_Some; congruence).
          assert (Hb' : nth_error reg j = Some b).
          { rewrite Eext in Hb. rewrite nth_error_app1 in Hb by lia. assumption. }
          destruct (Nat.eq_dec j i) as [Ej|Ej].
          - subst j. rewrite E in Hb'. inversion Hb'; subst b. rewrite Hn in Hm. inversion Hm; subst m.
            apply I. now right.
          - apply I. left. eapply P; try eassumption. lia. }
        destruct (IH reg' (S i) N' IH' P') as [R1 [R2 [[e2 R3] R4]]].
        split; [assumption|]. split; [assumption|]. split.
        * exists (ext ++ e2). rewrite R3, Eext. now rewrite app_assoc.
        * intros L. apply R4. lia.
      + split; [assumption|]. split; [assumption|]. split; [exists []; now rewrite app_nil_r|].
        intros _. apply nth_error_None in E. eapply done_closed; eassumption.
  Qed.

  Lemma inheap_length : forall reg, NoDup reg -> inheap reg -> (List.length reg <= List.length h)%nat.
  Proof.
    intros reg N I. rewrite <- (map_length fst h). apply NoDup_incl_length; [assumption|].
    intros a Ha. destruct (I a Ha) as [n Hn]. eapply hfind_key; eassumption.
  Qed.

  Lemma discover_spec : forall root, (exists n, hfind root h = Some n) ->
    let R := discover h root in
    NoDup R /\ closed_on h R /\ (exists ext, R = root :: ext) /\ (List.length R <= List.length h)%nat.
  Proof.
    intros root [n Hn] R. unfold R, discover.
    assert (N : NoDup [root]) by (constructor; [intros [] | constructor]).
    assert (I : inheap [root]) by (intros a [Ha|[]]; subst; now exists n).
    assert (P : processed [root] 0) by (intros j a m Hj; lia).
    destruct (disc_spec (S (List.length h)) [root] 0 N I P) as [R1 [R2 [[ext R3] R4]]].
    pose proof (inheap_length _ R1 R2) as L.
    split; [assumption|]. split; [apply R4; lia|]. split; [now exists ext | assumption].
  Qed.

  (* more fuel than needed changes nothing *)
  Lemma disc_fuel : forall f F reg i, (f <= F)%nat -> (List.length (disc F h reg i) <= i + f)%nat ->
    disc f h reg i = disc F h reg i.
  Proof.
    induction f as [|f IH]; intros F reg i LE L.
    - simpl. destruct F as [|F]; [reflexivity|]. simpl in *.
      destruct (nth_error reg i) as [a|] eqn:E; [|reflexivity]. exfalso.
      assert (Li : (i < List.length reg)%nat) by (apply nth_error_Some; congruence).
      set (ks := match hfind a h with Some n => refs n | None => [] end) in *.
      destruct (fold_add_spec ks reg) as [[e1 E1] _].
      assert (G : exists e, disc F h (fold_left add_new ks reg) (S i) = fold_left add_new ks reg ++ e).
      { clear. generalize (fold_left add_new ks reg) (S i). induction F as [|F IHF]; intros r j; simpl.
        - exists []. now rewrite app_nil_r.
        - destruct (nth_error r j); [|exists []; now rewrite app_nil_r].
          match goal with |- context [disc F h ?r' ?j'] => destruct (IHF r' j') as [e E]; rewrite E end.
          match goal with |- context [fold_left add_new ?k r] => destruct (fold_add_spec k r) as [[e' E'] _]; rewrite E' end.
          exists (e' ++ e). now rewrite app_assoc. }
      destruct G as [e2 E2]. rewrite E2, E1, !app_length in L. lia.
    - destruct F as [|F]; [lia|]. simpl in *.
      destruct (nth_error reg i) as [a|]; [|reflexivity].
      apply IH; lia.
  Qed.
End Disc.

(* ---------- index_of ---------- *)
Lemma index_of_cons : forall a b l, index_of a (b :: l) = if b =? a then 0 else 1 + index_of a l.
Proof. reflexivity. Qed.
Opaque index_of.

Lemma index_of_spec : forall R a, In a R ->
  exists j, index_of a R = Z.of_nat j /\ nth_error R j = Some a /\ (j < List.length R)%nat.
Proof.
  induction R as [|b R IH]; intros a H; [contradiction|].
  rewrite index_of_cons. destruct (b =? a) eqn:E.
  - apply Z.eqb_eq in E. subst. exists 0%nat. repeat split; simpl; lia.
  - destruct H as [H|H]; [subst; rewrite Z.eqb_refl in E; discriminate|].
    destruct (IH a H) as [j [J1 [J2 J3]]]. exists (S j). split; [rewrite J1; lia|]. split; [exact J2 | simpl; lia].
Qed.

Lemma index_of_inj : forall R a b, In a R -> In b R -> index_of a R = index_of b R -> a = b.
Proof.
  intros R a b Ha Hb E.
  destruct (index_of_spec R a Ha) as [j [J1 [J2 _]]]. destruct (index_of_spec R b Hb) as [k [K1 [K2 _]]].
  assert (j = k) by lia. subst. congruence.
Qed.

Lemma index_of_nth : forall R j a, NoDup R -> nth_error R j = Some a -> index_of a R = Z.of_nat j.
Proof.
  induction R as [|b R IH]; intros j a N H; [destruct j; discriminate|].
  inversion N as [|? ? Nb NR]; subst. rewrite index_of_cons. destruct j as [|j]; simpl in H.
  - inversion H; subst. now rewrite Z.eqb_refl.
  - destruct (b =? a) eqn:E.
    + apply Z.eqb_eq in E. subst. exfalso. apply Nb. eapply nth_error_In; eassumption.
    + rewrite (IH j a NR H). lia.
Qed.

Lemma zmem_map_inj : forall (rho : Z -> Z) (S : list Z) c r,
  (forall a b, In a S -> In b S -> rho a = rho b -> a = b) -> In c S -> incl r S ->
  zmem (rho c) (map rho r) = zmem c r.
Proof.
  intros rho S c r Inj Hc Hr. destruct (zmem c r) eqn:M.
  - apply zmem_In. apply zmem_In in M. now apply in_map.
  - apply zmem_false. apply zmem_false in M. intros I. apply in_map_iff in I. destruct I as [x [E Hx]].
    apply M. assert (x = c) by (apply Inj; auto). now subst.
Qed.

Lemma fold_add_map : forall (rho : Z -> Z) (S : list Z),
  (forall a b, In a S -> In b S -> rho a = rho b -> a = b) ->
  forall ks reg, incl ks S -> incl reg S ->
  fold_left add_new (map rho ks) (map rho reg) = map rho (fold_left add_new ks reg).
Proof.
  intros rho S Inj. induction ks as [|c ks IH]; intros reg Hk Hr; simpl; [reflexivity|].
  assert (Hc : In c S) by (apply Hk; now left).
  assert (E : add_new (map rho reg) (rho c) = map rho (add_new reg c)).
  { unfold add_new. rewrite (zmem_map_inj rho S c reg Inj Hc Hr). destruct (zmem c reg); [reflexivity|].
    now rewrite map_app. }
  rewrite E. apply IH.
  - intros x Hx. apply Hk. now right.
  - unfold add_new. destruct (zmem c reg); [assumption|]. intros x Hx. apply in_app_iff in Hx.
    destruct Hx as [Hx|[Hx|[]]]; [now apply Hr | now subst].
Qed.

Lemma index_of_map : forall (rho : Z -> Z) R k,
  (forall a b, In a R -> In b R -> rho a = rho b -> a = b) -> In k R ->
  index_of (rho k) (map rho R) = index_of k R.
Proof.
  intros rho. induction R as [|b R IH]; intros k Inj Hk; [contradiction|].
  simpl map. rewrite !index_of_cons. destruct (b =? k) eqn:E.
  - apply Z.eqb_eq in E. subst. now rewrite Z.eqb_refl.
  - destruct Hk as [Hk|Hk]; [subst; rewrite Z.eqb_refl in E; discriminate|].
    destruct (rho b =? rho k) eqn:E2.
    + apply Z.eqb_eq in E2. apply Inj in E2; [subst; rewrite Z.eqb_refl in E; discriminate | now left | now right].
    + rewrite IH; [reflexivity | | assumption]. intros x y Hx Hy. apply Inj; now right.
Qed.

(* ---------- load ---------- *)
Section Codec.
  Variable enc dec : Z -> list field -> list field.
  Hypothesis dec_enc : forall c fs, dec c (enc c fs) = fs.

  Lemma hfind_load_from : forall recs i j r, nth_error recs j = Some r ->
    hfind (i + Z.of_nat j) (load_from dec i recs) = Some (mkNode (n_cls r) (dec (n_cls r) (n_fields r))).
  Proof.
    induction recs as [|x recs IH]; intros i j r H; [destruct j; discriminate|].
    destruct j as [|j]; simpl in *.
    - inversion H; subst. replace (i + 0) with i by lia. now rewrite Z.eqb_refl.
    - assert (E : (i =? i + Z.pos (Pos.of_succ_nat j)) = false) by (apply Z.eqb_neq; lia).
      rewrite E. replace (i + Z.pos (Pos.of_succ_nat j)) with ((i + 1) + Z.of_nat j) by lia. now apply IH.
  Qed.

  Lemma load_from_length : forall recs i, List.length (load_from dec i recs) = List.length recs.
  Proof. induction recs as [|x recs IH]; intros i; simpl; [reflexivity | now rewrite IH]. Qed.

  Variable h : heap.
  Variable root : Z.
  Hypothesis HC : heap_closed h.
  Hypothesis HR : exists n, hfind root h = Some n.

  Let R := discover h root.
  Let rho := fun a => index_of a R.
  Let h' := load dec (save enc h root).

  Lemma R_facts : NoDup R /\ closed_on h R /\ (exists ext, R = root :: ext) /\ (List.length R <= List.length h)%nat.
  Proof. apply discover_spec; assumption. Qed.

  Lemma rho_inj : forall a b, In a R -> In b R -> rho a = rho b -> a = b.
  Proof. intros a b. apply index_of_inj. Qed.

  Lemma restored_node : forall a n, In a R -> hfind a h = Some n -> hfind (rho a) h' = Some (map_node rho n).
  Proof.
    intros a n Ha Hn. unfold h', load, save. fold R.
    destruct (index_of_spec R a Ha) as [j [J1 [J2 J3]]]. unfold rho. rewrite J1.
    replace (Z.of_nat j) with (0 + Z.of_nat j) by lia.
    erewrite hfind_load_from.
    2:{ rewrite nth_error_map, J2. simpl. rewrite Hn. reflexivity. }
    unfold record_of, map_node. simpl. now rewrite dec_enc.
  Qed.

  Lemma h'_length : List.length h' = List.length R.
  Proof. unfold h', load, save. fold R. now rewrite load_from_length, map_length. Qed.

  (* discovery on the restored graph mirrors discovery on the original *)
  Lemma disc_map : forall fuel reg i, incl reg R ->
    disc fuel h' (map rho reg) i = map rho (disc fuel h reg i).
  Proof.
    destruct R_facts as [N [CL _]].
    induction fuel as [|f IH]; intros reg i Hr; simpl; [reflexivity|].
    rewrite nth_error_map. destruct (nth_error reg i) as [a|] eqn:E; simpl; [|reflexivity].
    assert (Ha : In a R) by (apply Hr; eapply nth_error_In; eassumption).
    destruct (CL a Ha) as [n [Hn Hk]]. rewrite Hn, (restored_node a n Ha Hn), refs_map_node.
    rewrite (fold_add_map rho R rho_inj (refs n) reg Hk Hr).
    apply IH. intros x Hx. apply (proj1 (proj2 (fold_add_spec (refs n) reg))) in Hx.
    destruct Hx as [Hx|Hx]; [now apply Hr | now apply Hk].
  Qed.

  Lemma map_rho_R : discover h' 0 = map rho R.
  Proof.
    destruct R_facts as [N [CL [[ext E] L]]].
    assert (R0 : rho root = 0) by (unfold rho; rewrite E, index_of_cons; now rewrite Z.eqb_refl).
    unfold discover. rewrite h'_length.
    replace [0] with (map rho [root]) by (simpl; now rewrite R0).
    rewrite disc_map.
    2:{ intros x [Hx|[]]. subst. rewrite E. now left. }
    f_equal. fold R.
    transitivity (disc (S (List.length h)) h [root] 0); [|reflexivity].
    apply disc_fuel; [lia|]. change (disc (S (List.length h)) h [root] 0) with R. lia.
  Qed.

  Lemma save_idem : save enc h' 0 = save enc h root.
  Proof.
    destruct R_facts as [N [CL _]].
    unfold save at 1. rewrite map_rho_R. unfold save. fold R. rewrite map_map.
    apply map_ext_in. intros a Ha.
    destruct (CL a Ha) as [n [Hn Hk]]. rewrite Hn, (restored_node a n Ha Hn).
    unfold record_of, map_node. simpl. f_equal. f_equal. rewrite map_map.
    apply map_ext_in. intros f Hf. apply map_field_absorb. intros k Hkf.
    assert (Hk' : In k R).
    { apply Hk. unfold refs. apply in_flat_map. exists f. split; assumption. }
    fold (rho k). rewrite (index_of_map rho R k rho_inj Hk'). reflexivity.
  Qed.
End Codec.

(* Full statement.  For every object graph whose references stay inside the heap and every per-class field codec with
   dec (enc fs) = fs:  (1) every reachable object is named exactly once, the names are 0..n-1 in registration order and the
   root is 0 (sharing is preserved: one object, one name; the naming is injective);  (2) the restored graph is the image
   of the reachable graph under the naming: same class, same fields, references renamed, and every reference of a
   reachable object is itself restored (cycles included);  (3) nothing else is created;  (4) saving the restored graph
   yields exactly the same records (idempotence). *)
Theorem graph_roundtrip : forall (enc dec : Z -> list field -> list field),
  (forall c fs, dec c (enc c fs) = fs) ->
  forall (h : heap) (root : Z), heap_closed h -> (exists n, hfind root h = Some n) ->
  let R := discover h root in
  let rho := fun a => index_of a R in
  let h' := load dec (save enc h root) in
  NoDup R /\ rho root = 0
  /\ (forall a b, In a R -> In b R -> rho a = rho b -> a = b)
  /\ (forall a, In a R -> 0 <= rho a < Z.of_nat (List.length R))
  /\ (forall a n, In a R -> hfind a h = Some n ->
        hfind (rho a) h' = Some (map_node rho n) /\ (forall k, In k (refs n) -> In k R))
  /\ List.length h' = List.length R
  /\ save enc h' 0 = save enc h root.
Proof.
  intros enc dec DE h root HC HR R rho h'.
  destruct (R_facts h root HC HR) as [N [CL [[ext E] L]]]. fold R in N, CL, E, L.
  split; [assumption|]. split; [unfold rho; rewrite E, index_of_cons; now rewrite Z.eqb_refl|].
  split; [intros a b; apply index_of_inj|]. split.
  - intros a Ha. destruct (index_of_spec R a Ha) as [j [J1 [_ J3]]]. unfold rho. lia.
  - split.
    + intros a n Ha Hn. split; [now apply restored_node|].
      destruct (CL a Ha) as [m [Hm Hk]]. rewrite Hn in Hm. inversion Hm; subst. assumption.
    + split; [now apply h'_length | now apply save_idem].
Qed.
