(* C02 — proofs, part 1: the name registry (GlueSerializer.id / _disambiguate). *)
From Coq Require Import ZArith List Bool Lia FinFun.
Import ListNotations.
From GV Require Import Common.Wire C02.Model.
Open Scope Z_scope.

Lemma name_eqb_eq : forall a b, name_eqb a b = true <-> a = b.
Proof.
  induction a as [|x a IH]; intros [|y b]; simpl; split; intros H; try discriminate; try reflexivity.
  - apply andb_true_iff in H. destruct H as [H1 H2]. apply Z.eqb_eq in H1. apply IH in H2. now subst.
  - inversion H; subst. rewrite Z.eqb_refl. simpl. now apply IH.
Qed.

Lemma mem_name_In : forall n l, mem_name n l = true <-> In n l.
Proof.
  intros n l. unfold mem_name. rewrite existsb_exists. split.
  - intros [x [Hx E]]. apply name_eqb_eq in E. now subst.
  - intros H. exists n. split; [assumption | now apply name_eqb_eq].
Qed.

Lemma mem_name_false : forall n l, mem_name n l = false <-> ~ In n l.
Proof.
  intros n l. split.
  - intros H I. apply mem_name_In in I. congruence.
  - intros H. destruct (mem_name n l) eqn:E; [|reflexivity]. apply mem_name_In in E. contradiction.
Qed.

(* ---------- decimal digits are injective ---------- *)
Definition undigits (l : list Z) : Z := fold_left (fun acc c => acc * 10 + (c - 48)) l 0.

Lemma undigits_single : forall c, undigits [c] = c - 48.
Proof. intros c. unfold undigits. simpl. lia. Qed.

Lemma undigits_snoc : forall l c, undigits (l ++ [c]) = undigits l * 10 + (c - 48).
Proof. intros l c. unfold undigits. rewrite fold_left_app. reflexivity. Qed.

Lemma undigits_digits_fuel : forall f i, 0 <= i -> undigits (digits_fuel f i) = i.
Proof.
  induction f as [|f IH]; intros i Hi.
  - change (digits_fuel 0 i) with [48 + i]. rewrite undigits_single. lia.
  - change (digits_fuel (S f) i) with (if i <? 10 then [48 + i] else digits_fuel f (i / 10) ++ [48 + i mod 10]).
    destruct (i <? 10) eqn:E.
    + rewrite undigits_single. lia.
    + rewrite undigits_snoc. rewrite IH by (apply Z.div_pos; lia).
      pose proof (Z.div_mod i 10). lia.
Qed.

Lemma digits_inj : forall i j, digits i = digits j -> i = j.
Proof.
  intros i j H. unfold digits in H.
  assert (E : undigits (digits_fuel (S i) (Z.of_nat i)) = undigits (digits_fuel (S j) (Z.of_nat j))) by now rewrite H.
  rewrite !undigits_digits_fuel in E by lia. lia.
Qed.

Lemma suffix_inj : forall base i j, suffix base i = suffix base j -> i = j.
Proof.
  intros base i j H. unfold suffix in H. apply app_inv_head in H. simpl in H. inversion H as [E].
  now apply digits_inj.
Qed.

(* ---------- the registry ---------- *)
Lemma name_for_none : forall r oid, name_for r oid = None <-> ~ In oid (map fst r).
Proof.
  induction r as [|[o n] r IH]; intros oid; simpl.
  - tauto.
  - destruct (o =? oid) eqn:E.
    + apply Z.eqb_eq in E. subst. split; [discriminate | intros H; exfalso; apply H; now left].
    + apply Z.eqb_neq in E. rewrite IH. tauto.
Qed.

Lemma name_for_In : forall r oid n, name_for r oid = Some n -> In (oid, n) r.
Proof.
  induction r as [|[o m] r IH]; intros oid n H; simpl in *; [discriminate|].
  destruct (o =? oid) eqn:E.
  - apply Z.eqb_eq in E. inversion H; subst. now left.
  - right. now apply IH.
Qed.

Definition inv (r : registry) : Prop := NoDup (map fst r) /\ NoDup (names_of r).

Lemma NoDup_snoc : forall {A} (l : list A) x, NoDup l -> ~ In x l -> NoDup (l ++ [x]).
Proof.
  intros A l x H N. induction H as [|y l Hy H IH]; simpl.
  - constructor; [tauto | constructor].
  - constructor.
    + rewrite in_app_iff. simpl. intros [I|[I|[]]]; [contradiction|]. subst. apply N. now left.
    + apply IH. intros I. apply N. now right.
Qed.

Section Naming.
  Variable sfx : name -> nat -> name.

  (* a registration either returns the existing name, or appends one new (object, name) pair whose object and name
     are both new; or leaves the registry unchanged *)
  Lemma register_cases : forall r oid m base,
    let '(r', res) := register sfx r oid m base in
    r' = r \/ (exists n, r' = r ++ [(oid, n)] /\ res = Some n /\ ~ In oid (map fst r) /\ ~ In n (names_of r)).
  Proof.
    intros r oid m base. unfold register.
    destruct (name_for r oid) as [n|] eqn:E; [now left|].
    destruct (if m then Some main_name else disambiguate sfx (names_of r) base) as [n|]; [|now left].
    destruct (mem_name n (names_of r)) eqn:M; [now left|].
    right. exists n. repeat split.
    - now apply name_for_none.
    - now apply mem_name_false.
  Qed.

  Lemma register_inv : forall r oid m base, inv r -> inv (fst (register sfx r oid m base)).
  Proof.
    intros r oid m base [H1 H2].
    pose proof (register_cases r oid m base) as C.
    destruct (register sfx r oid m base) as [r' res]. simpl.
    destruct C as [C|[n [C [_ [N1 N2]]]]]; subst r'.
    - now split.
    - unfold inv, names_of in *. rewrite !map_app. simpl. split; now apply NoDup_snoc.
  Qed.

  Lemma register_extends : forall r oid m base, exists ext, fst (register sfx r oid m base) = r ++ ext.
  Proof.
    intros r oid m base.
    pose proof (register_cases r oid m base) as C.
    destruct (register sfx r oid m base) as [r' res]. simpl.
    destruct C as [C|[n [C _]]]; subst r'.
    - exists []. now rewrite app_nil_r.
    - now exists [(oid, n)].
  Qed.

  Lemma run_reg_inv : forall ops r, inv r -> inv (run_reg sfx r ops).
  Proof.
    induction ops as [|[[oid m] base] ops IH]; intros r H; simpl; [assumption|].
    apply IH. now apply register_inv.
  Qed.

  Lemma run_reg_extends : forall ops r, exists ext, run_reg sfx r ops = r ++ ext.
  Proof.
    induction ops as [|[[oid m] base] ops IH]; intros r; simpl.
    - exists []. now rewrite app_nil_r.
    - destruct (register_extends r oid m base) as [e1 E1]. destruct (IH (fst (register sfx r oid m base))) as [e2 E2].
      exists (e1 ++ e2). rewrite E2, E1. now rewrite app_assoc.
  Qed.

  Lemma run_reg_app : forall a b r, run_reg sfx r (a ++ b) = run_reg sfx (run_reg sfx r a) b.
  Proof.
    induction a as [|[[oid m] base] a IH]; intros b r; simpl; [reflexivity | apply IH].
  Qed.

  (* ---------- the search for a free name always succeeds when sfx base is injective ---------- *)
  Hypothesis sfx_inj : forall base i j, sfx base i = sfx base j -> i = j.

  Lemma first_free_finds : forall used base fuel i,
    (exists j, (i <= j < i + fuel)%nat /\ ~ In (sfx base j) used) ->
    exists n, first_free sfx used base i fuel = Some n /\ ~ In n used.
  Proof.
    intros used base. induction fuel as [|f IH]; intros i [j [Hj Nj]]; [lia|].
    simpl. destruct (mem_name (sfx base i) used) eqn:M.
    - apply IH. exists j. split; [|assumption].
      destruct (Nat.eq_dec i j) as [E|E]; [subst; apply mem_name_In in M; contradiction | lia].
    - exists (sfx base i). split; [reflexivity | now apply mem_name_false].
  Qed.

  Lemma forallb_false_ex : forall {A} (f : A -> bool) l, forallb f l = false -> exists x, In x l /\ f x = false.
  Proof.
    intros A f. induction l as [|x l IH]; simpl; intros H; [discriminate|].
    destruct (f x) eqn:E.
    - destruct (IH H) as [y [Hy Fy]]. exists y. split; [now right | assumption].
    - exists x. split; [now left | assumption].
  Qed.

  (* pigeonhole: among the first |used|+1 candidates one is free *)
  Lemma free_candidate : forall used base, exists j, (j < S (List.length used))%nat /\ ~ In (sfx base j) used.
  Proof.
    intros used base.
    destruct (forallb (fun j => mem_name (sfx base j) used) (seq 0 (S (List.length used)))) eqn:F.
    - exfalso.
      assert (I : incl (map (sfx base) (seq 0 (S (List.length used)))) used).
      { intros x Hx. apply in_map_iff in Hx. destruct Hx as [j [E Hj]]. subst.
        apply mem_name_In. exact (proj1 (forallb_forall _ _) F j Hj). }
      assert (N : NoDup (map (sfx base) (seq 0 (S (List.length used))))).
      { apply FinFun.Injective_map_NoDup; [intros a b E; now apply (sfx_inj base) | apply seq_NoDup]. }
      pose proof (NoDup_incl_length N I) as L. rewrite map_length, seq_length in L. lia.
    - apply forallb_false_ex in F. destruct F as [j [Hj Fj]]. apply in_seq in Hj.
      exists j. split; [lia | now apply mem_name_false].
  Qed.

  Lemma disambiguate_total : forall used base, exists n, disambiguate sfx used base = Some n /\ ~ In n used.
  Proof.
    intros used base. unfold disambiguate. destruct (mem_name base used) eqn:M.
    - apply first_free_finds. destruct (free_candidate used base) as [j [Hj Nj]]. exists j. split; [lia | assumption].
    - exists base. split; [reflexivity | now apply mem_name_false].
  Qed.

  (* every object other than the main one gets a name: no assertion failure, no endless search *)
  Lemma register_total : forall r oid base, exists n, snd (register sfx r oid false base) = Some n.
  Proof.
    intros r oid base. unfold register. destruct (name_for r oid) as [n|]; [now exists n|].
    destruct (disambiguate_total (names_of r) base) as [n [E N]]. rewrite E.
    apply mem_name_false in N. rewrite N. now exists n.
  Qed.
End Naming.

(* Full statement: for every sequence of id() calls (objects seen before or new, the main object or not, any labels,
   including labels that look like disambiguated names) the object<->name map is a bijection, no object is ever renamed
   (earlier registrations stay a prefix), and every non-main registration succeeds. *)
Theorem names_injective : forall ops : list (Z * bool * name),
  let r := run_reg suffix [] ops in
  NoDup (map fst r) /\ NoDup (map snd r)
  /\ (forall pre post, ops = pre ++ post -> exists ext, r = run_reg suffix [] pre ++ ext)
  /\ (forall oid base, exists n, snd (register suffix r oid false base) = Some n).
Proof.
  intros ops r.
  assert (I : inv r) by (apply run_reg_inv; split; constructor).
  destruct I as [I1 I2]. split; [assumption|]. split; [assumption|]. split.
  - intros pre post E. subst ops. unfold r. rewrite run_reg_app. apply run_reg_extends.
  - intros oid base. apply register_total. exact suffix_inj.
Qed.
