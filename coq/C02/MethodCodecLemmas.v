(* C02 — the __gluestate__ / __setgluestate__ method pairs: proofs (vm_compute over the regenerated table, lifted by forallb_forall). *)
From Coq Require Import List Bool String.
Import ListNotations.
From GV Require Import gen.Gen_methodcodecs C02.MethodCodecModel.
Local Open Scope string_scope.

Lemma mem3_In : forall a b c l, mem3 (a, b, c) l = true -> In (a, b, c) l.
Proof.
  intros a b c l H. unfold mem3 in H. apply existsb_exists in H. destruct H as [[[x y] z] [Hq E]].
  apply andb_true_iff in E. destruct E as [E E3]. apply andb_true_iff in E. destruct E as [E1 E2].
  apply String.eqb_eq in E1. apply String.eqb_eq in E2. apply String.eqb_eq in E3. now subst.
Qed.

Lemma mem2_In : forall a b l, mem2 (a, b) l = true -> In (a, b) l.
Proof.
  intros a b l H. apply existsb_exists in H. destruct H as [[c d] [Hq E]]. simpl in E.
  apply andb_true_iff in E. destruct E as [E1 E2]. apply String.eqb_eq in E1. apply String.eqb_eq in E2. now subst.
Qed.

Lemma chk_method_values_true : chk_method_values = true.
Proof. vm_compute. reflexivity. Qed.
Lemma chk_method_loaders_true : chk_method_loaders = true.
Proof. vm_compute. reflexivity. Qed.
Lemma chk_method_pairs_true : chk_method_pairs = true.
Proof. vm_compute. reflexivity. Qed.

(* every value stored by every __gluestate__ is an image of instance state under lossless steps only (attribute access, np.asarray,
   .tolist(), list / str / float / int ..., context.id / context.do), except the named (class, key, transformation) entries; no key is computed *)
Theorem method_values_lossless : forall sv p k t, In sv method_savers -> In p (ms_paths sv) -> In k (msp_keys p) ->
  msp_dynamic p = false /\ (In t (mk_lossy k) -> In (ms_cls sv, mk_key k, t) legit_saver_transformations).
Proof.
  intros sv p k t Hsv Hp Hk.
  pose proof chk_method_values_true as H. unfold chk_method_values in H.
  rewrite forallb_forall in H. specialize (H sv Hsv). rewrite forallb_forall in H. specialize (H p Hp).
  apply andb_true_iff in H. destruct H as [D H]. split.
  - now apply negb_true_iff in D.
  - intro Ht. rewrite forallb_forall in H. specialize (H k Hk). unfold mkey_ok in H.
    rewrite forallb_forall in H. specialize (H t Ht). now apply mem3_In.
Qed.

(* on the way back every __setgluestate__ hands the stored value to the constructor / an attribute through context.object, np.asarray,
   list / tuple / dict, displays and comprehensions only, except the named entries; no computed key is read *)
Theorem method_loader_steps_listed : forall ld r t, In ld method_loaders -> In r (ml_reads ld) ->
  ml_dynamic ld = false /\ (In t (mr_steps r) -> In (ml_cls ld, mr_key r, t) legit_loader_transformations).
Proof.
  intros ld r t Hld Hr.
  pose proof chk_method_loaders_true as H. unfold chk_method_loaders in H.
  rewrite forallb_forall in H. specialize (H ld Hld). apply andb_true_iff in H. destruct H as [D H]. split.
  - now apply negb_true_iff in D.
  - intro Ht. rewrite forallb_forall in H. specialize (H r Hr). rewrite forallb_forall in H. specialize (H t Ht). now apply mem3_In.
Qed.

(* for the (provider of __gluestate__, provider of __setgluestate__) of every concrete class: both are in the table, and every key the
   loader reads is written on every path of the saver, or is a named legacy key *)
Theorem method_reads_written : forall g s, In (g, s) method_pairs ->
  exists sv ld, In sv method_savers /\ ms_cls sv = g /\ In ld method_loaders /\ ml_cls ld = s /\
    forall p r, In p (ms_paths sv) -> In r (ml_reads ld) ->
      path_writes p (mr_key r) = true \/ In (s, mr_key r) legit_method_unwritten_reads.
Proof.
  intros g s Hin.
  pose proof chk_method_pairs_true as H. unfold chk_method_pairs in H.
  rewrite forallb_forall in H. specialize (H (g, s) Hin). unfold pair_reads_ok in H. cbn [fst snd] in H.
  destruct (find (fun sv => String.eqb (ms_cls sv) g) method_savers) as [sv|] eqn:Fs; [|discriminate].
  destruct (find (fun ld => String.eqb (ml_cls ld) s) method_loaders) as [ld|] eqn:Fl; [|discriminate].
  apply find_some in Fs. destruct Fs as [Hsv Es]. apply String.eqb_eq in Es.
  apply find_some in Fl. destruct Fl as [Hld El]. apply String.eqb_eq in El.
  exists sv, ld. repeat split; try assumption.
  intros p r Hp Hr. rewrite forallb_forall in H. specialize (H p Hp). rewrite forallb_forall in H. specialize (H r Hr).
  apply orb_true_iff in H. destruct H as [H|H]; [left; exact H|right]. rewrite El in H. now apply mem2_In.
Qed.
