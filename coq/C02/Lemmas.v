(* C02 — proofs, part 3: theorems over the regenerated class table; re-exports parts 1 and 2. *)
From Coq Require Import ZArith List Bool Lia String.
Import ListNotations.
From GV Require Import Common.Wire gen.Gen_tables C12.Model C02.Model.
From GV Require Export C02.Lemmas1 C02.Lemmas2 C02.CodecLemmas C02.MethodCodecLemmas.
Open Scope Z_scope.

(* Full statement (FALSE of the current table, see _refuted):
     forall c, In c classes -> in_scope c = true -> pair_ok c = true
   i.e. every concrete class of the families SubsetState / Roi / link helpers / ComponentLink / Coordinates / Component that
   carries instance state is written by a saver defined for that class or for an ancestor with the same state attributes
   (or by a saver that only raises), and read by the loader paired with that saver. *)
Definition exempt_fallthrough : list string :=
  ["glue.plugins.wcs_autolinking.wcs_autolinking.OffsetLink"%string;
   "glue.plugins.wcs_autolinking.wcs_autolinking.AffineLink"%string].

Definition is_exempt (c : cls_row) : bool := existsb (String.eqb (name_of (c_id c))) exempt_fallthrough.

Theorem no_silent_fallthrough_refuted : exists c, In c classes /\ in_scope c = true /\ pair_ok c = false.
Proof.
  destruct (find (fun c => in_scope c && negb (pair_ok c)) classes) as [c|] eqn:F.
  - apply find_some in F. destruct F as [Hc H]. apply andb_true_iff in H. destruct H as [H1 H2].
    exists c. repeat split; try assumption. now apply negb_true_iff.
  - exfalso. revert F. vm_compute. discriminate.
Qed.

Lemma chk_fallthrough_ok : forallb (fun c => negb (in_scope c) || is_exempt c || pair_ok c) classes = true.
Proof. vm_compute. reflexivity. Qed.

Theorem no_silent_fallthrough_partial : forall c, In c classes -> in_scope c = true ->
  ~ In (name_of (c_id c)) exempt_fallthrough -> pair_ok c = true.
Proof.
  intros c Hc S NE.
  pose proof (proj1 (forallb_forall _ _) chk_fallthrough_ok c Hc) as H. simpl in H.
  rewrite S in H. simpl in H. apply orb_true_iff in H. destruct H as [H|H]; [|assumption].
  exfalso. apply NE. unfold is_exempt in H. apply existsb_exists in H. destruct H as [s [Hs E]].
  apply String.eqb_eq in E. now rewrite E.
Qed.

Lemma chk_ctor_ok : forallb (fun c => negb (negb (c_abstract c) && c_inpkg c && (c_family c <? 6)) || ctor_ok c) classes = true.
Proof. vm_compute. reflexivity. Qed.

(* the generic cls(...) call made by the __setgluestate__ that a concrete class uses (its own or an inherited one) is accepted
   by that class's __init__: an inherited loader cannot fail with an unexpected-argument TypeError at load time *)
Theorem loader_call_accepted : forall c, In c classes -> c_abstract c = false -> c_inpkg c = true -> c_family c < 6 ->
  ctor_ok c = true.
Proof.
  intros c Hc A P F.
  pose proof (proj1 (forallb_forall _ _) chk_ctor_ok c Hc) as H. simpl in H.
  rewrite A, P in H. apply Z.ltb_lt in F. rewrite F in H. simpl in H. assumption.
Qed.

(* re-exports of parts 1 and 2 under this module's name *)
Definition names_injective := Lemmas1.names_injective.
Definition graph_roundtrip := Lemmas2.graph_roundtrip.
Definition codec_reads_written := CodecLemmas.codec_reads_written.
Definition codec_dynamic_listed := CodecLemmas.codec_dynamic_listed.
Definition codec_every_record_loadable := CodecLemmas.codec_every_record_loadable.
Definition codec_values_unconditional := CodecLemmas.codec_values_unconditional.
Definition codec_conditional_keys_listed := CodecLemmas.codec_conditional_keys_listed.
Definition codec_ctor_fed := CodecLemmas.codec_ctor_fed.
Definition method_values_lossless := MethodCodecLemmas.method_values_lossless.
Definition method_loader_steps_listed := MethodCodecLemmas.method_loader_steps_listed.
Definition method_reads_written := MethodCodecLemmas.method_reads_written.
