(* C02 — field-level check of the registered saver / loader functions: proofs (vm_compute over the regenerated tables, lifted by forallb_forall). *)
From Coq Require Import ZArith List Bool String.
Import ListNotations.
From GV Require Import gen.Gen_codecs C02.CodecModel.
Open Scope Z_scope.

Lemma memZ_In : forall x l, memZ x l = true -> In x l.
Proof. intros x l H. apply existsb_exists in H. destruct H as [y [Hy E]]. apply Z.eqb_eq in E. now subst. Qed.

Lemma memZ_false_notIn : forall x l, memZ x l = false -> ~ In x l.
Proof.
  intros x l H Hin. assert (memZ x l = true) as T.
  { apply existsb_exists. exists x. split; [assumption|apply Z.eqb_refl]. }
  rewrite T in H. discriminate.
Qed.

Lemma mem_pair_In : forall a b l, mem_pair (a, b) l = true -> In (a, b) l.
Proof.
  intros a b l H. apply existsb_exists in H. destruct H as [[c d] [Hq E]]. simpl in E.
  apply andb_true_iff in E. destruct E as [E1 E2]. apply String.eqb_eq in E1. apply String.eqb_eq in E2. now subst.
Qed.

Lemma chk_reads_true : chk_reads = true.
Proof. vm_compute. reflexivity. Qed.
Lemma chk_loadable_true : chk_loadable = true.
Proof. vm_compute. reflexivity. Qed.
Lemma chk_values_true : chk_values = true.
Proof. vm_compute. reflexivity. Qed.
Lemma chk_conditional_true : chk_conditional = true.
Proof. vm_compute. reflexivity. Qed.
Lemma chk_ctor_fed_true : chk_ctor_fed = true.
Proof. vm_compute. reflexivity. Qed.

Lemma reads_facts : forall sc lc p b, In sc saver_codecs -> In lc loader_codecs ->
  sc_cls sc = lc_cls lc -> sc_ver sc = lc_ver lc -> In p (sc_paths sc) -> In b (lc_paths lc) ->
  (negb (sp_dynamic p || lp_dynamic b) || is_dynamic_class (sc_cls sc)) = true
  /\ (sp_dynamic p || lp_dynamic b || negb (compatible p b) || forallb (read_ok (sc_cls sc) p) (lp_reads b)) = true.
Proof.
  intros sc lc p b Hsc Hlc Ec Ev Hp Hb.
  pose proof chk_reads_true as H. unfold chk_reads in H.
  rewrite forallb_forall in H. specialize (H sc Hsc). rewrite forallb_forall in H. specialize (H lc Hlc).
  assert (same_codec sc lc = true) as S. { unfold same_codec. rewrite Ec, Ev, !Z.eqb_refl. reflexivity. }
  rewrite S in H. cbn [negb orb] in H.
  rewrite forallb_forall in H. specialize (H p Hp). rewrite forallb_forall in H. specialize (H b Hb).
  apply andb_true_iff in H. exact H.
Qed.

(* every key a loader path reads without testing for it is written by every saver path whose record can reach that loader path
   (or is one of the keys the serializer adds to every record, or is on the named list) *)
Theorem codec_reads_written : forall sc lc p b k, In sc saver_codecs -> In lc loader_codecs ->
  sc_cls sc = lc_cls lc -> sc_ver sc = lc_ver lc -> In p (sc_paths sc) -> In b (lc_paths lc) ->
  sp_dynamic p = false -> lp_dynamic b = false -> compatible p b = true -> In k (lp_reads b) ->
  In k (spath_keys p) \/ In k framework_keys \/ In (cname (sc_cls sc), cname k) legit_unwritten_reads.
Proof.
  intros sc lc p b k Hsc Hlc Ec Ev Hp Hb Dp Db C Hk.
  destruct (reads_facts sc lc p b Hsc Hlc Ec Ev Hp Hb) as [_ H].
  rewrite Dp, Db, C in H. cbn [negb orb] in H.
  rewrite forallb_forall in H. specialize (H k Hk). unfold read_ok in H.
  apply orb_true_iff in H. destruct H as [H|H].
  - apply orb_true_iff in H. destruct H as [H|H]; [left|right; left]; now apply memZ_In.
  - right; right. now apply mem_pair_In.
Qed.

(* records with computed keys exist only for the classes on the named list *)
Theorem codec_dynamic_listed : forall sc lc p b, In sc saver_codecs -> In lc loader_codecs ->
  sc_cls sc = lc_cls lc -> sc_ver sc = lc_ver lc -> In p (sc_paths sc) -> In b (lc_paths lc) ->
  sp_dynamic p = true \/ lp_dynamic b = true -> In (cname (sc_cls sc)) dynamic_classes.
Proof.
  intros sc lc p b Hsc Hlc Ec Ev Hp Hb D.
  destruct (reads_facts sc lc p b Hsc Hlc Ec Ev Hp Hb) as [H _].
  assert ((sp_dynamic p || lp_dynamic b) = true) as T. { destruct D as [D|D]; rewrite D; [reflexivity|apply orb_true_r]. }
  rewrite T in H. cbn [negb orb] in H. unfold is_dynamic_class in H.
  apply existsb_exists in H. destruct H as [s [Hs E]]. apply String.eqb_eq in E. now rewrite E.
Qed.

(* every record a saver can return is accepted by some path of the loader registered for the same class and version *)
Theorem codec_every_record_loadable : forall sc p, In sc saver_codecs -> In p (sc_paths sc) -> ~ In (sc_cls sc) codec_write_only ->
  exists lc b, In lc loader_codecs /\ lc_cls lc = sc_cls sc /\ lc_ver lc = sc_ver sc /\ In b (lc_paths lc)
               /\ (sp_dynamic p = true \/ compatible p b = true).
Proof.
  intros sc p Hsc Hp W.
  pose proof chk_loadable_true as H. unfold chk_loadable in H.
  rewrite forallb_forall in H. specialize (H sc Hsc). apply orb_true_iff in H. destruct H as [H|H].
  - exfalso. apply W. now apply memZ_In.
  - rewrite forallb_forall in H. specialize (H p Hp). unfold loadable in H.
    apply existsb_exists in H. destruct H as [lc [Hlc H]]. apply andb_true_iff in H. destruct H as [S H].
    apply existsb_exists in H. destruct H as [b [Hb H]].
    unfold same_codec in S. apply andb_true_iff in S. destruct S as [S1 S2]. apply Z.eqb_eq in S1. apply Z.eqb_eq in S2.
    exists lc, b. repeat split; try assumption; try now symmetry.
    apply orb_true_iff in H. exact H.
Qed.

(* no stored value depends on a test, except the named ones *)
Theorem codec_values_unconditional : forall sc p k, In sc saver_codecs -> In p (sc_paths sc) -> In (k, true) (sp_keys p) ->
  In (cname (sc_cls sc), cname k) legit_value_tests.
Proof.
  intros sc p k Hsc Hp Hk.
  pose proof chk_values_true as H. unfold chk_values in H.
  rewrite forallb_forall in H. specialize (H sc Hsc). rewrite forallb_forall in H. specialize (H p Hp).
  rewrite forallb_forall in H. specialize (H (k, true) Hk). cbn [fst snd negb orb] in H. now apply mem_pair_In.
Qed.

(* a key written on one path of a saver is written on every path of it, except the named ones, and a named one is written
   exactly on the paths singled out by its discriminating key *)
Theorem codec_conditional_keys_listed : forall sc p q k, In sc saver_codecs -> In p (sc_paths sc) -> In q (sc_paths sc) ->
  In k (spath_keys p) -> ~ In k (spath_keys q) ->
  exists d pol, In (cname (sc_cls sc), cname k, d, pol) legit_conditional_keys
    /\ forall r, In r (sc_paths sc) -> memZ k (spath_keys r) = Bool.eqb (writes_named d r) pol.
Proof.
  intros sc p q k Hsc Hp Hq Hk Nk.
  pose proof chk_conditional_true as H. unfold chk_conditional in H.
  rewrite forallb_forall in H. specialize (H sc Hsc). rewrite forallb_forall in H. specialize (H p Hp).
  rewrite forallb_forall in H. specialize (H q Hq). rewrite forallb_forall in H. specialize (H k Hk).
  apply orb_true_iff in H. destruct H as [H|H].
  - exfalso. apply Nk. now apply memZ_In.
  - apply existsb_exists in H. destruct H as [[[[c kn] d] pol] [He H]]. unfold cond_entry_ok in H.
    apply andb_true_iff in H. destruct H as [H H3]. apply andb_true_iff in H. destruct H as [H1 H2].
    apply String.eqb_eq in H1. apply String.eqb_eq in H2. subst c kn.
    exists d, pol. split; [assumption|].
    intros r Hr. rewrite forallb_forall in H3. specialize (H3 r Hr). now apply Bool.eqb_prop in H3.
Qed.

(* when a loader path builds the object by calling the class, every __init__ parameter gets an argument computed from the
   record, except the named ones *)
Theorem codec_ctor_fed : forall lc b args prm, In lc loader_codecs -> In b (lc_paths lc) -> lp_ctor b = Some args ->
  In (prm, false) args -> In (cname (lc_cls lc), cname prm) legit_unfed_params.
Proof.
  intros lc b args prm Hlc Hb E Ha.
  pose proof chk_ctor_fed_true as H. unfold chk_ctor_fed in H.
  rewrite forallb_forall in H. specialize (H lc Hlc). rewrite forallb_forall in H. specialize (H b Hb).
  rewrite E in H. unfold ctor_args_ok in H. rewrite forallb_forall in H. specialize (H (prm, false) Ha).
  cbn [fst snd orb] in H. now apply mem_pair_In.
Qed.
