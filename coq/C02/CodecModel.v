(* C02 — field-level check of the registered saver / loader functions: definitions only.
   The tables (gen/Gen_codecs.v) are regenerated from the source on every run by tools/gen/gen_codecs.py. *)
From Coq Require Import ZArith List Bool String.
Import ListNotations.
From GV Require Import gen.Gen_codecs.
Open Scope Z_scope.

Fixpoint cname_in (l : list (Z * string)) (i : Z) : string :=
  match l with [] => EmptyString | (j, s) :: r => if Z.eqb i j then s else cname_in r i end.
Definition cname (i : Z) : string := cname_in cnames i.

Definition memZ (x : Z) (l : list Z) : bool := existsb (Z.eqb x) l.
Definition subsetZ (a b : list Z) : bool := forallb (fun x => memZ x b) a.
Definition disjointZ (a b : list Z) : bool := forallb (fun x => negb (memZ x b)) a.
Definition mem_pair (p : string * string) (l : list (string * string)) : bool :=
  existsb (fun q => String.eqb (fst q) (fst p) && String.eqb (snd q) (snd p)) l.

Definition spath_keys (p : spath) : list Z := map fst (sp_keys p).

(* a record written along saver path p can take loader path b: everything b found present is written, nothing b found absent is *)
Definition compatible (p : spath) (b : lpath) : bool :=
  subsetZ (lp_present b) (spath_keys p) && disjointZ (lp_absent b) (spath_keys p).

(* ------------------------------------------------------------------ named allow-lists (class, key / parameter), with the reason *)

(* records whose keys are computed, not literal: VisualAttributes is saved as {a: getattr(style, a) for a in style._atts} and
   restored by setattr over the same attribute list (the session oracle compares every attribute of DEFAULT_ATTS) *)
Definition dynamic_classes : list string := ["glue.core.visual.VisualAttributes"%string].

(* a key read by the loader without a test although one saver path does not write it:
   RegionData._extended_component_id is written only when it is not None, but the saver path that omits it never returns a
   record: `data.center_x_id` raises IncompatibleAttribute for a RegionData without extended component (a loud failure at save
   time; the harness session `regiondata:no-extended` re-checks that on every run) *)
Definition legit_unwritten_reads : list (string * string) :=
  [("glue.core.data_region.RegionData", "_extended_component_id")]%string.

(* stored values that depend on a test *)
Definition legit_value_tests : list (string * string) :=
  [ (* metadata is filtered to the entries that can be serialised: the property speaks of *serialisable* metadata *)
    ("glue.core.data.Data", "meta"); ("glue.core.data_region.RegionData", "meta");
    (* the list of component ids whose parent is this dataset: the filter `cid.parent is data` is the definition of the field *)
    ("glue.core.data.Data", "primary_owner"); ("glue.core.data_region.RegionData", "primary_owner")
  ]%string.

(* keys written on some paths of a saver only: (class, key, discriminating key d, polarity).  polarity true: the key is written
   exactly on the paths that write d; false: exactly on the paths that do not write d (checked over all paths of the saver). *)
Definition legit_conditional_keys : list (string * string * string * bool) :=
  [ (* `coords` is written when the dataset has coordinates; the loaders test `'coords' in rec` *)
    ("glue.core.data.Data", "coords", "coords", true); ("glue.core.data_region.RegionData", "coords", "coords", true);
    (* see legit_unwritten_reads *)
    ("glue.core.data_region.RegionData", "_extended_component_id", "_extended_component_id", true);
    (* two record shapes of a stored component: by reference to its load log (include_data off and the component came from a file)
       or by value; the loaders discriminate on `'log' in rec` *)
    ("glue.core.component.Component", "log", "log", true); ("glue.core.component.Component", "log_item", "log", true);
    ("glue.core.component.Component", "data", "log", false); ("glue.core.component.Component", "units", "log", false);
    ("glue.core.component.CategoricalComponent", "log", "log", true); ("glue.core.component.CategoricalComponent", "log_item", "log", true);
    ("glue.core.component.CategoricalComponent", "categorical_data", "log", false); ("glue.core.component.CategoricalComponent", "categories", "log", false);
    ("glue.core.component.CategoricalComponent", "jitter_method", "log", false); ("glue.core.component.CategoricalComponent", "units", "log", false);
    ("glue.core.component.ExtendedComponent", "log", "log", true); ("glue.core.component.ExtendedComponent", "log_item", "log", true);
    ("glue.core.component.ExtendedComponent", "data", "log", false); ("glue.core.component.ExtendedComponent", "units", "log", false);
    ("glue.core.component.ExtendedComponent", "x", "log", false); ("glue.core.component.ExtendedComponent", "y", "log", false);
    (* a function is stored by its importable name or (legacy branch) pickled; the loader discriminates on `'pickle' in rec` *)
    ("builtins.function", "function", "pickle", false); ("builtins.function", "pickle", "pickle", true)
  ]%string.

(* __init__ parameters of the restored class that the loader does not compute from the record *)
Definition legit_unfed_params : list (string * string) :=
  [ (* style attributes are restored by setattr over the saved attribute list after VisualAttributes() (see dynamic_classes) *)
    ("glue.core.visual.VisualAttributes", "parent"); ("glue.core.visual.VisualAttributes", "color");
    ("glue.core.visual.VisualAttributes", "alpha"); ("glue.core.visual.VisualAttributes", "preferred_cmap");
    ("glue.core.visual.VisualAttributes", "linewidth"); ("glue.core.visual.VisualAttributes", "linestyle");
    ("glue.core.visual.VisualAttributes", "marker"); ("glue.core.visual.VisualAttributes", "markersize");
    (* the owner is set when the object is attached: Data.add_subset / Data.add_component / primary_owner *)
    ("glue.core.subset.Subset", "data");
    ("glue.core.component_id.ComponentID", "parent"); ("glue.core.component_id.PixelComponentID", "parent");
    (* coordinates are restored by assignment (`result.coords = ...`) under `'coords' in rec`; RegionData: not restored, not observed *)
    ("glue.core.data.Data", "coords"); ("glue.core.data_region.RegionData", "coords");
    (* a derived component has no stored data: it is recomputed from its link, the parent dataset is set by add_component *)
    ("glue.core.component.DerivedComponent", "data");
    (* descriptive texts of a link (shown by the link editor) and the alternative way to give the inverse as a link; the inverse
       function itself is saved under `inverse`.  Not observables of the property. *)
    ("glue.core.component_link.ComponentLink", "inverse_component_link"); ("glue.core.component_link.ComponentLink", "description");
    ("glue.core.component_link.ComponentLink", "input_names"); ("glue.core.component_link.ComponentLink", "output_name")
  ]%string.

(* ------------------------------------------------------------------ the checks, as boolean functions over the tables *)
Definition same_codec (sc : saver_codec) (lc : loader_codec) : bool := Z.eqb (sc_cls sc) (lc_cls lc) && Z.eqb (sc_ver sc) (lc_ver lc).

Definition read_ok (cls : Z) (p : spath) (k : Z) : bool :=
  memZ k (spath_keys p) || memZ k framework_keys || mem_pair (cname cls, cname k) legit_unwritten_reads.

Definition is_dynamic_class (cls : Z) : bool := existsb (String.eqb (cname cls)) dynamic_classes.

Definition chk_reads : bool :=
  forallb (fun sc => forallb (fun lc => negb (same_codec sc lc) ||
    forallb (fun p => forallb (fun b =>
        (negb (sp_dynamic p || lp_dynamic b) || is_dynamic_class (sc_cls sc))
        && (sp_dynamic p || lp_dynamic b || negb (compatible p b) || forallb (read_ok (sc_cls sc) p) (lp_reads b)))
      (lc_paths lc)) (sc_paths sc)) loader_codecs) saver_codecs.

Definition loadable (sc : saver_codec) (p : spath) : bool :=
  existsb (fun lc => same_codec sc lc && existsb (fun b => sp_dynamic p || compatible p b) (lc_paths lc)) loader_codecs.

Definition chk_loadable : bool :=
  forallb (fun sc => memZ (sc_cls sc) codec_write_only || forallb (loadable sc) (sc_paths sc)) saver_codecs.

Definition chk_values : bool :=
  forallb (fun sc => forallb (fun p => forallb (fun kv =>
      negb (snd kv) || mem_pair (cname (sc_cls sc), cname (fst kv)) legit_value_tests) (sp_keys p)) (sc_paths sc)) saver_codecs.

(* does path r write the key called d? *)
Definition writes_named (d : string) (r : spath) : bool := existsb (fun k => String.eqb (cname k) d) (spath_keys r).

(* the entry (c, k, d, pol) describes key k of saver sc: on every path, k is written iff (d is written) = pol *)
Definition cond_entry_ok (sc : saver_codec) (k : Z) (e : string * string * string * bool) : bool :=
  match e with (c, kn, d, pol) =>
    String.eqb c (cname (sc_cls sc)) && String.eqb kn (cname k)
    && forallb (fun r => Bool.eqb (memZ k (spath_keys r)) (Bool.eqb (writes_named d r) pol)) (sc_paths sc) end.

Definition chk_conditional : bool :=
  forallb (fun sc => forallb (fun p => forallb (fun q => forallb (fun k =>
      memZ k (spath_keys q) || existsb (cond_entry_ok sc k) legit_conditional_keys) (spath_keys p)) (sc_paths sc)) (sc_paths sc)) saver_codecs.

Definition ctor_args_ok (cls : Z) (o : option (list (Z * bool))) : bool :=
  match o with None => true
  | Some args => forallb (fun a => snd a || mem_pair (cname cls, cname (fst a)) legit_unfed_params) args end.

Definition chk_ctor_fed : bool :=
  forallb (fun lc => forallb (fun b => ctor_args_ok (lc_cls lc) (lp_ctor b)) (lc_paths lc)) loader_codecs.

(* wire entry (tag 5): class name number, key number -> [written on every path; written on some path; value depends on a test on some path] *)
Definition codec_query (cls ver k : Z) : list Z :=
  match find (fun sc => Z.eqb (sc_cls sc) cls && Z.eqb (sc_ver sc) ver) saver_codecs with
  | None => []
  | Some sc =>
      [ if forallb (fun p => memZ k (spath_keys p)) (sc_paths sc) then 1 else 0;
        if existsb (fun p => memZ k (spath_keys p)) (sc_paths sc) then 1 else 0;
        if existsb (fun p => existsb (fun kv => Z.eqb (fst kv) k && snd kv) (sp_keys p)) (sc_paths sc) then 1 else 0 ]
  end.
