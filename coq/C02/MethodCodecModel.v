(* C02 — the __gluestate__ / __setgluestate__ method pairs of the classes of the class table: definitions only.
   The table (gen/Gen_methodcodecs.v) is regenerated from the source on every run by tools/gen/gen_codecs.py:
   per saver path and key, the attributes of the instance the stored value is computed from, and every transformation between the
   attribute and context.id / context.do that is not on the extractor's lossless list (attribute access, np.asarray, .tolist(),
   .items(), list / tuple / dict / str / float / int, displays, comprehensions and map without a filter); per loader and key, every
   transformation between rec[key] and the constructor argument / attribute it ends in beyond context.object, np.asarray,
   list / tuple / dict, displays, comprehensions.  A session codec must not change a float64: `.astype(np.float32)`, `np.round`,
   arithmetic, slicing, a helper method are all named entries here, and only the listed ones are accepted. *)
From Coq Require Import List Bool String.
Import ListNotations.
From GV Require Import gen.Gen_methodcodecs.
Local Open Scope string_scope.

Definition mem3 (t : string * string * string) (l : list (string * string * string)) : bool :=
  match t with (a, b, c) =>
    existsb (fun q => match q with (x, y, z) => String.eqb x a && String.eqb y b && String.eqb z c end) l end.

Definition mem2 (t : string * string) (l : list (string * string)) : bool :=
  existsb (fun q => String.eqb (fst q) (fst t) && String.eqb (snd q) (snd t)) l.

Definition mem1 (s : string) (l : list string) : bool := existsb (String.eqb s) l.

(* ------------------------------------------------------------------ named allow-lists, each entry with its reason *)

(* (class defining __gluestate__, key, transformation) that the unchanged code applies between the instance and the record *)
Definition legit_saver_transformations : list (string * string * string) :=
  [ (* ComponentLink.get_to_id() is the accessor of the attribute `_to` (returns it unchanged); the output id of the link *)
    ("glue.core.parse.ParsedComponentLink", "to", "self.get_to_id()");
    (* a State object (viewer / layer / pretransform states) is saved as the dictionary of all its callback properties:
       as_dict() enumerates them, values unchanged; exercised by C12's viewer sessions and the pretransform sessions here *)
    ("glue.core.state_objects.State", "values", "self.as_dict()")
  ].

(* (class defining __setgluestate__, key, transformation) applied to the stored value on the way back *)
Definition legit_loader_transformations : list (string * string * string) :=
  [ (* records written before glue-core 0.15 hold one list `cids`, split at len(labels1) into the two sides *)
    ("glue.core.link_helpers.LinkCollection", "cids", "slice");
    (* the dataset is not stored (circular reference) but recovered as the parent of the restored attribute; when the parent is not
       restored yet the state is completed in __setgluestate_callback__: the test chooses between the two, the value is unchanged *)
    ("glue.core.subset.FloodFillSubsetState", "attribute", ".parent");
    ("glue.core.subset.FloodFillSubsetState", "attribute", "test");
    (* the deferred branch repeats the normalisation of __init__ (threshold is kept as a Python float; float() of a float is exact) *)
    ("glue.core.subset.FloodFillSubsetState", "threshold", "float()")
  ].

(* (class defining __setgluestate__, key) read by the loader although the paired __gluestate__ does not write it *)
Definition legit_method_unwritten_reads : list (string * string) :=
  [ (* see legit_loader_transformations: the pre-0.15 record shape, read only under `'data1' not in rec` *)
    ("glue.core.link_helpers.LinkCollection", "cids")
  ].

(* ------------------------------------------------------------------ the checks *)
Definition mkey_ok (cls : string) (k : mkey) : bool :=
  forallb (fun t => mem3 (cls, mk_key k, t) legit_saver_transformations) (mk_lossy k).

Definition chk_method_values : bool :=
  forallb (fun sv => forallb (fun p => negb (msp_dynamic p) && forallb (mkey_ok (ms_cls sv)) (msp_keys p)) (ms_paths sv)) method_savers.

Definition chk_method_loaders : bool :=
  forallb (fun ld => negb (ml_dynamic ld) &&
     forallb (fun r => forallb (fun t => mem3 (ml_cls ld, mr_key r, t) legit_loader_transformations) (mr_steps r)) (ml_reads ld)) method_loaders.

Definition path_writes (p : mspath) (k : string) : bool := existsb (fun m => String.eqb (mk_key m) k) (msp_keys p).

(* for every (saver provider, loader provider) pair of a concrete class: both are in the tables, and every key the loader reads is
   written on every path of the saver, or is on the named list *)
Definition pair_reads_ok (pr : string * string) : bool :=
  match find (fun sv => String.eqb (ms_cls sv) (fst pr)) method_savers, find (fun ld => String.eqb (ml_cls ld) (snd pr)) method_loaders with
  | Some sv, Some ld =>
      forallb (fun p => forallb (fun r => path_writes p (mr_key r) || mem2 (ml_cls ld, mr_key r) legit_method_unwritten_reads) (ml_reads ld)) (ms_paths sv)
  | _, _ => false
  end.

Definition chk_method_pairs : bool := forallb pair_reads_ok method_pairs.
