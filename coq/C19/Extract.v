From Coq Require Import ZArith ExtrOcamlBasic.
From GV Require Import Common.Wire C19.Model.
Extraction "c19_model.ml" run_case Z.add Z.mul Z.div_eucl Z.opp.
