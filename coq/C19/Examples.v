(* C19 — sanity runs and non-vacuity *)
From Coq Require Import ZArith List Bool.
Import ListNotations.
From GV Require Import Common.Wire C19.Model C19.Lemmas gen.Gen_exporters C19.GenEquiv.
Open Scope Z_scope.

Definition cols1 : list column :=
  [mkC 10 KFLOAT false [12; NAN; 26; -16]; mkC 13 KFLOAT true [24; NAN; 52; -32]; mkC 11 KINT false [3; -1; 0; 7]; mkC 12 KSTR false [1; 2; 0; 3]].
Definition m1 : list bool := [true; false; false; true].

(* table formats: rows filtered, derived component last *)
Example csv_subset : export 0 1 (Some m1) (-8) cols1 =
  [(10, KFLOAT, [12; -16]); (11, KINT, [3; 7]); (12, KSTR, [1; 3]); (13, KFLOAT, [24; -32])].
Proof. vm_compute. reflexivity. Qed.

(* HDF5, 2-d: masked-out pixels become NaN / 0 / '' *)
Example hdf5_image : export 3 2 (Some m1) (-8) cols1 =
  [(10, KFLOAT, [12; NAN; NAN; -16]); (11, KINT, [3; 0; 0; 7]); (12, KSTR, [1; EMPTY; EMPTY; 3]); (13, KFLOAT, [24; NAN; NAN; -32])].
Proof. vm_compute. reflexivity. Qed.

(* gridded FITS: no text component, integers blanked with iinfo.min (here -8), even for 1-d data *)
Example fits_image : export 4 1 (Some m1) (-8) cols1 =
  [(10, KFLOAT, [12; NAN; NAN; -16]); (11, KINT, [3; -8; -8; 7]); (13, KFLOAT, [24; NAN; NAN; -32])].
Proof. vm_compute. reflexivity. Qed.

(* the hypotheses of the theorems are satisfiable by a non-trivial case *)
Example shaped : well_shaped (Some m1) cols1.
Proof. simpl. intros c [H | [H | [H | [H | []]]]]; subst; reflexivity. Qed.

Example selected_positions : true_idx m1 = [0%nat; 3%nat].
Proof. reflexivity. Qed.

(* empty and full selections *)
Example empty_selection : export 1 1 (Some [false; false; false; false]) 0 cols1 =
  [(10, KFLOAT, []); (11, KINT, []); (12, KSTR, []); (13, KFLOAT, [])].
Proof. vm_compute. reflexivity. Qed.
Example full_selection : export 2 1 (Some [true; true; true; true]) 0 cols1 = export 2 1 None 0 cols1.
Proof. vm_compute. reflexivity. Qed.

(* ---------------- the translated exporters ---------------- *)
(* flux (float), count (int16, iinfo.min = -32768), name (unicode text, categorical), and two derived components:
   cum = running total of flux (a whole-column link function), twice = 2 * count (element-wise) *)
Definition dcols1 : list dcol :=
  [mkD 10 GNUM KFLOAT 0 false [[12; NAN; 26; -16]] (link_fn 0);
   mkD 13 GNUM KFLOAT 0 true [[12; NAN; 26; -16]] (link_fn 2);
   mkD 11 GNUM KINT (-32768) false [[3; -1; 0; 7]] (link_fn 0);
   mkD 12 GCAT KSTR 0 false [[1; 2; 5; 3]] (link_fn 0);
   mkD 14 GNUM KINT (-32768) true [[3; -1; 0; 7]] (link_fn 1)].
Definition data1 (ndim : Z) : dset := mkDS ndim true false dcols1.
Definition enc1 (z : Z) : Z := if z =? 5 then 6 else z.    (* one non-ASCII label becomes another text *)

(* CSV of a subset: the selected rows of the FULL running total [12; 12; 38; 22], not the running total of the selected rows *)
Example gen_csv_subset : data_to_astropy_table enc1 (Some m1) (data1 1) None =
  Some [(10, mkA KFLOAT 1 0 [12; -16]); (11, mkA KINT 1 (-32768) [3; 7]); (12, mkA KSTR 1 0 [1; 3]);
        (13, mkA KFLOAT 1 0 [12; 22]); (14, mkA KINT 1 (-32768) [6; 14])].
Proof. vm_compute. reflexivity. Qed.
(* fetching with the view is a different node with a different value for the whole-column link: cumsum of the selected rows *)
Example fetch_view_differs : a_vals (fetch (data1 1) (nth 1 dcols1 (mkD 0 0 0 0 false [] (link_fn 0))) (Some m1)) = [12; -4]
  /\ select m1 (a_vals (fetch (data1 1) (nth 1 dcols1 (mkD 0 0 0 0 false [] (link_fn 0))) None)) = [12; 22].
Proof. vm_compute. split; reflexivity. Qed.
(* HDF5, 2-d, components= filter: text ASCII-encoded then blanked with '', integers with 0 *)
Example gen_hdf5_image : hdf5_writer enc1 (Some m1) (data1 2) (Some [12; 14; 10]) =
  Some [(10, mkA KFLOAT 2 0 [12; NAN; NAN; -16]); (12, mkA KBYTES 2 0 [1; EMPTY; EMPTY; 3]); (14, mkA KINT 2 (-32768) [6; 0; 0; 14])].
Proof. vm_compute. reflexivity. Qed.
(* gridded FITS: numerical components only, BLANK = iinfo.min on the integer HDUs *)
Example gen_fits_image : option_map (map (fun w : whdu => (fst (fst w), a_vals (snd (fst w)), h_blank (snd w)))) (fits_writer enc1 (Some m1) (data1 1) None) =
  Some [(10, [12; NAN; NAN; -16], None); (11, [3; -32768; -32768; 7], Some (-32768));
        (13, [12; NAN; NAN; 22], None); (14, [6; -32768; -32768; 14], Some (-32768))].
Proof. vm_compute. reflexivity. Qed.
(* the hypotheses of the transported theorems are satisfiable by this non-trivial dataset, for every format *)
Example wf_all : forall fmt, 0 <= fmt <= 4 -> wf_data fmt (-32768) (data1 1).
Proof.
  intros fmt _ c H. simpl in H.
  destruct H as [H | [H | [H | [H | [H | []]]]]]; subst c; unfold wf_hdf5, wf_fits; simpl; split; intros _;
    repeat split; try tauto; try (intros; discriminate); try (intros E; exfalso; apply E; reflexivity); try (right; right; right; split; reflexivity).
Qed.
Example gen_shaped1 : gen_shaped (Some m1) (data1 1).
Proof. simpl. intros d [H | [H | [H | [H | [H | []]]]]]; subst d; reflexivity. Qed.
Example gen_is_model_csv : gen_export 0 enc1 (Some m1) (data1 1) None = Some (export 0 1 (Some m1) 0 (columns_of 0 enc1 (data1 1) None)).
Proof. vm_compute. reflexivity. Qed.
