(* C19 — sanity runs and non-vacuity *)
From Coq Require Import ZArith List Bool.
Import ListNotations.
From GV Require Import Common.Wire C19.Model C19.Lemmas.
Open Scope Z_scope.

Definition cols1 : list column :=
  [mkC 10 KFLOAT false [12; NAN; 26; -16]; mkC 13 KFLOAT true [24; NAN; 52; -32]; mkC 11 KINT false [3; -1; 0; 7]; mkC 12 KSTR false [1; 2; 0; 3]].
Definition m1 : list bool := [true; false; false; true].

(* table formats: rows filtered, derived component last *)
Example csv_subset : export 0 1 (Some m1) (-8) cols1 =
  [(10, KFLOAT, [12; -16]); (11, KINT, [3; 7]); (12, KSTR, [1; 3]); (13, KFLOAT, [24; -32])].
Proof. vm_compute. reflexivity. Qed.

(* HDF5, 2-d: masked-out pixels become NaN / 0 / '' *)
Example hdf5_image : export 3 2 (Some m1) (-8) cols1 =
  [(10, KFLOAT, [12; NAN; NAN; -16]); (11, KINT, [3; 0; 0; 7]); (12, KSTR, [1; EMPTY; EMPTY; 3]); (13, KFLOAT, [24; NAN; NAN; -32])].
Proof. vm_compute. reflexivity. Qed.

(* gridded FITS: no text component, integers blanked with iinfo.min (here -8), even for 1-d data *)
Example fits_image : export 4 1 (Some m1) (-8) cols1 =
  [(10, KFLOAT, [12; NAN; NAN; -16]); (11, KINT, [3; -8; -8; 7]); (13, KFLOAT, [24; NAN; NAN; -32])].
Proof. vm_compute. reflexivity. Qed.

(* the hypotheses of the theorems are satisfiable by a non-trivial case *)
Example shaped : well_shaped (Some m1) cols1.
Proof. simpl. intros c [H | [H | [H | [H | []]]]]; subst; reflexivity. Qed.

Example selected_positions : true_idx m1 = [0%nat; 3%nat].
Proof. reflexivity. Qed.

(* empty and full selections *)
Example empty_selection : export 1 1 (Some [false; false; false; false]) 0 cols1 =
  [(10, KFLOAT, []); (11, KINT, []); (12, KSTR, []); (13, KFLOAT, [])].
Proof. vm_compute. reflexivity. Qed.
Example full_selection : export 2 1 (Some [true; true; true; true]) 0 cols1 = export 2 1 None 0 cols1.
Proof. vm_compute. reflexivity. Qed.
