From Coq Require Import ZArith List Bool.
Import ListNotations.
From GV Require Import C19.Model C19.Lemmas.
Open Scope Z_scope.

(* Row filtering (CSV, FITS table, VO table; HDF5 for 1-d data): the written table consists of exactly the exportable
   components - main components, then derived ones, each group in its original order - under their names and dtype
   kinds, and every column holds exactly the values at the selected positions in increasing position; the selected
   positions are exactly those where the mask is true. *)
Theorem export_selects_rows : forall fmt ndim m blank cols,
  row_mode fmt ndim = true ->
  (forall c, In c cols -> length m = length (c_vals c)) ->
  export fmt ndim (Some m) blank cols =
  map (fun c => (c_name c, c_kind c, pick (c_vals c) (true_idx m)))
      (filter (exportable fmt) (filter (fun c => negb (c_derived c)) cols ++ filter c_derived cols))
  /\ (forall i, In i (true_idx m) <-> (i < length m)%nat /\ nth i m false = true).
Proof. exact Lemmas.export_selects_rows. Qed.
Print Assumptions export_selects_rows.

(* No row filtering (n-d HDF5, gridded FITS): the same components in the same order (text dropped by gridded FITS),
   each written with its full size, selected pixels unchanged, every other pixel replaced by the fill of its dtype
   kind (NaN; 0 for HDF5 integers, BLANK = iinfo.min for FITS integers; the empty string). *)
Theorem export_masks_pixels : forall fmt ndim m blank cols,
  row_mode fmt ndim = false ->
  (forall c, In c cols -> length m = length (c_vals c)) ->
  map (fun w => fst (fst w)) (export fmt ndim (Some m) blank cols) =
    map c_name (filter (exportable fmt) (filter (fun c => negb (c_derived c)) cols ++ filter c_derived cols)) /\
  forall c, In c (filter (exportable fmt) (ordered cols)) ->
    let out := snd (export_col fmt ndim (Some m) blank c) in
    In (export_col fmt ndim (Some m) blank c) (export fmt ndim (Some m) blank cols) /\
    length out = length (c_vals c) /\
    forall i, (i < length (c_vals c))%nat ->
      nth i out 0 = if nth i m false then nth i (c_vals c) 0 else fill_of fmt (c_kind c) blank.
Proof. exact Lemmas.export_masks_pixels. Qed.
Print Assumptions export_masks_pixels.

(* For ANY file codec (writer enc, reader dec) that returns what it was given in the form the format can represent
   (dec (enc t) = normalise t), loading an exported dataset or subset gives the normal form of the specified table:
   selected rows / masked pixels of exactly the exportable components in order.  The codecs themselves (astropy,
   h5py, pandas) are outside the proof; this is the part of the property that rests on the oracle runs. *)
Theorem roundtrip_modulo_codec :
  forall (file : Type) (enc : Z -> list wcol -> file) (dec : Z -> file -> list wcol) (normalise : Z -> list wcol -> list wcol),
  (forall fmt t, dec fmt (enc fmt t) = normalise fmt t) ->
  forall fmt ndim omask blank cols,
  well_shaped omask cols ->
  dec fmt (export_file file enc fmt ndim omask blank cols) = normalise fmt (spec_table fmt ndim omask blank cols).
Proof. exact Lemmas.roundtrip_modulo_codec. Qed.
Print Assumptions roundtrip_modulo_codec.
