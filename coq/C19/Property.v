From Coq Require Import ZArith List Bool.
Import ListNotations.
From GV Require Import C19.Model C19.Lemmas gen.Gen_exporters C19.GenEquiv.
Open Scope Z_scope.

(* Row filtering (CSV, FITS table, VO table; HDF5 for 1-d data): the written table consists of exactly the exportable
   components - main components, then derived ones, each group in its original order - under their names and dtype
   kinds, and every column holds exactly the values at the selected positions in increasing position; the selected
   positions are exactly those where the mask is true. *)
Theorem export_selects_rows : forall fmt ndim m blank cols,
  row_mode fmt ndim = true ->
  (forall c, In c cols -> length m = length (c_vals c)) ->
  export fmt ndim (Some m) blank cols =
  map (fun c => (c_name c, c_kind c, pick (c_vals c) (true_idx m)))
      (filter (exportable fmt) (filter (fun c => negb (c_derived c)) cols ++ filter c_derived cols))
  /\ (forall i, In i (true_idx m) <-> (i < length m)%nat /\ nth i m false = true).
Proof. exact Lemmas.export_selects_rows. Qed.
Print Assumptions export_selects_rows.

(* No row filtering (n-d HDF5, gridded FITS): the same components in the same order (text dropped by gridded FITS),
   each written with its full size, selected pixels unchanged, every other pixel replaced by the fill of its dtype
   kind (NaN; 0 for HDF5 integers, BLANK = iinfo.min for FITS integers; the empty string). *)
Theorem export_masks_pixels : forall fmt ndim m blank cols,
  row_mode fmt ndim = false ->
  (forall c, In c cols -> length m = length (c_vals c)) ->
  map (fun w => fst (fst w)) (export fmt ndim (Some m) blank cols) =
    map c_name (filter (exportable fmt) (filter (fun c => negb (c_derived c)) cols ++ filter c_derived cols)) /\
  forall c, In c (filter (exportable fmt) (ordered cols)) ->
    let out := snd (export_col fmt ndim (Some m) blank c) in
    In (export_col fmt ndim (Some m) blank c) (export fmt ndim (Some m) blank cols) /\
    length out = length (c_vals c) /\
    forall i, (i < length (c_vals c))%nat ->
      nth i out 0 = if nth i m false then nth i (c_vals c) 0 else fill_of fmt (c_kind c) blank.
Proof. exact Lemmas.export_masks_pixels. Qed.
Print Assumptions export_masks_pixels.

(* For ANY file codec (writer enc, reader dec) that returns what it was given in the form the format can represent
   (dec (enc t) = normalise t), loading an exported dataset or subset gives the normal form of the specified table:
   selected rows / masked pixels of exactly the exportable components in order.  The codecs themselves (astropy,
   h5py, pandas) are outside the proof; this is the part of the property that rests on the oracle runs. *)
Theorem roundtrip_modulo_codec :
  forall (file : Type) (enc : Z -> list wcol -> file) (dec : Z -> file -> list wcol) (normalise : Z -> list wcol -> list wcol),
  (forall fmt t, dec fmt (enc fmt t) = normalise fmt t) ->
  forall fmt ndim omask blank cols,
  well_shaped omask cols ->
  dec fmt (export_file file enc fmt ndim omask blank cols) = normalise fmt (spec_table fmt ndim omask blank cols).
Proof. exact Lemmas.roundtrip_modulo_codec. Qed.
Print Assumptions roundtrip_modulo_codec.

(* ======== the exporters TRANSLATED from the current source (coq/gen/Gen_exporters.v, regenerated on every run) ======== *)

(* data_to_astropy_table, hdf5_writer and fits_writer as translated statement by statement from glue/core/data_exporters
   compute, for every dataset of component records, subset mask and components= filter, exactly the hand model's export
   of the listed components (gen_export projects the written arrays to name / kind / values; for HDF5 the unicode text
   columns are the ASCII-encoded ones).  wf_data: the dtype kinds the exporters handle (f, i, S, and U for categorical
   components; numerical = f or i for gridded FITS, whose integer components share one BLANK in the hand model). *)
Theorem gen_export_is_model : forall fmt enc sub data comps blank,
  0 <= fmt <= 4 -> wf_data fmt blank data ->
  gen_export fmt enc sub data comps = Some (export fmt (ds_ndim data) sub blank (columns_of fmt enc data comps)).
Proof. exact GenEquiv.gen_export_is_model. Qed.
Print Assumptions gen_export_is_model.

(* export_selects_rows for the translated functions: with row filtering they write exactly the listed exportable components,
   main then derived, and every column is the values of the ORIGINAL full column at exactly the selected positions. *)
Theorem gen_export_selects_rows : forall fmt enc m data comps blank,
  0 <= fmt <= 4 -> wf_data fmt blank data ->
  row_mode fmt (ds_ndim data) = true ->
  (forall d, In d (ds_cols data) -> length m = length (full data d)) ->
  let cols := columns_of fmt enc data comps in
  gen_export fmt enc (Some m) data comps =
  Some (map (fun c => (c_name c, c_kind c, pick (c_vals c) (true_idx m)))
            (filter (exportable fmt) (filter (fun c => negb (c_derived c)) cols ++ filter c_derived cols)))
  /\ (forall i, In i (true_idx m) <-> (i < length m)%nat /\ nth i m false = true).
Proof. exact GenEquiv.gen_export_selects_rows. Qed.
Print Assumptions gen_export_selects_rows.

(* export_masks_pixels for the translated functions (n-d HDF5, gridded FITS). *)
Theorem gen_export_masks_pixels : forall fmt enc m data comps blank,
  0 <= fmt <= 4 -> wf_data fmt blank data ->
  row_mode fmt (ds_ndim data) = false ->
  (forall d, In d (ds_cols data) -> length m = length (full data d)) ->
  let cols := columns_of fmt enc data comps in
  exists out, gen_export fmt enc (Some m) data comps = Some out /\
  map (fun w => fst (fst w)) out =
    map c_name (filter (exportable fmt) (filter (fun c => negb (c_derived c)) cols ++ filter c_derived cols)) /\
  forall c, In c (filter (exportable fmt) (ordered cols)) ->
    let w := export_col fmt (ds_ndim data) (Some m) blank c in
    In w out /\ length (snd w) = length (c_vals c) /\
    forall i, (i < length (c_vals c))%nat ->
      nth i (snd w) 0 = if nth i m false then nth i (c_vals c) 0 else fill_of fmt (c_kind c) blank.
Proof. exact GenEquiv.gen_export_masks_pixels. Qed.
Print Assumptions gen_export_masks_pixels.

(* roundtrip_modulo_codec for the translated functions. *)
Theorem gen_roundtrip_modulo_codec :
  forall (file : Type) (encf : Z -> list wcol -> file) (dec : Z -> file -> list wcol) (normalise : Z -> list wcol -> list wcol),
  (forall fmt t, dec fmt (encf fmt t) = normalise fmt t) ->
  forall fmt enc sub data comps blank,
  0 <= fmt <= 4 -> wf_data fmt blank data -> gen_shaped sub data ->
  exists out, gen_export fmt enc sub data comps = Some out /\
  dec fmt (encf fmt out) = normalise fmt (spec_table fmt (ds_ndim data) sub blank (columns_of fmt enc data comps)).
Proof. exact GenEquiv.gen_roundtrip_modulo_codec. Qed.
Print Assumptions gen_roundtrip_modulo_codec.

(* The translated table exporter writes, for a subset, the selected rows of the full column d_fn (d_srcs) of every listed
   component: a derived component's link function sees the WHOLE source columns, the selection comes afterwards. *)
Theorem gen_table_selects_from_full_columns : forall enc m data comps,
  data_to_astropy_table enc (Some m) data comps =
  Some (map (fun c => (d_name c, mkA (d_kind c) 1 (d_imin c) (select m (d_fn c (d_srcs c)))))
            (filter (listed comps) (filter (fun c => negb (d_derived c)) (ds_cols data) ++ filter d_derived (ds_cols data)))).
Proof. exact GenEquiv.gen_table_selects_from_full_columns. Qed.
Print Assumptions gen_table_selects_from_full_columns.

(* The translated gridded-FITS exporter writes the BLANK keyword exactly on the integer images of a subset, with
   iinfo(dtype).min of that component's own dtype. *)
Theorem gen_fits_blank_keyword : forall enc sub data comps,
  (forall c, In c (ds_cols data) -> wf_fits c) ->
  exists hdus, fits_writer enc sub data comps = Some hdus /\
  map (fun w : whdu => h_blank (snd w)) hdus =
  map (fun c => if (d_kind c =? KINT) && is_subset sub then Some (d_imin c) else None)
      (filter (fun c => d_gkind c =? GNUM) (filter (listed comps) (main_components data ++ derived_components data))).
Proof. exact GenEquiv.gen_fits_blank_keyword. Qed.
Print Assumptions gen_fits_blank_keyword.
