(* C19 — the abstract objects and primitive operations that the TRANSLATED exporters (coq/gen/Gen_exporters.v, regenerated
   from glue/core/data_exporters/{astropy_table,hdf5,gridded_fits}.py on every run) are written in.  Definitions only.

   A dataset is a list of component records; a component's values are a FUNCTION of its stored source columns
   (identity for a main component, the link function for a derived one), so that fetching with a view
   (data[cid, mask]: the function applied to the selected source rows) and fetching everything and then selecting
   (data[cid][mask]) are different nodes with different meanings: they agree for main components and element-wise links
   only.  Values are integer tokens as in Model.v. *)
From Coq Require Import ZArith List Bool.
Import ListNotations.
Open Scope Z_scope.

(* dtype kinds (numpy dtype.kind) *)
Definition KFLOAT : Z := 0.   (* 'f' *)
Definition KINT : Z := 1.     (* 'i' *)
Definition KSTR : Z := 2.     (* 'U' (text; the hand model merges 'U' and 'S' into this kind) *)
Definition KBYTES : Z := 3.   (* 'S' *)
Definition NAN : Z := 2 ^ 80.
Definition EMPTY : Z := 0.
(* glue kinds (Data.get_kind) *)
Definition GNUM : Z := 0.
Definition GCAT : Z := 1.

(* values[mask] *)
Fixpoint select (mask : list bool) (vals : list Z) : list Z :=
  match mask, vals with
  | b :: m, v :: t => if b then v :: select m t else select m t
  | _, _ => []
  end.

(* values[~mask] = fill *)
Fixpoint mask_fill (fill : Z) (mask : list bool) (vals : list Z) : list Z :=
  match mask, vals with
  | b :: m, v :: t => (if b then v else fill) :: mask_fill fill m t
  | _, _ => []
  end.

(* a component of a dataset *)
Record dcol := mkD {
  d_name : Z;                         (* cid.label *)
  d_gkind : Z;                        (* data.get_kind(cid): 0 numerical, 1 categorical, 2 datetime, 3 extended *)
  d_kind : Z;                         (* data[cid].dtype.kind *)
  d_imin : Z;                         (* np.iinfo(data[cid].dtype).min (integer dtypes) *)
  d_derived : bool;                   (* in data.derived_components (else in data.main_components) *)
  d_srcs : list (list Z);             (* the stored columns it is computed from (itself, for a main component) *)
  d_fn : list (list Z) -> list Z      (* the link function (first projection for a main component) *)
}.
Record dset := mkDS { ds_ndim : Z; ds_is_data : bool; ds_has_wcs : bool; ds_cols : list dcol }.

(* a numpy array as far as the exporters look at it *)
Record arr := mkA { a_kind : Z; a_ndim : Z; a_imin : Z; a_vals : list Z }.

(* data[cid] (view = None)  /  data[cid, mask] (view = Some m: every source is cut down to the selected rows FIRST) *)
Definition fetch (data : dset) (c : dcol) (view : option (list bool)) : arr :=
  match view with
  | None => mkA (d_kind c) (ds_ndim data) (d_imin c) (d_fn c (d_srcs c))
  | Some m => mkA (d_kind c) 1 (d_imin c) (d_fn c (map (select m) (d_srcs c)))
  end.

Definition main_components (data : dset) : list dcol := filter (fun c => negb (d_derived c)) (ds_cols data).
Definition derived_components (data : dset) : list dcol := filter d_derived (ds_cols data).

(* the object handed to an exporter: a Subset (with its mask) or the dataset itself *)
Definition is_subset (sub : option (list bool)) : bool := match sub with Some _ => true | None => false end.
Definition to_mask (sub : option (list bool)) : list bool := match sub with Some m => m | None => [] end.

Definition is_none {A : Type} (o : option A) : bool := match o with None => true | Some _ => false end.
Definition oget {A : Type} (o : option (list A)) : list A := match o with Some l => l | None => [] end.
(* cid in components *)
Definition cid_in (c : dcol) (components : option (list Z)) : bool := existsb (Z.eqb (d_name c)) (oget components).

(* values[mask] ; values[~mask] = x ; np.char.encode(values, encoding='ascii', errors='replace') ; values.copy() *)
Definition arr_pick (values : arr) (m : list bool) : arr := mkA (a_kind values) 1 (a_imin values) (select m (a_vals values)).
Definition arr_fill (values : arr) (keep : list bool) (x : Z) : arr :=
  mkA (a_kind values) (a_ndim values) (a_imin values) (mask_fill x keep (a_vals values)).
Definition arr_encode (enc : Z -> Z) (values : arr) : arr := mkA KBYTES (a_ndim values) (a_imin values) (map enc (a_vals values)).
Definition arr_copy (values : arr) : arr := values.

(* a local that may be unbound, None or an integer (blank in fits_writer) *)
Inductive pyopt := PUnbound | PNone | PSome (z : Z).

(* FITS header as far as modelled: where it came from (0 fits.Header(), 1 data.coords.to_header()), the component whose
   units were put in BUNIT by make_component_header, and the BLANK keyword *)
Record hdr := mkH { h_src : Z; h_bunit : option Z; h_blank : option Z }.
Definition hdr_empty : hdr := mkH 0 None None.
Definition hdr_wcs : hdr := mkH 1 None None.
Definition hdr_component (comp : Z) (h : hdr) : hdr := mkH (h_src h) (Some comp) (h_blank h).
Definition hdr_set_blank (h : hdr) (z : Z) : hdr := mkH (h_src h) (h_bunit h) (Some z).

Definition wds : Type := (Z * arr)%type.          (* a table column / an HDF5 dataset: label, array *)
Definition whdu : Type := (Z * arr * hdr)%type.   (* an image HDU: name, array, header *)

(* ---- link functions by code (what the harness builds with ComponentLink(using=...)), on tokens ---- *)
Definition nan_to_zero (x : Z) : Z := if x =? NAN then 0 else x.
Definition nadd (x y : Z) : Z := if (x =? NAN) || (y =? NAN) then NAN else x + y.
Fixpoint running (acc : Z) (l : list Z) : list Z :=
  match l with [] => [] | x :: t => let s := acc + nan_to_zero x in s :: running s t end.
Definition nansum (l : list Z) : Z := fold_left (fun a x => a + nan_to_zero x) l 0.
Fixpoint zip_add (a b : list Z) : list Z :=
  match a, b with x :: s, y :: t => nadd x y :: zip_add s t | _, _ => [] end.
Definition zcount (p : Z -> bool) (l : list Z) : Z := Z.of_nat (length (filter p l)).
(* position in the stable sort: smaller values first, ties by position *)
Fixpoint ranks (before after : list Z) : list Z :=
  match after with
  | [] => []
  | x :: t => (zcount (fun y => y <=? x) before + zcount (fun y => y <? x) t) :: ranks (before ++ [x]) t
  end.
Definition roll1 (l : list Z) : list Z := match rev l with [] => [] | x :: r => x :: rev r end.
Definition src (k : nat) (ss : list (list Z)) : list Z := nth k ss [].
Definition link_fn (code : Z) (ss : list (list Z)) : list Z :=
  let f := src 0 ss in
  if code =? 1 then map (fun x => nadd x x) f
  else if code =? 2 then running 0 f
  else if code =? 3 then map (fun x => if x =? NAN then NAN else x * Z.of_nat (length f) - nansum f) f
  else if code =? 4 then ranks [] f
  else if code =? 5 then rev f
  else if code =? 6 then roll1 f
  else if code =? 7 then zip_add f (src 1 ss)
  else if code =? 8 then zip_add f (rev (src 1 ss))
  else f.
