(* C19 — proofs: what the exporters write is exactly the selected rows / the masked image of exactly the exportable
   components, in order; round trip modulo an abstract file codec *)
From Coq Require Import ZArith List Bool Lia.
Import ListNotations.
From GV Require Import Common.Wire C19.Model.
Open Scope Z_scope.

(* ---------------- values[mask] is the list of values at the true positions, in increasing order ---------------- *)
Lemma pick_map_S : forall v t l, pick (v :: t) (map S l) = pick t l.
Proof. intros v t l. unfold pick. rewrite map_map. reflexivity. Qed.

Lemma select_pick : forall m vals, length m = length vals -> select m vals = pick vals (true_idx m).
Proof.
  induction m as [| b m IH]; intros vals H; destruct vals as [| v t]; simpl in *; try discriminate; [reflexivity |].
  injection H as H. unfold pick at 1. rewrite map_app. fold (pick (v :: t) (map S (true_idx m))).
  rewrite pick_map_S. rewrite <- IH by exact H.
  destruct b; reflexivity.
Qed.

Lemma true_idx_bound : forall m i, In i (true_idx m) -> (i < length m)%nat /\ nth i m false = true.
Proof.
  induction m as [| b m IH]; intros i H; simpl in H; [destruct H |].
  apply in_app_or in H. destruct H as [H | H].
  - destruct b; [| destruct H]. destruct H as [H | []]. subst i. simpl. split; [lia | reflexivity].
  - apply in_map_iff in H. destruct H as [j [E Hj]]. subst i. destruct (IH j Hj) as [A B]. simpl. split; [lia | exact B].
Qed.

Lemma true_idx_complete : forall m i, (i < length m)%nat -> nth i m false = true -> In i (true_idx m).
Proof.
  induction m as [| b m IH]; intros i H1 H2; simpl in *; [lia |].
  apply in_or_app. destruct i as [| j].
  - left. subst b. left. reflexivity.
  - right. apply in_map. apply IH; [lia | exact H2].
Qed.

Lemma select_length : forall m vals, length m = length vals -> length (select m vals) = length (filter (fun b => b) m).
Proof.
  induction m as [| b m IH]; intros vals H; destruct vals as [| v t]; simpl in *; try discriminate; [reflexivity |].
  injection H as H. destruct b; simpl; rewrite IH by exact H; reflexivity.
Qed.

(* ---------------- values[~mask] = fill keeps the shape and replaces exactly the masked-out elements ---------------- *)
Lemma mask_fill_spec : forall fill m vals, length m = length vals ->
  mask_fill fill m vals = map (fun i => if nth i m false then nth i vals 0 else fill) (seq 0 (length vals)).
Proof.
  intros fill. induction m as [| b m IH]; intros vals H; destruct vals as [| v t]; simpl in *; try discriminate; [reflexivity |].
  injection H as H. f_equal. rewrite <- seq_shift. rewrite map_map. simpl. apply IH. exact H.
Qed.

Lemma mask_fill_length : forall fill m vals, length m = length vals -> length (mask_fill fill m vals) = length vals.
Proof.
  intros fill m vals H. rewrite mask_fill_spec by exact H. rewrite map_length, seq_length. reflexivity.
Qed.

Lemma mask_fill_nth : forall fill m vals i, length m = length vals -> (i < length vals)%nat ->
  nth i (mask_fill fill m vals) 0 = if nth i m false then nth i vals 0 else fill.
Proof.
  intros fill. induction m as [| b m IH]; intros vals i H Hi; destruct vals as [| v t]; simpl in *; try discriminate; [lia |].
  injection H as H. destruct i as [| j]; [reflexivity |]. apply IH; [exact H | lia].
Qed.

(* ---------------- the exported table equals its specification ---------------- *)
Definition well_shaped (omask : option (list bool)) (cols : list column) : Prop :=
  match omask with
  | None => True
  | Some m => forall c, In c cols -> length m = length (c_vals c)
  end.

Lemma export_col_spec : forall fmt ndim omask blank c,
  (match omask with None => True | Some m => length m = length (c_vals c) end) ->
  export_col fmt ndim omask blank c = spec_col fmt ndim omask blank c.
Proof.
  intros fmt ndim omask blank c H. unfold export_col, spec_col. destruct omask as [m |]; [| reflexivity].
  destruct (row_mode fmt ndim).
  - rewrite select_pick by exact H. reflexivity.
  - rewrite mask_fill_spec by exact H. reflexivity.
Qed.

Lemma In_ordered : forall cols c, In c (ordered cols) -> In c cols.
Proof.
  intros cols c H. unfold ordered in H. apply in_app_or in H. destruct H as [H | H]; apply filter_In in H; tauto.
Qed.

Theorem export_is_spec : forall fmt ndim omask blank cols,
  well_shaped omask cols ->
  export fmt ndim omask blank cols = spec_table fmt ndim omask blank cols.
Proof.
  intros fmt ndim omask blank cols H. unfold export, spec_table. fold (ordered cols).
  apply map_ext_in. intros c Hc. apply filter_In in Hc. destruct Hc as [Hc _]. apply In_ordered in Hc.
  apply export_col_spec. destruct omask as [m |]; [apply H; exact Hc | exact I].
Qed.

(* full statement 1: with row filtering (table formats; HDF5 for 1-d data) the written table consists of exactly the
   exportable components, main components first and then derived ones, each in its original order, under their names
   and kinds, and every column holds exactly the values at the selected positions, in increasing position *)
Theorem export_selects_rows : forall fmt ndim m blank cols,
  row_mode fmt ndim = true ->
  (forall c, In c cols -> length m = length (c_vals c)) ->
  export fmt ndim (Some m) blank cols =
  map (fun c => (c_name c, c_kind c, pick (c_vals c) (true_idx m)))
      (filter (exportable fmt) (filter (fun c => negb (c_derived c)) cols ++ filter c_derived cols))
  /\ (forall i, In i (true_idx m) <-> (i < length m)%nat /\ nth i m false = true).
Proof.
  intros fmt ndim m blank cols Hr H. split.
  - rewrite export_is_spec by exact H. unfold spec_table, spec_col. rewrite Hr. reflexivity.
  - intros i. split; [apply true_idx_bound | intros [A B]; apply true_idx_complete; assumption].
Qed.

(* a whole dataset (no subset): every exportable component with all its values *)
Theorem export_whole : forall fmt ndim blank cols,
  export fmt ndim None blank cols =
  map (fun c => (c_name c, c_kind c, c_vals c))
      (filter (exportable fmt) (filter (fun c => negb (c_derived c)) cols ++ filter c_derived cols)).
Proof. intros. reflexivity. Qed.

(* full statement 2: without row filtering (n-d HDF5, gridded FITS) every exportable component is written with its
   full shape, the selected pixels unchanged and every other pixel replaced by the fill of its dtype kind *)
Theorem export_masks_pixels : forall fmt ndim m blank cols,
  row_mode fmt ndim = false ->
  (forall c, In c cols -> length m = length (c_vals c)) ->
  map (fun w => fst (fst w)) (export fmt ndim (Some m) blank cols) =
    map c_name (filter (exportable fmt) (filter (fun c => negb (c_derived c)) cols ++ filter c_derived cols)) /\
  forall c, In c (filter (exportable fmt) (ordered cols)) ->
    let out := snd (export_col fmt ndim (Some m) blank c) in
    In (export_col fmt ndim (Some m) blank c) (export fmt ndim (Some m) blank cols) /\
    length out = length (c_vals c) /\
    forall i, (i < length (c_vals c))%nat ->
      nth i out 0 = if nth i m false then nth i (c_vals c) 0 else fill_of fmt (c_kind c) blank.
Proof.
  intros fmt ndim m blank cols Hr H. split.
  - unfold export. rewrite map_map. reflexivity.
  - intros c Hc out.
    assert (Hl : length m = length (c_vals c)).
    { apply H. apply filter_In in Hc. destruct Hc as [Hc _]. apply In_ordered in Hc. exact Hc. }
    split; [unfold export; apply in_map; exact Hc |].
    subst out. unfold export_col. simpl. rewrite Hr.
    split; [apply mask_fill_length; exact Hl |].
    intros i Hi. apply mask_fill_nth; assumption.
Qed.

(* the fills, as coded: NaN for floats; 0 (HDF5) or BLANK (gridded FITS) for integers; '' for text *)
Lemma fill_table : forall blank,
  fill_of 3 KFLOAT blank = NAN /\ fill_of 3 KINT blank = 0 /\ fill_of 3 KSTR blank = EMPTY /\
  fill_of 4 KFLOAT blank = NAN /\ fill_of 4 KINT blank = blank.
Proof. intros. repeat split; reflexivity. Qed.

(* gridded FITS never writes text components; the other formats write every component *)
Lemma exportable_spec : forall fmt c,
  exportable fmt c = true <-> (fmt <> 4 \/ c_kind c = KFLOAT \/ c_kind c = KINT).
Proof.
  intros fmt c. unfold exportable. destruct (fmt =? 4) eqn:E.
  - apply Z.eqb_eq in E. rewrite orb_true_iff, !Z.eqb_eq. split; [tauto | intros [H | H]; [congruence | exact H]].
  - apply Z.eqb_neq in E. split; [tauto | reflexivity].
Qed.

(* ---------------- round trip modulo the file codec ---------------- *)
Section Codec.
  (* the file format: writing and reading are external (astropy / h5py / pandas); all that is assumed is that reading
     what was written gives the table in the form the format can represent *)
  Variable file : Type.
  Variable enc : Z -> list wcol -> file.
  Variable dec : Z -> file -> list wcol.
  Variable normalise : Z -> list wcol -> list wcol.
  Hypothesis codec_ok : forall fmt t, dec fmt (enc fmt t) = normalise fmt t.

  Definition export_file (fmt ndim : Z) (omask : option (list bool)) (blank : Z) (cols : list column) : file :=
    enc fmt (export fmt ndim omask blank cols).

  Theorem roundtrip_modulo_codec_sec : forall fmt ndim omask blank cols,
    well_shaped omask cols ->
    dec fmt (export_file fmt ndim omask blank cols) = normalise fmt (spec_table fmt ndim omask blank cols).
  Proof.
    intros fmt ndim omask blank cols H. unfold export_file. rewrite codec_ok. rewrite export_is_spec by exact H. reflexivity.
  Qed.
End Codec.

Definition roundtrip_modulo_codec := roundtrip_modulo_codec_sec.
Definition export_selects_rows_thm := export_selects_rows.
