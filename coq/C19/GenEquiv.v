(* C19 — the exporters TRANSLATED from the source (coq/gen/Gen_exporters.v) agree with the hand-written model (Model.export)
   for all inputs; the property-level theorems transported to the generated functions. *)
From Coq Require Import ZArith List Bool Lia.
Import ListNotations.
From GV Require Import Common.Wire C19.Model C19.Lemmas gen.Gen_exporters.
Open Scope Z_scope.

(* ---------------- from component records to the hand model's columns ---------------- *)
(* the hand model has one text kind: 'U' and 'S' are both KSTR *)
Definition mkind (k : Z) : Z := if k =? KBYTES then KSTR else k.
(* the ORIGINAL full column: data[cid] *)
Definition full (data : dset) (c : dcol) : list Z := a_vals (fetch data c None).
(* components= : None, or cid in components *)
Definition listed (comps : option (list Z)) (c : dcol) : bool := is_none comps || cid_in c comps.
Definition to_column (data : dset) (c : dcol) : column := mkC (d_name c) (mkind (d_kind c)) (d_derived c) (full data c).
(* HDF5 stores unicode text ASCII-encoded (np.char.encode): the column as the format represents it *)
Definition to_column_hdf5 (enc : Z -> Z) (data : dset) (c : dcol) : column :=
  if (d_gkind c =? GCAT) && (d_kind c =? KSTR) then mkC (d_name c) KSTR (d_derived c) (map enc (full data c)) else to_column data c.
Definition columns_of (fmt : Z) (enc : Z -> Z) (data : dset) (comps : option (list Z)) : list column :=
  map (if fmt =? 3 then to_column_hdf5 enc data else to_column data) (filter (listed comps) (ds_cols data)).
Definition norm_w (w : wds) : wcol := (fst w, mkind (a_kind (snd w)), a_vals (snd w)).
Definition norm_h (w : whdu) : wcol := norm_w (fst w).

(* ---------------- general list facts ---------------- *)
Lemma filter_comm : forall (A : Type) (p q : A -> bool) l, filter p (filter q l) = filter q (filter p l).
Proof.
  intros A p q l. induction l as [| x l IH]; [reflexivity |]. simpl.
  destruct (q x) eqn:Q; destruct (p x) eqn:P; simpl; rewrite ?Q, ?P, IH; reflexivity.
Qed.

Lemma filter_map_comm : forall (A B : Type) (f : A -> B) (p : B -> bool) l, filter p (map f l) = map f (filter (fun x => p (f x)) l).
Proof.
  intros A B f p l. induction l as [| x l IH]; [reflexivity |]. simpl. destruct (p (f x)); simpl; rewrite IH; reflexivity.
Qed.

Lemma filter_true : forall (A : Type) (p : A -> bool) l, (forall x, In x l -> p x = true) -> filter p l = l.
Proof.
  intros A p l H. induction l as [| x l IH]; [reflexivity |]. simpl. rewrite (H x (or_introl eq_refl)).
  f_equal. apply IH. intros y Hy. apply H. right. exact Hy.
Qed.

Lemma filter_andb : forall (A : Type) (p q : A -> bool) l, filter (fun x => p x && q x) l = filter q (filter p l).
Proof.
  intros A p q l. induction l as [| x l IH]; [reflexivity |]. simpl. destruct (p x); simpl; [destruct (q x) |]; rewrite IH; reflexivity.
Qed.

(* main + derived of the listed components = the listed ones of main + derived *)
Lemma listed_ordered : forall comps data,
  filter (listed comps) (main_components data ++ derived_components data) =
  filter (fun c => negb (d_derived c)) (filter (listed comps) (ds_cols data)) ++ filter d_derived (filter (listed comps) (ds_cols data)).
Proof.
  intros comps data. unfold main_components, derived_components. rewrite filter_app.
  rewrite (filter_comm _ (listed comps)), (filter_comm _ (listed comps) d_derived). reflexivity.
Qed.

Lemma ordered_map : forall (f : dcol -> column) l, (forall c, c_derived (f c) = d_derived c) ->
  ordered (map f l) = map f (filter (fun c => negb (d_derived c)) l ++ filter d_derived l).
Proof.
  intros f l H. unfold ordered. rewrite !filter_map_comm, map_app. f_equal.
  - f_equal. apply filter_ext. intros c. rewrite H. reflexivity.
  - f_equal. apply filter_ext. intros c. apply H.
Qed.

Lemma guard_listed : forall comps c, (negb (is_none comps) && negb (cid_in c comps)) = negb (listed comps c).
Proof. intros comps c. unfold listed. destruct (is_none comps), (cid_in c comps); reflexivity. Qed.

(* ---------------- data_to_astropy_table (CSV, FITS table, VO table) ---------------- *)
Definition tab_col (mask : option (list bool)) (data : dset) (c : dcol) : wds :=
  (d_name c, match mask with None => fetch data c None | Some m => arr_pick (fetch data c None) m end).

Lemma table_loop : forall enc data comps mask iter table,
  data_to_astropy_table_loop enc data comps mask table iter = Some (table ++ map (tab_col mask data) (filter (listed comps) iter)).
Proof.
  intros enc data comps mask. induction iter as [| c iter IH]; intros table; simpl.
  - rewrite app_nil_r. reflexivity.
  - rewrite guard_listed. destruct (listed comps c); simpl.
    + destruct mask as [m |]; simpl; rewrite IH, <- app_assoc; reflexivity.
    + apply IH.
Qed.

Lemma table_is : forall enc sub data comps,
  data_to_astropy_table enc sub data comps =
  Some (map (tab_col sub data) (filter (listed comps) (main_components data ++ derived_components data))).
Proof.
  intros enc sub data comps. unfold data_to_astropy_table. destruct sub as [m |]; simpl; rewrite table_loop; reflexivity.
Qed.

Lemma row_mode_table : forall fmt ndim, 0 <= fmt < 3 -> row_mode fmt ndim = true.
Proof. intros fmt ndim H. unfold row_mode. destruct (fmt <? 3) eqn:E; [reflexivity | apply Z.ltb_ge in E; lia]. Qed.

Lemma exportable_table : forall fmt c, fmt <> 4 -> exportable fmt c = true.
Proof. intros fmt c H. unfold exportable. destruct (fmt =? 4) eqn:E; [apply Z.eqb_eq in E; contradiction | reflexivity]. Qed.

(* Gen_exporters.data_to_astropy_table = Model.export fmt for the three table formats *)
Theorem gen_table_is_model : forall fmt enc sub data comps blank, 0 <= fmt < 3 ->
  option_map (map norm_w) (data_to_astropy_table enc sub data comps) =
  Some (export fmt (ds_ndim data) sub blank (columns_of fmt enc data comps)).
Proof.
  intros fmt enc sub data comps blank Hf. rewrite table_is. simpl. f_equal.
  unfold export, columns_of. replace (fmt =? 3) with false by (symmetry; apply Z.eqb_neq; lia).
  rewrite (filter_true _ (exportable fmt)) by (intros; apply exportable_table; lia).
  rewrite ordered_map by reflexivity. rewrite <- listed_ordered. rewrite !map_map.
  apply map_ext. intros c. unfold norm_w, tab_col, export_col. simpl.
  destruct sub as [m |]; [rewrite row_mode_table by exact Hf |]; reflexivity.
Qed.

(* ---------------- hdf5_writer ---------------- *)
(* dtype kinds the HDF5 exporter handles; unicode text is always a categorical component in glue *)
Definition wf_hdf5 (c : dcol) : Prop :=
  d_kind c = KFLOAT \/ d_kind c = KINT \/ d_kind c = KBYTES \/ (d_kind c = KSTR /\ d_gkind c = GCAT).

Definition hdf5_vals (enc : Z -> Z) (data : dset) (c : dcol) : arr :=
  if (d_gkind c =? GCAT) && (d_kind c =? KSTR) then arr_encode enc (fetch data c None) else fetch data c None.
Definition hdf5_col (enc : Z -> Z) (mask : option (list bool)) (data : dset) (c : dcol) : wds :=
  (d_name c,
   let v := hdf5_vals enc data c in
   match mask with
   | None => v
   | Some m => if a_ndim v =? 1 then arr_pick v m else arr_fill v m (fill_of 3 (mkind (a_kind v)) 0)
   end).

Lemma hdf5_loop : forall enc data comps mask iter f,
  (forall c, In c iter -> wf_hdf5 c) ->
  hdf5_writer_loop enc data comps mask f iter = Some (f ++ map (hdf5_col enc mask data) (filter (listed comps) iter)).
Proof.
  intros enc data comps mask. induction iter as [| c iter IH]; intros f W.
  - simpl. rewrite app_nil_r. reflexivity.
  - assert (Wc : wf_hdf5 c) by (apply W; left; reflexivity).
    assert (W' : forall x, In x iter -> wf_hdf5 x) by (intros x Hx; apply W; right; exact Hx).
    cbn [hdf5_writer_loop filter]. rewrite guard_listed. destruct (listed comps c); cbn [negb map]; [| apply IH; exact W'].
    match goal with |- ?L = _ => assert (Hstep : L = hdf5_writer_loop enc data comps mask (f ++ [hdf5_col enc mask data c]) iter) end.
    { unfold hdf5_col, hdf5_vals, arr_copy.
      destruct Wc as [K | [K | [K | [K G]]]].
      - (* float *)
        assert (E : a_kind (fetch data c None) = 0) by exact K.
        replace (d_kind c =? KSTR) with false by (rewrite K; reflexivity). rewrite andb_false_r.
        destruct (d_gkind c =? 1); rewrite ?E; cbn [Z.eqb Pos.eqb];
          (destruct mask as [m |]; cbn [is_none negb oget]; [destruct (a_ndim (fetch data c None) =? 1) |]);
          rewrite ?E; reflexivity.
      - (* int *)
        assert (E : a_kind (fetch data c None) = 1) by exact K.
        replace (d_kind c =? KSTR) with false by (rewrite K; reflexivity). rewrite andb_false_r.
        destruct (d_gkind c =? 1); rewrite ?E; cbn [Z.eqb Pos.eqb];
          (destruct mask as [m |]; cbn [is_none negb oget]; [destruct (a_ndim (fetch data c None) =? 1) |]);
          rewrite ?E; reflexivity.
      - (* bytes *)
        assert (E : a_kind (fetch data c None) = 3) by exact K.
        replace (d_kind c =? KSTR) with false by (rewrite K; reflexivity). rewrite andb_false_r.
        destruct (d_gkind c =? 1); rewrite ?E; cbn [Z.eqb Pos.eqb];
          (destruct mask as [m |]; cbn [is_none negb oget]; [destruct (a_ndim (fetch data c None) =? 1) |]);
          rewrite ?E; reflexivity.
      - (* unicode text of a categorical component: encoded *)
        assert (E : a_kind (fetch data c None) = 2) by exact K.
        rewrite G, K. cbn [Z.eqb Pos.eqb GCAT KSTR andb]. rewrite E. cbn [Z.eqb Pos.eqb].
        destruct mask as [m |]; cbn [is_none negb oget]; [destruct (a_ndim (arr_encode enc (fetch data c None)) =? 1) |]; reflexivity. }
    rewrite Hstep, IH by exact W'. rewrite <- app_assoc. reflexivity.
Qed.

Lemma hdf5_is : forall enc sub data comps,
  (forall c, In c (ds_cols data) -> wf_hdf5 c) ->
  hdf5_writer enc sub data comps =
  Some (map (hdf5_col enc sub data) (filter (listed comps) (main_components data ++ derived_components data))).
Proof.
  intros enc sub data comps W.
  assert (W' : forall c, In c (main_components data ++ derived_components data) -> wf_hdf5 c).
  { intros c Hc. apply W. apply in_app_or in Hc. destruct Hc as [Hc | Hc]; apply filter_In in Hc; tauto. }
  unfold hdf5_writer. destruct sub as [m |]; simpl; rewrite hdf5_loop by exact W'; reflexivity.
Qed.

Lemma hdf5_col_model : forall enc sub data blank c, wf_hdf5 c ->
  norm_w (hdf5_col enc sub data c) = export_col 3 (ds_ndim data) sub blank (to_column_hdf5 enc data c).
Proof.
  intros enc sub data blank c W. unfold norm_w, hdf5_col, hdf5_vals, to_column_hdf5, to_column, export_col, row_mode, full.
  destruct W as [K | [K | [K | [K G]]]].
  - replace (d_kind c =? KSTR) with false by (rewrite K; reflexivity). rewrite andb_false_r. simpl. rewrite K.
    destruct sub as [m |]; [destruct (ds_ndim data =? 1) |]; reflexivity.
  - replace (d_kind c =? KSTR) with false by (rewrite K; reflexivity). rewrite andb_false_r. simpl. rewrite K.
    destruct sub as [m |]; [destruct (ds_ndim data =? 1) |]; reflexivity.
  - replace (d_kind c =? KSTR) with false by (rewrite K; reflexivity). rewrite andb_false_r. simpl. rewrite K.
    destruct sub as [m |]; [destruct (ds_ndim data =? 1) |]; reflexivity.
  - rewrite G, K. simpl.
    destruct sub as [m |]; [destruct (ds_ndim data =? 1) |]; reflexivity.
Qed.

(* Gen_exporters.hdf5_writer = Model.export 3 *)
Theorem gen_hdf5_is_model : forall enc sub data comps blank,
  (forall c, In c (ds_cols data) -> wf_hdf5 c) ->
  option_map (map norm_w) (hdf5_writer enc sub data comps) =
  Some (export 3 (ds_ndim data) sub blank (columns_of 3 enc data comps)).
Proof.
  intros enc sub data comps blank W. rewrite hdf5_is by exact W. simpl. f_equal.
  unfold export, columns_of. cbn [Z.eqb Pos.eqb].
  rewrite (filter_true _ (exportable 3)) by (intros; apply exportable_table; lia).
  rewrite ordered_map by (intros c; unfold to_column_hdf5; destruct ((d_gkind c =? GCAT) && (d_kind c =? KSTR)); reflexivity).
  rewrite <- listed_ordered. rewrite !map_map.
  apply map_ext_in. intros c Hc. apply hdf5_col_model. apply W.
  apply filter_In in Hc. destruct Hc as [Hc _]. apply in_app_or in Hc. destruct Hc as [Hc | Hc]; apply filter_In in Hc; tauto.
Qed.

(* ---------------- fits_writer (gridded FITS) ---------------- *)
(* glue calls a component numerical exactly when its dtype is float or integer (bool / unsigned images are outside the domain) *)
Definition wf_fits (c : dcol) : Prop :=
  (d_gkind c = GNUM -> d_kind c = KFLOAT \/ d_kind c = KINT) /\ (d_gkind c <> GNUM -> d_kind c <> KFLOAT /\ d_kind c <> KINT).

Definition fits_col (mask : option (list bool)) (data : dset) (dh : hdr) (c : dcol) : whdu :=
  (d_name c,
   match mask with
   | None => fetch data c None
   | Some m => arr_fill (fetch data c None) m (if d_kind c =? KFLOAT then NAN else d_imin c)
   end,
   let h := if ds_is_data data then hdr_component (d_name c) dh else hdr_empty in
   match mask with
   | Some _ => if d_kind c =? KINT then hdr_set_blank h (d_imin c) else h
   | None => h
   end).

Lemma fits_loop : forall enc data comps mask dh iter blank hdus,
  (forall c, In c iter -> wf_fits c) ->
  fits_writer_loop enc data comps blank mask dh hdus iter =
  Some (hdus ++ map (fits_col mask data dh) (filter (fun c => d_gkind c =? GNUM) (filter (listed comps) iter))).
Proof.
  intros enc data comps mask dh. induction iter as [| c iter IH]; intros blank hdus W.
  - simpl. rewrite app_nil_r. reflexivity.
  - assert (Wc : wf_fits c) by (apply W; left; reflexivity).
    assert (W' : forall x, In x iter -> wf_fits x) by (intros x Hx; apply W; right; exact Hx).
    cbn [fits_writer_loop filter]. rewrite guard_listed. destruct (listed comps c); cbn [negb filter]; [| apply IH; exact W'].
    unfold GNUM. destruct (d_gkind c =? 0) eqn:G; cbn [negb map]; [| apply IH; exact W'].
    apply Z.eqb_eq in G. destruct Wc as [Wc _]. specialize (Wc G).
    match goal with |- ?L = _ => assert (Hstep : exists b, L = fits_writer_loop enc data comps b mask dh (hdus ++ [fits_col mask data dh c]) iter) end.
    { unfold fits_col, arr_copy.
      destruct Wc as [K | K].
      - assert (E : a_kind (fetch data c None) = 0) by exact K. rewrite E, K. cbn [Z.eqb Pos.eqb KFLOAT KINT].
        destruct mask as [m |]; cbn [is_none negb oget]; destruct (ds_is_data data); eexists; reflexivity.
      - assert (E : a_kind (fetch data c None) = 1) by exact K. rewrite E, K. cbn [Z.eqb Pos.eqb KFLOAT KINT].
        destruct mask as [m |]; cbn [is_none negb oget]; destruct (ds_is_data data); eexists; reflexivity. }
    destruct Hstep as [b Hstep]. rewrite Hstep, IH by exact W'. rewrite <- app_assoc. reflexivity.
Qed.

Lemma fits_is : forall enc sub data comps,
  (forall c, In c (ds_cols data) -> wf_fits c) ->
  fits_writer enc sub data comps =
  Some (map (fits_col sub data (if ds_has_wcs data then hdr_wcs else hdr_empty))
            (filter (fun c => d_gkind c =? GNUM) (filter (listed comps) (main_components data ++ derived_components data)))).
Proof.
  intros enc sub data comps W.
  assert (W' : forall c, In c (main_components data ++ derived_components data) -> wf_fits c).
  { intros c Hc. apply W. apply in_app_or in Hc. destruct Hc as [Hc | Hc]; apply filter_In in Hc; tauto. }
  unfold fits_writer. destruct sub as [m |]; simpl; rewrite fits_loop by exact W'; reflexivity.
Qed.

Lemma exportable_fits : forall data c, wf_fits c -> exportable 4 (to_column data c) = (d_gkind c =? GNUM).
Proof.
  intros data c [W1 W2]. unfold exportable, to_column, mkind. cbn [Z.eqb Pos.eqb c_kind].
  destruct (d_gkind c =? GNUM) eqn:G.
  - apply Z.eqb_eq in G. destruct (W1 G) as [K | K]; rewrite K; reflexivity.
  - apply Z.eqb_neq in G. destruct (W2 G) as [K1 K2].
    destruct (d_kind c =? KBYTES) eqn:B; [reflexivity |].
    apply Z.eqb_neq in K1, K2. rewrite K1, K2. reflexivity.
Qed.

Lemma fits_col_model : forall sub data dh blank c,
  (d_kind c = KFLOAT \/ d_kind c = KINT) -> (d_kind c = KINT -> d_imin c = blank) ->
  norm_h (fits_col sub data dh c) = export_col 4 (ds_ndim data) sub blank (to_column data c).
Proof.
  intros sub data dh blank c K B. unfold norm_h, norm_w, fits_col, to_column, export_col, row_mode, full. simpl.
  destruct K as [K | K]; rewrite K; simpl; (destruct sub as [m |]; [| reflexivity]).
  - reflexivity.
  - rewrite (B K). reflexivity.
Qed.

(* Gen_exporters.fits_writer = Model.export 4 (one BLANK value per case in the hand model: the integer components share it) *)
Theorem gen_fits_is_model : forall enc sub data comps blank,
  (forall c, In c (ds_cols data) -> wf_fits c /\ (d_kind c = KINT -> d_imin c = blank)) ->
  option_map (map norm_h) (fits_writer enc sub data comps) =
  Some (export 4 (ds_ndim data) sub blank (columns_of 4 enc data comps)).
Proof.
  intros enc sub data comps blank W. rewrite fits_is by (intros c Hc; apply W; exact Hc). simpl. f_equal.
  unfold export, columns_of. cbn [Z.eqb Pos.eqb].
  rewrite ordered_map by reflexivity. rewrite <- listed_ordered.
  rewrite filter_map_comm, !map_map.
  assert (In_cols : forall c, In c (filter (listed comps) (main_components data ++ derived_components data)) -> In c (ds_cols data)).
  { intros c Hc. apply filter_In in Hc. destruct Hc as [Hc _]. apply in_app_or in Hc. destruct Hc as [Hc | Hc]; apply filter_In in Hc; tauto. }
  rewrite (filter_ext_in (fun c => exportable 4 (to_column data c)) (fun c => d_gkind c =? GNUM))
    by (intros c Hc; apply exportable_fits; apply W; apply In_cols; exact Hc).
  apply map_ext_in. intros c Hc. apply filter_In in Hc. destruct Hc as [Hc G].
  destruct (W c (In_cols c Hc)) as [[W1 _] B]. apply Z.eqb_eq in G.
  apply fits_col_model; [apply W1; exact G | exact B].
Qed.

(* which HDUs carry the BLANK keyword, and its value: integer images of a subset, iinfo(dtype).min *)
Theorem gen_fits_blank_keyword : forall enc sub data comps,
  (forall c, In c (ds_cols data) -> wf_fits c) ->
  exists hdus, fits_writer enc sub data comps = Some hdus /\
  map (fun w : whdu => h_blank (snd w)) hdus =
  map (fun c => if (d_kind c =? KINT) && is_subset sub then Some (d_imin c) else None)
      (filter (fun c => d_gkind c =? GNUM) (filter (listed comps) (main_components data ++ derived_components data))).
Proof.
  intros enc sub data comps W. eexists. split; [apply fits_is; exact W |].
  rewrite map_map. apply map_ext. intros c. unfold fits_col. simpl.
  destruct sub as [m |]; simpl; destruct (d_kind c =? KINT); simpl; try rewrite andb_false_r; destruct (ds_is_data data), (ds_has_wcs data); reflexivity.
Qed.

(* ---------------- the five formats together ---------------- *)
Definition gen_export (fmt : Z) (enc : Z -> Z) (sub : option (list bool)) (data : dset) (comps : option (list Z)) : option (list wcol) :=
  if fmt <? 3 then option_map (map norm_w) (data_to_astropy_table enc sub data comps)
  else if fmt =? 3 then option_map (map norm_w) (hdf5_writer enc sub data comps)
  else option_map (map norm_h) (fits_writer enc sub data comps).

Definition wf_data (fmt blank : Z) (data : dset) : Prop :=
  forall c, In c (ds_cols data) ->
    (fmt = 3 -> wf_hdf5 c) /\ (fmt = 4 -> wf_fits c /\ (d_kind c = KINT -> d_imin c = blank)).

Theorem gen_export_is_model : forall fmt enc sub data comps blank,
  0 <= fmt <= 4 -> wf_data fmt blank data ->
  gen_export fmt enc sub data comps = Some (export fmt (ds_ndim data) sub blank (columns_of fmt enc data comps)).
Proof.
  intros fmt enc sub data comps blank Hf W. unfold gen_export.
  destruct (fmt <? 3) eqn:E3.
  - apply Z.ltb_lt in E3. apply gen_table_is_model. lia.
  - apply Z.ltb_ge in E3. destruct (fmt =? 3) eqn:E.
    + apply Z.eqb_eq in E. subst fmt. apply gen_hdf5_is_model. intros c Hc. apply (W c Hc). reflexivity.
    + apply Z.eqb_neq in E. assert (fmt = 4) by lia. subst fmt. apply gen_fits_is_model. intros c Hc. apply (W c Hc). reflexivity.
Qed.

(* the columns handed to the hand model have the lengths of the full columns *)
Lemma columns_of_vals : forall fmt enc data comps c, In c (columns_of fmt enc data comps) ->
  exists d, In d (ds_cols data) /\ length (c_vals c) = length (full data d).
Proof.
  intros fmt enc data comps c H. unfold columns_of in H. apply in_map_iff in H. destruct H as [d [E Hd]].
  apply filter_In in Hd. destruct Hd as [Hd _]. exists d. split; [exact Hd |]. subst c.
  destruct (fmt =? 3); [| reflexivity]. unfold to_column_hdf5.
  destruct ((d_gkind d =? GCAT) && (d_kind d =? KSTR)); simpl; [apply map_length | reflexivity].
Qed.

(* ---------------- the property-level theorems, about the generated functions ---------------- *)
Theorem gen_export_selects_rows : forall fmt enc m data comps blank,
  0 <= fmt <= 4 -> wf_data fmt blank data ->
  row_mode fmt (ds_ndim data) = true ->
  (forall d, In d (ds_cols data) -> length m = length (full data d)) ->
  let cols := columns_of fmt enc data comps in
  gen_export fmt enc (Some m) data comps =
  Some (map (fun c => (c_name c, c_kind c, pick (c_vals c) (true_idx m)))
            (filter (exportable fmt) (filter (fun c => negb (c_derived c)) cols ++ filter c_derived cols)))
  /\ (forall i, In i (true_idx m) <-> (i < length m)%nat /\ nth i m false = true).
Proof.
  intros fmt enc m data comps blank Hf W Hr Hl cols.
  rewrite (gen_export_is_model fmt enc (Some m) data comps blank Hf W).
  assert (Hc : forall c, In c cols -> length m = length (c_vals c)).
  { intros c Hc. destruct (columns_of_vals _ _ _ _ _ Hc) as [d [Hd E]]. rewrite E. apply Hl. exact Hd. }
  destruct (export_selects_rows fmt (ds_ndim data) m blank cols Hr Hc) as [A B].
  split; [f_equal; exact A | exact B].
Qed.

Theorem gen_export_masks_pixels : forall fmt enc m data comps blank,
  0 <= fmt <= 4 -> wf_data fmt blank data ->
  row_mode fmt (ds_ndim data) = false ->
  (forall d, In d (ds_cols data) -> length m = length (full data d)) ->
  let cols := columns_of fmt enc data comps in
  exists out, gen_export fmt enc (Some m) data comps = Some out /\
  map (fun w => fst (fst w)) out =
    map c_name (filter (exportable fmt) (filter (fun c => negb (c_derived c)) cols ++ filter c_derived cols)) /\
  forall c, In c (filter (exportable fmt) (ordered cols)) ->
    let w := export_col fmt (ds_ndim data) (Some m) blank c in
    In w out /\ length (snd w) = length (c_vals c) /\
    forall i, (i < length (c_vals c))%nat ->
      nth i (snd w) 0 = if nth i m false then nth i (c_vals c) 0 else fill_of fmt (c_kind c) blank.
Proof.
  intros fmt enc m data comps blank Hf W Hr Hl cols.
  exists (export fmt (ds_ndim data) (Some m) blank cols). split; [apply gen_export_is_model; assumption |].
  assert (Hc : forall c, In c cols -> length m = length (c_vals c)).
  { intros c Hc. destruct (columns_of_vals _ _ _ _ _ Hc) as [d [Hd E]]. rewrite E. apply Hl. exact Hd. }
  exact (export_masks_pixels fmt (ds_ndim data) m blank cols Hr Hc).
Qed.

Definition gen_shaped (sub : option (list bool)) (data : dset) : Prop :=
  match sub with None => True | Some m => forall d, In d (ds_cols data) -> length m = length (full data d) end.

Theorem gen_roundtrip_modulo_codec :
  forall (file : Type) (encf : Z -> list wcol -> file) (dec : Z -> file -> list wcol) (normalise : Z -> list wcol -> list wcol),
  (forall fmt t, dec fmt (encf fmt t) = normalise fmt t) ->
  forall fmt enc sub data comps blank,
  0 <= fmt <= 4 -> wf_data fmt blank data -> gen_shaped sub data ->
  exists out, gen_export fmt enc sub data comps = Some out /\
  dec fmt (encf fmt out) = normalise fmt (spec_table fmt (ds_ndim data) sub blank (columns_of fmt enc data comps)).
Proof.
  intros file encf dec normalise Hcodec fmt enc sub data comps blank Hf W Hs.
  eexists. split; [apply gen_export_is_model; eassumption |].
  assert (Hw : well_shaped sub (columns_of fmt enc data comps)).
  { destruct sub as [m |]; [| exact I]. intros c Hc. destruct (columns_of_vals _ _ _ _ _ Hc) as [d [Hd E]]. rewrite E. apply Hs. exact Hd. }
  exact (roundtrip_modulo_codec file encf dec normalise Hcodec fmt (ds_ndim data) sub blank _ Hw).
Qed.

(* the table exporters write, for every listed component, the selected rows of the ORIGINAL full column data[cid] = d_fn (d_srcs):
   the link function of a derived component is applied to the whole source columns, the selection comes afterwards *)
Theorem gen_table_selects_from_full_columns : forall enc m data comps,
  data_to_astropy_table enc (Some m) data comps =
  Some (map (fun c => (d_name c, mkA (d_kind c) 1 (d_imin c) (select m (d_fn c (d_srcs c)))))
            (filter (listed comps) (filter (fun c => negb (d_derived c)) (ds_cols data) ++ filter d_derived (ds_cols data)))).
Proof. intros enc m data comps. rewrite table_is. reflexivity. Qed.
