(* C19 — exported data files load back: executable model of what glue's exporters write.

   A dataset is an ordered list of columns (name, dtype kind, derived?, flat values); a subset adds a boolean mask
   over the flattened elements.  Values are integer tokens chosen by the harness (integers as themselves, floats as
   eighths, strings as table indices with 0 = the empty string); NaN, and the integer BLANK of gridded FITS, are
   distinguished tokens.  Formats: 0 CSV, 1 FITS table, 2 VO table (data_to_astropy_table), 3 HDF5, 4 gridded FITS.
   Definitions only. *)
From Coq Require Import ZArith List Bool.
Import ListNotations.
From GV Require Import Common.Wire.
From GV Require Export C19.ExportSem.
From GV Require Import gen.Gen_exporters.
Open Scope Z_scope.

Record column := mkC { c_name : Z; c_kind : Z; c_derived : bool; c_vals : list Z }.
(* what ends up in the file for one component *)
Definition wcol : Type := (Z * Z * list Z)%type.

(* KFLOAT KINT KSTR NAN EMPTY, select (values[mask]) and mask_fill (values[~mask] = fill) live in C19/ExportSem.v, shared with
   the translated exporters (coq/gen/Gen_exporters.v) *)

(* data.main_components + data.derived_components *)
Definition ordered (cols : list column) : list column :=
  filter (fun c => negb (c_derived c)) cols ++ filter c_derived cols.

(* gridded FITS writes numerical components only *)
Definition exportable (fmt : Z) (c : column) : bool :=
  if fmt =? 4 then (c_kind c =? KFLOAT) || (c_kind c =? KINT) else true.

(* rows are filtered by the table exporters always (values[mask]) and by the HDF5 exporter for 1-d data;
   n-d HDF5 data and every gridded FITS image keep their shape and get the masked-out pixels replaced *)
Definition row_mode (fmt ndim : Z) : bool := (fmt <? 3) || ((fmt =? 3) && (ndim =? 1)).

(* the replacement value by format and dtype kind, as coded (blank = np.iinfo(dtype).min) *)
Definition fill_of (fmt kind blank : Z) : Z :=
  if kind =? KFLOAT then NAN
  else if kind =? KINT then (if fmt =? 4 then blank else 0)
  else EMPTY.

Definition export_col (fmt ndim : Z) (omask : option (list bool)) (blank : Z) (c : column) : wcol :=
  (c_name c, c_kind c,
   match omask with
   | None => c_vals c
   | Some m => if row_mode fmt ndim then select m (c_vals c) else mask_fill (fill_of fmt (c_kind c) blank) m (c_vals c)
   end).

Definition export (fmt ndim : Z) (omask : option (list bool)) (blank : Z) (cols : list column) : list wcol :=
  map (export_col fmt ndim omask blank) (filter (exportable fmt) (ordered cols)).

(* gridded FITS: the BLANK keyword is written for integer images of a subset *)
Definition writes_blank (fmt : Z) (omask : option (list bool)) (c : column) : bool :=
  (fmt =? 4) && (c_kind c =? KINT) && (match omask with Some _ => true | None => false end).

(* ---------------- index-based specification ---------------- *)
Fixpoint true_idx (mask : list bool) : list nat :=
  match mask with
  | [] => []
  | b :: m => (if b then [O] else []) ++ map S (true_idx m)
  end.
Definition pick (vals : list Z) (idx : list nat) : list Z := map (fun i => nth i vals 0) idx.

Definition spec_col (fmt ndim : Z) (omask : option (list bool)) (blank : Z) (c : column) : wcol :=
  (c_name c, c_kind c,
   match omask with
   | None => c_vals c
   | Some m =>
     if row_mode fmt ndim then pick (c_vals c) (true_idx m)
     else map (fun i => if nth i m false then nth i (c_vals c) 0 else fill_of fmt (c_kind c) blank) (seq 0 (length (c_vals c)))
   end).
Definition spec_table (fmt ndim : Z) (omask : option (list bool)) (blank : Z) (cols : list column) : list wcol :=
  map (spec_col fmt ndim omask blank)
      (filter (exportable fmt) (filter (fun c => negb (c_derived c)) cols ++ filter c_derived cols)).

(* ---------------- wire ---------------- *)
Definition dec_col (t : tree) : column :=
  mkC (tag (kid 0 t)) (tag (kid 1 t)) (negb (tag (kid 2 t) =? 0)) (to_zs (kid 3 t)).
Definition enc_wcol (w : wcol) : tree :=
  match w with (n, k, vs) => T 0 [leaf n; leaf k; zs vs] end.

(* ---- the TRANSLATED exporters (Gen_exporters) on the wire: tag 2 ---- *)
Definition dec_dcol (t : tree) : dcol :=
  mkD (tag (kid 0 t)) (tag (kid 1 t)) (tag (kid 2 t)) (tag (kid 3 t)) (negb (tag (kid 4 t) =? 0))
      (map to_zs (kids (kid 6 t))) (link_fn (tag (kid 5 t))).
Fixpoint lookup_enc (tbl : list (Z * Z)) (z : Z) : Z :=
  match tbl with [] => z | (a, b) :: r => if a =? z then b else lookup_enc r z end.
Definition enc_oz (o : option Z) : tree := match o with None => T 0 [] | Some z => T 1 [leaf z] end.
Definition enc_wds (w : wds) : tree :=
  match w with (n, a) => T 0 [leaf n; leaf (a_kind a); leaf (a_ndim a); zs (a_vals a); T 0 []; T 0 []] end.
Definition enc_whdu (w : whdu) : tree :=
  match w with (n, a, h) => T 0 [leaf n; leaf (a_kind a); leaf (a_ndim a); zs (a_vals a); enc_oz (h_blank h); enc_oz (h_bunit h)] end.
(* the three translated functions behind the five formats *)
Definition gen_export_tree (fmt : Z) (enc : Z -> Z) (sub : option (list bool)) (data : dset) (comps : option (list Z)) : tree :=
  if fmt <? 3 then match data_to_astropy_table enc sub data comps with Some l => T 0 (map enc_wds l) | None => err (-3) end
  else if fmt =? 3 then match hdf5_writer enc sub data comps with Some l => T 0 (map enc_wds l) | None => err (-3) end
  else match fits_writer enc sub data comps with Some l => T 0 (map enc_whdu l) | None => err (-3) end.

Definition run_case (t : tree) : tree :=
  match t with
  | T 1 [T fmt _; T ndim _; m; T blank _; T _ cols] =>
      let om := match m with T 0 _ => None | T _ l => Some (map (fun k => negb (tag k =? 0)) l) end in
      let cs := map dec_col cols in
      T 0 [ T 0 (map enc_wcol (export fmt ndim om blank cs));
            bools (map (writes_blank fmt om) (filter (exportable fmt) (ordered cs))) ]
  | T 2 [T fmt _; T ndim _; m; comps; T _ cols; T _ tbl; T isdata _] =>
      let om := match m with T 0 _ => None | T _ l => Some (map (fun k => negb (tag k =? 0)) l) end in
      let oc := match comps with T 0 _ => None | T _ l => Some (map tag l) end in
      let enc := lookup_enc (map (fun p => (tag (kid 0 p), tag (kid 1 p))) tbl) in
      gen_export_tree fmt enc om (mkDS ndim (negb (isdata =? 0)) false (map dec_dcol cols)) oc
  | _ => err (-2)
  end.
