(* C15 - dependent_axes: after n rounds the mask is the connected component (closed under adjacency) *)
From Coq Require Import ZArith QArith List Bool Lia.
Import ListNotations.
From GV Require Import Common.Wire C15.Model C15.Lemmas1.

Section Dep.
Variable n : nat.
Variable cm : nat -> nat -> bool.

Let g := graph n cm.
Let step := dep_step n cm.

Lemma graph_refl : forall i, graph n cm i i = true.
Proof. intros i; unfold graph. rewrite Nat.eqb_refl. reflexivity. Qed.

Lemma graph_sym : forall i j, graph n cm i j = graph n cm j i.
Proof.
  intros i j; unfold graph. rewrite (Nat.eqb_sym i j).
  destruct (Nat.eqb j i), (rmat n cm i j), (rmat n cm j i); reflexivity.
Qed.

Lemma graph_rmat : forall i j, rmat n cm i j = true -> graph n cm i j = true.
Proof. intros i j H; unfold graph. rewrite H. rewrite orb_true_r. reflexivity. Qed.

Lemma step_length : forall S, length (dep_step n cm S) = n.
Proof. intros S; unfold dep_step. rewrite map_length, seq_length. reflexivity. Qed.

Lemma step_nth : forall S j, (j < n)%nat ->
  nth j (dep_step n cm S) false = existsb (fun i => nth i S false && graph n cm i j) (seq 0 n).
Proof. intros S j Hj. unfold dep_step. rewrite nth_map_seq by exact Hj. reflexivity. Qed.

Lemma step_in : forall S j, (j < n)%nat ->
  (nth j (dep_step n cm S) false = true <->
   exists i, (i < n)%nat /\ nth i S false = true /\ graph n cm i j = true).
Proof.
  intros S j Hj. rewrite step_nth by exact Hj. rewrite existsb_exists. split.
  - intros [i [Hi H]]. apply in_seq in Hi. apply andb_true_iff in H. exists i. split; [lia|exact H].
  - intros [i [Hi [H1 H2]]]. exists i. split; [apply in_seq; lia|]. rewrite H1, H2. reflexivity.
Qed.

Lemma step_mono : forall S j, (j < n)%nat -> nth j S false = true -> nth j (dep_step n cm S) false = true.
Proof.
  intros S j Hj H. apply step_in; [exact Hj|]. exists j. split; [exact Hj|]. split; [exact H|apply graph_refl].
Qed.

Lemma iter_mono : forall k S j, (j < n)%nat -> nth j S false = true -> nth j (Nat.iter k (dep_step n cm) S) false = true.
Proof.
  induction k as [|k IH]; intros S j Hj H; simpl; [exact H|].
  apply step_mono; [exact Hj|]. apply IH; assumption.
Qed.

Definition closed (S : list bool) : Prop :=
  forall j, (j < n)%nat -> nth j (dep_step n cm S) false = true -> nth j S false = true.

Definition closedb (S : list bool) : bool :=
  forallb (fun j => implb (nth j (dep_step n cm S) false) (nth j S false)) (seq 0 n).

Lemma closedb_true : forall S, closedb S = true -> closed S.
Proof.
  intros S H j Hj Hs. unfold closedb in H. rewrite forallb_forall in H.
  specialize (H j). rewrite Hs in H. simpl in H. apply H. apply in_seq; lia.
Qed.

Lemma closedb_false : forall S, closedb S = false ->
  exists j, (j < n)%nat /\ nth j (dep_step n cm S) false = true /\ nth j S false = false.
Proof.
  intros S H. unfold closedb in H.
  assert (E : existsb (fun j => negb (implb (nth j (dep_step n cm S) false) (nth j S false))) (seq 0 n) = true).
  { clear -H. induction (seq 0 n) as [|a l IH]; simpl in *; [discriminate|].
    destruct (implb (nth a (dep_step n cm S) false) (nth a S false)); simpl in *; [apply IH; exact H|reflexivity]. }
  apply existsb_exists in E. destruct E as [j [Hj E]]. apply in_seq in Hj.
  exists j. split; [lia|].
  destruct (nth j (dep_step n cm S) false), (nth j S false); simpl in E; try discriminate. split; reflexivity.
Qed.

Lemma closed_step : forall S, closed S -> closed (dep_step n cm S).
Proof.
  intros S HS j Hj H. apply step_in in H; [|exact Hj]. destruct H as [i [Hi [H1 H2]]].
  apply step_in; [exact Hj|]. exists i. split; [exact Hi|]. split; [|exact H2]. apply HS; assumption.
Qed.

Lemma closed_adj : forall S i j, closed S -> (i < n)%nat -> (j < n)%nat ->
  nth i S false = true -> graph n cm i j = true -> nth j S false = true.
Proof.
  intros S i j HS Hi Hj H1 H2. apply HS; [exact Hj|]. apply step_in; [exact Hj|]. exists i. auto.
Qed.

(* counting *)
Definition count (S : list bool) : nat := length (filter (fun j => nth j S false) (seq 0 n)).

Lemma filter_len_le : forall {A} (f h : A -> bool) l,
  (forall x, In x l -> f x = true -> h x = true) -> (length (filter f l) <= length (filter h l))%nat.
Proof.
  intros A f h l; induction l as [|a l IH]; intros H; simpl; [lia|].
  assert (IH' : (length (filter f l) <= length (filter h l))%nat).
  { apply IH. intros x Hx; apply H; right; exact Hx. }
  destruct (f a) eqn:Ef.
  - rewrite (H a (or_introl eq_refl) Ef). simpl. lia.
  - destruct (h a); simpl; lia.
Qed.

Lemma filter_len_lt : forall {A} (f h : A -> bool) l,
  (forall x, In x l -> f x = true -> h x = true) ->
  (exists x, In x l /\ f x = false /\ h x = true) ->
  (length (filter f l) < length (filter h l))%nat.
Proof.
  intros A f h l; induction l as [|a l IH]; intros H [x [Hx [Hf Hh]]]; simpl in *; [contradiction|].
  assert (Hle : (length (filter f l) <= length (filter h l))%nat).
  { apply filter_len_le. intros y Hy; apply H; right; exact Hy. }
  destruct Hx as [Hx|Hx].
  - subst a. rewrite Hf, Hh. simpl. lia.
  - assert (IH' : (length (filter f l) < length (filter h l))%nat).
    { apply IH; [intros y Hy; apply H; right; exact Hy|]. exists x. auto. }
    destruct (f a) eqn:Ef.
    + rewrite (H a (or_introl eq_refl) Ef). simpl. lia.
    + destruct (h a); simpl; lia.
Qed.

Lemma count_le : forall S, (count S <= n)%nat.
Proof.
  intros S. unfold count.
  assert (H := filter_len_le (fun j => nth j S false) (fun _ => true) (seq 0 n) (fun _ _ _ => eq_refl)).
  assert (E : filter (fun _ : nat => true) (seq 0 n) = seq 0 n).
  { clear. induction (seq 0 n) as [|a l IH]; simpl; [reflexivity|]. rewrite IH. reflexivity. }
  rewrite E, seq_length in H. exact H.
Qed.

Lemma count_step_lt : forall S, closedb S = false -> (count S < count (dep_step n cm S))%nat.
Proof.
  intros S H. apply closedb_false in H. destruct H as [j [Hj [H1 H2]]].
  unfold count. apply filter_len_lt.
  - intros x Hx Hf. apply in_seq in Hx. apply step_mono; [lia|exact Hf].
  - exists j. split; [apply in_seq; lia|]. split; assumption.
Qed.

Lemma iter_closed_or_big : forall k S, (1 <= count S)%nat ->
  closed (Nat.iter k (dep_step n cm) S) \/ (k + 1 <= count (Nat.iter k (dep_step n cm) S))%nat.
Proof.
  induction k as [|k IH]; intros S H0.
  - right. simpl. exact H0.
  - simpl. destruct (IH S H0) as [Hc|Hb].
    + left. apply closed_step. exact Hc.
    + destruct (closedb (Nat.iter k (dep_step n cm) S)) eqn:E.
      * left. apply closed_step. apply closedb_true. exact E.
      * right. apply count_step_lt in E. lia.
Qed.

Lemma dep0_nth : forall axis j, (j < n)%nat -> nth j (map (graph n cm axis) (seq 0 n)) false = graph n cm axis j.
Proof. intros axis j Hj. apply nth_map_seq. exact Hj. Qed.

Lemma dep_mask_closed : forall axis, (axis < n)%nat -> closed (dep_mask n cm axis).
Proof.
  intros axis Ha. unfold dep_mask.
  destruct (iter_closed_or_big n (map (graph n cm axis) (seq 0 n))) as [H|H]; [|exact H|].
  - unfold count.
    assert (Hin : In axis (filter (fun j => nth j (map (graph n cm axis) (seq 0 n)) false) (seq 0 n))).
    { apply filter_In. split; [apply in_seq; lia|]. rewrite dep0_nth by exact Ha. apply graph_refl. }
    destruct (filter (fun j => nth j (map (graph n cm axis) (seq 0 n)) false) (seq 0 n)); [contradiction|simpl; lia].
  - pose proof (count_le (Nat.iter n (dep_step n cm) (map (graph n cm axis) (seq 0 n)))). lia.
Qed.

Lemma dep_mask_adjacent : forall axis j, (axis < n)%nat -> (j < n)%nat ->
  graph n cm axis j = true -> nth j (dep_mask n cm axis) false = true.
Proof.
  intros axis j Ha Hj H. unfold dep_mask. apply iter_mono; [exact Hj|]. rewrite dep0_nth by exact Hj. exact H.
Qed.

Lemma dep_mask_self : forall axis, (axis < n)%nat -> nth axis (dep_mask n cm axis) false = true.
Proof. intros axis Ha. apply dep_mask_adjacent; [exact Ha|exact Ha|apply graph_refl]. Qed.

(* membership is invariant along an edge, in both directions *)
Lemma dep_mask_edge : forall axis i j, (axis < n)%nat -> (i < n)%nat -> (j < n)%nat ->
  graph n cm i j = true -> nth i (dep_mask n cm axis) false = nth j (dep_mask n cm axis) false.
Proof.
  intros axis i j Ha Hi Hj H.
  pose proof (dep_mask_closed axis Ha) as Hc.
  destruct (nth i (dep_mask n cm axis) false) eqn:Ei, (nth j (dep_mask n cm axis) false) eqn:Ej; try reflexivity.
  - rewrite <- Ej. symmetry. apply (closed_adj _ i j Hc Hi Hj Ei H).
  - rewrite <- Ei. apply (closed_adj _ j i Hc Hj Hi Ej). rewrite graph_sym. exact H.
Qed.

Lemma in_dependent_axes : forall axis j,
  In j (dependent_axes_cm n cm axis) <-> (j < n)%nat /\ nth j (dep_mask n cm axis) false = true.
Proof.
  intros axis j. unfold dependent_axes_cm. rewrite filter_In, in_seq. split; intros [H1 H2]; split; try lia; exact H2.
Qed.

(* dependent_axes_covers_forward, at the level of the correlation matrix *)
Lemma covers_forward_cm : forall a j, (a < n)%nat -> (j < n)%nat -> rmat n cm a j = true -> In j (dependent_axes_cm n cm a).
Proof.
  intros a j Ha Hj H. apply in_dependent_axes. split; [exact Hj|].
  apply dep_mask_adjacent; [exact Ha|exact Hj|]. apply graph_rmat. exact H.
Qed.

End Dep.

Lemma memn_In : forall i l, memn i l = true <-> In i l.
Proof.
  intros i l. unfold memn. rewrite existsb_exists. split.
  - intros [x [Hx E]]. apply Nat.eqb_eq in E. subst x. exact Hx.
  - intros H. exists i. split; [exact H|apply Nat.eqb_refl].
Qed.
