(* C15 - the inverse respects the connected components; world attributes, links and round trip *)
From Coq Require Import ZArith QArith Lqa List Bool Lia Setoid.
Import ListNotations.
From GV Require Import Common.Wire C15.Model.
From GV Require Export C15.Lemmas1 C15.Lemmas2.
Open Scope Q_scope.

(* (A B)[i, j] for n x n matrices *)
Definition mm (n : nat) (A B : mat) (i j : nat) : Q := qsum n (fun k => mget A i k * mget B k j).

(* Mi is a left inverse of the augmented matrix:  Mi M = I  and  Mi t + ti = 0 *)
Definition left_inverse (c : coords) : Prop :=
  match c with
  | Identity _ => True
  | Affine M t Mi ti =>
    let n := length M in
    wf_mat n M /\ wf_mat n Mi /\
    (forall i j, (i < n)%nat -> (j < n)%nat -> mm n Mi M i j == delta i j) /\
    (forall k, (k < n)%nat -> qsum n (fun j => mget Mi k j * qnth t j) + qnth ti k == 0)
  end.
(* ... and a right inverse:  M Mi = I *)
Definition right_inverse (c : coords) : Prop :=
  match c with
  | Identity _ => True
  | Affine M t Mi ti =>
    let n := length M in forall i j, (i < n)%nat -> (j < n)%nat -> mm n M Mi i j == delta i j
  end.

(* ---------- the inverse of a matrix that respects a partition respects it too ---------- *)
Section Block.
Variable n : nat.
Variables M Mi : mat.
Variable C : nat -> bool.
Hypothesis HL : forall i j, (i < n)%nat -> (j < n)%nat -> mm n Mi M i j == delta i j.
Hypothesis HR : forall i j, (i < n)%nat -> (j < n)%nat -> mm n M Mi i j == delta i j.
Hypothesis HC : forall w p, (w < n)%nat -> (p < n)%nat -> nz (mget M w p) = true -> C w = C p.

Lemma M_zero_across : forall w p, (w < n)%nat -> (p < n)%nat -> C w <> C p -> mget M w p == 0.
Proof.
  intros w p Hw Hp Hne. apply nz_false. destruct (nz (mget M w p)) eqn:E; [|reflexivity].
  exfalso. apply Hne. apply HC; assumption.
Qed.

Lemma inverse_zero_across : forall i l, (i < n)%nat -> (l < n)%nat -> C i = true -> C l = false -> mget Mi i l == 0.
Proof.
  intros i l Hi Hl Ci Cl.
  set (u := fun k : nat => if C k then 0 else mget Mi i k).
  (* u M = 0 *)
  assert (UM : forall j, (j < n)%nat -> qsum n (fun k => u k * mget M k j) == 0).
  { intros j Hj. destruct (C j) eqn:Cj.
    - apply qsum_zero. intros k Hk. unfold u. destruct (C k) eqn:Ck; [lra|].
      rewrite (M_zero_across k j Hk Hj) by congruence. lra.
    - rewrite (qsum_ext n _ (fun k => mget Mi i k * mget M k j)).
      + fold (mm n Mi M i j). rewrite (HL i j Hi Hj). unfold delta.
        destruct (Nat.eqb i j) eqn:E; [|reflexivity]. apply Nat.eqb_eq in E. congruence.
      + intros k Hk. unfold u. destruct (C k) eqn:Ck; [|reflexivity].
        rewrite (M_zero_across k j Hk Hj) by congruence. lra. }
  (* u = (u M) Mi *)
  assert (U : u l == qsum n (fun j => qsum n (fun k => u k * mget M k j) * mget Mi j l)).
  { rewrite (qsum_ext n _ (fun j => qsum n (fun k => u k * (mget M k j * mget Mi j l)))).
    2:{ intros j Hj. rewrite <- qsum_scal_r. apply qsum_ext. intros k Hk. lra. }
    rewrite (qsum_swap n n (fun j k => u k * (mget M k j * mget Mi j l))).
    rewrite (qsum_ext n _ (fun k => u k * delta k l)).
    2:{ intros k Hk. rewrite qsum_scal. fold (mm n M Mi k l). rewrite (HR k l Hk Hl). reflexivity. }
    rewrite (qsum_delta n l u Hl). reflexivity. }
  assert (Z : u l == 0).
  { rewrite U. apply qsum_zero. intros j Hj. rewrite (UM j Hj). lra. }
  unfold u in Z. rewrite Cl in Z. exact Z.
Qed.
End Block.

(* ---------- dependent_axes covers what is needed, in both directions ---------- *)
Lemma rev_rev_idx : forall n i, (i < n)%nat -> (n - 1 - (n - 1 - i))%nat = i.
Proof. intros; lia. Qed.

Lemma dependent_axes_covers_forward : forall c a j, (a < cdim c)%nat -> (j < cdim c)%nat ->
  acm c (cdim c - 1 - a) (cdim c - 1 - j) = true -> In j (dependent_axes c a).
Proof.
  intros c a j Ha Hj H. unfold dependent_axes. apply covers_forward_cm; [exact Ha|exact Hj|]. exact H.
Qed.

Lemma dependent_axes_self : forall c a, (a < cdim c)%nat -> In a (dependent_axes c a).
Proof.
  intros c a Ha. unfold dependent_axes. apply in_dependent_axes. split; [exact Ha|apply dep_mask_self; exact Ha].
Qed.

Lemma dependent_axes_covers_backward : forall c i j, left_inverse c -> right_inverse c ->
  (i < cdim c)%nat -> (j < cdim c)%nat ->
  inv_supp c (cdim c - 1 - i) (cdim c - 1 - j) = true -> In j (dependent_axes c i).
Proof.
  intros [n|M t Mi ti] i j HLI HRI Hi Hj H.
  - simpl in *. apply Nat.eqb_eq in H. assert (i = j) by lia. subst j. apply (dependent_axes_self (Identity n)). exact Hi.
  - simpl in Hi, Hj, H. destruct HLI as [WM [WMi [HL _]]]. simpl in HRI.
    set (n := length M) in *. set (c := Affine M t Mi ti).
    set (D := fun k : nat => nth k (dep_mask n (acm c) i) false).
    destruct (D j) eqn:Dj.
    { unfold dependent_axes. apply in_dependent_axes. split; [exact Hj|exact Dj]. }
    exfalso.
    set (C := fun p : nat => D (n - 1 - p)%nat).
    assert (HC : forall w p, (w < n)%nat -> (p < n)%nat -> nz (mget M w p) = true -> C w = C p).
    { intros w p Hw Hp Hz. unfold C, D. apply dep_mask_edge; try lia.
      apply graph_rmat. unfold rmat. rewrite !rev_rev_idx by assumption. exact Hz. }
    assert (Z : mget Mi (n - 1 - i) (n - 1 - j) == 0).
    { apply (inverse_zero_across n M Mi C HL HRI HC); try lia.
      - unfold C. rewrite rev_rev_idx by exact Hi. unfold D. apply dep_mask_self. exact Hi.
      - unfold C. rewrite rev_rev_idx by exact Hj. exact Dj. }
    apply nz_true in H. contradiction.
Qed.

(* ---------- world_to_pixel undoes pixel_to_world ---------- *)
Lemma world_pixel_roundtrip : forall c x k, left_inverse c -> length x = cdim c -> (k < cdim c)%nat ->
  w2p c k (map (fun j => p2w c j x) (seq 0 (cdim c))) == qnth x k.
Proof.
  intros [n|M t Mi ti] x k HLI Hx Hk.
  - simpl in *. rewrite qnth_map_seq by exact Hk. reflexivity.
  - simpl in Hx, Hk. destruct HLI as [WM [WMi [HL HT]]]. set (n := length M) in *.
    unfold w2p, cdim. fold n.
    rewrite (affine_row_qsum n Mi ti k _ WMi Hk).
    rewrite (qsum_ext n _ (fun j => qsum n (fun l => mget Mi k j * mget M j l * qnth x l) + mget Mi k j * qnth t j)).
    2:{ intros j Hj. rewrite qnth_map_seq by exact Hj. unfold p2w. rewrite (affine_row_qsum n M t j x WM Hj).
        rewrite Qmult_plus_distr_r. rewrite <- qsum_scal.
        rewrite (qsum_ext n (fun l => mget Mi k j * (mget M j l * qnth x l)) (fun l => mget Mi k j * mget M j l * qnth x l)).
        - reflexivity.
        - intros l _. lra. }
    rewrite (qsum_plus n (fun j => qsum n (fun l => mget Mi k j * mget M j l * qnth x l)) (fun j => mget Mi k j * qnth t j)).
    rewrite (qsum_swap n n (fun j l => mget Mi k j * mget M j l * qnth x l)).
    rewrite (qsum_ext n (fun l => qsum n (fun j => mget Mi k j * mget M j l * qnth x l)) (fun l => qnth x l * delta l k)).
    2:{ intros l Hl. rewrite qsum_scal_r. fold (mm n Mi M k l). rewrite (HL k l Hk Hl). unfold delta.
        rewrite (Nat.eqb_sym l k). lra. }
    rewrite (qsum_delta n k (qnth x) Hk).
    pose proof (HT k Hk) as HTk. lra.
Qed.

(* ---------- world attributes ---------- *)
Lemma pix_vec_length : forall n ss idx, length (pix_vec n ss idx) = n.
Proof. intros; unfold pix_vec. rewrite map_length, seq_length. reflexivity. Qed.

(* CoordinateComponent._calculate with ANY kept set that covers the correlated pixel axes returns the
   directly transformed pixel position, for every view (ss) and every position of the view (idx) *)
Lemma world_attribute_sound : forall dep c ss a idx, (a < cdim c)%nat ->
  (forall j, (j < cdim c)%nat -> acm c (cdim c - 1 - a) (cdim c - 1 - j) = true -> In j dep) ->
  world_value_with dep c ss a idx == p2w c (cdim c - 1 - a) (pix_vec (cdim c) ss idx).
Proof.
  intros dep c ss a idx Ha H. unfold world_value_with. rewrite p2w_single_sound.
  apply p2w_support; [rewrite pix_vec_length, map_length, seq_length; reflexivity|].
  intros j Hj. unfold pix_vec. destruct (Nat.lt_ge_cases j (cdim c)) as [Hlt|Hge].
  - rewrite !qnth_map_seq by exact Hlt. unfold pixarr_sc.
    assert (Hin : In (cdim c - 1 - j)%nat dep).
    { apply H; [lia|]. rewrite rev_rev_idx by exact Hlt. exact Hj. }
    apply memn_In in Hin. rewrite Hin. reflexivity.
  - rewrite !qnth_map_seq_out by exact Hge. reflexivity.
Qed.

Lemma world_attribute_direct : forall c ss a idx, (a < cdim c)%nat ->
  world_value c ss a idx == p2w c (cdim c - 1 - a) (pix_vec (cdim c) ss idx).
Proof.
  intros c ss a idx Ha. unfold world_value. apply world_attribute_sound; [exact Ha|].
  intros j Hj H. apply dependent_axes_covers_forward; assumption.
Qed.

(* ---------- the automatically created links ---------- *)
Lemma link_p2w_world_value : forall c ss a idx, link_p2w c ss a idx = world_value c ss a idx.
Proof.
  intros c ss a idx. unfold link_p2w, world_value, world_value_with, p2w_single, single_axis.
  f_equal. apply map_ext. intros k. unfold pixarr_sc.
  destruct (memn (cdim c - 1 - k) (dependent_axes c a)); destruct (acm c (cdim c - 1 - a) k); reflexivity.
Qed.

Lemma links_equal_direct_p2w : forall c ss a idx, (a < cdim c)%nat ->
  link_p2w c ss a idx == p2w c (cdim c - 1 - a) (pix_vec (cdim c) ss idx).
Proof. intros. rewrite link_p2w_world_value. apply world_attribute_direct. assumption. Qed.

Lemma links_equal_direct_w2p : forall c ss i idx, left_inverse c -> right_inverse c -> (i < cdim c)%nat ->
  link_w2p c ss i idx == w2p c (cdim c - 1 - i) (world_vec c ss idx).
Proof.
  intros c ss i idx HLI HRI Hi. unfold link_w2p.
  assert (Hcov : forall j, (j < cdim c)%nat -> inv_supp c (cdim c - 1 - i) j = true ->
                 In (cdim c - 1 - j)%nat (dependent_axes c i)).
  { intros j Hj H. apply dependent_axes_covers_backward; try assumption; try lia.
    rewrite rev_rev_idx by exact Hj. exact H. }
  rewrite w2p_single_sound.
  - apply w2p_support; [unfold world_vec; rewrite !map_length; reflexivity|].
    intros j Hj. unfold world_vec. destruct (Nat.lt_ge_cases j (cdim c)) as [Hlt|Hge].
    + rewrite !qnth_map_seq by exact Hlt.
      pose proof (Hcov j Hlt Hj) as Hin. apply memn_In in Hin. rewrite Hin.
      rewrite world_attribute_direct by lia. rewrite rev_rev_idx by exact Hlt. reflexivity.
    + rewrite !qnth_map_seq_out by exact Hge. reflexivity.
  - intros j Hj H. unfold w2p_keep. rewrite rev_rev_idx by exact Hi. apply memn_In. apply Hcov; assumption.
Qed.

(* ... so the world->pixel link gives back the pixel coordinate itself *)
Lemma link_w2p_is_pixel : forall c ss i idx, left_inverse c -> right_inverse c -> (i < cdim c)%nat ->
  link_w2p c ss i idx == pixarr ss i idx.
Proof.
  intros c ss i idx HLI HRI Hi. rewrite links_equal_direct_w2p by assumption.
  unfold world_vec. rewrite (world_pixel_roundtrip c (pix_vec (cdim c) ss idx)); try assumption; try lia.
  - unfold pix_vec. rewrite qnth_map_seq by lia. rewrite rev_rev_idx by exact Hi. reflexivity.
  - apply pix_vec_length.
Qed.

(* ====================================================================================================
   Histories of one dataset (round 4): reads interleaved with update_values_from_data, coords = ..., and the operations
   that change neither the shape nor the coordinate object.
   ==================================================================================================== *)
From GV Require Import gen.Gen_coordcomp.

(* the hidden part of the state (number of world components, what the links were built with) is a function of the visible part
   (coordinate object, shape) *)
Definition hwf (s : hstate) : Prop :=
  hs_lcid s = hs_cid s /\ hs_lcoords s = hs_coords s /\ hs_ln s = hs_wn s /\
  hs_wn s = (if (hs_cid s =? 0)%Z then 0%nat else length (hs_shape s)).

(* the documented domain of update_values_from_data: the number of dimensions is kept (F-C15d otherwise) *)
Definition op_keeps_ndim (n : nat) (o : hop) : Prop :=
  match o with HUpdateValues _ _ sh => length sh = n | _ => True end.

(* the visible state after one operation *)
Definition hcur (v : Z * coords * list nat) (o : hop) : Z * coords * list nat :=
  let '(cid, c, sh) := v in
  match o with
  | HUpdateValues cid' c' sh' => if (cid =? cid')%Z then (cid, c, sh') else (cid', c', sh')
  | HSetCoords cid' c' => if (cid =? cid')%Z then (cid, c, sh) else (cid', c', sh)
  | _ => (cid, c, sh)
  end.
Definition hbuild3 (v : Z * coords * list nat) : hstate := let '(cid, c, sh) := v in hbuild cid c sh.

(* the specification of a history: every read is the read of a dataset built afresh from the current coordinate object and shape *)
Fixpoint hrun_spec (v : Z * coords * list nat) (h : list hop) : list tree :=
  match h with
  | [] => []
  | o :: r => match snd (hstep (hbuild3 v) o) with
              | Some t => t :: hrun_spec (hcur v o) r
              | None => hrun_spec (hcur v o) r
              end
  end.

(* equivalence of the model's setter with the translated condition of Data.coords.setter: it rebuilds exactly when the object changes *)
Lemma hset_coords_spec : forall s cid c,
  hset_coords s cid c =
  if (hs_cid s =? cid)%Z then s
  else hrebuild (mkH cid c (hs_shape s) (hs_wn s) (hs_lcid s) (hs_lcoords s) (hs_ln s)).
Proof.
  intros s cid c. unfold hset_coords, coords_setter_rebuilds, coords_setter_needs_components, hncomp.
  destruct (hs_cid s =? cid)%Z; reflexivity.
Qed.

(* equivalence with the translated CoordinateComponent.data / __getitem__: both are _calculate at the time of the read *)
Lemma hread_world_calc : forall s v a,
  hread_world s v a = over_view (hs_shape s) (vw_of v) (fun ss => world_value (hs_coords s) ss a) enc_vals (err 2).
Proof. intros s [vw|] a; reflexivity. Qed.

Lemma hwf_fresh : forall s, hwf s <-> s = hbuild (hs_cid s) (hs_coords s) (hs_shape s).
Proof.
  intros [cid c sh wn lcid lc ln]. unfold hwf, hbuild, hrebuild. simpl. split.
  - intros (H1 & H2 & H3 & H4). subst. reflexivity.
  - intros H. injection H as H1 H2 H3 H4. repeat split; congruence.
Qed.

Lemma hwf_hbuild : forall cid c sh, hwf (hbuild cid c sh).
Proof. intros. unfold hwf, hbuild, hrebuild. simpl. repeat split. Qed.

Lemma hstep_visible : forall s o, hwf s -> op_keeps_ndim (length (hs_shape s)) o ->
  let s' := fst (hstep s o) in
  hwf s' /\ (hs_cid s', hs_coords s', hs_shape s') = hcur (hs_cid s, hs_coords s, hs_shape s) o /\
  length (hs_shape s') = length (hs_shape s).
Proof.
  intros s o (H1 & H2 & H3 & H4) Hk. destruct o as [v|ins|cid c sh|cid c|sh v|]; simpl in *.
  - repeat split; assumption.
  - repeat split; assumption.
  - unfold hupdate_values. rewrite hset_coords_spec. simpl.
    destruct (hs_cid s =? cid)%Z eqn:E; simpl.
    + unfold hwf; simpl. rewrite Hk. repeat split; try assumption; try congruence.
    + unfold hwf; simpl. repeat split; try assumption.
  - rewrite hset_coords_spec. destruct (hs_cid s =? cid)%Z eqn:E; simpl.
    + unfold hwf. repeat split; assumption.
    + unfold hwf; simpl. repeat split.
  - repeat split; assumption.
  - repeat split; assumption.
Qed.

Lemma history_invariant : forall h s, hwf s -> Forall (op_keeps_ndim (length (hs_shape s))) h ->
  hwf (hfinal s h) /\ length (hs_shape (hfinal s h)) = length (hs_shape s).
Proof.
  induction h as [|o r IH]; intros s Hwf Hk.
  - split; [exact Hwf|reflexivity].
  - inversion Hk as [|? ? Ho Hr]; subst. unfold hfinal. simpl.
    destruct (hstep_visible s o Hwf Ho) as (Hwf' & _ & Hlen).
    fold (hfinal (fst (hstep s o)) r).
    destruct (IH (fst (hstep s o)) Hwf') as (A & B).
    + rewrite Hlen. exact Hr.
    + split; [exact A|]. rewrite B. exact Hlen.
Qed.

(* no hidden state: after any history the whole state is the one of a dataset built afresh from the current object and shape *)
Lemma history_no_hidden_state : forall h s, hwf s -> Forall (op_keeps_ndim (length (hs_shape s))) h ->
  let s' := hfinal s h in s' = hbuild (hs_cid s') (hs_coords s') (hs_shape s').
Proof. intros h s Hwf Hk. simpl. apply hwf_fresh. apply history_invariant; assumption. Qed.

Lemma hstep_snd_visible : forall s o, hwf s ->
  snd (hstep s o) = snd (hstep (hbuild (hs_cid s) (hs_coords s) (hs_shape s)) o).
Proof. intros s o Hwf. apply hwf_fresh in Hwf. rewrite <- Hwf. reflexivity. Qed.

(* every read of a history returns what a dataset built afresh from the current coordinate object and the current shape returns *)
Lemma history_reads_current : forall h s, hwf s -> Forall (op_keeps_ndim (length (hs_shape s))) h ->
  hrun s h = hrun_spec (hs_cid s, hs_coords s, hs_shape s) h.
Proof.
  induction h as [|o r IH]; intros s Hwf Hk; [reflexivity|].
  inversion Hk as [|? ? Ho Hr]; subst. simpl.
  destruct (hstep_visible s o Hwf Ho) as (Hwf' & Hvis & Hlen).
  rewrite <- (hstep_snd_visible s o Hwf).
  destruct (hstep s o) as [s' out] eqn:E. simpl in *.
  rewrite <- Hvis. rewrite <- Hlen in Hr.
  destruct out; rewrite (IH s' Hwf' Hr); reflexivity.
Qed.

Lemma link_w2p2_same : forall c ss i idx, link_w2p2 c c ss i idx = link_w2p c ss i idx.
Proof. reflexivity. Qed.

(* what the reads after a history are made of: the world attributes, the pixel->world links and the world->pixel links all come from
   the CURRENT coordinate object applied to the pixel grid of the view *)
Lemma history_values_direct : forall h s, hwf s -> Forall (op_keeps_ndim (length (hs_shape s))) h ->
  let s' := hfinal s h in
  forall ss a idx, (a < cdim (hs_coords s'))%nat ->
    world_value (hs_coords s') ss a idx == p2w (hs_coords s') (cdim (hs_coords s') - 1 - a) (pix_vec (cdim (hs_coords s')) ss idx) /\
    link_p2w (hs_lcoords s') ss a idx == p2w (hs_coords s') (cdim (hs_coords s') - 1 - a) (pix_vec (cdim (hs_coords s')) ss idx) /\
    (left_inverse (hs_coords s') -> right_inverse (hs_coords s') ->
     link_w2p2 (hs_lcoords s') (hs_coords s') ss a idx == pixarr ss a idx).
Proof.
  intros h s Hwf Hk s' ss a idx Ha.
  destruct (history_invariant h s Hwf Hk) as ((H1 & H2 & H3 & H4) & _). fold s' in H1, H2, H3, H4.
  rewrite H2. split; [apply world_attribute_direct; exact Ha|]. split.
  - apply links_equal_direct_p2w. exact Ha.
  - intros HL HR. rewrite link_w2p2_same. apply link_w2p_is_pixel; assumption.
Qed.
