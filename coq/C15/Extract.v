From Coq Require Import ZArith QArith ExtrOcamlBasic.
From GV Require Import Common.Wire C15.Model.
Extraction "c15_model.ml" run_case Z.add Z.mul Z.div_eucl Z.opp.
