(* C15 - non-vacuity of the hypotheses and sanity runs of the executable model *)
From Coq Require Import ZArith QArith List Bool Lia.
Import ListNotations.
From GV Require Import Common.Wire C15.Model C15.Lemmas.
Open Scope Q_scope.

(* a sheared (triangular) transformation with its exact inverse:  x' = x + y + 1, y' = y + 2 *)
Definition shear : coords := Affine [[1; 1]; [0; 1]] [1; 2] [[1; -1]; [0; 1]] [1; -2].
(* the two axes exchanged, scaled *)
Definition swap : coords := Affine [[0; 2]; [1; 0]] [0; 3] [[0; 1]; [1 # 2; 0]] [-3; 0].
(* 3-d: x and z coupled, y alone, stored with a cyclic shift *)
Definition block3 : coords :=
  Affine [[1; 0; 1]; [0; 2; 0]; [0; 0; 1]] [0; 0; 0] [[1; 0; -1]; [0; 1 # 2; 0]; [0; 0; 1]] [0; 0; 0].

Ltac small_idx := repeat match goal with i : nat |- _ => destruct i as [|i]; try lia end.

Example shear_left : left_inverse shear.
Proof.
  simpl. repeat split.
  - intros i Hi. small_idx; reflexivity.
  - intros i Hi. small_idx; reflexivity.
  - intros i j Hi Hj. small_idx; vm_compute; reflexivity.
  - intros k Hk. small_idx; vm_compute; reflexivity.
Qed.
Example shear_right : right_inverse shear.
Proof. simpl. intros i j Hi Hj. small_idx; vm_compute; reflexivity. Qed.

Example swap_left : left_inverse swap.
Proof.
  simpl. repeat split.
  - intros i Hi. small_idx; reflexivity.
  - intros i Hi. small_idx; reflexivity.
  - intros i j Hi Hj. small_idx; vm_compute; reflexivity.
  - intros k Hk. small_idx; vm_compute; reflexivity.
Qed.
Example swap_right : right_inverse swap.
Proof. simpl. intros i j Hi Hj. small_idx; vm_compute; reflexivity. Qed.

(* the inverse of the shear needs BOTH world axes for pixel x, the forward column names only one:
   the defect F-C15b; the repaired dependent_axes returns both *)
Example shear_inverse_support : inv_supp shear 0 1 = true /\ acm shear 1 0 = false.
Proof. split; reflexivity. Qed.
Example shear_dependent_axes : dependent_axes shear 0 = [0; 1]%nat /\ dependent_axes shear 1 = [0; 1]%nat.
Proof. split; reflexivity. Qed.
(* permuted axes: the diagonal of the correlation matrix is empty (F-C15a); both axes are returned *)
Example swap_dependent_axes : dependent_axes swap 0 = [0; 1]%nat /\ acm swap 0 0 = false /\ acm swap 1 1 = false.
Proof. repeat split; reflexivity. Qed.
(* a genuinely partial kept set: numpy axis 1 (y) is alone, axes 0 and 2 form a component *)
Example block3_dependent_axes :
  dependent_axes block3 0 = [0; 2]%nat /\ dependent_axes block3 1 = [1]%nat /\ dependent_axes block3 2 = [0; 2]%nat.
Proof. repeat split; reflexivity. Qed.

(* the hypothesis of shortcut_sound holds for a strict subset of the inputs *)
Example shortcut_hyp_nontrivial :
  let keep := fun j => negb (Nat.eqb j 1) in
  (forall j, (j < 3)%nat -> nz (mget [[1; 0; 1]; [0; 2; 0]; [0; 0; 1]] 0 j) = true -> keep j = true) /\ keep 1%nat = false.
Proof. split; [|reflexivity]. intros j Hj. small_idx; simpl; intros H; try reflexivity; discriminate. Qed.

(* views: shape (2,3), view (1, ::2) *)
Definition ss23 := match sels [2; 3]%nat [VInt 1; VList [0; 2]%nat] with Some s => s | None => [] end.
Eval vm_compute in (oshape ss23, map (fun o => Qred (world_value shear ss23 1 (expand ss23 o))) (all_indices (oshape ss23))).
(* world x (numpy axis 1) at pixels (y=1, x=0), (y=1, x=2):  x + y + 1 = 2, 4 *)
Example world_shear_view :
  map (fun o => Qred (world_value shear ss23 1 (expand ss23 o))) (all_indices (oshape ss23)) = [2; 4].
Proof. vm_compute. reflexivity. Qed.
Example link_shear_view :
  map (fun o => Qred (link_w2p shear ss23 1 (expand ss23 o))) (all_indices (oshape ss23)) = [0; 2].
Proof. vm_compute. reflexivity. Qed.
Example link_swap_view :
  map (fun o => Qred (link_w2p swap ss23 0 (expand ss23 o))) (all_indices (oshape ss23)) = [1; 1].
Proof. vm_compute. reflexivity. Qed.
Example index_error_view : sels [2; 3]%nat [VInt 2] = None.
Proof. reflexivity. Qed.

(* ---------- histories (round 4) ---------- *)
(* the seeded sequence: read, update_values_from_data with the SAME coordinate object and another shape, read *)
Definition hist_demo : list hop :=
  [HRead None; HUpdateValues 1 shear [3; 2]%nat; HRead None; HSetCoords 2 swap; HRead (Some [VInt 1]); HSetCoords 0 (Identity 0); HRead None; HKeep;
   HSetCoords 3 shear; HSibling [1; 2]%nat None].
Example hist_demo_wf : hwf (hbuild 1 shear [2; 3]%nat) /\ Forall (op_keeps_ndim 2) hist_demo.
Proof. split; [apply hwf_hbuild|]. repeat constructor. Qed.
(* the second read has the new shape (3,2): world x = x + y + 1 *)
Example hist_demo_second_read :
  nth 1 (hrun (hbuild 1 shear [2; 3]%nat) hist_demo) (T 0 []) =
  T 0 [leaf 2; leaf 4;
       T 0 [T 1 [zs [3; 2]%Z; T 0 (map enc_q [2; 2; 3; 3; 4; 4])]; T 1 [zs [3; 2]%Z; T 0 (map enc_q [1; 2; 2; 3; 3; 4])]];
       T 0 [T 1 [zs [3; 2]%Z; T 0 (map enc_q [2; 2; 3; 3; 4; 4])]; T 1 [zs [3; 2]%Z; T 0 (map enc_q [1; 2; 2; 3; 3; 4])]];
       T 0 [T 1 [zs [3; 2]%Z; T 0 (map enc_q [0; 0; 1; 1; 2; 2])]; T 1 [zs [3; 2]%Z; T 0 (map enc_q [0; 1; 0; 1; 0; 1])]]].
Proof. vm_compute. reflexivity. Qed.
(* five reads; without coordinates there is no world attribute and no link *)
Example hist_demo_counts :
  map (fun t => (tag (nth 0 (kids t) (T 9 [])), tag (nth 1 (kids t) (T 9 [])))) (hrun (hbuild 1 shear [2; 3]%nat) hist_demo)
  = [(2, 4); (2, 4); (2, 4); (0, 0); (2, 4)]%Z.
Proof. vm_compute. reflexivity. Qed.
(* a state with stale links (built with another object) is NOT well formed: the invariant is not vacuous *)
Example stale_links_not_wf : ~ hwf (mkH 2 swap [2; 3]%nat 2 1 shear 2).
Proof. intros (H & _). discriminate H. Qed.
