From Coq Require Import ZArith QArith List Bool.
Import ListNotations.
From GV Require Import Common.Wire C15.Model C15.Lemmas.
Open Scope Q_scope.

(* The broadcasting shortcut never changes a value: if the inputs that are kept contain the support of the
   row of the matrix that is applied (M forward, M^-1 backward), replacing every other input array by its
   first element gives, at every position, the value obtained from the full inputs. *)
Theorem shortcut_sound : forall n A b k keep (ins : nat -> arr) idx,
  (forall j, (j < n)%nat -> nz (mget A k j) = true -> keep j = true) ->
  single_axis n keep (affine_row A b k) ins idx == affine_row A b k (map (fun j => ins j idx) (seq 0 n)).
Proof. exact Lemmas1.shortcut_sound. Qed.
Print Assumptions shortcut_sound.

(* pixel2world_single_axis equals the transformation applied to its full inputs (any coordinate object, any inputs). *)
Theorem p2w_single_sound : forall c (ins : nat -> arr) wa idx,
  p2w_single c ins wa idx == p2w c wa (map (fun k => ins k idx) (seq 0 (cdim c))).
Proof. exact Lemmas1.p2w_single_sound. Qed.
Print Assumptions p2w_single_sound.

(* CoordinateComponent._calculate with ANY set of kept ("dependent") axes that covers the correlated pixel
   axes returns the transformation applied to the pixel position, for every view and every position in it. *)
Theorem world_attribute_sound : forall dep c ss a idx, (a < cdim c)%nat ->
  (forall j, (j < cdim c)%nat -> acm c (cdim c - 1 - a) (cdim c - 1 - j) = true -> In j dep) ->
  world_value_with dep c ss a idx == p2w c (cdim c - 1 - a) (pix_vec (cdim c) ss idx).
Proof. exact Lemmas.world_attribute_sound. Qed.
Print Assumptions world_attribute_sound.

(* dependent_axes (as repaired) contains every pixel axis that world axis a is correlated with ... *)
Theorem dependent_axes_covers_forward : forall c a j, (a < cdim c)%nat -> (j < cdim c)%nat ->
  acm c (cdim c - 1 - a) (cdim c - 1 - j) = true -> In j (dependent_axes c a).
Proof. exact Lemmas.dependent_axes_covers_forward. Qed.
Print Assumptions dependent_axes_covers_forward.

(* ... and every world axis that pixel axis i of the INVERSE transformation depends on, although it only
   looks at the correlation matrix of the forward transformation (two-sided inverse as hypothesis). *)
Theorem dependent_axes_covers_backward : forall c i j, left_inverse c -> right_inverse c ->
  (i < cdim c)%nat -> (j < cdim c)%nat ->
  inv_supp c (cdim c - 1 - i) (cdim c - 1 - j) = true -> In j (dependent_axes c i).
Proof. exact Lemmas.dependent_axes_covers_backward. Qed.
Print Assumptions dependent_axes_covers_backward.

(* World attributes: data[world a, view] is the transformation applied to the pixel grid, for every view. *)
Theorem world_attribute_direct : forall c ss a idx, (a < cdim c)%nat ->
  world_value c ss a idx == p2w c (cdim c - 1 - a) (pix_vec (cdim c) ss idx).
Proof. exact Lemmas.world_attribute_direct. Qed.
Print Assumptions world_attribute_direct.

(* The automatically created links compute what the transformation computes when called directly. *)
Theorem links_equal_direct_p2w : forall c ss a idx, (a < cdim c)%nat ->
  link_p2w c ss a idx == p2w c (cdim c - 1 - a) (pix_vec (cdim c) ss idx).
Proof. exact Lemmas.links_equal_direct_p2w. Qed.
Print Assumptions links_equal_direct_p2w.

Theorem links_equal_direct_w2p : forall c ss i idx, left_inverse c -> right_inverse c -> (i < cdim c)%nat ->
  link_w2p c ss i idx == w2p c (cdim c - 1 - i) (world_vec c ss idx).
Proof. exact Lemmas.links_equal_direct_w2p. Qed.
Print Assumptions links_equal_direct_w2p.

(* world_to_pixel undoes pixel_to_world (exactly, in the rational model; Mi M = I and Mi t + ti = 0 as hypothesis). *)
Theorem world_pixel_roundtrip : forall c x k, left_inverse c -> length x = cdim c -> (k < cdim c)%nat ->
  w2p c k (map (fun j => p2w c j x) (seq 0 (cdim c))) == qnth x k.
Proof. exact Lemmas.world_pixel_roundtrip. Qed.
Print Assumptions world_pixel_roundtrip.

(* Hence the world->pixel link of a dataset gives back the pixel coordinate itself, under every view. *)
Theorem link_w2p_is_pixel : forall c ss i idx, left_inverse c -> right_inverse c -> (i < cdim c)%nat ->
  link_w2p c ss i idx == pixarr ss i idx.
Proof. exact Lemmas.link_w2p_is_pixel. Qed.
Print Assumptions link_w2p_is_pixel.

(* ---------- histories (round 4) ----------
   hstate = (coordinate object: identity + value, shape, number of world components, the object the links were built with, number of links);
   hop = read (no view / view / index arrays) | update_values_from_data | coords = obj | an operation that changes neither.
   The setter condition and CoordinateComponent.data / __getitem__ are translated from the source (coq/gen/Gen_coordcomp.v). *)

(* The model's setter is the translated condition of Data.coords.setter: world components and links are rebuilt exactly when the
   coordinate OBJECT changes. *)
Theorem hset_coords_spec : forall s cid c,
  hset_coords s cid c =
  if (hs_cid s =? cid)%Z then s
  else hrebuild (mkH cid c (hs_shape s) (hs_wn s) (hs_lcid s) (hs_lcoords s) (hs_ln s)).
Proof. exact Lemmas.hset_coords_spec. Qed.
Print Assumptions hset_coords_spec.

(* Invariant of every history that keeps the number of dimensions: the links refer to the current coordinate object, there are ndim
   world components (none without coordinates) and as many link pairs. *)
Theorem history_invariant : forall h s, hwf s -> Forall (op_keeps_ndim (length (hs_shape s))) h ->
  hwf (hfinal s h) /\ length (hs_shape (hfinal s h)) = length (hs_shape s).
Proof. exact Lemmas.history_invariant. Qed.
Print Assumptions history_invariant.

(* No hidden state: after any history the state is the one of a dataset built afresh from the current coordinate object and shape. *)
Theorem history_no_hidden_state : forall h s, hwf s -> Forall (op_keeps_ndim (length (hs_shape s))) h ->
  let s' := hfinal s h in s' = hbuild (hs_cid s') (hs_coords s') (hs_shape s').
Proof. exact Lemmas.history_no_hidden_state. Qed.
Print Assumptions history_no_hidden_state.

(* Every read of a history (world attributes without / with a view, both kinds of links, the counts) returns what a dataset built
   afresh from the coordinate object and the shape that are current AT THAT READ returns. *)
Theorem history_reads_current : forall h s, hwf s -> Forall (op_keeps_ndim (length (hs_shape s))) h ->
  hrun s h = hrun_spec (hs_cid s, hs_coords s, hs_shape s) h.
Proof. exact Lemmas.history_reads_current. Qed.
Print Assumptions history_reads_current.

(* ... and those values are the CURRENT transformation applied to the pixel grid of the view: world attributes, pixel->world links
   (built possibly long before) and world->pixel links (which return the pixel coordinate itself). *)
Theorem history_values_direct : forall h s, hwf s -> Forall (op_keeps_ndim (length (hs_shape s))) h ->
  let s' := hfinal s h in
  forall ss a idx, (a < cdim (hs_coords s'))%nat ->
    world_value (hs_coords s') ss a idx == p2w (hs_coords s') (cdim (hs_coords s') - 1 - a) (pix_vec (cdim (hs_coords s')) ss idx) /\
    link_p2w (hs_lcoords s') ss a idx == p2w (hs_coords s') (cdim (hs_coords s') - 1 - a) (pix_vec (cdim (hs_coords s')) ss idx) /\
    (left_inverse (hs_coords s') -> right_inverse (hs_coords s') ->
     link_w2p2 (hs_lcoords s') (hs_coords s') ss a idx == pixarr ss a idx).
Proof. exact Lemmas.history_values_direct. Qed.
Print Assumptions history_values_direct.
