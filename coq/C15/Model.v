(* C15 - world coordinates, their links and inverses agree with the coordinate object.
   Executable model (definitions only) of
     glue/core/coordinates.py        IdentityCoordinates, AffineCoordinates (166-186)
     glue/core/coordinate_helpers.py pixel2world_single_axis, world2pixel_single_axis, dependent_axes
     glue/core/component.py          CoordinateComponent._calculate
     glue/core/component_link.py     CoordinateComponentLink.using / ComponentLink.compute
   as repaired by the three `fix:` commits of worktree wt-C15 (dependent_axes = connected component,
   world2pixel_single_axis keeps the connected world axes, empty inputs keep their shape).

   Conventions.  Matrices act on coordinates in "fits" order (x first); data axes are in numpy order
   (x last): numpy axis a  <->  fits index n-1-a.  Arrays are functions from a multi-index to Q; the
   element `flat[0]` of an array is its value at the all-zero index, written [ins k []] below
   ([nth i [] 0 = 0]).  unbroadcast / broadcast_arrays / broadcast_to are value-preserving (C20) and
   are not modelled: only which inputs are replaced by their first element is. *)
From Coq Require Import ZArith QArith List Bool.
Import ListNotations.
From GV Require Import Common.Wire gen.Gen_coordcomp.
Open Scope Q_scope.

Definition vec := list Q.
Definition mat := list vec.
Definition qnth (v : vec) (i : nat) : Q := nth i v 0.
Definition mrow (M : mat) (i : nat) : vec := nth i M [].
Definition mget (M : mat) (i j : nat) : Q := qnth (mrow M i) j.

Fixpoint dot (u v : vec) : Q :=
  match u, v with
  | a :: u', b :: v' => a * b + dot u' v'
  | _, _ => 0
  end.

(* one output coordinate of  x |-> A x + b  (np.matmul with the augmented matrix) *)
Definition affine_row (A : mat) (b : vec) (k : nat) (x : vec) : Q := dot (mrow A k) x + qnth b k.

(* AffineCoordinates(matrix): M, t = matrix[:-1,:-1], matrix[:-1,-1]; Mi, ti the same blocks of
   np.linalg.inv(matrix), supplied from outside (numpy's inv is an oracle). *)
Inductive coords := Identity (n : nat) | Affine (M : mat) (t : vec) (Mi : mat) (ti : vec).

Definition cdim (c : coords) : nat :=
  match c with Identity n => n | Affine M _ _ _ => length M end.

(* pixel_to_world_values(...)[k] and world_to_pixel_values(...)[k], fits order *)
Definition p2w (c : coords) (k : nat) (x : vec) : Q :=
  match c with Identity _ => qnth x k | Affine M t _ _ => affine_row M t k x end.
Definition w2p (c : coords) (k : nat) (w : vec) : Q :=
  match c with Identity _ => qnth w k | Affine _ _ Mi ti => affine_row Mi ti k w end.

Definition nz (q : Q) : bool := negb (Qeq_bool q 0).

(* axis_correlation_matrix[w, p] *)
Definition acm (c : coords) (w p : nat) : bool :=
  match c with Identity _ => Nat.eqb w p | Affine M _ _ _ => nz (mget M w p) end.

(* ---------- dependent_axes (repaired) over an n x n correlation matrix cm[w, p] ---------- *)
Definition rmat (n : nat) (cm : nat -> nat -> bool) (a i : nat) : bool :=     (* matrix[::-1, ::-1] *)
  cm (n - 1 - a)%nat (n - 1 - i)%nat.
Definition graph (n : nat) (cm : nat -> nat -> bool) (i j : nat) : bool :=    (* identity | matrix | matrix.T *)
  Nat.eqb i j || rmat n cm i j || rmat n cm j i.
Definition dep_step (n : nat) (cm : nat -> nat -> bool) (dep : list bool) : list bool :=   (* graph[dep].any(axis=0) *)
  map (fun j => existsb (fun i => nth i dep false && graph n cm i j) (seq 0 n)) (seq 0 n).
Definition dep_mask (n : nat) (cm : nat -> nat -> bool) (axis : nat) : list bool :=
  Nat.iter n (dep_step n cm) (map (graph n cm axis) (seq 0 n)).
Definition dependent_axes_cm (n : nat) (cm : nat -> nat -> bool) (axis : nat) : list nat :=  (* np.nonzero(dep)[0] *)
  filter (fun j => nth j (dep_mask n cm axis) false) (seq 0 n).
Definition dependent_axes (c : coords) (axis : nat) : list nat := dependent_axes_cm (cdim c) (acm c) axis.

Definition memn (i : nat) (l : list nat) : bool := existsb (Nat.eqb i) l.

(* ---------- the single-axis helpers ---------- *)
Definition arr := list nat -> Q.

(* inputs with keep k = false are replaced by their first element before f is applied *)
Definition single_axis (n : nat) (keep : nat -> bool) (f : vec -> Q) (ins : nat -> arr) (idx : list nat) : Q :=
  f (map (fun k => if keep k then ins k idx else ins k []) (seq 0 n)).

(* pixel2world_single_axis(coords, *ins, world_axis=wa): pixel_dep = acm[wa, :] *)
Definition p2w_single (c : coords) (ins : nat -> arr) (wa : nat) : arr :=
  single_axis (cdim c) (acm c wa) (p2w c wa) ins.
(* world2pixel_single_axis(coords, *ins, pixel_axis=pa): world_dep[iw] = (n-1-iw) in dependent_axes(n-1-pa) *)
Definition w2p_keep (c : coords) (pa : nat) (iw : nat) : bool :=
  memn (cdim c - 1 - iw)%nat (dependent_axes c (cdim c - 1 - pa)%nat).
Definition w2p_single (c : coords) (ins : nat -> arr) (pa : nat) : arr :=
  single_axis (cdim c) (w2p_keep c pa) (w2p c pa) ins.

(* ---------- views ---------- *)
(* a view entry as numpy resolves it on one axis: an integer (may be negative) or the list of selected indices *)
Inductive ventry := VInt (i : Z) | VList (l : list nat).

(* (selected pixel indices, does the axis survive in the result) ; None = IndexError *)
Definition sel_axis (len : nat) (v : option ventry) : option (list nat * bool) :=
  match v with
  | None => Some (seq 0 len, true)
  | Some (VList l) => Some (l, true)
  | Some (VInt i) =>
    let i' := (if i <? 0 then i + Z.of_nat len else i)%Z in
    if ((i' <? 0) || (i' >=? Z.of_nat len))%Z then None else Some ([Z.to_nat i'], false)
  end.

Fixpoint sels (sh : list nat) (view : list ventry) : option (list (list nat * bool)) :=
  match sh with
  | [] => match view with [] => Some [] | _ :: _ => None end
  | len :: sh' =>
    let '(v, view') := match view with [] => (None, []) | v :: r => (Some v, r) end in
    match sel_axis len v, sels sh' view' with
    | Some s, Some r => Some (s :: r)
    | _, _ => None
    end
  end.

Definition oshape (ss : list (list nat * bool)) : list nat :=
  map (fun s => length (fst s)) (filter (fun s => snd s) ss).

(* index into the result -> index with one entry per data axis (0 on the axes removed by an integer) *)
Fixpoint expand (ss : list (list nat * bool)) (oidx : list nat) : list nat :=
  match ss with
  | [] => []
  | (_, true) :: r => match oidx with o :: os => o :: expand r os | [] => 0%nat :: expand r [] end
  | (_, false) :: r => 0%nat :: expand r oidx
  end.

Fixpoint all_indices (sh : list nat) : list (list nat) :=
  match sh with
  | [] => [[]]
  | n :: r => flat_map (fun i => map (cons i) (all_indices r)) (seq 0 n)
  end.

Definition qnat (k : nat) : Q := inject_Z (Z.of_nat k).

(* the pixel coordinate of data axis i at a position of the view *)
Definition pixarr (ss : list (list nat * bool)) (i : nat) : arr :=
  fun idx => qnat (nth (nth i idx 0%nat) (fst (nth i ss ([], true))) 0%nat).
(* ... replaced by the constant 0 when the axis is not in dep (`pix_coord = 0`, and the default of `using`) *)
Definition pixarr_sc (dep : list nat) (ss : list (list nat * bool)) (i : nat) : arr :=
  fun idx => if memn i dep then pixarr ss i idx else 0.

(* the pixel vector (fits order) at a position: what the transformation is applied to directly *)
Definition pix_vec (n : nat) (ss : list (list nat * bool)) (idx : list nat) : vec :=
  map (fun ip => pixarr ss (n - 1 - ip)%nat idx) (seq 0 n).

(* CoordinateComponent._calculate, world axis a (numpy order), with the dependent set made explicit *)
Definition world_value_with (dep : list nat) (c : coords) (ss : list (list nat * bool)) (a : nat) : arr :=
  p2w_single c (fun ip => pixarr_sc dep ss (cdim c - 1 - ip)%nat) (cdim c - 1 - a)%nat.
Definition world_value (c : coords) (ss : list (list nat * bool)) (a : nat) : arr :=
  world_value_with (dependent_axes c a) c ss a.

(* CoordinateComponentLink(pixel ids -> world id a).compute(data, view):
   args2[j] = data[pixel j, view] for j in from_needed, the default 0 otherwise *)
Definition link_p2w (c : coords) (ss : list (list nat * bool)) (a : nat) : arr :=
  let from_needed := dependent_axes c a in
  let args2 := fun j : nat => if memn j from_needed then pixarr ss j else (fun _ => 0) in
  p2w_single c (fun ip => args2 (cdim c - 1 - ip)%nat) (cdim c - 1 - a)%nat.

(* CoordinateComponentLink(world ids -> pixel id i, pixel2world=False).compute(data, view):
   args2[j] = data[world j, view] for j in from_needed, the default 0 otherwise *)
Definition link_w2p (c : coords) (ss : list (list nat * bool)) (i : nat) : arr :=
  let from_needed := dependent_axes c i in
  let args2 := fun j : nat => if memn j from_needed then world_value c ss j else (fun _ => 0) in
  w2p_single c (fun iw => args2 (cdim c - 1 - iw)%nat) (cdim c - 1 - i)%nat.

(* the world vector (fits order) obtained by calling the transformation directly at a position *)
Definition world_vec (c : coords) (ss : list (list nat * bool)) (idx : list nat) : vec :=
  map (fun k => p2w c k (pix_vec (cdim c) ss idx)) (seq 0 (cdim c)).

Definition over_view {A} (sh : list nat) (view : list ventry) (f : list (list nat * bool) -> arr)
           (k : list nat -> list Q -> A) (e : A) : A :=
  match sels sh view with
  | None => e
  | Some ss => k (oshape ss) (map (fun o => f ss (expand ss o)) (all_indices (oshape ss)))
  end.

(* explicit flat arrays (already broadcast to one common length) as inputs of the helpers *)
Definition flat_arr (l : list Q) : arr := fun idx => nth (nth 0 idx 0%nat) l 0.


(* ---------- wire ---------- *)
Definition dec_q (t : tree) : Q :=
  match t with
  | T _ [T a _; T (Zpos d) _] => Qmake a d
  | T a [] => inject_Z a
  | _ => 0
  end.
Definition enc_q (q : Q) : tree := let r := Qred q in T 0 [leaf (Qnum r); leaf (Zpos (Qden r))].
Definition dec_vec (t : tree) : vec := map dec_q (kids t).
Definition dec_mat (t : tree) : mat := map dec_vec (kids t).
Definition dec_nats (t : tree) : list nat := map (fun k => Z.to_nat (tag k)) (kids t).
Definition dec_coords (t : tree) : coords :=
  match t with
  | T 1 [M; tr; Mi; ti] => Affine (dec_mat M) (dec_vec tr) (dec_mat Mi) (dec_vec ti)
  | T _ (T n _ :: _) => Identity (Z.to_nat n)
  | _ => Identity 0
  end.
Definition dec_ventry (t : tree) : ventry :=
  match t with
  | T 1 (T i _ :: _) => VInt i
  | _ => VList (dec_nats t)
  end.
Definition dec_view (t : tree) : list ventry := map dec_ventry (kids t).
Definition enc_vals (sh : list nat) (l : list Q) : tree :=
  T 1 [zs (map Z.of_nat sh); T 0 (map enc_q l)].
Definition bmat_of (t : tree) : nat -> nat -> bool :=
  fun w p => negb (tag (nth p (kids (nth w (kids t) (T 0 []))) (T 0 [])) =? 0)%Z.
Definition nat_of (t : tree) : nat := Z.to_nat (tag t).

(* ---------- histories of one dataset (round 4) ----------
   The state a sequence of public operations can change: the coordinate object (its identity and its value), the shape,
   the world components (how many there are: they are rebuilt by Data._update_world_components only) and the automatic links
   (which keep a reference to the coordinate object they were built with: CoordinateComponentLink.coords).
   A CoordinateComponent has NO state of its own besides (world, _data, axis): Gen_coordcomp (translated from the source, fail-closed)
   says that `data` / `__getitem__` are `_calculate` evaluated at the time of the read. *)
Record hstate := mkH {
  hs_cid : Z;               (* identity of data.coords (0 = None) *)
  hs_coords : coords;
  hs_shape : list nat;
  hs_wn : nat;              (* number of world components *)
  hs_lcid : Z;              (* the coordinate object the links were built with *)
  hs_lcoords : coords;
  hs_ln : nat               (* number of (pixel->world, world->pixel) link pairs *)
}.

Inductive hop :=
| HRead (v : option (list ventry))                  (* data[world a] / data[world a, view], every link under the view *)
| HReadFancy (ins : list vec)                       (* data[world a, (index arrays)] *)
| HUpdateValues (cid : Z) (c : coords) (sh : list nat)   (* data.update_values_from_data(other): other.coords, other.shape *)
| HSetCoords (cid : Z) (c : coords)                 (* data.coords = obj *)
| HSibling (sh : list nat) (v : option (list ventry)) (* the same reads on ANOTHER dataset that shares the coordinate object (other shape) *)
| HKeep.                                            (* update_components / add_component / remove_component / update_id *)

(* Data._update_world_components(self.ndim) followed by _set_up_coordinate_component_links *)
Definition hrebuild (s : hstate) : hstate :=
  let n := if (hs_cid s =? 0)%Z then 0%nat else length (hs_shape s) in
  mkH (hs_cid s) (hs_coords s) (hs_shape s) n (hs_cid s) (hs_coords s) n.

(* a dataset with values has at least this many components *)
Definition hncomp : Z := 1.

(* the setter of Data.coords, its condition translated from the source *)
Definition hset_coords (s : hstate) (cid : Z) (c : coords) : hstate :=
  if coords_setter_rebuilds true (negb (hs_cid s =? cid)%Z) then
    let s1 := mkH cid c (hs_shape s) (hs_wn s) (hs_lcid s) (hs_lcoords s) (hs_ln s) in
    if (coords_setter_needs_components <? hncomp)%Z then hrebuild s1 else s1
  else s.

(* update_values_from_data: self._shape = data._shape ; ... ; self.coords = data.coords *)
Definition hupdate_values (s : hstate) (cid : Z) (c : coords) (sh : list nat) : hstate :=
  hset_coords (mkH (hs_cid s) (hs_coords s) sh (hs_wn s) (hs_lcid s) (hs_lcoords s) (hs_ln s)) cid c.

Definition hbuild (cid : Z) (c : coords) (sh : list nat) : hstate :=
  hrebuild (mkH cid c sh 0 0 (Identity 0) 0).

(* the world -> pixel link built with coordinate object lc, evaluated on a dataset whose current object is c *)
Definition link_w2p2 (lc c : coords) (ss : list (list nat * bool)) (i : nat) : arr :=
  let from_needed := dependent_axes lc i in
  let args2 := fun j : nat => if memn j from_needed then world_value c ss j else (fun _ => 0) in
  w2p_single lc (fun iw => args2 (cdim lc - 1 - iw)%nat) (cdim lc - 1 - i)%nat.

Definition vw_of (v : option (list ventry)) : list ventry := match v with Some vw => vw | None => [] end.

(* CoordinateComponent._calculate(view) of world axis a, now *)
Definition hcalc (s : hstate) (a : nat) (v : option (list ventry)) : tree :=
  over_view (hs_shape s) (vw_of v) (fun ss => world_value (hs_coords s) ss a) enc_vals (err 2).
(* Data.get_data: comp.data without a view, comp[view] with one *)
Definition hread_world (s : hstate) (v : option (list ventry)) (a : nat) : tree :=
  match v with None => cc_data (hcalc s a) | Some key => cc_getitem (hcalc s a) key end.
Definition hread_link (s : hstate) (p2w_dir : bool) (v : option (list ventry)) (a : nat) : tree :=
  over_view (hs_shape s) (vw_of v)
            (fun ss => if p2w_dir then link_p2w (hs_lcoords s) ss a else link_w2p2 (hs_lcoords s) (hs_coords s) ss a)
            enc_vals (err 2).
Definition hread_fancy (s : hstate) (ins : list vec) (a : nat) : tree :=
  let n := length (hs_shape s) in
  let len := length (nth 0 ins []) in
  let f := p2w_single (hs_coords s) (fun k => flat_arr (nth k ins [])) (n - 1 - a)%nat in
  enc_vals [len] (map (fun i => f [i]) (seq 0 len)).

Definition hobs (s : hstate) (w p q : list tree) : tree :=
  T 0 [leaf (Z.of_nat (hs_wn s)); leaf (2 * Z.of_nat (hs_ln s)); T 0 w; T 0 p; T 0 q].

Definition hstep (s : hstate) (o : hop) : hstate * option tree :=
  match o with
  | HRead v => (s, Some (hobs s (map (hread_world s v) (seq 0 (hs_wn s)))
                                (map (hread_link s true v) (seq 0 (hs_ln s)))
                                (map (hread_link s false v) (seq 0 (hs_ln s)))))
  | HReadFancy ins => (s, Some (hobs s (map (hread_fancy s ins) (seq 0 (hs_wn s))) [] []))
  | HSibling sh v => let b := hbuild (hs_cid s) (hs_coords s) sh in
                     (s, Some (hobs b (map (hread_world b v) (seq 0 (hs_wn b)))
                                      (map (hread_link b true v) (seq 0 (hs_ln b)))
                                      (map (hread_link b false v) (seq 0 (hs_ln b)))))
  | HUpdateValues cid c sh => (hupdate_values s cid c sh, None)
  | HSetCoords cid c => (hset_coords s cid c, None)
  | HKeep => (s, None)
  end.

Fixpoint hrun (s : hstate) (h : list hop) : list tree :=
  match h with
  | [] => []
  | o :: r => let '(s', out) := hstep s o in
              match out with Some t => t :: hrun s' r | None => hrun s' r end
  end.

Definition hfinal (s : hstate) (h : list hop) : hstate := fold_left (fun s o => fst (hstep s o)) h s.

Definition dec_hop (t : tree) : hop :=
  match t with
  | T 1 [] => HRead None
  | T 1 (vw :: _) => HRead (Some (dec_view vw))
  | T 2 (arrs :: _) => HReadFancy (map dec_vec (kids arrs))
  | T 3 [cid; c; sh] => HUpdateValues (tag cid) (dec_coords c) (dec_nats sh)
  | T 4 [cid; c] => HSetCoords (tag cid) (dec_coords c)
  | T 7 [sh] => HSibling (dec_nats sh) None
  | T 7 (sh :: vw :: _) => HSibling (dec_nats sh) (Some (dec_view vw))
  | _ => HKeep
  end.

Definition run_case (t : tree) : tree :=
  match t with
  (* a history of one dataset: (object id, coords, shape) at construction, then the operations; one result per read *)
  | T 6 [T _ [cid; c; sh]; ops] => T 0 (hrun (hbuild (tag cid) (dec_coords c) (dec_nats sh)) (map dec_hop (kids ops)))
  (* dependent_axes of a raw boolean correlation matrix *)
  | T 1 [bm; ax] => zs (map Z.of_nat (dependent_axes_cm (length (kids bm)) (bmat_of bm) (nat_of ax)))
  (* data[world a, view] *)
  | T 2 [c; sh; vw; a] =>
    let c := dec_coords c in
    over_view (dec_nats sh) (dec_view vw) (fun ss => world_value c ss (nat_of a)) enc_vals (err 2)
  (* coordinate links under a view: d = 1 pixel->world, d = 0 world->pixel *)
  | T 3 [c; sh; vw; a; T d _] =>
    let c := dec_coords c in
    over_view (dec_nats sh) (dec_view vw)
              (fun ss => if (d =? 0)%Z then link_w2p c ss (nat_of a) else link_p2w c ss (nat_of a)) enc_vals (err 2)
  (* the helpers on explicit arrays: (coords, direction, fits axis, arrays) *)
  | T 4 [c; T d _; ax; arrs] =>
    let c := dec_coords c in
    let ins := fun k : nat => flat_arr (dec_vec (nth k (kids arrs) (T 0 []))) in
    let len := length (kids (nth 0 (kids arrs) (T 0 []))) in
    let f := if (d =? 0)%Z then w2p_single c ins (nat_of ax) else p2w_single c ins (nat_of ax) in
    enc_vals [len] (map (fun i => f [i]) (seq 0 len))
  (* the transformation itself: all coordinates of one point, and the round trip *)
  | T 5 [c; T d _; x] =>
    let c := dec_coords c in
    let x := dec_vec x in
    let fw := map (fun k => p2w c k x) (seq 0 (cdim c)) in
    let r := if (d =? 0)%Z then map (fun k => w2p c k x) (seq 0 (cdim c))
             else if (d =? 1)%Z then fw else map (fun k => w2p c k fw) (seq 0 (cdim c)) in
    enc_vals [cdim c] r
  | _ => err (-2)
  end.
