(* C15 - finite sums over Q, dot products, and the soundness of the broadcast shortcut *)
From Coq Require Import ZArith QArith Lqa List Bool Lia Setoid.
Import ListNotations.
From GV Require Import Common.Wire C15.Model.
Open Scope Q_scope.

(* ---------- finite sums ---------- *)
Fixpoint qsum (n : nat) (f : nat -> Q) : Q :=
  match n with O => 0 | S m => f O + qsum m (fun k => f (S k)) end.

Lemma qsum_ext : forall n f g, (forall k, (k < n)%nat -> f k == g k) -> qsum n f == qsum n g.
Proof.
  induction n as [|n IH]; intros f g H; simpl; [reflexivity|].
  rewrite (H O) by lia. rewrite (IH (fun k => f (S k)) (fun k => g (S k))); [reflexivity|].
  intros k Hk; apply H; lia.
Qed.

Lemma qsum_zero : forall n f, (forall k, (k < n)%nat -> f k == 0) -> qsum n f == 0.
Proof.
  induction n as [|n IH]; intros f H; simpl; [reflexivity|].
  rewrite (H O) by lia. rewrite IH; [lra|]. intros k Hk; apply H; lia.
Qed.

Lemma qsum_plus : forall n f g, qsum n (fun k => f k + g k) == qsum n f + qsum n g.
Proof.
  induction n as [|n IH]; intros f g; simpl; [lra|].
  rewrite (IH (fun k => f (S k)) (fun k => g (S k))). lra.
Qed.

Lemma qsum_scal : forall n c f, qsum n (fun k => c * f k) == c * qsum n f.
Proof.
  induction n as [|n IH]; intros c f; simpl; [lra|].
  rewrite (IH c (fun k => f (S k))). lra.
Qed.

Lemma qsum_scal_r : forall n c f, qsum n (fun k => f k * c) == qsum n f * c.
Proof.
  induction n as [|n IH]; intros c f; simpl; [lra|].
  rewrite (IH c (fun k => f (S k))). lra.
Qed.

Lemma qsum_swap : forall n m (f : nat -> nat -> Q),
  qsum n (fun i => qsum m (fun j => f i j)) == qsum m (fun j => qsum n (fun i => f i j)).
Proof.
  induction n as [|n IH]; intros m f; simpl.
  - symmetry; apply qsum_zero; intros; reflexivity.
  - rewrite (IH m (fun i j => f (S i) j)).
    rewrite (qsum_plus m (fun j => f O j) (fun j => qsum n (fun i => f (S i) j))). reflexivity.
Qed.

Definition delta (i j : nat) : Q := if Nat.eqb i j then 1 else 0.

Lemma qsum_delta : forall n i f, (i < n)%nat -> qsum n (fun k => f k * delta k i) == f i.
Proof.
  induction n as [|n IH]; intros i f Hi; [lia|]. simpl.
  destruct i as [|i].
  - unfold delta at 1; simpl. rewrite qsum_zero; [lra|].
    intros k _. unfold delta; simpl. lra.
  - unfold delta at 1; simpl.
    rewrite (qsum_ext n (fun k => f (S k) * delta (S k) (S i)) (fun k => f (S k) * delta k i)).
    + rewrite (IH i (fun k => f (S k))) by lia. lra.
    + intros k _. unfold delta; simpl. reflexivity.
Qed.

(* ---------- lists of rationals ---------- *)
Lemma nth_map_seq : forall {A} (f : nat -> A) n j d, (j < n)%nat -> nth j (map f (seq 0 n)) d = f j.
Proof.
  intros A f n j d Hj.
  rewrite (nth_indep _ d (f O)) by (rewrite map_length, seq_length; exact Hj).
  rewrite (map_nth f (seq 0 n) O j). rewrite seq_nth by exact Hj. reflexivity.
Qed.

Lemma qnth_map_seq : forall (f : nat -> Q) n j, (j < n)%nat -> qnth (map f (seq 0 n)) j = f j.
Proof. intros; unfold qnth; apply nth_map_seq; assumption. Qed.

Lemma qnth_map_seq_out : forall (f : nat -> Q) n j, (n <= j)%nat -> qnth (map f (seq 0 n)) j = 0.
Proof. intros; unfold qnth; apply nth_overflow; rewrite map_length, seq_length; assumption. Qed.

Lemma qnth_nil : forall k, qnth [] k = 0.
Proof. intros [|k]; reflexivity. Qed.

Lemma dot_nil_r : forall u, dot u [] = 0.
Proof. intros [|a u]; reflexivity. Qed.

Lemma dot_qsum : forall u v n, length u = n -> dot u v == qsum n (fun k => qnth u k * qnth v k).
Proof.
  induction u as [|a u IH]; intros v n Hn; simpl in Hn; subst n.
  - simpl. reflexivity.
  - destruct v as [|b v].
    + simpl. symmetry. unfold qnth at 2; simpl. rewrite qsum_zero; [lra|].
      intros k _. rewrite (qnth_nil (S k)). lra.
    + simpl. rewrite (IH v (length u) eq_refl). unfold qnth; simpl. reflexivity.
Qed.

Lemma nz_true : forall q, nz q = true <-> ~ q == 0.
Proof.
  intros q; unfold nz. rewrite negb_true_iff. split.
  - intros H E. apply Qeq_bool_iff in E. congruence.
  - intros H. destruct (Qeq_bool q 0) eqn:E; [|reflexivity]. apply Qeq_bool_iff in E. contradiction.
Qed.

Lemma nz_false : forall q, nz q = false -> q == 0.
Proof.
  intros q; unfold nz. rewrite negb_false_iff. apply Qeq_bool_iff.
Qed.

(* a dot product only sees the entries where the row is not zero *)
Lemma dot_support : forall u x y,
  length x = length y ->
  (forall j, nz (qnth u j) = true -> qnth x j == qnth y j) ->
  dot u x == dot u y.
Proof.
  induction u as [|a u IH]; intros x y Hl H; [reflexivity|].
  destruct x as [|b x], y as [|c y]; simpl in Hl; try discriminate; [reflexivity|].
  simpl.
  assert (IHx : dot u x == dot u y).
  { apply IH; [lia|]. intros j Hj. exact (H (S j) Hj). }
  rewrite IHx.
  destruct (nz a) eqn:Ea.
  - assert (Hb : b == c) by exact (H O Ea). rewrite Hb. reflexivity.
  - apply nz_false in Ea. rewrite Ea. lra.
Qed.

(* ---------- well-formed square matrices ---------- *)
Definition wf_mat (n : nat) (A : mat) : Prop := length A = n /\ forall i, (i < n)%nat -> length (mrow A i) = n.

Lemma affine_row_qsum : forall n A b k x, wf_mat n A -> (k < n)%nat ->
  affine_row A b k x == qsum n (fun j => mget A k j * qnth x j) + qnth b k.
Proof.
  intros n A b k x [_ Hr] Hk. unfold affine_row.
  rewrite (dot_qsum (mrow A k) x n (Hr k Hk)). reflexivity.
Qed.

(* ---------- the broadcast shortcut ---------- *)
(* shortcut_sound: if the kept inputs contain the support of the row that is applied, replacing the
   others by their first element does not change the value, at any position *)
Lemma shortcut_sound : forall n A b k keep (ins : nat -> arr) idx,
  (forall j, (j < n)%nat -> nz (mget A k j) = true -> keep j = true) ->
  single_axis n keep (affine_row A b k) ins idx == affine_row A b k (map (fun j => ins j idx) (seq 0 n)).
Proof.
  intros n A b k keep ins idx H. unfold single_axis, affine_row.
  rewrite (dot_support (mrow A k) _ (map (fun j => ins j idx) (seq 0 n))); [reflexivity| |].
  - rewrite !map_length; reflexivity.
  - intros j Hj. destruct (Nat.lt_ge_cases j n) as [Hlt|Hge].
    + rewrite !qnth_map_seq by exact Hlt. fold (mget A k j) in Hj. rewrite (H j Hlt Hj). reflexivity.
    + rewrite !qnth_map_seq_out by exact Hge. reflexivity.
Qed.

(* what a coordinate of the forward / backward transformation can depend on *)
Definition inv_supp (c : coords) (p w : nat) : bool :=
  match c with Identity _ => Nat.eqb p w | Affine _ _ Mi _ => nz (mget Mi p w) end.

Lemma p2w_support : forall c wa x y, length x = length y ->
  (forall j, acm c wa j = true -> qnth x j == qnth y j) -> p2w c wa x == p2w c wa y.
Proof.
  intros [n|M t Mi ti] wa x y Hl H; simpl in *.
  - apply H. apply Nat.eqb_refl.
  - unfold affine_row. rewrite (dot_support (mrow M wa) x y Hl); [reflexivity|]. intros j Hj. apply H. exact Hj.
Qed.

Lemma w2p_support : forall c pa x y, length x = length y ->
  (forall j, inv_supp c pa j = true -> qnth x j == qnth y j) -> w2p c pa x == w2p c pa y.
Proof.
  intros [n|M t Mi ti] pa x y Hl H; simpl in *.
  - apply H. apply Nat.eqb_refl.
  - unfold affine_row. rewrite (dot_support (mrow Mi pa) x y Hl); [reflexivity|]. intros j Hj. apply H. exact Hj.
Qed.

(* pixel2world_single_axis never changes a value: it keeps exactly the correlated inputs *)
Lemma p2w_single_sound : forall c (ins : nat -> arr) wa idx,
  p2w_single c ins wa idx == p2w c wa (map (fun k => ins k idx) (seq 0 (cdim c))).
Proof.
  intros c ins wa idx. unfold p2w_single, single_axis.
  apply p2w_support; [rewrite !map_length; reflexivity|].
  intros j Hj. destruct (Nat.lt_ge_cases j (cdim c)) as [Hlt|Hge].
  - rewrite !qnth_map_seq by exact Hlt. rewrite Hj. reflexivity.
  - rewrite !qnth_map_seq_out by exact Hge. reflexivity.
Qed.

(* world2pixel_single_axis is sound as soon as its kept set covers the support of the inverse's row *)
Lemma w2p_single_sound : forall c (ins : nat -> arr) pa idx,
  (forall j, (j < cdim c)%nat -> inv_supp c pa j = true -> w2p_keep c pa j = true) ->
  w2p_single c ins pa idx == w2p c pa (map (fun k => ins k idx) (seq 0 (cdim c))).
Proof.
  intros c ins pa idx H. unfold w2p_single, single_axis.
  apply w2p_support; [rewrite !map_length; reflexivity|].
  intros j Hj. destruct (Nat.lt_ge_cases j (cdim c)) as [Hlt|Hge].
  - rewrite !qnth_map_seq by exact Hlt. rewrite (H j Hlt Hj). reflexivity.
  - rewrite !qnth_map_seq_out by exact Hge. reflexivity.
Qed.
