(* C13 — undo / redo: executable model of a Session (DataCollection + EditSubsetMode + CommandStack).

   The data-collection part is C06's model, used as it is (`base : C06.Model.state`): AddData / RemoveData are
   `do_append` / `do_remove`, a selection that finds nothing to edit is `do_new_group`, the undo of such a
   selection is `do_remove_group`.  On top of it:

     EditSubsetMode._edit_subset -> edit  : list gid         EditSubsetMode.mode -> smode
     CommandStack._command_stack -> cmds  (most recent first) with the record each command keeps for its undo
     CommandStack._undo_stack    -> undone (most recent first)

   The model follows the tree that contains the `fix:` commits for F-C06 and F-C13 (command.py: commands that
   edit subsets record the existing groups, their selections and edit_subset; undo removes the groups the command
   created, restores the selections per group and restores edit_subset; AddData / RemoveData undo only what
   they changed). *)
From Coq Require Import ZArith List Bool.
Import ListNotations.
From GV Require Import Common.Wire gen.Gen_groups gen.Gen_combine gen.Gen_commands C06.Model gen.Gen_command.
Open Scope Z_scope.

(* glue.core.edit_subset_mode: ReplaceMode, AndMode, OrMode, XorMode, AndNotMode, NewMode *)
Inductive emode : Type := MReplace | MAnd | MOr | MXor | MAndNot | MNew.

Definition is_new (m : emode) : bool := match m with MNew => true | _ => false end.

(* mode(edit_subset, new_state): the new selection of a group that is being edited *)
Definition combine (m : emode) (e old : sexpr) : sexpr :=
  match m with
  | MReplace => e                      (* new_state.copy() *)
  | MNew => e
  | MAnd => SAnd e old                 (* new_state & old *)
  | MOr => SOr e old
  | MXor => SXor e old
  | MAndNot => SAnd old (SNot e)       (* old & ~new_state *)
  end.

Inductive cmd : Type :=
| AddData (d : Z)
| RemoveData (d : Z)
| Apply (e : sexpr) (ov : option emode).   (* ApplySubsetState(subset_state=e, override_mode=ov); ApplyROI whose apply_func calls
                                              EditSubsetMode.update(collection, e, override_mode=ov) is the same command *)

(* what a command object remembers from its last do() *)
Record memo : Type := mkMemo {
  m_groups : list (Z * sexpr);   (* old_groups: the live groups and their selections *)
  m_edit : list Z;               (* old_edit_subset *)
  m_flag : bool                  (* AddData._added / RemoveData._removed *)
}.

Record sess : Type := mkSess {
  base : state;
  edit : list Z;
  smode : emode;
  cmds : list (cmd * memo);
  undone : list (cmd * memo)
}.

Definition set_base b (s : sess) := mkSess b (edit s) (smode s) (cmds s) (undone s).
Definition set_edit e (s : sess) := mkSess (base s) e (smode s) (cmds s) (undone s).
Definition set_cmds c (s : sess) := mkSess (base s) (edit s) (smode s) c (undone s).
Definition set_undone u (s : sess) := mkSess (base s) (edit s) (smode s) (cmds s) u.

(* group.subset_state = e *)
Definition put_state (g : Z) (e : sexpr) (b : state) : state :=
  set_gattrs (upd (gattrs b) g (mkGattr e (g_label (gattrs b g)) (g_style (gattrs b g)))) b.

Definition gstate (b : state) (g : Z) : sexpr := g_state (gattrs b g).

Definition no_memo : memo := mkMemo [] [] false.

(* ---------- Command.do ---------- *)
Definition cmd_do (c : cmd) (s : sess) : sess * memo :=
  match c with
  | AddData d =>
      (set_base (do_append d (base s)) s, mkMemo [] [] (negb (memz d (coll (base s)))))
  | RemoveData d =>
      (set_base (do_remove d (base s)) s, mkMemo [] [] (memz d (coll (base s))))
  | Apply e ov =>
      let b := base s in
      let mm := mkMemo (map (fun g => (g, gstate b g)) (groups b)) (edit s) false in
      (* ApplySubsetState.do: with no override and nothing being edited the override becomes ReplaceMode *)
      let ov' := match ov with
                 | None => match edit s with [] => Some MReplace | _ => None end
                 | Some m => Some m
                 end in
      (* EditSubsetMode._combine_data: mode = override_mode or self.mode *)
      let m := match ov' with Some m => m | None => smode s end in
      match edit s with
      | [] => (set_edit [next_gid b] (set_base (do_new_group (Some e) b) s), mm)
      | _ :: _ =>
          if is_new m
          then (set_edit [next_gid b] (set_base (do_new_group (Some e) b) s), mm)
          else (set_base (fold_left (fun b g => put_state g (combine m e (gstate b g)) b) (edit s) b) s, mm)
      end
  end.

(* ---------- Command.undo ---------- *)
Definition cmd_undo (c : cmd) (mm : memo) (s : sess) : sess :=
  match c with
  | AddData d => if m_flag mm then set_base (do_remove d (base s)) s else s
  | RemoveData d => if m_flag mm then set_base (do_append d (base s)) s else s
  | Apply _ _ =>
      let b := base s in
      (* for group in collection.subset_groups: if group not in old_groups: remove_subset_group(group) *)
      let b1 := fold_left (fun b g => if memz g (map fst (m_groups mm)) then b else do_remove_group g b) (groups b) b in
      (* for group, state in old_groups.items(): group.subset_state = state *)
      let b2 := fold_left (fun b p => put_state (fst p) (snd p) b) (m_groups mm) b1 in
      set_edit (m_edit mm) (set_base b2 s)
  end.

(* ---------- CommandStack ---------- *)
Inductive sop : Type := Do (c : cmd) | Undo | Redo.

(* do: append, run, keep the `stack_keep` most recent, empty the redo stack *)
Definition stack_do (c : cmd) (s : sess) : sess :=
  let (s1, mm) := cmd_do c s in
  set_undone [] (set_cmds (firstn (Z.to_nat stack_keep) ((c, mm) :: cmds s)) s1).

(* undo: IndexError on an empty stack (nothing changes) *)
Definition stack_undo (s : sess) : sess :=
  match cmds s with
  | [] => s
  | (c, mm) :: rest => cmd_undo c mm (set_undone ((c, mm) :: undone s) (set_cmds rest s))
  end.

(* redo: pops the undone command, runs its do() again (a new record is made), pushes it — no truncation here *)
Definition stack_redo (s : sess) : sess :=
  match undone s with
  | [] => s
  | (c, _) :: rest =>
      let (s1, mm) := cmd_do c (set_undone rest s) in
      set_cmds ((c, mm) :: cmds s1) s1
  end.

Definition sstep (s : sess) (o : sop) : sess :=
  match o with Do c => stack_do c s | Undo => stack_undo s | Redo => stack_redo s end.

(* 0 fine, 3 IndexError *)
Definition sop_status (s : sess) (o : sop) : Z :=
  match o with
  | Do _ => 0
  | Undo => match cmds s with [] => 3 | _ => 0 end
  | Redo => match undone s with [] => 3 | _ => 0 end
  end.

Definition srun (s : sess) (ops : list sop) : sess := fold_left sstep ops s.

(* a session around any reachable collection, with any edit choice and mode, and empty stacks *)
Definition start (b : state) (ed : list Z) (m : emode) : sess := mkSess b ed m [] [].

(* replay of a list of commands, oldest first, without any stack *)
Definition replay (s : sess) (cs : list cmd) : sess := fold_left (fun s c => fst (cmd_do c s)) cs s.

(* ---------- what the property observes ---------- *)
(* exact agreement on the observable part: same datasets (as a set), the same groups, the same selection for every
   live group, the same edit choice (and the same mode and pool, which no command changes) *)
Record same_obs (a b : sess) : Prop := mkSame {
  so_coll : forall d, In d (coll (base a)) <-> In d (coll (base b));
  so_groups : groups (base a) = groups (base b);
  so_states : forall g, In g (groups (base a)) -> gstate (base a) g = gstate (base b) g;
  so_edit : edit a = edit b;
  so_mode : smode a = smode b;
  so_pool : next_did (base a) = next_did (base b)
}.

(* position of a group in the list of live groups (-1: not live): group identities up to renaming *)
Fixpoint pos_of (g : Z) (l : list Z) : Z :=
  match l with
  | [] => -1
  | x :: t => if x =? g then 0 else let r := pos_of g t in if r <? 0 then -1 else r + 1
  end.

(* agreement up to renaming of group ids: the same datasets, the same selections in the same order,
   the same edit choice by position.  Counters (_sg_count, ids) and auto labels are not observable. *)
Record obs_eq (a b : sess) : Prop := mkObsEq {
  oe_coll : forall d, In d (coll (base a)) <-> In d (coll (base b));
  oe_states : map (gstate (base a)) (groups (base a)) = map (gstate (base b)) (groups (base b));
  oe_edit : map (fun g => pos_of g (groups (base a))) (edit a) = map (fun g => pos_of g (groups (base b))) (edit b);
  oe_mode : smode a = smode b;
  oe_pool : next_did (base a) = next_did (base b)
}.

(* ---------- masks (4 elements per dataset; leaf n selects the bits of n) ---------- *)
Fixpoint mask (e : sexpr) : Z :=
  match e with
  | SEmpty => 0
  | SLeaf n => Z.land n 15
  | SNot a => 15 - mask a
  | SAnd a b => Z.land (mask a) (mask b)
  | SOr a b => Z.lor (mask a) (mask b)
  | SXor a b => Z.lxor (mask a) (mask b)
  end.

(* ---------- wire ---------- *)
Definition dec_mode (n : Z) : emode :=
  if n =? 1 then MAnd else if n =? 2 then MOr else if n =? 3 then MXor else if n =? 4 then MAndNot
  else if n =? 5 then MNew else MReplace.
Definition enc_mode (m : emode) : Z :=
  match m with MReplace => 0 | MAnd => 1 | MOr => 2 | MXor => 3 | MAndNot => 4 | MNew => 5 end.

Definition dec_cmd (t : tree) : option cmd :=
  match t with
  | T 1 [T d _] => Some (AddData d)
  | T 2 [T d _] => Some (RemoveData d)
  | T 3 [e; T 0 []] => Some (Apply (dec_sexpr e) None)
  | T 3 [e; T 1 [T m _]] => Some (Apply (dec_sexpr e) (Some (dec_mode m)))
  | _ => None
  end.

Definition enc_cmd (c : cmd) : tree :=
  match c with
  | AddData d => T 1 [leaf d]
  | RemoveData d => T 2 [leaf d]
  | Apply e None => T 3 [enc_sexpr e; T 0 []]
  | Apply e (Some m) => T 3 [enc_sexpr e; T 1 [leaf (enc_mode m)]]
  end.

Definition dec_sop (t : tree) : option sop :=
  match t with
  | T 1 [c] => match dec_cmd c with Some c => Some (Do c) | None => None end
  | T 2 [] => Some Undo
  | T 3 [] => Some Redo
  | _ => None
  end.

Definition sobserve (status : Z) (s : sess) : tree :=
  T 0 [ leaf status;
        observe 0 (base s);
        zs (edit s);
        T 0 (map (fun p => enc_cmd (fst p)) (cmds s));
        T 0 (map (fun p => enc_cmd (fst p)) (undone s));
        zs (map (fun g => mask (gstate (base s) g)) (groups (base s))) ].

Fixpoint srun_obs (s : sess) (ops : list tree) : list tree :=
  match ops with
  | [] => []
  | t :: rest =>
    match dec_sop t with
    | None => [err (-2)]
    | Some o => let s' := sstep s o in sobserve (sop_status s o) s' :: srun_obs s' rest
    end
  end.

Fixpoint dec_ops (l : list tree) : list op :=
  match l with
  | [] => []
  | t :: rest => match dec_op t with Some o => o :: dec_ops rest | None => dec_ops rest end
  end.

(* T 1 [pool; ncolors; mode; T _ prelude (C06 ops); T _ edit (group ids); T _ session ops]
   -> T 0 [observation of the start state; observation after each session op] *)
Definition run_case_hand (t : tree) : tree :=
  match t with
  | T 1 [T pool _; T ncol _; T m _; T _ pre; ed; T _ ops] =>
      let b := run (init pool ncol) (dec_ops pre) in
      let s := start b (to_zs ed) (dec_mode m) in
      T 0 (sobserve 0 s :: srun_obs s ops)
  | _ => err (-2)
  end.

(* ==================================================================================================================== *)
(* C13 — the TRANSLATED commands (coq/gen/Gen_commands.v, regenerated from glue/core/command.py, edit_subset_mode.py and
   data_collection.py on every run) as a second machine, next to the hand model of C13/Model.v.  Definitions only.
   C13/GenEquiv*.v prove that this machine and the hand model make the same steps and transport the theorems.

   The machine: a `session sexpr` (heap of Gen_groups + the selection of every group + EditSubsetMode) and the two stacks of
   CommandStack, most recent first as in the hand model, holding the command OBJECTS (kind + `cobj`: keyword arguments and
   what do() recorded).  do / undo of a command are the generated functions; nothing else is interpreted here. *)
(* SubsetState(), AndState, OrState, XorState, InvertState, state.copy() (a copy of a tree is the tree) *)
Definition P13 : prims sexpr := mkprims sexpr SEmpty SAnd SOr SXor SNot (fun x => x).

Definition gsession : Type := session sexpr.
Definition gcobj : Type := cobj sexpr.

Inductive gkind : Type := KAdd | KRem | KApply | KRoi.

(* the apply_func the harness (and every viewer) passes to ApplyROI: EditSubsetMode.update(collection, state of the region, override_mode=ov) *)
Definition harness_apply_func (ov : option mode_name) : sexpr -> gsession -> sres sexpr :=
  fun roi ss => EditSubsetMode_update P13 roi ov ss.

Definition gcmd_do (k : gkind) (c : gcobj) (ss : gsession) : cres sexpr :=
  match k with
  | KAdd => AddData_do c ss
  | KRem => let (c', ss') := RemoveData_do c ss in CDone c' ss'
  | KApply => ApplySubsetState_do P13 c ss
  | KRoi => ApplyROI_do (harness_apply_func (c_override_mode c)) c ss
  end.

Definition gcmd_undo (k : gkind) (c : gcobj) (ss : gsession) : cres sexpr :=
  match k with
  | KAdd => let (c', ss') := AddData_undo c ss in CDone c' ss'
  | KRem => RemoveData_undo c ss
  | KApply => let (c', ss') := ApplySubsetState_undo c ss in CDone c' ss'
  | KRoi => let (c', ss') := ApplyROI_undo c ss in CDone c' ss'
  end.

Record gsess : Type := mkG {
  g_ss : gsession;
  g_cmds : list (gkind * gcobj);       (* CommandStack._command_stack, most recent first *)
  g_undone : list (gkind * gcobj)      (* CommandStack._undo_stack, most recent first *)
}.

Inductive gsop : Type := GDo (k : gkind) (c : gcobj) | GUndo | GRedo.

(* a step: the new machine state, or the code of the exception the command raised *)
Definition gstack_do (k : gkind) (c : gcobj) (gs : gsess) : gsess + Z :=
  match gcmd_do k c (g_ss gs) with
  | CRaised e _ _ => inr e
  | CDone c' ss' => inl (mkG ss' (firstn (Z.to_nat stack_keep) ((k, c') :: g_cmds gs)) [])
  end.

Definition gstack_undo (gs : gsess) : gsess + Z :=
  match g_cmds gs with
  | [] => inl gs
  | (k, c) :: rest =>
      match gcmd_undo k c (g_ss gs) with
      | CRaised e _ _ => inr e
      | CDone c' ss' => inl (mkG ss' rest ((k, c') :: g_undone gs))
      end
  end.

Definition gstack_redo (gs : gsess) : gsess + Z :=
  match g_undone gs with
  | [] => inl gs
  | (k, c) :: rest =>
      match gcmd_do k c (g_ss gs) with
      | CRaised e _ _ => inr e
      | CDone c' ss' => inl (mkG ss' ((k, c') :: g_cmds gs) rest)
      end
  end.

Definition gsstep (gs : gsess) (o : gsop) : gsess + Z :=
  match o with GDo k c => gstack_do k c gs | GUndo => gstack_undo gs | GRedo => gstack_redo gs end.

Fixpoint gsrun (gs : gsess) (ops : list gsop) : gsess + Z :=
  match ops with
  | [] => inl gs
  | o :: rest => match gsstep gs o with inl gs' => gsrun gs' rest | inr e => inr e end
  end.

Definition gsop_status (gs : gsess) (o : gsop) : Z :=
  match o with
  | GDo _ _ => 0
  | GUndo => match g_cmds gs with [] => 3 | _ => 0 end
  | GRedo => match g_undone gs with [] => 3 | _ => 0 end
  end.

(* a fresh command object built from keyword arguments *)
Definition no_elist : elist := mkEl (-1) [].
Definition mk_add (d : Z) : gcobj := mkCobj d SEmpty SEmpty None false false [] [] no_elist.
Definition mk_apply (e : sexpr) (ov : option mode_name) : gcobj := mkCobj (-1) e e ov false false [] [] no_elist.

(* the session a harness case starts from: Session(data_collection=dc) after `edit_subset_mode.edit_subset = [..]` (list object 0) *)
Definition gstart (h : heap) (gst : Z -> sexpr) (ed : list Z) (m : mode_name) : gsess :=
  mkG (mkSession h gst (mkEl 0 ed) m true 1 []) [] [].

(* the modes of the two models *)
Definition mode_of (m : emode) : mode_name :=
  match m with MReplace => M_ReplaceMode | MAnd => M_AndMode | MOr => M_OrMode | MXor => M_XorMode | MAndNot => M_AndNotMode | MNew => M_NewMode end.
Definition emode_of (m : mode_name) : emode :=
  match m with M_ReplaceMode => MReplace | M_AndMode => MAnd | M_OrMode => MOr | M_XorMode => MXor | M_AndNotMode => MAndNot | M_NewMode => MNew end.

(* the hand-model command a command object stands for *)
Definition cmd_of (k : gkind) (c : gcobj) : cmd :=
  match k with
  | KAdd => AddData (c_data c)
  | KRem => RemoveData (c_data c)
  | KApply => Apply (c_subset_state c) (option_map emode_of (c_override_mode c))
  | KRoi => Apply (c_roi c) (option_map emode_of (c_override_mode c))
  end.

(* the hand-model state a session shows: labels and colours from the heap, selections from s_gstate; no ghost lists *)
Definition state_of (ss : gsession) : state :=
  let h := s_heap ss in
  mkState (h_data h) (h_groups h) (h_dsubs h) (h_gsubs h)
          (fun g => mkGattr (s_gstate ss g) (h_glabel h g) (h_gcolor h g)) [] []
          (h_next_did h) (h_next_gid h) (h_next_sid h) (h_sg_count h) (h_ncolors h).

(* ---------- wire ---------- *)
Definition dec_gcmd (t : tree) : option (gkind * gcobj) :=
  match t with
  | T 1 [T d _] => Some (KAdd, mk_add d)
  | T 2 [T d _] => Some (KRem, mk_add d)
  | T 3 [e; T 0 []] => Some (KApply, mk_apply (dec_sexpr e) None)
  | T 3 [e; T 1 [T m _]] => Some (KApply, mk_apply (dec_sexpr e) (Some (mode_of (dec_mode m))))
  | T 4 [e; T 0 []] => Some (KRoi, mk_apply (dec_sexpr e) None)
  | T 4 [e; T 1 [T m _]] => Some (KRoi, mk_apply (dec_sexpr e) (Some (mode_of (dec_mode m))))
  | _ => None
  end.

Definition dec_gsop (t : tree) : option gsop :=
  match t with
  | T 1 [c] => match dec_gcmd c with Some (k, c) => Some (GDo k c) | None => None end
  | T 2 [] => Some GUndo
  | T 3 [] => Some GRedo
  | _ => None
  end.

Definition enc_gcmd (p : gkind * gcobj) : tree := enc_cmd (cmd_of (fst p) (snd p)).

Definition enc_event (e : sevent) : tree :=
  match e with EvEditSubset items m => T (enc_mode (emode_of m)) [zs items] end.

(* what do() recorded on the command that was executed / undone in this step *)
Definition enc_record (c : gcobj) : tree :=
  T 0 [ T 0 (map (fun p => T 0 [leaf (fst p); enc_sexpr (snd p)]) (c_old_groups c));
        T 0 (map (fun p => T 0 [leaf (sub_data (fst p)); leaf (sub_group (fst p)); enc_sexpr (snd p)]) (c_old_states c));
        zs (el_items (c_old_edit_subset c));
        leaf (if c_added c then 1 else 0);
        leaf (if c_removed c then 1 else 0) ].

Definition last_record (o : gsop) (gs : gsess) : tree :=
  match o with
  | GUndo => match g_undone gs with p :: _ => enc_record (snd p) | [] => T 9 [] end
  | _ => match g_cmds gs with p :: _ => enc_record (snd p) | [] => T 9 [] end
  end.

(* positions 0-5 as `sobserve`; then the EditSubsetMessages of this step and the record of the command *)
Definition gsobserve (status : Z) (rec : tree) (gs : gsess) : tree :=
  let ss := g_ss gs in
  let st := state_of ss in
  T 0 [ leaf status;
        observe 0 st;
        zs (el_items (s_edit ss));
        T 0 (map enc_gcmd (g_cmds gs));
        T 0 (map enc_gcmd (g_undone gs));
        zs (map (fun g => mask (s_gstate ss g)) (h_groups (s_heap ss)));
        T 0 (map enc_event (s_events ss));
        rec ].

Definition clear_traces (gs : gsess) : gsess :=
  mkG (set_events [] (set_heap (hset_trace [] (s_heap (g_ss gs))) (g_ss gs))) (g_cmds gs) (g_undone gs).

Fixpoint gsrun_obs (gs : gsess) (ops : list tree) : list tree :=
  match ops with
  | [] => []
  | t :: rest =>
    match dec_gsop t with
    | None => [err (-2)]
    | Some o =>
        let gs0 := clear_traces gs in
        match gsstep gs0 o with
        | inr e => [T 0 [leaf (10 + e)]]          (* the command raised: 13 TypeError, 14 RuntimeError; the case ends here *)
        | inl gs' => gsobserve (gsop_status gs0 o) (if gsop_status gs0 o =? 0 then last_record o gs' else T 9 []) gs' :: gsrun_obs gs' rest
        end
    end
  end.

(* the prelude of a case, on the generated side: DataCollection calls of Gen_groups + the selection of a new group *)
Definition gpre_step (ss : gsession) (t : tree) : option gsession :=
  match t with
  | T 1 [T d _] => Some (set_heap (heap_of (DataCollection_append d (s_heap ss))) ss)
  | T 2 [T d _] => Some (set_heap (DataCollection_remove d (s_heap ss)) ss)
  | T 3 [] => Some (snd (call_new_subset_group SEmpty ss))
  | T 3 [e] => Some (snd (call_new_subset_group (dec_sexpr e) ss))
  | T 4 [T g _] => Some (set_heap (DataCollection_remove_subset_group g (s_heap ss)) ss)
  | T 5 [T g _; e] => Some (if (0 <=? g) && (g <? h_next_gid (s_heap ss)) then set_gstate (hupd (s_gstate ss) g (dec_sexpr e)) ss else ss)
  | _ => None
  end.

Fixpoint gpre_run (ss : gsession) (ts : list tree) : option gsession :=
  match ts with
  | [] => Some ss
  | t :: r => match gpre_step ss t with Some ss' => gpre_run ss' r | None => None end
  end.

(* T 1 [..]  the hand model (C13/Model.v)
   T 2 [pool; ncolors; mode; T _ prelude; T _ edit; T _ session ops]  the translated commands:
        -> T 0 [observation of the start state; observation after each session op] *)
Definition run_case (t : tree) : tree :=
  match t with
  | T 2 [T pool _; T ncol _; T m _; T _ pre; ed; T _ ops] =>
      match gpre_run (mkSession (ginit pool ncol) (fun _ => SEmpty) (mkEl 0 []) M_ReplaceMode true 1 []) pre with
      | None => err (-2)
      | Some ss0 =>
          let gs := gstart (s_heap ss0) (s_gstate ss0) (to_zs ed) (mode_of (dec_mode m)) in
          T 0 (gsobserve 0 (T 9 []) gs :: gsrun_obs gs ops)
      end
  | _ => run_case_hand t
  end.
