(* C13 — same_obs is an equivalence; undo after do gives back the same observable state (U1);
   undo and do respect same_obs (U2, D). *)
From Coq Require Import ZArith List Bool Lia.
Import ListNotations.
From GV Require Import Common.Wire C06.Model C06.Lemmas1 C06.Lemmas2 C06.Lemmas3 C06.Lemmas gen.Gen_command C13.Model C13.Lemmas1.
Open Scope Z_scope.

(* ---------- same_obs ---------- *)
Lemma same_obs_refl : forall a, same_obs a a.
Proof. intros a. constructor; try reflexivity. Qed.

Lemma same_obs_sym : forall a b, same_obs a b -> same_obs b a.
Proof.
  intros a b [H1 H2 H3 H4 H5 H6]. constructor; try (symmetry; assumption).
  - intros d. symmetry. apply H1.
  - intros g Hg. symmetry. apply H3. rewrite H2. exact Hg.
Qed.

Lemma same_obs_trans : forall a b c, same_obs a b -> same_obs b c -> same_obs a c.
Proof.
  intros a b c [H1 H2 H3 H4 H5 H6] [K1 K2 K3 K4 K5 K6]. constructor; try congruence.
  - intros d. rewrite H1. apply K1.
  - intros g Hg. rewrite (H3 g Hg). apply K3. rewrite <- H2. exact Hg.
Qed.

(* only base, edit and smode matter *)
Lemma same_obs_fields : forall a b, base a = base b -> edit a = edit b -> smode a = smode b -> same_obs a b.
Proof.
  intros a b Hb He Hm. constructor; rewrite ?Hb; try assumption; try reflexivity; intros; reflexivity.
Qed.

Lemma same_obs_build : forall a b,
  (forall d, In d (coll (base a)) <-> In d (coll (base b))) ->
  groups (base a) = groups (base b) ->
  (forall g, In g (groups (base a)) -> gstate (base a) g = gstate (base b) g) ->
  edit a = edit b -> smode a = smode b -> next_did (base a) = next_did (base b) -> same_obs a b.
Proof. intros. constructor; assumption. Qed.

Lemma memz_ext : forall x l l', (forall y, In y l <-> In y l') -> memz x l = memz x l'.
Proof.
  intros x l l' H. destruct (memz x l') eqn:H'.
  - apply memz_In. apply H. apply memz_In. exact H'.
  - apply memz_false. intros Hin. apply H in Hin. apply memz_In in Hin. congruence.
Qed.

Lemma gstate_of_gattrs : forall b b' g, gattrs b' = gattrs b -> gstate b' g = gstate b g.
Proof. intros b b' g H. unfold gstate. rewrite H. reflexivity. Qed.

(* ---------- folds of put_state ---------- *)
Lemma put_same : forall g e b, gstate (put_state g e b) g = e.
Proof. intros. unfold gstate, put_state. simpl. rewrite upd_same. reflexivity. Qed.

Lemma put_other : forall g e b g', g' <> g -> gstate (put_state g e b) g' = gstate b g'.
Proof. intros g e b g' H. unfold gstate, put_state. simpl. rewrite upd_other by exact H. reflexivity. Qed.

Lemma restore_frame : forall ps b,
  let b' := restore_states ps b in
  coll b' = coll b /\ groups b' = groups b /\ next_did b' = next_did b /\ next_gid b' = next_gid b.
Proof.
  induction ps as [|p ps IH]; intros b; simpl.
  - repeat split.
  - specialize (IH (put_state (fst p) (snd p) b)). cbv zeta in IH.
    destruct IH as [I1 [I2 [I3 I4]]].
    destruct (put_state_effect (fst p) (snd p) b) as [P1 [P2 [P3 [P4 _]]]].
    repeat split; congruence.
Qed.

(* every entry of ps carries the target value: afterwards every group named by ps, and every group that already had it, has it *)
Lemma restore_target : forall (target : Z -> sexpr) ps b g,
  (forall p, In p ps -> snd p = target (fst p)) ->
  In g (map fst ps) \/ gstate b g = target g ->
  gstate (restore_states ps b) g = target g.
Proof.
  intros target ps. induction ps as [|p ps IH]; intros b g Hps Hg; simpl.
  - destruct Hg as [[] | Hg]. exact Hg.
  - apply IH.
    + intros q Hq. apply Hps. right. exact Hq.
    + destruct (Z.eq_dec g (fst p)) as [Heq | Hne].
      * right. subst g. rewrite put_same. apply Hps. left. reflexivity.
      * destruct Hg as [[Hg | Hg] | Hg].
        -- exfalso. apply Hne. symmetry. exact Hg.
        -- left. exact Hg.
        -- right. rewrite put_other by exact Hne. exact Hg.
Qed.

Lemma restore_congr : forall ps x y (G : Z -> Prop),
  (forall g, G g -> gstate x g = gstate y g) ->
  forall g, G g -> gstate (restore_states ps x) g = gstate (restore_states ps y) g.
Proof.
  induction ps as [|p ps IH]; intros x y G H g Hg; simpl.
  - apply H. exact Hg.
  - apply (IH _ _ G); [| exact Hg]. intros g' Hg'.
    destruct (Z.eq_dec g' (fst p)) as [Heq | Hne].
    + subst g'. rewrite !put_same. reflexivity.
    + rewrite !put_other by exact Hne. apply H. exact Hg'.
Qed.

Lemma combine_frame : forall m e l b,
  let b' := combine_all m e l b in
  coll b' = coll b /\ groups b' = groups b /\ next_did b' = next_did b /\ next_gid b' = next_gid b.
Proof.
  intros m e l. induction l as [|g l IH]; intros b; simpl.
  - repeat split.
  - specialize (IH (put_state g (combine m e (gstate b g)) b)). cbv zeta in IH.
    destruct IH as [I1 [I2 [I3 I4]]].
    destruct (put_state_effect g (combine m e (gstate b g)) b) as [P1 [P2 [P3 [P4 _]]]].
    repeat split; congruence.
Qed.

Lemma combine_congr : forall m e l x y (G : Z -> Prop),
  (forall g, G g -> gstate x g = gstate y g) ->
  forall g, G g -> gstate (combine_all m e l x) g = gstate (combine_all m e l y) g.
Proof.
  intros m e l. induction l as [|h l IH]; intros x y G H g Hg; simpl.
  - apply H. exact Hg.
  - apply (IH _ _ G); [| exact Hg]. intros g' Hg'.
    destruct (Z.eq_dec g' h) as [Heq | Hne].
    + subst g'. rewrite !put_same. rewrite (H h Hg'). reflexivity.
    + rewrite !put_other by exact Hne. apply H. exact Hg'.
Qed.

(* ---------- undo's first loop: remove the groups that are not in the record ---------- *)
Lemma drop_loop : forall keep l b,
  let b' := fold_left (fun b g => if memz g keep then b else do_remove_group g b) l b in
  coll b' = coll b /\ groups b' = filter (fun x => negb (memz x l) || memz x keep) (groups b) /\
  gattrs b' = gattrs b /\ next_did b' = next_did b /\ next_gid b' = next_gid b.
Proof.
  intros keep l. induction l as [|g l IH]; intros b; simpl.
  - repeat split. symmetry. apply filter_all. intros; reflexivity.
  - destruct (memz g keep) eqn:Hk.
    + specialize (IH b). cbv zeta in IH. destruct IH as [I1 [I2 [I3 [I4 I5]]]].
      repeat split; try assumption. rewrite I2. apply filter_ext_in. intros x Hx.
      unfold memz. simpl. fold (memz x l). fold (memz x keep).
      destruct (x =? g) eqn:Hxg; simpl; [|reflexivity].
      apply Z.eqb_eq in Hxg. subst x. rewrite Hk. rewrite orb_true_r. reflexivity.
    + specialize (IH (do_remove_group g b)). cbv zeta in IH. destruct IH as [I1 [I2 [I3 [I4 I5]]]].
      destruct (remove_group_effect g b) as [R1 [R2 [R3 [R4 R5]]]].
      repeat split; try congruence. rewrite I2, R2. unfold removez. rewrite filter_filter.
      apply filter_ext. intros x. unfold memz. simpl. fold (memz x l). fold (memz x keep).
      destruct (x =? g) eqn:Hxg; simpl.
      * apply Z.eqb_eq in Hxg. subst x. rewrite Hk. reflexivity.
      * reflexivity.
Qed.

Lemma drop_effect : forall keep b,
  let b' := drop_new_groups keep b in
  coll b' = coll b /\ groups b' = filter (fun x => memz x keep) (groups b) /\
  gattrs b' = gattrs b /\ next_did b' = next_did b /\ next_gid b' = next_gid b.
Proof.
  intros keep b. unfold drop_new_groups. destruct (drop_loop keep (groups b) b) as [D1 [D2 [D3 [D4 D5]]]].
  repeat split; try assumption. rewrite D2. apply filter_ext_in. intros x Hx.
  apply memz_In in Hx. rewrite Hx. reflexivity.
Qed.

Lemma filter_keep_prefix : forall l g, ~ In g l -> filter (fun x => memz x l) (l ++ [g]) = l.
Proof.
  intros l g Hg. rewrite filter_app. simpl. apply memz_false in Hg. rewrite Hg. rewrite app_nil_r.
  apply filter_all_in. intros x Hx. apply memz_In. exact Hx.
Qed.

Lemma filter_keep_all : forall l, filter (fun x => memz x l) l = l.
Proof. intros l. apply filter_all_in. intros x Hx. apply memz_In. exact Hx. Qed.

Lemma memo_keys : forall b l, map fst (map (fun g => (g, gstate b g)) l) = l.
Proof. intros b l. rewrite map_map. simpl. apply map_id. Qed.

(* ---------- U1: a command's undo right after its do ---------- *)
Lemma undo_do : forall c s, Core (base s) ->
  same_obs (cmd_undo c (snd (cmd_do c s)) (fst (cmd_do c s))) s.
Proof.
  intros c s HC. destruct c as [d | d | e ov].
  - (* AddData *)
    simpl. destruct (memz d (coll (base s))) eqn:Hm; simpl.
    + rewrite append_noop by (left; exact Hm). apply same_obs_fields; reflexivity.
    + destruct (known_data d (base s)) eqn:Hk.
      * destruct (append_effect d (base s) Hm Hk) as [A1 [A2 [A3 [A4 A5]]]].
        assert (Hm' : memz d (coll (do_append d (base s))) = true).
        { apply memz_In. rewrite A1. apply in_app_iff. right. left. reflexivity. }
        destruct (remove_effect d (do_append d (base s)) Hm') as [R1 [R2 [R3 [R4 R5]]]].
        apply same_obs_build; simpl; try reflexivity.
        -- intros x. rewrite R1, A1. rewrite removez_app_single; [reflexivity | apply memz_false; exact Hm].
        -- congruence.
        -- intros g _. apply gstate_of_gattrs. congruence.
        -- congruence.
      * rewrite append_noop by (right; exact Hk). rewrite remove_noop by exact Hm. apply same_obs_fields; reflexivity.
  - (* RemoveData *)
    simpl. destruct (memz d (coll (base s))) eqn:Hm; simpl.
    + destruct (remove_effect d (base s) Hm) as [R1 [R2 [R3 [R4 R5]]]].
      assert (Hin : In d (coll (base s))) by (apply memz_In; exact Hm).
      assert (Hm' : memz d (coll (do_remove d (base s))) = false).
      { apply memz_false. rewrite R1. rewrite removez_In. intros [_ H]. apply H. reflexivity. }
      assert (Hk' : known_data d (do_remove d (base s)) = true).
      { unfold known_data. rewrite R4. destruct (c_did_fresh _ HC d Hin) as [H0 H1].
        apply andb_true_iff. split; [apply Z.leb_le; exact H0 | apply Z.ltb_lt; exact H1]. }
      destruct (append_effect d (do_remove d (base s)) Hm' Hk') as [A1 [A2 [A3 [A4 A5]]]].
      apply same_obs_build; simpl; try reflexivity.
      * intros x. rewrite A1, R1. rewrite in_app_iff. rewrite removez_In. simpl. split.
        -- intros [[H _] | [H | []]]; [exact H | subst x; exact Hin].
        -- intros H. destruct (Z.eq_dec x d) as [Heq | Hne]; [right; left; symmetry; exact Heq | left; split; assumption].
      * congruence.
      * intros g _. apply gstate_of_gattrs. congruence.
      * congruence.
    + rewrite remove_noop by exact Hm. apply same_obs_fields; reflexivity.
  - (* ApplySubsetState / ApplyROI *)
    rewrite cmd_do_apply. destruct (creates ov s) eqn:Hc; cbn [fst snd]; rewrite cmd_undo_apply.
    + (* a group was created *)
      cbn [m_groups m_edit apply_memo base set_edit set_base]. rewrite memo_keys.
      set (b := base s). set (g := next_gid b).
      destruct (new_group_effect (Some e) b) as [N1 [N2 [N3 [N4 [N5 N6]]]]]. fold g in N2, N4, N5, N6.
      assert (Hfresh : ~ In g (groups b)).
      { intros Hin. apply (gc_gid_fresh _ _ (c_g _ HC)) in Hin. unfold g, b in Hin. lia. }
      destruct (drop_effect (groups b) (do_new_group (Some e) b)) as [D1 [D2 [D3 [D4 D5]]]].
      rewrite N2 in D2. rewrite (filter_keep_prefix _ _ Hfresh) in D2.
      set (b2 := drop_new_groups (groups b) (do_new_group (Some e) b)) in *.
      destruct (restore_frame (map (fun g0 => (g0, gstate b g0)) (groups b)) b2) as [F1 [F2 [F3 F4]]].
      apply same_obs_build; simpl; try reflexivity.
      * intros x. fold b. rewrite F1, D1, N1. reflexivity.
      * fold b. rewrite F2, D2. reflexivity.
      * intros g' Hg'. fold b. apply (restore_target (gstate b)).
        -- intros p Hp. apply in_map_iff in Hp. destruct Hp as [g0 [Hp _]]. subst p. reflexivity.
        -- left. rewrite memo_keys. rewrite F2, D2 in Hg'. exact Hg'.
      * fold b. rewrite F3, D4, N3. reflexivity.
    + (* the edited groups were combined with the new selection *)
      cbn [m_groups m_edit apply_memo base set_edit set_base]. rewrite memo_keys.
      set (b := base s).
      destruct (combine_frame (eff_mode ov s) e (edit s) b) as [C1 [C2 [C3 C4]]].
      destruct (drop_effect (groups b) (combine_all (eff_mode ov s) e (edit s) b)) as [D1 [D2 [D3 [D4 D5]]]].
      rewrite C2 in D2. rewrite filter_keep_all in D2.
      set (b2 := drop_new_groups (groups b) (combine_all (eff_mode ov s) e (edit s) b)) in *.
      destruct (restore_frame (map (fun g0 => (g0, gstate b g0)) (groups b)) b2) as [F1 [F2 [F3 F4]]].
      apply same_obs_build; simpl; try reflexivity.
      * intros x. fold b. rewrite F1, D1, C1. reflexivity.
      * fold b. rewrite F2, D2. reflexivity.
      * intros g' Hg'. fold b. apply (restore_target (gstate b)).
        -- intros p Hp. apply in_map_iff in Hp. destruct Hp as [g0 [Hp _]]. subst p. reflexivity.
        -- left. rewrite memo_keys. rewrite F2, D2 in Hg'. exact Hg'.
      * fold b. rewrite F3, D4, C3. reflexivity.
Qed.

(* ---------- U2: undo respects same_obs ---------- *)
Lemma undo_congr : forall c mm a b, same_obs a b -> same_obs (cmd_undo c mm a) (cmd_undo c mm b).
Proof.
  intros c mm a b Hab. pose proof Hab as [H1 H2 H3 H4 H5 H6]. destruct c as [d | d | e ov].
  - simpl. destruct (m_flag mm); [|exact Hab].
    destruct (remove_frame d (base a)) as [A2 [A3 [A4 A5]]]. destruct (remove_frame d (base b)) as [B2 [B3 [B4 B5]]].
    apply same_obs_build; simpl; try assumption.
    + intros x. rewrite !remove_coll. rewrite !removez_In. rewrite H1. reflexivity.
    + congruence.
    + intros g Hg. rewrite A2 in Hg. rewrite (gstate_of_gattrs _ _ g A3), (gstate_of_gattrs _ _ g B3). apply H3. exact Hg.
    + congruence.
  - simpl. destruct (m_flag mm); [|exact Hab].
    destruct (append_frame d (base a)) as [A2 [A3 [A4 A5]]]. destruct (append_frame d (base b)) as [B2 [B3 [B4 B5]]].
    assert (Hmem : memz d (coll (base a)) = memz d (coll (base b))) by (apply memz_ext; exact H1).
    assert (Hkn : known_data d (base a) = known_data d (base b)) by (unfold known_data; rewrite H6; reflexivity).
    apply same_obs_build; simpl; try assumption.
    + intros x. destruct (memz d (coll (base a))) eqn:Hm.
      * rewrite (append_noop d (base a)) by (left; exact Hm). rewrite (append_noop d (base b)) by (left; congruence). apply H1.
      * destruct (known_data d (base a)) eqn:Hk.
        -- destruct (append_effect d (base a) Hm Hk) as [E1 _].
           destruct (append_effect d (base b)) as [E2 _]; [congruence | congruence |].
           rewrite E1, E2. rewrite !in_app_iff. rewrite H1. reflexivity.
        -- rewrite (append_noop d (base a)) by (right; exact Hk). rewrite (append_noop d (base b)) by (right; congruence). apply H1.
    + congruence.
    + intros g Hg. rewrite A2 in Hg. rewrite (gstate_of_gattrs _ _ g A3), (gstate_of_gattrs _ _ g B3). apply H3. exact Hg.
    + congruence.
  - rewrite !cmd_undo_apply.
    destruct (drop_effect (map fst (m_groups mm)) (base a)) as [A1 [A2 [A3 [A4 A5]]]].
    destruct (drop_effect (map fst (m_groups mm)) (base b)) as [B1 [B2 [B3 [B4 B5]]]].
    set (xa := drop_new_groups (map fst (m_groups mm)) (base a)) in *.
    set (xb := drop_new_groups (map fst (m_groups mm)) (base b)) in *.
    destruct (restore_frame (m_groups mm) xa) as [FA1 [FA2 [FA3 FA4]]].
    destruct (restore_frame (m_groups mm) xb) as [FB1 [FB2 [FB3 FB4]]].
    apply same_obs_build; simpl; try assumption; try reflexivity.
    + intros x. rewrite FA1, FB1, A1, B1. apply H1.
    + rewrite FA2, FB2, A2, B2, H2. reflexivity.
    + intros g Hg. rewrite FA2, A2 in Hg. apply filter_In in Hg. destruct Hg as [Hg _].
      apply (restore_congr (m_groups mm) xa xb (fun g => In g (groups (base a)))); [| exact Hg].
      intros g' Hg'. rewrite (gstate_of_gattrs _ _ g' A3), (gstate_of_gattrs _ _ g' B3). apply H3. exact Hg'.
    + rewrite FA3, FB3, A4, B4. exact H6.
Qed.
