(* C13 — the undo/redo bookkeeping of CommandStack, proved on the Gallina text that is REGENERATED from
   glue/core/command.py on every run (coq/gen/Gen_cmdstack.v: cs_do, cs_undo, cs_redo, MAX_UNDO). *)
From Coq Require Import ZArith List Bool Lia.
Import ListNotations.
From GV Require Import Common.PyInt gen.Gen_cmdstack.
Open Scope Z_scope.

Inductive cs_op : Type := OpDo (c : Z) | OpUndo | OpRedo.

(* one API call; a failing call (IndexError) leaves the stacks unchanged and makes no call on any command *)
Definition cs_step (st : list Z * list Z) (o : cs_op) : (list Z * list Z) * list cs_event :=
  let '(cmds, undone) := st in
  match (match o with OpDo c => cs_do cmds undone c | OpUndo => cs_undo cmds undone | OpRedo => cs_redo cmds undone end) with
  | Ok (c', u', tr) => ((c', u'), tr)
  | Err _ => (st, [])
  end.

Definition cs_run (ops : list cs_op) (st : list Z * list Z) : list Z * list Z :=
  fold_left (fun s o => fst (cs_step s o)) ops st.

Definition cs_inv (st : list Z * list Z) : Prop :=
  (length (fst st) + length (snd st) <= Z.to_nat MAX_UNDO)%nat.

Lemma lastn_length {A} (n : nat) (l : list A) : length (lastn n l) = Nat.min n (length l).
Proof. unfold lastn. rewrite rev_length, firstn_length, rev_length. reflexivity. Qed.

Lemma lastn_all {A} (n : nat) (l : list A) : (length l <= n)%nat -> lastn n l = l.
Proof. intros H. unfold lastn. rewrite firstn_all2 by (rewrite rev_length; exact H). apply rev_involutive. Qed.

Lemma lastn_app_last {A} (n : nat) (l : list A) (x : A) : (0 < n)%nat ->
  exists l', lastn n (l ++ [x]) = l' ++ [x].
Proof.
  intros Hn. unfold lastn. rewrite rev_app_distr. cbn [rev app].
  destruct n as [|n]; [lia|]. cbn [firstn rev]. eexists. reflexivity.
Qed.

Lemma max_undo_pos : (0 < Z.to_nat MAX_UNDO)%nat.
Proof. unfold MAX_UNDO. lia. Qed.

(* the undo history never exceeds its documented bound, and a new command clears the redo history *)
Lemma cs_do_spec (cmds undone : list Z) (c : Z) :
  exists cmds', cs_do cmds undone c = Ok (cmds', [], [EDo c]) /\
    (length cmds' <= Z.to_nat MAX_UNDO)%nat /\ (exists pre, cmds' = pre ++ [c]) /\
    ((length cmds < Z.to_nat MAX_UNDO)%nat -> cmds' = cmds ++ [c]).
Proof.
  unfold cs_do. cbv zeta. eexists. split; [reflexivity|]. split; [|split].
  - rewrite lastn_length. lia.
  - apply lastn_app_last, max_undo_pos.
  - intros H. apply lastn_all. rewrite app_length. cbn [length]. lia.
Qed.

Lemma cs_inv_step (st : list Z * list Z) (o : cs_op) : cs_inv st -> cs_inv (fst (cs_step st o)).
Proof.
  destruct st as [cmds undone]. unfold cs_inv, cs_step. cbn [fst snd]. intros H.
  destruct o as [c| |].
  - destruct (cs_do_spec cmds undone c) as (cmds' & E & Hlen & _). rewrite E. cbn [fst snd length]. lia.
  - unfold cs_undo. cbv zeta. destruct (rev cmds) as [|c r] eqn:E; cbn [fst snd]; [exact H|].
    assert (Hc : cmds = rev r ++ [c]) by (rewrite <- (rev_involutive cmds), E; reflexivity).
    subst cmds. rewrite app_length in *. cbn [length] in *. lia.
  - unfold cs_redo. cbv zeta. destruct (rev undone) as [|c r] eqn:E; cbn [fst snd]; [exact H|].
    assert (Hc : undone = rev r ++ [c]) by (rewrite <- (rev_involutive undone), E; reflexivity).
    subst undone. rewrite !app_length in *. cbn [length] in *. lia.
Qed.

(* for every sequence of do / undo / redo calls the bound holds *)
Lemma cs_inv_reachable (ops : list cs_op) (st : list Z * list Z) : cs_inv st -> cs_inv (cs_run ops st).
Proof.
  revert st. induction ops as [|o ops IH]; intros st H; [exact H|].
  cbn [cs_run fold_left]. apply IH, cs_inv_step, H.
Qed.

Lemma cs_inv_init : cs_inv ([], []).
Proof. unfold cs_inv. cbn. lia. Qed.

(* undo calls exactly `undo` of the last executed command and moves it to the redo history;
   redo calls exactly `do` of the last undone command and moves it back: the two are inverse on the stacks *)
Lemma cs_undo_spec (cmds undone : list Z) (c : Z) :
  cs_undo (cmds ++ [c]) undone = Ok (cmds, undone ++ [c], [EUndo c]).
Proof. unfold cs_undo. cbv zeta. rewrite rev_app_distr. cbn [rev app]. now rewrite rev_involutive. Qed.

Lemma cs_redo_spec (cmds undone : list Z) (c : Z) :
  cs_redo cmds (undone ++ [c]) = Ok (cmds ++ [c], undone, [EDo c]).
Proof. unfold cs_redo. cbv zeta. rewrite rev_app_distr. cbn [rev app]. now rewrite rev_involutive. Qed.

Lemma cs_undo_empty (undone : list Z) : cs_undo [] undone = Err IndexError.
Proof. reflexivity. Qed.

Lemma cs_redo_empty (cmds : list Z) : cs_redo cmds [] = Err IndexError.
Proof. reflexivity. Qed.

Lemma cs_redo_after_undo (cmds undone : list Z) (c : Z) :
  cs_step (fst (cs_step (cmds ++ [c], undone) OpUndo)) OpRedo = ((cmds ++ [c], undone), [EDo c]).
Proof. unfold cs_step. rewrite cs_undo_spec. cbn [fst]. rewrite cs_redo_spec. reflexivity. Qed.

Lemma cs_undo_after_redo (cmds undone : list Z) (c : Z) :
  cs_step (fst (cs_step (cmds, undone ++ [c]) OpRedo)) OpUndo = ((cmds, undone ++ [c]), [EUndo c]).
Proof. unfold cs_step. rewrite cs_redo_spec. cbn [fst]. rewrite cs_undo_spec. reflexivity. Qed.

Lemma cs_undo_after_do (cmds undone : list Z) (c : Z) : (length cmds < Z.to_nat MAX_UNDO)%nat ->
  cs_step (fst (cs_step (cmds, undone) (OpDo c))) OpUndo = ((cmds, [c]), [EUndo c]).
Proof.
  intros H. unfold cs_step. destruct (cs_do_spec cmds undone c) as (cmds' & E & _ & _ & Hfull).
  rewrite E. cbn [fst]. rewrite (Hfull H). rewrite cs_undo_spec. reflexivity.
Qed.
