(* C13 — the TRANSLATED commands against the hand model: part 4.
   The machine made of the generated do()/undo() (C13/Model.v: gstack_do / gstack_undo / gstack_redo) makes the steps of the
   hand model, never raises on commands whose dataset exists, and the central theorems hold for it. *)
From Coq Require Import ZArith List Bool Lia.
Import ListNotations.
From GV Require Import Common.Wire gen.Gen_groups gen.Gen_combine gen.Gen_commands gen.Gen_command C06.Model C06.Lemmas1 C06.Lemmas
  C06.GenEquiv1 C06.GenEquiv2 C06.GenEquiv C13.Model C13.Spec C13.Lemmas1 C13.Lemmas2 C13.Lemmas3 C13.Lemmas4
  C13.GenEquiv1 C13.GenEquiv2 C13.GenEquiv3.
Open Scope Z_scope.

(* a command whose dataset argument is one of the N datasets that exist (AddData of anything else raises TypeError) *)
Definition valid_cmd (N : Z) (k : gkind) (c : gcobj) : Prop :=
  match k with KAdd => 0 <= c_data c < N | _ => True end.

Definition valid_op (N : Z) (o : gsop) : Prop := match o with GDo k c => valid_cmd N k c | _ => True end.

(* a command object on the undo stack against the hand model's (command, memo) *)
Definition crel (tbl : Z -> list Z) (n N : Z) (p : gkind * gcobj) (q : cmd * memo) : Prop :=
  fst q = cmd_of (fst p) (snd p) /\ valid_cmd N (fst p) (snd p) /\
  match fst p with
  | KAdd => m_flag (snd q) = c_added (snd p)
  | KRem => m_flag (snd q) = c_removed (snd p) /\ (c_removed (snd p) = true -> 0 <= c_data (snd p) < N)
  | KApply | KRoi => rec_apply tbl n (snd p) (snd q)
  end.

(* on the redo stack only the command matters: redo records again *)
Definition urel (N : Z) (p : gkind * gcobj) (q : cmd * memo) : Prop :=
  fst q = cmd_of (fst p) (snd p) /\ valid_cmd N (fst p) (snd p).

Record GRel (tbl : Z -> list Z) (N : Z) (gs : gsess) (s : sess) : Prop := mkGRel {
  gr_ss : SRel tbl (g_ss gs) s;
  gr_core : Core (base s);
  gr_N : next_did (base s) = N;
  gr_cmds : Forall2 (crel tbl (s_next_lid (g_ss gs)) N) (g_cmds gs) (cmds s);
  gr_undone : Forall2 (urel N) (g_undone gs) (undone s)
}.

Definition sop_of (o : gsop) : sop := match o with GDo k c => Do (cmd_of k c) | GUndo => Undo | GRedo => Redo end.

Lemma crel_ext : forall tbl n tbl' n' N p q, Ext tbl n tbl' n' -> crel tbl n N p q -> crel tbl' n' N p q.
Proof.
  intros tbl n tbl' n' N [k c] [cm mm] HX [H1 [H2 H3]]. split; [exact H1|]. split; [exact H2|].
  cbn [fst snd] in *. destruct k; try exact H3.
  - destruct H3 as [A [B [C D]]]. repeat split; try assumption; destruct (known_ext _ _ _ _ _ HX C); assumption.
  - destruct H3 as [A [B [C D]]]. repeat split; try assumption; destruct (known_ext _ _ _ _ _ HX C); assumption.
Qed.

Lemma crel_urel : forall tbl n N p q, crel tbl n N p q -> urel N p q.
Proof. intros tbl n N p q [H1 [H2 _]]. split; assumption. Qed.

Lemma forall2_impl : forall (A B : Type) (R R' : A -> B -> Prop) l l', (forall a b, R a b -> R' a b) -> Forall2 R l l' -> Forall2 R' l l'.
Proof. intros A B R R' l l' H F. induction F; constructor; auto. Qed.

Lemma forall2_firstn : forall (A B : Type) (R : A -> B -> Prop) n l l', Forall2 R l l' -> Forall2 R (firstn n l) (firstn n l').
Proof. intros A B R n l l' F. revert n. induction F; intros [|n]; simpl; constructor; auto. Qed.

(* the pool of datasets never changes *)
Lemma cmd_do_pool : forall c s, next_did (base (fst (cmd_do c s))) = next_did (base s).
Proof.
  intros c s. destruct c as [d|d|e ov].
  - simpl. destruct (append_frame d (base s)) as [_ [_ [H _]]]. exact H.
  - simpl. destruct (remove_frame d (base s)) as [_ [_ [H _]]]. exact H.
  - rewrite cmd_do_apply. destruct (creates ov s); simpl.
    + destruct (new_group_effect (Some e) (base s)) as [_ [_ [H _]]]. exact H.
    + destruct (combine_frame (eff_mode ov s) e (edit s) (base s)) as [_ [_ [H _]]]. exact H.
Qed.

Lemma cmd_undo_pool : forall c mm s, next_did (base (cmd_undo c mm s)) = next_did (base s).
Proof.
  intros c mm s. destruct c as [d|d|e ov].
  - simpl. destruct (m_flag mm); [|reflexivity]. simpl. destruct (remove_frame d (base s)) as [_ [_ [H _]]]. exact H.
  - simpl. destruct (m_flag mm); [|reflexivity]. simpl. destruct (append_frame d (base s)) as [_ [_ [H _]]]. exact H.
  - rewrite cmd_undo_apply. simpl.
    destruct (restore_frame (m_groups mm) (drop_new_groups (map fst (m_groups mm)) (base s))) as [_ [_ [H _]]]. rewrite H.
    destruct (drop_effect (map fst (m_groups mm)) (base s)) as [_ [_ [_ [H' _]]]]. exact H'.
Qed.

(* ---------- do() of any command ---------- *)
Definition same_args (a b : gcobj) : Prop :=
  c_data b = c_data a /\ c_subset_state b = c_subset_state a /\ c_roi b = c_roi a /\ c_override_mode b = c_override_mode a.

Lemma same_args_cmd_of : forall k a b, same_args a b -> cmd_of k b = cmd_of k a /\ (forall N, valid_cmd N k a -> valid_cmd N k b).
Proof.
  intros k a b [H1 [H2 [H3 H4]]]. split.
  - destruct k; cbn [cmd_of]; rewrite ?H1, ?H2, ?H3, ?H4; reflexivity.
  - intros N. destruct k; cbn [valid_cmd]; rewrite ?H1; auto.
Qed.

Lemma same_kwargs_args : forall a b, same_kwargs a b -> same_args a b.
Proof. unfold same_kwargs, same_args. tauto. Qed.

Lemma gcmd_do_sim : forall tbl N ss s k c, SRel tbl ss s -> Core (base s) -> next_did (base s) = N -> valid_cmd N k c ->
  exists c' ss' tbl', gcmd_do k c ss = CDone c' ss' /\
    SRel tbl' ss' (fst (cmd_do (cmd_of k c) s)) /\ Ext tbl (s_next_lid ss) tbl' (s_next_lid ss') /\
    crel tbl' (s_next_lid ss') N (k, c') (cmd_of k c, snd (cmd_do (cmd_of k c) s)).
Proof.
  intros tbl N ss s k c HS HC HN HV. destruct k; cbn [gcmd_do cmd_of].
  - (* AddData *)
    pose proof (add_do_sim tbl ss s c HS HC) as H. destruct (AddData_do c ss) as [c' ss'|e c' ss'].
    + destruct H as [H1 [H2 H3]]. exists c', ss', tbl. split; [reflexivity|]. split; [exact H1|].
      split; [rewrite H3; apply ext_refl|].
      assert (SA : same_args c c') by (subst c'; unfold same_args; cbn; tauto).
      destruct (same_args_cmd_of KAdd c c' SA) as [E1 E2].
      split; [cbn [fst snd]; symmetry; exact E1|]. split; [apply E2; exact HV|].
      cbn [fst snd]. subst c'. reflexivity.
    + exfalso. destruct H as [_ H]. unfold known_data in H. rewrite HN in H. cbn [valid_cmd] in HV. lia.
  - (* RemoveData *)
    pose proof (rem_do_sim tbl ss s c HS HC) as H. destruct (RemoveData_do c ss) as [c' ss'].
    destruct H as [H1 [H2 H3]]. exists c', ss', tbl. split; [reflexivity|]. split; [exact H1|].
    split; [rewrite H3; apply ext_refl|].
    assert (SA : same_args c c') by (subst c'; unfold same_args; cbn; tauto).
    destruct (same_args_cmd_of KRem c c' SA) as [E1 E2].
    split; [cbn [fst snd]; symmetry; exact E1|]. split; [exact I|].
    cbn [fst snd]. subst c'. cbn [set_removed c_removed c_data cmd_do snd m_flag]. split; [reflexivity|].
    intros Hm. apply memz_In in Hm. rewrite <- HN. apply (c_did_fresh _ HC). exact Hm.
  - (* ApplySubsetState *)
    destruct (apply_do_sim tbl ss s c false HS HC) as [c' [ss' [tbl' [E [R [X [K W]]]]]]]. cbv zeta in *.
    exists c', ss', tbl'. split; [exact E|]. split; [exact R|]. split; [exact X|].
    destruct (same_args_cmd_of KApply c c' (same_kwargs_args _ _ K)) as [E1 E2].
    split; [cbn [fst snd]; symmetry; exact E1|]. split; [exact I|]. exact W.
  - (* ApplyROI *)
    destruct (apply_do_sim tbl ss s c true HS HC) as [c' [ss' [tbl' [E [R [X [K W]]]]]]]. cbv zeta in *.
    exists c', ss', tbl'. split; [exact E|]. split; [exact R|]. split; [exact X|].
    destruct (same_args_cmd_of KRoi c c' (same_kwargs_args _ _ K)) as [E1 E2].
    split; [cbn [fst snd]; symmetry; exact E1|]. split; [exact I|]. exact W.
Qed.

(* ---------- undo() of any command that carries the record of its do() ---------- *)
Lemma gcmd_undo_sim : forall tbl N ss s k c cm mm, SRel tbl ss s -> Core (base s) -> next_did (base s) = N ->
  crel tbl (s_next_lid ss) N (k, c) (cm, mm) ->
  exists ss', gcmd_undo k c ss = CDone c ss' /\ SRel tbl ss' (cmd_undo cm mm s) /\ s_next_lid ss' = s_next_lid ss.
Proof.
  intros tbl N ss s k c cm mm HS HC HN [H1 [H2 H3]]. cbn [fst snd] in *. subst cm. destruct k; cbn [gcmd_undo cmd_of].
  - pose proof (add_undo_sim tbl ss s c mm HS HC H3) as H. destruct (AddData_undo c ss) as [c' ss'].
    destruct H as [A [B C]]. subst c'. exists ss'. split; [reflexivity | split; assumption].
  - destruct H3 as [F V].
    pose proof (rem_undo_sim tbl ss s c mm HS HC F) as H. destruct (RemoveData_undo c ss) as [c' ss'|e c' ss'].
    + destruct H as [A [B C]]. subst c'. exists ss'. split; [reflexivity | split; assumption].
    + exfalso. destruct H as [A [_ B]]. specialize (V A). unfold known_data in B. rewrite HN in B. lia.
  - pose proof (restore_sim tbl ss s c mm (c_subset_state c) (option_map emode_of (c_override_mode c)) HS HC H3) as H.
    unfold ApplySubsetState_undo. destruct (restore_subsets c ss) as [c' ss']. destruct H as [A [B C]]. subst c'.
    exists ss'. split; [reflexivity | split; assumption].
  - pose proof (restore_sim tbl ss s c mm (c_roi c) (option_map emode_of (c_override_mode c)) HS HC H3) as H.
    unfold ApplyROI_undo. destruct (restore_subsets c ss) as [c' ss']. destruct H as [A [B C]]. subst c'.
    exists ss'. split; [reflexivity | split; assumption].
Qed.

(* ---------- one step of the machine ---------- *)
Lemma srel_stacks : forall tbl ss s c u, SRel tbl ss s -> SRel tbl ss (set_undone u (set_cmds c s)).
Proof. intros tbl ss s c u [H1 H2 H3 H4 H5 H6]. constructor; assumption. Qed.

Lemma srel_stacks' : forall tbl ss s c, SRel tbl ss s -> SRel tbl ss (set_cmds c s).
Proof. intros tbl ss s c [H1 H2 H3 H4 H5 H6]. constructor; assumption. Qed.

Lemma srel_undone : forall tbl ss s u, SRel tbl ss s -> SRel tbl ss (set_undone u s).
Proof. intros tbl ss s u [H1 H2 H3 H4 H5 H6]. constructor; assumption. Qed.

Lemma gstep_sim : forall tbl N gs s o, GRel tbl N gs s -> valid_op N o ->
  exists gs' tbl', gsstep gs o = inl gs' /\ GRel tbl' N gs' (sstep s (sop_of o)) /\
                   gsop_status gs o = sop_status s (sop_of o).
Proof.
  intros tbl N gs s o [HS HC HN Hc Hu] HV. destruct o as [k c| |]; cbn [gsstep sop_of sstep gsop_status sop_status].
  - (* do *)
    destruct (gcmd_do_sim tbl N (g_ss gs) s k c HS HC HN HV) as [c' [ss' [tbl' [E [R [X W]]]]]].
    unfold gstack_do. rewrite E. eexists. exists tbl'. split; [reflexivity|]. split; [|reflexivity].
    unfold stack_do. pose proof (core_cmd_do (cmd_of k c) s HC) as HC'. pose proof (cmd_do_pool (cmd_of k c) s) as HP.
    pose proof (cmd_do_stacks (cmd_of k c) s) as [Hcs _].
    destruct (cmd_do (cmd_of k c) s) as [s1 mm]. cbn [fst snd] in *.
    constructor; cbn [g_ss g_cmds g_undone base cmds undone set_undone set_cmds].
    + apply srel_stacks. exact R.
    + exact HC'.
    + rewrite HP. exact HN.
    + apply forall2_firstn. constructor; [exact W|].
      eapply forall2_impl; [|exact Hc]. intros a b Hab. eapply crel_ext; [exact X | exact Hab].
    + constructor.
  - (* undo *)
    unfold gstack_undo, stack_undo. inversion Hc as [E1 E2 | [k c] [cm mm] rest rest' Hh Ht E1 E2].
    + exists gs, tbl. split; [reflexivity|]. split; [|reflexivity]. constructor; try assumption.
    + set (s0 := set_undone ((cm, mm) :: undone s) (set_cmds rest' s)).
      assert (HS0 : SRel tbl (g_ss gs) s0) by (apply srel_stacks; exact HS).
      destruct (gcmd_undo_sim tbl N (g_ss gs) s0 k c cm mm HS0 HC HN Hh) as [ss' [E [R Nl]]].
      rewrite E. eexists. exists tbl. split; [reflexivity|]. split; [|reflexivity].
      destruct (cmd_undo_stacks cm mm s0) as [Q1 Q2].
      constructor; cbn [g_ss g_cmds g_undone].
      * exact R.
      * apply core_cmd_undo. exact HC.
      * rewrite cmd_undo_pool. exact HN.
      * rewrite Q1, Nl. exact Ht.
      * rewrite Q2. constructor; [eapply crel_urel; exact Hh | exact Hu].
  - (* redo *)
    unfold gstack_redo, stack_redo. inversion Hu as [E1 E2 | [k c] [cm mm0] rest rest' Hh Ht E1 E2].
    + exists gs, tbl. split; [reflexivity|]. split; [|reflexivity]. constructor; try assumption.
    + destruct Hh as [Hcm Hval]. cbn [fst snd] in Hcm, Hval. subst cm.
      set (s0 := set_undone rest' s).
      assert (HS0 : SRel tbl (g_ss gs) s0) by (apply srel_undone; exact HS).
      destruct (gcmd_do_sim tbl N (g_ss gs) s0 k c HS0 HC HN Hval) as [c' [ss' [tbl' [E [R [X W]]]]]].
      rewrite E. eexists. exists tbl'. split; [reflexivity|]. split; [|reflexivity].
      pose proof (core_cmd_do (cmd_of k c) s0 HC) as HC'. pose proof (cmd_do_pool (cmd_of k c) s0) as HP.
      pose proof (cmd_do_stacks (cmd_of k c) s0) as [Hcs Hus].
      destruct (cmd_do (cmd_of k c) s0) as [s1 mm]. cbn [fst snd] in *.
      constructor; cbn [g_ss g_cmds g_undone base cmds undone set_undone set_cmds].
      * apply srel_stacks'. exact R.
      * exact HC'.
      * rewrite HP. exact HN.
      * rewrite Hcs. cbn [s0 cmds set_undone]. constructor; [exact W|].
        eapply forall2_impl; [|exact Hc]. intros a b Hab. eapply crel_ext; [exact X | exact Hab].
      * rewrite Hus. cbn [s0 undone set_undone]. exact Ht.
Qed.

(* ---------- runs ---------- *)
Lemma grun_sim : forall ops tbl N gs s, GRel tbl N gs s -> Forall (valid_op N) ops ->
  exists gs' tbl', gsrun gs ops = inl gs' /\ GRel tbl' N gs' (srun s (map sop_of ops)).
Proof.
  induction ops as [|o ops IH]; intros tbl N gs s HG HV; simpl.
  - exists gs, tbl. split; [reflexivity | exact HG].
  - inversion HV as [|o' ops' Ho Hops]. subst.
    destruct (gstep_sim tbl N gs s o HG Ho) as [gs1 [tbl1 [E1 [G1 _]]]]. rewrite E1.
    apply (IH tbl1 N gs1 (sstep s (sop_of o)) G1 Hops).
Qed.

(* the hand-model state behind a heap of the translated DataCollection (C06) with the selections `gst` *)
Definition with_states (gst : Z -> sexpr) (st : state) : state :=
  set_gattrs (fun g => mkGattr (gst g) (g_label (gattrs st g)) (g_style (gattrs st g))) st.

Lemma core_with_states : forall gst st, Core st -> Core (with_states gst st).
Proof.
  intros gst st [H1 H2 H3 H4 H5 H6]. constructor; try assumption.
  eapply gcore_transport; [| | | | | exact H3]; reflexivity.
Qed.

Lemma gstart_rel : forall h st gst ed m, Rel h st -> Core st ->
  GRel (fun _ => ed) (h_next_did h) (gstart h gst ed m) (start (with_states gst st) ed (emode_of m)).
Proof.
  intros h st gst ed m HR HC.
  pose proof (rel_fields _ _ (rel_abs _ _ HR)) as [_ [_ [_ [_ [Fnd _]]]]].
  constructor; cbn [gstart g_ss g_cmds g_undone start base cmds undone].
  - constructor; cbn [s_heap s_gstate s_edit s_mode s_mode_dc s_next_lid base edit smode el_items el_id].
    + apply rel_set_gattrs; [exact HR | |]; intros g; reflexivity.
    + intros g. reflexivity.
    + reflexivity.
    + symmetry. apply mode_of_emode_of.
    + reflexivity.
    + split; cbn [el_items el_id]; [reflexivity | lia].
  - apply core_with_states. exact HC.
  - cbn [with_states set_gattrs next_did]. symmetry. exact Fnd.
  - constructor.
  - constructor.
Qed.

(* ===================== the theorems, on the translated definitions ===================== *)

(* G0: from any heap the translated DataCollection can be in (C06: Sim), with any selections, edit choice and mode, the
   machine made of the translated do()/undo() never raises on commands whose dataset exists, and after every history it is
   related (GRel: same collection, groups, members, selections, edit choice, mode; the same commands on both stacks, each
   carrying the record the hand model's memo holds) to the hand model run on the same history *)
Lemma gen_refines_model : forall h gst ed m ops, Sim h -> Forall (valid_op (h_next_did h)) ops ->
  exists st gs tbl, Rel h st /\ Core st /\
    gsrun (gstart h gst ed m) ops = inl gs /\
    GRel tbl (h_next_did h) gs (srun (start (with_states gst st) ed (emode_of m)) (map sop_of ops)).
Proof.
  intros h gst ed m ops [st [HR HC]] HV.
  destruct (grun_sim ops _ _ _ _ (gstart_rel h st gst ed m HR HC) HV) as [gs [tbl [E G]]].
  exists st, gs, tbl. split; [exact HR|]. split; [exact HC|]. split; [exact E | exact G].
Qed.

(* ---------- what the property observes, on a generated session ---------- *)
(* exactly: the same datasets, the same groups, the same selection for every live group, the same edit choice, the same mode *)
Record g_same_obs (a b : gsession) : Prop := mkGSame {
  go_coll : forall d, In d (h_data (s_heap a)) <-> In d (h_data (s_heap b));
  go_groups : h_groups (s_heap a) = h_groups (s_heap b);
  go_states : forall g, In g (h_groups (s_heap a)) -> s_gstate a g = s_gstate b g;
  go_edit : el_items (s_edit a) = el_items (s_edit b);
  go_mode : s_mode a = s_mode b
}.

(* up to the identity of groups that commands create: selections in group order, edit choice by position *)
Record g_obs_eq (a b : gsession) : Prop := mkGObsEq {
  ge_coll : forall d, In d (h_data (s_heap a)) <-> In d (h_data (s_heap b));
  ge_states : map (s_gstate a) (h_groups (s_heap a)) = map (s_gstate b) (h_groups (s_heap b));
  ge_edit : map (fun g => pos_of g (h_groups (s_heap a))) (el_items (s_edit a)) =
            map (fun g => pos_of g (h_groups (s_heap b))) (el_items (s_edit b));
  ge_mode : s_mode a = s_mode b
}.

Lemma same_obs_transfer : forall ta a sa tb b sb, SRel ta a sa -> SRel tb b sb -> same_obs sa sb -> g_same_obs a b.
Proof.
  intros ta a sa tb b sb [A1 A2 A3 A4 A5 A6] [B1 B2 B3 B4 B5 B6] [O1 O2 O3 O4 O5 O6].
  pose proof (rel_fields _ _ (rel_abs _ _ A1)) as [Ac [Ag _]]. pose proof (rel_fields _ _ (rel_abs _ _ B1)) as [Bc [Bg _]].
  constructor.
  - intros d. rewrite Ac, Bc. apply O1.
  - rewrite Ag, Bg. exact O2.
  - intros g Hg. rewrite Ag in Hg. rewrite A2, B2. apply O3. exact Hg.
  - rewrite A3, B3. exact O4.
  - rewrite A4, B4, O5. reflexivity.
Qed.

Lemma obs_eq_transfer : forall ta a sa tb b sb, SRel ta a sa -> SRel tb b sb -> obs_eq sa sb -> g_obs_eq a b.
Proof.
  intros ta a sa tb b sb [A1 A2 A3 A4 A5 A6] [B1 B2 B3 B4 B5 B6] [O1 O2 O3 O4 O5].
  pose proof (rel_fields _ _ (rel_abs _ _ A1)) as [Ac [Ag _]]. pose proof (rel_fields _ _ (rel_abs _ _ B1)) as [Bc [Bg _]].
  constructor.
  - intros d. rewrite Ac, Bc. apply O1.
  - rewrite Ag, Bg. rewrite (map_ext _ _ A2), (map_ext _ _ B2). exact O2.
  - rewrite Ag, Bg, A3, B3. exact O3.
  - rewrite A4, B4, O4. reflexivity.
Qed.

Lemma forall2_length : forall (A B : Type) (R : A -> B -> Prop) l l', Forall2 R l l' -> length l = length l'.
Proof. intros A B R l l' F. induction F; simpl; congruence. Qed.

(* G1: the undo history of the translated machine never exceeds MAX_UNDO, nor do both stacks together *)
Lemma gen_stack_bounds : forall h gst ed m ops, Sim h -> Forall (valid_op (h_next_did h)) ops ->
  exists gs, gsrun (gstart h gst ed m) ops = inl gs /\
    (length (g_cmds gs) <= Z.to_nat max_undo)%nat /\ (length (g_cmds gs) + length (g_undone gs) <= Z.to_nat max_undo)%nat.
Proof.
  intros h gst ed m ops HS HV. destruct (gen_refines_model h gst ed m ops HS HV) as [st [gs [tbl [HR [HC [E G]]]]]].
  exists gs. split; [exact E|].
  rewrite (forall2_length _ _ _ _ _ (gr_cmds _ _ _ _ G)), (forall2_length _ _ _ _ _ (gr_undone _ _ _ _ G)).
  apply (stack_bounds (with_states gst st) ed (emode_of m) (map sop_of ops)).
Qed.

(* G2: a new command clears the redo history *)
Lemma gen_do_clears_redo : forall k c gs gs', gstack_do k c gs = inl gs' -> g_undone gs' = [].
Proof.
  intros k c gs gs'. unfold gstack_do. destruct (gcmd_do k c (g_ss gs)); intros H; inversion H. reflexivity.
Qed.

(* G3 / G4: after ANY history, executing a command and undoing it gives back exactly the observable state the command found;
   redoing it gives back the observable state it had produced, up to the identity of a group it creates *)
Lemma gen_undo_redo_after_history : forall h gst ed m ops gs k c, Sim h -> Forall (valid_op (h_next_did h)) ops ->
  gsrun (gstart h gst ed m) ops = inl gs -> valid_cmd (h_next_did h) k c ->
  exists gs1 gs2 gs3, gstack_do k c gs = inl gs1 /\ gstack_undo gs1 = inl gs2 /\ gstack_redo gs2 = inl gs3 /\
    g_same_obs (g_ss gs2) (g_ss gs) /\ g_obs_eq (g_ss gs3) (g_ss gs1).
Proof.
  intros h gst ed m ops gs k c HS HV E HK.
  destruct (gen_refines_model h gst ed m ops HS HV) as [st [gs0 [tbl [HR [HC [E0 G]]]]]].
  rewrite E in E0. inversion E0. subst gs0. clear E0.
  set (s := srun (start (with_states gst st) ed (emode_of m)) (map sop_of ops)) in *.
  destruct (gstep_sim tbl _ gs s (GDo k c) G HK) as [gs1 [t1 [E1 [G1 _]]]].
  destruct (gstep_sim t1 _ gs1 _ GUndo G1 I) as [gs2 [t2 [E2 [G2 _]]]].
  destruct (gstep_sim t2 _ gs2 _ GRedo G2 I) as [gs3 [t3 [E3 [G3 _]]]].
  cbn [gsstep sop_of sstep] in *.
  exists gs1, gs2, gs3. split; [exact E1|]. split; [exact E2|]. split; [exact E3|].
  destruct (undo_inverts_do (cmd_of k c) s (gr_core _ _ _ _ G)) as [U _].
  pose proof (redo_inverts_undo (cmd_of k c) s (gr_core _ _ _ _ G)) as Rd.
  split.
  - eapply same_obs_transfer; [exact (gr_ss _ _ _ _ G2) | exact (gr_ss _ _ _ _ G) | exact U].
  - eapply obs_eq_transfer; [exact (gr_ss _ _ _ _ G3) | exact (gr_ss _ _ _ _ G1) | exact Rd].
Qed.

(* hand model: undoing what was just redone gives back exactly the state before the redo *)
Lemma undo_inverts_redo : forall s, Core (base s) -> undone s <> [] -> same_obs (stack_undo (stack_redo s)) s.
Proof.
  intros s HC Hne. unfold stack_redo. destruct (undone s) as [|[c mm0] rest] eqn:Eu; [congruence|].
  set (s0 := set_undone rest s).
  pose proof (undo_do c s0 HC) as U. pose proof (cmd_do_stacks c s0) as [Hc Hu].
  destruct (cmd_do c s0) as [s1 mm] eqn:E1. cbn [fst snd] in *.
  unfold stack_undo. cbn [cmds set_cmds].
  eapply same_obs_trans; [|eapply same_obs_trans; [exact U|]].
  - apply undo_congr. apply same_obs_fields; reflexivity.
  - apply same_obs_fields; reflexivity.
Qed.

(* G5: any depth -- at every point of every history, redo followed by undo gives back exactly the observable state *)
Lemma gen_undo_inverts_redo_any_depth : forall h gst ed m ops gs, Sim h -> Forall (valid_op (h_next_did h)) ops ->
  gsrun (gstart h gst ed m) ops = inl gs -> g_undone gs <> [] ->
  exists gs1 gs2, gstack_redo gs = inl gs1 /\ gstack_undo gs1 = inl gs2 /\ g_same_obs (g_ss gs2) (g_ss gs).
Proof.
  intros h gst ed m ops gs HS HV E Hne.
  destruct (gen_refines_model h gst ed m ops HS HV) as [st [gs0 [tbl [HR [HC [E0 G]]]]]].
  rewrite E in E0. inversion E0. subst gs0. clear E0.
  set (s := srun (start (with_states gst st) ed (emode_of m)) (map sop_of ops)) in *.
  destruct (gstep_sim tbl _ gs s GRedo G I) as [gs1 [t1 [E1 [G1 _]]]].
  destruct (gstep_sim t1 _ gs1 _ GUndo G1 I) as [gs2 [t2 [E2 [G2 _]]]].
  cbn [gsstep sop_of sstep] in *.
  exists gs1, gs2. split; [exact E1|]. split; [exact E2|].
  eapply same_obs_transfer; [exact (gr_ss _ _ _ _ G2) | exact (gr_ss _ _ _ _ G) |].
  apply undo_inverts_redo; [exact (gr_core _ _ _ _ G)|].
  intros Hn. apply Hne. pose proof (forall2_length _ _ _ _ _ (gr_undone _ _ _ _ G)) as L. rewrite Hn in L.
  destruct (g_undone gs); [reflexivity | discriminate].
Qed.

(* G6: the collection invariant of C06 (one subset per dataset and live group, on the heap of the translated DataCollection)
   holds after every history of translated commands *)
Lemma gen_collection_invariant : forall h gst ed m ops gs, Sim h -> Forall (valid_op (h_next_did h)) ops ->
  gsrun (gstart h gst ed m) ops = inl gs -> HInv (s_heap (g_ss gs)).
Proof.
  intros h gst ed m ops gs HS HV E.
  destruct (gen_refines_model h gst ed m ops HS HV) as [st [gs0 [tbl [HR [HC [E0 G]]]]]].
  rewrite E in E0. inversion E0. subst gs0.
  apply sim_hinv. eexists. split; [exact (sr_heap _ _ _ (gr_ss _ _ _ _ G)) | exact (gr_core _ _ _ _ G)].
Qed.

(* hand model, any depth: after ANY history with something to undo, undo followed by redo gives back the observable state
   (up to the identity of a group the redone command creates) *)
Lemma redo_inverts_undo_history : forall b ed m ops, Core b ->
  let s := srun (start b ed m) ops in cmds s <> [] -> obs_eq (stack_redo (stack_undo s)) s.
Proof.
  intros b ed m ops HC s Hne. destruct (cmds s) as [|[c mm] rest] eqn:Ec; [congruence|].
  destruct (undo_after_history b ed m ops c mm rest HC Ec) as [sp [Csp [_ [_ [S1 S2]]]]].
  fold s in S1, S2.
  assert (HCs : Core (base s)) by (apply core_srun; exact HC).
  assert (HCu : Core (base (stack_undo s))) by (apply (core_sstep s Undo); exact HCs).
  assert (Hund : undone (stack_undo s) = (c, mm) :: undone s).
  { unfold stack_undo. rewrite Ec.
    destruct (cmd_undo_stacks c mm (set_undone ((c, mm) :: undone s) (set_cmds rest s))) as [_ H]. rewrite H. reflexivity. }
  unfold stack_redo at 1. rewrite Hund.
  set (su := stack_undo s) in *.
  assert (S3 : same_obs (set_undone (undone s) su) sp).
  { apply (same_obs_trans _ su _); [apply same_obs_fields; reflexivity | exact S2]. }
  pose proof (do_congr c (set_undone (undone s) su) sp S3 HCu Csp) as D.
  destruct (cmd_do c (set_undone (undone s) su)) as [s1 mm1]. cbn [fst] in D.
  eapply obs_eq_trans; [|apply obs_eq_sym; apply same_obs_obs_eq; exact S1].
  eapply obs_eq_fields; [| | | exact D]; reflexivity.
Qed.

(* G7: any depth -- at every point of every history with something to undo, undo followed by redo gives back the observable
   state, up to the identity of a group the redone command creates *)
Lemma gen_redo_inverts_undo_any_depth : forall h gst ed m ops gs, Sim h -> Forall (valid_op (h_next_did h)) ops ->
  gsrun (gstart h gst ed m) ops = inl gs -> g_cmds gs <> [] ->
  exists gs1 gs2, gstack_undo gs = inl gs1 /\ gstack_redo gs1 = inl gs2 /\ g_obs_eq (g_ss gs2) (g_ss gs).
Proof.
  intros h gst ed m ops gs HS HV E Hne.
  destruct (gen_refines_model h gst ed m ops HS HV) as [st [gs0 [tbl [HR [HC [E0 G]]]]]].
  rewrite E in E0. inversion E0. subst gs0. clear E0.
  pose proof (redo_inverts_undo_history (with_states gst st) ed (emode_of m) (map sop_of ops) (core_with_states gst st HC)) as RU.
  cbv zeta in RU.
  set (s := srun (start (with_states gst st) ed (emode_of m)) (map sop_of ops)) in *.
  destruct (gstep_sim tbl _ gs s GUndo G I) as [gs1 [t1 [E1 [G1 _]]]].
  destruct (gstep_sim t1 _ gs1 _ GRedo G1 I) as [gs2 [t2 [E2 [G2 _]]]].
  cbn [gsstep sop_of sstep] in *.
  exists gs1, gs2. split; [exact E1|]. split; [exact E2|].
  eapply obs_eq_transfer; [exact (gr_ss _ _ _ _ G2) | exact (gr_ss _ _ _ _ G) |].
  apply RU.
  intros Hn. apply Hne. pose proof (forall2_length _ _ _ _ _ (gr_cmds _ _ _ _ G)) as L. rewrite Hn in L.
  destruct (g_cmds gs); [reflexivity | discriminate].
Qed.
