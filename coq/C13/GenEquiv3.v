(* C13 — the TRANSLATED commands against the hand model: part 3.
   do() of ApplySubsetState / ApplyROI, _restore_subsets (their undo), and the relation between what do() records on the
   command object and the hand model's memo. *)
From Coq Require Import ZArith List Bool Lia.
Import ListNotations.
From GV Require Import Common.Wire gen.Gen_groups gen.Gen_combine gen.Gen_commands C06.Model C06.Lemmas1 C06.Lemmas
  C06.GenEquiv1 C06.GenEquiv2 C06.GenEquiv C13.Model C13.Lemmas1 C13.Lemmas2 C13.GenEquiv1 C13.GenEquiv2.
Open Scope Z_scope.

(* what do() of a selection command leaves on the command object, against the hand model's memo *)
Definition rec_apply (tbl : Z -> list Z) (n : Z) (c : gcobj) (mm : memo) : Prop :=
  m_groups mm = c_old_groups c /\ m_edit mm = el_items (c_old_edit_subset c) /\
  Known tbl n (c_old_edit_subset c) /\
  (forall p, In p (c_old_states c) -> In (sub_group (fst p)) (map fst (c_old_groups c))).

Lemma stored_sub_live : forall h st sb, Rel h st -> Core st -> stored_sub h sb -> In (sub_group sb) (h_groups h).
Proof.
  intros h st sb HR HC [d Hin].
  assert (HS : Sim h) by (exists st; split; assumption).
  destruct (hi_no_others _ (sim_hinv _ HS) d _ _ Hin) as [_ Hg]. exact Hg.
Qed.

Lemma apply_memo_snd : forall e ov s, snd (cmd_do (Apply e ov) s) = apply_memo s.
Proof. intros. rewrite cmd_do_apply. destruct (creates ov s); reflexivity. Qed.

Lemma map_fst_pairs : forall (f : Z -> sexpr) l, map fst (map (fun g => (g, f g)) l) = l.
Proof. intros f l. rewrite map_map. simpl. apply map_id. Qed.

(* ---------- do() of ApplySubsetState (roi = false) and of ApplyROI with the harness's apply_func (roi = true) ---------- *)
Lemma apply_do_sim : forall tbl ss s (c : gcobj) (roi : bool), SRel tbl ss s -> Core (base s) ->
  let hc := Apply (if roi then c_roi c else c_subset_state c) (option_map emode_of (c_override_mode c)) in
  exists c' ss' tbl',
    (if roi then ApplyROI_do (harness_apply_func (c_override_mode c)) c ss else ApplySubsetState_do P13 c ss) = CDone c' ss' /\
    SRel tbl' ss' (fst (cmd_do hc s)) /\ Ext tbl (s_next_lid ss) tbl' (s_next_lid ss') /\
    same_kwargs c c' /\ rec_apply tbl' (s_next_lid ss') c' (snd (cmd_do hc s)).
Proof.
  intros tbl ss s c roi HS HC hc.
  pose proof (snapshot_spec c ss) as Hsn.
  pose proof (rel_fields _ _ (rel_abs _ _ (sr_heap _ _ _ HS))) as [_ [Fg _]].
  assert (Hrec : forall c1 tbl' n', same_kwargs c c1 ->
            c_old_groups c1 = gdict_of_pairs (map (fun g => (g, s_gstate ss g)) (h_groups (s_heap ss))) ->
            c_old_edit_subset c1 = s_edit ss ->
            (forall p, In p (c_old_states c1) -> stored_sub (s_heap ss) (fst p)) ->
            Ext tbl (s_next_lid ss) tbl' n' -> rec_apply tbl' n' c1 (apply_memo s)).
  { intros c1 tbl' n' _ Hog Hoe Hos HX.
    assert (Hog' : c_old_groups c1 = map (fun g => (g, gstate (base s) g)) (groups (base s))).
    { rewrite Hog, Fg. rewrite gdict_of_pairs_nodup.
      - apply map_ext. intros g. rewrite (sr_gstate _ _ _ HS). reflexivity.
      - rewrite map_fst_pairs. apply (c_groups _ HC). }
    unfold rec_apply, apply_memo. cbn [m_groups m_edit]. repeat split.
    - symmetry. exact Hog'.
    - rewrite Hoe. symmetry. apply (sr_edit _ _ _ HS).
    - rewrite Hoe. destruct (known_ext _ _ _ _ _ HX (sr_known _ _ _ HS)) as [K1 K2]. exact K1.
    - rewrite Hoe. destruct (known_ext _ _ _ _ _ HX (sr_known _ _ _ HS)) as [K1 K2]. exact K2.
    - intros p Hp. rewrite Hog', map_fst_pairs, <- Fg.
      eapply stored_sub_live; [exact (sr_heap _ _ _ HS) | exact HC | apply Hos; exact Hp]. }
  destruct roi.
  - (* ApplyROI *)
    unfold ApplyROI_do. destruct (snapshot_subsets c ss) as [c1 ss1]. destruct Hsn as [E1 [K [Hog [Hoe Hos]]]]. subst ss1.
    unfold harness_apply_func.
    destruct (update_sim tbl ss s (c_roi c1) (c_override_mode c) HS HC) as [ss' [tbl' [E [R X]]]].
    rewrite E. exists c1, ss', tbl'. split; [reflexivity|].
    assert (Hroi : c_roi c1 = c_roi c) by (unfold same_kwargs in K; tauto).
    subst hc. rewrite apply_memo_snd, hand_apply_cmd_do.
    split; [|split; [exact X | split; [exact K | apply Hrec; assumption]]].
    rewrite Hroi in R. destruct (c_override_mode c); exact R.
  - (* ApplySubsetState *)
    unfold ApplySubsetState_do. destruct (snapshot_subsets c ss) as [c1 ss1]. destruct Hsn as [E1 [K [Hog [Hoe Hos]]]]. subst ss1.
    assert (Hov : c_override_mode c1 = c_override_mode c) by (unfold same_kwargs in K; tauto).
    assert (Hst : c_subset_state c1 = c_subset_state c) by (unfold same_kwargs in K; tauto).
    cbv zeta. rewrite Hov, Hst, (sr_edit _ _ _ HS).
    match goal with |- context [EditSubsetMode_update P13 _ ?o ss] => set (ovg' := o) end.
    destruct (update_sim tbl ss s (c_subset_state c) ovg' HS HC) as [ss' [tbl' [E [R X]]]].
    rewrite E. exists c1, ss', tbl'. split; [reflexivity|].
    subst hc. rewrite apply_memo_snd.
    split; [|split; [exact X | split; [exact K | apply Hrec; assumption]]].
    rewrite <- (hand_apply_default (c_subset_state c) (c_override_mode c) s). exact R.
Qed.

(* ---------- _restore_subsets ---------- *)
Lemma drop_loop_sim : forall tbl (og : list (Z * sexpr)) l ss s, SRel tbl ss s -> Core (base s) ->
  let ss' := fold_left (fun ss g => if negb (gdict_mem g og) then Gen_commands.set_heap (DataCollection_remove_subset_group g (s_heap ss)) ss else ss) l ss in
  let b' := fold_left (fun b g => if memz g (map fst og) then b else do_remove_group g b) l (base s) in
  SRel tbl ss' (set_base b' s) /\ Core b' /\ s_next_lid ss' = s_next_lid ss /\ s_edit ss' = s_edit ss.
Proof.
  intros tbl og l. induction l as [|g l IH]; intros ss s HS HC; cbv zeta; simpl.
  - split; [destruct s; exact HS | split; [exact HC | split; reflexivity]].
  - rewrite gdict_mem_memz. destruct (memz g (map fst og)) eqn:Hm; cbn [negb].
    + apply IH; assumption.
    + set (ss1 := Gen_commands.set_heap _ ss). set (s1 := set_base (do_remove_group g (base s)) s).
      assert (H1 : SRel tbl ss1 s1).
      { apply srel_heap; [exact HS | apply remove_group_rel; [exact (sr_heap _ _ _ HS) | exact HC] |].
        destruct (remove_group_effect g (base s)) as [_ [_ [Hg _]]]. exact Hg. }
      assert (C1 : Core (base s1)) by (apply core_remove_group; exact HC).
      specialize (IH ss1 s1 H1 C1). cbv zeta in IH. exact IH.
Qed.

(* a loop whose body does nothing on the states that satisfy an invariant *)
Lemma fold_noop : forall (A B : Type) (f : A -> B -> A) (l : list B) (a : A),
  (forall x, In x l -> f a x = a) -> fold_left f l a = a.
Proof.
  intros A B f l a. induction l as [|x l IH]; intros H; simpl; [reflexivity|].
  rewrite H by (left; reflexivity). apply IH. intros y Hy. apply H. right. exact Hy.
Qed.

Lemma states_loop_sim : forall tbl (ps : list (Z * sexpr)) ss s, SRel tbl ss s ->
  let ss' := fold_left (fun ss (p : Z * sexpr) => let '(group, state_) := p in Gen_commands.set_gstate (hupd (s_gstate ss) group state_) ss) ps ss in
  SRel tbl ss' (set_base (restore_states ps (base s)) s) /\ s_next_lid ss' = s_next_lid ss /\ s_edit ss' = s_edit ss /\ s_heap ss' = s_heap ss.
Proof.
  intros tbl ps. induction ps as [|[g e] ps IH]; intros ss s HS; cbv zeta; simpl.
  - split; [destruct s; exact HS | repeat split].
  - set (ss1 := Gen_commands.set_gstate _ ss). set (s1 := set_base (put_state g e (base s)) s).
    assert (H1 : SRel tbl ss1 s1).
    { destruct HS as [H1 H2 H3 H4 H5 H6]. constructor; subst ss1 s1; scbn; try assumption.
      - apply rel_put_state. exact H1.
      - intros g'. unfold hupd. destruct (g' =? g) eqn:E.
        + apply Z.eqb_eq in E. subst g'. rewrite put_same. reflexivity.
        + apply Z.eqb_neq in E. rewrite put_other by exact E. apply H2. }
    specialize (IH ss1 s1 H1). cbv zeta in IH. exact IH.
Qed.

Lemma restore_sim : forall tbl ss s (c : gcobj) mm e ov, SRel tbl ss s -> Core (base s) ->
  rec_apply tbl (s_next_lid ss) c mm ->
  let (c', ss') := restore_subsets c ss in
  c' = c /\ SRel tbl ss' (cmd_undo (Apply e ov) mm s) /\ s_next_lid ss' = s_next_lid ss.
Proof.
  intros tbl ss s c mm e ov HS HC [Rg [Re [Rk Rw]]].
  unfold restore_subsets. cbv zeta.
  (* loop 1 *)
  destruct (drop_loop_sim tbl (c_old_groups c) (h_groups (s_heap ss)) ss s HS HC) as [S1 [C1 [N1 E1]]].
  cbv zeta in S1, C1, N1, E1.
  match type of S1 with SRel _ ?x _ => set (ss1 := x) in * end.
  pose proof (rel_fields _ _ (rel_abs _ _ (sr_heap _ _ _ HS))) as [_ [Fg _]].
  rewrite Fg in S1, C1. fold (drop_new_groups (map fst (c_old_groups c)) (base s)) in S1, C1.
  set (b1 := drop_new_groups (map fst (c_old_groups c)) (base s)) in *.
  set (s1 := set_base b1 s) in *.
  (* loop 2 does nothing: every stored subset belongs to a live group, and the live groups are recorded ones *)
  assert (Hlive : forall g, In g (h_groups (s_heap ss1)) -> gdict_mem g (c_old_groups c) = true).
  { intros g Hg. pose proof (rel_fields _ _ (rel_abs _ _ (sr_heap _ _ _ S1))) as [_ [Fg1 _]].
    rewrite Fg1 in Hg. subst s1. cbn [base set_base] in Hg.
    destruct (drop_effect (map fst (c_old_groups c)) (base s)) as [_ [D2 _]]. fold b1 in D2. rewrite D2 in Hg.
    apply filter_In in Hg. destruct Hg as [_ Hg]. rewrite gdict_mem_memz. exact Hg. }
  match goal with |- context [fold_left ?f (h_data (s_heap ss1)) ss1] => assert (L2 : fold_left f (h_data (s_heap ss1)) ss1 = ss1) end.
  { apply fold_noop. intros d _. apply fold_noop. intros sb Hsb.
    assert (Hs : stored_sub (s_heap ss1) sb).
    { unfold subsets_of_data in Hsb. apply in_map_iff in Hsb. destruct Hsb as [q [Hq Hin]]. subst sb. exists d. destruct q. exact Hin. }
    pose proof (stored_sub_live _ _ _ (sr_heap _ _ _ S1) C1 Hs) as Hg.
    cbn [gdict_mem_opt]. rewrite (Hlive _ Hg). rewrite andb_false_r. reflexivity. }
  rewrite L2.
  (* loop 3 *)
  destruct (states_loop_sim tbl (c_old_groups c) ss1 s1 S1) as [S3 [N3 [E3 H3]]]. cbv zeta in S3, N3, E3, H3.
  match type of S3 with SRel _ ?x _ => set (ss3 := x) in * end.
  (* loop 4 does nothing: every recorded subset belongs to a recorded group *)
  match goal with |- context [fold_left ?f (c_old_states c) ss3] => assert (L4 : fold_left f (c_old_states c) ss3 = ss3) end.
  { apply fold_noop. intros [sb st] Hp. cbn [gdict_mem_opt]. rewrite gdict_mem_memz.
    pose proof (Rw _ Hp) as Hin. cbn [fst] in Hin. apply memz_In in Hin. rewrite Hin. reflexivity. }
  rewrite L4.
  (* the setter *)
  split; [reflexivity|].
  rewrite cmd_undo_apply. rewrite Rg. fold b1.
  unfold EditSubsetMode_edit_subset_set.
  destruct (el_id (c_old_edit_subset c) =? el_id (s_edit ss3)) eqn:Eid.
  - (* the same list object: nothing to do, and its contents are the recorded ones *)
    split; [|rewrite N3, N1; reflexivity].
    apply Z.eqb_eq in Eid.
    destruct S3 as [A1 A2 A3 A4 A5 A6]. constructor; scbn; try assumption.
    rewrite Re. destruct Rk as [K1 _]. destruct A6 as [K2 _]. rewrite K1, Eid. exact K2.
  - unfold EditSubsetMode__broadcast, EditSubsetMode_edit_subset_get, EditSubsetMode_mode_get, session_event. scbn.
    destruct (negb (negb (s_mode_dc ss3))); scbn.
    + split; [|rewrite N3, N1; reflexivity].
      destruct S3 as [A1 A2 A3 A4 A5 A6]. constructor; scbn; try assumption.
      * symmetry. exact Re.
      * rewrite N3, N1. exact Rk.
    + split; [|rewrite N3, N1; reflexivity].
      destruct S3 as [A1 A2 A3 A4 A5 A6]. constructor; scbn; try assumption.
      * symmetry. exact Re.
      * rewrite N3, N1. exact Rk.
Qed.
