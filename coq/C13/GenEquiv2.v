(* C13 — the TRANSLATED commands against the hand model: part 2.
   _snapshot_subsets, EditSubsetMode._combine_data / update, and do() of ApplySubsetState / ApplyROI. *)
From Coq Require Import ZArith List Bool Lia.
Import ListNotations.
From GV Require Import Common.Wire gen.Gen_groups gen.Gen_combine gen.Gen_commands C06.Model C06.Lemmas1 C06.Lemmas
  C06.GenEquiv1 C06.GenEquiv2 C06.GenEquiv C13.Model C13.Lemmas1 C13.Lemmas2 C13.GenEquiv1.
Open Scope Z_scope.

Ltac scbn := cbn [s_heap s_gstate s_edit s_mode s_mode_dc s_next_lid s_events Gen_commands.set_heap Gen_commands.set_gstate Gen_commands.set_edit
         set_next_lid set_events el_id el_items fst snd base edit smode set_edit set_base].

(* ---------- dicts ---------- *)
Lemma gdict_set_fresh : forall (V : Type) (d : list (Z * V)) k v, ~ In k (map fst d) -> gdict_set d k v = d ++ [(k, v)].
Proof.
  intros V d k v. induction d as [|p d IH]; intros H; simpl; [reflexivity|].
  destruct (fst p =? k) eqn:E.
  - apply Z.eqb_eq in E. exfalso. apply H. left. exact E.
  - rewrite IH; [reflexivity|]. intros C. apply H. right. exact C.
Qed.

Lemma gdict_of_pairs_acc : forall (V : Type) (ps acc : list (Z * V)),
  NoDup (map fst (acc ++ ps)) -> fold_left (fun d p => gdict_set d (fst p) (snd p)) ps acc = acc ++ ps.
Proof.
  intros V ps. induction ps as [|p ps IH]; intros acc H; simpl.
  - rewrite app_nil_r. reflexivity.
  - rewrite gdict_set_fresh.
    + rewrite IH; [rewrite <- app_assoc; destruct p; reflexivity|].
      rewrite <- app_assoc. destruct p. exact H.
    + rewrite map_app in H. apply NoDup_remove_2 in H. intros C. apply H. apply in_or_app. left. exact C.
Qed.

Lemma gdict_of_pairs_nodup : forall (V : Type) (ps : list (Z * V)), NoDup (map fst ps) -> gdict_of_pairs ps = ps.
Proof. intros V ps H. unfold gdict_of_pairs. rewrite gdict_of_pairs_acc; [reflexivity | exact H]. Qed.

Lemma sdict_set_in : forall (V : Type) (d : list (sub * V)) k v p, In p (sdict_set d k v) -> In p d \/ p = (k, v).
Proof.
  intros V d k v p. induction d as [|q d IH]; simpl.
  - intros [H | []]. right. symmetry. exact H.
  - destruct (sub_id (fst q) =? sub_id k).
    + intros [H | H]; [right; symmetry; exact H | left; right; exact H].
    + intros [H | H]; [left; left; exact H|]. destruct (IH H) as [H' | H']; [left; right; exact H' | right; exact H'].
Qed.

(* ---------- _snapshot_subsets ---------- *)
(* the fields a snapshot leaves alone *)
Definition same_kwargs (a b : gcobj) : Prop :=
  c_data b = c_data a /\ c_subset_state b = c_subset_state a /\ c_roi b = c_roi a /\ c_override_mode b = c_override_mode a /\
  c_added b = c_added a /\ c_removed b = c_removed a.

Lemma fold_inv : forall (A B : Type) (P : A -> Prop) (f : A -> B -> A) (l : list B) (a : A),
  P a -> (forall a x, In x l -> P a -> P (f a x)) -> P (fold_left f l a).
Proof.
  intros A B P f l. induction l as [|x l IH]; intros a Ha Hf; simpl; [exact Ha|].
  apply IH; [apply Hf; [left; reflexivity | exact Ha] | intros a' y Hy; apply Hf; right; exact Hy].
Qed.

(* every recorded subset is a stored subset of some dataset *)
Definition stored_sub (h : heap) (sb : sub) : Prop := exists d, In (sub_id sb, sub_group sb) (h_dsubs h d).

Lemma snapshot_spec : forall (cmd : gcobj) (ss : gsession),
  let (cmd', ss') := snapshot_subsets cmd ss in
  ss' = ss /\ same_kwargs cmd cmd' /\
  c_old_groups cmd' = gdict_of_pairs (map (fun g => (g, s_gstate ss g)) (h_groups (s_heap ss))) /\
  c_old_edit_subset cmd' = s_edit ss /\
  (forall p, In p (c_old_states cmd') -> stored_sub (s_heap ss) (fst p)).
Proof.
  intros cmd ss. unfold snapshot_subsets, EditSubsetMode_edit_subset_get.
  set (G := gdict_of_pairs _).
  set (c0 := set_old_states [] (set_old_groups G cmd)).
  set (Inv := fun c : gcobj => same_kwargs cmd c /\ c_old_groups c = G /\ (forall p, In p (c_old_states c) -> stored_sub (s_heap ss) (fst p))).
  assert (H0 : Inv c0). { unfold Inv, c0, same_kwargs. cbn. repeat split. intros p []. }
  match goal with |- context [fold_left ?f (h_data (s_heap ss)) c0] => assert (HI : Inv (fold_left f (h_data (s_heap ss)) c0)) end.
  { apply fold_inv; [exact H0|]. intros c d _ Hc.
    apply fold_inv; [exact Hc|]. intros c' sb Hsb [K [Gq W]]. unfold Inv, same_kwargs in *. cbn. repeat split; try tauto.
    intros p Hp. apply sdict_set_in in Hp. destruct Hp as [Hp | Hp]; [apply W; exact Hp|]. subst p. cbn [fst].
    unfold subsets_of_data in Hsb. apply in_map_iff in Hsb. destruct Hsb as [q [Hq Hin]]. subst sb. exists d. cbn. destruct q. exact Hin. }
  destruct HI as [K [Gq W]]. unfold same_kwargs in *. cbn. repeat split; try tauto.
Qed.

(* ---------- modes ---------- *)
Lemma mode_of_emode_of : forall m, mode_of (emode_of m) = m.
Proof. destruct m; reflexivity. Qed.
Lemma emode_of_mode_of : forall m, emode_of (mode_of m) = m.
Proof. destruct m; reflexivity. Qed.

(* the mode functions translated from edit_subset_mode.py (Gen_combine) are the hand model's `combine` *)
Lemma mode_fn_combine : forall m old e, mode_fn P13 (mode_of m) old e = combine m e old.
Proof. destruct m; reflexivity. Qed.

Lemma mode_eqb_new : forall m, mode_eqb (mode_of m) M_NewMode = is_new m.
Proof. destruct m; reflexivity. Qed.

(* ---------- EditSubsetMode._combine_data ---------- *)
Definition Ext (tbl : Z -> list Z) (n : Z) (tbl' : Z -> list Z) (n' : Z) : Prop :=
  n <= n' /\ forall i, i < n -> tbl' i = tbl i.

Lemma ext_refl : forall tbl n, Ext tbl n tbl n.
Proof. intros. split; [lia | reflexivity]. Qed.

Lemma ext_trans : forall t1 n1 t2 n2 t3 n3, Ext t1 n1 t2 n2 -> Ext t2 n2 t3 n3 -> Ext t1 n1 t3 n3.
Proof. intros t1 n1 t2 n2 t3 n3 [A1 A2] [B1 B2]. split; [lia|]. intros i Hi. rewrite B2 by lia. apply A2. exact Hi. Qed.

Lemma known_ext : forall tbl n tbl' n' e, Ext tbl n tbl' n' -> Known tbl n e -> Known tbl' n' e.
Proof. intros tbl n tbl' n' e [A1 A2] [K1 K2]. split; [rewrite A2 by exact K2; exact K1 | lia]. Qed.

(* what the hand model does with a selection under the effective mode m *)
Definition hand_apply (m : emode) (e : sexpr) (s : sess) : sess :=
  if (match edit s with [] => true | _ => false end) || is_new m
  then set_edit [next_gid (base s)] (set_base (do_new_group (Some e) (base s)) s)
  else set_base (combine_all m e (edit s) (base s)) s.

Lemma combine_loop_sim : forall tbl m e l ss s, SRel tbl ss s ->
  SRel tbl (fold_left (fun ss g => Gen_commands.set_gstate (hupd (s_gstate ss) g (mode_fn P13 (mode_of m) (s_gstate ss g) e)) ss) l ss)
       (set_base (combine_all m e l (base s)) s) /\
  s_next_lid (fold_left (fun ss g => Gen_commands.set_gstate (hupd (s_gstate ss) g (mode_fn P13 (mode_of m) (s_gstate ss g) e)) ss) l ss) = s_next_lid ss.
Proof.
  intros tbl m e l. induction l as [|g l IH]; intros ss s HS; simpl.
  - split; [|reflexivity]. destruct s. exact HS.
  - set (ss1 := Gen_commands.set_gstate _ ss).
    set (s1 := set_base (put_state g (combine m e (gstate (base s) g)) (base s)) s).
    assert (H1 : SRel tbl ss1 s1).
    { destruct HS as [H1 H2 H3 H4 H5 H6]. constructor; subst ss1 s1; cbn [Gen_commands.set_gstate s_heap s_gstate s_edit s_mode s_mode_dc s_next_lid set_base base edit smode]; try assumption.
      - apply rel_put_state. exact H1.
      - intros g'. unfold hupd. destruct (g' =? g) eqn:E.
        + apply Z.eqb_eq in E. subst g'. rewrite put_same, mode_fn_combine, H2. reflexivity.
        + apply Z.eqb_neq in E. rewrite put_other by exact E. apply H2. }
    destruct (IH ss1 s1 H1) as [IH1 IH2]. split; [exact IH1 | rewrite IH2; reflexivity].
Qed.

Lemma combine_data_sim : forall tbl ss s e (ovg : option mode_name), SRel tbl ss s -> Core (base s) ->
  let m := match ovg with Some x => emode_of x | None => smode s end in
  exists ss' tbl', EditSubsetMode__combine_data P13 e ovg ss = SDone ss' /\
    SRel tbl' ss' (hand_apply m e s) /\ Ext tbl (s_next_lid ss) tbl' (s_next_lid ss').
Proof.
  intros tbl ss s e ovg HS HC m.
  unfold EditSubsetMode__combine_data, EditSubsetMode_mode_get.
  assert (Hm : match ovg with Some m_ => m_ | None => s_mode ss end = mode_of m).
  { subst m. destruct ovg as [x|]; [rewrite mode_of_emode_of; reflexivity | apply (sr_mode _ _ _ HS)]. }
  rewrite Hm, mode_eqb_new. unfold hand_apply.
  assert (He : list_is_empty (el_items (s_edit ss)) = match edit s with [] => true | _ => false end).
  { rewrite (sr_edit _ _ _ HS). destruct (edit s); reflexivity. }
  rewrite He. destruct ((match edit s with [] => true | _ => false end) || is_new m) eqn:Hc.
  - (* a new group *)
    rewrite (sr_dc _ _ _ HS). cbn [negb].
    unfold call_new_subset_group, new_list, EditSubsetMode_edit_subset_set, EditSubsetMode__broadcast,
      EditSubsetMode_edit_subset_get, EditSubsetMode_mode_get, session_event.
    cbn [s_heap s_gstate s_edit s_mode s_mode_dc s_next_lid s_events Gen_commands.set_heap Gen_commands.set_gstate Gen_commands.set_edit
         set_next_lid set_events el_id el_items fst snd p_copy P13].
    destruct (sr_known _ _ _ HS) as [Kt Kn].
    assert (Hne : (s_next_lid ss =? el_id (s_edit ss)) = false) by (apply Z.eqb_neq; lia).
    rewrite Hne. rewrite (sr_dc _ _ _ HS). cbn [negb].
    cbn [s_heap s_gstate s_edit s_mode s_mode_dc s_next_lid s_events Gen_commands.set_heap Gen_commands.set_gstate Gen_commands.set_edit
         set_next_lid set_events el_id el_items].
    eexists. exists (fun i => if i =? s_next_lid ss then [h_next_gid (s_heap ss)] else tbl i). split; [reflexivity|].
    pose proof (rel_fields _ _ (rel_abs _ _ (sr_heap _ _ _ HS))) as [_ [_ [_ [_ [_ [Fng _]]]]]].
    split.
    + destruct HS as [H1 H2 H3 H4 H5 H6].
      constructor; scbn; try assumption.
      * apply rel_new_group; assumption.
      * intros g. destruct (new_group_effect (Some e) (base s)) as [_ [_ [_ [_ [Gs Go]]]]]. cbv zeta in *.
        unfold hupd. rewrite Fng. destruct (g =? next_gid (base s)) eqn:E.
        -- apply Z.eqb_eq in E. subst g. symmetry. exact Gs.
        -- apply Z.eqb_neq in E. rewrite H2. unfold gstate. rewrite (Go g E). reflexivity.
      * rewrite Fng. reflexivity.
      * split; cbn [el_id el_items]; [rewrite Z.eqb_refl; reflexivity | lia].
    + split; scbn; [lia|]. intros i Hi. destruct (i =? s_next_lid ss) eqn:E; [apply Z.eqb_eq in E; lia | reflexivity].
  - (* the mode is applied to every edited group *)
    cbv zeta.
    destruct (combine_loop_sim tbl m e (el_items (s_edit ss)) ss s HS) as [L1 L2].
    eexists. exists tbl. split; [reflexivity|]. split.
    + rewrite <- (sr_edit _ _ _ HS). exact L1.
    + rewrite L2. apply ext_refl.
Qed.

Lemma update_sim : forall tbl ss s e (ovg : option mode_name), SRel tbl ss s -> Core (base s) ->
  let m := match ovg with Some x => emode_of x | None => smode s end in
  exists ss' tbl', EditSubsetMode_update P13 e ovg ss = SDone ss' /\
    SRel tbl' ss' (hand_apply m e s) /\ Ext tbl (s_next_lid ss) tbl' (s_next_lid ss').
Proof.
  intros tbl ss s e ovg HS HC m. destruct (combine_data_sim tbl ss s e ovg HS HC) as [ss' [tbl' [E [R X]]]].
  exists ss', tbl'. unfold EditSubsetMode_update. rewrite E. split; [reflexivity|]. split; assumption.
Qed.

(* ---------- the hand model's ApplySubsetState.do in terms of hand_apply ---------- *)
Lemma hand_apply_cmd_do : forall e ov s,
  fst (cmd_do (Apply e ov) s) = hand_apply (match ov with Some m => m | None => smode s end) e s.
Proof.
  intros e ov s. rewrite cmd_do_apply. unfold hand_apply, creates, eff_mode.
  destruct (edit s) as [|x xs]; cbn [orb].
  - destruct ov; reflexivity.
  - destruct ov as [m|]; destruct (is_new _); reflexivity.
Qed.

(* with the default of ApplySubsetState.do: override_mode None and nothing edited -> ReplaceMode *)
Lemma hand_apply_default : forall e (ovg : option mode_name) s,
  let ovg' := if (match ovg with Some _ => false | None => true end)
              then (if (Z.of_nat (length (edit s)) =? 0) then Some M_ReplaceMode else ovg) else ovg in
  hand_apply (match ovg' with Some x => emode_of x | None => smode s end) e s =
  fst (cmd_do (Apply e (option_map emode_of ovg)) s).
Proof.
  intros e ovg s. cbv zeta. rewrite hand_apply_cmd_do. destruct ovg as [x|]; cbn [option_map]; [reflexivity|].
  unfold hand_apply. destruct (edit s) as [|y ys]; reflexivity.
Qed.
