(* C13 — everything Property.v uses: Lemmas1 (frames, Core through the session steps), Lemmas2 (undo after do, congruences),
   Lemmas3 (stack bounds, undo/redo inverse laws, history chain), Lemmas4 (history replay),
   Lemmas5 (the stack bookkeeping refines the text translated from command.py; StackProof.v holds that text's own laws). *)
From GV Require Export C13.Lemmas1 C13.Lemmas2 C13.Lemmas3 C13.Lemmas4 C13.StackProof C13.Lemmas5.
