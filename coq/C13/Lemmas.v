(* C13 — everything Property.v uses: Lemmas1 (frames, Core through the session steps), Lemmas2 (undo after do, congruences),
   Lemmas3 (stack bounds, undo/redo inverse laws, history chain), Lemmas4 (history replay),
   Lemmas5 (the stack bookkeeping refines the text translated from command.py; StackProof.v holds that text's own laws),
   GenEquiv1-3, GenEquiv (the commands translated from command.py / edit_subset_mode.py make the steps of the hand model; the theorems on them). *)
From GV Require Export C13.Lemmas1 C13.Lemmas2 C13.Lemmas3 C13.Lemmas4 C13.StackProof C13.Lemmas5
  C13.GenEquiv1 C13.GenEquiv2 C13.GenEquiv3 C13.GenEquiv.
