(* C13 — what the collection operations of C06 do to the fields the commands look at
   (coll, groups, group attributes, the two id counters), and Core preservation for the session steps. *)
From Coq Require Import ZArith List Bool Lia.
Import ListNotations.
From GV Require Import Common.Wire C06.Model C06.Lemmas1 C06.Lemmas2 C06.Lemmas3 C06.Lemmas gen.Gen_command C13.Model.
Open Scope Z_scope.

Lemma fold_proj : forall (A B : Type) (proj : state -> A) (f : state -> B -> state) (l : list B) (st : state),
  (forall st x, proj (f st x) = proj st) -> proj (fold_left f l st) = proj st.
Proof.
  intros A B proj f l. induction l as [|x l IH]; intros st H; simpl.
  - reflexivity.
  - rewrite IH; [apply H | exact H].
Qed.

(* fields kept by every heap-only step *)
Record keeps (a b : state) : Prop := mkKeeps {
  k_coll : coll b = coll a;
  k_groups : groups b = groups a;
  k_gattrs : gattrs b = gattrs a;
  k_ndid : next_did b = next_did a;
  k_ngid : next_gid b = next_gid a
}.

Lemma keeps_refl : forall a, keeps a a.
Proof. intros; constructor; reflexivity. Qed.

Lemma keeps_trans : forall a b c, keeps a b -> keeps b c -> keeps a c.
Proof. intros a b c [A1 A2 A3 A4 A5] [B1 B2 B3 B4 B5]. constructor; congruence. Qed.

Lemma fold_keeps : forall (B : Type) (f : state -> B -> state) (l : list B) (st : state),
  (forall st x, keeps st (f st x)) -> keeps st (fold_left f l st).
Proof.
  intros B f l. induction l as [|x l IH]; intros st H; simpl.
  - apply keeps_refl.
  - eapply keeps_trans; [apply H | apply IH; exact H].
Qed.

Lemma keeps_gad : forall g d st, keeps st (group_add_data g d st).
Proof. intros; constructor; reflexivity. Qed.

Lemma keeps_sd : forall s d st, keeps st (subset_delete s d st).
Proof. intros; constructor; reflexivity. Qed.

Lemma keeps_grd : forall g d st, keeps st (group_remove_data g d st).
Proof.
  intros g d st. rewrite grd_unfold. apply fold_keeps. intros st' p. unfold grd_step.
  destruct (snd p =? d); [constructor; reflexivity | apply keeps_refl].
Qed.

(* ---------- append / remove ---------- *)
Lemma append_noop : forall d b, memz d (coll b) = true \/ known_data d b = false -> do_append d b = b.
Proof.
  intros d b H. unfold do_append. destruct (memz d (coll b)); [reflexivity|].
  destruct H as [H | H]; [discriminate|]. rewrite H. reflexivity.
Qed.

Lemma append_effect : forall d b, memz d (coll b) = false -> known_data d b = true ->
  let b' := do_append d b in
  coll b' = coll b ++ [d] /\ groups b' = groups b /\ gattrs b' = gattrs b /\ next_did b' = next_did b /\ next_gid b' = next_gid b.
Proof.
  intros d b Hm Hk. unfold do_append. rewrite Hm, Hk. simpl.
  set (st1 := set_rdata _ _).
  pose proof (fold_keeps Z (fun st g => group_add_data g d st) (groups b) st1 (fun st x => keeps_gad x d st)) as [K1 K2 K3 K4 K5].
  repeat split; assumption.
Qed.

Lemma append_frame : forall d b,
  let b' := do_append d b in
  groups b' = groups b /\ gattrs b' = gattrs b /\ next_did b' = next_did b /\ next_gid b' = next_gid b.
Proof.
  intros d b. cbv zeta. destruct (memz d (coll b)) eqn:Hm.
  - rewrite append_noop; [repeat split | left; exact Hm].
  - destruct (known_data d b) eqn:Hk.
    + destruct (append_effect d b Hm Hk) as [_ H]. exact H.
    + rewrite append_noop; [repeat split | right; exact Hk].
Qed.

Lemma remove_noop : forall d b, memz d (coll b) = false -> do_remove d b = b.
Proof. intros d b H. unfold do_remove. rewrite H. reflexivity. Qed.

Lemma remove_effect : forall d b, memz d (coll b) = true ->
  let b' := do_remove d b in
  coll b' = removez d (coll b) /\ groups b' = groups b /\ gattrs b' = gattrs b /\ next_did b' = next_did b /\ next_gid b' = next_gid b.
Proof.
  intros d b Hm. unfold do_remove. rewrite Hm. simpl.
  set (st1 := set_rdata _ _).
  pose proof (fold_keeps Z (fun st g => group_remove_data g d st) (groups b) st1 (fun st x => keeps_grd x d st)) as [K1 K2 K3 K4 K5].
  repeat split; assumption.
Qed.

Lemma remove_frame : forall d b,
  let b' := do_remove d b in
  groups b' = groups b /\ gattrs b' = gattrs b /\ next_did b' = next_did b /\ next_gid b' = next_gid b.
Proof.
  intros d b. cbv zeta. destruct (memz d (coll b)) eqn:Hm.
  - destruct (remove_effect d b Hm) as [_ H]. exact H.
  - rewrite remove_noop; [repeat split | exact Hm].
Qed.

Lemma filter_all_in : forall (A : Type) (p : A -> bool) (l : list A), (forall x, In x l -> p x = true) -> filter p l = l.
Proof.
  intros A p l. induction l as [|a l IH]; simpl; intros H.
  - reflexivity.
  - rewrite (H a (or_introl eq_refl)). rewrite IH; [reflexivity|]. intros x Hx. apply H. right. exact Hx.
Qed.

Lemma removez_notin : forall x l, ~ In x l -> removez x l = l.
Proof.
  intros x l H. unfold removez. apply filter_all_in. intros y Hy. apply negb_true_iff. apply Z.eqb_neq.
  intros Heq. subst. exact (H Hy).
Qed.

Lemma removez_app_single : forall x l, ~ In x l -> removez x (l ++ [x]) = l.
Proof.
  intros x l H. unfold removez. rewrite filter_app. simpl. rewrite Z.eqb_refl. simpl. rewrite app_nil_r.
  apply removez_notin. exact H.
Qed.

Lemma remove_coll : forall d b, coll (do_remove d b) = removez d (coll b).
Proof.
  intros d b. destruct (memz d (coll b)) eqn:Hm.
  - apply remove_effect. exact Hm.
  - rewrite remove_noop by exact Hm. symmetry. apply removez_notin. apply memz_false. exact Hm.
Qed.

(* ---------- new group / remove group ---------- *)
Lemma new_group_effect : forall e b,
  let b' := do_new_group e b in
  let g := next_gid b in
  coll b' = coll b /\ groups b' = groups b ++ [g] /\ next_did b' = next_did b /\ next_gid b' = g + 1 /\
  gstate b' g = match e with Some x => x | None => SEmpty end /\
  (forall g', g' <> g -> gattrs b' g' = gattrs b g').
Proof.
  intros e b. unfold do_new_group, group_register. cbv zeta.
  set (st1 := set_gattrs _ _).
  pose proof (fold_keeps Z (fun st d => group_add_data (next_gid b) d st) (coll st1) st1 (fun st x => keeps_gad (next_gid b) x st)) as [K1 K2 K3 K4 K5].
  split; [exact K1|]. split; [exact K2|]. split; [exact K4|]. split; [exact K5|].
  unfold gstate. rewrite K3. split.
  - simpl. rewrite upd_same. reflexivity.
  - intros g' Hne. simpl. rewrite upd_other by exact Hne. reflexivity.
Qed.

Lemma remove_group_effect : forall g b,
  let b' := do_remove_group g b in
  coll b' = coll b /\ groups b' = removez g (groups b) /\ gattrs b' = gattrs b /\ next_did b' = next_did b /\ next_gid b' = next_gid b.
Proof.
  intros g b. unfold do_remove_group. destruct (memz g (groups b)) eqn:Hm; simpl.
  - set (st1 := set_rgroups _ _).
    pose proof (fold_keeps (Z * Z) (fun st p => subset_delete (fst p) (snd p) st) (gsubs st1 g) st1
                           (fun st p => keeps_sd (fst p) (snd p) st)) as [K1 K2 K3 K4 K5].
    repeat split; assumption.
  - repeat split. symmetry. apply removez_notin. apply memz_false. exact Hm.
Qed.

(* ---------- group.subset_state = e ---------- *)
Lemma put_state_effect : forall g e b,
  let b' := put_state g e b in
  coll b' = coll b /\ groups b' = groups b /\ next_did b' = next_did b /\ next_gid b' = next_gid b /\
  gstate b' g = e /\ (forall g', g' <> g -> gattrs b' g' = gattrs b g').
Proof.
  intros g e b. unfold put_state, gstate. simpl. repeat split.
  - rewrite upd_same. reflexivity.
  - intros g' Hne. rewrite upd_other by exact Hne. reflexivity.
Qed.

Lemma core_put_state : forall g e b, Core b -> Core (put_state g e b).
Proof.
  intros g e b [H1 H2 H3 H4 H5 H6]. constructor; try assumption.
  eapply gcore_transport; [| | | | | exact H3]; reflexivity.
Qed.

Lemma core_fold : forall (B : Type) (f : state -> B -> state) (l : list B) (b : state),
  (forall b x, Core b -> Core (f b x)) -> Core b -> Core (fold_left f l b).
Proof.
  intros B f l. induction l as [|x l IH]; intros b H HC; simpl.
  - exact HC.
  - apply IH; [exact H | apply H; exact HC].
Qed.

(* ---------- ApplySubsetState.do in one equation ---------- *)
Definition eff_mode (ov : option emode) (s : sess) : emode :=
  match (match ov with
         | None => match edit s with [] => Some MReplace | _ => None end
         | Some m => Some m
         end) with
  | Some m => m
  | None => smode s
  end.

Definition apply_memo (s : sess) : memo :=
  mkMemo (map (fun g => (g, gstate (base s) g)) (groups (base s))) (edit s) false.

Definition creates (ov : option emode) (s : sess) : bool :=
  match edit s with [] => true | _ => false end || is_new (eff_mode ov s).

Definition combine_all (m : emode) (e : sexpr) (l : list Z) (b : state) : state :=
  fold_left (fun b g => put_state g (combine m e (gstate b g)) b) l b.

Lemma cmd_do_apply : forall e ov s,
  cmd_do (Apply e ov) s =
  if creates ov s
  then (set_edit [next_gid (base s)] (set_base (do_new_group (Some e) (base s)) s), apply_memo s)
  else (set_base (combine_all (eff_mode ov s) e (edit s) (base s)) s, apply_memo s).
Proof.
  intros e ov s. unfold cmd_do, creates, eff_mode, apply_memo, combine_all.
  destruct (edit s) as [|x xs]; [reflexivity|]. cbn [orb].
  destruct (is_new _); reflexivity.
Qed.

Definition drop_new_groups (keep : list Z) (b : state) : state :=
  fold_left (fun b g => if memz g keep then b else do_remove_group g b) (groups b) b.

Definition restore_states (ps : list (Z * sexpr)) (b : state) : state :=
  fold_left (fun b p => put_state (fst p) (snd p) b) ps b.

Lemma cmd_undo_apply : forall e ov mm s,
  cmd_undo (Apply e ov) mm s =
  set_edit (m_edit mm) (set_base (restore_states (m_groups mm) (drop_new_groups (map fst (m_groups mm)) (base s))) s).
Proof. intros. reflexivity. Qed.

(* ---------- the collection invariant of C06 survives every command, undo and redo ---------- *)
Lemma core_cmd_do : forall c s, Core (base s) -> Core (base (fst (cmd_do c s))).
Proof.
  intros c s HC. destruct c as [d | d | e ov].
  - simpl. apply core_append. exact HC.
  - simpl. apply core_remove. exact HC.
  - rewrite cmd_do_apply. destruct (creates ov s); simpl.
    + apply core_new_group. exact HC.
    + apply core_fold; [| exact HC]. intros b g Hb. apply core_put_state. exact Hb.
Qed.

Lemma core_cmd_undo : forall c mm s, Core (base s) -> Core (base (cmd_undo c mm s)).
Proof.
  intros c mm s HC. destruct c as [d | d | e ov].
  - simpl. destruct (m_flag mm); simpl; [apply core_remove|]; exact HC.
  - simpl. destruct (m_flag mm); simpl; [apply core_append|]; exact HC.
  - rewrite cmd_undo_apply. simpl.
    apply core_fold; [intros b p Hb; apply core_put_state; exact Hb|].
    apply core_fold; [| exact HC]. intros b g Hb. destruct (memz g _); [exact Hb | apply core_remove_group; exact Hb].
Qed.

Lemma cmd_do_stacks : forall c s, cmds (fst (cmd_do c s)) = cmds s /\ undone (fst (cmd_do c s)) = undone s.
Proof.
  intros c s. destruct c as [d | d | e ov]; try (split; reflexivity).
  rewrite cmd_do_apply. destruct (creates ov s); split; reflexivity.
Qed.

Lemma cmd_undo_stacks : forall c mm s, cmds (cmd_undo c mm s) = cmds s /\ undone (cmd_undo c mm s) = undone s.
Proof.
  intros c mm s. destruct c as [d | d | e ov]; simpl; try (destruct (m_flag mm)); split; reflexivity.
Qed.

Lemma core_sstep : forall s o, Core (base s) -> Core (base (sstep s o)).
Proof.
  intros s o HC. destruct o as [c | |]; simpl.
  - unfold stack_do. pose proof (core_cmd_do c s HC) as H. destruct (cmd_do c s) as [s1 mm]. simpl in *. exact H.
  - unfold stack_undo. destruct (cmds s) as [|[c mm] rest]; [exact HC|]. apply core_cmd_undo. exact HC.
  - unfold stack_redo. destruct (undone s) as [|[c mm] rest]; [exact HC|].
    pose proof (core_cmd_do c (set_undone rest s) HC) as H. destruct (cmd_do c (set_undone rest s)) as [s1 mm']. simpl in *. exact H.
Qed.

Lemma core_srun : forall ops s, Core (base s) -> Core (base (srun s ops)).
Proof.
  unfold srun. induction ops as [|o ops IH]; intros s HC; simpl; [exact HC|].
  apply IH. apply core_sstep. exact HC.
Qed.
