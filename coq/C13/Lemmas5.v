(* C13 — the stack bookkeeping of the hand model refines the Gallina text that tools/gen/gen_cmdstack.py regenerates
   from CommandStack.do / undo / redo on every run (gen/Gen_cmdstack.v; its own laws are in C13/StackProof.v).
   The model keeps the most recent command at the head, the translation (like the Python lists) at the end. *)
From Coq Require Import ZArith List Bool Lia.
Import ListNotations.
From GV Require Import Common.Wire Common.PyInt C06.Model gen.Gen_command gen.Gen_cmdstack
  C13.Model C13.Lemmas1 C13.StackProof.
Open Scope Z_scope.

Lemma keep_is_max_undo : Z.to_nat stack_keep = Z.to_nat MAX_UNDO /\ max_undo = MAX_UNDO.
Proof. split; vm_compute; reflexivity. Qed.

Opaque stack_keep max_undo MAX_UNDO.

Lemma rev_firstn_lastn : forall (A : Type) n (x : A) l, rev (firstn n (x :: l)) = lastn n (rev l ++ [x]).
Proof.
  intros A n x l. unfold lastn. rewrite rev_app_distr. simpl rev at 2. simpl app. rewrite rev_involutive. reflexivity.
Qed.

(* the two Python lists, as the translation sees them: opaque command codes, oldest first *)
Definition py_stacks (code : cmd -> Z) (s : sess) : list Z * list Z :=
  (rev (map (fun p => code (fst p)) (cmds s)), rev (map (fun p => code (fst p)) (undone s))).

Lemma stack_refines_generated : forall (code : cmd -> Z) (s : sess) (o : sop),
  let (pc, pu) := py_stacks code s in
  let (pc', pu') := py_stacks code (sstep s o) in
  match o with
  | Do c => cs_do pc pu (code c) = Ok (pc', pu', [EDo (code c)])
  | Undo => match cmds s with
            | [] => cs_undo pc pu = Err IndexError /\ sstep s o = s /\ sop_status s o = 3
            | (c, _) :: _ => cs_undo pc pu = Ok (pc', pu', [EUndo (code c)])
            end
  | Redo => match undone s with
            | [] => cs_redo pc pu = Err IndexError /\ sstep s o = s /\ sop_status s o = 3
            | (c, _) :: _ => cs_redo pc pu = Ok (pc', pu', [EDo (code c)])
            end
  end.
Proof.
  intros code s o. unfold py_stacks. destruct o as [c | |]; simpl sstep.
  - unfold stack_do. destruct (cmd_do c s) as [s1 mm]. simpl cmds. simpl undone.
    unfold cs_do. cbv zeta. rewrite <- firstn_map.
    change (map (fun p : cmd * memo => code (fst p)) ((c, mm) :: cmds s))
      with (code c :: map (fun p : cmd * memo => code (fst p)) (cmds s)).
    rewrite rev_firstn_lastn. destruct keep_is_max_undo as [Hk _]. rewrite Hk. reflexivity.
  - unfold stack_undo. destruct (cmds s) as [|[c mm] rest] eqn:Hc.
    + split; [reflexivity | split; [reflexivity | simpl; rewrite Hc; reflexivity]].
    + destruct (cmd_undo_stacks c mm (set_undone ((c, mm) :: undone s) (set_cmds rest s))) as [H1 H2].
      rewrite H1, H2. simpl. apply cs_undo_spec.
  - unfold stack_redo. destruct (undone s) as [|[c mm] rest] eqn:Hu.
    + split; [reflexivity | split; [reflexivity | simpl; rewrite Hu; reflexivity]].
    + pose proof (cmd_do_stacks c (set_undone rest s)) as [H1 H2].
      destruct (cmd_do c (set_undone rest s)) as [s1 mm']. simpl in *. rewrite H1, H2. simpl. apply cs_redo_spec.
Qed.

(* hence the bound proved on the translated text in StackProof.v is the bound of the model *)
Lemma generated_stack_bound : forall ops : list cs_op,
  let st := cs_run ops ([], []) in (length (fst st) + length (snd st) <= Z.to_nat MAX_UNDO)%nat.
Proof. intros ops. apply (cs_inv_reachable ops ([], []) cs_inv_init). Qed.
