(* C13 — definitions used by the statements of Property.v (no proofs here). *)
From Coq Require Import ZArith List Bool.
Import ListNotations.
From GV Require Import Common.Wire C06.Model C06.Lemmas gen.Gen_command C13.Model.
Open Scope Z_scope.

(* Chain l s: the session s looks exactly (same_obs: same datasets, same group ids, same selections, same edit choice)
   like the state in which the most recent command of l left it, that command having been run -- with the record it still
   carries for its undo -- on a state that looks exactly like the one the command below it left, and so on down the stack.
   `Core` is the inductive invariant of the data collection proved in C06 (it implies C06's `Inv`). *)
Inductive Chain : list (cmd * memo) -> sess -> Prop :=
| ch_nil : forall s, Chain [] s
| ch_cons : forall c mm rest sp s,
    Core (base sp) -> Chain rest sp -> snd (cmd_do c sp) = mm -> same_obs s (fst (cmd_do c sp)) ->
    Chain ((c, mm) :: rest) s.

Definition hist (s : sess) : Prop := Core (base s) /\ Chain (cmds s) s.

(* the commands that CommandStack.do's slice cuts off when c is pushed (oldest first) *)
Definition dropped (s : sess) (c : cmd) : list cmd :=
  rev (skipn (Z.to_nat stack_keep) (c :: map fst (cmds s))).

(* all commands cut off so far during a history (ghost: computed next to the run) *)
Fixpoint forgotten (s : sess) (ops : list sop) (acc : list cmd) : list cmd :=
  match ops with
  | [] => acc
  | o :: r => forgotten (sstep s o) r (match o with Do c => acc ++ dropped s c | _ => acc end)
  end.

