(* C13 — history_replay: the session after any do/undo/redo history looks (up to renaming of the groups that commands
   create) like the replay of the commands that are on the undo stack, preceded by the ones the bound has dropped. *)
From Coq Require Import ZArith List Bool Lia.
Import ListNotations.
From GV Require Import Common.Wire C06.Model C06.Lemmas1 C06.Lemmas2 C06.Lemmas3 C06.Lemmas gen.Gen_command
  C13.Model C13.Spec C13.Lemmas1 C13.Lemmas2 C13.Lemmas3.
Open Scope Z_scope.

(* ---------- how often a group occurs in the edit choice ---------- *)
Definition cnt (g : Z) (l : list Z) : nat := length (filter (Z.eqb g) l).

Lemma iter_shift : forall (A : Type) (f : A -> A) n x, Nat.iter n f (f x) = f (Nat.iter n f x).
Proof. intros A f n x. induction n as [|n IH]; simpl; [reflexivity | rewrite IH; reflexivity]. Qed.

Lemma combine_all_state : forall m e l b g,
  gstate (combine_all m e l b) g = Nat.iter (cnt g l) (combine m e) (gstate b g).
Proof.
  intros m e l. induction l as [|h t IH]; intros b g.
  - reflexivity.
  - change (combine_all m e (h :: t) b) with (combine_all m e t (put_state h (combine m e (gstate b h)) b)).
    rewrite IH. unfold cnt. simpl. destruct (g =? h) eqn:Hgh.
    + apply Z.eqb_eq in Hgh. subst h. rewrite put_same. simpl. apply iter_shift.
    + apply Z.eqb_neq in Hgh. rewrite put_other by exact Hgh. reflexivity.
Qed.

(* ---------- positions ---------- *)
Lemma pos_of_range : forall g l, -1 <= pos_of g l < Z.of_nat (length l) \/ (l = [] /\ pos_of g l = -1).
Proof.
  intros g l. induction l as [|x l IH].
  - right. split; reflexivity.
  - left. simpl pos_of. destruct (x =? g).
    + simpl length. lia.
    + simpl length. destruct IH as [IH | [Hl IH]].
      * destruct (pos_of g l <? 0) eqn:Hp; [lia|]. apply Z.ltb_ge in Hp. lia.
      * rewrite IH. simpl. lia.
Qed.

Lemma pos_of_lower : forall g l, -1 <= pos_of g l.
Proof. intros g l. destruct (pos_of_range g l) as [H | [_ H]]; lia. Qed.

Lemma pos_of_upper : forall g l, pos_of g l < Z.of_nat (length l) \/ l = [].
Proof. intros g l. destruct (pos_of_range g l) as [H | [H _]]; [left; lia | right; exact H]. Qed.

Lemma pos_of_in : forall g l, In g l -> 0 <= pos_of g l.
Proof.
  intros g l. induction l as [|x l IH]; simpl; intros H; [destruct H|].
  destruct (x =? g) eqn:Hx; [lia|].
  destruct H as [H | H]; [subst x; rewrite Z.eqb_refl in Hx; discriminate|].
  specialize (IH H). destruct (pos_of g l <? 0) eqn:Hp; [apply Z.ltb_lt in Hp; lia | lia].
Qed.

Lemma pos_of_prefix : forall g pre l, In g pre -> pos_of g (pre ++ l) = pos_of g pre.
Proof.
  intros g pre l. induction pre as [|x pre IH]; simpl; intros H; [destruct H|].
  destruct (x =? g) eqn:Hx; [reflexivity|].
  destruct H as [H | H]; [subst x; rewrite Z.eqb_refl in Hx; discriminate|].
  rewrite (IH H). reflexivity.
Qed.

Lemma pos_of_skip : forall g pre l, ~ In g pre ->
  pos_of g (pre ++ l) = if pos_of g l <? 0 then -1 else Z.of_nat (length pre) + pos_of g l.
Proof.
  intros g pre l. induction pre as [|x pre IH]; intros H.
  - simpl. destruct (pos_of g l <? 0) eqn:Hp; [|reflexivity].
    apply Z.ltb_lt in Hp. pose proof (pos_of_lower g l). lia.
  - simpl app. simpl pos_of. destruct (x =? g) eqn:Hx.
    + exfalso. apply H. left. apply Z.eqb_eq. exact Hx.
    + rewrite IH by (intros Hin; apply H; right; exact Hin).
      destruct (pos_of g l <? 0) eqn:Hp.
      * reflexivity.
      * apply Z.ltb_ge in Hp. simpl length.
        destruct (Z.of_nat (length pre) + pos_of g l <? 0) eqn:Hq; [apply Z.ltb_lt in Hq; lia | lia].
Qed.

(* in a duplicate-free list the position identifies the element *)
Lemma pos_eq_index : forall pre g suf g', NoDup (pre ++ g :: suf) ->
  (Z.of_nat (length pre) =? pos_of g' (pre ++ g :: suf)) = (g =? g').
Proof.
  intros pre g suf g' Hnd.
  assert (Hgpre : ~ In g pre).
  { intros Hin. apply NoDup_remove_2 in Hnd. apply Hnd. apply in_app_iff. left. exact Hin. }
  destruct (g =? g') eqn:Hgg.
  - apply Z.eqb_eq in Hgg. subst g'. rewrite pos_of_skip by exact Hgpre.
    simpl pos_of. rewrite Z.eqb_refl. simpl. apply Z.eqb_eq. lia.
  - apply Z.eqb_neq in Hgg. apply Z.eqb_neq.
    destruct (in_dec Z.eq_dec g' pre) as [Hin | Hnin].
    + rewrite pos_of_prefix by exact Hin.
      destruct (pos_of_upper g' pre) as [Hu | Hu]; [lia | subst pre; destruct Hin].
    + rewrite pos_of_skip by exact Hnin. simpl pos_of.
      assert (Hne : (g =? g') = false) by (apply Z.eqb_neq; exact Hgg). rewrite Hne.
      pose proof (pos_of_lower g' suf) as Hl.
      destruct (pos_of g' suf <? 0) eqn:Hp.
      * simpl. lia.
      * apply Z.ltb_ge in Hp.
        destruct (pos_of g' suf + 1 <? 0) eqn:Hq; [apply Z.ltb_lt in Hq; lia | lia].
Qed.

Lemma filter_map_len : forall (A B : Type) (f : A -> B) (p : B -> bool) (l : list A),
  length (filter p (map f l)) = length (filter (fun x => p (f x)) l).
Proof.
  intros A B f p l. induction l as [|a l IH]; simpl; [reflexivity|].
  destruct (p (f a)); simpl; rewrite IH; reflexivity.
Qed.

Lemma cnt_pos : forall pre g suf E, NoDup (pre ++ g :: suf) ->
  cnt (Z.of_nat (length pre)) (map (fun x => pos_of x (pre ++ g :: suf)) E) = cnt g E.
Proof.
  intros pre g suf E Hnd. unfold cnt. rewrite filter_map_len. f_equal.
  apply filter_ext. intros x. apply pos_eq_index. exact Hnd.
Qed.

(* ---------- the selections after a combine, as a function of positions only ---------- *)
Fixpoint upd_states (P : list Z) (F : sexpr -> sexpr) (off : Z) (sts : list sexpr) : list sexpr :=
  match sts with
  | [] => []
  | st :: r => Nat.iter (cnt off P) F st :: upd_states P F (off + 1) r
  end.

Lemma canon_combine_gen : forall m e E b suf pre,
  NoDup (pre ++ suf) ->
  map (gstate (combine_all m e E b)) suf =
  upd_states (map (fun x => pos_of x (pre ++ suf)) E) (combine m e) (Z.of_nat (length pre)) (map (gstate b) suf).
Proof.
  intros m e E b suf. induction suf as [|g suf IH]; intros pre Hnd.
  - reflexivity.
  - simpl map. simpl upd_states. f_equal.
    + rewrite combine_all_state. rewrite (cnt_pos pre g suf E Hnd). reflexivity.
    + specialize (IH (pre ++ [g])). rewrite <- app_assoc in IH. simpl in IH.
      rewrite IH by exact Hnd. rewrite app_length. simpl. f_equal. lia.
Qed.

Lemma canon_combine : forall m e E b G, NoDup G ->
  map (gstate (combine_all m e E b)) G =
  upd_states (map (fun x => pos_of x G) E) (combine m e) 0 (map (gstate b) G).
Proof. intros m e E b G H. apply (canon_combine_gen m e E b G [] H). Qed.

(* ---------- PC: a command run on two sessions that look the same up to renaming gives two such sessions ---------- *)
Lemma creates_congr_obs : forall ov a b, obs_eq a b ->
  creates ov a = creates ov b /\ eff_mode ov a = eff_mode ov b.
Proof.
  intros ov a b [H1 H2 H3 H4 H5]. unfold creates, eff_mode. rewrite H4.
  destruct (edit a) as [|x xs], (edit b) as [|y ys]; simpl in H3; try discriminate; split; reflexivity.
Qed.

Lemma gstate_map_frame : forall b b' l, gattrs b' = gattrs b -> map (gstate b') l = map (gstate b) l.
Proof. intros b b' l H. apply map_ext. intros g. apply gstate_of_gattrs. exact H. Qed.

Lemma do_congr_obs : forall c a b, obs_eq a b -> Core (base a) -> Core (base b) ->
  obs_eq (fst (cmd_do c a)) (fst (cmd_do c b)).
Proof.
  intros c a b Hab HCa HCb. pose proof Hab as [H1 H2 H3 H4 H5]. destruct c as [d | d | e ov].
  - (* AddData *)
    simpl.
    destruct (append_frame d (base a)) as [A2 [A3 [A4 A5]]]. destruct (append_frame d (base b)) as [B2 [B3 [B4 B5]]].
    assert (Hmem : memz d (coll (base a)) = memz d (coll (base b))) by (apply memz_ext; exact H1).
    assert (Hkn : known_data d (base a) = known_data d (base b)) by (unfold known_data; rewrite H5; reflexivity).
    constructor; simpl.
    + intros x. destruct (memz d (coll (base a))) eqn:Hm.
      * rewrite (append_noop d (base a)) by (left; exact Hm). rewrite (append_noop d (base b)) by (left; congruence). apply H1.
      * destruct (known_data d (base a)) eqn:Hk.
        -- destruct (append_effect d (base a) Hm Hk) as [E1 _].
           destruct (append_effect d (base b)) as [E2 _]; [congruence | congruence |].
           rewrite E1, E2. rewrite !in_app_iff. rewrite H1. reflexivity.
        -- rewrite (append_noop d (base a)) by (right; exact Hk). rewrite (append_noop d (base b)) by (right; congruence). apply H1.
    + rewrite A2, B2. rewrite (gstate_map_frame _ _ _ A3), (gstate_map_frame _ _ _ B3). exact H2.
    + rewrite A2, B2. exact H3.
    + exact H4.
    + congruence.
  - (* RemoveData *)
    simpl.
    destruct (remove_frame d (base a)) as [A2 [A3 [A4 A5]]]. destruct (remove_frame d (base b)) as [B2 [B3 [B4 B5]]].
    constructor; simpl.
    + intros x. rewrite !remove_coll. rewrite !removez_In. rewrite H1. reflexivity.
    + rewrite A2, B2. rewrite (gstate_map_frame _ _ _ A3), (gstate_map_frame _ _ _ B3). exact H2.
    + rewrite A2, B2. exact H3.
    + exact H4.
    + congruence.
  - rewrite !cmd_do_apply. destruct (creates_congr_obs ov a b Hab) as [Hcr Hem]. rewrite <- Hcr, <- Hem.
    assert (Hlen : length (groups (base a)) = length (groups (base b))).
    { rewrite <- (map_length (gstate (base a))), <- (map_length (gstate (base b))). rewrite H2. reflexivity. }
    destruct (creates ov a); cbn [fst].
    + destruct (new_group_effect (Some e) (base a)) as [A1 [A2 [A3 [A4 [A5 A6]]]]].
      destruct (new_group_effect (Some e) (base b)) as [B1 [B2 [B3 [B4 [B5 B6]]]]].
      assert (Hfa : ~ In (next_gid (base a)) (groups (base a))).
      { intros Hin. apply (gc_gid_fresh _ _ (c_g _ HCa)) in Hin. lia. }
      assert (Hfb : ~ In (next_gid (base b)) (groups (base b))).
      { intros Hin. apply (gc_gid_fresh _ _ (c_g _ HCb)) in Hin. lia. }
      assert (Hold : forall x (HC : Core x) , map (gstate (do_new_group (Some e) x)) (groups x) = map (gstate x) (groups x)).
      { intros x HCx. apply map_ext_in. intros g Hg.
        destruct (new_group_effect (Some e) x) as [_ [_ [_ [_ [_ X6]]]]].
        unfold gstate. rewrite X6; [reflexivity|]. intros Heq. subst g.
        apply (gc_gid_fresh _ _ (c_g _ HCx)) in Hg. lia. }
      constructor; simpl.
      * intros x. rewrite A1, B1. apply H1.
      * rewrite A2, B2. rewrite !map_app. simpl. rewrite A5, B5. rewrite (Hold _ HCa), (Hold _ HCb). rewrite H2. reflexivity.
      * rewrite A2, B2. rewrite (pos_of_app_fresh _ _ Hfa), (pos_of_app_fresh _ _ Hfb). rewrite Hlen. reflexivity.
      * exact H4.
      * rewrite A3, B3. exact H5.
    + destruct (combine_frame (eff_mode ov a) e (edit a) (base a)) as [A1 [A2 [A3 A4]]].
      destruct (combine_frame (eff_mode ov a) e (edit b) (base b)) as [B1 [B2 [B3 B4]]].
      constructor; simpl.
      * intros x. rewrite A1, B1. apply H1.
      * rewrite A2, B2. rewrite (canon_combine _ _ _ _ _ (c_groups _ HCa)), (canon_combine _ _ _ _ _ (c_groups _ HCb)).
        rewrite H2, H3. reflexivity.
      * rewrite A2, B2. exact H3.
      * exact H4.
      * congruence.
Qed.

(* ---------- replay ---------- *)
Lemma core_replay : forall cs s, Core (base s) -> Core (base (replay s cs)).
Proof.
  unfold replay. induction cs as [|c cs IH]; intros s H; simpl; [exact H|].
  apply IH. apply core_cmd_do. exact H.
Qed.

Lemma replay_congr : forall cs a b, obs_eq a b -> Core (base a) -> Core (base b) -> obs_eq (replay a cs) (replay b cs).
Proof.
  unfold replay. induction cs as [|c cs IH]; intros a b H HCa HCb; simpl; [exact H|].
  apply IH; [apply do_congr_obs; assumption | apply core_cmd_do; exact HCa | apply core_cmd_do; exact HCb].
Qed.

Lemma replay_app : forall s l1 l2, replay s (l1 ++ l2) = replay (replay s l1) l2.
Proof. intros. unfold replay. apply fold_left_app. Qed.

(* Chain with its bottom: the state below the oldest command still on the stack *)
Inductive ChainB (bot : sess) : list (cmd * memo) -> sess -> Prop :=
| cb_nil : forall s, same_obs s bot -> ChainB bot [] s
| cb_cons : forall c mm rest sp s,
    Core (base sp) -> ChainB bot rest sp -> snd (cmd_do c sp) = mm -> same_obs s (fst (cmd_do c sp)) ->
    ChainB bot ((c, mm) :: rest) s.

Lemma chainb_same_obs : forall bot l s s', ChainB bot l s -> same_obs s' s -> ChainB bot l s'.
Proof.
  intros bot l s s' H Hs. inversion H as [s0 Hb | c mm rest sp s0 HCp Hrest Hmm Hsame]; subst.
  - constructor. eapply same_obs_trans; eassumption.
  - apply (cb_cons bot c _ rest sp s'); [exact HCp | exact Hrest | reflexivity | eapply same_obs_trans; eassumption].
Qed.

Lemma chain_replay : forall bot l s, Core (base bot) -> ChainB bot l s ->
  obs_eq s (replay bot (rev (map fst l))).
Proof.
  intros bot l. induction l as [|[c mm] rest IH]; intros s HCb H.
  - inversion H; subst. simpl. apply same_obs_obs_eq. assumption.
  - inversion H as [| c' mm' rest' sp s0 HCp Hrest Hmm Hsame]; subst.
    simpl. rewrite replay_app. simpl.
    eapply obs_eq_trans; [apply same_obs_obs_eq; exact Hsame|].
    apply do_congr_obs; [apply IH; assumption | exact HCp | apply core_replay; exact HCb].
Qed.

Lemma map_skipn : forall (A B : Type) (f : A -> B) n (l : list A), map f (skipn n l) = skipn n (map f l).
Proof.
  intros A B f n. induction n as [|n IH]; intros l; [reflexivity|].
  destruct l as [|a l]; [reflexivity | simpl; apply IH].
Qed.

(* cutting the stack to its n most recent entries moves the bottom up by the commands that are cut off *)
Lemma chainb_firstn : forall bot l n s, Core (base bot) -> Core (base s) -> ChainB bot l s ->
  exists bot', Core (base bot') /\ ChainB bot' (firstn n l) s /\ obs_eq bot' (replay bot (rev (map fst (skipn n l)))).
Proof.
  intros bot l. induction l as [|[c mm] rest IH]; intros n s HCb HCs H.
  - exists bot. rewrite firstn_nil, skipn_nil. split; [exact HCb|]. split; [exact H|]. apply same_obs_obs_eq. apply same_obs_refl.
  - destruct n as [|n].
    + exists s. simpl firstn. simpl skipn. split; [exact HCs|]. split.
      * constructor. apply same_obs_refl.
      * apply chain_replay; assumption.
    + inversion H as [| c' mm' rest' sp s0 HCp Hrest Hmm Hsame]; subst.
      destruct (IH n sp HCb HCp Hrest) as [bot' [HC' [Hch Hobs]]].
      exists bot'. split; [exact HC'|]. split; [|exact Hobs].
      simpl. apply (cb_cons bot' c _ (firstn n rest) sp s); [exact HCp | exact Hch | reflexivity | exact Hsame].
Qed.

Definition histb (s0 s : sess) (fg : list cmd) : Prop :=
  Core (base s) /\ exists bot, Core (base bot) /\ obs_eq bot (replay s0 fg) /\ ChainB bot (cmds s) s.

Lemma histb_sstep : forall s0 s o fg, Core (base s0) -> histb s0 s fg ->
  histb s0 (sstep s o) (match o with Do c => fg ++ dropped s c | _ => fg end).
Proof.
  intros s0 s o fg HC0 [HC [bot [HCb [Hbot Hch]]]]. split; [apply core_sstep; exact HC|].
  destruct o as [c | |]; simpl.
  - pose proof (core_cmd_do c s HC) as HC1.
    unfold dropped, stack_do. destruct (cmd_do c s) as [s1 mm] eqn:E. simpl in *.
    assert (Hfull : ChainB bot ((c, mm) :: cmds s) (set_undone [] (set_cmds (firstn (Z.to_nat stack_keep) ((c, mm) :: cmds s)) s1))).
    { apply (cb_cons bot c mm (cmds s) s).
      - exact HC.
      - exact Hch.
      - rewrite E. reflexivity.
      - rewrite E. apply same_obs_fields; reflexivity. }
    destruct (chainb_firstn bot _ (Z.to_nat stack_keep)
                (set_undone [] (set_cmds (firstn (Z.to_nat stack_keep) ((c, mm) :: cmds s)) s1)) HCb HC1 Hfull)
      as [bot' [HC' [Hch' Hobs]]].
    exists bot'. split; [exact HC'|]. split; [|exact Hch'].
    rewrite replay_app. eapply obs_eq_trans; [exact Hobs|].
    rewrite map_skipn. simpl map.
    apply replay_congr; [exact Hbot | exact HCb | apply core_replay; exact HC0].
  - unfold stack_undo. destruct (cmds s) as [|[c mm] rest] eqn:Hc.
    + exists bot. rewrite Hc. split; [exact HCb|]. split; [exact Hbot | exact Hch].
    + destruct (cmd_undo_stacks c mm (set_undone ((c, mm) :: undone s) (set_cmds rest s))) as [H1 _].
      rewrite H1. simpl.
      inversion Hch as [| c' mm' rest' sp s' HCp Hrest Hmm Hsame]; subst.
      exists bot. split; [exact HCb|]. split; [exact Hbot|].
      eapply chainb_same_obs; [exact Hrest|].
      eapply same_obs_trans; [| apply (undo_do c sp HCp)].
      apply undo_congr. eapply same_obs_trans; [| exact Hsame]. apply same_obs_fields; reflexivity.
  - unfold stack_redo. destruct (undone s) as [|[c mm] rest] eqn:Hu.
    + exists bot. split; [exact HCb|]. split; [exact Hbot | exact Hch].
    + pose proof (cmd_do_stacks c (set_undone rest s)) as [H1 _].
      destruct (cmd_do c (set_undone rest s)) as [s1 mm'] eqn:E. simpl in *. rewrite H1. simpl.
      exists bot. split; [exact HCb|]. split; [exact Hbot|].
      apply (cb_cons bot c mm' (cmds s) (set_undone rest s)).
      * exact HC.
      * eapply chainb_same_obs; [exact Hch | apply same_obs_fields; reflexivity].
      * rewrite E. reflexivity.
      * rewrite E. apply same_obs_fields; reflexivity.
Qed.

Lemma histb_srun : forall ops s0 s fg, Core (base s0) -> histb s0 s fg -> histb s0 (srun s ops) (forgotten s ops fg).
Proof.
  unfold srun. induction ops as [|o ops IH]; intros s0 s fg HC0 H; simpl; [exact H|].
  apply IH; [exact HC0 | apply histb_sstep; assumption].
Qed.

(* the theorem: the session after any history looks -- up to the renaming of groups that obs_eq abstracts from -- like the
   replay, from the start state, of the commands the bound has cut off followed by the commands on the undo stack (oldest first) *)
Lemma history_replay : forall b ed m ops, Core b ->
  let s0 := start b ed m in
  let s := srun s0 ops in
  obs_eq s (replay s0 (forgotten s0 ops [] ++ rev (map fst (cmds s)))).
Proof.
  intros b ed m ops HC s0 s.
  assert (H0 : histb s0 s0 []).
  { split; [exact HC|]. exists s0. split; [exact HC|]. split.
    - apply same_obs_obs_eq. apply same_obs_refl.
    - constructor. apply same_obs_refl. }
  destruct (histb_srun ops s0 s0 [] HC H0) as [HCs [bot [HCb [Hbot Hch]]]]. fold s in HCs, Hch.
  rewrite replay_app.
  eapply obs_eq_trans; [apply chain_replay; eassumption|].
  apply replay_congr; [exact Hbot | exact HCb | apply core_replay; exact HC].
Qed.

(* nothing is cut off while the stack is not full *)
Lemma dropped_none : forall s c, (length (cmds s) < Z.to_nat stack_keep)%nat -> dropped s c = [].
Proof.
  intros s c H. unfold dropped. rewrite skipn_all2; [reflexivity|]. simpl. rewrite map_length. lia.
Qed.
