(* C13 — non-vacuity and sanity runs. *)
From Coq Require Import ZArith List Bool Lia.
Import ListNotations.
From GV Require Import Common.Wire C06.Model C06.Lemmas gen.Gen_command C13.Model C13.Spec C13.Lemmas.
Open Scope Z_scope.

(* one dataset in the collection, no group, nothing being edited: the situation of F-C13 *)
Definition b0 : state := run (init 2 7) [Append 0].
Definition s0 : sess := start b0 [] MReplace.

Example b0_core : Core b0.
Proof. apply core_run. apply core_init. Qed.

Definition sel : cmd := Apply (SLeaf 5) None.
Definition show (s : sess) := (coll (base s), groups (base s), map (gstate (base s)) (groups (base s)), map (dsubs (base s)) [0; 1],
                               edit s, length (cmds s), length (undone s)).

Eval vm_compute in show s0.
Eval vm_compute in show (srun s0 [Do sel]).
Eval vm_compute in show (srun s0 [Do sel; Undo]).
Eval vm_compute in show (srun s0 [Do sel; Undo; Redo]).
Eval vm_compute in show (srun s0 [Do sel; Do (Apply (SLeaf 12) (Some MAnd)); Do (RemoveData 0); Undo; Undo; Undo; Redo; Redo]).

(* the theorems' hypothesis is met by a non-trivial state and the conclusions are not empty:
   the selection creates a group (id 0), undo removes it and empties the edit choice, redo creates group 1 with the same selection *)
Example f_c13_repaired :
  let s1 := srun s0 [Do sel] in let s2 := srun s0 [Do sel; Undo] in let s3 := srun s0 [Do sel; Undo; Redo] in
  groups (base s1) = [0] /\ edit s1 = [0] /\ dsubs (base s1) 0 = [(0, 0)] /\
  groups (base s2) = [] /\ edit s2 = [] /\ dsubs (base s2) 0 = [] /\
  groups (base s3) = [1] /\ edit s3 = [1] /\ dsubs (base s3) 0 = [(1, 1)] /\ gstate (base s3) 1 = SLeaf 5.
Proof. vm_compute. intuition. Qed.

Example chain_nonempty : exists c mm rest, cmds (srun s0 [Do sel; Do (AddData 1)]) = (c, mm) :: rest.
Proof. eexists. eexists. eexists. vm_compute. reflexivity. Qed.

(* the stack bound is reached and not exceeded: stack_keep + 10 commands leave stack_keep of them *)
Example burst : length (cmds (srun s0 (repeat (Do (AddData 1)) (Z.to_nat stack_keep + 10)))) = Z.to_nat stack_keep.
Proof. vm_compute. reflexivity. Qed.

(* ---- F-C13, kept as a record of what the repaired code excludes ----
   the unrepaired undo of a selection: delete from the datasets the subsets that did not exist before, restore the old
   selections; the created group and the edit choice stay *)
Definition cmd_undo_old (mm : memo) (s : sess) : sess :=
  let keep := map fst (m_groups mm) in
  let b1 := fold_left (fun b d => fold_left (fun b p => if memz (snd p) keep then b else subset_delete (fst p) d b) (dsubs b d) b)
                      (coll (base s)) (base s) in
  set_base (fold_left (fun b p => put_state (fst p) (snd p) b) (m_groups mm) b1) s.

Example f_c13_witness :
  let (s1, mm) := cmd_do sel s0 in
  let s2 := cmd_undo_old mm s1 in
  groups (base s2) = [0] /\ edit s2 = [0] /\ dsubs (base s2) 0 = [] /\ ~ same_obs s2 s0.
Proof.
  vm_compute. repeat split; auto. intros [_ H _ _ _ _]. vm_compute in H. discriminate.
Qed.

(* history_replay's ghost list: stack_keep + 3 commands cut off the three oldest *)
Example forgotten_burst :
  forgotten s0 (Do sel :: Do (RemoveData 0) :: repeat (Do (AddData 1)) (Z.to_nat stack_keep + 1)) [] = [sel; RemoveData 0; AddData 1].
Proof. vm_compute. reflexivity. Qed.

(* ---------- the machine made of the commands translated from command.py / edit_subset_mode.py (gen/Gen_commands.v) ---------- *)
From GV Require Import gen.Gen_groups gen.Gen_combine gen.Gen_commands C06.GenEquiv.

(* the heap of the translated DataCollection with dataset 0 in it: the hypothesis `Sim` of the theorems is met *)
Definition gh0 : heap := bstep (ginit 2 7) (BAppend 0).
Example gh0_sim : Sim gh0.
Proof. apply bstep_sim. apply ginit_sim. Qed.

Definition gsel : gsop := GDo KApply (mk_apply (SLeaf 5) None).
Definition gand : gsop := GDo KRoi (mk_apply (SLeaf 12) (Some M_AndMode)).
Definition gs0 : gsess := gstart gh0 (fun _ => SEmpty) [] M_ReplaceMode.
Definition gshow (r : gsess + Z) :=
  match r with
  | inl gs => Some (h_data (s_heap (g_ss gs)), h_groups (s_heap (g_ss gs)), map (s_gstate (g_ss gs)) (h_groups (s_heap (g_ss gs))),
                    h_dsubs (s_heap (g_ss gs)) 0, el_items (s_edit (g_ss gs)), length (g_cmds gs), length (g_undone gs))
  | inr _ => None
  end.

Example gen_ops_valid : Forall (valid_op (h_next_did gh0)) [gsel; gand; GDo KAdd (mk_add 1); GUndo; GUndo; GUndo; GRedo; GRedo].
Proof. repeat constructor; vm_compute; intuition discriminate. Qed.

(* the translated selection creates group 0 with one subset on dataset 0; the translated undo removes the group and empties
   the edit choice; redo creates group 1 with the same selection; and-ing into it and undoing twice, redoing once, ends there again *)
Example gen_machine_runs :
  gshow (gsrun gs0 [gsel]) = Some ([0], [0], [SLeaf 5], [(0, 0)], [0], 1%nat, 0%nat) /\
  gshow (gsrun gs0 [gsel; GUndo]) = Some ([0], [], [], [], [], 0%nat, 1%nat) /\
  gshow (gsrun gs0 [gsel; GUndo; GRedo]) = Some ([0], [1], [SLeaf 5], [(1, 1)], [1], 1%nat, 0%nat) /\
  gshow (gsrun gs0 [gsel; gand]) = Some ([0], [0], [SAnd (SLeaf 12) (SLeaf 5)], [(0, 0)], [0], 2%nat, 0%nat) /\
  gshow (gsrun gs0 [gsel; gand; GDo KAdd (mk_add 1); GUndo; GUndo; GUndo; GRedo; GRedo]) =
    Some ([0], [1], [SAnd (SLeaf 12) (SLeaf 5)], [(2, 1)], [1], 2%nat, 1%nat).
Proof. vm_compute. repeat split. Qed.

(* AddData of something that is not a dataset raises TypeError in the translated code (and only then: gen_refines_model) *)
Example gen_machine_raises : gsrun gs0 [gsel; GDo KAdd (mk_add 7)] = inr E_TypeError.
Proof. vm_compute. reflexivity. Qed.

(* the hand-model run the theorem relates it to shows the same *)
Example gen_hand_agree :
  let s := srun (start (run (init 2 7) [Append 0]) [] MReplace) (map sop_of [gsel; gand; GUndo]) in
  (coll (base s), groups (base s), map (gstate (base s)) (groups (base s)), edit s) = ([0], [0], [SLeaf 5], [0]).
Proof. vm_compute. reflexivity. Qed.
