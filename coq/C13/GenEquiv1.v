(* C13 — the TRANSLATED commands (coq/gen/Gen_commands.v) against the hand model: part 1.
   The relation between a generated session and a hand-model session, general facts, AddData / RemoveData. *)
From Coq Require Import ZArith List Bool Lia.
Import ListNotations.
From GV Require Import Common.Wire gen.Gen_groups gen.Gen_combine gen.Gen_commands C06.Model C06.Lemmas1 C06.Lemmas
  C06.GenEquiv1 C06.GenEquiv2 C06.GenEquiv C13.Model C13.Lemmas1.
Open Scope Z_scope.

(* ---------- changing selections only does not disturb the relation of C06 between heap and hand state ---------- *)
Lemma rel_set_gattrs : forall h st ga, Rel h st ->
  (forall g, g_label (ga g) = g_label (gattrs st g)) -> (forall g, g_style (ga g) = g_style (gattrs st g)) ->
  Rel h (set_gattrs ga st).
Proof.
  intros h st ga [Ha Hs Hp Hq Hl Hc] Hlab Hsty.
  pose proof (rel_fields _ _ Ha) as [Fc [Fg [Fd [Fgs [Fnd [Fng [Fns [Fsg Fnc]]]]]]]].
  constructor; try assumption.
  - unfold abs, set_gattrs. cbn [gattrs rdata rgroups]. rewrite Fc, Fg, Fd, Fgs, Fnd, Fng, Fns, Fsg, Fnc. reflexivity.
  - intros g. cbn [set_gattrs gattrs]. rewrite Hlab. apply Hl.
  - intros g. cbn [set_gattrs gattrs]. rewrite Hsty. apply Hc.
Qed.

Lemma rel_put_state : forall h st g e, Rel h st -> Rel h (put_state g e st).
Proof.
  intros h st g e HR. unfold put_state. apply rel_set_gattrs; [exact HR| |]; intros g'; unfold upd; destruct (g' =? g) eqn:E;
    try reflexivity; apply Z.eqb_eq in E; subst; reflexivity.
Qed.

(* group_add_data / group_register never read the attributes *)
Lemma gad_set_gattrs : forall g d ga st, group_add_data g d (set_gattrs ga st) = set_gattrs ga (group_add_data g d st).
Proof. intros. reflexivity. Qed.

Lemma register_set_gattrs : forall g ga l st,
  fold_left (fun st d => group_add_data g d st) l (set_gattrs ga st) = set_gattrs ga (fold_left (fun st d => group_add_data g d st) l st).
Proof.
  intros g ga l. induction l as [|d l IH]; intros st; simpl; [reflexivity|].
  rewrite gad_set_gattrs. apply IH.
Qed.

Lemma new_group_some : forall e st,
  do_new_group (Some e) st =
  set_gattrs (upd (gattrs st) (next_gid st) (mkGattr e (sg_count st + 1) (- 1 - (sg_count st mod ncolors st)))) (do_new_group None st).
Proof.
  intros e st. unfold do_new_group, group_register. cbv zeta.
  set (base1 := set_groups (groups st ++ [next_gid st]) (set_next_gid (next_gid st + 1) (set_sg_count (sg_count st + 1) st))).
  change (coll (set_gattrs ?x base1)) with (coll base1).
  rewrite !register_set_gattrs. reflexivity.
Qed.

Lemma rel_new_group : forall h st e, Rel h st -> Core st ->
  Rel (DataCollection_new_subset_group None None h) (do_new_group (Some e) st).
Proof.
  intros h st e HR HC. rewrite new_group_some.
  pose proof (new_group_rel h st HR HC) as HR'.
  pose proof (new_group_effect None st) as [_ [_ [_ [_ [_ Hoth]]]]].
  assert (Hg : gattrs (do_new_group None st) (next_gid st) = mkGattr SEmpty (sg_count st + 1) (- 1 - (sg_count st mod ncolors st))).
  { unfold do_new_group, group_register. cbv zeta.
    set (st1 := set_gattrs _ _).
    pose proof (fold_keeps Z (fun s d => group_add_data (next_gid st) d s) (coll st1) st1 (fun s x => keeps_gad (next_gid st) x s)) as [K1 K2 K3 K4 K5].
    rewrite K3. subst st1. cbn [set_gattrs gattrs]. rewrite upd_same. reflexivity. }
  apply rel_set_gattrs; [exact HR'| |]; intros g; unfold upd; destruct (g =? next_gid st) eqn:E.
  - apply Z.eqb_eq in E; subst g; rewrite Hg; reflexivity.
  - apply Z.eqb_neq in E. cbv zeta in Hoth. rewrite (Hoth g E). reflexivity.
  - apply Z.eqb_eq in E; subst g; rewrite Hg; reflexivity.
  - apply Z.eqb_neq in E. cbv zeta in Hoth. rewrite (Hoth g E). reflexivity.
Qed.

(* ---------- the relation between a generated session and a hand-model session ---------- *)
(* `tbl` gives the contents of every list object allocated so far: no list of the model is changed in place *)
Definition Known (tbl : Z -> list Z) (n : Z) (e : elist) : Prop := el_items e = tbl (el_id e) /\ el_id e < n.

Record SRel (tbl : Z -> list Z) (ss : gsession) (s : sess) : Prop := mkSRel {
  sr_heap : Rel (s_heap ss) (base s);
  sr_gstate : forall g, s_gstate ss g = gstate (base s) g;
  sr_edit : el_items (s_edit ss) = edit s;
  sr_mode : s_mode ss = mode_of (smode s);
  sr_dc : s_mode_dc ss = true;
  sr_known : Known tbl (s_next_lid ss) (s_edit ss)
}.

(* only the heap changes, the hand state changes in its `base` with the same attributes *)
Lemma srel_heap : forall tbl ss s h' b', SRel tbl ss s -> Rel h' b' -> gattrs b' = gattrs (base s) ->
  SRel tbl (set_heap h' ss) (set_base b' s).
Proof.
  intros tbl ss s h' b' [H1 H2 H3 H4 H5 H6] HR Hg. constructor; cbn [set_heap s_heap s_gstate s_edit s_mode s_mode_dc s_next_lid set_base base edit smode]; try assumption.
  intros g. rewrite H2. unfold gstate. rewrite Hg. reflexivity.
Qed.

Lemma gdict_mem_memz : forall (V : Type) g (d : list (Z * V)), gdict_mem g d = memz g (map fst d).
Proof.
  intros V g d. unfold gdict_mem, memz. induction d as [|p d IH]; simpl; [reflexivity|].
  rewrite IH. f_equal. apply Z.eqb_sym.
Qed.

Lemma contains_eq : forall tbl ss s d, SRel tbl ss s -> DataCollection_contains d ss = memz d (coll (base s)).
Proof.
  intros tbl ss s d HS. unfold DataCollection_contains. rewrite !orb_false_r, hmemz_memz.
  pose proof (rel_fields _ _ (rel_abs _ _ (sr_heap _ _ _ HS))) as [Fc _]. rewrite Fc. reflexivity.
Qed.

Lemma append_raised : forall d h e h', DataCollection_append d h = Raised e h' ->
  hmemz d (h_data h) = false /\ is_dataset d h = false /\ h' = h.
Proof.
  intros d h e h'. unfold DataCollection_append. destruct (hmemz d (h_data h)); [discriminate|].
  destruct (is_dataset d h); cbn [negb]; [cbv zeta; destruct (dc_has_hub _); discriminate|].
  intros H. inversion H. repeat split.
Qed.

Lemma is_dataset_known : forall tbl ss s d, SRel tbl ss s -> is_dataset d (s_heap ss) = known_data d (base s).
Proof.
  intros tbl ss s d HS. pose proof (rel_fields _ _ (rel_abs _ _ (sr_heap _ _ _ HS))) as [_ [_ [_ [_ [Fnd _]]]]].
  unfold is_dataset, known_data. rewrite Fnd. reflexivity.
Qed.

(* ---------- AddData ---------- *)
Lemma add_do_sim : forall tbl ss s c, SRel tbl ss s -> Core (base s) ->
  match AddData_do c ss with
  | CDone c' ss' => SRel tbl ss' (fst (cmd_do (AddData (c_data c)) s)) /\
                    c' = set_added (m_flag (snd (cmd_do (AddData (c_data c)) s))) c /\ s_next_lid ss' = s_next_lid ss
  | CRaised e c' ss' => memz (c_data c) (coll (base s)) = false /\ known_data (c_data c) (base s) = false
  end.
Proof.
  intros tbl ss s c HS HC. unfold AddData_do. cbn [cmd_do fst snd m_flag].
  rewrite (contains_eq tbl ss s _ HS). cbn [c_data set_added].
  pose proof (append_rel (s_heap ss) (base s) (c_data c) (sr_heap _ _ _ HS) HC) as HR.
  destruct (DataCollection_append (c_data c) (s_heap ss)) as [h_|e h_] eqn:E; cbn [heap_of] in HR.
  - split; [|split; reflexivity]. apply srel_heap; [exact HS | exact HR |].
    destruct (append_frame (c_data c) (base s)) as [_ [Hg _]]. exact Hg.
  - apply append_raised in E. destruct E as [E1 [E2 _]]. rewrite hmemz_memz in E1.
    pose proof (rel_fields _ _ (rel_abs _ _ (sr_heap _ _ _ HS))) as [Fc _]. rewrite Fc in E1.
    rewrite (is_dataset_known tbl ss s _ HS) in E2. split; assumption.
Qed.

Lemma add_undo_sim : forall tbl ss s c mm, SRel tbl ss s -> Core (base s) -> m_flag mm = c_added c ->
  let (c', ss') := AddData_undo c ss in
  SRel tbl ss' (cmd_undo (AddData (c_data c)) mm s) /\ c' = c /\ s_next_lid ss' = s_next_lid ss.
Proof.
  intros tbl ss s c mm HS HC Hf. unfold AddData_undo. cbn [cmd_undo]. rewrite Hf.
  destruct (c_added c).
  - split; [|split; reflexivity]. apply srel_heap; [exact HS | apply remove_rel; [exact (sr_heap _ _ _ HS) | exact HC] |].
    destruct (remove_frame (c_data c) (base s)) as [_ [Hg _]]. exact Hg.
  - split; [exact HS | split; reflexivity].
Qed.

(* ---------- RemoveData ---------- *)
Lemma rem_do_sim : forall tbl ss s c, SRel tbl ss s -> Core (base s) ->
  let (c', ss') := RemoveData_do c ss in
  SRel tbl ss' (fst (cmd_do (RemoveData (c_data c)) s)) /\
  c' = set_removed (m_flag (snd (cmd_do (RemoveData (c_data c)) s))) c /\ s_next_lid ss' = s_next_lid ss.
Proof.
  intros tbl ss s c HS HC. unfold RemoveData_do. cbn [cmd_do fst snd m_flag].
  rewrite (contains_eq tbl ss s _ HS). cbn [c_data set_removed].
  split; [|split; reflexivity]. apply srel_heap; [exact HS | apply remove_rel; [exact (sr_heap _ _ _ HS) | exact HC] |].
  destruct (remove_frame (c_data c) (base s)) as [_ [Hg _]]. exact Hg.
Qed.

Lemma rem_undo_sim : forall tbl ss s c mm, SRel tbl ss s -> Core (base s) -> m_flag mm = c_removed c ->
  match RemoveData_undo c ss with
  | CDone c' ss' => SRel tbl ss' (cmd_undo (RemoveData (c_data c)) mm s) /\ c' = c /\ s_next_lid ss' = s_next_lid ss
  | CRaised e c' ss' => c_removed c = true /\ memz (c_data c) (coll (base s)) = false /\ known_data (c_data c) (base s) = false
  end.
Proof.
  intros tbl ss s c mm HS HC Hf. unfold RemoveData_undo. cbn [cmd_undo]. rewrite Hf.
  destruct (c_removed c); [|split; [exact HS | split; reflexivity]].
  pose proof (append_rel (s_heap ss) (base s) (c_data c) (sr_heap _ _ _ HS) HC) as HR.
  destruct (DataCollection_append (c_data c) (s_heap ss)) as [h_|e h_] eqn:E; cbn [heap_of] in HR.
  - split; [|split; reflexivity]. apply srel_heap; [exact HS | exact HR |].
    destruct (append_frame (c_data c) (base s)) as [_ [Hg _]]. exact Hg.
  - apply append_raised in E. destruct E as [E1 [E2 _]]. rewrite hmemz_memz in E1.
    pose proof (rel_fields _ _ (rel_abs _ _ (sr_heap _ _ _ HS))) as [Fc _]. rewrite Fc in E1.
    rewrite (is_dataset_known tbl ss s _ HS) in E2. repeat split; assumption.
Qed.
