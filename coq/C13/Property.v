(* C13 — undo restores the previous session state and redo restores the undone one.
   Statements only; the model is C13/Model.v (over C06/Model.v), `Chain` is in C13/Spec.v, `Core` (the inductive
   invariant of the data collection, which implies C06's `Inv`) is in C06/Lemmas.v; max_undo / stack_keep are
   regenerated from glue/core/command.py into gen/Gen_command.v on every check. *)
From Coq Require Import ZArith List Bool.
From GV Require Import C06.Model C06.Lemmas gen.Gen_command C13.Model C13.Spec C13.Lemmas C13.Examples.
Import ListNotations.
Open Scope Z_scope.

(* after any sequence of do / undo / redo the undo history holds at most MAX_UNDO commands; so do both stacks together *)
Theorem stack_bounds : forall b ed m ops,
  let s := srun (start b ed m) ops in
  (length (cmds s) <= Z.to_nat max_undo)%nat /\
  (length (cmds s) + length (undone s) <= Z.to_nat max_undo)%nat.
Proof. exact Lemmas.stack_bounds. Qed.
Print Assumptions stack_bounds.

(* a new command clears the redo history *)
Theorem do_clears_redo : forall c s, undone (stack_do c s) = [].
Proof. exact Lemmas.do_clears_redo. Qed.
Print Assumptions do_clears_redo.

(* undoing the command just executed gives back exactly the observable state it found: the same datasets, the same
   groups (same ids), the same selection for every group, the same edit choice -- for every command, in every state
   whose collection satisfies the C06 invariant (and that invariant still holds afterwards) *)
Theorem undo_inverts_do : forall c s, Core (base s) ->
  same_obs (stack_undo (stack_do c s)) s /\ Core (base (stack_undo (stack_do c s))).
Proof. exact Lemmas.undo_inverts_do. Qed.
Print Assumptions undo_inverts_do.

(* redoing it gives back the observable state it had produced, up to the identity of a group the command creates
   (obs_eq: datasets, selections in order, edit choice by position) *)
Theorem redo_inverts_undo : forall c s, Core (base s) ->
  obs_eq (stack_redo (stack_undo (stack_do c s))) (stack_do c s).
Proof. exact Lemmas.redo_inverts_undo. Qed.
Print Assumptions redo_inverts_undo.

(* any depth of interleaving: after ANY sequence of do / undo / redo (truncation of the stack included) the session
   is related to its undo stack by Chain, and the collection invariant of C06 holds *)
Theorem history_chain : forall b ed m ops, Core b ->
  let s := srun (start b ed m) ops in Core (base s) /\ Chain (cmds s) s.
Proof. exact Lemmas.history_chain. Qed.
Print Assumptions history_chain.

(* hence, after any history, the next undo leads to a state that looks exactly like the one the undone command had
   found when it was (last) executed *)
Theorem undo_after_history : forall b ed m ops c mm rest, Core b ->
  let s := srun (start b ed m) ops in
  cmds s = (c, mm) :: rest ->
  exists sp, Core (base sp) /\ Chain rest sp /\ snd (cmd_do c sp) = mm /\
             same_obs s (fst (cmd_do c sp)) /\ same_obs (stack_undo s) sp.
Proof. exact Lemmas.undo_after_history. Qed.
Print Assumptions undo_after_history.

(* the "undoing and redoing" part of C06: its property holds after every session history over a reachable collection *)
Theorem collection_invariant_through_history : forall pool ncol pre ed m ops,
  Inv (base (srun (start (run (init pool ncol) pre) ed m) ops)).
Proof. exact Lemmas.collection_invariant_through_history. Qed.
Print Assumptions collection_invariant_through_history.
