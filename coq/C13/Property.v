(* C13 — undo restores the previous session state and redo restores the undone one.
   Statements only; the model is C13/Model.v (over C06/Model.v), `Chain` is in C13/Spec.v, `Core` (the inductive
   invariant of the data collection, which implies C06's `Inv`) is in C06/Lemmas.v; max_undo / stack_keep are
   regenerated from glue/core/command.py into gen/Gen_command.v on every check. *)
From Coq Require Import ZArith List Bool.
From GV Require Import C06.Model C06.Lemmas gen.Gen_command gen.Gen_cmdstack C13.Model C13.Spec C13.Lemmas C13.Examples.
From GV Require Import Common.PyInt.
Import ListNotations.
Open Scope Z_scope.

(* after any sequence of do / undo / redo the undo history holds at most MAX_UNDO commands; so do both stacks together *)
Theorem stack_bounds : forall b ed m ops,
  let s := srun (start b ed m) ops in
  (length (cmds s) <= Z.to_nat max_undo)%nat /\
  (length (cmds s) + length (undone s) <= Z.to_nat max_undo)%nat.
Proof. exact Lemmas3.stack_bounds. Qed.
Print Assumptions stack_bounds.

(* a new command clears the redo history *)
Theorem do_clears_redo : forall c s, undone (stack_do c s) = [].
Proof. exact Lemmas3.do_clears_redo. Qed.
Print Assumptions do_clears_redo.

(* undoing the command just executed gives back exactly the observable state it found: the same datasets, the same
   groups (same ids), the same selection for every group, the same edit choice -- for every command, in every state
   whose collection satisfies the C06 invariant (and that invariant still holds afterwards) *)
Theorem undo_inverts_do : forall c s, Core (base s) ->
  same_obs (stack_undo (stack_do c s)) s /\ Core (base (stack_undo (stack_do c s))).
Proof. exact Lemmas3.undo_inverts_do. Qed.
Print Assumptions undo_inverts_do.

(* redoing it gives back the observable state it had produced, up to the identity of a group the command creates
   (obs_eq: datasets, selections in order, edit choice by position) *)
Theorem redo_inverts_undo : forall c s, Core (base s) ->
  obs_eq (stack_redo (stack_undo (stack_do c s))) (stack_do c s).
Proof. exact Lemmas3.redo_inverts_undo. Qed.
Print Assumptions redo_inverts_undo.

(* any depth of interleaving: after ANY sequence of do / undo / redo (truncation of the stack included) the session
   is related to its undo stack by Chain, and the collection invariant of C06 holds *)
Theorem history_chain : forall b ed m ops, Core b ->
  let s := srun (start b ed m) ops in Core (base s) /\ Chain (cmds s) s.
Proof. exact Lemmas3.history_chain. Qed.
Print Assumptions history_chain.

(* hence, after any history, the next undo leads to a state that looks exactly like the one the undone command had
   found when it was (last) executed *)
Theorem undo_after_history : forall b ed m ops c mm rest, Core b ->
  let s := srun (start b ed m) ops in
  cmds s = (c, mm) :: rest ->
  exists sp, Core (base sp) /\ Chain rest sp /\ snd (cmd_do c sp) = mm /\
             same_obs s (fst (cmd_do c sp)) /\ same_obs (stack_undo s) sp.
Proof. exact Lemmas3.undo_after_history. Qed.
Print Assumptions undo_after_history.

(* the session after any history looks -- up to the renaming of the groups that commands create, which obs_eq abstracts
   from -- like the replay, from the start state, of the commands that the bound has cut off (`forgotten`, computed next to
   the run: what CommandStack.do's slice drops at each do) followed by the commands on the undo stack, oldest first *)
Theorem history_replay : forall b ed m ops, Core b ->
  let s0 := start b ed m in
  let s := srun s0 ops in
  obs_eq s (replay s0 (forgotten s0 ops [] ++ rev (map fst (cmds s)))).
Proof. exact Lemmas4.history_replay. Qed.
Print Assumptions history_replay.

(* nothing is cut off by a do that finds fewer than stack_keep commands on the stack *)
Theorem dropped_none : forall s c, (length (cmds s) < Z.to_nat stack_keep)%nat -> dropped s c = [].
Proof. exact Lemmas4.dropped_none. Qed.
Print Assumptions dropped_none.

(* the stack bookkeeping of the model IS the text that is translated from CommandStack.do/undo/redo on every run
   (gen/Gen_cmdstack.v), read with the most recent command first: same stacks after every call, IndexError exactly on an
   empty stack, and the one method called on the command is `do` for do and redo, `undo` for undo *)
Theorem stack_refines_generated : forall (code : cmd -> Z) (s : sess) (o : sop),
  let (pc, pu) := py_stacks code s in
  let (pc', pu') := py_stacks code (sstep s o) in
  match o with
  | Do c => cs_do pc pu (code c) = Ok (pc', pu', [EDo (code c)])
  | Undo => match cmds s with
            | [] => cs_undo pc pu = Err IndexError /\ sstep s o = s /\ sop_status s o = 3
            | (c, _) :: _ => cs_undo pc pu = Ok (pc', pu', [EUndo (code c)])
            end
  | Redo => match undone s with
            | [] => cs_redo pc pu = Err IndexError /\ sstep s o = s /\ sop_status s o = 3
            | (c, _) :: _ => cs_redo pc pu = Ok (pc', pu', [EDo (code c)])
            end
  end.
Proof. exact Lemmas5.stack_refines_generated. Qed.
Print Assumptions stack_refines_generated.

(* and the translated text itself keeps both stacks together within MAX_UNDO for every call sequence (StackProof.v) *)
Theorem generated_stack_bound : forall ops : list cs_op,
  let st := cs_run ops ([], []) in (length (fst st) + length (snd st) <= Z.to_nat MAX_UNDO)%nat.
Proof. exact Lemmas5.generated_stack_bound. Qed.
Print Assumptions generated_stack_bound.

(* on the translated text: redo after undo, undo after redo and undo after do give back the same two stacks, calling
   exactly one method of exactly that command (StackProof.v) *)
Theorem generated_redo_after_undo : forall (cmds undone : list Z) (c : Z),
  cs_step (fst (cs_step (cmds ++ [c], undone) OpUndo)) OpRedo = ((cmds ++ [c], undone), [EDo c]).
Proof. exact StackProof.cs_redo_after_undo. Qed.
Print Assumptions generated_redo_after_undo.

Theorem generated_undo_after_redo : forall (cmds undone : list Z) (c : Z),
  cs_step (fst (cs_step (cmds, undone ++ [c]) OpRedo)) OpUndo = ((cmds, undone ++ [c]), [EUndo c]).
Proof. exact StackProof.cs_undo_after_redo. Qed.
Print Assumptions generated_undo_after_redo.

Theorem generated_undo_after_do : forall (cmds undone : list Z) (c : Z), (length cmds < Z.to_nat MAX_UNDO)%nat ->
  cs_step (fst (cs_step (cmds, undone) (OpDo c))) OpUndo = ((cmds, [c]), [EUndo c]).
Proof. exact StackProof.cs_undo_after_do. Qed.
Print Assumptions generated_undo_after_do.

(* the "undoing and redoing" part of C06: its property holds after every session history over a reachable collection *)
Theorem collection_invariant_through_history : forall pool ncol pre ed m ops,
  Inv (base (srun (start (run (init pool ncol) pre) ed m) ops)).
Proof. exact Lemmas3.collection_invariant_through_history. Qed.
Print Assumptions collection_invariant_through_history.
