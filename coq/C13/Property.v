(* C13 — undo restores the previous session state and redo restores the undone one.
   Statements only; the model is C13/Model.v (over C06/Model.v), `Chain` is in C13/Spec.v, `Core` (the inductive
   invariant of the data collection, which implies C06's `Inv`) is in C06/Lemmas.v; max_undo / stack_keep are
   regenerated from glue/core/command.py into gen/Gen_command.v on every check. *)
From Coq Require Import ZArith List Bool.
From GV Require Import gen.Gen_groups gen.Gen_combine gen.Gen_commands C06.Model C06.Lemmas C06.GenEquiv gen.Gen_command gen.Gen_cmdstack C13.Model C13.Spec C13.Lemmas C13.Examples.
From GV Require Import Common.PyInt.
Import ListNotations.
Open Scope Z_scope.

(* after any sequence of do / undo / redo the undo history holds at most MAX_UNDO commands; so do both stacks together *)
Theorem stack_bounds : forall b ed m ops,
  let s := srun (start b ed m) ops in
  (length (cmds s) <= Z.to_nat max_undo)%nat /\
  (length (cmds s) + length (undone s) <= Z.to_nat max_undo)%nat.
Proof. exact Lemmas3.stack_bounds. Qed.
Print Assumptions stack_bounds.

(* a new command clears the redo history *)
Theorem do_clears_redo : forall c s, undone (stack_do c s) = [].
Proof. exact Lemmas3.do_clears_redo. Qed.
Print Assumptions do_clears_redo.

(* undoing the command just executed gives back exactly the observable state it found: the same datasets, the same
   groups (same ids), the same selection for every group, the same edit choice -- for every command, in every state
   whose collection satisfies the C06 invariant (and that invariant still holds afterwards) *)
Theorem undo_inverts_do : forall c s, Core (base s) ->
  same_obs (stack_undo (stack_do c s)) s /\ Core (base (stack_undo (stack_do c s))).
Proof. exact Lemmas3.undo_inverts_do. Qed.
Print Assumptions undo_inverts_do.

(* redoing it gives back the observable state it had produced, up to the identity of a group the command creates
   (obs_eq: datasets, selections in order, edit choice by position) *)
Theorem redo_inverts_undo : forall c s, Core (base s) ->
  obs_eq (stack_redo (stack_undo (stack_do c s))) (stack_do c s).
Proof. exact Lemmas3.redo_inverts_undo. Qed.
Print Assumptions redo_inverts_undo.

(* any depth of interleaving: after ANY sequence of do / undo / redo (truncation of the stack included) the session
   is related to its undo stack by Chain, and the collection invariant of C06 holds *)
Theorem history_chain : forall b ed m ops, Core b ->
  let s := srun (start b ed m) ops in Core (base s) /\ Chain (cmds s) s.
Proof. exact Lemmas3.history_chain. Qed.
Print Assumptions history_chain.

(* hence, after any history, the next undo leads to a state that looks exactly like the one the undone command had
   found when it was (last) executed *)
Theorem undo_after_history : forall b ed m ops c mm rest, Core b ->
  let s := srun (start b ed m) ops in
  cmds s = (c, mm) :: rest ->
  exists sp, Core (base sp) /\ Chain rest sp /\ snd (cmd_do c sp) = mm /\
             same_obs s (fst (cmd_do c sp)) /\ same_obs (stack_undo s) sp.
Proof. exact Lemmas3.undo_after_history. Qed.
Print Assumptions undo_after_history.

(* the session after any history looks -- up to the renaming of the groups that commands create, which obs_eq abstracts
   from -- like the replay, from the start state, of the commands that the bound has cut off (`forgotten`, computed next to
   the run: what CommandStack.do's slice drops at each do) followed by the commands on the undo stack, oldest first *)
Theorem history_replay : forall b ed m ops, Core b ->
  let s0 := start b ed m in
  let s := srun s0 ops in
  obs_eq s (replay s0 (forgotten s0 ops [] ++ rev (map fst (cmds s)))).
Proof. exact Lemmas4.history_replay. Qed.
Print Assumptions history_replay.

(* nothing is cut off by a do that finds fewer than stack_keep commands on the stack *)
Theorem dropped_none : forall s c, (length (cmds s) < Z.to_nat stack_keep)%nat -> dropped s c = [].
Proof. exact Lemmas4.dropped_none. Qed.
Print Assumptions dropped_none.

(* the stack bookkeeping of the model IS the text that is translated from CommandStack.do/undo/redo on every run
   (gen/Gen_cmdstack.v), read with the most recent command first: same stacks after every call, IndexError exactly on an
   empty stack, and the one method called on the command is `do` for do and redo, `undo` for undo *)
Theorem stack_refines_generated : forall (code : cmd -> Z) (s : sess) (o : sop),
  let (pc, pu) := py_stacks code s in
  let (pc', pu') := py_stacks code (sstep s o) in
  match o with
  | Do c => cs_do pc pu (code c) = Ok (pc', pu', [EDo (code c)])
  | Undo => match cmds s with
            | [] => cs_undo pc pu = Err IndexError /\ sstep s o = s /\ sop_status s o = 3
            | (c, _) :: _ => cs_undo pc pu = Ok (pc', pu', [EUndo (code c)])
            end
  | Redo => match undone s with
            | [] => cs_redo pc pu = Err IndexError /\ sstep s o = s /\ sop_status s o = 3
            | (c, _) :: _ => cs_redo pc pu = Ok (pc', pu', [EDo (code c)])
            end
  end.
Proof. exact Lemmas5.stack_refines_generated. Qed.
Print Assumptions stack_refines_generated.

(* and the translated text itself keeps both stacks together within MAX_UNDO for every call sequence (StackProof.v) *)
Theorem generated_stack_bound : forall ops : list cs_op,
  let st := cs_run ops ([], []) in (length (fst st) + length (snd st) <= Z.to_nat MAX_UNDO)%nat.
Proof. exact Lemmas5.generated_stack_bound. Qed.
Print Assumptions generated_stack_bound.

(* on the translated text: redo after undo, undo after redo and undo after do give back the same two stacks, calling
   exactly one method of exactly that command (StackProof.v) *)
Theorem generated_redo_after_undo : forall (cmds undone : list Z) (c : Z),
  cs_step (fst (cs_step (cmds ++ [c], undone) OpUndo)) OpRedo = ((cmds ++ [c], undone), [EDo c]).
Proof. exact StackProof.cs_redo_after_undo. Qed.
Print Assumptions generated_redo_after_undo.

Theorem generated_undo_after_redo : forall (cmds undone : list Z) (c : Z),
  cs_step (fst (cs_step (cmds, undone ++ [c]) OpRedo)) OpUndo = ((cmds, undone ++ [c]), [EUndo c]).
Proof. exact StackProof.cs_undo_after_redo. Qed.
Print Assumptions generated_undo_after_redo.

Theorem generated_undo_after_do : forall (cmds undone : list Z) (c : Z), (length cmds < Z.to_nat MAX_UNDO)%nat ->
  cs_step (fst (cs_step (cmds, undone) (OpDo c))) OpUndo = ((cmds, [c]), [EUndo c]).
Proof. exact StackProof.cs_undo_after_do. Qed.
Print Assumptions generated_undo_after_do.

(* the "undoing and redoing" part of C06: its property holds after every session history over a reachable collection *)
Theorem collection_invariant_through_history : forall pool ncol pre ed m ops,
  Inv (base (srun (start (run (init pool ncol) pre) ed m) ops)).
Proof. exact Lemmas3.collection_invariant_through_history. Qed.
Print Assumptions collection_invariant_through_history.

(* ===================== the commands themselves, translated from the source =====================
   gen/Gen_commands.v is regenerated on every check from glue/core/command.py (do/undo of AddData, RemoveData, ApplyROI,
   ApplySubsetState, _snapshot_subsets, _restore_subsets), glue/core/edit_subset_mode.py (EditSubsetMode.update,
   _combine_data, the edit_subset setter, _broadcast) and DataCollection.__contains__, statement by statement, over the heap of
   gen/Gen_groups.v (C06's translation of DataCollection / SubsetGroup) and the mode functions of gen/Gen_combine.v.
   gcmd_do / gcmd_undo dispatch to these functions; gstack_do / gstack_undo / gstack_redo / gsrun put them on the two stacks
   (C13/Model.v).  SRel / GRel (C13/GenEquiv1.v, GenEquiv.v): the generated session shows the same collection, groups,
   members, selections, edit choice and mode as the hand-model session, and the stacks hold the same commands, each command
   object carrying exactly the record the hand model's memo holds. *)

(* the mode functions of edit_subset_mode.py (as translated by gen_combine) are the hand model's `combine` *)
Theorem generated_modes_are_combine : forall m old e, mode_fn P13 (mode_of m) old e = combine m e old.
Proof. exact GenEquiv2.mode_fn_combine. Qed.
Print Assumptions generated_modes_are_combine.

(* do() of every translated command is the hand model's cmd_do: it does not raise when the dataset of an AddData exists, leaves
   a session related to the hand model's, and records on the command object what the hand model's memo holds *)
Theorem generated_do_refines_model : forall tbl N ss s k c,
  SRel tbl ss s -> Core (base s) -> next_did (base s) = N -> valid_cmd N k c ->
  exists c' ss' tbl', gcmd_do k c ss = CDone c' ss' /\
    SRel tbl' ss' (fst (cmd_do (cmd_of k c) s)) /\ Ext tbl (s_next_lid ss) tbl' (s_next_lid ss') /\
    crel tbl' (s_next_lid ss') N (k, c') (cmd_of k c, snd (cmd_do (cmd_of k c) s)).
Proof. exact GenEquiv.gcmd_do_sim. Qed.
Print Assumptions generated_do_refines_model.

(* undo() of every translated command that carries the record of its do() is the hand model's cmd_undo, and never raises *)
Theorem generated_undo_refines_model : forall tbl N ss s k c cm mm,
  SRel tbl ss s -> Core (base s) -> next_did (base s) = N -> crel tbl (s_next_lid ss) N (k, c) (cm, mm) ->
  exists ss', gcmd_undo k c ss = CDone c ss' /\ SRel tbl ss' (cmd_undo cm mm s) /\ s_next_lid ss' = s_next_lid ss.
Proof. exact GenEquiv.gcmd_undo_sim. Qed.
Print Assumptions generated_undo_refines_model.

(* from any heap the translated DataCollection can be in (C06: Sim), with any selections, edit choice and mode: the machine made
   of the translated commands never raises on a history whose AddData arguments exist, and stays related to the hand model run
   on the same history -- so every theorem above is a theorem about the translated code *)
Theorem generated_machine_refines_model : forall h gst ed m ops, Sim h -> Forall (valid_op (h_next_did h)) ops ->
  exists st gs tbl, Rel h st /\ Core st /\
    gsrun (gstart h gst ed m) ops = inl gs /\
    GRel tbl (h_next_did h) gs (srun (start (with_states gst st) ed (emode_of m)) (map sop_of ops)).
Proof. exact GenEquiv.gen_refines_model. Qed.
Print Assumptions generated_machine_refines_model.

(* the undo history of the translated machine never exceeds MAX_UNDO, nor do both stacks together *)
Theorem generated_stack_bounds : forall h gst ed m ops, Sim h -> Forall (valid_op (h_next_did h)) ops ->
  exists gs, gsrun (gstart h gst ed m) ops = inl gs /\
    (length (g_cmds gs) <= Z.to_nat max_undo)%nat /\ (length (g_cmds gs) + length (g_undone gs) <= Z.to_nat max_undo)%nat.
Proof. exact GenEquiv.gen_stack_bounds. Qed.
Print Assumptions generated_stack_bounds.

Theorem generated_do_clears_redo : forall k c gs gs', gstack_do k c gs = inl gs' -> g_undone gs' = [].
Proof. exact GenEquiv.gen_do_clears_redo. Qed.
Print Assumptions generated_do_clears_redo.

(* after ANY history of translated commands: executing a command and undoing it gives back exactly the observable state the
   command found (datasets, groups, selection of every group, edit choice, mode); redoing it gives back the state it had
   produced, up to the identity of a group the command creates *)
Theorem generated_undo_redo_after_history : forall h gst ed m ops gs k c, Sim h -> Forall (valid_op (h_next_did h)) ops ->
  gsrun (gstart h gst ed m) ops = inl gs -> valid_cmd (h_next_did h) k c ->
  exists gs1 gs2 gs3, gstack_do k c gs = inl gs1 /\ gstack_undo gs1 = inl gs2 /\ gstack_redo gs2 = inl gs3 /\
    g_same_obs (g_ss gs2) (g_ss gs) /\ g_obs_eq (g_ss gs3) (g_ss gs1).
Proof. exact GenEquiv.gen_undo_redo_after_history. Qed.
Print Assumptions generated_undo_redo_after_history.

(* any depth: at every point of every history with something to redo, redo followed by undo gives back exactly the observable state *)
Theorem generated_undo_inverts_redo_any_depth : forall h gst ed m ops gs, Sim h -> Forall (valid_op (h_next_did h)) ops ->
  gsrun (gstart h gst ed m) ops = inl gs -> g_undone gs <> [] ->
  exists gs1 gs2, gstack_redo gs = inl gs1 /\ gstack_undo gs1 = inl gs2 /\ g_same_obs (g_ss gs2) (g_ss gs).
Proof. exact GenEquiv.gen_undo_inverts_redo_any_depth. Qed.
Print Assumptions generated_undo_inverts_redo_any_depth.

(* the property of C06, on the heap of the translated DataCollection, after every history of translated commands *)
Theorem generated_collection_invariant : forall h gst ed m ops gs, Sim h -> Forall (valid_op (h_next_did h)) ops ->
  gsrun (gstart h gst ed m) ops = inl gs -> HInv (s_heap (g_ss gs)).
Proof. exact GenEquiv.gen_collection_invariant. Qed.
Print Assumptions generated_collection_invariant.

(* any depth, the other way round: at every point of every history with something to undo, undo followed by redo gives back the
   observable state, up to the identity of a group the redone command creates *)
Theorem generated_redo_inverts_undo_any_depth : forall h gst ed m ops gs, Sim h -> Forall (valid_op (h_next_did h)) ops ->
  gsrun (gstart h gst ed m) ops = inl gs -> g_cmds gs <> [] ->
  exists gs1 gs2, gstack_undo gs = inl gs1 /\ gstack_redo gs1 = inl gs2 /\ g_obs_eq (g_ss gs2) (g_ss gs).
Proof. exact GenEquiv.gen_redo_inverts_undo_any_depth. Qed.
Print Assumptions generated_redo_inverts_undo_any_depth.
