(* C13 — the theorems: stack bounds, undo inverts do, redo inverts undo, and the history invariant. *)
From Coq Require Import ZArith List Bool Lia.
Import ListNotations.
From GV Require Import Common.Wire C06.Model C06.Lemmas1 C06.Lemmas2 C06.Lemmas3 C06.Lemmas gen.Gen_command
  C13.Model C13.Spec C13.Lemmas1 C13.Lemmas2.
Open Scope Z_scope.

(* ---------- facts about the regenerated constants ---------- *)
Lemma keep_le_max : (Z.to_nat stack_keep <= Z.to_nat max_undo)%nat.
Proof. apply Nat.leb_le. vm_compute. reflexivity. Qed.

Lemma keep_pos : (0 < Z.to_nat stack_keep)%nat.
Proof. apply Nat.ltb_lt. vm_compute. reflexivity. Qed.

Global Opaque stack_keep max_undo.

(* ---------- stack bounds ---------- *)
Definition bounded (s : sess) : Prop := (length (cmds s) + length (undone s) <= Z.to_nat stack_keep)%nat.

Lemma bounded_sstep : forall s o, bounded s -> bounded (sstep s o).
Proof.
  intros s o Hb. unfold bounded in *. destruct o as [c | |]; simpl.
  - unfold stack_do. destruct (cmd_do c s) as [s1 mm]. simpl.
    rewrite Nat.add_0_r. apply firstn_le_length.
  - unfold stack_undo. destruct (cmds s) as [|[c mm] rest] eqn:Hc; [rewrite Hc; exact Hb|].
    destruct (cmd_undo_stacks c mm (set_undone ((c, mm) :: undone s) (set_cmds rest s))) as [H1 H2].
    rewrite H1, H2. simpl in *. lia.
  - unfold stack_redo. destruct (undone s) as [|[c mm] rest] eqn:Hu; [rewrite Hu; exact Hb|].
    pose proof (cmd_do_stacks c (set_undone rest s)) as [H1 H2].
    destruct (cmd_do c (set_undone rest s)) as [s1 mm']. simpl in *. rewrite H1, H2. simpl. lia.
Qed.

Lemma bounded_srun : forall ops s, bounded s -> bounded (srun s ops).
Proof.
  unfold srun. induction ops as [|o ops IH]; intros s H; simpl; [exact H|].
  apply IH. apply bounded_sstep. exact H.
Qed.

Lemma stack_bounds : forall b ed m ops,
  let s := srun (start b ed m) ops in
  (length (cmds s) <= Z.to_nat max_undo)%nat /\
  (length (cmds s) + length (undone s) <= Z.to_nat max_undo)%nat.
Proof.
  intros b ed m ops. cbv zeta.
  assert (H : bounded (srun (start b ed m) ops)).
  { apply bounded_srun. unfold bounded. simpl. lia. }
  unfold bounded in H. pose proof keep_le_max. lia.
Qed.

Lemma do_clears_redo : forall c s, undone (stack_do c s) = [].
Proof. intros c s. unfold stack_do. destruct (cmd_do c s) as [s1 mm]. reflexivity. Qed.

(* ---------- observational equalities ---------- *)
Lemma same_obs_obs_eq : forall a b, same_obs a b -> obs_eq a b.
Proof.
  intros a b [H1 H2 H3 H4 H5 H6]. constructor; try assumption.
  - rewrite <- H2. apply map_ext_in. exact H3.
  - rewrite H4, H2. reflexivity.
Qed.

Lemma obs_eq_fields : forall a a', base a' = base a -> edit a' = edit a -> smode a' = smode a ->
  forall b, obs_eq a b -> obs_eq a' b.
Proof.
  intros a a' Hb He Hm b [H1 H2 H3 H4 H5]. constructor; rewrite ?Hb, ?He, ?Hm; assumption.
Qed.

Lemma obs_eq_sym : forall a b, obs_eq a b -> obs_eq b a.
Proof.
  intros a b [H1 H2 H3 H4 H5]. constructor; try (symmetry; assumption).
  intros d. symmetry. apply H1.
Qed.

Lemma pos_of_nonneg_in : forall g l, 0 <= pos_of g l -> In g l.
Proof.
  intros g l. induction l as [|x l IH]; simpl; intros H.
  - lia.
  - destruct (x =? g) eqn:Hx.
    + left. apply Z.eqb_eq. exact Hx.
    + right. apply IH. destruct (pos_of g l <? 0) eqn:Hp; [lia|]. apply Z.ltb_ge in Hp. exact Hp.
Qed.

Lemma pos_of_notin : forall g l, ~ In g l -> pos_of g l = -1.
Proof.
  intros g l. induction l as [|x l IH]; simpl; intros H.
  - reflexivity.
  - destruct (x =? g) eqn:Hx.
    + exfalso. apply H. left. apply Z.eqb_eq. exact Hx.
    + rewrite IH by (intros Hin; apply H; right; exact Hin). reflexivity.
Qed.

Lemma pos_of_app_fresh : forall g l, ~ In g l -> pos_of g (l ++ [g]) = Z.of_nat (length l).
Proof.
  intros g l. induction l as [|x l IH]; simpl; intros H.
  - rewrite Z.eqb_refl. reflexivity.
  - destruct (x =? g) eqn:Hx.
    + exfalso. apply H. left. apply Z.eqb_eq. exact Hx.
    + rewrite IH by (intros Hin; apply H; right; exact Hin).
      destruct (Z.of_nat (length l) <? 0) eqn:Hp; [apply Z.ltb_lt in Hp; lia | lia].
Qed.

Lemma creates_congr : forall ov a b, edit a = edit b -> smode a = smode b -> creates ov a = creates ov b /\ eff_mode ov a = eff_mode ov b.
Proof. intros ov a b He Hm. unfold creates, eff_mode. rewrite He, Hm. split; reflexivity. Qed.

(* ---------- D: a command run on two states that look the same gives two states that look the same,
   up to the identity of the group it may create ---------- *)
Lemma do_congr : forall c a b, same_obs a b -> Core (base a) -> Core (base b) ->
  obs_eq (fst (cmd_do c a)) (fst (cmd_do c b)).
Proof.
  intros c a b Hab HCa HCb. pose proof Hab as [H1 H2 H3 H4 H5 H6]. destruct c as [d | d | e ov].
  - (* AddData: as undo of RemoveData *)
    apply same_obs_obs_eq.
    exact (undo_congr (RemoveData d) (mkMemo [] [] true) a b Hab).
  - apply same_obs_obs_eq.
    exact (undo_congr (AddData d) (mkMemo [] [] true) a b Hab).
  - rewrite !cmd_do_apply. destruct (creates_congr ov a b H4 H5) as [Hcr Hem]. rewrite <- Hcr, <- Hem.
    destruct (creates ov a); cbn [fst].
    + (* both create a group; its id may differ *)
      destruct (new_group_effect (Some e) (base a)) as [A1 [A2 [A3 [A4 [A5 A6]]]]].
      destruct (new_group_effect (Some e) (base b)) as [B1 [B2 [B3 [B4 [B5 B6]]]]].
      assert (Hfa : ~ In (next_gid (base a)) (groups (base a))).
      { intros Hin. apply (gc_gid_fresh _ _ (c_g _ HCa)) in Hin. lia. }
      assert (Hfb : ~ In (next_gid (base b)) (groups (base b))).
      { intros Hin. apply (gc_gid_fresh _ _ (c_g _ HCb)) in Hin. lia. }
      constructor; simpl.
      * intros x. rewrite A1, B1. apply H1.
      * rewrite A2, B2. rewrite !map_app. simpl. rewrite A5, B5. f_equal.
        rewrite <- H2. apply map_ext_in. intros g Hg.
        assert (Hga : g <> next_gid (base a)) by (intros Heq; subst g; exact (Hfa Hg)).
        assert (Hgb : g <> next_gid (base b)) by (intros Heq; subst g; rewrite H2 in Hg; exact (Hfb Hg)).
        unfold gstate. rewrite (A6 g Hga), (B6 g Hgb). apply H3. exact Hg.
      * rewrite A2, B2. rewrite (pos_of_app_fresh _ _ Hfa), (pos_of_app_fresh _ _ Hfb). rewrite H2. reflexivity.
      * exact H5.
      * rewrite A3, B3. exact H6.
    + (* both combine the same edited groups *)
      apply same_obs_obs_eq.
      destruct (combine_frame (eff_mode ov a) e (edit a) (base a)) as [A1 [A2 [A3 A4]]].
      destruct (combine_frame (eff_mode ov a) e (edit b) (base b)) as [B1 [B2 [B3 B4]]].
      apply same_obs_build; simpl; try assumption.
      * intros x. rewrite A1, B1. apply H1.
      * congruence.
      * intros g Hg. rewrite A2 in Hg. rewrite <- H4.
        apply (combine_congr _ _ _ _ _ (fun g => In g (groups (base a)))); [exact H3 | exact Hg].
      * congruence.
Qed.

(* ---------- undo inverts do, through the stack ---------- *)
Lemma firstn_cons_pos : forall (A : Type) n (x : A) l, (0 < n)%nat -> firstn n (x :: l) = x :: firstn (n - 1) l.
Proof. intros A n x l H. destruct n; [lia|]. simpl. rewrite Nat.sub_0_r. reflexivity. Qed.

Lemma stack_undo_do : forall c s,
  stack_undo (stack_do c s) =
  cmd_undo c (snd (cmd_do c s))
    (set_undone [(c, snd (cmd_do c s))]
       (set_cmds (firstn (Z.to_nat stack_keep - 1) (cmds s)) (fst (cmd_do c s)))).
Proof.
  intros c s. unfold stack_do. pose proof (cmd_do_stacks c s) as [Hc _].
  destruct (cmd_do c s) as [s1 mm]. simpl in *. unfold stack_undo. simpl.
  rewrite (firstn_cons_pos _ _ _ _ keep_pos). reflexivity.
Qed.

Lemma undo_inverts_do : forall c s, Core (base s) ->
  same_obs (stack_undo (stack_do c s)) s /\ Core (base (stack_undo (stack_do c s))).
Proof.
  intros c s HC. rewrite stack_undo_do. split.
  - eapply same_obs_trans; [| apply (undo_do c s HC)].
    apply undo_congr. apply same_obs_fields; reflexivity.
  - apply core_cmd_undo. simpl. apply core_cmd_do. exact HC.
Qed.

(* ---------- redo inverts undo ---------- *)
Lemma redo_inverts_undo : forall c s, Core (base s) ->
  obs_eq (stack_redo (stack_undo (stack_do c s))) (stack_do c s).
Proof.
  intros c s HC.
  pose proof (undo_inverts_do c s HC) as [Hsame Hcore].
  rewrite stack_undo_do in *.
  set (mm := snd (cmd_do c s)) in *.
  set (s2 := cmd_undo c mm _) in *.
  assert (Hund : undone s2 = [(c, mm)]).
  { unfold s2. destruct (cmd_undo_stacks c mm (set_undone [(c, mm)]
        (set_cmds (firstn (Z.to_nat stack_keep - 1) (cmds s)) (fst (cmd_do c s))))) as [_ H]. rewrite H. reflexivity. }
  unfold stack_redo. rewrite Hund.
  assert (Hs2' : same_obs (set_undone [] s2) s).
  { eapply same_obs_trans; [| exact Hsame]. apply same_obs_fields; reflexivity. }
  pose proof (do_congr c (set_undone [] s2) s Hs2' Hcore HC) as Hd.
  destruct (cmd_do c (set_undone [] s2)) as [s3 mm3] eqn:E3. cbn [fst] in Hd.
  unfold stack_do. destruct (cmd_do c s) as [s1 mm1] eqn:E1. cbn [fst] in Hd.
  eapply obs_eq_fields; [| | | apply obs_eq_sym; eapply obs_eq_fields; [| | | apply obs_eq_sym; exact Hd]]; reflexivity.
Qed.

(* ---------- the history invariant (Chain is defined in Spec.v) ---------- *)
Lemma chain_same_obs : forall l s s', Chain l s -> same_obs s' s -> Chain l s'.
Proof.
  intros l s s' H Hs. inversion H as [|c mm rest sp s0 HCp Hrest Hmm Hsame]; subst.
  - constructor.
  - apply (ch_cons c _ rest sp s'); [exact HCp | exact Hrest | reflexivity | eapply same_obs_trans; eassumption].
Qed.

Lemma chain_firstn : forall n l s, Chain l s -> Chain (firstn n l) s.
Proof.
  induction n as [|n IH]; intros l s H; simpl.
  - constructor.
  - inversion H as [|c mm rest sp s0 HCp Hrest Hmm Hsame]; subst; simpl.
    + constructor.
    + apply (ch_cons c _ (firstn n rest) sp s); [exact HCp | apply IH; exact Hrest | reflexivity | exact Hsame].
Qed.

Lemma hist_sstep : forall s o, hist s -> hist (sstep s o).
Proof.
  intros s o [HC Hch]. split; [apply core_sstep; exact HC|].
  destruct o as [c | |]; simpl.
  - unfold stack_do. destruct (cmd_do c s) as [s1 mm] eqn:E. simpl.
    apply chain_firstn. apply (ch_cons c mm (cmds s) s).
    + exact HC.
    + exact Hch.
    + rewrite E. reflexivity.
    + rewrite E. apply same_obs_fields; reflexivity.
  - unfold stack_undo. destruct (cmds s) as [|[c mm] rest] eqn:Hc; [rewrite Hc; exact Hch|].
    destruct (cmd_undo_stacks c mm (set_undone ((c, mm) :: undone s) (set_cmds rest s))) as [H1 _].
    rewrite H1. simpl.
    inversion Hch as [|c' mm' rest' sp s' HCp Hrest Hmm Hsame]; subst.
    eapply chain_same_obs; [exact Hrest|].
    eapply same_obs_trans; [| apply (undo_do c sp HCp)].
    apply undo_congr. eapply same_obs_trans; [| exact Hsame]. apply same_obs_fields; reflexivity.
  - unfold stack_redo. destruct (undone s) as [|[c mm] rest] eqn:Hu; [exact Hch|].
    pose proof (cmd_do_stacks c (set_undone rest s)) as [H1 _].
    destruct (cmd_do c (set_undone rest s)) as [s1 mm'] eqn:E. simpl in *. rewrite H1. simpl.
    apply (ch_cons c mm' (cmds s) (set_undone rest s)).
    + exact HC.
    + eapply chain_same_obs; [exact Hch | apply same_obs_fields; reflexivity].
    + rewrite E. reflexivity.
    + rewrite E. apply same_obs_fields; reflexivity.
Qed.

Lemma hist_srun : forall ops s, hist s -> hist (srun s ops).
Proof.
  unfold srun. induction ops as [|o ops IH]; intros s H; simpl; [exact H|].
  apply IH. apply hist_sstep. exact H.
Qed.

Lemma history_chain : forall b ed m ops, Core b ->
  let s := srun (start b ed m) ops in Core (base s) /\ Chain (cmds s) s.
Proof.
  intros b ed m ops HC. apply hist_srun. split; [exact HC | constructor].
Qed.

(* what Chain gives for the next undo: after ANY history, an undo leads to a state that looks exactly like the one
   the undone command had found, whatever happened between its do and now *)
Lemma undo_after_history : forall b ed m ops c mm rest, Core b ->
  let s := srun (start b ed m) ops in
  cmds s = (c, mm) :: rest ->
  exists sp, Core (base sp) /\ Chain rest sp /\ snd (cmd_do c sp) = mm /\
             same_obs s (fst (cmd_do c sp)) /\ same_obs (stack_undo s) sp.
Proof.
  intros b ed m ops c mm rest HC s Hc.
  destruct (history_chain b ed m ops HC) as [HCs Hch]. fold s in HCs, Hch. rewrite Hc in Hch.
  inversion Hch as [|c' mm' rest' sp s' HCp Hrest Hmm Hsame]; subst.
  exists sp. split; [exact HCp|]. split; [exact Hrest|]. split; [reflexivity|]. split; [exact Hsame|].
  unfold stack_undo. rewrite Hc.
  eapply same_obs_trans; [| apply (undo_do c sp HCp)].
  apply undo_congr. eapply same_obs_trans; [| exact Hsame]. apply same_obs_fields; reflexivity.
Qed.

(* ---------- replay of the stack (no truncation yet): the commands on the stack, replayed from the start state ---------- *)
(* obs_eq is transitive *)
Lemma obs_eq_trans : forall a b c, obs_eq a b -> obs_eq b c -> obs_eq a c.
Proof.
  intros a b c [H1 H2 H3 H4 H5] [K1 K2 K3 K4 K5]. constructor; try congruence.
  intros d. rewrite H1. apply K1.
Qed.

Lemma collection_invariant_through_history : forall pool ncol pre ed m ops,
  Inv (base (srun (start (run (init pool ncol) pre) ed m) ops)).
Proof.
  intros. apply core_inv. apply core_srun. simpl. apply core_run. apply core_init.
Qed.
