(* C16 - a fixed-resolution buffer equals nearest-pixel resampling through the links; cache transparency.
   Executable model (definitions only) of glue/core/fixed_resolution_buffer.py:
     translate_pixel (pixel-to-pixel links), linspace/meshgrid sampling, np.round, validity, gather, fill,
     dropping of scalar-bound axes, ARRAY_CACHE / PIXEL_CACHE with the AnyScalar wildcard and the reset rule.

   Arrays over the sample grid are lists in row-major order of the grid (one entry per sample; unbroadcast /
   broadcast_to are value-preserving).  Positions are exact rationals. *)
From Coq Require Import ZArith QArith Qround List Bool.
Import ListNotations.
From GV Require Import Common.Wire.
Open Scope Q_scope.

(* ---------- how a pixel axis of the source is obtained in the frame of the reference ---------- *)
(* PixT j                 : pixel axis j of the reference itself;
   Lnk coef const args    : link._using (an affine function) applied to translated inputs;
   WorldT terms const ds  : a world coordinate of the reference: sum of c * (pixel axis j) over the listed non-zero terms + const,
                            reported with the dimensions ds (= dependent_axes(coords, axis), supplied; see wf_exprb);
   Guard c arg            : a link function that is only defined for inputs >= c (NaN or +-inf elsewhere: log, sqrt, 1/x).
   A position is an option: None = not a finite number (it propagates through every later link, as NaN does). *)
Inductive pexpr :=
  | PixT (j : nat)
  | Lnk (coef : list Q) (const : Q) (args : list pexpr)
  | WorldT (terms : list (nat * Q)) (const : Q) (ds : list nat)
  | Guard (c : Q) (arg : pexpr).

Fixpoint dotq (u v : list Q) : Q :=
  match u, v with a :: u', b :: v' => a * b + dotq u' v' | _, _ => 0 end.

Fixpoint sequence {A} (l : list (option A)) : option (list A) :=
  match l with
  | [] => Some []
  | None :: _ => None
  | Some a :: r => match sequence r with Some r' => Some (a :: r') | None => None end
  end.

Fixpoint eval (e : pexpr) (pos : nat -> Q) : option Q :=
  match e with
  | PixT j => Some (pos j)
  | Lnk coef const args =>
    match sequence (map (fun a => eval a pos) args) with
    | Some vs => Some (dotq coef vs + const)
    | None => None
    end
  | WorldT terms const _ => Some (fold_right (fun jc acc => snd jc * pos (fst jc) + acc) const terms)
  | Guard c arg =>
    match eval arg pos with
    | Some x => if Qle_bool c x then Some x else None
    | None => None
    end
  end.

(* sorted(set(...)) *)
Fixpoint insert_sorted (x : nat) (l : list nat) : list nat :=
  match l with
  | [] => [x]
  | y :: r => if (x <? y)%nat then x :: l else if (x =? y)%nat then l else y :: insert_sorted x r
  end.
Definition sort_set (l : list nat) : list nat := fold_right insert_sorted [] l.

(* the `dimensions` returned by translate_pixel *)
Fixpoint dims (e : pexpr) : list nat :=
  match e with
  | PixT j => [j]
  | Lnk _ _ args => sort_set (flat_map (fun a => dims a) args)
  | WorldT _ _ ds => ds
  | Guard _ arg => dims arg
  end.

Definition memn (i : nat) (l : list nat) : bool := existsb (Nat.eqb i) l.

(* the reported dimensions of a world coordinate contain every pixel axis it is computed from
   (for glue this is C15's dependent_axes_covers_forward) *)
Fixpoint wf_exprb (e : pexpr) : bool :=
  match e with
  | PixT _ => true
  | Lnk _ _ args => forallb (fun a => wf_exprb a) args
  | WorldT terms _ ds => forallb (fun jc : nat * Q => memn (fst jc) ds) terms
  | Guard _ arg => wf_exprb arg
  end.

(* ---------- bounds and the sample grid ---------- *)
Inductive bound := BScalar (v : Q) | BRange (lo hi : Q) (n : Z).

Definition norm_bound (b : bound) : bound :=
  match b with BScalar v => BScalar (Qred v) | BRange lo hi n => BRange (Qred lo) (Qred hi) n end.
Definition is_scalar (b : bound) : bool := match b with BScalar _ => true | BRange _ _ _ => false end.

(* np.linspace(lo, hi, n) ; a scalar gives one coordinate *)
Definition coords_of (b : bound) : list Q :=
  match b with
  | BScalar v => [v]
  | BRange lo hi n =>
    if (n =? 1)%Z then [lo]
    else map (fun k => lo + inject_Z (Z.of_nat k) * ((hi - lo) / inject_Z (n - 1))) (seq 0 (Z.to_nat n))
  end.

Definition grid_shape (bs : list bound) : list nat := map (fun b => length (coords_of b)) bs.
(* scalar-bound axes are dropped from the result *)
Definition oshape (bs : list bound) : list nat :=
  map (fun b => length (coords_of b)) (filter (fun b => negb (is_scalar b)) bs).

Fixpoint all_indices (sh : list nat) : list (list nat) :=
  match sh with
  | [] => [[]]
  | n :: r => flat_map (fun i => map (cons i) (all_indices r)) (seq 0 n)
  end.

(* coordinate of reference axis j at sample g *)
Definition pos_at (bs : list bound) (g : list nat) (j : nat) : Q :=
  nth (nth j g 0%nat) (coords_of (nth j bs (BScalar 0))) 0.

(* np.round: half to even *)
Definition round_half_even (q : Q) : Z :=
  let f := Qfloor q in
  match Qcompare (q - inject_Z f) (1 # 2) with
  | Lt => f
  | Gt => (f + 1)%Z
  | Eq => if Z.even f then f else (f + 1)%Z
  end.

(* what is computed (and cached in PIXEL_CACHE) for one pixel axis of the source *)
Record triple := mkTriple { tc : list Z; inval : list bool; tdims : list nat }.

(* a non-finite position is cast to the most negative integer by astype(int): invalid *)
Definition invalid_idx (size : nat) (k : option Z) : bool :=
  match k with Some z => (z <? 0)%Z || (z >=? Z.of_nat size)%Z | None => true end.
Definition clamp_idx (size : nat) (k : option Z) : Z :=
  match k with Some z => if invalid_idx size k then 0%Z else z | None => 0%Z end.

Definition axis_result (e : pexpr) (size : nat) (bs : list bound) : triple :=
  let raw := map (fun g => option_map round_half_even (eval e (pos_at bs g))) (all_indices (grid_shape bs)) in
  mkTriple (map (clamp_idx size) raw) (map (invalid_idx size) raw) (dims e).

(* ---------- datasets ---------- *)
Record dataset := mkData { dshape : list nat; dattrs : list (list Z); dmasks : list (list bool) }.
(* links s t = for every pixel axis of dataset s its expression in the frame of dataset t (None: not derivable) *)
Record world := mkWorld { datasets : list dataset; links : list (nat * nat * list (option pexpr)) }.

Definition get_data (W : world) (k : nat) : dataset := nth k (datasets W) (mkData [] [] []).
Definition get_links (W : world) (s t : nat) : list (option pexpr) :=
  match find (fun x => Nat.eqb (fst (fst x)) s && Nat.eqb (snd (fst x)) t) (links W) with
  | Some x => snd x
  | None => []
  end.

Inductive what := WNone | WAttr (k : nat) | WMask (k : nat) | WBoth (k m : nat).

Record request := mkReq { rs : nat; rt : nat; rbounds : list bound; rwhat : what; rbc : bool; rcache : option nat }.

(* value arrays: None = NaN; masks are Some 0 / Some 1 *)
Inductive outcome := OkArr (shape : list nat) (vals : list (option Z)) | Err (code : Z).
Definition E_Value : Z := 1%Z.
Definition E_IncompatibleAttribute : Z := 10%Z.
Definition E_IncompatibleData : Z := 11%Z.

Definition src_vals (d : dataset) (w : what) : list (option Z) :=
  match w with
  | WAttr k => map Some (nth k (dattrs d) [])
  | WMask k => map (fun b : bool => Some (if b then 1%Z else 0%Z)) (nth k (dmasks d) [])
  | _ => []
  end.
Definition fill (w : what) : option Z := match w with WMask _ => Some 0%Z | _ => None end.

Fixpoint flat_index (shape idx : list nat) : nat :=
  match shape, idx with
  | _ :: s', i :: i' => (i * fold_right Nat.mul 1 s' + flat_index s' i')%nat
  | _, _ => 0%nat
  end.

(* one pixel axis of the source in the frame of the reference; None = IncompatibleAttribute *)
Definition axis_of (W : world) (s t : nat) (i : nat) (bs : list bound) : option triple :=
  match nth_error (get_links W s t) i with
  | Some (Some e) => Some (axis_result e (nth i (dshape (get_data W s)) 0%nat) bs)
  | _ => None
  end.

Fixpoint mapM {A B} (f : A -> option B) (l : list A) : option (list B) :=
  match l with
  | [] => Some []
  | a :: r => match f a with
              | None => None
              | Some b => match mapM f r with None => None | Some bs => Some (b :: bs) end
              end
  end.

Definition ndim (W : world) (k : nat) : nat := length (dshape (get_data W k)).

(* broadcast check, gather, fill, drop the scalar axes *)
Definition assemble (W : world) (s t : nat) (w : what) (bc : bool) (bs : list bound) (axes : list triple) : outcome :=
  let dims_all := flat_map tdims axes in
  if negb (Nat.eqb s t) && negb bc &&
     existsb (fun i => negb (is_scalar (nth i bs (BScalar 0))) && negb (memn i dims_all)) (seq 0 (length bs))
  then Err E_IncompatibleData
  else
    let d := get_data W s in
    let npts := length (all_indices (grid_shape bs)) in
    OkArr (oshape bs)
          (map (fun p =>
                  if existsb (fun a => nth p (inval a) false) axes then fill w
                  else nth (flat_index (dshape d) (map (fun a => Z.to_nat (nth p (tc a) 0%Z)) axes)) (src_vals d w) (fill w))
               (seq 0 npts)).

Definition frb_core (W : world) (s t : nat) (w : what) (bc : bool) (bs : list bound) : outcome :=
  match mapM (fun i => axis_of W s t i bs) (seq 0 (ndim W s)) with
  | None => Err E_IncompatibleAttribute
  | Some axes => assemble W s t w bc bs axes
  end.

(* the argument checks made before anything else *)
Definition prechecks (W : world) (r : request) : option Z :=
  match rwhat r with
  | WNone | WBoth _ _ => Some E_Value
  | _ =>
    if existsb (fun b => match b with BRange _ _ n => (n <? 1)%Z | _ => false end) (rbounds r) then Some E_Value
    else if negb (Nat.eqb (length (rbounds r)) (ndim W (rt r))) then Some E_Value
    else None
  end.

(* compute_fixed_resolution_buffer without cache_id *)
Definition frb (W : world) (r : request) : outcome :=
  match prechecks W r with
  | Some e => Err e
  | None => frb_core W (rs r) (rt r) (rwhat r) (rbc r) (map norm_bound (rbounds r))
  end.

(* ---------- the caches ---------- *)
Inductive cbound := CAny | CB (b : bound).           (* AnyScalar() or the bound itself *)

Definition q_eqb (a b : Q) : bool := (Qnum a =? Qnum b)%Z && (Qden a =? Qden b)%positive.   (* on reduced fractions *)
Definition bound_eqb (b1 b2 : bound) : bool :=
  match b1, b2 with
  | BScalar a, BScalar b => q_eqb a b
  | BRange a b n, BRange a' b' n' => q_eqb a a' && q_eqb b b' && (n =? n')%Z
  | _, _ => false
  end.
Definition cb_match (c : cbound) (b : bound) : bool :=
  match c with CAny => is_scalar b | CB b0 => bound_eqb b0 b end.
Fixpoint cbs_match (cs : list cbound) (bs : list bound) : bool :=
  match cs, bs with
  | [], [] => true
  | c :: cs', b :: bs' => cb_match c b && cbs_match cs' bs'
  | _, _ => false
  end.

Fixpoint bfc_from (i : nat) (bs : list bound) (dimensions : list nat) : list cbound :=
  match bs with
  | [] => []
  | b :: r => (if negb (memn i dimensions) && is_scalar b then CAny else CB b) :: bfc_from (S i) r dimensions
  end.
Definition bounds_for_cache (bs : list bound) (dimensions : list nat) : list cbound := bfc_from 0 bs dimensions.

Definition what_eqb (a b : what) : bool :=
  match a, b with
  | WNone, WNone => true
  | WAttr k, WAttr k' => Nat.eqb k k'
  | WMask k, WMask k' => Nat.eqb k k'
  | WBoth k m, WBoth k' m' => Nat.eqb k k' && Nat.eqb m m'
  | _, _ => false
  end.

Record aentry := mkA { a_s : nat; a_cbs : list cbound; a_t : nat; a_w : what; a_bc : bool; a_shape : list nat; a_vals : list (option Z) }.
Record pentry := mkP { p_s : nat; p_t : nat; p_items : list (nat * (triple * list cbound)) }.
Definition cstate := nat -> option aentry * option pentry.
Definition empty_state : cstate := fun _ => (None, None).
Definition upd (st : cstate) (cid : nat) (v : option aentry * option pentry) : cstate :=
  fun k => if Nat.eqb k cid then v else st k.

Definition array_hit (ae : option aentry) (s t : nat) (w : what) (bc : bool) (bs : list bound) : option (list nat * list (option Z)) :=
  match ae with
  | Some a =>
    if Nat.eqb (a_s a) s && cbs_match (a_cbs a) bs && Nat.eqb (a_t a) t && what_eqb (a_w a) w && Bool.eqb (a_bc a) bc
    then Some (a_shape a, a_vals a) else None
  | None => None
  end.

Definition lookup_item (i : nat) (items : list (nat * (triple * list cbound))) : option (triple * list cbound) :=
  match find (fun it => Nat.eqb (fst it) i) items with Some it => Some (snd it) | None => None end.

Definition pixel_hit (pe : option pentry) (i : nat) (bs : list bound) : option triple :=
  match pe with
  | Some p => match lookup_item i (p_items p) with
              | Some (tr, cbs) => if cbs_match cbs bs then Some tr else None
              | None => None
              end
  | None => None
  end.

Definition pixel_store (pe : option pentry) (s t i : nat) (tr : triple) (cbs : list cbound) : option pentry :=
  match pe with
  | Some p => Some (mkP (p_s p) (p_t p) ((i, (tr, cbs)) :: p_items p))
  | None => Some (mkP s t [(i, (tr, cbs))])
  end.

(* the loop over the pixel axes of the source, reading and filling PIXEL_CACHE[cache_id];
   an underivable axis raises IncompatibleAttribute and leaves what was stored so far *)
Fixpoint pix_loop (W : world) (s t : nat) (bs : list bound) (ipixs : list nat) (pe : option pentry) (acc : list triple)
  : option (list triple) * option pentry :=
  match ipixs with
  | [] => (Some (rev acc), pe)
  | i :: rest =>
    match pixel_hit pe i bs with
    | Some tr => pix_loop W s t bs rest pe (tr :: acc)
    | None =>
      match axis_of W s t i bs with
      | None => (None, pe)
      | Some tr => pix_loop W s t bs rest (pixel_store pe s t i tr (bounds_for_cache bs (tdims tr))) (tr :: acc)
      end
    end
  end.

(* compute_fixed_resolution_buffer with its caches *)
Definition step (W : world) (st : cstate) (r : request) : outcome * cstate :=
  match prechecks W r with
  | Some e => (Err e, st)
  | None =>
    let bs := map norm_bound (rbounds r) in
    let s := rs r in let t := rt r in
    match rcache r with
    | None => (frb_core W s t (rwhat r) (rbc r) bs, st)
    | Some cid =>
      let ae := fst (st cid) in
      let pe := snd (st cid) in
      match array_hit ae s t (rwhat r) (rbc r) bs with
      | Some (sh, vals) => (OkArr sh vals, st)
      | None =>
        (* the pixel cache is reset when it was filled for another pair of datasets *)
        let pe1 := match pe with
                   | Some p => if Nat.eqb (p_s p) s && Nat.eqb (p_t p) t then Some p else None
                   | None => None
                   end in
        match pix_loop W s t bs (seq 0 (ndim W s)) pe1 [] with
        | (None, pe2) => (Err E_IncompatibleAttribute, upd st cid (ae, pe2))
        | (Some axes, pe2) =>
          match assemble W s t (rwhat r) (rbc r) bs axes with
          | Err e => (Err e, upd st cid (ae, pe2))
          | OkArr sh vals =>
            let cbs := bounds_for_cache bs (flat_map tdims axes) in
            (OkArr sh vals, upd st cid (Some (mkA s cbs t (rwhat r) (rbc r) sh vals), pe2))
          end
        end
      end
    end
  end.

Fixpoint run_cached (W : world) (st : cstate) (reqs : list request) : list outcome :=
  match reqs with
  | [] => []
  | r :: rest => let '(o, st') := step W st r in o :: run_cached W st' rest
  end.

(* ---------- the caller's objects: histories with in-place mutation (round 4) ----------
   compute_fixed_resolution_buffer receives OBJECTS: the `bounds` list and the subset state are the caller's, and the
   caller may re-use one object for many requests and change it in place between them.  A cache key is therefore either a
   private value (a snapshot taken when the entry is stored) or a reference to the caller's object, which is read again
   - with whatever it contains by then - every time the key is compared.
     heap      : the caller's bounds lists (address -> content) and subset-state objects (address -> which mask of the
                 source dataset the state selects at the moment);
     bkey      : the bounds part of a key: KVal = the list built by bounds_for_cache (fresh list of immutable items),
                 KRef a = the caller's list object a itself;
     wkey      : the attribute / selection part: WKVal = a value (target_cid.uuid is a string; or a snapshot of the
                 selection), WKRef a = the subset-state object a (compared by identity);
     policy    : which of the two an implementation stores.  glue_policy is compute_fixed_resolution_buffer as it is:
                 bounds_for_cache always builds a new list, the subset state is stored as the object. *)
Record heap := mkHeap { hb : nat -> list bound; hs : nat -> nat }.
Inductive bkey := KVal (cbs : list cbound) | KRef (a : nat).
Inductive wkey := WKVal (w : what) | WKRef (a : nat).
Inductive hwhat := HNone | HAttr (k : nat) | HState (a : nat) | HBoth (k a : nat).
Record hrequest := mkHReq { hr_s : nat; hr_t : nat; hr_b : nat; hr_w : hwhat; hr_bc : bool; hr_cache : option nat }.
Inductive hop :=
  | HSetBound (a i : nat) (b : bound)        (* bounds_a[i] = b *)
  | HSetAll (a : nat) (bs : list bound)      (* bounds_a[:] = bs *)
  | HSetState (a k : nat)                    (* the subset-state object a is changed in place and now selects mask k *)
  | HReq (r : hrequest).

Record policy := mkPol { pol_bref : list bound -> bool;     (* bounds -> is the caller's list itself kept as the key? *)
                         pol_sref : bool }.                 (* is the subset state kept as the object? *)
Definition glue_policy : policy := mkPol (fun _ => false) true.
Definition snapshot_policy : policy := mkPol (fun _ => false) false.
(* "if all the bounds are ranges the bounds can be used as they are" *)
Definition return_bounds_policy : policy := mkPol (fun bs => negb (existsb is_scalar bs)) true.

Definition resolve_what (H : heap) (w : hwhat) : what :=
  match w with HNone => WNone | HAttr k => WAttr k | HState a => WMask (hs H a) | HBoth k a => WBoth k (hs H a) end.
(* the request as a value: what the objects contain when the call is made *)
Definition resolve (H : heap) (r : hrequest) : request :=
  mkReq (hr_s r) (hr_t r) (hb H (hr_b r)) (resolve_what H (hr_w r)) (hr_bc r) (hr_cache r).

Fixpoint set_nth {A} (i : nat) (x : A) (l : list A) : list A :=
  match l, i with
  | [], _ => []
  | _ :: r, O => x :: r
  | y :: r, S i' => y :: set_nth i' x r
  end.
Definition set_bounds (H : heap) (a : nat) (bs : list bound) : heap :=
  mkHeap (fun x => if Nat.eqb x a then bs else hb H x) (hs H).
Definition set_state (H : heap) (a k : nat) : heap :=
  mkHeap (hb H) (fun x => if Nat.eqb x a then k else hs H x).

(* a stored key is read when it is compared *)
Definition deref_b (H : heap) (k : bkey) : list cbound :=
  match k with KVal cbs => cbs | KRef a => map CB (map norm_bound (hb H a)) end.
Definition mk_bkey (P : policy) (a : nat) (bs : list bound) (dimensions : list nat) : bkey :=
  if pol_bref P bs then KRef a else KVal (bounds_for_cache bs dimensions).
Definition mk_wkey (P : policy) (H : heap) (w : hwhat) : wkey :=
  match w with
  | HState a => if pol_sref P then WKRef a else WKVal (WMask (hs H a))
  | _ => WKVal (resolve_what H w)
  end.
Definition wkey_match (H : heap) (k : wkey) (w : hwhat) : bool :=
  match k with
  | WKVal w0 => what_eqb w0 (resolve_what H w)
  | WKRef a => match w with HState a' => Nat.eqb a a' | _ => false end
  end.

Record haentry := mkHA { ha_s : nat; ha_key : bkey; ha_t : nat; ha_w : wkey; ha_bc : bool; ha_shape : list nat; ha_vals : list (option Z) }.
Record hpentry := mkHP { hp_s : nat; hp_t : nat; hp_items : list (nat * (triple * bkey)) }.
Definition hcstate := nat -> option haentry * option hpentry.
Definition empty_hstate : hcstate := fun _ => (None, None).
Definition hupd (st : hcstate) (cid : nat) (v : option haentry * option hpentry) : hcstate :=
  fun k => if Nat.eqb k cid then v else st k.

Definition harray_hit (H : heap) (ae : option haentry) (s t : nat) (w : hwhat) (bc : bool) (bs : list bound) : option (list nat * list (option Z)) :=
  match ae with
  | Some a =>
    if Nat.eqb (ha_s a) s && cbs_match (deref_b H (ha_key a)) bs && Nat.eqb (ha_t a) t && wkey_match H (ha_w a) w && Bool.eqb (ha_bc a) bc
    then Some (ha_shape a, ha_vals a) else None
  | None => None
  end.

Definition hlookup_item (i : nat) (items : list (nat * (triple * bkey))) : option (triple * bkey) :=
  match find (fun it => Nat.eqb (fst it) i) items with Some it => Some (snd it) | None => None end.

Definition hpixel_hit (H : heap) (pe : option hpentry) (i : nat) (bs : list bound) : option triple :=
  match pe with
  | Some p => match hlookup_item i (hp_items p) with
              | Some (tr, k) => if cbs_match (deref_b H k) bs then Some tr else None
              | None => None
              end
  | None => None
  end.

Definition hpixel_store (pe : option hpentry) (s t i : nat) (tr : triple) (k : bkey) : option hpentry :=
  match pe with
  | Some p => Some (mkHP (hp_s p) (hp_t p) ((i, (tr, k)) :: hp_items p))
  | None => Some (mkHP s t [(i, (tr, k))])
  end.

Fixpoint hpix_loop (P : policy) (W : world) (H : heap) (s t a : nat) (bs : list bound) (ipixs : list nat) (pe : option hpentry) (acc : list triple)
  : option (list triple) * option hpentry :=
  match ipixs with
  | [] => (Some (rev acc), pe)
  | i :: rest =>
    match hpixel_hit H pe i bs with
    | Some tr => hpix_loop P W H s t a bs rest pe (tr :: acc)
    | None =>
      match axis_of W s t i bs with
      | None => (None, pe)
      | Some tr => hpix_loop P W H s t a bs rest (hpixel_store pe s t i tr (mk_bkey P a bs (tdims tr))) (tr :: acc)
      end
    end
  end.

(* compute_fixed_resolution_buffer called with the caller's objects; the heap does not change during the call *)
Definition hstep (P : policy) (W : world) (H : heap) (st : hcstate) (r : hrequest) : outcome * hcstate :=
  let q := resolve H r in
  match prechecks W q with
  | Some e => (Err e, st)
  | None =>
    let bs := map norm_bound (rbounds q) in
    let s := hr_s r in let t := hr_t r in
    match hr_cache r with
    | None => (frb_core W s t (rwhat q) (hr_bc r) bs, st)
    | Some cid =>
      let ae := fst (st cid) in
      let pe := snd (st cid) in
      match harray_hit H ae s t (hr_w r) (hr_bc r) bs with
      | Some (sh, vals) => (OkArr sh vals, st)
      | None =>
        let pe1 := match pe with
                   | Some p => if Nat.eqb (hp_s p) s && Nat.eqb (hp_t p) t then Some p else None
                   | None => None
                   end in
        match hpix_loop P W H s t (hr_b r) bs (seq 0 (ndim W s)) pe1 [] with
        | (None, pe2) => (Err E_IncompatibleAttribute, hupd st cid (ae, pe2))
        | (Some axes, pe2) =>
          match assemble W s t (rwhat q) (hr_bc r) bs axes with
          | Err e => (Err e, hupd st cid (ae, pe2))
          | OkArr sh vals =>
            let k := mk_bkey P (hr_b r) bs (flat_map tdims axes) in
            (OkArr sh vals, hupd st cid (Some (mkHA s k t (mk_wkey P H (hr_w r)) (hr_bc r) sh vals), pe2))
          end
        end
      end
    end
  end.

Definition apply_mut (H : heap) (o : hop) : heap :=
  match o with
  | HSetBound a i b => set_bounds H a (set_nth i b (hb H a))
  | HSetAll a bs => set_bounds H a bs
  | HSetState a k => set_state H a k
  | HReq _ => H
  end.

(* a history: in-place changes of the caller's objects interleaved with requests; the results of the requests *)
Fixpoint run_hist (P : policy) (W : world) (H : heap) (st : hcstate) (h : list hop) : list outcome :=
  match h with
  | [] => []
  | HReq r :: rest => let '(o, st') := hstep P W H st r in o :: run_hist P W H st' rest
  | o :: rest => run_hist P W (apply_mut H o) st rest
  end.
(* the same history through the function without cache_id *)
Fixpoint plain_hist (W : world) (H : heap) (h : list hop) : list outcome :=
  match h with
  | [] => []
  | HReq r :: rest => frb W (resolve H r) :: plain_hist W H rest
  | o :: rest => plain_hist W (apply_mut H o) rest
  end.

(* ---------- wire ---------- *)
Definition dec_q (t : tree) : Q :=
  match t with
  | T _ [T a _; T (Zpos d) _] => Qmake a d
  | T a [] => inject_Z a
  | _ => 0
  end.
Definition nat_of (t : tree) : nat := Z.to_nat (tag t).
Definition dec_nats (t : tree) : list nat := map nat_of (kids t).

Definition dec_term (t : tree) : nat * Q :=
  match t with T _ [T j _; q] => (Z.to_nat j, dec_q q) | _ => (0%nat, 0) end.

Fixpoint dec_expr (t : tree) : pexpr :=
  match t with
  | T 2 [cs; k; T _ args] => Lnk (map dec_q (kids cs)) (dec_q k) (map dec_expr args)
  | T 3 [ts; k; ds] => WorldT (map dec_term (kids ts)) (dec_q k) (map (fun d => Z.to_nat (tag d)) (kids ds))
  | T 4 [c; a] => Guard (dec_q c) (dec_expr a)
  | T _ (T j _ :: _) => PixT (Z.to_nat j)
  | T _ [] => PixT 0
  end.
Definition dec_oexpr (t : tree) : option pexpr :=
  match t with T 1 [e] => Some (dec_expr e) | _ => None end.
Definition dec_dataset (t : tree) : dataset :=
  match t with
  | T _ [sh; attrs; masks] => mkData (dec_nats sh) (map to_zs (kids attrs)) (map to_bools (kids masks))
  | _ => mkData [] [] []
  end.
Definition dec_link (t : tree) : nat * nat * list (option pexpr) :=
  match t with
  | T _ [s; t'; es] => (nat_of s, nat_of t', map dec_oexpr (kids es))
  | _ => (0%nat, 0%nat, [])
  end.
Definition dec_world (t : tree) : world :=
  match t with
  | T _ [ds; ls] => mkWorld (map dec_dataset (kids ds)) (map dec_link (kids ls))
  | _ => mkWorld [] []
  end.
Definition dec_bound (t : tree) : bound :=
  match t with
  | T 2 [lo; hi; T n _] => BRange (dec_q lo) (dec_q hi) n
  | T _ (v :: _) => BScalar (dec_q v)
  | _ => BScalar 0
  end.
Definition dec_what (t : tree) : what :=
  match t with
  | T 1 (k :: _) => WAttr (nat_of k)
  | T 2 (k :: _) => WMask (nat_of k)
  | T 3 (k :: m :: _) => WBoth (nat_of k) (nat_of m)
  | _ => WNone
  end.
Definition dec_req (t : tree) : request :=
  match t with
  | T _ [s; t'; bs; w; T bc _; c] =>
    mkReq (nat_of s) (nat_of t') (map dec_bound (kids bs)) (dec_what w) (negb (bc =? 0)%Z)
          (match c with T 1 (k :: _) => Some (nat_of k) | _ => None end)
  | _ => mkReq 0 0 [] WNone true None
  end.

Definition dec_hwhat (t : tree) : hwhat :=
  match t with
  | T 1 (k :: _) => HAttr (nat_of k)
  | T 2 (a :: _) => HState (nat_of a)
  | T 3 (k :: a :: _) => HBoth (nat_of k) (nat_of a)
  | _ => HNone
  end.
Definition dec_hreq (t : tree) : hrequest :=
  match t with
  | T _ [s; t'; b; w; T bc _; c] =>
    mkHReq (nat_of s) (nat_of t') (nat_of b) (dec_hwhat w) (negb (bc =? 0)%Z)
           (match c with T 1 (k :: _) => Some (nat_of k) | _ => None end)
  | _ => mkHReq 0 0 0 HNone true None
  end.
Definition dec_hop (t : tree) : hop :=
  match t with
  | T 1 [a; i; b] => HSetBound (nat_of a) (nat_of i) (dec_bound b)
  | T 2 [a; bs] => HSetAll (nat_of a) (map dec_bound (kids bs))
  | T 3 [a; k] => HSetState (nat_of a) (nat_of k)
  | T 4 [r] => HReq (dec_hreq r)
  | _ => HReq (mkHReq 0 0 0 HNone true None)
  end.
Definition dec_heap (t : tree) : heap :=
  match t with
  | T _ [bl; sl] =>
    let bls := map (fun x => map dec_bound (kids x)) (kids bl) in
    let sls := dec_nats sl in
    mkHeap (fun a => nth a bls []) (fun a => nth a sls 0%nat)
  | _ => mkHeap (fun _ => []) (fun _ => 0%nat)
  end.

Definition enc_val (v : option Z) : tree := match v with None => T 0 [] | Some z => T 1 [leaf z] end.
Definition enc_outcome (o : outcome) : tree :=
  match o with
  | OkArr sh vals => T 1 [zs (map Z.of_nat sh); T 0 (map enc_val vals)]
  | Err e => err e
  end.

Definition run_case (t : tree) : tree :=
  match t with
  (* a world and a request sequence: results with the caches, and results of the uncached function *)
  | T 1 [w; reqs] =>
    let W := dec_world w in
    let rs := map dec_req (kids reqs) in
    T 0 [T 0 (map enc_outcome (run_cached W empty_state rs)); T 0 (map (fun r => enc_outcome (frb W r)) rs)]
  (* rounding alone *)
  | T 2 [q] => leaf (round_half_even (dec_q q))
  (* a world, the caller's objects and a history of in-place changes and requests *)
  | T 3 [w; hp; ops] =>
    let W := dec_world w in
    let H := dec_heap hp in
    let h := map dec_hop (kids ops) in
    T 0 [T 0 (map enc_outcome (run_hist glue_policy W H empty_hstate h)); T 0 (map enc_outcome (plain_hist W H h))]
  | _ => err (-2)
  end.
